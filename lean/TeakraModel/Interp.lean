import TeakraModel.Core
import TeakraModel.Operand
import TeakraModel.Alu
import TeakraModel.RegLayoutTypes
import TeakraModel.Golden.RegLayout
/-!
# Shared helpers of `Interpreter` (src/interpreter.h, private section and a few public ones)

Same names as the C++ in lowerCamelCase, same order of effects.  Everything runs in
`Exec = StateT Core (Except Stop)`.
-/
namespace Teakra
open Exec RegName

namespace Interp

/-! ## memory (everything goes through the bus model) -/

private def liftBus {α : Type} (r : R α) : Exec α :=
  match r with
  | .ok a => pure a
  | .error e => abort e

/-- `MemoryInterface::DataRead(address)` (no bypass): MMIO window → peripheral register, else the
converted address in shared memory. -/
def dataRead (addr : U16) : Exec U16 := do
  let c ← get
  let (v, bus, evs, accs) ← liftBus (c.bus.dataRead addr false)
  set (({ c with bus := bus, log := accs.reverse ++ c.log } : Core).emit evs)
  return v

/-- `MemoryInterface::DataWrite(address, value)` -/
def dataWrite (addr : U16) (v : U16) : Exec Unit := do
  let c ← get
  let (bus, evs, accs) ← liftBus (c.bus.dataWrite addr v false)
  set (({ c with bus := bus, log := accs.reverse ++ c.log } : Core).emit evs)

/-- `mem.ProgramRead(address)` -/
def programRead (addr : U32) : Exec U16 := do
  let c ← get
  let (v, accs) ← liftBus (c.bus.programRead addr)
  set { c with log := accs.reverse ++ c.log }
  return v

/-- `mem.ProgramWrite(address, value)` -/
def programWrite (addr : U32) (v : U16) : Exec Unit := do
  let c ← get
  let (bus, accs) ← liftBus (c.bus.programWrite addr v)
  set { c with bus := bus, log := accs.reverse ++ c.log }

/-! ## accumulators and flags -/

def accIndex : RegName → Option (Bool × Fin 2)   -- (isB, index)
  | a0 | a0h | a0l | a0e => some (false, 0)
  | a1 | a1h | a1l | a1e => some (false, 1)
  | b0 | b0h | b0l | b0e => some (true, 0)
  | b1 | b1h | b1l | b1e => some (true, 1)
  | _ => none

/-- `GetAcc` -/
def getAcc (name : RegName) : Exec U64 := do
  let r ← getRegs
  match accIndex name with
  | some (false, i) => return r.a[i]
  | some (true, i) => return r.b[i]
  | none => unreachable

/-- `SetAcc` -/
def setAcc (name : RegName) (value : U64) : Exec Unit := do
  match accIndex name with
  | some (false, i) => modifyRegs fun r => { r with a := r.a.set i value }
  | some (true, i) => modifyRegs fun r => { r with b := r.b.set i value }
  | none => unreachable

/-- `SetAccFlag` -/
def setAccFlag (value : U64) : Exec Unit :=
  let f := Alu.accFlags value
  modifyRegs fun r => { r with fz := f.fz, fm := f.fm, fe := f.fe, fn := f.fn }

/-- `SaturateAccNoFlag` -/
def saturateAccNoFlag (value : U64) : U64 := (Alu.saturate value).1

/-- `SaturateAcc` -/
def saturateAcc (value : U64) : Exec U64 := do
  let (v, sat) := Alu.saturate value
  if sat then modifyRegs fun r => { r with flm := 1 }
  return v

/-- `GetAndSatAcc` -/
def getAndSatAcc (name : RegName) : Exec U64 := do
  let value ← getAcc name
  if (← getRegs).sat == 0 then saturateAcc value else return value

/-- `GetAndSatAccNoFlag` -/
def getAndSatAccNoFlag (name : RegName) : Exec U64 := do
  let value ← getAcc name
  if (← getRegs).sat == 0 then return saturateAccNoFlag value else return value

/-- `SatAndSetAccAndFlag` -/
def satAndSetAccAndFlag (name : RegName) (value : U64) : Exec Unit := do
  setAccFlag value
  let value ← if (← getRegs).sata == 0 then saturateAcc value else pure value
  setAcc name value

/-- `SetAccAndFlag` -/
def setAccAndFlag (name : RegName) (value : U64) : Exec Unit := do
  setAccFlag value
  setAcc name value

/-- `AddSub` -/
def addSub (a b : U64) (sub : Bool) : Exec U64 := do
  let o := Alu.addSub a b sub
  modifyRegs fun r => { r with fc0 := o.fc0, fv := o.fv, fvl := if o.fv != 0 then 1 else r.fvl }
  return o.result

/-- `RegisterState::ConditionPass` -/
def conditionPass (cond : CondValue) : Exec Bool := do
  let r ← getRegs
  return match cond with
  | .true_ => true
  | .eq => r.fz == 1
  | .neq => r.fz == 0
  | .gt => r.fz == 0 && r.fm == 0
  | .ge => r.fm == 0
  | .lt => r.fm == 1
  | .le => r.fm == 1 || r.fz == 1
  | .nn => r.fn == 0
  | .c => r.fc0 == 1
  | .v => r.fv == 1
  | .e => r.fe == 1
  | .l => r.flm == 1 || r.fvl == 1
  | .nr => r.fr == 0
  | .niu0 => r.iu[0] == 0
  | .iu0 => r.iu[0] == 1
  | .iu1 => r.iu[1] == 1

/-! ## products -/

/-- `ProductToBus40(Px{unit})` -/
def productToBus40 (unit : Fin 2) : Exec U64 := do
  let r ← getRegs
  return Alu.productToBus40 r.p[unit] r.pe[unit] r.ps[unit]

/-- `ProductToBus32_NoShift` -/
def productToBus32NoShift (unit : Fin 2) : Exec U32 := do return (← getRegs).p[unit]

/-- `ProductFromBus32` -/
def productFromBus32 (unit : Fin 2) (value : U32) : Exec Unit :=
  modifyRegs fun r => { r with p := r.p.set unit value, pe := r.pe.set unit ((value >>> 31).setWidth 16) }

/-- `DoMultiplication` -/
def doMultiplication (unit : Fin 2) (xSign ySign : Bool) : Exec Unit :=
  modifyRegs fun r =>
    let pr := Alu.multiply r.x[unit] r.y[unit] r.hwm unit.val xSign ySign
    { r with p := r.p.set unit pr.1, pe := r.pe.set unit pr.2 }

/-! ## pseudo registers (`RegisterState::Get<T>` / `Set<T>`), driven by the layout table -/

/-- `RegisterState::Lc()` as a getter … -/
def _root_.Teakra.Regs.lc (r : Regs) : U16 :=
  if r.lp != 0 then (r.bkrep.toArray.getD (r.bcn.toNat - 1) {}).lc else r.bkrep[0].lc

/-- Field read used by the proxies (`self->*target`, `(self->*target)[index]`). -/
def _root_.Teakra.Regs.getF (r : Regs) (field : String) (i : Nat) : U16 :=
  match field with
  | "stepi" => r.stepi | "modi" => r.modi | "stepj" => r.stepj | "modj" => r.modj
  | "flm" => r.flm | "fvl" => r.fvl | "fe" => r.fe | "fc0" => r.fc0 | "fv" => r.fv
  | "fn" => r.fn | "fm" => r.fm | "fz" => r.fz | "fc1" => r.fc1 | "fr" => r.fr
  | "iu" => r.iu.toArray.getD i 0 | "pe" => r.pe.toArray.getD i 0 | "ip" => r.ip.toArray.getD i 0
  | "ipv" => r.ipv | "pcmhi" => r.pcmhi | "bcn" => r.bcn | "lp" => r.lp
  | "sat" => r.sat | "sata" => r.sata | "mod0_unk_const" => r.mod0_unk_const | "hwm" => r.hwm
  | "s" => r.s | "ou" => r.ou.toArray.getD i 0 | "ps" => r.ps.toArray.getD i 0
  | "page" => r.page | "stp16" => r.stp16 | "cmd" => r.cmd | "epi" => r.epi | "epj" => r.epj
  | "m" => r.m.toArray.getD i 0 | "br" => r.br.toArray.getD i 0
  | "nimc" => r.nimc | "ic" => r.ic.toArray.getD i 0 | "ie" => r.ie
  | "im" => r.im.toArray.getD i 0 | "imv" => r.imv
  | "ccnta" => r.ccnta | "cpc" => r.cpc | "crep" => r.crep
  | "arstep" => r.arstep.toArray.getD i 0 | "aroffset" => r.aroffset.toArray.getD i 0
  | "arrn" => r.arrn.toArray.getD i 0
  | "arpstepi" => r.arpstepi.toArray.getD i 0 | "arpstepj" => r.arpstepj.toArray.getD i 0
  | "arpoffseti" => r.arpoffseti.toArray.getD i 0 | "arpoffsetj" => r.arpoffsetj.toArray.getD i 0
  | "arprni" => r.arprni.toArray.getD i 0 | "arprnj" => r.arprnj.toArray.getD i 0
  | _ => 0

def vset {n : Nat} (v : Vector U16 n) (i : Nat) (x : U16) : Vector U16 n :=
  if h : i < n then v.set i x h else v

def _root_.Teakra.Regs.setF (r : Regs) (field : String) (i : Nat) (x : U16) : Regs :=
  match field with
  | "stepi" => { r with stepi := x } | "modi" => { r with modi := x }
  | "stepj" => { r with stepj := x } | "modj" => { r with modj := x }
  | "flm" => { r with flm := x } | "fvl" => { r with fvl := x } | "fe" => { r with fe := x }
  | "fc0" => { r with fc0 := x } | "fv" => { r with fv := x } | "fn" => { r with fn := x }
  | "fm" => { r with fm := x } | "fz" => { r with fz := x } | "fc1" => { r with fc1 := x }
  | "fr" => { r with fr := x }
  | "iu" => { r with iu := vset r.iu i x } | "pe" => { r with pe := vset r.pe i x }
  | "ip" => { r with ip := vset r.ip i x } | "ipv" => { r with ipv := x }
  | "pcmhi" => { r with pcmhi := x } | "bcn" => { r with bcn := x } | "lp" => { r with lp := x }
  | "sat" => { r with sat := x } | "sata" => { r with sata := x }
  | "mod0_unk_const" => { r with mod0_unk_const := x } | "hwm" => { r with hwm := x }
  | "s" => { r with s := x } | "ou" => { r with ou := vset r.ou i x }
  | "ps" => { r with ps := vset r.ps i x } | "page" => { r with page := x }
  | "stp16" => { r with stp16 := x } | "cmd" => { r with cmd := x }
  | "epi" => { r with epi := x } | "epj" => { r with epj := x }
  | "m" => { r with m := vset r.m i x } | "br" => { r with br := vset r.br i x }
  | "nimc" => { r with nimc := x } | "ic" => { r with ic := vset r.ic i x }
  | "ie" => { r with ie := x } | "im" => { r with im := vset r.im i x } | "imv" => { r with imv := x }
  | "ccnta" => { r with ccnta := x } | "cpc" => { r with cpc := x } | "crep" => { r with crep := x }
  | "arstep" => { r with arstep := vset r.arstep i x }
  | "aroffset" => { r with aroffset := vset r.aroffset i x }
  | "arrn" => { r with arrn := vset r.arrn i x }
  | "arpstepi" => { r with arpstepi := vset r.arpstepi i x }
  | "arpstepj" => { r with arpstepj := vset r.arpstepj i x }
  | "arpoffseti" => { r with arpoffseti := vset r.arpoffseti i x }
  | "arpoffsetj" => { r with arpoffsetj := vset r.arpoffsetj i x }
  | "arprni" => { r with arprni := vset r.arprni i x }
  | "arprnj" => { r with arprnj := vset r.arprnj i x }
  | _ => r

/-- `Proxy::Get(self)` for one slot. -/
def slotGet (r : Regs) (s : Regs.Slot) : U16 :=
  match s.kind with
  | .rw | .ro => r.getF s.field s.index
  | .double => r.getF s.field 0 ||| r.getF s.field2 0
  | .accE => ((r.a.toArray.getD s.index 0 >>> 32) &&& 0xF).setWidth 16
  | .lp => r.lp

/-- `Proxy::Set(self, value)` for one slot. -/
def slotSet (r : Regs) (s : Regs.Slot) (value : U16) : Regs :=
  match s.kind with
  | .rw => r.setF s.field s.index value
  | .ro => r
  | .double => (r.setF s.field 0 value).setF s.field2 0 value
  | .accE =>
    if h : s.index < 2 then
      let value32 : U32 := Alu.signExtend32 4 (value.setWidth 32)
      let acc := (r.a[s.index] &&& 0xFFFFFFFF) ||| (value32.setWidth 64 <<< 32)
      { r with a := r.a.set s.index acc }
    else r
  | .lp => if value != 0 then { r with lp := 0, bcn := 0 } else r

/-- `PseudoRegister::Get`: `((Proxy::Get(self) << pos) | ...)` — computed in `int`, truncated to
`u16` on return. -/
def wordGet (slots : List Regs.Slot) (r : Regs) : U16 :=
  (slots.foldl (fun (acc : U32) s => acc ||| ((slotGet r s).setWidth 32 <<< s.pos)) 0).setWidth 16

/-- `PseudoRegister::Set`: each proxy gets `(value >> pos) & ((1 << len) - 1)`, in slot order. -/
def wordSet (slots : List Regs.Slot) (r : Regs) (value : U16) : Regs :=
  slots.foldl (fun r s => slotSet r s ((value >>> s.pos) &&& (BitVec.ofNat 16 (2 ^ s.len - 1)))) r

def layoutOf (word : String) : List Regs.Slot :=
  match Regs.Golden.layouts.find? (·.1 == word) with
  | some (_, ss) => ss
  | none => []

def pseudoName : RegName → Option String
  | ar0 => some "ar0" | ar1 => some "ar1"
  | arp0 => some "arp0" | arp1 => some "arp1" | arp2 => some "arp2" | arp3 => some "arp3"
  | stt0 => some "stt0" | stt1 => some "stt1" | stt2 => some "stt2"
  | st0 => some "st0" | st1 => some "st1" | st2 => some "st2"
  | cfgi => some "cfgi" | cfgj => some "cfgj"
  | mod0 => some "mod0" | mod1 => some "mod1" | mod2 => some "mod2" | mod3 => some "mod3"
  | _ => none

/-- `regs.Get<word>()` -/
def getPseudo (word : String) : Exec U16 := do return wordGet (layoutOf word) (← getRegs)
/-- `regs.Set<word>(value)` -/
def setPseudo (word : String) (value : U16) : Exec Unit :=
  modifyRegs fun r => wordSet (layoutOf word) r value

/-! ## 16-bit bus -/

/-- `RegToBus16` -/
def regToBus16 (reg : RegName) (enableSatForMov : Bool := false) : Exec U16 := do
  match reg with
  | a0 | a1 | b0 | b1 => return ((← getAcc reg) &&& 0xFFFF).setWidth 16
  | a0l | a1l | b0l | b1l =>
    if enableSatForMov then return ((← getAndSatAcc reg) &&& 0xFFFF).setWidth 16
    else return ((← getAcc reg) &&& 0xFFFF).setWidth 16
  | a0h | a1h | b0h | b1h =>
    if enableSatForMov then return (((← getAndSatAcc reg) >>> 16) &&& 0xFFFF).setWidth 16
    else return (((← getAcc reg) >>> 16) &&& 0xFFFF).setWidth 16
  | a0e | a1e | b0e | b1e => unreachable
  | r0 => return (← getRegs).r[0] | r1 => return (← getRegs).r[1]
  | r2 => return (← getRegs).r[2] | r3 => return (← getRegs).r[3]
  | r4 => return (← getRegs).r[4] | r5 => return (← getRegs).r[5]
  | r6 => return (← getRegs).r[6] | r7 => return (← getRegs).r[7]
  | y0 => return (← getRegs).y[0]
  | p => return (((← productToBus40 0) >>> 16) &&& 0xFFFF).setWidth 16
  | pc => unreachable
  | sp => return (← getRegs).sp
  | sv => return (← getRegs).sv
  | lc => return (← getRegs).lc
  | ext0 => return (← getRegs).ext[0] | ext1 => return (← getRegs).ext[1]
  | ext2 => return (← getRegs).ext[2] | ext3 => return (← getRegs).ext[3]
  | undefine => unreachable
  | _ =>
    match pseudoName reg with
    | some w => getPseudo w
    | none => unreachable

/-- `regs.Lc() = value` -/
def setLc (value : U16) : Exec Unit :=
  modifyRegs fun r =>
    let i := if r.lp != 0 then r.bcn.toNat - 1 else 0
    if h : i < 4 then { r with bkrep := r.bkrep.set i { r.bkrep[i] with lc := value } } else r

def setR (i : Nat) (value : U16) : Exec Unit := modifyRegs fun r => { r with r := vset r.r i value }

/-- `RegFromBus16` -/
def regFromBus16 (reg : RegName) (value : U16) : Exec Unit := do
  match reg with
  | a0 | a1 | b0 | b1 => satAndSetAccAndFlag reg (Alu.signExtend 16 (value.setWidth 64))
  | a0l | a1l | b0l | b1l => satAndSetAccAndFlag reg (value.setWidth 64)
  | a0h | a1h | b0h | b1h =>
    -- `SignExtend<32, u64>(value << 16)`: `value << 16` is an `int`; converted to u64 first
    satAndSetAccAndFlag reg (Alu.signExtend 32 ((((value.setWidth 32 : U32) <<< 16).signExtend 64)))
  | a0e | a1e | b0e | b1e => unreachable
  | r0 => setR 0 value | r1 => setR 1 value | r2 => setR 2 value | r3 => setR 3 value
  | r4 => setR 4 value | r5 => setR 5 value | r6 => setR 6 value | r7 => setR 7 value
  | y0 => modifyRegs fun r => { r with y := r.y.set 0 value }
  | p =>
    modifyRegs fun r =>
      { r with pe := r.pe.set 0 (Alu.b2u (value.toNat > 0x7FFF)),
               p := r.p.set 0 ((r.p[0] &&& 0xFFFF) ||| ((value.setWidth 32 : U32) <<< 16)) }
  | pc => unreachable
  | sp => modifyRegs fun r => { r with sp := value }
  | sv => modifyRegs fun r => { r with sv := value }
  | lc => setLc value
  | ext0 => modifyRegs fun r => { r with ext := r.ext.set 0 value }
  | ext1 => modifyRegs fun r => { r with ext := r.ext.set 1 value }
  | ext2 => modifyRegs fun r => { r with ext := r.ext.set 2 value }
  | ext3 => modifyRegs fun r => { r with ext := r.ext.set 3 value }
  | undefine => unreachable
  | _ =>
    match pseudoName reg with
    | some w => setPseudo w value
    | none => unreachable

/-! ## address unit -/

def OffsetValue := Nat   -- 0 Zero, 1 PlusOne, 2 MinusOne, 3 MinusOneDmod

/-- `ConvertArStep` -/
def convertArStep (v : U16) : Exec StepValue :=
  match v.toNat with
  | 0 => pure .zero | 1 => pure .increase | 2 => pure .decrease | 3 => pure .plusStep
  | 4 => pure .increase2Mode1 | 5 => pure .decrease2Mode1
  | 6 => pure .increase2Mode2 | 7 => pure .decrease2Mode2
  | _ => unreachable

/-- `GetArRnUnit(arrn)`; `idx = arrn.Index()` -/
def getArRnUnit (idx : Nat) : Exec Nat := do return ((← getRegs).arrn.toArray.getD idx 0).toNat
/-- `GetArpRnUnit` -/
def getArpRnUnit (idx : Nat) : Exec (Nat × Nat) := do
  let r ← getRegs
  return ((r.arprni.toArray.getD idx 0).toNat, (r.arprnj.toArray.getD idx 0).toNat + 4)
/-- `GetArStep` -/
def getArStep (idx : Nat) : Exec StepValue := do convertArStep ((← getRegs).arstep.toArray.getD idx 0)
/-- `GetArpStep(i, j)` -/
def getArpStep (idxi idxj : Nat) : Exec (StepValue × StepValue) := do
  let r ← getRegs
  let si ← convertArStep (r.arpstepi.toArray.getD idxi 0)
  let sj ← convertArStep (r.arpstepj.toArray.getD idxj 0)
  return (si, sj)
/-- `GetArOffset` -/
def getArOffset (idx : Nat) : Exec Nat := do return ((← getRegs).aroffset.toArray.getD idx 0).toNat
/-- `GetArpOffset(i, j)` -/
def getArpOffset (idxi idxj : Nat) : Exec (Nat × Nat) := do
  let r ← getRegs
  return ((r.arpoffseti.toArray.getD idxi 0).toNat, (r.arpoffsetj.toArray.getD idxj 0).toNat)

/-- `std20::log2p1` on a 16-bit value: position of the highest set bit plus one. -/
def log2p1 (v : U16) : Nat := if v == 0 then 0 else Nat.log2 v.toNat + 1

/-- `RnAddress` -/
def rnAddress (unit : Nat) (value : U16) : Exec U16 := do
  let r ← getRegs
  if r.br.toArray.getD unit 0 != 0 && r.m.toArray.getD unit 0 == 0 then return Alu.bitReverse value
  else return value

/-- The step amount `s` and the two "step by 2" mode flags selected by the first `switch` of
`StepAddress`. -/
def stepAmount (r : Regs) (unit : Nat) (step : StepValue) : U16 × Bool × Bool :=
  let legacy := r.cmd != 0
  let brU := r.br.toArray.getD unit 0
  let mU := r.m.toArray.getD unit 0
  match step with
  | .zero => (0, false, false)
  | .increase => (1, false, false)
  | .decrease => (0xFFFF, false, false)
  | .increase2Mode1 => (2, !legacy, false)
  | .decrease2Mode1 => (0xFFFE, !legacy, false)
  | .increase2Mode2 => (2, false, !legacy)
  | .decrease2Mode2 => (0xFFFE, false, !legacy)
  | .plusStep =>
    let s : U16 :=
      if brU != 0 && mU == 0 then (if unit < 4 then r.stepi0 else r.stepj0)
      else Alu.signExtend16 7 (if unit < 4 then r.stepi else r.stepj)
    let s : U16 :=
      if r.stp16 == 1 && !legacy then
        let s0 := if unit < 4 then r.stepi0 else r.stepj0
        if mU != 0 then Alu.signExtend16 9 s0 else s0
      else s
    (s, false, false)

/-- `(1 << log2p1(m)) - 1` as a `u16` -/
def lowMask (m : U16) : U16 := BitVec.ofNat 16 (2 ^ log2p1 m) - 1

/-- One modulo step, TeakLite-compatible branch (`legacy || step2_mode2`). -/
def modStepLegacy (mod s address : U16) (step2Mode2 : Bool) : U16 :=
  let negative := (s >>> 15) != 0
  let m : U16 := if negative then mod ||| ~~~s else mod ||| s
  let mask := lowMask m
  let next : U16 :=
    if !negative then
      if (address &&& mask) == mod && (!step2Mode2 || mod != mask) then 0
      else (address + s) &&& mask
    else
      if (address &&& mask) == 0 && (!step2Mode2 || mod != mask) then mod
      else (address + s) &&& mask
  (address &&& ~~~mask) ||| next

/-- One modulo step, Teak branch. -/
def modStepNew (mod s address : U16) : U16 :=
  let mask := lowMask mod
  let next : U16 :=
    if s.toNat < 0x8000 then
      let next := (address + s) &&& mask
      if next == ((mod + 1) &&& mask) then 0 else next
    else
      let next := address &&& mask
      let next := if next == 0 then mod + 1 else next
      (next + s) &&& mask
  (address &&& ~~~mask) ||| next

/-- Pure core of `StepAddress`. -/
def stepAddressPure (r : Regs) (unit : Nat) (address : U16) (step : StepValue) (dmod : Bool) : U16 :=
  let legacy := r.cmd != 0
  let brU := r.br.toArray.getD unit 0
  let mU := r.m.toArray.getD unit 0
  let (s, step2Mode1, step2Mode2) := stepAmount r unit step
  if s == 0 then address
  else if !dmod && brU == 0 && mU != 0 then
    let mod := if unit < 4 then r.modi else r.modj
    if mod == 0 then address
    else if mod == 1 && step2Mode2 then address
    else
      let (iteration, s) : Nat × U16 :=
        if step2Mode1 then (2, Alu.signExtend16 15 (s >>> 1)) else (1, s)
      let once (address : U16) : U16 :=
        if legacy || step2Mode2 then modStepLegacy mod s address step2Mode2
        else modStepNew mod s address
      if iteration == 2 then once (once address) else once address
  else address + s

/-- `StepAddress` -/
def stepAddress (unit : Nat) (address : U16) (step : StepValue) (dmod : Bool := false) : Exec U16 := do
  return stepAddressPure (← getRegs) unit address step dmod

/-- `RnAndModify` -/
def rnAndModify (unit : Nat) (step : StepValue) (dmod : Bool := false) : Exec U16 := do
  let r ← getRegs
  let ret := r.r.toArray.getD unit 0
  if (unit == 3 && r.epi != 0) || (unit == 7 && r.epj != 0) then
    if step != .increase2Mode1 && step != .decrease2Mode1 && step != .increase2Mode2 &&
        step != .decrease2Mode2 then
      setR unit 0
      return ret
  setR unit (stepAddressPure r unit ret step dmod)
  return ret

/-- `RnAddressAndModify` -/
def rnAddressAndModify (unit : Nat) (step : StepValue) (dmod : Bool := false) : Exec U16 := do
  rnAddress unit (← rnAndModify unit step dmod)

/-- `OffsetAddress` -/
def offsetAddress (unit : Nat) (address : U16) (offset : Nat) (dmod : Bool := false) : Exec U16 := do
  if offset == 0 then return address
  if offset == 3 then return address - 1
  let r ← getRegs
  -- `regs.m[unit] & !regs.br[unit] & !dmod` (bitwise on int, then converted to bool)
  let emod := ((r.m.toArray.getD unit 0).toNat &&& (if r.br.toArray.getD unit 0 == 0 then 1 else 0) &&&
               (if dmod then 0 else 1)) != 0
  let mod := if unit < 4 then r.modi else r.modj
  let mask : U16 := (List.range 9).foldl (fun (acc : U16) i => acc ||| (mod >>> i)) 1
  if offset == 1 then
    if !emod then return address + 1
    if (address &&& mask) == mod then return address &&& ~~~mask
    return address + 1
  else
    if !emod then return address - 1
    unimpl

/-! ## program counter and stack -/

/-- `SetPC` -/
def setPC (newPc : U32) : Exec Unit := do
  assert (newPc.toNat < 0x40000)
  modifyRegs fun r => { r with pc := newPc }

/-- `mem.DataWrite(--regs.sp, v)` -/
def pushWord (v : U16) : Exec Unit := do
  modifyRegs fun r => { r with sp := r.sp - 1 }
  dataWrite (← getRegs).sp v

/-- `mem.DataRead(regs.sp++)` -/
def popWord : Exec U16 := do
  let sp := (← getRegs).sp
  modifyRegs fun r => { r with sp := r.sp + 1 }
  dataRead sp

/-- `PushPC` -/
def pushPC : Exec Unit := do
  let r ← getRegs
  let l : U16 := (r.pc &&& 0xFFFF).setWidth 16
  let h : U16 := (r.pc >>> 16).setWidth 16
  if r.cpc == 1 then
    pushWord h; pushWord l
  else
    pushWord l; pushWord h

/-- `PopPC` -/
def popPC : Exec Unit := do
  let r ← getRegs
  let (l, h) ← if r.cpc == 1 then do
      let l ← popWord; let h ← popWord; pure (l, h)
    else do
      let h ← popWord; let l ← popWord; pure (l, h)
  setPC ((l.setWidth 32 : U32) ||| ((h.setWidth 32 : U32) <<< 16))

/-! ## shadows and context -/

/-- `RegisterState::ShadowStore` -/
def shadowStore : Exec Unit := modifyRegs fun r =>
  { r with sh_flm := r.flm, sh_fvl := r.fvl, sh_fe := r.fe, sh_fc0 := r.fc0, sh_fc1 := r.fc1,
           sh_fv := r.fv, sh_fn := r.fn, sh_fm := r.fm, sh_fz := r.fz, sh_fr := r.fr }

/-- `RegisterState::ShadowRestore` -/
def shadowRestore : Exec Unit := modifyRegs fun r =>
  { r with flm := r.sh_flm, fvl := r.sh_fvl, fe := r.sh_fe, fc0 := r.sh_fc0, fc1 := r.sh_fc1,
           fv := r.sh_fv, fn := r.sh_fn, fm := r.sh_fm, fz := r.sh_fz, fr := r.sh_fr }

/-- `ShadowSwapAr<index>::Swap` -/
def swapArPure (r : Regs) (index : Fin 2) : Regs :=
  let sh := r.ss_ar[index]
  let i0 := index.val * 2
  let i1 := index.val * 2 + 1
  { r with
    ss_ar := r.ss_ar.set index
      { rni := r.arrn.toArray.getD i0 0, rnj := r.arrn.toArray.getD i1 0,
        stepi := r.arstep.toArray.getD i0 0, stepj := r.arstep.toArray.getD i1 0,
        offseti := r.aroffset.toArray.getD i0 0, offsetj := r.aroffset.toArray.getD i1 0 },
    arrn := vset (vset r.arrn i0 sh.rni) i1 sh.rnj,
    arstep := vset (vset r.arstep i0 sh.stepi) i1 sh.stepj,
    aroffset := vset (vset r.aroffset i0 sh.offseti) i1 sh.offsetj }

/-- `ShadowSwapArp<index>::Swap` -/
def swapArpPure (r : Regs) (index : Fin 4) : Regs :=
  let sh := r.ss_arp[index]
  { r with
    ss_arp := r.ss_arp.set index
      { rni := r.arprni[index], rnj := r.arprnj[index], stepi := r.arpstepi[index],
        stepj := r.arpstepj[index], offseti := r.arpoffseti[index], offsetj := r.arpoffsetj[index] },
    arprni := r.arprni.set index sh.rni, arprnj := r.arprnj.set index sh.rnj,
    arpstepi := r.arpstepi.set index sh.stepi, arpstepj := r.arpstepj.set index sh.stepj,
    arpoffseti := r.arpoffseti.set index sh.offseti, arpoffsetj := r.arpoffsetj.set index sh.offsetj }

/-- `RegisterState::SwapAllArArp` -/
def swapAllArArpPure (r : Regs) : Regs :=
  swapArpPure (swapArpPure (swapArpPure (swapArpPure (swapArPure (swapArPure r 0) 1) 0) 1) 2) 3

/-- `shadow_swap_registers.Swap(this)` -/
def shadowSwapRegistersPure (r : Regs) : Regs :=
  { r with
    pcmhi := r.ss_pcmhi, ss_pcmhi := r.pcmhi, sat := r.ss_sat, ss_sat := r.sat,
    sata := r.ss_sata, ss_sata := r.sata, hwm := r.ss_hwm, ss_hwm := r.hwm,
    s := r.ss_s, ss_s := r.s, ps := r.ss_ps, ss_ps := r.ps, page := r.ss_page, ss_page := r.page,
    stp16 := r.ss_stp16, ss_stp16 := r.stp16, cmd := r.ss_cmd, ss_cmd := r.cmd,
    m := r.ss_m, ss_m := r.m, br := r.ss_br, ss_br := r.br, im := r.ss_im, ss_im := r.im,
    imv := r.ss_imv, ss_imv := r.imv, epi := r.ss_epi, ss_epi := r.epi,
    epj := r.ss_epj, ss_epj := r.epj }

/-- `RegisterState::ShadowSwap` -/
def shadowSwapPure (r : Regs) : Regs := swapAllArArpPure (shadowSwapRegistersPure r)
def shadowSwap : Exec Unit := modifyRegs shadowSwapPure

/-- `ContextStore` -/
def contextStore : Exec Unit := do
  shadowStore
  shadowSwap
  let r ← getRegs
  if r.crep == 0 then modifyRegs fun r => { r with repcs := r.repc }
  if r.ccnta == 0 then
    modifyRegs fun r => { r with a1s := r.a[1], b1s := r.b[1] }
  else
    let a := r.a[1]
    let b := r.b[1]
    modifyRegs fun r => { r with b := r.b.set 1 a }
    setAccAndFlag .a1 b

/-- `ContextRestore` -/
def contextRestore : Exec Unit := do
  shadowRestore
  shadowSwap
  let r ← getRegs
  if r.crep == 0 then modifyRegs fun r => { r with repc := r.repcs }
  if r.ccnta == 0 then
    modifyRegs fun r => { r with a := r.a.set 1 r.a1s, b := r.b.set 1 r.b1s }
  else
    modifyRegs fun r => { r with a := r.a.set 1 r.b[1], b := r.b.set 1 r.a[1] }

/-! ## shifter -/

/-- `ShiftBus40` -/
def shiftBus40 (value : U64) (sv : U16) (dest : RegName) : Exec Unit := do
  let value := value &&& Alu.mask40
  let originalSign := value >>> 39
  let r ← getRegs
  let o := Alu.shiftCore value sv r.s
  modifyRegs fun r => { r with fc0 := o.fc0 }
  match o.fv with
  | some fv => modifyRegs fun r => { r with fv := fv, fvl := if fv != 0 then 1 else r.fvl }
  | none => pure ()
  let value := Alu.signExtend 40 o.value
  setAccFlag value
  let r ← getRegs
  let value ←
    if r.s == 0 && r.sata == 0 then
      if r.fv != 0 || Alu.signExtend 32 value != value then do
        modifyRegs fun r => { r with flm := 1 }
        pure (if originalSign == 1 then (0xFFFFFFFF80000000 : U64) else 0x7FFFFFFF)
      else pure value
    else pure value
  setAcc dest value

/-- `Exp` is `Alu.exp`; `ExpStore` -/
def expStore (b : RegName) : Exec Unit := do
  setAcc b (Alu.signExtend 16 ((← getRegs).sv.setWidth 64))

/-- `CounterAcc` -/
def counterAcc : RegName → Exec RegName
  | a0 => pure a1 | a1 => pure a0 | b0 => pure b1 | b1 => pure b0
  | a0l => pure a1l | a1l => pure a0l | b0l => pure b1l | b1l => pure b0l
  | a0h => pure a1h | a1h => pure a0h | b0h => pure b1h | b1h => pure b0h
  | a0e => pure a1e | a1e => pure a0e | b0e => pure b1e | b1e => pure b0e
  | _ => unreachable     -- `map.at` throws std::out_of_range; not reachable from the decode table

end Interp
end Teakra
