import TeakraModel.Mmio
/-!
# The bus: `MemoryInterface`, `SharedMemory`, `CoreTiming`, `Teakra::Impl::Reset` and the host API

Everything of the `Teakra` facade except the processor core (src/memory_interface.{h,cpp},
src/shared_memory.h, src/core_timing.h, src/teakra.cpp).

* `SharedMemory::ReadWord/WriteWord(word_address)` compute `byte_address = word_address * 2` in
  `u32` (so the top bit of the word address is lost) and index a 0x80000-byte array without a
  bound: `.error .oob` exactly when the `TEAKRA_VERIF` memory hook sees
  `byte_address + 1 ≥ 0x80000`.  The `Access` values are what that hook reports.
* `MemoryInterface::DataRead/DataWrite`: `InMMIO` compares in `int` (no wrap-around:
  `addr < mmio_base + 0x800`), `ToMMIO` has `ASSERT(z_page == 0)`, `ConvertDataAddress` has
  `ASSERT(z_page < 2)` / `ASSERT(x_page < 2)` / `ASSERT(y_page < 2)`.
* `CoreTiming`: callbacks are registered by the constructors of `Timer` and `Btdmp`, i.e. in the
  member order of `Teakra::Impl`: `timer[0]`, `timer[1]`, `btdmp[0]`, `btdmp[1]`.
* `Teakra::Impl::Reset` does *not* reset the ICU, the MMIO storage words, or the
  interrupt-disable flags of the APBP channels.
-/
namespace Teakra

/-! ## shared memory -/

namespace Mem

/-- Byte `ba` of the 0x80000-byte array (`GetDspMemory()[ba]`): little endian words. -/
def byte (m : Mem) (ba : Nat) : BitVec 8 :=
  if ba % 2 = 0 then (m.read (ba / 2)).extractLsb' 0 8 else (m.read (ba / 2)).extractLsb' 8 8

/-- `GetDspMemory()[ba] = v` by the host. -/
def setByte (m : Mem) (ba : Nat) (v : BitVec 8) : Mem :=
  let w := m.read (ba / 2)
  m.write (ba / 2) (if ba % 2 = 0 then w.extractLsb' 8 8 ++ v else v ++ w.extractLsb' 0 8)

/-- `word_address * 2` in `u32`. -/
def byteAddr (wordAddr : U32) : Nat := (wordAddr * 2).toNat

/-- `ASSERT(word_address < 0x40000)` of `SharedMemory::ReadWord/WriteWord`: the array holds 0x40000 words.
(The pinned upstream code had no bound; see `inRangeUpstream`.) -/
def inRange (wordAddr : U32) : Bool := wordAddr.toNat < 0x40000

/-- What the pinned upstream code did: no check; an access was inside the array iff the `u32` byte address
`word_address * 2` (which drops the top bit of the word address) was. -/
def inRangeUpstream (wordAddr : U32) : Bool := byteAddr wordAddr + 1 < 0x80000

/-- `SharedMemory::ReadWord` -/
def readWord (m : Mem) (wordAddr : U32) : R (U16 × Access) :=
  if inRange wordAddr then .ok (m.read (byteAddr wordAddr / 2), ⟨byteAddr wordAddr, false, 0⟩)
  else .error .assert

/-- `SharedMemory::WriteWord` -/
def writeWord (m : Mem) (wordAddr : U32) (v : U16) : R (Mem × Access) :=
  if inRange wordAddr then .ok (m.write (byteAddr wordAddr / 2) v, ⟨byteAddr wordAddr, true, v⟩)
  else .error .assert

end Mem

/-! ## `MemoryInterfaceUnit` -/

namespace Miu

/-- `MemoryInterfaceUnit::InMMIO`: `addr >= mmio_base && addr < mmio_base + MMIOSize` (`int`). -/
def inMmioWindow (u : Miu) (addr : U16) : Bool :=
  u.mmioBase.toNat ≤ addr.toNat && addr.toNat < u.mmioBase.toNat + mmioSize

/-- `MemoryInterfaceUnit::ToMMIO`: `ASSERT(z_page == 0); return (addr - mmio_base) & 0x7FF;` -/
def toMmio (u : Miu) (addr : U16) : R U16 :=
  if u.zPage = 0 then .ok ((addr - u.mmioBase) &&& 0x7FF) else .error .assert

/-- `MemoryInterfaceUnit::ConvertDataAddress` (`u32` arithmetic). -/
def convert (u : Miu) (addr : U16) : R U32 :=
  if u.pageMode = 0 then
    if u.zPage < 2 then .ok (0x20000 + addr.setWidth 32 + u.zPage.setWidth 32 * 0x10000) else .error .assert
  else if addr.toNat ≤ u.xSize[0].toNat * 0x400 then
    if u.xPage < 2 then .ok (0x20000 + addr.setWidth 32 + u.xPage.setWidth 32 * 0x10000) else .error .assert
  else
    if u.yPage < 2 then .ok (0x20000 + addr.setWidth 32 + u.yPage.setWidth 32 * 0x10000) else .error .assert

end Miu

namespace Bus

/-! ## `MemoryInterface` -/

/-- `MemoryInterface::ProgramRead` -/
def programRead (b : Bus) (addr : U32) : R (U16 × List Access) :=
  match b.mem.readWord addr with
  | .ok (v, a) => .ok (v, [a])
  | .error e => .error e

/-- `MemoryInterface::ProgramWrite` -/
def programWrite (b : Bus) (addr : U32) (v : U16) : R (Bus × List Access) :=
  match b.mem.writeWord addr v with
  | .ok (m, a) => .ok ({ b with mem := m }, [a])
  | .error e => .error e

/-- `MemoryInterface::DataRead(address, bypass_mmio)` -/
def dataRead (b : Bus) (addr : U16) (bypass : Bool) : R (U16 × Bus × List PEvent × List Access) :=
  if b.miu.inMmioWindow addr && !bypass then
    match b.miu.toMmio addr with
    | .error e => .error e
    | .ok off =>
      match b.mmioRead off with
      | .ok (v, b', ev) => .ok (v, b', ev, [])
      | .error e => .error e
  else
    match b.miu.convert addr with
    | .error e => .error e
    | .ok conv =>
      match b.mem.readWord conv with
      | .ok (v, a) => .ok (v, b, [], [a])
      | .error e => .error e

/-- `MemoryInterface::DataWrite(address, value, bypass_mmio)` -/
def dataWrite (b : Bus) (addr v : U16) (bypass : Bool) : R (Bus × List PEvent × List Access) :=
  if b.miu.inMmioWindow addr && !bypass then
    match b.miu.toMmio addr with
    | .error e => .error e
    | .ok off =>
      match b.mmioWrite off v with
      | .ok (b', ev) => .ok (b', ev, [])
      | .error e => .error e
  else
    match b.miu.convert addr with
    | .error e => .error e
    | .ok conv =>
      match b.mem.writeWord conv v with
      | .ok (m, a) => .ok ({ b with mem := m }, [], [a])
      | .error e => .error e

/-- `(address & (DataMemoryBankSize*2 - 1)) + DataMemoryOffset` -/
def a32Address (addr : U32) : U32 := (addr &&& 0x1FFFF) + 0x20000

/-- `MemoryInterface::DataReadA32` -/
def dataReadA32 (b : Bus) (addr : U32) : R (U16 × List Access) := b.programRead (a32Address addr)

/-- `MemoryInterface::DataWriteA32` -/
def dataWriteA32 (b : Bus) (addr : U32) (v : U16) : R (Bus × List Access) :=
  b.programWrite (a32Address addr) v

/-- `MemoryInterface::MMIORead`: `mmio->Read(address & 0x7FF)` -/
def hostMmioRead (b : Bus) (addr : U16) : R (U16 × Bus × List PEvent) := b.mmioRead (addr &&& 0x7FF)

/-- `MemoryInterface::MMIOWrite` -/
def hostMmioWrite (b : Bus) (addr v : U16) : R (Bus × List PEvent) := b.mmioWrite (addr &&& 0x7FF) v

/-! ## `CoreTiming` -/

/-- The audio callback of `btdmp[0]` for the frames of one call. -/
def audioEvents (fs : List Frame) : List PEvent := fs.map fun f => PEvent.audio f.1 f.2

/-- `CoreTiming::Tick`: `timer[0]`, `timer[1]`, `btdmp[0]`, `btdmp[1]`, each `Tick()`.
Inside `Btdmp::Tick` the `interrupt_handler()` calls come before the audio callback; `btdmp[1]`
has no audio callback. -/
def tick (b : Bus) : R (Bus × List PEvent) :=
  match (b.per.timer[0]).tick with
  | .error e => .error e
  | .ok (t0, f0) =>
    let r0 := ({ b.per with timer := b.per.timer.set 0 t0 } : Periph).raiseIf f0 (irqTimer 0)
    match (r0.1.timer[1]).tick with
    | .error e => .error e
    | .ok (t1, f1) =>
      let r1 := ({ r0.1 with timer := r0.1.timer.set 1 t1 } : Periph).raiseIf f1 (irqTimer 1)
      let k0 := (r1.1.btdmp[0]).tick
      let r2 := ({ r1.1 with btdmp := r1.1.btdmp.set 0 k0.1 } : Periph).raiseN irqBtdmp k0.2.2
      let k1 := (r2.1.btdmp[1]).tick
      let r3 := ({ r2.1 with btdmp := r2.1.btdmp.set 1 k1.1 } : Periph).raiseN irqBtdmp k1.2.2
      .ok ({ b with per := r3.1 }, r0.2 ++ r1.2 ++ r2.2 ++ audioEvents k0.2.1 ++ r3.2)

/-- First loop of `CoreTiming::Skip` without the `maximum`: the minimum of the four
`GetMaxSkip()` (`infinity = 2^64 - 1`). -/
def maxSkip (b : Bus) : Nat :=
  min (min (min (b.per.timer[0]).maxSkip (b.per.timer[1]).maxSkip) (b.per.btdmp[0]).maxSkip)
    (b.per.btdmp[1]).maxSkip

/-- Second loop of `CoreTiming::Skip`: every callback `Skip(k)`.  (`Timer::Skip` never calls its
handler, `Btdmp::Skip` only the audio callback.) -/
def skip (b : Bus) (k : Nat) : R (Bus × List PEvent) :=
  match Timer.skipGen busTimerSkipFixed (b.per.timer[0]) k with
  | .error e => .error e
  | .ok t0 =>
    match Timer.skipGen busTimerSkipFixed (b.per.timer[1]) k with
    | .error e => .error e
    | .ok t1 =>
      match (b.per.btdmp[0]).skip k with
      | .error e => .error e
      | .ok (b0, fs) =>
        match (b.per.btdmp[1]).skip k with
        | .error e => .error e
        | .ok (b1, _) =>
          let ts := (b.per.timer.set 0 t0).set 1 t1
          let bs := (b.per.btdmp.set 0 b0).set 1 b1
          .ok ({ b with per := { b.per with timer := ts, btdmp := bs } }, audioEvents fs)

/-- `CoreTiming::Skip(maximum)`: the ticks value and the result of the skip. -/
def coreSkip (b : Bus) (maximum : Nat) : R (Nat × Bus × List PEvent) :=
  let k := min maximum b.maxSkip
  match b.skip k with
  | .ok (b', ev) => .ok (k, b', ev)
  | .error e => .error e

/-! ## `Teakra::Impl::Reset` (without `processor.Reset()`) -/

/-- `memset(raw, 0, 0x80000)`, then `Reset()` of miu, icu, mmio (the storage words), apbp_from_cpu,
apbp_from_dsp, timer[0..1], ahbm, dma, btdmp[0..1].  Not touched: what belongs to the host (the
external memory behind the AHBM callbacks, the callbacks). -/
def reset (b : Bus) : Bus :=
  { b with
    mem := {}
    miu := {}
    per := { b.per with
      icu := {}
      store := Vector.replicate mmioSize 0
      apbpFromCpu := b.per.apbpFromCpu.reset
      apbpFromDsp := b.per.apbpFromDsp.reset
      timer := Vector.replicate 2 (Timer.reset {})
      ahbm := b.per.ahbm.reset
      dma := b.per.dma.reset
      btdmp := Vector.replicate 2 (Btdmp.reset {}) } }

/-- The pinned upstream `Reset`: the ICU, the MMIO storage words and the mailbox
interrupt-disable flags survived it (kept as the witness of the defect repaired in /repo). -/
def resetUpstream (b : Bus) : Bus :=
  { b.reset with
    per := { b.reset.per with
      icu := b.per.icu
      store := b.per.store
      apbpFromCpu := { b.reset.per.apbpFromCpu with
        dataChannels := Vector.ofFn fun i =>
          { (b.reset.per.apbpFromCpu.dataChannels[i]) with disableInterrupt := (b.per.apbpFromCpu.dataChannels[i]).disableInterrupt } }
      apbpFromDsp := { b.reset.per.apbpFromDsp with
        dataChannels := Vector.ofFn fun i =>
          { (b.reset.per.apbpFromDsp.dataChannels[i]) with disableInterrupt := (b.per.apbpFromDsp.dataChannels[i]).disableInterrupt } } } }

/-! ## host API (src/teakra.cpp); the `std::uint8_t index` is unchecked in the C++ -/

/-- `Teakra::SendData`: `apbp_from_cpu.SendData`, whose handler is `icu.TriggerSingle(0xE)`. -/
def sendData (b : Bus) (index : Nat) (v : U16) : R (Bus × List PEvent) :=
  match b.per.apbpFromCpu.sendDataN index v with
  | .error e => .error e
  | .ok (a, ev) =>
    let r := ({ b.per with apbpFromCpu := a } : Periph).raiseN irqApbp ev.length
    .ok ({ b with per := r.1 }, r.2)

/-- `Teakra::RecvData` -/
def recvData (b : Bus) (index : Nat) : R (U16 × Bus) :=
  match b.per.apbpFromDsp.recvDataN index with
  | .error e => .error e
  | .ok (a, v) => .ok (v, { b with per := { b.per with apbpFromDsp := a } })

/-- `Teakra::PeekRecvData` -/
def peekRecvData (b : Bus) (index : Nat) : R U16 := b.per.apbpFromDsp.peekDataN index
/-- `Teakra::RecvDataIsReady` -/
def recvDataIsReady (b : Bus) (index : Nat) : R Bool := b.per.apbpFromDsp.isDataReadyN index
/-- `Teakra::SendDataIsEmpty` -/
def sendDataIsEmpty (b : Bus) (index : Nat) : R Bool :=
  match b.per.apbpFromCpu.isDataReadyN index with
  | .ok r => .ok (!r)
  | .error e => .error e

/-- `Teakra::SetSemaphore` (`apbp_from_cpu`; handler = `icu.TriggerSingle(0xE)`). -/
def setSemaphore (b : Bus) (v : U16) : Bus × List PEvent :=
  let s := b.per.apbpFromCpu.setSemaphore v
  let r := ({ b.per with apbpFromCpu := s.1 } : Periph).raiseN irqApbp s.2.length
  ({ b with per := r.1 }, r.2)

/-- `Teakra::ClearSemaphore` (`apbp_from_dsp`) -/
def clearSemaphore (b : Bus) (v : U16) : Bus :=
  { b with per := { b.per with apbpFromDsp := b.per.apbpFromDsp.clearSemaphore v } }

/-- `Teakra::MaskSemaphore` (`apbp_from_dsp`; handler = the host's semaphore handler). -/
def maskSemaphore (b : Bus) (v : U16) : Bus × List PEvent :=
  let s := b.per.apbpFromDsp.maskSemaphoreGen busApbpMaskFixed v
  ({ b with per := { b.per with apbpFromDsp := s.1 } }, s.2.map PEvent.ofApbpDsp)

/-- `Teakra::GetSemaphore` (`apbp_from_dsp`) -/
def getSemaphore (b : Bus) : U16 := b.per.apbpFromDsp.getSemaphore

/-- Apply the callback invocations of one AHBM call to the external memory. -/
def commitExt (b : Bus) (a : Ahbm) (ev : List ExtEvent) : Bus × List PEvent :=
  ({ b with per := { b.per with ahbm := a }, ext := ExtMem.applyAll b.ext ev }, ev.map PEvent.ext)

/-- `Teakra::AHBMRead16`: `ahbm.Read16(0, addr)` -/
def ahbmRead16 (b : Bus) (addr : U32) : R (U16 × Bus × List PEvent) :=
  match b.per.ahbm.read16 (ExtMem.reader b.ext) 0 addr with
  | .error e => .error e
  | .ok (a, v, ev) => let r := b.commitExt a ev; .ok (v, r.1, r.2)

/-- `Teakra::AHBMRead32`: `ahbm.Read32(0, addr)` — declared `std::uint16_t`, so the `u32` is
truncated. -/
def ahbmRead32 (b : Bus) (addr : U32) : R (U16 × Bus × List PEvent) :=
  match b.per.ahbm.read32 (ExtMem.reader b.ext) 0 addr with
  | .error e => .error e
  | .ok (a, v, ev) => let r := b.commitExt a ev; .ok (v.setWidth 16, r.1, r.2)

/-- `Teakra::AHBMWrite16` -/
def ahbmWrite16 (b : Bus) (addr : U32) (v : U16) : R (Bus × List PEvent) :=
  match b.per.ahbm.write16 0 addr v with
  | .error e => .error e
  | .ok (a, ev) => .ok (b.commitExt a ev)

/-- `Teakra::AHBMWrite32` -/
def ahbmWrite32 (b : Bus) (addr : U32) (v : U32) : R (Bus × List PEvent) :=
  match b.per.ahbm.write32 0 addr v with
  | .error e => .error e
  | .ok (a, ev) => .ok (b.commitExt a ev)

/-- `Teakra::AHBMGetUnitSize / AHBMGetDirection / AHBMGetDmaChannel` (`u16 i` unchecked). -/
def ahbmGetUnitSize (b : Bus) (i : U16) : R U16 := b.per.ahbm.getUnitSize i
def ahbmGetDirection (b : Bus) (i : U16) : R U16 := b.per.ahbm.getDirection i
def ahbmGetDmaChannel (b : Bus) (i : U16) : R U16 := b.per.ahbm.getDmaChannel i

/-- `Teakra::DMAChan0GetSrcHigh`: save `active_channel`, activate 0, read, restore. -/
def dmaChan0GetSrcHigh (b : Bus) : R (U16 × Bus) :=
  let bak := b.per.dma.getActiveChannel
  let d0 := b.per.dma.activateChannel 0
  match d0.getAddrSrcHigh with
  | .error e => .error e
  | .ok v => .ok (v, { b with per := { b.per with dma := d0.activateChannel bak } })

/-- `Teakra::DMAChan0GetDstHigh` -/
def dmaChan0GetDstHigh (b : Bus) : R (U16 × Bus) :=
  let bak := b.per.dma.getActiveChannel
  let d0 := b.per.dma.activateChannel 0
  match d0.getAddrDstHigh with
  | .error e => .error e
  | .ok v => .ok (v, { b with per := { b.per with dma := d0.activateChannel bak } })

end Bus
end Teakra
