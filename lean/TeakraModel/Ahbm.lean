import TeakraModel.Basic
/-!
# Model of `src/ahbm.cpp` / `src/ahbm.h` (AHB master: the DSP's window to external memory)

Field for field and branch for branch.  The six external-memory callbacks
(`read_external8/16/32`, `write_external8/16/32`) become
* a parameter `ExtRead` (the three read callbacks as functions of the address), and
* returned `ExtEvent`s `(kind, width, addr, value)` — one per callback invocation, in call order.
  The caller applies the write events to its external memory.

The enum fields (`UnitSize`, `BurstSize`, `Direction`) are kept as the raw `u16` the setters
`static_cast`, so the `default:` branches of the C++ `switch`es are modelled too.
`std::queue<u32>` is a `List U32` (front = head).  The channel index is guarded: an index `≥ 3`
would index outside `std::array<Channel, 3>` and is reported as `Abort.oob`.
-/
namespace Teakra

inductive AccKind where
  | read | write
  deriving DecidableEq, Repr, Inhabited

/-- One invocation of an external-memory callback: `width` is 8, 16 or 32; `value` is the value
returned (reads) or passed (writes), zero-extended. -/
structure ExtEvent where
  kind  : AccKind
  width : Nat
  addr  : U32
  value : U32
  deriving DecidableEq, Repr, Inhabited

/-- The three read callbacks. -/
structure ExtRead where
  read8  : U32 → BitVec 8
  read16 : U32 → U16
  read32 : U32 → U32

structure AhbmChannel where
  unitSize        : U16 := 0      -- 0 U8, 1 U16, 2 U32
  burstSize       : U16 := 0      -- 0 X1, 1 X4, 2 X8
  direction       : U16 := 0      -- 0 Read, 1 Write
  dmaChannel      : U16 := 0
  burstQueue      : List U32 := []
  writeBurstStart : U32 := 0
  deriving DecidableEq, Repr, Inhabited

structure Ahbm where
  busyFlag : U16 := 0
  ch0 : AhbmChannel := {}
  ch1 : AhbmChannel := {}
  ch2 : AhbmChannel := {}
  deriving DecidableEq, Repr, Inhabited

namespace AhbmChannel

/-- `Ahbm::Channel::GetBurstSize` -/
def getBurstSize (c : AhbmChannel) : Nat :=
  if c.burstSize = 0 then 1 else if c.burstSize = 1 then 4 else if c.burstSize = 2 then 8 else 1

/-- One iteration of the prefetch loop of `Ahbm::Read32`: value pushed, next `current`, events. -/
def fillOne (rd : ExtRead) (unit : U16) (current : U32) : U32 × U32 × List ExtEvent :=
  if unit = 0 then
    let v : U32 := (rd.read8 current).setWidth 32
    let v' : U32 := if current &&& 1 = 1 then v <<< 8 else v   -- "this weird behaviour is hwtested"
    (v', current + 1, [⟨.read, 8, current, v⟩])
  else if unit = 1 then
    let a := current &&& 0xFFFFFFFE
    let v : U32 := (rd.read16 a).setWidth 32
    (v, current + 2, [⟨.read, 16, a, v⟩])
  else if unit = 2 then
    let a := current &&& 0xFFFFFFFC
    let v : U32 := rd.read32 a
    (v, current + 4, [⟨.read, 32, a, v⟩])
  else (0, current, [])

/-- The prefetch loop of `Ahbm::Read32`: `n` units from `current`; queue contents and events. -/
def fill (rd : ExtRead) (unit : U16) : Nat → U32 → List U32 × List ExtEvent
  | 0, _ => ([], [])
  | n + 1, current =>
    let (v, next, ev) := fillOne rd unit current
    let (vs, evs) := fill rd unit n next
    (v :: vs, ev ++ evs)

/-- `Ahbm::Read32` on one channel: new channel, returned value, callback events. -/
def read32 (rd : ExtRead) (c : AhbmChannel) (address : U32) : AhbmChannel × U32 × List ExtEvent :=
  let (q, ev) := if c.burstQueue.isEmpty then fill rd c.unitSize c.getBurstSize address
                 else (c.burstQueue, [])
  match q with
  | v :: q' => ({ c with burstQueue := q' }, v, ev)
  | [] => (c, 0, ev)   -- not reachable: `getBurstSize ≥ 1`

/-- `Ahbm::Read16` -/
def read16 (rd : ExtRead) (c : AhbmChannel) (address : U32) : AhbmChannel × U16 × List ExtEvent :=
  let (c', v, ev) := read32 rd c address
  (c', if address &&& 1 = 0 then v.setWidth 16 else (v >>> 16).setWidth 16, ev)

/-- One iteration of the flush loop of `Ahbm::WriteInternal`: next `current`, events. -/
def flushOne (unit : U16) (current : U32) (value32 : U32) : U32 × List ExtEvent :=
  if unit = 0 then
    let v8 : U32 := if current &&& 1 = 1 then (value32 >>> 8) &&& 0xFF else value32 &&& 0xFF
    (current + 1, [⟨.write, 8, current, v8⟩])
  else if unit = 1 then
    let c0 := current &&& 0xFFFFFFFE
    let c1 := c0 + 1
    if c0 ≥ current then (current + 2, [⟨.write, 16, c0, value32 &&& 0xFFFF⟩])
    else (current + 2, [⟨.write, 8, c1, (value32 >>> 8) &&& 0xFF⟩])
  else if unit = 2 then
    let c0 := current &&& 0xFFFFFFFC
    let c1 := c0 + 1
    let c2 := c0 + 2
    let c3 := c0 + 3
    if c0 ≥ current ∧ c1 ≥ current ∧ c2 ≥ current then
      (current + 4, [⟨.write, 32, c0, value32⟩])
    else if c2 ≥ current then
      (current + 4,
        (if c1 ≥ current then [⟨.write, 8, c1, (value32 >>> 8) &&& 0xFF⟩] else []) ++
        [⟨.write, 16, c2, (value32 >>> 16) &&& 0xFFFF⟩])
    else (current + 4, [⟨.write, 8, c3, (value32 >>> 24) &&& 0xFF⟩])
  else (current, [])

/-- The flush loop of `Ahbm::WriteInternal`. -/
def flush (unit : U16) : U32 → List U32 → List ExtEvent
  | _, [] => []
  | current, v :: vs =>
    let (next, ev) := flushOne unit current v
    ev ++ flush unit next vs

/-- `Ahbm::WriteInternal` on one channel. -/
def writeInternal (c : AhbmChannel) (address : U32) (value : U32) : AhbmChannel × List ExtEvent :=
  let c1 := if c.burstQueue.isEmpty then { c with writeBurstStart := address } else c
  let q := c1.burstQueue ++ [value]
  if q.length ≥ c1.getBurstSize then
    ({ c1 with burstQueue := [] }, flush c1.unitSize c1.writeBurstStart q)
  else ({ c1 with burstQueue := q }, [])

/-- `Ahbm::Write16` -/
def write16 (c : AhbmChannel) (address : U32) (value : U16) : AhbmChannel × List ExtEvent :=
  writeInternal c address (value.setWidth 32)

/-- `Ahbm::Write32` -/
def write32 (c : AhbmChannel) (address : U32) (value : U32) : AhbmChannel × List ExtEvent :=
  writeInternal c address (if address &&& 1 = 1 then value >>> 16 else value)  -- "hwtested"

end AhbmChannel

namespace Ahbm

def reset (_ : Ahbm) : Ahbm := {}

def getCh (a : Ahbm) (i : Nat) : AhbmChannel :=
  match i with
  | 0 => a.ch0
  | 1 => a.ch1
  | _ => a.ch2

def setCh (a : Ahbm) (i : Nat) (c : AhbmChannel) : Ahbm :=
  match i with
  | 0 => { a with ch0 := c }
  | 1 => { a with ch1 := c }
  | _ => { a with ch2 := c }

/-- Guard for every `channels[i]`: `std::array<Channel, 3>`. -/
def withCh {α : Type} (i : U16) (f : Nat → R α) : R α :=
  if i.toNat < 3 then f i.toNat else .error .oob

def getBusyFlag (a : Ahbm) : U16 := a.busyFlag
def setUnitSize (a : Ahbm) (i v : U16) : R Ahbm :=
  withCh i fun k => .ok (a.setCh k { a.getCh k with unitSize := v })
def getUnitSize (a : Ahbm) (i : U16) : R U16 := withCh i fun k => .ok (a.getCh k).unitSize
def setBurstSize (a : Ahbm) (i v : U16) : R Ahbm :=
  withCh i fun k => .ok (a.setCh k { a.getCh k with burstSize := v })
def getBurstSize (a : Ahbm) (i : U16) : R U16 := withCh i fun k => .ok (a.getCh k).burstSize
def setDirection (a : Ahbm) (i v : U16) : R Ahbm :=
  withCh i fun k => .ok (a.setCh k { a.getCh k with direction := v })
def getDirection (a : Ahbm) (i : U16) : R U16 := withCh i fun k => .ok (a.getCh k).direction
def setDmaChannel (a : Ahbm) (i v : U16) : R Ahbm :=
  withCh i fun k => .ok (a.setCh k { a.getCh k with dmaChannel := v })
def getDmaChannel (a : Ahbm) (i : U16) : R U16 := withCh i fun k => .ok (a.getCh k).dmaChannel

def read32 (rd : ExtRead) (a : Ahbm) (channel : U16) (address : U32) : R (Ahbm × U32 × List ExtEvent) :=
  withCh channel fun k =>
    let (c, v, ev) := (a.getCh k).read32 rd address
    .ok (a.setCh k c, v, ev)

def read16 (rd : ExtRead) (a : Ahbm) (channel : U16) (address : U32) : R (Ahbm × U16 × List ExtEvent) :=
  withCh channel fun k =>
    let (c, v, ev) := (a.getCh k).read16 rd address
    .ok (a.setCh k c, v, ev)

def write16 (a : Ahbm) (channel : U16) (address : U32) (value : U16) : R (Ahbm × List ExtEvent) :=
  withCh channel fun k =>
    let (c, ev) := (a.getCh k).write16 address value
    .ok (a.setCh k c, ev)

def write32 (a : Ahbm) (channel : U16) (address : U32) (value : U32) : R (Ahbm × List ExtEvent) :=
  withCh channel fun k =>
    let (c, ev) := (a.getCh k).write32 address value
    .ok (a.setCh k c, ev)

/-- `Ahbm::GetChannelForDma` for `dma_channel < 8` (the shift `>> dma_channel` of a promoted
`u16` is only defined for counts below 32; the DMA model guards its channel index first). -/
def getChannelForDma (a : Ahbm) (dmaChannel : Nat) : U16 :=
  if a.ch0.dmaChannel.getLsbD dmaChannel then 0
  else if a.ch1.dmaChannel.getLsbD dmaChannel then 1
  else if a.ch2.dmaChannel.getLsbD dmaChannel then 2
  else 0

end Ahbm
end Teakra
