import TeakraModel.Basic
/-!
# The disassembler's and the test generator's decoding of `ar` / `arp` words

Hand-written mirrors of the bit slicing in

* `src/disassembler.cpp`: `DsmArRn`, `DsmArStep`, `DsmArpRni`, `DsmArpStepi`, `DsmArpRnj`,
  `DsmArpStepj`, `ConvertArStepAndOffset`, `MemARS`, `MemARPSI`, `MemARPSJ` (the branch taken when
  `ArArpSettings` are supplied), and
* `src/test_generator.cpp`: `Config::GenerateRandomState` (which address registers the `ar`/`arp`
  words select, and the `mod2` bits it consults).

`ar : Nat → U16` / `arp : Nat → U16` stand for `ArArpSettings::ar[2]` / `arp[4]` (resp. `State::ar`,
`State::arp`).  The operand value (`a.Index()`, 0..3) is `k`.
The disassembler functions are tied to the C++ by the `regs dsmar/dsmarp` correspondence ops; the
generator's expressions are additionally translated from source (`GenSrc` in
`Generated/RegLayout.lean`) and proved equal in `Proofs/C20.lean`.
-/
namespace Teakra.Regs

namespace Dsm

/-- `(ar_arp->ar[a.Index() / 2] >> (13 - 3 * (a.Index() % 2))) & 7` -/
def arRn (ar : Nat → U16) (k : Nat) : U16 := (ar (k / 2) >>> (13 - 3 * (k % 2))) &&& 7#16

/-- `u16 s = (ar_arp->ar[a.Index() / 2] >> (5 - 5 * (a.Index() % 2))) & 31` -/
def arStepWord (ar : Nat → U16) (k : Nat) : U16 := (ar (k / 2) >>> (5 - 5 * (k % 2))) &&& 31#16

/-- `(ar_arp->arp[a.Index()] >> 10) & 3` -/
def arpRni (arp : Nat → U16) (k : Nat) : U16 := (arp k >>> 10) &&& 3#16

/-- `u16 s = ar_arp->arp[a.Index()] & 31` -/
def arpStepiWord (arp : Nat → U16) (k : Nat) : U16 := arp k &&& 31#16

/-- `((ar_arp->arp[a.Index()] >> 13) & 3) + 4` -/
def arpRnj (arp : Nat → U16) (k : Nat) : U16 := ((arp k >>> 13) &&& 3#16) + 4#16

/-- `u16 s = (ar_arp->arp[a.Index()] >> 5) & 31` -/
def arpStepjWord (arp : Nat → U16) (k : Nat) : U16 := (arp k >>> 5) &&& 31#16

/-- `ConvertArStepAndOffset`: the step is `v & 7` … -/
def step (v : U16) : U16 := v &&& 7#16
/-- … and the offset is `v >> 3`. -/
def offset (v : U16) : U16 := v >>> 3

def stepNames : List String := ["++0", "++1", "--1", "++s", "++2", "--2", "++2*", "--2*"]
def offsetNames : List String := ["+0", "+1", "-1", "-1*"]

/-- `ConvertArStepAndOffset(v)`: `offset_names[v >> 3] + step_names[v & 7]` -/
def convertArStepAndOffset (v : U16) : String :=
  offsetNames.getD (offset v).toNat "?" ++ stepNames.getD (step v).toNat "?"

/-- `MemARS(reg, step)` with settings: `"[" + DsmArRn(reg) + DsmArStep(step) + "]"` -/
def memARS (ar : Nat → U16) (kRn kStep : Nat) : String :=
  "[%r" ++ toString (arRn ar kRn).toNat ++ convertArStepAndOffset (arStepWord ar kStep) ++ "]"

/-- `MemARPSI(reg, step)` with settings -/
def memARPSI (arp : Nat → U16) (kRn kStep : Nat) : String :=
  "[%r" ++ toString (arpRni arp kRn).toNat ++ convertArStepAndOffset (arpStepiWord arp kStep) ++ "]"

/-- `MemARPSJ(reg, step)` with settings -/
def memARPSJ (arp : Nat → U16) (kRn kStep : Nat) : String :=
  "[%r" ++ toString (arpRnj arp kRn).toNat ++ convertArStepAndOffset (arpStepjWord arp kStep) ++ "]"

end Dsm

namespace Gen

/-- `rp[(state.ar[i / 2] >> (13 - 3 * (i % 2))) & 7] = RegConfig::Memory` -/
def arRn (ar : Nat → U16) (i : Nat) : U16 := (ar (i / 2) >>> (13 - 3 * (i % 2))) &&& 7#16

/-- `rp[(state.arp[i] >> 10) & 3] = RegConfig::Memory` -/
def arpRni (arp : Nat → U16) (i : Nat) : U16 := (arp i >>> 10) &&& 3#16

/-- `rp[((state.arp[i] >> 13) & 3) + 4] = RegConfig::Memory` -/
def arpRnj (arp : Nat → U16) (i : Nat) : U16 := ((arp i >>> 13) &&& 3#16) + 4#16

/-- `(state.mod2 >> i) & 1` (modulo enable of `r[i]`) -/
def mod2M (mod2 : U16) (i : Nat) : U16 := (mod2 >>> i) &&& 1#16

/-- `(state.mod2 >> (i + 8)) & 1` (bit-reverse enable of `r[i]`) -/
def mod2Br (mod2 : U16) (i : Nat) : U16 := (mod2 >>> (i + 8)) &&& 1#16

end Gen

end Teakra.Regs
