/-!
# Data types of the translated instruction decode table

`tools/translate_decode.py` emits `Teakra.Decode.table : List Pat` from `/repo/src/decoder.h` and
`/repo/src/operand.h` in terms of these two structures (hand-written; the table itself is generated).
-/
namespace Teakra.Decode

/-- One template argument of an `INST(...)` entry after the expected value. -/
structure Operand where
  /-- `"At"` | `"AtNamed"` | `"Const"` | `"Cn"` | `"Unused"`.  (`AtNamed<T,pos>` selects the same bits as
  `At<T,pos>` but hands the visitor `T::GetName()` - a `RegName` - instead of the `T` object.) -/
  kind : String
  /-- operand type name as written in `decoder.h` (`"Ax"`, `"Imm16"`, `"SX"`, …; `""` for `Unused`). -/
  ty : String
  /-- bit position; 16 = the expansion (second) word; 0 for `Const`/`Cn`. -/
  pos : Nat
  /-- width in bits (1 for `Unused`, 0 for `Const`/`Cn`). -/
  bits : Nat
  /-- `Const` value / `Cn` value (bool `true` = 1; `SumBase` `Zero,Acc,Sv,SvRnd` = 0,1,2,3); 0 otherwise. -/
  value : Nat
  deriving DecidableEq, Repr, Inhabited

/-- One `INST(name, expected, operands…)[.EXCEPT(…)]…` entry of `GetDecodeTable`. -/
structure Pat where
  name : String
  expected : Nat
  /-- as `MatcherCreator::Create` computes it: `~(OR of operand masks) & 0xFFFF`. -/
  mask : Nat
  /-- as the C++ computes it: some operand has `NeedExpansion`. -/
  expanded : Bool
  /-- declaration order, including `Unused`, `Const`, `Cn`. -/
  operands : List Operand
  /-- `(mask, unexpected)` per `.EXCEPT(…)`, in order. -/
  rejectors : List (Nat × Nat)
  deriving DecidableEq, Repr, Inhabited

end Teakra.Decode
