/- GENERATED (temporary bootstrap copy; superseded by tools/translate_regs.py) from include/teakra/impl/register.h -/
import TeakraModel.RegLayoutTypes
namespace Teakra.Regs
def layouts : List (String × List Slot) := [
  ("cfgi", [
    { kind := .rw, field := "stepi", index := 0, field2 := "", pos := 0, len := 7 },
    { kind := .rw, field := "modi", index := 0, field2 := "", pos := 7, len := 9 }
  ]),
  ("cfgj", [
    { kind := .rw, field := "stepj", index := 0, field2 := "", pos := 0, len := 7 },
    { kind := .rw, field := "modj", index := 0, field2 := "", pos := 7, len := 9 }
  ]),
  ("stt0", [
    { kind := .rw, field := "flm", index := 0, field2 := "", pos := 0, len := 1 },
    { kind := .rw, field := "fvl", index := 0, field2 := "", pos := 1, len := 1 },
    { kind := .rw, field := "fe", index := 0, field2 := "", pos := 2, len := 1 },
    { kind := .rw, field := "fc0", index := 0, field2 := "", pos := 3, len := 1 },
    { kind := .rw, field := "fv", index := 0, field2 := "", pos := 4, len := 1 },
    { kind := .rw, field := "fn", index := 0, field2 := "", pos := 5, len := 1 },
    { kind := .rw, field := "fm", index := 0, field2 := "", pos := 6, len := 1 },
    { kind := .rw, field := "fz", index := 0, field2 := "", pos := 7, len := 1 },
    { kind := .rw, field := "fc1", index := 0, field2 := "", pos := 11, len := 1 }
  ]),
  ("stt1", [
    { kind := .rw, field := "fr", index := 0, field2 := "", pos := 4, len := 1 },
    { kind := .ro, field := "iu", index := 0, field2 := "", pos := 10, len := 1 },
    { kind := .ro, field := "iu", index := 1, field2 := "", pos := 11, len := 1 },
    { kind := .rw, field := "pe", index := 0, field2 := "", pos := 14, len := 1 },
    { kind := .rw, field := "pe", index := 1, field2 := "", pos := 15, len := 1 }
  ]),
  ("stt2", [
    { kind := .ro, field := "ip", index := 0, field2 := "", pos := 0, len := 1 },
    { kind := .ro, field := "ip", index := 1, field2 := "", pos := 1, len := 1 },
    { kind := .ro, field := "ip", index := 2, field2 := "", pos := 2, len := 1 },
    { kind := .ro, field := "ipv", index := 0, field2 := "", pos := 3, len := 1 },
    { kind := .rw, field := "pcmhi", index := 0, field2 := "", pos := 6, len := 2 },
    { kind := .ro, field := "bcn", index := 0, field2 := "", pos := 12, len := 3 },
    { kind := .lp, field := "lp", index := 0, field2 := "", pos := 15, len := 1 }
  ]),
  ("mod0", [
    { kind := .rw, field := "sat", index := 0, field2 := "", pos := 0, len := 1 },
    { kind := .rw, field := "sata", index := 0, field2 := "", pos := 1, len := 1 },
    { kind := .ro, field := "mod0_unk_const", index := 0, field2 := "", pos := 2, len := 3 },
    { kind := .rw, field := "hwm", index := 0, field2 := "", pos := 5, len := 2 },
    { kind := .rw, field := "s", index := 0, field2 := "", pos := 7, len := 1 },
    { kind := .rw, field := "ou", index := 0, field2 := "", pos := 8, len := 1 },
    { kind := .rw, field := "ou", index := 1, field2 := "", pos := 9, len := 1 },
    { kind := .rw, field := "ps", index := 0, field2 := "", pos := 10, len := 2 },
    { kind := .rw, field := "ps", index := 1, field2 := "", pos := 13, len := 2 }
  ]),
  ("mod1", [
    { kind := .rw, field := "page", index := 0, field2 := "", pos := 0, len := 8 },
    { kind := .rw, field := "stp16", index := 0, field2 := "", pos := 12, len := 1 },
    { kind := .rw, field := "cmd", index := 0, field2 := "", pos := 13, len := 1 },
    { kind := .rw, field := "epi", index := 0, field2 := "", pos := 14, len := 1 },
    { kind := .rw, field := "epj", index := 0, field2 := "", pos := 15, len := 1 }
  ]),
  ("mod2", [
    { kind := .rw, field := "m", index := 0, field2 := "", pos := 0, len := 1 },
    { kind := .rw, field := "m", index := 1, field2 := "", pos := 1, len := 1 },
    { kind := .rw, field := "m", index := 2, field2 := "", pos := 2, len := 1 },
    { kind := .rw, field := "m", index := 3, field2 := "", pos := 3, len := 1 },
    { kind := .rw, field := "m", index := 4, field2 := "", pos := 4, len := 1 },
    { kind := .rw, field := "m", index := 5, field2 := "", pos := 5, len := 1 },
    { kind := .rw, field := "m", index := 6, field2 := "", pos := 6, len := 1 },
    { kind := .rw, field := "m", index := 7, field2 := "", pos := 7, len := 1 },
    { kind := .rw, field := "br", index := 0, field2 := "", pos := 8, len := 1 },
    { kind := .rw, field := "br", index := 1, field2 := "", pos := 9, len := 1 },
    { kind := .rw, field := "br", index := 2, field2 := "", pos := 10, len := 1 },
    { kind := .rw, field := "br", index := 3, field2 := "", pos := 11, len := 1 },
    { kind := .rw, field := "br", index := 4, field2 := "", pos := 12, len := 1 },
    { kind := .rw, field := "br", index := 5, field2 := "", pos := 13, len := 1 },
    { kind := .rw, field := "br", index := 6, field2 := "", pos := 14, len := 1 },
    { kind := .rw, field := "br", index := 7, field2 := "", pos := 15, len := 1 }
  ]),
  ("mod3", [
    { kind := .rw, field := "nimc", index := 0, field2 := "", pos := 0, len := 1 },
    { kind := .rw, field := "ic", index := 0, field2 := "", pos := 1, len := 1 },
    { kind := .rw, field := "ic", index := 1, field2 := "", pos := 2, len := 1 },
    { kind := .rw, field := "ic", index := 2, field2 := "", pos := 3, len := 1 },
    { kind := .rw, field := "ou", index := 2, field2 := "", pos := 4, len := 1 },
    { kind := .rw, field := "ou", index := 3, field2 := "", pos := 5, len := 1 },
    { kind := .rw, field := "ou", index := 4, field2 := "", pos := 6, len := 1 },
    { kind := .rw, field := "ie", index := 0, field2 := "", pos := 7, len := 1 },
    { kind := .rw, field := "im", index := 0, field2 := "", pos := 8, len := 1 },
    { kind := .rw, field := "im", index := 1, field2 := "", pos := 9, len := 1 },
    { kind := .rw, field := "im", index := 2, field2 := "", pos := 10, len := 1 },
    { kind := .rw, field := "imv", index := 0, field2 := "", pos := 11, len := 1 },
    { kind := .rw, field := "ccnta", index := 0, field2 := "", pos := 13, len := 1 },
    { kind := .rw, field := "cpc", index := 0, field2 := "", pos := 14, len := 1 },
    { kind := .rw, field := "crep", index := 0, field2 := "", pos := 15, len := 1 }
  ]),
  ("st0", [
    { kind := .rw, field := "sat", index := 0, field2 := "", pos := 0, len := 1 },
    { kind := .rw, field := "ie", index := 0, field2 := "", pos := 1, len := 1 },
    { kind := .rw, field := "im", index := 0, field2 := "", pos := 2, len := 1 },
    { kind := .rw, field := "im", index := 1, field2 := "", pos := 3, len := 1 },
    { kind := .rw, field := "fr", index := 0, field2 := "", pos := 4, len := 1 },
    { kind := .double, field := "flm", index := 0, field2 := "fvl", pos := 5, len := 1 },
    { kind := .rw, field := "fe", index := 0, field2 := "", pos := 6, len := 1 },
    { kind := .rw, field := "fc0", index := 0, field2 := "", pos := 7, len := 1 },
    { kind := .rw, field := "fv", index := 0, field2 := "", pos := 8, len := 1 },
    { kind := .rw, field := "fn", index := 0, field2 := "", pos := 9, len := 1 },
    { kind := .rw, field := "fm", index := 0, field2 := "", pos := 10, len := 1 },
    { kind := .rw, field := "fz", index := 0, field2 := "", pos := 11, len := 1 },
    { kind := .accE, field := "a", index := 0, field2 := "", pos := 12, len := 4 }
  ]),
  ("st1", [
    { kind := .rw, field := "page", index := 0, field2 := "", pos := 0, len := 8 },
    { kind := .rw, field := "ps", index := 0, field2 := "", pos := 10, len := 2 },
    { kind := .accE, field := "a", index := 1, field2 := "", pos := 12, len := 4 }
  ]),
  ("st2", [
    { kind := .rw, field := "m", index := 0, field2 := "", pos := 0, len := 1 },
    { kind := .rw, field := "m", index := 1, field2 := "", pos := 1, len := 1 },
    { kind := .rw, field := "m", index := 2, field2 := "", pos := 2, len := 1 },
    { kind := .rw, field := "m", index := 3, field2 := "", pos := 3, len := 1 },
    { kind := .rw, field := "m", index := 4, field2 := "", pos := 4, len := 1 },
    { kind := .rw, field := "m", index := 5, field2 := "", pos := 5, len := 1 },
    { kind := .rw, field := "im", index := 2, field2 := "", pos := 6, len := 1 },
    { kind := .rw, field := "s", index := 0, field2 := "", pos := 7, len := 1 },
    { kind := .rw, field := "ou", index := 0, field2 := "", pos := 8, len := 1 },
    { kind := .rw, field := "ou", index := 1, field2 := "", pos := 9, len := 1 },
    { kind := .ro, field := "iu", index := 0, field2 := "", pos := 10, len := 1 },
    { kind := .ro, field := "iu", index := 1, field2 := "", pos := 11, len := 1 },
    { kind := .ro, field := "ip", index := 2, field2 := "", pos := 13, len := 1 },
    { kind := .ro, field := "ip", index := 0, field2 := "", pos := 14, len := 1 },
    { kind := .ro, field := "ip", index := 1, field2 := "", pos := 15, len := 1 }
  ]),
  ("icr", [
    { kind := .rw, field := "nimc", index := 0, field2 := "", pos := 0, len := 1 },
    { kind := .rw, field := "ic", index := 0, field2 := "", pos := 1, len := 1 },
    { kind := .rw, field := "ic", index := 1, field2 := "", pos := 2, len := 1 },
    { kind := .rw, field := "ic", index := 2, field2 := "", pos := 3, len := 1 },
    { kind := .lp, field := "lp", index := 0, field2 := "", pos := 4, len := 1 },
    { kind := .ro, field := "bcn", index := 0, field2 := "", pos := 5, len := 3 }
  ]),
  ("ar0", [
    { kind := .rw, field := "arstep", index := 1, field2 := "", pos := 0, len := 3 },
    { kind := .rw, field := "aroffset", index := 1, field2 := "", pos := 3, len := 2 },
    { kind := .rw, field := "arstep", index := 0, field2 := "", pos := 5, len := 3 },
    { kind := .rw, field := "aroffset", index := 0, field2 := "", pos := 8, len := 2 },
    { kind := .rw, field := "arrn", index := 1, field2 := "", pos := 10, len := 3 },
    { kind := .rw, field := "arrn", index := 0, field2 := "", pos := 13, len := 3 }
  ]),
  ("ar1", [
    { kind := .rw, field := "arstep", index := 3, field2 := "", pos := 0, len := 3 },
    { kind := .rw, field := "aroffset", index := 3, field2 := "", pos := 3, len := 2 },
    { kind := .rw, field := "arstep", index := 2, field2 := "", pos := 5, len := 3 },
    { kind := .rw, field := "aroffset", index := 2, field2 := "", pos := 8, len := 2 },
    { kind := .rw, field := "arrn", index := 3, field2 := "", pos := 10, len := 3 },
    { kind := .rw, field := "arrn", index := 2, field2 := "", pos := 13, len := 3 }
  ]),
  ("arp0", [
    { kind := .rw, field := "arpstepi", index := 0, field2 := "", pos := 0, len := 3 },
    { kind := .rw, field := "arpoffseti", index := 0, field2 := "", pos := 3, len := 2 },
    { kind := .rw, field := "arpstepj", index := 0, field2 := "", pos := 5, len := 3 },
    { kind := .rw, field := "arpoffsetj", index := 0, field2 := "", pos := 8, len := 2 },
    { kind := .rw, field := "arprni", index := 0, field2 := "", pos := 10, len := 2 },
    { kind := .rw, field := "arprnj", index := 0, field2 := "", pos := 13, len := 2 }
  ]),
  ("arp1", [
    { kind := .rw, field := "arpstepi", index := 1, field2 := "", pos := 0, len := 3 },
    { kind := .rw, field := "arpoffseti", index := 1, field2 := "", pos := 3, len := 2 },
    { kind := .rw, field := "arpstepj", index := 1, field2 := "", pos := 5, len := 3 },
    { kind := .rw, field := "arpoffsetj", index := 1, field2 := "", pos := 8, len := 2 },
    { kind := .rw, field := "arprni", index := 1, field2 := "", pos := 10, len := 2 },
    { kind := .rw, field := "arprnj", index := 1, field2 := "", pos := 13, len := 2 }
  ]),
  ("arp2", [
    { kind := .rw, field := "arpstepi", index := 2, field2 := "", pos := 0, len := 3 },
    { kind := .rw, field := "arpoffseti", index := 2, field2 := "", pos := 3, len := 2 },
    { kind := .rw, field := "arpstepj", index := 2, field2 := "", pos := 5, len := 3 },
    { kind := .rw, field := "arpoffsetj", index := 2, field2 := "", pos := 8, len := 2 },
    { kind := .rw, field := "arprni", index := 2, field2 := "", pos := 10, len := 2 },
    { kind := .rw, field := "arprnj", index := 2, field2 := "", pos := 13, len := 2 }
  ]),
  ("arp3", [
    { kind := .rw, field := "arpstepi", index := 3, field2 := "", pos := 0, len := 3 },
    { kind := .rw, field := "arpoffseti", index := 3, field2 := "", pos := 3, len := 2 },
    { kind := .rw, field := "arpstepj", index := 3, field2 := "", pos := 5, len := 3 },
    { kind := .rw, field := "arpoffsetj", index := 3, field2 := "", pos := 8, len := 2 },
    { kind := .rw, field := "arprni", index := 3, field2 := "", pos := 10, len := 2 },
    { kind := .rw, field := "arprnj", index := 3, field2 := "", pos := 13, len := 2 }
  ])
]
end Teakra.Regs
