import TeakraModel.Interp
import TeakraModel.Exec.Alm
import TeakraModel.Exec.Shift
import TeakraModel.Exec.Mma
import TeakraModel.Exec.MinMax
import TeakraModel.Exec.Arith
import TeakraModel.Exec.Control
import TeakraModel.Exec.Stack
import TeakraModel.Exec.Mul
import TeakraModel.Exec.Modr
import TeakraModel.Exec.Mov
/-! Aggregates the instruction handler families (`TeakraModel/Exec/*.lean`). -/
namespace Teakra
/-- An opcode outside the part of the handler set that is modelled so far. -/
def unmodelled (key : String) : Exec Unit := throw (.unmodelled key)
end Teakra
