import TeakraModel.Interp
import TeakraModel.Exec.Alm
/-! Aggregates the instruction handler families (`TeakraModel/Exec/*.lean`). -/
namespace Teakra
/-- An opcode outside the part of the handler set that is modelled so far. -/
def unmodelled (key : String) : Exec Unit := throw (.unmodelled key)
end Teakra
