import TeakraModel.Run
import TeakraModel.RunLoop
/-!
# The whole machine: `Interpreter::Run(cycles)` on the concrete core + bus

`ops fixed` instantiates the control structure of `TeakraModel/RunLoop.lean` with
* the loop body `cycle` (`TeakraModel/Run.lean`) — the memory-observer log is instrumentation of
  the per-instruction correspondence and is left untouched at this level;
* `core_timing.Tick()` = `tickAll`, `core_timing.Skip(m)` = `Bus.coreSkip`;
* the fast-forward condition: `idle` in the pinned upstream code (`fixed = false`), `idle` and no
  interrupt latch pending after the `fix:` commit (`fixed = true`).

Two executable guards restrict the model to the envelope the theorems of `Proofs/C06Sys.lean`
cover; outside it the model answers `unmodelled` (reported, never compared):
* `idleOk`: the model refuses to *enter* an idle state that is not a plain self-branch
  (`brr -1` whose condition holds, not under `rep`, not the last instruction of an active block
  repeat, no deliverable interrupt) — the exclusion stated in the property's quantifier;
* `periphOk`: both audio ports satisfy the flag invariant `Btdmp.Inv` and have a well-formed frame
  clock `Btdmp.Clk` (the facade never changes the period, see `Proofs/C16.lean`); the timers need
  no guard, `Timer::Tick` itself asserts the configuration it supports.
-/
namespace Teakra.Sys
open Exec Interp

/-- No cross-thread interrupt latch is set. -/
def noLatch (c : Core) : Bool :=
  !c.vpend && !c.ipend.toArray.getD 0 false && !c.ipend.toArray.getD 1 false && !c.ipend.toArray.getD 2 false

def btdmpOk (b : Btdmp) : Bool := decide (Btdmp.Inv b ∧ Btdmp.Clk b)

def periphOk (b : Bus) : Bool := btdmpOk (b.per.btdmp[0]) && btdmpOk (b.per.btdmp[1])

/-- The interrupt block at the end of the loop body would enter a handler. -/
def deliverable (r : Regs) : Bool :=
  r.ie != 0 && !r.rep &&
    ((r.im.toArray.getD 0 0 != 0 && r.ip.toArray.getD 0 0 != 0) ||
     (r.im.toArray.getD 1 0 != 0 && r.ip.toArray.getD 1 0 != 0) ||
     (r.im.toArray.getD 2 0 != 0 && r.ip.toArray.getD 2 0 != 0) ||
     (r.imv != 0 && r.ipv != 0))

/-- `ConditionPass` as a function of the state. -/
def condHolds (c : Core) (cond : Nat) : Bool :=
  match (conditionPass (Cond.name cond)).run c with
  | .ok (b, _) => b
  | .error _ => false

/-- The block-repeat bookkeeping of the loop body does nothing for a one-word instruction at `pc`. -/
def loopClear (r : Regs) : Bool :=
  r.lp == 0 ||
    (r.bcn != 0 && decide (r.bcn.toNat - 1 < 4) && (r.bkrep.toArray.getD (r.bcn.toNat - 1) {}).end_ + 1 != r.pc + 1)

/-- The full program address of the next fetch. -/
def fetchAddress (r : Regs) : U32 := r.pc ||| ((r.prpage.setWidth 32 : U32) <<< 18)

/-- The core sits on a plain self-branch: the word at `pc` is `brr -1` (opcode `0x57F0 | cond`) whose
condition holds, no single-instruction repeat is running, the block-repeat bookkeeping does not
fire on it and no interrupt is deliverable. -/
def brrSelf (c : Core) : Bool :=
  match c.bus.programRead (fetchAddress c.regs) with
  | .ok (w, _) =>
    (w &&& 0xFFF0 == 0x57F0) && condHolds c (w.toNat % 16) && !c.regs.rep && loopClear c.regs &&
      !deliverable c.regs
  | .error _ => false

def idleOk (c : Core) : Bool := !c.idle || brrSelf c

/-- The loop body, without the final `Tick`. -/
def body (c : Core) : Except Stop Core :=
  match cycle.run c with
  | .error e => .error e
  | .ok (_, c') =>
    let c' := { c' with log := c.log }
    if idleOk c' then .ok c' else .error (.unmodelled "idle outside a plain self-branch")

def tick (c : Core) : Except Stop Core :=
  if periphOk c.bus then
    match tickAll.run c with
    | .ok (_, c') => .ok c'
    | .error e => .error e
  else .error (.unmodelled "audio port outside Inv/Clk")

def skip (c : Core) (m : Nat) : Except Stop (Core × Nat) :=
  match c.bus.coreSkip m with
  | .ok (k, bus, evs) => .ok ((({ c with bus := bus } : Core).emit evs), k)
  | .error e => .error (.abort e)

def ops (fixed : Bool) : LoopOps Stop Core where
  start c := { c with idle := false }
  skipAllowed c := c.idle && (noLatch c || !fixed)
  body := body
  tick := tick
  skip := skip

/-- Whether the `fix:` commit that keeps `Run` from fast-forwarding over a pending latch is in the
tree the model describes (`false` keeps the pinned upstream behaviour, for the witness). -/
def runFixed : Bool := true

/-- `Interpreter::Run(cycles)` -/
def run (cycles : Nat) (c : Core) : Except Stop Core := (ops runFixed).run cycles c

/-- `cycles` single steps: what `Run(1)` repeated does. -/
def steps (cycles : Nat) (c : Core) : Except Stop Core := (ops runFixed).cyclesN cycles { c with idle := false }

/-! ## `Teakra::Reset` and construction -/

/-- A freshly constructed `Teakra` whose host-owned parts (external memory behind the AHBM callbacks,
accumulated logs) are those of `c`.  Every other member has an initialiser in the C++ (checked by the
member table of `checks/c17.py`), so the fresh machine has no further parameter. -/
def freshLike (c : Core) : Core := { bus := { ext := c.bus.ext }, log := c.log, events := c.events }

/-- `Teakra::Reset`: `Impl::Reset` of the bus, `Processor::Reset` (a value-initialised register file, cleared
interrupt latches and idle flag). -/
def reset (c : Core) : Core :=
  { regs := {}, bus := c.bus.reset, log := c.log, events := c.events,
    ipend := Vector.replicate 3 false, vpend := false, vctx := false, vaddr := 0, idle := false }

/-- The pinned upstream `Teakra::Reset`: `Processor::Reset` only replaced the register file, `Impl::Reset` skipped
the ICU, the MMIO storage words and the mailbox interrupt-disable flags. -/
def resetUpstream (c : Core) : Core := { c with regs := {}, bus := c.bus.resetUpstream }

end Teakra.Sys
