import TeakraModel.Periph
/-!
# Model of `src/mmio.cpp`: the 0x800 cells of `MMIORegion`

`std::array<Cell, 0x800> cells{}` default-constructs every cell: a default `Cell()` owns one
storage word and its `set` / `get` closures write / read it.  The constructor of `MMIORegion`
then replaces whole cells (`ConstCell`, `RefCell`, `BitFieldCell`) or only one half
(`cells[a].set = …` / `cells[a].get = …`): where only one half is replaced the other half is
still the default closure over the cell's own storage word (`0x18C`: only `get` replaced, so a
write lands in a word nothing reads; `0x2C6 + 0x80 i`: only `set` replaced, so a read returns a
word nothing writes).

`Cell` names what `cells[off]` is after the constructor; `cellTable` is the constructor's
assignment list with its loops unrolled (`Cell.off` is the same map written with the loop
arithmetic of the C++; `Proofs/C12.lean` proves the two agree).  Every offset not in the table
is an untouched default cell (`Cell.store`).

Each block of cells works on one peripheral object: the block-local `…cellWrite` / `…cellRead`
functions take and return only that object (and the storage word of the cell), and
`Bus.cellWrite` / `Bus.cellRead` put the result back and route handler calls through the ICU
exactly as `Teakra::Impl::Impl` wires them.

`BitFieldCell`: `set(value)` calls `slot.set((value >> pos) & ((1 << length) - 1))` for every
slot that has a setter, in list order, then `*storage = value`; `get()` starts from `*storage`
and for every slot that has a getter does `value &= ~(((1 << length) - 1) << pos); value |=
slot.get() << pos;` (the getter's result is *not* masked).  Slots without accessors read back
from storage.  The arithmetic is `int`, truncated to `u16` on assignment, so it agrees with
16-bit arithmetic (`pos + length ≤ 16`, `get() < 2^16`).
-/
namespace Teakra

/-- `(value >> pos) & ((1 << length) - 1)`: what a slot's setter receives. -/
def bfField (value : U16) (pos len : Nat) : U16 := (value >>> pos) &&& (((1 : U16) <<< len) - 1)

/-- `value &= ~(((1 << length) - 1) << pos); value |= g << pos;`: one getter overlay. -/
def bfGet (value : U16) (pos len : Nat) (g : U16) : U16 :=
  (value &&& ~~~((((1 : U16) <<< len) - 1) <<< pos)) ||| (g <<< pos)

/-! ## what each cell is -/

/-- `0x20 + 0x10 i …`: TIMERx_CFG, _EW, _SCL, _SCH, _CCL, _CCH. -/
inductive TimerCell where
  | cfg | ew | startLow | startHigh | cntLow | cntHigh
  deriving DecidableEq, Repr, Inhabited

/-- `0x0C0`–`0x0D8`. -/
inductive ApbpCell where
  | send (ch : Fin 3)    -- 0x0C0 + 4 ch : SendData / PeekData of apbp_from_dsp
  | recv (ch : Fin 3)    -- 0x0C2 + 4 ch : (nothing) / RecvData of apbp_from_cpu
  | semSet               -- 0x0CC : SetSemaphore / GetSemaphore of apbp_from_dsp
  | semMask              -- 0x0CE : MaskSemaphore / GetSemaphoreMask of apbp_from_cpu
  | semClear             -- 0x0D0 : ClearSemaphore of apbp_from_cpu / 0
  | semGet               -- 0x0D2 : (nothing) / GetSemaphore of apbp_from_cpu
  | cfg                  -- 0x0D4 : bit field (interrupt disable of apbp_from_cpu)
  | sts                  -- 0x0D6 : bit field (getters only)
  | psts                 -- 0x0D8 : bit field (getters only)
  deriving DecidableEq, Repr, Inhabited

/-- `0x0E0`–`0x0F2`. -/
inductive AhbmCell where
  | busy | cfg1 (i : Fin 3) | cfg2 (i : Fin 3) | dmaCh (i : Fin 3)
  deriving DecidableEq, Repr, Inhabited

/-- `0x10E`–`0x11E`. -/
inductive MiuCell where
  | xPage | yPage | zPage | pageCfg (k : Fin 2) | misc | mmioBase
  deriving DecidableEq, Repr, Inhabited

/-- The whole-word registers of the DMA channel window (`0x1C0`–`0x1D8`, `0x1DC`). -/
inductive DmaField where
  | addrSrcLow | addrSrcHigh | addrDstLow | addrDstHigh | size0 | size1 | size2
  | srcStep0 | dstStep0 | srcStep1 | dstStep1 | srcStep2 | dstStep2 | y
  deriving DecidableEq, Repr, Inhabited

inductive DmaCell where
  | enable               -- 0x184
  | seox                 -- 0x18C : only `get` replaced (returns 0xFFFF)
  | active               -- 0x1BE : channel-window select
  | field (f : DmaField)
  | cfg                  -- 0x1DA : bit field src_space / dst_space / dword_mode
  | z                    -- 0x1DE : SetZ (0x40C0 starts the transfer)
  deriving DecidableEq, Repr, Inhabited

/-- `0x200`–`0x250`. -/
inductive IcuCell where
  | request | ack | trigger | enable (i : Fin 3) | enableV | vecHi (i : Fin 16) | vecLo (i : Fin 16)
  deriving DecidableEq, Repr, Inhabited

/-- `0x2A2 + 0x80 i …`. -/
inductive BtCell where
  | clock | enable | status | send | flush
  deriving DecidableEq, Repr, Inhabited

inductive Cell where
  /-- untouched default `Cell()` (also `TIMERx_SPWMCL/H`, which are assigned a fresh `Cell()`) -/
  | store
  /-- `Cell::ConstCell(c)` -/
  | const (c : U16)
  | timer (i : Fin 2) (c : TimerCell)
  | apbp (c : ApbpCell)
  | ahbm (c : AhbmCell)
  | miu (c : MiuCell)
  | dma (c : DmaCell)
  | icu (c : IcuCell)
  | btdmp (i : Fin 2) (c : BtCell)
  deriving DecidableEq, Repr, Inhabited

/-- The assignments of the `MMIORegion` constructor, loops unrolled, sorted by offset. -/
def cellTable : List (Nat × Cell) := [
  (0x01A, .const 0xC902), (0x020, .timer 0 .cfg), (0x022, .timer 0 .ew), (0x024, .timer 0 .startLow),
  (0x026, .timer 0 .startHigh), (0x028, .timer 0 .cntLow), (0x02A, .timer 0 .cntHigh),
  (0x030, .timer 1 .cfg), (0x032, .timer 1 .ew), (0x034, .timer 1 .startLow),
  (0x036, .timer 1 .startHigh), (0x038, .timer 1 .cntLow), (0x03A, .timer 1 .cntHigh),
  (0x0C0, .apbp (.send 0)), (0x0C2, .apbp (.recv 0)), (0x0C4, .apbp (.send 1)), (0x0C6, .apbp (.recv 1)),
  (0x0C8, .apbp (.send 2)), (0x0CA, .apbp (.recv 2)), (0x0CC, .apbp .semSet), (0x0CE, .apbp .semMask),
  (0x0D0, .apbp .semClear), (0x0D2, .apbp .semGet), (0x0D4, .apbp .cfg), (0x0D6, .apbp .sts),
  (0x0D8, .apbp .psts), (0x0E0, .ahbm .busy), (0x0E2, .ahbm (.cfg1 0)), (0x0E4, .ahbm (.cfg2 0)),
  (0x0E6, .ahbm (.dmaCh 0)), (0x0E8, .ahbm (.cfg1 1)), (0x0EA, .ahbm (.cfg2 1)),
  (0x0EC, .ahbm (.dmaCh 1)), (0x0EE, .ahbm (.cfg1 2)), (0x0F0, .ahbm (.cfg2 2)),
  (0x0F2, .ahbm (.dmaCh 2)), (0x10E, .miu .xPage), (0x110, .miu .yPage), (0x112, .miu .zPage),
  (0x114, .miu (.pageCfg 0)), (0x116, .miu (.pageCfg 1)), (0x11A, .miu .misc), (0x11E, .miu .mmioBase),
  (0x184, .dma .enable), (0x18C, .dma .seox), (0x1BE, .dma .active), (0x1C0, .dma (.field .addrSrcLow)),
  (0x1C2, .dma (.field .addrSrcHigh)), (0x1C4, .dma (.field .addrDstLow)),
  (0x1C6, .dma (.field .addrDstHigh)), (0x1C8, .dma (.field .size0)), (0x1CA, .dma (.field .size1)),
  (0x1CC, .dma (.field .size2)), (0x1CE, .dma (.field .srcStep0)), (0x1D0, .dma (.field .dstStep0)),
  (0x1D2, .dma (.field .srcStep1)), (0x1D4, .dma (.field .dstStep1)), (0x1D6, .dma (.field .srcStep2)),
  (0x1D8, .dma (.field .dstStep2)), (0x1DA, .dma .cfg), (0x1DC, .dma (.field .y)), (0x1DE, .dma .z),
  (0x200, .icu .request), (0x202, .icu .ack), (0x204, .icu .trigger), (0x206, .icu (.enable 0)),
  (0x208, .icu (.enable 1)), (0x20A, .icu (.enable 2)), (0x20C, .icu .enableV), (0x212, .icu (.vecHi 0)),
  (0x214, .icu (.vecLo 0)), (0x216, .icu (.vecHi 1)), (0x218, .icu (.vecLo 1)), (0x21A, .icu (.vecHi 2)),
  (0x21C, .icu (.vecLo 2)), (0x21E, .icu (.vecHi 3)), (0x220, .icu (.vecLo 3)), (0x222, .icu (.vecHi 4)),
  (0x224, .icu (.vecLo 4)), (0x226, .icu (.vecHi 5)), (0x228, .icu (.vecLo 5)), (0x22A, .icu (.vecHi 6)),
  (0x22C, .icu (.vecLo 6)), (0x22E, .icu (.vecHi 7)), (0x230, .icu (.vecLo 7)), (0x232, .icu (.vecHi 8)),
  (0x234, .icu (.vecLo 8)), (0x236, .icu (.vecHi 9)), (0x238, .icu (.vecLo 9)),
  (0x23A, .icu (.vecHi 10)), (0x23C, .icu (.vecLo 10)), (0x23E, .icu (.vecHi 11)),
  (0x240, .icu (.vecLo 11)), (0x242, .icu (.vecHi 12)), (0x244, .icu (.vecLo 12)),
  (0x246, .icu (.vecHi 13)), (0x248, .icu (.vecLo 13)), (0x24A, .icu (.vecHi 14)),
  (0x24C, .icu (.vecLo 14)), (0x24E, .icu (.vecHi 15)), (0x250, .icu (.vecLo 15)),
  (0x2A2, .btdmp 0 .clock), (0x2BE, .btdmp 0 .enable), (0x2C2, .btdmp 0 .status),
  (0x2C6, .btdmp 0 .send), (0x2CA, .btdmp 0 .flush), (0x322, .btdmp 1 .clock), (0x33E, .btdmp 1 .enable),
  (0x342, .btdmp 1 .status), (0x346, .btdmp 1 .send), (0x34A, .btdmp 1 .flush)]

/-- What `cells[off]` is. -/
def cellAt (off : Nat) : Cell := (cellTable.lookup off).getD .store

/-! The same map, cell → offset, with the loop arithmetic of mmio.cpp. -/

def TimerCell.off : TimerCell → Nat
  | .cfg => 0x0 | .ew => 0x2 | .startLow => 0x4 | .startHigh => 0x6 | .cntLow => 0x8 | .cntHigh => 0xA

def ApbpCell.off : ApbpCell → Nat
  | .send ch => 0x0C0 + ch.val * 4 | .recv ch => 0x0C2 + ch.val * 4
  | .semSet => 0x0CC | .semMask => 0x0CE | .semClear => 0x0D0 | .semGet => 0x0D2
  | .cfg => 0x0D4 | .sts => 0x0D6 | .psts => 0x0D8

def AhbmCell.off : AhbmCell → Nat
  | .busy => 0x0E0 | .cfg1 i => 0x0E2 + i.val * 6 | .cfg2 i => 0x0E4 + i.val * 6 | .dmaCh i => 0x0E6 + i.val * 6

def MiuCell.off : MiuCell → Nat
  | .xPage => 0x10E | .yPage => 0x110 | .zPage => 0x112 | .pageCfg k => 0x114 + k.val * 2
  | .misc => 0x11A | .mmioBase => 0x11E

def DmaField.off : DmaField → Nat
  | .addrSrcLow => 0x1C0 | .addrSrcHigh => 0x1C2 | .addrDstLow => 0x1C4 | .addrDstHigh => 0x1C6
  | .size0 => 0x1C8 | .size1 => 0x1CA | .size2 => 0x1CC
  | .srcStep0 => 0x1CE | .dstStep0 => 0x1D0 | .srcStep1 => 0x1D2 | .dstStep1 => 0x1D4
  | .srcStep2 => 0x1D6 | .dstStep2 => 0x1D8 | .y => 0x1DC

def DmaCell.off : DmaCell → Nat
  | .enable => 0x184 | .seox => 0x18C | .active => 0x1BE | .field f => f.off | .cfg => 0x1DA | .z => 0x1DE

def IcuCell.off : IcuCell → Nat
  | .request => 0x200 | .ack => 0x202 | .trigger => 0x204 | .enable i => 0x206 + i.val * 2
  | .enableV => 0x20C | .vecHi i => 0x212 + i.val * 4 | .vecLo i => 0x214 + i.val * 4

def BtCell.off : BtCell → Nat
  | .clock => 0x2A2 | .enable => 0x2BE | .status => 0x2C2 | .send => 0x2C6 | .flush => 0x2CA

/-- Offset of a cell that the constructor assigns (`none` for the untouched default cells). -/
def Cell.off : Cell → Option Nat
  | .store => none
  | .const _ => some 0x01A
  | .timer i c => some (0x20 + i.val * 0x10 + c.off)
  | .apbp c => some c.off
  | .ahbm c => some c.off
  | .miu c => some c.off
  | .dma c => some c.off
  | .icu c => some c.off
  | .btdmp i c => some (c.off + i.val * 0x80)

/-! ## timers (`0x20 + 0x10 i`) -/

namespace Timer

/-- `cells[…].set(v)` on timer `t`; `st` is the storage word of the cell.  Result: timer,
storage word, "`interrupt_handler()` was called".
`cfg`: the four `RefSlot` setters run first (TS, CM, PC, MU), then the RES slot calls
`Restart()` (whose `ASSERT(count_mode < 4)` can fail: CM is three bits wide), then
`*storage = value`. -/
def cellWrite (t : Timer) (st : U16) (c : TimerCell) (v : U16) : R (Timer × U16 × Bool) :=
  match c with
  | .cfg =>
    let t1 := { t with scale := bfField v 0 2, countMode := bfField v 2 3,
                       pause := bfField v 8 1, updateMmio := bfField v 9 1 }
    if bfField v 10 1 ≠ 0 then
      match t1.restart with
      | .ok t2 => .ok (t2, v, false)
      | .error e => .error e
    else .ok (t1, v, false)
  | .ew => if v ≠ 0 then let r := t.tickEvent; .ok (r.1, st, r.2) else .ok (t, st, false)
  | .startLow => .ok ({ t with startLow := v }, st, false)
  | .startHigh => .ok ({ t with startHigh := v }, st, false)
  | .cntLow => .ok ({ t with counterLow := v }, st, false)
  | .cntHigh => .ok ({ t with counterHigh := v }, st, false)

/-- `cells[…].get()` -/
def cellRead (t : Timer) (st : U16) : TimerCell → U16
  | .cfg => bfGet (bfGet (bfGet (bfGet (bfGet st 0 2 t.scale) 2 3 t.countMode) 8 1 t.pause) 9 1 t.updateMmio) 10 1 0
  | .ew => 0
  | .startLow => t.startLow
  | .startHigh => t.startHigh
  | .cntLow => t.counterLow
  | .cntHigh => t.counterHigh

end Timer

/-! ## APBP (`0x0C0`–`0x0D8`) -/

/-- Result of a write into the APBP block. -/
structure ApbpWr where
  cpu : Apbp
  dsp : Apbp
  st  : U16
  /-- handler calls of `apbp_from_cpu` (each is `icu.TriggerSingle(0xE)`) -/
  cpuEv : List ApbpEvent := []
  /-- handler calls of `apbp_from_dsp` (host-installed handlers) -/
  dspEv : List ApbpEvent := []

def apbpCellWrite (cpu dsp : Apbp) (st : U16) (c : ApbpCell) (v : U16) : ApbpWr :=
  match c with
  | .send ch => let r := dsp.sendData ch v; { cpu, dsp := r.1, st, dspEv := r.2 }
  | .recv _ => { cpu, dsp, st }
  | .semSet => let r := dsp.setSemaphore v; { cpu, dsp := r.1, st, dspEv := r.2 }
  | .semMask => let r := cpu.maskSemaphoreGen busApbpMaskFixed v; { cpu := r.1, dsp, st, cpuEv := r.2 }
  | .semClear => { cpu := cpu.clearSemaphore v, dsp, st }
  | .semGet => { cpu, dsp, st }
  | .cfg => { cpu := writeD4 cpu v, dsp, st := v }
  | .sts => { cpu, dsp, st := v }
  | .psts => { cpu, dsp, st := v }

/-- `get()`: new `apbp_from_cpu` (only `RecvData` changes it) and the value. -/
def apbpCellRead (cpu dsp : Apbp) (st : U16) : ApbpCell → Apbp × U16
  | .send ch => (cpu, dsp.peekData ch)
  | .recv ch => cpu.recvData ch
  | .semSet => (cpu, dsp.getSemaphore)
  | .semMask => (cpu, cpu.getSemaphoreMask)
  | .semClear => (cpu, 0)
  | .semGet => (cpu, cpu.getSemaphore)
  | .cfg => (cpu, configD4 st cpu)
  | .sts => (cpu, statusD6 st cpu dsp)
  | .psts => (cpu, statusD8 st cpu dsp)

/-! ## AHBM (`0x0E0`–`0x0F2`); the channel index of the cells is `< 3` by construction -/

def ahbmCellWrite (a : Ahbm) (st : U16) (c : AhbmCell) (v : U16) : Ahbm × U16 :=
  match c with
  | .busy => (a, st)                                  -- NoSet
  | .cfg1 i =>
    let a1 := a.setCh i.val { a.getCh i.val with burstSize := bfField v 1 2 }
    (a1.setCh i.val { a1.getCh i.val with unitSize := bfField v 4 2 }, v)
  | .cfg2 i => (a.setCh i.val { a.getCh i.val with direction := bfField v 8 1 }, v)
  | .dmaCh i => (a.setCh i.val { a.getCh i.val with dmaChannel := v }, st)

def ahbmCellRead (a : Ahbm) (st : U16) : AhbmCell → U16
  | .busy => a.getBusyFlag
  | .cfg1 i => bfGet (bfGet st 1 2 (a.getCh i.val).burstSize) 4 2 (a.getCh i.val).unitSize
  | .cfg2 i => bfGet st 8 1 (a.getCh i.val).direction
  | .dmaCh i => (a.getCh i.val).dmaChannel

/-! ## MIU (`0x10E`–`0x11E`) -/

def miuCellWrite (m : Miu) (st : U16) (c : MiuCell) (v : U16) : Miu × U16 :=
  match c with
  | .xPage => ({ m with xPage := v }, st)
  | .yPage => ({ m with yPage := v }, st)
  | .zPage => ({ m with zPage := v }, st)
  | .pageCfg k => ({ m with xSize := m.xSize.set k (bfField v 0 6), ySize := m.ySize.set k (bfField v 8 6) }, v)
  | .misc => ({ m with pageMode := bfField v 6 1 }, v)
  | .mmioBase => ({ m with mmioBase := v }, st)

def miuCellRead (m : Miu) (st : U16) : MiuCell → U16
  | .xPage => m.xPage
  | .yPage => m.yPage
  | .zPage => m.zPage
  | .pageCfg k => bfGet (bfGet st 0 6 m.xSize[k]) 8 6 m.ySize[k]
  | .misc => bfGet st 6 1 m.pageMode
  | .mmioBase => m.mmioBase

/-! ## DMA (`0x184`, `0x18C`, `0x1BE`–`0x1DE`) -/

def DmaField.get : DmaField → DmaChannel → U16
  | .addrSrcLow, c => c.addrSrcLow | .addrSrcHigh, c => c.addrSrcHigh
  | .addrDstLow, c => c.addrDstLow | .addrDstHigh, c => c.addrDstHigh
  | .size0, c => c.size0 | .size1, c => c.size1 | .size2, c => c.size2
  | .srcStep0, c => c.srcStep0 | .dstStep0, c => c.dstStep0
  | .srcStep1, c => c.srcStep1 | .dstStep1, c => c.dstStep1
  | .srcStep2, c => c.srcStep2 | .dstStep2, c => c.dstStep2
  | .y, c => c.y

def DmaField.set : DmaField → DmaChannel → U16 → DmaChannel
  | .addrSrcLow, c, v => { c with addrSrcLow := v } | .addrSrcHigh, c, v => { c with addrSrcHigh := v }
  | .addrDstLow, c, v => { c with addrDstLow := v } | .addrDstHigh, c, v => { c with addrDstHigh := v }
  | .size0, c, v => { c with size0 := v } | .size1, c, v => { c with size1 := v }
  | .size2, c, v => { c with size2 := v }
  | .srcStep0, c, v => { c with srcStep0 := v } | .dstStep0, c, v => { c with dstStep0 := v }
  | .srcStep1, c, v => { c with srcStep1 := v } | .dstStep1, c, v => { c with dstStep1 := v }
  | .srcStep2, c, v => { c with srcStep2 := v } | .dstStep2, c, v => { c with dstStep2 := v }
  | .y, c, v => { c with y := v }

/-- All DMA cells except `z` (which needs the memories).  `Dma::Set…` / `Get…` index
`channels[active_channel]` unchecked: `.error .oob` when the index is `≥ 8`. -/
def dmaCellWrite (d : Dma) (st : U16) (c : DmaCell) (v : U16) : R (Dma × U16) :=
  match c with
  | .enable => .ok (d.enableChannelSet v, st)
  | .seox => .ok (d, v)                               -- default `set`: storage
  | .active => .ok (d.activateChannel v, st)
  | .field f =>
    match d.setActive (f.set · v) with
    | .ok d' => .ok (d', st)
    | .error e => .error e
  | .cfg =>
    match d.setSrcSpace (bfField v 0 4) with
    | .error e => .error e
    | .ok d1 =>
      match d1.setDstSpace (bfField v 4 4) with
      | .error e => .error e
      | .ok d2 =>
        match d2.setDwordMode (bfField v 10 1) with
        | .error e => .error e
        | .ok d3 => .ok (d3, v)
  | .z => .ok (d, st)                                 -- handled by `Bus.cellWrite`

def dmaCellRead (d : Dma) (st : U16) : DmaCell → R U16
  | .enable => .ok d.getChannelEnabled
  | .seox => .ok 0xFFFF
  | .active => .ok d.getActiveChannel
  | .field f => d.getActive f.get
  | .cfg =>
    match d.getSrcSpace, d.getDstSpace, d.getDwordMode with
    | .ok s, .ok t, .ok w => .ok (bfGet (bfGet (bfGet st 0 4 s) 4 4 t) 10 1 w)
    | .error e, _, _ => .error e
    | _, .error e, _ => .error e
    | _, _, .error e => .error e
  | .z => d.getZ

/-! ## ICU (`0x200`–`0x250`) -/

/-- `set(v)`: new ICU, storage word, callbacks made. -/
def icuCellWrite (s : Icu) (st : U16) (c : IcuCell) (v : U16) : Icu × U16 × List IcuEvent :=
  match c with
  | .request => (s, st, [])                            -- NoSet
  | .ack => (s.acknowledge v, st, [])
  | .trigger => let r := s.trigger v; (r.1, st, r.2)
  | .enable i => (s.setEnable i v, st, [])
  | .enableV => (s.setEnableVectored v, st, [])
  | .vecHi i => ({ s with vectorHigh := s.vectorHigh.set i (bfField v 0 2),
                          vectorContextSwitch := s.vectorContextSwitch.set i (bfField v 15 1) }, v, [])
  | .vecLo i => ({ s with vectorLow := s.vectorLow.set i v }, st, [])

def icuCellRead (s : Icu) (st : U16) : IcuCell → U16
  | .request => s.getRequest
  | .ack => s.getAcknowledge
  | .trigger => s.getTrigger
  | .enable i => s.getEnable i
  | .enableV => s.getEnableVectored
  | .vecHi i => bfGet (bfGet st 0 2 s.vectorHigh[i]) 15 1 s.vectorContextSwitch[i]
  | .vecLo i => s.vectorLow[i]

/-! ## BTDMP (`0x2A2 + 0x80 i …`) -/

def btCellWrite (b : Btdmp) (st : U16) (c : BtCell) (v : U16) : Btdmp × U16 :=
  match c with
  | .clock => (b.setTransmitClockConfig v, st)
  | .enable => (b.setTransmitEnable v, st)
  | .status => (b, v)
  | .send => (b.send v, st)                            -- only `set` replaced: storage untouched
  | .flush => (b.setTransmitFlush v, st)

def btCellRead (b : Btdmp) (st : U16) : BtCell → U16
  | .clock => b.getTransmitClockConfig
  | .enable => b.getTransmitEnable
  | .status => bfGet (bfGet st 3 1 b.getTransmitFull) 4 1 b.getTransmitEmpty
  | .send => st                                        -- default `get`: storage
  | .flush => b.getTransmitFlush

/-! ## the region -/

namespace Bus

/-- `cells[off].set(v)`. -/
def cellWrite (b : Bus) (off : Fin mmioSize) (v : U16) : Cell → R (Bus × List PEvent)
  | .store => .ok ({ b with per := { b.per with store := b.per.store.set off v } }, [])
  | .const _ => .ok (b, [])                            -- NoSet
  | .timer i c =>
    match (b.per.timer[i]).cellWrite b.per.store[off] c v with
    | .error e => .error e
    | .ok (t, st, fired) =>
      let p := { b.per with timer := b.per.timer.set i t, store := b.per.store.set off st }
      let r := p.raiseIf fired (irqTimer i)
      .ok ({ b with per := r.1 }, r.2)
  | .apbp c =>
    let w := apbpCellWrite b.per.apbpFromCpu b.per.apbpFromDsp b.per.store[off] c v
    let p := { b.per with apbpFromCpu := w.cpu, apbpFromDsp := w.dsp, store := b.per.store.set off w.st }
    let r := p.raiseN irqApbp w.cpuEv.length
    .ok ({ b with per := r.1 }, w.dspEv.map PEvent.ofApbpDsp ++ r.2)
  | .ahbm c =>
    let r := ahbmCellWrite b.per.ahbm b.per.store[off] c v
    .ok ({ b with per := { b.per with ahbm := r.1, store := b.per.store.set off r.2 } }, [])
  | .miu c =>
    let r := miuCellWrite b.miu b.per.store[off] c v
    .ok ({ b with miu := r.1, per := { b.per with store := b.per.store.set off r.2 } }, [])
  | .dma .z =>
    let w : World Mem ExtSt := { mem := b.mem, ahbm := b.per.ahbm, ext := b.ext, log := [] }
    match b.per.dma.setZ w v with
    | .error e => .error e
    | .ok (d, w', n) =>
      let p := { b.per with dma := d, ahbm := w'.ahbm }
      let r := p.raiseN irqDma n
      .ok ({ b with mem := w'.mem, ext := w'.ext, per := r.1 }, w'.log.reverse.map PEvent.ext ++ r.2)
  | .dma c =>
    match dmaCellWrite b.per.dma b.per.store[off] c v with
    | .error e => .error e
    | .ok (d, st) => .ok ({ b with per := { b.per with dma := d, store := b.per.store.set off st } }, [])
  | .icu c =>
    let r := icuCellWrite b.per.icu b.per.store[off] c v
    .ok ({ b with per := { b.per with icu := r.1, store := b.per.store.set off r.2.1 } },
         r.2.2.map PEvent.ofIcu)
  | .btdmp i c =>
    let r := btCellWrite b.per.btdmp[i] b.per.store[off] c v
    .ok ({ b with per := { b.per with btdmp := b.per.btdmp.set i r.1, store := b.per.store.set off r.2 } }, [])

/-- The value of `cells[off].get()`. -/
def cellReadVal (b : Bus) (off : Fin mmioSize) : Cell → R U16
  | .store => .ok b.per.store[off]
  | .const c => .ok c
  | .timer i c => .ok ((b.per.timer[i]).cellRead b.per.store[off] c)
  | .apbp c => .ok (apbpCellRead b.per.apbpFromCpu b.per.apbpFromDsp b.per.store[off] c).2
  | .ahbm c => .ok (ahbmCellRead b.per.ahbm b.per.store[off] c)
  | .miu c => .ok (miuCellRead b.miu b.per.store[off] c)
  | .dma c => dmaCellRead b.per.dma b.per.store[off] c
  | .icu c => .ok (icuCellRead b.per.icu b.per.store[off] c)
  | .btdmp i c => .ok (btCellRead b.per.btdmp[i] b.per.store[off] c)

/-- The state after `cells[off].get()`: only `RecvData` (`0x0C2 + 4 ch`) changes anything. -/
def cellReadState (b : Bus) (off : Fin mmioSize) : Cell → Bus
  | .apbp c =>
    { b with per := { b.per with
        apbpFromCpu := (apbpCellRead b.per.apbpFromCpu b.per.apbpFromDsp b.per.store[off] c).1 } }
  | _ => b

/-- `MMIORegion::Write(off, v)`.  `cells[addr]` is not masked there: `off ≥ 0x800` would index
outside the array and is answered `.error .oob` (both callers mask the address first). -/
def mmioWrite (b : Bus) (off v : U16) : R (Bus × List PEvent) :=
  if h : off.toNat < mmioSize then b.cellWrite ⟨off.toNat, h⟩ v (cellAt off.toNat) else .error .oob

/-- `MMIORegion::Read(off)`.  No `get` closure calls a handler, so the event list is empty. -/
def mmioRead (b : Bus) (off : U16) : R (U16 × Bus × List PEvent) :=
  if h : off.toNat < mmioSize then
    match b.cellReadVal ⟨off.toNat, h⟩ (cellAt off.toNat) with
    | .ok v => .ok (v, b.cellReadState ⟨off.toNat, h⟩ (cellAt off.toNat), [])
    | .error e => .error e
  else .error .oob

end Bus
end Teakra
