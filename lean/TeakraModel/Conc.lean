import TeakraModel.Apbp
import TeakraModel.Icu
/-!
# Small-step interleaving semantics of the host mailbox API against a running DSP (property C19)

Two threads (`Tid.host`: the caller of the `Teakra::…` mailbox/semaphore API; `Tid.dsp`: the thread
inside `Teakra::Run`) act on one shared state: the two `Apbp` objects (`Side.cpu` = `apbp_from_cpu`,
`Side.dsp` = `apbp_from_dsp`), the `ICU`, and the interpreter's `std::atomic` latches.  The sequential
models `TeakraModel/Apbp.lean` and `TeakraModel/Icu.lean` (tied to the C++ by the C14 / ICU
correspondence runs) give the effect of every critical section.

**Atomic actions** are what the translated lock table justifies (`Proofs/C19.lean`,
`actions_justified` and `race_free_partial`): every access of a shared member happens under that
member's mutex or is an atomic operation, so

* each `DataChannel` method body is one action (its `std::lock_guard` scope contains no call); the
  data handler of `Send` is a *separate, later* action of the same thread, run with no lock held,
  exactly as `DataChannel::Send` calls `handler()` after the guard's scope;
* `Apbp::SetSemaphore` / `MaskSemaphore` hold the recursive `semaphore_mutex` from their first action
  (`semaphore |= bits` resp. `semaphore_mask = bits`, `new_signal` computed) over the handler call to
  their last action (`semaphore_master_signal = …`); other threads' semaphore calls on that `Apbp` block
  meanwhile, the same thread may re-enter (host callback);
* `ICU::Trigger` holds the (non-recursive) ICU mutex from `request |= bits` — where it also reads the
  enable masks and vectors — over the `on_interrupt` / `on_vectored_interrupt` calls; each of those is
  one atomic store per latch (`SignalInterrupt`: one store; `SignalVectoredInterrupt`: three stores
  `address`, `pending`, `context_switch`, in that order), each a separate action;
* `exchange i` / `vexchange` are the atomic `exchange(false)` of the latch block at the top of
  `Interpreter::Run`, each one action.

A thread is a stack of `Frame`s: its script of API calls, on top of it the continuation of the call in
progress (handler still to call, lock still to release).  Callbacks wired by `Teakra::Impl`'s
constructor are built in (`apbp_from_cpu`'s data and semaphore handlers are `icu.TriggerSingle(0xE)`;
the ICU callbacks are `SignalInterrupt` / `SignalVectoredInterrupt`); `apbp_from_dsp`'s handlers are host
code, given as the scripts `HostCallbacks` of calls the callback makes (it may re-enter the API).

What is *not* in this model: anything below "access under lock / atomic operation" of the C++ memory
model; scheduling fairness (`step` is a relation on states, theorems are safety properties over all
interleavings); `Reset` and handler installation (init phase); the direct MMIO writes to the ICU vector
tables are modelled as atomic actions although the C++ performs them unsynchronised (that race is
reported separately; a racy C++ program has no defined behaviour to model).
-/
namespace Teakra.Conc

inductive Tid where
  | host | dsp
  deriving DecidableEq, Repr, Inhabited

/-- Which `Apbp`: `cpu` = `apbp_from_cpu` (host writes, DSP reads), `dsp` = `apbp_from_dsp`. -/
inductive Side where
  | cpu | dsp
  deriving DecidableEq, Repr, Inhabited

/-- One API call of a script.  The `Apbp` calls are the methods of `apbp.cpp` (reached through
`Teakra::SendData` … or through MMIO cells `0x0C0`–`0x0D8`); the ICU calls are MMIO cells `0x200`–`0x250`;
`exchange`/`vexchange` are the latch block of one `Run` iteration. -/
inductive Call where
  | send (s : Side) (ch : Fin 3) (v : U16)
  | recv (s : Side) (ch : Fin 3)
  | peek (s : Side) (ch : Fin 3)
  | isReady (s : Side) (ch : Fin 3)
  | getDisable (s : Side) (ch : Fin 3)
  | setDisable (s : Side) (ch : Fin 3) (v : U16)
  | semSet (s : Side) (bits : U16)
  | semClear (s : Side) (bits : U16)
  | semMask (s : Side) (bits : U16)
  | semGet (s : Side)
  | maskGet (s : Side)
  | signaled (s : Side)
  | icuGetRequest
  | icuAck (bits : U16)
  | icuTrigger (bits : U16)
  | icuSetEnable (k : Fin 3) (bits : U16)
  | icuSetEnableVectored (bits : U16)
  | icuGetEnable (k : Fin 3)
  | icuGetEnableVectored
  | icuSetVectorLow (irq : Fin 16) (v : U16)
  | icuSetVectorHigh (irq : Fin 16) (v : U16)
  | icuSetVectorCtx (irq : Fin 16) (v : U16)
  | exchange (i : Fin 3)
  | vexchange
  deriving DecidableEq, Repr, Inhabited

/-- One pending atomic action (or call) of a thread. -/
inductive Frame where
  /-- a call of the script (or of a host callback) not yet started -/
  | call (c : Call)
  /-- `handler()` of `DataChannel::Send`, after the channel mutex was released -/
  | dataHandler (s : Side) (ch : Fin 3)
  /-- `semaphore_handler()`, under the semaphore mutex -/
  | semHandler (s : Side)
  /-- `semaphore_master_signal = semaphore_master_signal || new_signal;` and the end of the guard's scope -/
  | semSetFinish (s : Side) (newSignal : Bool)
  /-- `semaphore_master_signal = new_signal;` and the end of the guard's scope -/
  | semMaskFinish (s : Side) (newSignal : Bool)
  /-- `on_interrupt(i)` = `interrupt_pending[i] = true` -/
  | latchSet (i : Fin 3)
  /-- `vinterrupt_address = address` -/
  | vlatchAddr (a : U32)
  /-- `vinterrupt_pending = true` -/
  | vlatchPending
  /-- `vinterrupt_context_switch = context_switch` -/
  | vlatchCtx (b : Bool)
  /-- end of `ICU::Trigger`'s guard scope -/
  | icuRelease
  deriving DecidableEq, Repr, Inhabited

/-- The host's callbacks on `apbp_from_dsp` (`Teakra::SetRecvDataHandler`, `SetSemaphoreHandler`): the
calls each one makes. -/
structure HostCallbacks where
  data : Fin 3 → List Call
  sem : List Call

/-- Point update of a function. -/
def upd {α β : Type} [DecidableEq α] (f : α → β) (a : α) (b : β) : α → β := fun x => if x = a then b else f x

@[simp] theorem upd_same {α β : Type} [DecidableEq α] (f : α → β) (a : α) (b : β) : upd f a b a = b := by simp [upd]
theorem upd_other {α β : Type} [DecidableEq α] (f : α → β) (a x : α) (b : β) (h : x ≠ a) : upd f a b x = f x := by
  simp [upd, h]

structure Global where
  /-- the two mailbox blocks -/
  apbp : Side → Apbp
  icu : Icu
  /-- `interrupt_pending[i]` -/
  latch : Fin 3 → Bool
  /-- `vinterrupt_pending`, `vinterrupt_address`, `vinterrupt_context_switch` -/
  vpending : Bool
  vaddr : U32
  vctx : Bool
  /-- `regs.ip[i]`, `regs.ipv` (core-private; set by the latch block) -/
  ip : Fin 3 → Bool
  ipv : Bool
  /-- holder and recursion depth of each `semaphore_mutex` -/
  semLock : Side → Option (Tid × Nat)
  /-- holder of the ICU mutex -/
  icuLock : Option Tid
  stack : Tid → List Frame
  -- history variables
  /-- values written to each channel, in order -/
  sent : Side → Fin 3 → List U16
  /-- values returned by `RecvData` / `PeekData` on each channel, in order -/
  reads : Side → Fin 3 → List U16
  /-- values returned by `RecvData` while the channel's ready flag was 1, in order -/
  taken : Side → Fin 3 → List U16
  /-- number of `SignalInterrupt(i)` stores / of `exchange` operations that returned true -/
  latchSets : Fin 3 → Nat
  observed : Fin 3 → Nat
  /-- per thread and side: sends that found the interrupt enabled / data-handler calls made -/
  irqSends : Tid → Side → Nat
  handlerRuns : Tid → Side → Nat
  /-- per thread: `on_interrupt` calls scheduled by `Trigger` / latch stores performed -/
  routed : Tid → Nat
  latched : Tid → Nat
  /-- number of `Trigger` critical sections entered -/
  triggers : Nat
  /-- values returned by `IsDataReady` on each channel, in order (polls by either thread) -/
  polls : Side → Fin 3 → List Bool
  /-- for each word of `sent`, in order: whether that `Send` found the channel's interrupt enabled in its
  critical section (and so went on to call the handler) -/
  sentIrq : Side → Fin 3 → List Bool

/-- State after construction (`Teakra::Teakra`): everything zero, nobody holds a lock, each thread has its
script to run. -/
def init (hostScript dspScript : List Call) (icu : Icu := {}) : Global where
  apbp _ := {}
  icu := icu
  latch _ := false
  vpending := false
  vaddr := 0
  vctx := false
  ip _ := false
  ipv := false
  semLock _ := none
  icuLock := none
  stack t := (match t with | .host => hostScript | .dsp => dspScript).map Frame.call
  sent _ _ := []
  reads _ _ := []
  taken _ _ := []
  latchSets _ := 0
  observed _ := 0
  irqSends _ _ := 0
  handlerRuns _ _ := 0
  routed _ := 0
  latched _ := 0
  triggers := 0
  polls _ _ := []
  sentIrq _ _ := []

/-- The channel object `data_channels[ch]` of one side. -/
def Global.chan (g : Global) (s : Side) (ch : Fin 3) : DataChannel := (g.apbp s).dataChannels[ch]

/-- The atomic stores `on_interrupt` / `on_vectored_interrupt` perform for one ICU event. -/
def eventFrames : IcuEvent → List Frame
  | .interrupt line => [.latchSet line]
  | .vectored a c => [.vlatchAddr a, .vlatchPending, .vlatchCtx c]

def isLatchSet : Frame → Bool
  | .latchSet _ => true
  | _ => false

def isDataHandler (s : Side) : Frame → Bool
  | .dataHandler s' _ => s' = s
  | _ => false

/-- Entering `ICU::Trigger(bits)`: take the ICU mutex (blocks if anybody — also this thread — holds it),
`request |= bits`, read the enable masks and vectors, and schedule the callback stores followed by the
release.  `rest` is the thread's stack below the current frame. -/
def trigger (t : Tid) (bits : U16) (rest : List Frame) (g : Global) : Option Global :=
  if g.icuLock.isSome then none
  else
    let r := g.icu.trigger bits
    let fr := r.2.flatMap eventFrames
    some { g with icu := r.1, icuLock := some t, triggers := g.triggers + 1,
                  routed := upd g.routed t (g.routed t + fr.countP isLatchSet),
                  stack := upd g.stack t (fr ++ Frame.icuRelease :: rest) }

/-- `(u16)(1 << 0xE)`: the request line of the APBP block. -/
def apbpIrq : U16 := Icu.singleBit 0xE

/-- The semaphore mutex of side `s` can be taken by `t`: free, or already held by `t` (recursive). -/
def semAvail (g : Global) (s : Side) (t : Tid) : Bool :=
  match g.semLock s with
  | none => true
  | some (t', _) => t' = t

def semAcquire (g : Global) (s : Side) (t : Tid) : Option (Tid × Nat) :=
  match g.semLock s with
  | none => some (t, 1)
  | some (_, n) => some (t, n + 1)

def semRelease (g : Global) (s : Side) : Option (Tid × Nat) :=
  match g.semLock s with
  | some (t, n + 2) => some (t, n + 1)
  | _ => none

/-- A single ICU critical section without callbacks. -/
def icuCS (rest : List Frame) (t : Tid) (g : Global) (f : Icu → Icu) : Option Global :=
  if g.icuLock.isSome then none else some { g with icu := f g.icu, stack := upd g.stack t rest }

/-- A single semaphore critical section without callbacks. -/
def semCS (rest : List Frame) (t : Tid) (s : Side) (g : Global) (f : Apbp → Apbp) : Option Global :=
  if semAvail g s t then some { g with apbp := upd g.apbp s (f (g.apbp s)), stack := upd g.stack t rest } else none

/-- Start of one API call by thread `t`; `rest` is its stack below the call. -/
def execCall (t : Tid) (rest : List Frame) (g : Global) : Call → Option Global
  | .send s ch v =>
    let r := (g.apbp s).sendData ch v
    let irq := !r.2.isEmpty
    some { g with apbp := upd g.apbp s r.1,
                  sent := upd g.sent s (upd (g.sent s) ch (g.sent s ch ++ [v])),
                  irqSends := upd g.irqSends t (upd (g.irqSends t) s (g.irqSends t s + (if irq then 1 else 0))),
                  sentIrq := upd g.sentIrq s (upd (g.sentIrq s) ch (g.sentIrq s ch ++ [irq])),
                  stack := upd g.stack t (if irq then Frame.dataHandler s ch :: rest else rest) }
  | .recv s ch =>
    let r := (g.apbp s).recvData ch
    some { g with apbp := upd g.apbp s r.1,
                  reads := upd g.reads s (upd (g.reads s) ch (g.reads s ch ++ [r.2])),
                  taken := upd g.taken s (upd (g.taken s) ch
                    (if (g.apbp s).isDataReady ch then g.taken s ch ++ [r.2] else g.taken s ch)),
                  stack := upd g.stack t rest }
  | .peek s ch =>
    some { g with reads := upd g.reads s (upd (g.reads s) ch (g.reads s ch ++ [(g.apbp s).peekData ch])),
                  stack := upd g.stack t rest }
  | .isReady s ch =>
    some { g with polls := upd g.polls s (upd (g.polls s) ch (g.polls s ch ++ [(g.apbp s).isDataReady ch])),
                  stack := upd g.stack t rest }
  | .getDisable _ _ => some { g with stack := upd g.stack t rest }
  | .setDisable s ch v =>
    some { g with apbp := upd g.apbp s ((g.apbp s).setDisableInterrupt ch v), stack := upd g.stack t rest }
  | .semSet s bits =>
    if semAvail g s t then
      let a := g.apbp s
      let sem := a.semaphore ||| bits
      let ns := Apbp.signalOf sem a.semaphoreMask
      some { g with apbp := upd g.apbp s { a with semaphore := sem },
                    semLock := upd g.semLock s (semAcquire g s t),
                    stack := upd g.stack t ((if ns then [Frame.semHandler s] else []) ++ Frame.semSetFinish s ns :: rest) }
    else none
  | .semMask s bits =>
    if semAvail g s t then
      let a := g.apbp s
      let ns := Apbp.signalOf a.semaphore bits
      some { g with apbp := upd g.apbp s { a with semaphoreMask := bits },
                    semLock := upd g.semLock s (semAcquire g s t),
                    stack := upd g.stack t ((if ns && !a.semaphoreMasterSignal then [Frame.semHandler s] else []) ++
                                            Frame.semMaskFinish s ns :: rest) }
    else none
  | .semClear s bits => semCS rest t s g (·.clearSemaphore bits)
  | .semGet s => semCS rest t s g id
  | .maskGet s => semCS rest t s g id
  | .signaled s => semCS rest t s g id
  | .icuGetRequest => icuCS rest t g id
  | .icuAck bits => icuCS rest t g (·.acknowledge bits)
  | .icuTrigger bits => trigger t bits rest g
  | .icuSetEnable k bits => icuCS rest t g (·.setEnable k bits)
  | .icuSetEnableVectored bits => icuCS rest t g (·.setEnableVectored bits)
  | .icuGetEnable _ => icuCS rest t g id
  | .icuGetEnableVectored => icuCS rest t g id
  | .icuSetVectorLow irq v =>
    some { g with icu := { g.icu with vectorLow := g.icu.vectorLow.set irq v }, stack := upd g.stack t rest }
  | .icuSetVectorHigh irq v =>
    some { g with icu := { g.icu with vectorHigh := g.icu.vectorHigh.set irq v }, stack := upd g.stack t rest }
  | .icuSetVectorCtx irq v =>
    some { g with icu := { g.icu with vectorContextSwitch := g.icu.vectorContextSwitch.set irq v },
                  stack := upd g.stack t rest }
  | .exchange i =>
    if g.latch i then
      some { g with latch := upd g.latch i false, ip := upd g.ip i true, observed := upd g.observed i (g.observed i + 1),
                    stack := upd g.stack t rest }
    else some { g with stack := upd g.stack t rest }
  | .vexchange =>
    if g.vpending then some { g with vpending := false, ipv := true, stack := upd g.stack t rest }
    else some { g with stack := upd g.stack t rest }

/-- One atomic action of thread `t` whose top frame is `f`. -/
def execFrame (cb : HostCallbacks) (t : Tid) (rest : List Frame) (g : Global) : Frame → Option Global
  | .call c => execCall t rest g c
  | .dataHandler s ch =>
    let g' := { g with handlerRuns := upd g.handlerRuns t (upd (g.handlerRuns t) s (g.handlerRuns t s + 1)) }
    match s with
    | .cpu => trigger t apbpIrq rest g'
    | .dsp => some { g' with stack := upd g.stack t ((cb.data ch).map Frame.call ++ rest) }
  | .semHandler s =>
    match s with
    | .cpu => trigger t apbpIrq rest g
    | .dsp => some { g with stack := upd g.stack t (cb.sem.map Frame.call ++ rest) }
  | .semSetFinish s ns =>
    let a := g.apbp s
    some { g with apbp := upd g.apbp s { a with semaphoreMasterSignal := a.semaphoreMasterSignal || ns },
                  semLock := upd g.semLock s (semRelease g s), stack := upd g.stack t rest }
  | .semMaskFinish s ns =>
    let a := g.apbp s
    some { g with apbp := upd g.apbp s { a with semaphoreMasterSignal := ns },
                  semLock := upd g.semLock s (semRelease g s), stack := upd g.stack t rest }
  | .latchSet i =>
    some { g with latch := upd g.latch i true, latchSets := upd g.latchSets i (g.latchSets i + 1),
                  latched := upd g.latched t (g.latched t + 1), stack := upd g.stack t rest }
  | .vlatchAddr a => some { g with vaddr := a, stack := upd g.stack t rest }
  | .vlatchPending => some { g with vpending := true, stack := upd g.stack t rest }
  | .vlatchCtx b => some { g with vctx := b, stack := upd g.stack t rest }
  | .icuRelease => some { g with icuLock := none, stack := upd g.stack t rest }

/-- **The interleaving semantics**: thread `t` performs its next atomic action.  `none`: the thread has
finished, or it is blocked on a mutex another thread (or, for the ICU mutex, it itself) holds. -/
def step (cb : HostCallbacks) (g : Global) (t : Tid) : Option Global :=
  match g.stack t with
  | [] => none
  | f :: rest => execFrame cb t rest g f

/-- Run a schedule (a list of thread choices); choices of a finished or blocked thread are skipped. -/
def run (cb : HostCallbacks) : List Tid → Global → Global
  | [], g => g
  | t :: ts, g => run cb ts ((step cb g t).getD g)

/-- The states reachable from `g₀` by any interleaving. -/
inductive Reachable (cb : HostCallbacks) (g₀ : Global) : Global → Prop where
  | init : Reachable cb g₀ g₀
  | step {g g' : Global} (t : Tid) : Reachable cb g₀ g → step cb g t = some g' → Reachable cb g₀ g'

end Teakra.Conc
