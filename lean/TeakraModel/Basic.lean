/-!
# Common vocabulary of the teakra model

Outcome classes shared by every modelled unit.  `Abort.assert` is the C++ `ASSERT(...)` /
`UNREACHABLE()` (a deliberate `abort()`, made observable by the `TEAKRA_VERIF` hook in
`crash.h`), `Abort.unimpl` is `UnimplementedException`, `Abort.oob` is an access outside the
0x80000-byte DSP memory reported by the memory-observer hook, `Abort.hang` is a loop of the C++
that does not end within the stated fuel (used by the DMA model, see `Proofs/C13.lean`).
-/
namespace Teakra

inductive Abort where
  | unimpl | assert | oob | hang
  deriving DecidableEq, Repr, Inhabited

instance : ToString Abort where
  toString
    | .unimpl => "unimpl"
    | .assert => "assert"
    | .oob => "oob"
    | .hang => "hang"

/-- Result of an operation that can end in one of the documented abort classes. -/
abbrev R := Except Abort

instance {α : Type} [DecidableEq α] : DecidableEq (R α) := fun a b =>
  match a, b with
  | .ok x, .ok y => if h : x = y then isTrue (by rw [h]) else isFalse (by intro h'; injection h' with h'; exact h h')
  | .error x, .error y => if h : x = y then isTrue (by rw [h]) else isFalse (by intro h'; injection h' with h'; exact h h')
  | .ok _, .error _ => isFalse (by intro h; cases h)
  | .error _, .ok _ => isFalse (by intro h; cases h)

abbrev U16 := BitVec 16
abbrev U32 := BitVec 32
abbrev U64 := BitVec 64

/-- `u64` "infinity" used by `CoreTiming::Callbacks::Infinity`. -/
def infinity : Nat := 2 ^ 64 - 1

end Teakra
