import TeakraModel.Basic
/-!
# Operand types of `src/operand.h`

Operands reach handlers as their raw `storage` value (`Nat`, already masked to the operand's
width by the decoder).  The tables below are the `RegOperand<…>` / `EnumOperand<…>` name lists
of `operand.h`, in the same order; `translate_decode.py` regenerates the same lists from the
header and `Proofs/C02` proves the two equal.
-/
namespace Teakra

inductive RegName where
  | a0 | a0l | a0h | a0e | a1 | a1l | a1h | a1e
  | b0 | b0l | b0h | b0e | b1 | b1l | b1h | b1e
  | r0 | r1 | r2 | r3 | r4 | r5 | r6 | r7
  | y0 | p | pc | sp | sv | lc
  | ar0 | ar1 | arp0 | arp1 | arp2 | arp3
  | ext0 | ext1 | ext2 | ext3
  | stt0 | stt1 | stt2 | st0 | st1 | st2 | cfgi | cfgj
  | mod0 | mod1 | mod2 | mod3 | undefine
  deriving DecidableEq, Repr, Inhabited

open RegName

private def pick {α : Type} [Inhabited α] (xs : List α) (i : Nat) : α := xs.getD i default

def registerNames : List RegName :=
  [r0, r1, r2, r3, r4, r5, r7, y0, st0, st1, st2, p, pc, sp, cfgi, cfgj, b0h, b1h, b0l, b1l,
   ext0, ext1, ext2, ext3, a0, a1, a0l, a1l, a0h, a1h, lc, sv]
def Register.name (v : Nat) : RegName := registerNames.getD v .undefine
/-- `Register::GetNameForMovFromP` -/
def Register.nameForMovFromP (v : Nat) : RegName := if v % 2 = 1 then a1 else a0
def Ax.name (v : Nat) : RegName := [a0, a1].getD v .undefine
def Axl.name (v : Nat) : RegName := [a0l, a1l].getD v .undefine
def Axh.name (v : Nat) : RegName := [a0h, a1h].getD v .undefine
def Bx.name (v : Nat) : RegName := [b0, b1].getD v .undefine
def Bxl.name (v : Nat) : RegName := [b0l, b1l].getD v .undefine
def Bxh.name (v : Nat) : RegName := [b0h, b1h].getD v .undefine
def Ab.name (v : Nat) : RegName := [b0, b1, a0, a1].getD v .undefine
def Abl.name (v : Nat) : RegName := [b0l, b1l, a0l, a1l].getD v .undefine
def Abh.name (v : Nat) : RegName := [b0h, b1h, a0h, a1h].getD v .undefine
def Abe.name (v : Nat) : RegName := [b0e, b1e, a0e, a1e].getD v .undefine
def Ablh.name (v : Nat) : RegName := [b0l, b0h, b1l, b1h, a0l, a0h, a1l, a1h].getD v .undefine
def RnOld.name (v : Nat) : RegName := [r0, r1, r2, r3, r4, r5, r7, y0].getD v .undefine
def Rn.name (v : Nat) : RegName := [r0, r1, r2, r3, r4, r5, r6, r7].getD v .undefine
def R45.name (v : Nat) : RegName := [r4, r5].getD v .undefine
def R0123.name (v : Nat) : RegName := [r0, r1, r2, r3].getD v .undefine
def ArArpSttMod.name (v : Nat) : RegName :=
  [ar0, ar1, arp0, arp1, arp2, arp3, undefine, undefine, stt0, stt1, stt2, undefine,
   mod0, mod1, mod2, mod3].getD v .undefine
def ArArp.name (v : Nat) : RegName := [ar0, ar1, arp0, arp1, arp2, arp3, undefine, undefine].getD v .undefine
def SttMod.name (v : Nat) : RegName := [stt0, stt1, stt2, undefine, mod0, mod1, mod2, mod3].getD v .undefine
def Ar.name (v : Nat) : RegName := [ar0, ar1].getD v .undefine
def Arp.name (v : Nat) : RegName := [arp0, arp1, arp2, arp3].getD v .undefine

inductive SwapTypeValue where
  | a0b0 | a0b1 | a1b0 | a1b1 | a0b0a1b1 | a0b1a1b0 | a0b0a1 | a0b1a1 | a1b0a0 | a1b1a0
  | b0a0b1 | b0a1b1 | b1a0b0 | b1a1b0 | reserved0 | reserved1
  deriving DecidableEq, Repr, Inhabited
def SwapType.name (v : Nat) : SwapTypeValue :=
  open SwapTypeValue in
  [a0b0, a0b1, a1b0, a1b1, a0b0a1b1, a0b1a1b0, a0b0a1, a0b1a1, a1b0a0, a1b1a0,
   b0a0b1, b0a1b1, b1a0b0, b1a1b0, reserved0, reserved1].getD v .reserved1

inductive StepValue where
  | zero | increase | decrease | plusStep | increase2Mode1 | decrease2Mode1 | increase2Mode2 | decrease2Mode2
  deriving DecidableEq, Repr, Inhabited
def StepZIDS.name (v : Nat) : StepValue :=
  open StepValue in [zero, increase, decrease, plusStep].getD v .zero

inductive AlmOp where
  | or_ | and_ | xor_ | add | tst0 | tst1 | cmp | sub | msu | addh | addl | subh | subl | sqr | sqra | cmpu
  | reserved
  deriving DecidableEq, Repr, Inhabited
def Alm.name (v : Nat) : AlmOp :=
  open AlmOp in
  [or_, and_, xor_, add, tst0, tst1, cmp, sub, msu, addh, addl, subh, subl, sqr, sqra, cmpu].getD v .reserved
def Alu.name (v : Nat) : AlmOp :=
  open AlmOp in [or_, and_, xor_, add, reserved, reserved, cmp, sub].getD v .reserved

inductive AlbOp where
  | set | rst | chng | addv | tst0 | tst1 | cmpv | subv
  deriving DecidableEq, Repr, Inhabited
def Alb.name (v : Nat) : AlbOp :=
  open AlbOp in [set, rst, chng, addv, tst0, tst1, cmpv, subv].getD v .set

inductive MulOp where
  | mpy | mpysu | mac | macus | maa | macuu | macsu | maasu
  deriving DecidableEq, Repr, Inhabited
def Mul3.name (v : Nat) : MulOp :=
  open MulOp in [mpy, mpysu, mac, macus, maa, macuu, macsu, maasu].getD v .mpy
def Mul2.name (v : Nat) : MulOp :=
  open MulOp in [mpy, mac, maa, macsu].getD v .mpy

inductive ModaOp where
  | shr | shr4 | shl | shl4 | ror | rol | clr | reserved | not_ | neg | rnd | pacr | clrr | inc | dec | copy
  deriving DecidableEq, Repr, Inhabited
def Moda4.name (v : Nat) : ModaOp :=
  open ModaOp in
  [shr, shr4, shl, shl4, ror, rol, clr, reserved, not_, neg, rnd, pacr, clrr, inc, dec, copy].getD v .reserved
def Moda3.name (v : Nat) : ModaOp :=
  open ModaOp in [shr, shr4, shl, shl4, ror, rol, clr, clrr].getD v .reserved

inductive CondValue where
  | true_ | eq | neq | gt | ge | lt | le | nn | c | v | e | l | nr | niu0 | iu0 | iu1
  deriving DecidableEq, Repr, Inhabited
def Cond.name (x : Nat) : CondValue :=
  open CondValue in
  [true_, eq, neq, gt, ge, lt, le, nn, c, v, e, l, nr, niu0, iu0, iu1].getD x .true_

inductive CbsCondValue where
  | ge | gt
  deriving DecidableEq, Repr, Inhabited
def CbsCond.name (v : Nat) : CbsCondValue := if v = 0 then .ge else .gt

inductive SumBase where
  | zero | acc | sv | svRnd
  deriving DecidableEq, Repr, Inhabited
def SumBase.decode (v : Nat) : SumBase := [SumBase.zero, .acc, .sv, .svRnd].getD v .zero

/-- `SignExtend<bits>` of a raw value, as a 16-bit word. -/
def signExtend16 (bits : Nat) (v : Nat) : U16 :=
  let v := v % 2 ^ bits
  if v / 2 ^ (bits - 1) % 2 = 1 then BitVec.ofNat 16 (v + (2 ^ 16 - 2 ^ bits)) else BitVec.ofNat 16 v

/-- `Imm<bits>::Unsigned16` -/
def imm16 (v : Nat) : U16 := BitVec.ofNat 16 v
/-- `Imms<bits>::Signed16` -/
def imms16 (bits : Nat) (v : Nat) : U16 := signExtend16 bits v
/-- `RelAddr7::Relative32` -/
def relAddr7 (v : Nat) : U32 := (BitVec.ofNat 7 v).signExtend 32
/-- `Address32(Address18_16 low, Address18_2 high)` -/
def address18 (low high : Nat) : U32 := BitVec.ofNat 32 (low % 2 ^ 16 + (high % 4) * 2 ^ 16)

/-- `BankFlags` accessors -/
structure BankFlags where
  cfgi : Bool
  r4 : Bool
  r1 : Bool
  r0 : Bool
  r7 : Bool
  cfgj : Bool
def BankFlags.decode (v : Nat) : BankFlags :=
  { cfgi := v.testBit 0, r4 := v.testBit 1, r1 := v.testBit 2, r0 := v.testBit 3,
    r7 := v.testBit 4, cfgj := v.testBit 5 }

end Teakra
