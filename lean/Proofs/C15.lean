import TeakraModel.Timer
/-!
# C15 — timers count, fire and reload exactly per mode, and fast-forward is exact

Property theorems about `Teakra.Timer` (model of `src/timer.cpp`); the tie to the C++ is the
`timer` correspondence slice.  Helper lemmas are `private`.
-/
namespace Teakra.Timer

/-- States on which `Timer::Tick` does not trip its two `ASSERT`s. -/
def WF (t : Timer) : Prop := t.countMode < 4 ∧ t.scale = 0
instance : DecidablePred WF := fun _ => inferInstanceAs (Decidable (_ ∧ _))

/-- "running": not paused and not in event-count mode. -/
def Running (t : Timer) : Prop := t.pause = 0 ∧ t.countMode ≠ 3
instance : DecidablePred Running := fun _ => inferInstanceAs (Decidable (_ ∧ _))

/-- `k` calls of `Tick` (guards included), counting interrupt-handler invocations. -/
def ticks : Nat → Timer → R (Timer × Nat)
  | 0, t => .ok (t, 0)
  | k + 1, t => do
      let (t', irq) ← tick t
      let (t'', n) ← ticks k t'
      pure (t'', n + irq.toNat)

private theorem tickOk_of_WF {t : Timer} (h : WF t) : tickOk t = true := by
  obtain ⟨h1, h2⟩ := h; simp_all [tickOk]

theorem tick_of_WF {t : Timer} (h : WF t) : tick t = .ok (tickCore t) := by
  simp [tick, tickOk_of_WF h]

private theorem updateMMIO_counter (t : Timer) : (updateMMIO t).counter = t.counter := by
  unfold updateMMIO; split <;> rfl

private theorem updateMMIO_cfg (t : Timer) :
    (updateMMIO t).countMode = t.countMode ∧ (updateMMIO t).scale = t.scale ∧
    (updateMMIO t).pause = t.pause ∧ (updateMMIO t).startHigh = t.startHigh ∧
    (updateMMIO t).startLow = t.startLow ∧ (updateMMIO t).updateMmio = t.updateMmio := by
  unfold updateMMIO; split <;> simp

private theorem updateMMIO_twice (t : Timer) (c c' : U32) :
    updateMMIO { updateMMIO { t with counter := c } with counter := c' }
      = updateMMIO { t with counter := c' } := by
  unfold updateMMIO; split <;> simp_all

/-- The configuration fields are untouched by a tick. -/
theorem tickCore_cfg (t : Timer) :
    (tickCore t).1.countMode = t.countMode ∧ (tickCore t).1.scale = t.scale ∧
    (tickCore t).1.pause = t.pause ∧ (tickCore t).1.startHigh = t.startHigh ∧
    (tickCore t).1.startLow = t.startLow ∧ (tickCore t).1.updateMmio = t.updateMmio := by
  unfold tickCore restartCore
  repeat' split
  all_goals simp [updateMMIO_cfg]

/-! ## per-cycle behaviour by mode -/

/-- A running timer with a non-zero counter decrements by exactly one and raises its interrupt
exactly when the counter goes from 1 to 0. -/
theorem tick_decrements (t : Timer) (hr : Running t) (hc : t.counter ≠ 0) :
    (tickCore t).1.counter = t.counter - 1 ∧ (tickCore t).2 = decide (t.counter = 1) := by
  obtain ⟨hp, he⟩ := hr
  simp only [tickCore, hp, he, hc, ne_eq, not_true_eq_false, if_false, updateMMIO_counter, true_and]
  rw [decide_eq_decide]; constructor <;> intro h <;> bv_omega

/-- The interrupt is raised by a tick only on the 1 → 0 transition of a running timer. -/
theorem fires_iff (t : Timer) :
    (tickCore t).2 = true ↔ (t.pause = 0 ∧ t.countMode ≠ 3 ∧ t.counter = 1) := by
  unfold tickCore
  split
  · simp_all
  split
  · simp_all
  split
  · rename_i hc; repeat' split
    all_goals simp [hc]
  · rename_i hp he hc
    have hp' : t.pause = 0 := by simpa using hp
    simp only [hp', he, ne_eq, not_false_eq_true, true_and, updateMMIO_counter, decide_eq_true_eq]
    constructor <;> intro h <;> bv_omega

/-- Single mode stops at zero (and stays silent). -/
theorem single_stops (t : Timer) (hm : t.countMode = 0) (hc : t.counter = 0) :
    tickCore t = (t, false) := by
  simp [tickCore, hm, hc]

/-- Auto-restart reloads the start value on the cycle after reaching zero, silently. -/
theorem autorestart_reloads (t : Timer) (hr : Running t) (hm : t.countMode = 1) (hc : t.counter = 0) :
    (tickCore t).1.counter = t.startValue ∧ (tickCore t).2 = false := by
  simp [tickCore, restartCore, hr.1, hm, hc, updateMMIO_counter]

/-- Free-running wraps from zero to 0xFFFFFFFF, silently. -/
theorem freerunning_wraps (t : Timer) (hr : Running t) (hm : t.countMode = 2) (hc : t.counter = 0) :
    (tickCore t).1.counter = 0xFFFFFFFF ∧ (tickCore t).2 = false := by
  simp [tickCore, hr.1, hm, hc, updateMMIO_counter]

/-- A paused timer holds every field, mirror included. -/
theorem paused_holds (t : Timer) (hp : t.pause ≠ 0) : tickCore t = (t, false) := by
  simp_all [tickCore]

/-- In event-count mode cycles do nothing … -/
theorem eventcount_tick (t : Timer) (hm : t.countMode = 3) : tickCore t = (t, false) := by
  by_cases hp : t.pause = 0 <;> simp [tickCore, hm, hp]

/-- … and each event write decrements once, firing on 1 → 0. -/
theorem eventcount_event (t : Timer) (hp : t.pause = 0) (hm : t.countMode = 3) (hc : t.counter ≠ 0) :
    (tickEvent t).1.counter = t.counter - 1 ∧ (tickEvent t).2 = decide (t.counter = 1) := by
  simp only [tickEvent, hp, hm, hc, ne_eq, not_true_eq_false, if_false, updateMMIO_counter, true_and]
  rw [decide_eq_decide]; constructor <;> intro h <;> bv_omega

/-- The MMIO mirror follows the counter whenever mirror updating is on and the counter moved. -/
theorem mirror_follows (t : Timer) (hu : t.updateMmio ≠ 0) (hr : Running t) (hc : t.counter ≠ 0) :
    (tickCore t).1.counterHigh = (tickCore t).1.counter.extractLsb' 16 16 ∧
    (tickCore t).1.counterLow = (tickCore t).1.counter.extractLsb' 0 16 := by
  obtain ⟨hp, he⟩ := hr
  simp_all [tickCore, updateMMIO]


/-! ## fast-forward -/

/-- `k` ticks without the guards, counting interrupts. -/
def ticksCore : Nat → Timer → Timer × Nat
  | 0, t => (t, 0)
  | k + 1, t => let r := ticksCore k (tickCore t).1; (r.1, r.2 + (tickCore t).2.toNat)

private theorem WF_tickCore {t : Timer} (h : WF t) : WF (tickCore t).1 := by
  have := tickCore_cfg t; unfold WF at *; simp_all

/-- On well-formed timers the guarded and the unguarded iteration coincide. -/
theorem ticks_eq_core (k : Nat) : ∀ (t : Timer), WF t → ticks k t = .ok (ticksCore k t) := by
  induction k with
  | zero => intro t _; rfl
  | succ k ih =>
    intro t hw
    simp only [ticks, tick_of_WF hw, ih _ (WF_tickCore hw), ticksCore, bind, Except.bind, pure,
      Except.pure]

private theorem ne_zero_toNat {c : U32} (h : c ≠ 0) : c.toNat ≠ 0 :=
  fun h' => h (BitVec.eq_of_toNat_eq (by simpa using h'))

private theorem ticks_nonzero (k : Nat) : ∀ (t : Timer), Running t → t.counter ≠ 0 →
    k ≤ t.counter.toNat - 1 →
    ticksCore k t =
      (if k = 0 then t else updateMMIO { t with counter := t.counter - BitVec.ofNat 32 k }, 0) := by
  induction k with
  | zero => intro t _ _ _; simp [ticksCore]
  | succ k ih =>
    intro t hr hc hk
    obtain ⟨hp, he⟩ := hr
    have hcn := ne_zero_toNat hc
    have ht : tickCore t = (updateMMIO { t with counter := t.counter - 1 }, false) := by
      simp only [tickCore, hp, he, hc, ne_eq, not_true_eq_false, if_false, updateMMIO_counter]
      congr 1; simp only [decide_eq_false_iff_not]; intro h; bv_omega
    have hr' : Running (updateMMIO { t with counter := t.counter - 1 }) := by
      unfold Running; simp_all [updateMMIO_cfg]
    have hcn' : (updateMMIO { t with counter := t.counter - 1 }).counter ≠ 0 := by
      rw [updateMMIO_counter]; intro h; bv_omega
    have hk' : k ≤ (updateMMIO { t with counter := t.counter - 1 }).counter.toNat - 1 := by
      rw [updateMMIO_counter]; bv_omega
    simp only [ticksCore, ht, ih _ hr' hcn' hk']
    by_cases hk0 : k = 0
    · subst hk0; simp
    · simp only [hk0, if_false, Nat.add_eq_zero_iff, and_false, updateMMIO_counter, updateMMIO_twice,
        Bool.toNat_false, Nat.add_zero]
      congr 3; bv_omega

private theorem ticks_idle (k : Nat) (t : Timer) (h : tickCore t = (t, false)) :
    ticksCore k t = (t, 0) := by
  induction k with
  | zero => rfl
  | succ k ih => simp [ticksCore, h, ih]

private theorem skip_core (t : Timer) (k : Nat) (hk : k ≤ maxSkip t) :
    skipOkGen true t k = true ∧ skipCoreGen true t k = (ticksCore k t).1 ∧ (ticksCore k t).2 = 0 := by
  by_cases hidle : t.pause ≠ 0 ∨ t.countMode = 3
  · have h : tickCore t = (t, false) := by
      rcases hidle with h | h
      · exact paused_holds t h
      · exact eventcount_tick t h
    simp_all [skipOkGen, skipCoreGen, ticks_idle k t h]
  have hr : Running t := by unfold Running; simp_all
  by_cases hk0 : k = 0
  · subst hk0; simp [skipOkGen, skipCoreGen, ticksCore]
  by_cases hc : t.counter = 0
  · -- at zero: single stays, auto-restart / free-running reload on the first tick
    by_cases hm : t.countMode = 1 ∨ t.countMode = 2
    · obtain ⟨j, rfl⟩ : ∃ j, k = j + 1 := ⟨k - 1, by omega⟩
      have hk' : j + 1 ≤ (reloadValue t).toNat := by
        unfold maxSkip at hk; unfold reloadValue
        rcases hm with hm | hm <;> simp_all
      have ht : tickCore t = (updateMMIO { t with counter := reloadValue t }, false) := by
        unfold tickCore restartCore reloadValue
        rcases hm with hm | hm <;> simp_all
      have hr' : Running (updateMMIO { t with counter := reloadValue t }) := by
        unfold Running at *; simp_all [updateMMIO_cfg]
      have hcn' : (updateMMIO { t with counter := reloadValue t }).counter ≠ 0 := by
        rw [updateMMIO_counter]; intro h; simp only [] at h; rw [h] at hk'; simp at hk'
      have hj : j ≤ (updateMMIO { t with counter := reloadValue t }).counter.toNat - 1 := by
        rw [updateMMIO_counter]; simp only []; omega
      have := ticks_nonzero j _ hr' hcn' hj
      simp only [ticksCore, ht, this, skipOkGen, skipCoreGen, hidle, hk0, hc, hm, if_true, if_false,
        and_false, decide_eq_true_eq, Bool.toNat_false, Nat.add_zero, hk', and_true, true_and]
      by_cases hj0 : j = 0
      · subst hj0; simp
      · simp only [hj0, if_false, updateMMIO_counter, updateMMIO_twice]
        congr 2; bv_omega
    · have hm0 : t.countMode ≠ 1 ∧ t.countMode ≠ 2 := by simp_all
      have h : tickCore t = (t, false) := by unfold tickCore; simp_all
      simp_all [skipOkGen, skipCoreGen, ticks_idle k t h]
  · have hk' : k ≤ t.counter.toNat - 1 := by unfold maxSkip at hk; simp_all
    have hcn := ne_zero_toNat hc
    have := ticks_nonzero k t hr hc hk'
    simp only [this, skipOkGen, skipCoreGen, hidle, hk0, hc, if_false, and_false, decide_eq_true_eq,
      and_true]
    omega

/-- **Fast-forward is exact.**  For every `k` up to the horizon the timer reports, `Skip(k)` trips no
assertion and yields exactly the state of `k` single `Tick`s, and those ticks raise no interrupt
(so the horizon never skips over an interrupt; `k = 0` changes nothing). -/
theorem skip_eq_ticks (t : Timer) (hw : WF t) (k : Nat) (hk : k ≤ maxSkip t) :
    skipGen true t k = .ok (ticksCore k t).1 ∧ (ticksCore k t).2 = 0 ∧
    ticks k t = .ok (ticksCore k t) := by
  have hcore := skip_core t k hk
  refine ⟨?_, hcore.2.2, ticks_eq_core k t hw⟩
  simp [skipGen, hcore.1, hcore.2.1]


/-! ## arbitrary interleavings of configuration writes, restarts, ticks, events and skips -/

/-- Operations a program or the core timing can apply to a timer.  Mode writes range over the
four documented modes (a write of 4…7 makes the next `Tick` abort on its `ASSERT`). -/
inductive Op where
  | tick | event | restart
  | skip (k : Nat)
  | setMode (m : Fin 4) | setPause (v : U16) | setUpdate (v : U16) | setStart (hi lo : U16)
  | setMirror (hi lo : U16)

/-- One operation; `fast = true` executes `skip k` with `Timer::Skip`, `fast = false` with `k`
single ticks.  A skip beyond the reported horizon is outside the contract (`CoreTiming::Skip`
never asks for it) and is reported as `oob` by both. -/
def step (fast : Bool) (t : Timer) : Op → R (Timer × Nat)
  | .tick => (tick t).map fun r => (r.1, r.2.toNat)
  | .event => .ok ((tickEvent t).1, (tickEvent t).2.toNat)
  | .restart => (restart t).map (·, 0)
  | .skip k =>
      if k ≤ maxSkip t then
        if fast then (skipGen true t k).map (·, 0) else ticks k t
      else .error .oob
  | .setMode m => .ok ({ t with countMode := BitVec.ofNat 16 m.val }, 0)
  | .setPause v => .ok ({ t with pause := v }, 0)
  | .setUpdate v => .ok ({ t with updateMmio := v }, 0)
  | .setStart hi lo => .ok ({ t with startHigh := hi, startLow := lo }, 0)
  | .setMirror hi lo => .ok ({ t with counterHigh := hi, counterLow := lo }, 0)

def run (fast : Bool) : List Op → Timer → R (Timer × Nat)
  | [], t => .ok (t, 0)
  | op :: ops, t => do
      let (t', n) ← step fast t op
      let (t'', m) ← run fast ops t'
      pure (t'', n + m)

private theorem step_WF (fast : Bool) (t : Timer) (hw : WF t) (op : Op) (t' : Timer) (n : Nat)
    (h : step fast t op = .ok (t', n)) : WF t' := by
  cases op with
  | tick =>
    simp only [step, tick_of_WF hw, Except.map] at h
    injection h with h; injection h with h1 _; rw [← h1]; exact WF_tickCore hw
  | event =>
    simp only [step] at h; injection h with h; injection h with h1 _; rw [← h1]
    unfold WF tickEvent updateMMIO at *; repeat' split
    all_goals simp_all
  | restart =>
    simp only [step, restart, hw.1, if_true, Except.map] at h
    injection h with h; injection h with h1 _; rw [← h1]
    unfold WF restartCore updateMMIO at *; repeat' split
    all_goals simp_all
  | skip k =>
    simp only [step] at h
    split at h
    · rename_i hk
      have hs := skip_eq_ticks t hw k hk
      have hwk : ∀ k t, WF t → WF (ticksCore k t).1 := by
        intro k; induction k with
        | zero => intro t h; exact h
        | succ k ih => intro t h; exact ih _ (WF_tickCore h)
      cases fast
      · simp only [hs.2.2] at h; simp at h
        have h1 : (ticksCore k t).1 = t' := by rw [h]
        rw [← h1]; exact hwk k t hw
      · simp only [hs.1, if_true, Except.map] at h; injection h with h; injection h with h1 _
        rw [← h1]; exact hwk k t hw
    · cases h
  | setMode m =>
    simp only [step] at h; injection h with h; injection h with h1 _; rw [← h1]
    refine ⟨?_, hw.2⟩
    show BitVec.ofNat 16 m.val < 4
    have := m.isLt; bv_omega
  | setPause v => simp only [step] at h; injection h with h; injection h with h1 _; rw [← h1]; exact hw
  | setUpdate v => simp only [step] at h; injection h with h; injection h with h1 _; rw [← h1]; exact hw
  | setStart hi lo => simp only [step] at h; injection h with h; injection h with h1 _; rw [← h1]; exact hw
  | setMirror hi lo => simp only [step] at h; injection h with h; injection h with h1 _; rw [← h1]; exact hw

private theorem step_fast_slow (t : Timer) (hw : WF t) (op : Op) : step true t op = step false t op := by
  cases op with
  | skip k =>
    simp only [step]
    split
    · rename_i hk
      have hs := skip_eq_ticks t hw k hk
      simp only [if_true, hs.1, hs.2.2, Except.map]
      have := hs.2.1
      rw [show ticksCore k t = ((ticksCore k t).1, (ticksCore k t).2) from rfl, this]
      simp
    · rfl
  | _ => rfl

/-- **Fast-forward is unobservable in every history.**  Over any interleaving of mode / pause /
mirror-update / start writes, restarts, ticks, event writes and skips (each skip within the
horizon reported at that moment), executing the skips with `Timer::Skip` or as single ticks gives
the same final state, the same number of interrupts and the same abort behaviour. -/
theorem run_fast_eq_slow (ops : List Op) : ∀ (t : Timer), WF t → run true ops t = run false ops t := by
  induction ops with
  | nil => intro t _; rfl
  | cons op ops ih =>
    intro t hw
    simp only [run, step_fast_slow t hw op]
    cases h : step false t op with
    | error e => rfl
    | ok r =>
      obtain ⟨t', n⟩ := r
      have hw' := step_WF false t hw op t' n h
      simp only [bind, Except.bind, ih t' hw']

/-! ## the defect that was present in the pinned upstream code (D2), kept as a proved witness -/

/-- With the upstream `Skip` (no early return for `ticks == 0`) a zero-length skip at counter 0
in auto-restart mode *does* change the counter: start value 5 becomes 6. -/
theorem upstream_skip_zero_counterexample :
    skipGen false { countMode := 1, startLow := 5 } 0 = .ok { countMode := 1, startLow := 5, counter := 6 } := by
  decide

/-- … and it refreshes a stale MMIO mirror although zero cycles elapsed. -/
theorem upstream_skip_zero_mirror_counterexample :
    skipGen false { updateMmio := 1, counter := 7 } 0 = .ok { updateMmio := 1, counter := 7, counterLow := 7 } := by
  decide

/-! ## non-vacuity: concrete states meeting the hypotheses -/

example : WF { countMode := 1, startLow := 5, counter := 3 } ∧
    Running { countMode := 1, startLow := 5, counter := 3 } ∧
    2 ≤ maxSkip { countMode := 1, startLow := 5, counter := 3 } := by decide
example : WF { countMode := 2 } ∧ maxSkip { countMode := 2 } = 0xFFFFFFFF := by decide
example : (ticksCore 6 { countMode := 1, startLow := 2, counter := 1 }).2 = 2 := by decide

end Teakra.Timer
