import Proofs.C08Stack.Word
import Proofs.C08Stack.Call
import Proofs.C08Stack.CallRet
import Proofs.C08Stack.Interrupt
import Proofs.C08Stack.PushPop
import Proofs.C08Stack.Multi
import Proofs.C08Stack.Pusha
import Proofs.C08Stack.PxAbe
import Proofs.C08Stack.Acc
import Proofs.C08Stack.PHigh
import Proofs.C08Stack.Abs
import Proofs.C08Stack.Status
import Proofs.C08Stack.StatusPush
import Proofs.C08Stack.StatusNorm
import Proofs.C08Stack.Cycle
import Proofs.C08Stack.Examples
/-!
# C08 (part 2) — calls, returns, stack push/pop, interrupt entry/return restore state exactly

Part 1 (`Proofs/C08.lean`): context store/restore and bank exchanges on the register file.
This part: everything that goes through the stack.  All statements are about the handlers of
`TeakraModel/Exec/{Control,Stack}.lean` run on a `Core` whose stack slots are *ordinary data memory*
(`OrdinaryAt`, `Proofs/C07/Push.lean`: outside the MMIO window, `ConvertDataAddress` passes its
`ASSERT`s, inside the shared memory).  Every result is an *exact* final state: the register file,
and the machine `afterPushPop…` which differs from the initial one only in the stack slot(s) and
the access log.

| file | content | headline theorems |
|---|---|---|
| `Word` | one word | `busRead_busWrite_ordinary`, `push_pop_word`, `OrdinaryAt.cell_ne` |
| `Call` | `PushPC`/`PopPC`, frames | `pushPC_popPC`, `pushPC_popPC_both_orders`, `ReturnFrame`, `popPC_frame` |
| `CallRet` | call × return forms | `call_ret_roundtrip`, `call_rets_roundtrip`, `call_reti_roundtrip`, `call_body_ret`, `call_cond_false`, `ret_cond_false` |
| `Cycle` | in the loop body | `execPhase_call` (pushed `pc` = address after the call), `execPhase_ret` |
| `Interrupt` | entry / `reti` / `retic` | `entry_reti_roundtrip`, `entry_retic_roundtrip`, `entry_body_reti`, vectored variants |
| `PushPop` | plain registers | `push_pop_register`, `push_pop_r6`, `…x0/x1/y1/repc/prpage` |
| `Acc` | accumulator parts | `push_pop_acc_part`, `push_pop_acc_part_value`, `push_pop_acc_part_restores`, `…_counterexample` |
| `Pusha` | `pusha`/`popa` | `pusha_popa`, `pusha_popa_restores`, `pusha_popa_sat_off`, counterexamples |
| `PxAbe` | `push px`, `push abe` | `push_px_pop_px(_restores,_partial)`, `push_abe_pop_abe(_restores)`, counterexamples |
| `PHigh` | `push p` | `push_pop_p`, `push_pop_p_partial`, `push_pop_p_counterexample` |
| `Abs`, `Status`, `StatusPush`, `StatusNorm` | status/config/`ar`/`arp` words via C20 | `wordGet_field`, `wordSet_wordGet`, `status_set_get`, `push_pop_status_register`, `push_pop_status_arArpSttMod`, `push_pop_st0_partial`, `push_pop_st1_partial`, `push_pop_{st0,st1,stt2,width}_counterexample` |
| `Examples` | non-vacuity | concrete instances of all of the above |
-/
