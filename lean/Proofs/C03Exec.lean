import Proofs.C03
import Proofs.Lemmas.Exec
import TeakraModel.Exec
/-!
# C03 at the level of instruction handlers

The value-level theorems of `Proofs/C03.lean` composed with the handler transcriptions for the
accumulator-to-accumulator add / subtract / compare forms: what ends up in the destination, which
flags are set, that compare forms change flags only, and that nothing else in the machine changes.
-/
namespace Teakra.Interp
open Teakra Exec ExecLemmas Alu

/-- The accumulator an operand name denotes. -/
def accOf (r : Regs) : Bool × Fin 2 → U64
  | (false, i) => r.a[i]
  | (true, i) => r.b[i]

def setAccOf (r : Regs) (k : Bool × Fin 2) (v : U64) : Regs :=
  match k with
  | (false, i) => { r with a := r.a.set i v }
  | (true, i) => { r with b := r.b.set i v }

theorem run_getAcc (name : RegName) (k : Bool × Fin 2) (h : accIndex name = some k) (c : Core) :
    (getAcc name).run c = .ok (accOf c.regs k, c) := by
  unfold getAcc
  obtain ⟨isB, i⟩ := k
  simp only [run_bind, run_getRegs, except_ok_bind, h]
  cases isB <;> rfl

theorem run_setAcc (name : RegName) (k : Bool × Fin 2) (h : accIndex name = some k) (v : U64) (c : Core) :
    (setAcc name v).run c = .ok ((), { c with regs := setAccOf c.regs k v }) := by
  unfold setAcc
  obtain ⟨isB, i⟩ := k
  simp only [h]
  cases isB <;> rfl

theorem run_setAccFlag (v : U64) (c : Core) :
    (setAccFlag v).run c = .ok ((), { c with regs := { c.regs with
      fz := (accFlags v).fz, fm := (accFlags v).fm, fe := (accFlags v).fe, fn := (accFlags v).fn } }) := rfl

theorem run_addSub (a b : U64) (sub : Bool) (c : Core) :
    (Interp.addSub a b sub).run c = .ok ((Alu.addSub a b sub).result, { c with regs := { c.regs with
      fc0 := (Alu.addSub a b sub).fc0, fv := (Alu.addSub a b sub).fv,
      fvl := if (Alu.addSub a b sub).fv != 0 then 1 else c.regs.fvl } }) := rfl

/-- What `SatAndSetAccAndFlag` leaves in the register file. -/
def satSetRegs (r : Regs) (k : Bool × Fin 2) (v : U64) : Regs :=
  let r1 : Regs := { r with fz := (accFlags v).fz, fm := (accFlags v).fm, fe := (accFlags v).fe, fn := (accFlags v).fn }
  if r1.sata == 0 then
    let r2 : Regs := if (saturate v).2 then { r1 with flm := 1 } else r1
    setAccOf r2 k (saturate v).1
  else setAccOf r1 k v

theorem run_satAndSetAccAndFlag (name : RegName) (k : Bool × Fin 2) (h : accIndex name = some k) (v : U64)
    (c : Core) :
    (satAndSetAccAndFlag name v).run c = .ok ((), { c with regs := satSetRegs c.regs k v }) := by
  unfold satAndSetAccAndFlag satSetRegs saturateAcc
  simp only [run_bind, run_setAccFlag, except_ok_bind, run_getRegs, run_ite, run_pure, run_modifyRegs,
    run_setAcc _ k h]
  by_cases hs : c.regs.sata = 0
  · by_cases hsat : (saturate v).2 = true <;> simp_all
  · have : (c.regs.sata == 0) = false := by simpa using hs
    simp_all

/-- **Flags come from the unsaturated result; the value is saturated on write.**  For a well-formed
40-bit result `v`: with saturation-on-write enabled (`sata = 0`) the destination receives the
nearest 32-bit bound when `v` does not fit and the limit flag is set exactly then; zero / minus /
extension / normalized flags are those of `v` itself in every case. -/
theorem satSetRegs_spec (r : Regs) (k : Bool × Fin 2) (v : U64) (hv : AccWF v) :
    let r' := satSetRegs r k v
    I40 (accOf r' k) = (if r.sata = 0 then max (-2 ^ 31) (min (2 ^ 31 - 1) (I40 v)) else I40 v) ∧
    r'.fz = b2u (decide (I40 v = 0)) ∧ r'.fm = b2u (decide (I40 v < 0)) ∧
    r'.fe = b2u (decide (I40 v < -2 ^ 31 ∨ 2 ^ 31 ≤ I40 v)) ∧
    r'.flm = (if r.sata = 0 ∧ (I40 v < -2 ^ 31 ∨ 2 ^ 31 ≤ I40 v) then 1 else r.flm) := by
  have hf := accFlags_spec v hv
  have hs := saturate_spec v hv
  obtain ⟨isB, i⟩ := k
  unfold satSetRegs
  by_cases hsata : r.sata = 0
  · by_cases hfit : (I40 v < -2 ^ 31 ∨ 2 ^ 31 ≤ I40 v)
    · have h2 : (saturate v).2 = true := by rw [hs.2.1]; simpa using hfit
      cases isB <;> simp [hsata, h2, accOf, setAccOf, hf.1, hf.2.1, hf.2.2.1, hs.1] <;> omega
    · have h2 : (saturate v).2 = false := by rw [hs.2.1]; simpa using hfit
      cases isB <;> simp [hsata, h2, accOf, setAccOf, hf.1, hf.2.1, hf.2.2.1, hs.1] <;> omega
  · have : (r.sata == 0) = false := by simpa using hsata
    obtain ⟨hf1, hf2, hf3, _⟩ := hf
    cases isB <;> simp_all [accOf, setAccOf]


/-! ## accumulator ± accumulator forms -/

private theorem accIndex_Ab (a : Nat) (h : a < 4) :
    accIndex (Ab.name a) = some (decide (a < 2), ⟨a % 2, Nat.mod_lt _ (by decide)⟩) := by
  match a, h with
  | 0, _ => rfl
  | 1, _ => rfl
  | 2, _ => rfl
  | 3, _ => rfl

private theorem accIndex_Bx (b : Nat) (h : b < 2) : accIndex (Bx.name b) = some (true, ⟨b, h⟩) := by
  match b, h with
  | 0, _ => rfl
  | 1, _ => rfl

private theorem accIndex_Ax (b : Nat) (h : b < 2) : accIndex (Ax.name b) = some (false, ⟨b, h⟩) := by
  match b, h with
  | 0, _ => rfl
  | 1, _ => rfl

/-- `SatAndSetAccAndFlag` leaves carry, overflow and latched overflow alone. -/
theorem satSetRegs_frame (r : Regs) (k : Bool × Fin 2) (v : U64) :
    (satSetRegs r k v).fc0 = r.fc0 ∧ (satSetRegs r k v).fv = r.fv ∧ (satSetRegs r k v).fvl = r.fvl := by
  unfold satSetRegs setAccOf
  obtain ⟨isB, i⟩ := k
  cases isB <;> simp only [] <;> (repeat' split) <;> exact ⟨rfl, rfl, rfl⟩

/-- Replace the register file of a machine state. -/
def withRegs (c : Core) (r : Regs) : Core := { c with regs := r }

/-- Carry / overflow / latched overflow written by `AddSub`. -/
def withAddSubFlags (r : Regs) (o : AddSubOut) : Regs :=
  { r with fc0 := o.fc0, fv := o.fv, fvl := if o.fv != 0 then 1 else r.fvl }

/-- Zero / minus / extension / normalized written by `SetAccFlag`. -/
def withAccFlags (r : Regs) (v : U64) : Regs :=
  { r with fz := (accFlags v).fz, fm := (accFlags v).fm, fe := (accFlags v).fe, fn := (accFlags v).fn }

/-- Register file after `add`/`sub` of source accumulator `ka` into destination `kb`. -/
def addSubRegs (r : Regs) (ka kb : Bool × Fin 2) (sub : Bool) : Regs :=
  let o := Alu.addSub (accOf r kb) (accOf r ka) sub
  satSetRegs (withAddSubFlags r o) kb o.result

def abKey (a : Nat) : Bool × Fin 2 := (decide (a < 2), ⟨a % 2, Nat.mod_lt _ (by decide)⟩)

/-- `add Ab, Bx` / `sub Ab, Bx`: the handler is exactly "exact 40-bit add/sub, flags, saturating
write" and touches nothing but the register file. -/
theorem add_Ab_Bx_run (a b : Nat) (ha : a < 4) (hb : b < 2) (c : Core) :
    (Exec.add_Ab_Bx a b).run c = .ok ((), withRegs c (addSubRegs c.regs (abKey a) (true, ⟨b, hb⟩) false)) := by
  unfold Exec.add_Ab_Bx addSubRegs withRegs withAddSubFlags abKey
  simp only [run_bind, run_getAcc _ _ (accIndex_Ab a ha), run_getAcc _ _ (accIndex_Bx b hb), except_ok_bind,
    run_addSub, run_satAndSetAccAndFlag _ _ (accIndex_Bx b hb)]

theorem sub_Ab_Bx_run (a b : Nat) (ha : a < 4) (hb : b < 2) (c : Core) :
    (Exec.sub_Ab_Bx a b).run c = .ok ((), withRegs c (addSubRegs c.regs (abKey a) (true, ⟨b, hb⟩) true)) := by
  unfold Exec.sub_Ab_Bx addSubRegs withRegs withAddSubFlags abKey
  simp only [run_bind, run_getAcc _ _ (accIndex_Ab a ha), run_getAcc _ _ (accIndex_Bx b hb), except_ok_bind,
    run_addSub, run_satAndSetAccAndFlag _ _ (accIndex_Bx b hb)]

/-- **Exactness of the add/sub instruction.**  The destination receives the exact 40-bit sum or
difference (saturated to 32 bits when saturation-on-write is enabled), carry is the carry/borrow out
of bit 39, overflow says the exact result does not fit 40 bits and is latched, and zero / minus /
extension flags are those of the unsaturated 40-bit result. -/
theorem addSubRegs_spec (r : Regs) (ka kb : Bool × Fin 2) (sub : Bool) :
    let exact : Int := if sub then I40 (accOf r kb) - I40 (accOf r ka) else I40 (accOf r kb) + I40 (accOf r ka)
    let r' := addSubRegs r ka kb sub
    I40 (accOf r' kb) = (if r.sata = 0 then max (-2 ^ 31) (min (2 ^ 31 - 1) (wrap40 exact)) else wrap40 exact) ∧
    r'.fc0 = b2u (if sub then decide (U40 (accOf r kb) < U40 (accOf r ka))
                  else decide (2 ^ 40 ≤ U40 (accOf r kb) + U40 (accOf r ka))) ∧
    r'.fv = b2u (decide (exact < -2 ^ 39 ∨ 2 ^ 39 ≤ exact)) ∧
    r'.fvl = (if exact < -2 ^ 39 ∨ 2 ^ 39 ≤ exact then 1 else r.fvl) ∧
    r'.fz = b2u (decide (wrap40 exact = 0)) ∧ r'.fm = b2u (decide (wrap40 exact < 0)) ∧
    r'.fe = b2u (decide (wrap40 exact < -2 ^ 31 ∨ 2 ^ 31 ≤ wrap40 exact)) := by
  intro exact r'
  have hval := addSub_value (accOf r kb) (accOf r ka) sub
  have hwf := addSub_wf (accOf r kb) (accOf r ka) sub
  have hc := addSub_carry (accOf r kb) (accOf r ka) sub
  have hv := addSub_overflow (accOf r kb) (accOf r ka) sub
  have hs := satSetRegs_spec (withAddSubFlags r (Alu.addSub (accOf r kb) (accOf r ka) sub)) kb _ hwf
  simp only [] at hs
  rw [hval] at hs
  obtain ⟨h1, h2, h3, h4, _⟩ := hs
  have frame : r'.fc0 = (Alu.addSub (accOf r kb) (accOf r ka) sub).fc0 ∧
      r'.fv = (Alu.addSub (accOf r kb) (accOf r ka) sub).fv ∧
      r'.fvl = (if (Alu.addSub (accOf r kb) (accOf r ka) sub).fv != 0 then 1 else r.fvl) := by
    show (addSubRegs r ka kb sub).fc0 = _ ∧ _
    unfold addSubRegs
    have := satSetRegs_frame (withAddSubFlags r (Alu.addSub (accOf r kb) (accOf r ka) sub)) kb
      (Alu.addSub (accOf r kb) (accOf r ka) sub).result
    exact this
  have hsata : (withAddSubFlags r (Alu.addSub (accOf r kb) (accOf r ka) sub)).sata = r.sata := rfl
  rw [hsata] at h1
  refine ⟨h1, ?_, ?_, ?_, h2, h3, h4⟩
  · rw [frame.1, hc]
  · rw [frame.2.1, hv]
  · rw [frame.2.2, hv]
    have hex : (if sub = true then I40 (accOf r kb) - I40 (accOf r ka) else I40 (accOf r kb) + I40 (accOf r ka)) = exact := rfl
    by_cases he : (exact < -2 ^ 39 ∨ 2 ^ 39 ≤ exact)
    · simp only [hex, he, decide_true, b2u, if_true]; rfl
    · simp only [hex, he, decide_false, b2u, Bool.false_eq_true, if_false]; rfl

/-- **Compare forms change flags only.**  `cmp Ax, Bx` leaves every accumulator, every other register
and memory as they were; only carry, overflow (latched), zero, minus, extension and normalized
flags are written — with the flags of the exact 40-bit difference. -/
theorem cmp_Ax_Bx_run (a b : Nat) (ha : a < 2) (hb : b < 2) (c : Core) :
    (Exec.cmp_Ax_Bx a b).run c = .ok ((), withRegs c
      (withAccFlags (withAddSubFlags c.regs (Alu.addSub (accOf c.regs (true, ⟨b, hb⟩)) (accOf c.regs (false, ⟨a, ha⟩)) true))
        (Alu.addSub (accOf c.regs (true, ⟨b, hb⟩)) (accOf c.regs (false, ⟨a, ha⟩)) true).result)) := by
  unfold Exec.cmp_Ax_Bx withRegs withAccFlags withAddSubFlags
  simp only [run_bind, run_getAcc _ _ (accIndex_Ax a ha), run_getAcc _ _ (accIndex_Bx b hb), except_ok_bind,
    run_addSub, run_setAccFlag]

/-- … in particular no accumulator changes. -/
theorem cmp_keeps_accumulators (r : Regs) (o : AddSubOut) (v : U64) (k : Bool × Fin 2) :
    accOf (withAccFlags (withAddSubFlags r o) v) k = accOf r k := by
  obtain ⟨isB, i⟩ := k; cases isB <;> rfl

end Teakra.Interp
