import Proofs.C04
import Proofs.C04b
/-! All C04 theorems (value level `Proofs/C04.lean`, handler level and `Exp` `Proofs/C04b.lean`). -/
