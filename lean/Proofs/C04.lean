import TeakraModel.Alu
import Mathlib.Tactic.Linarith
import Mathlib.Tactic.IntervalCases
/-!
# C04 — multiplier products and barrel-shifter results follow exact arithmetic

Value-level theorems about `Teakra.Alu.multiply`, `productToBus40`, `shiftCore`, `exp`
(the pure parts of `DoMultiplication`, `ProductToBus40`, `ShiftBus40`, `Exp`).
-/
namespace Teakra.Alu

/-- The 33-bit two's-complement number held in `pe : p`. -/
def I33 (p : U32) (pe : U16) : Int := (p.toNat : Int) - (pe.toNat : Int) * 2 ^ 32

/-- The `x` factor as the instruction's sign selection reads it. -/
def factorX (xSign : Bool) (x : U16) : Int := if xSign then x.toInt else x.toNat

/-- The half-word transformation of the `y` factor (`hwm`). -/
def yHalf (y hwm : U16) (unit : Nat) : U16 :=
  if hwm == 1 || (hwm == 3 && unit == 0) then y >>> 8
  else if hwm == 2 || (hwm == 3 && unit == 1) then y &&& 0xFF else y

/-- The `y` factor after the half-word transformation, under the sign selection. -/
def factorY (ySign : Bool) (y hwm : U16) (unit : Nat) : Int :=
  if ySign then (yHalf y hwm unit).toInt else (yHalf y hwm unit).toNat

private theorem setWidth32_toInt_unsigned (x : U16) : (x.setWidth 32 : U32).toInt = x.toNat := by
  rw [BitVec.toInt_eq_toNat_cond, BitVec.toNat_setWidth]
  have := x.isLt
  omega

private theorem signExtend32_16 (v : U16) : signExtend32 16 (v.setWidth 32) = v.signExtend 32 := by
  unfold signExtend32
  congr 1
  apply BitVec.eq_of_toNat_eq
  simp only [BitVec.toNat_setWidth]
  have := v.isLt
  omega

private theorem yHalf_setWidth (y hwm : U16) (unit : Nat) :
    (let y32 : U32 := y.setWidth 32
     if hwm == 1 || (hwm == 3 && unit == 0) then y32 >>> 8
     else if hwm == 2 || (hwm == 3 && unit == 1) then y32 &&& 0xFF else y32) =
    (yHalf y hwm unit).setWidth 32 := by
  unfold yHalf
  simp only []
  split
  · apply BitVec.eq_of_toNat_eq
    simp only [BitVec.toNat_ushiftRight, BitVec.toNat_setWidth]
    have := y.isLt
    simp only [Nat.shiftRight_eq_div_pow]; omega
  · split
    · apply BitVec.eq_of_toNat_eq
      simp only [BitVec.toNat_and, BitVec.toNat_setWidth]
      have := y.isLt
      have h1 : (0xFF : U32).toNat = 2 ^ 8 - 1 := by decide
      have h2 : (0xFF : U16).toNat = 2 ^ 8 - 1 := by decide
      rw [h1, h2, Nat.and_two_pow_sub_one_eq_mod, Nat.and_two_pow_sub_one_eq_mod]
      omega
    · rfl

private theorem toInt16_bounds (v : U16) : -32768 ≤ v.toInt ∧ v.toInt < 32768 := by
  rw [BitVec.toInt_eq_toNat_cond]; have := v.isLt; split <;> omega

/-- **The multiplier is exact.**  `pe : p` is the exact 33-bit product of the two 16-bit factors
under the instruction's signed/unsigned selection and the half-word mode. -/
theorem mul_exact (x y hwm : U16) (unit : Nat) (xSign ySign : Bool) :
    I33 (multiply x y hwm unit xSign ySign).1 (multiply x y hwm unit xSign ySign).2 =
      factorX xSign x * factorY ySign y hwm unit := by
  unfold multiply
  simp only []
  rw [yHalf_setWidth]
  unfold I33 factorX factorY
  generalize yHalf y hwm unit = y'
  have hx := toInt16_bounds x
  have hy := toInt16_bounds y'
  have hxl := x.isLt
  have hyl := y'.isLt
  -- the two factors as 32-bit words, and their integer readings
  have hX : ((if xSign then signExtend32 16 (x.setWidth 32) else x.setWidth 32 : U32)).toInt =
      (if xSign then x.toInt else (x.toNat : Int)) := by
    cases xSign
    · simp only [Bool.false_eq_true, if_false]; exact setWidth32_toInt_unsigned _
    · simp only [if_true, signExtend32_16]; exact BitVec.toInt_signExtend_of_le (by decide)
  have hY : ((if ySign then signExtend32 16 (y'.setWidth 32) else y'.setWidth 32 : U32)).toInt =
      (if ySign then y'.toInt else (y'.toNat : Int)) := by
    cases ySign
    · simp only [Bool.false_eq_true, if_false]; exact setWidth32_toInt_unsigned _
    · simp only [if_true, signExtend32_16]; exact BitVec.toInt_signExtend_of_le (by decide)
  generalize hXd : (if xSign then signExtend32 16 (x.setWidth 32) else x.setWidth 32 : U32) = X at hX
  generalize hYd : (if ySign then signExtend32 16 (y'.setWidth 32) else y'.setWidth 32 : U32) = Y at hY
  have hp : (X * Y).toInt = (X.toInt * Y.toInt).bmod (2 ^ 32) := BitVec.toInt_mul X Y
  rw [hX, hY] at hp
  by_cases hs : xSign || ySign
  · -- at least one signed factor: the product fits 32 bits signed, pe is its sign
    simp only [hs, if_true]
    have hb : -2147483648 ≤ (if xSign then x.toInt else (x.toNat : Int)) * (if ySign then y'.toInt else (y'.toNat : Int)) ∧
        (if xSign then x.toInt else (x.toNat : Int)) * (if ySign then y'.toInt else (y'.toNat : Int)) < 2147483648 := by
      cases xSign <;> cases ySign <;> simp at hs ⊢ <;> constructor <;> nlinarith
    rw [Int.bmod_eq_of_le (by omega) (by omega)] at hp
    rw [← hp, BitVec.toInt_eq_toNat_cond]
    have hpe : (((X * Y) >>> 31).setWidth 16 : U16).toNat = if 2 * (X * Y).toNat < 2 ^ 32 then 0 else 1 := by
      rw [BitVec.toNat_setWidth, BitVec.toNat_ushiftRight, Nat.shiftRight_eq_div_pow]
      have := (X * Y).isLt
      split <;> omega
    rw [hpe]
    split <;> simp <;> omega
  · -- both unsigned: the product is below 2^32 and pe is cleared
    have hs' : xSign = false ∧ ySign = false := by cases xSign <;> cases ySign <;> simp_all
    obtain ⟨h1, h2⟩ := hs'
    subst h1 h2
    simp only [Bool.or_self, Bool.false_eq_true, if_false] at hXd hYd hp ⊢
    subst hXd hYd
    have : ((x.setWidth 32 : U32) * (y'.setWidth 32 : U32)).toNat = x.toNat * y'.toNat := by
      have h1 : x.toNat % 2 ^ 32 = x.toNat := Nat.mod_eq_of_lt (by omega)
      have h2 : y'.toNat % 2 ^ 32 = y'.toNat := Nat.mod_eq_of_lt (by omega)
      rw [BitVec.toNat_mul, BitVec.toNat_setWidth, BitVec.toNat_setWidth, h1, h2]
      apply Nat.mod_eq_of_lt
      have : x.toNat * y'.toNat ≤ 65535 * 65535 := Nat.mul_le_mul (by omega) (by omega)
      omega
    rw [this]
    simp


/-! ## product read with shift (`ProductToBus40`) -/

/-- `SignExtend<bits>` reads the low `bits` bits as a two's-complement number. -/
theorem signExtend_toInt (bits : Nat) (v : U64) (h1 : 0 < bits) (h2 : bits ≤ 64) :
    (signExtend bits v).toInt =
      if 2 * (v.toNat % 2 ^ bits) < 2 ^ bits then ((v.toNat % 2 ^ bits : Nat) : Int)
      else ((v.toNat % 2 ^ bits : Nat) : Int) - 2 ^ bits := by
  unfold signExtend
  rw [BitVec.toInt_signExtend_of_le h2, BitVec.toInt_eq_toNat_cond, BitVec.toNat_setWidth]
  split <;> simp

private theorem pvalue_toNat (p : U32) (pe : U16) (hpe : pe.toNat < 2) :
    ((p.setWidth 64 : U64) ||| ((pe.setWidth 64 : U64) <<< 32)).toNat = p.toNat + pe.toNat * 2 ^ 32 := by
  have hp := p.isLt
  have h1 : (p.setWidth 64 : U64).toNat = p.toNat := by
    rw [BitVec.toNat_setWidth]; omega
  have h2 : ((pe.setWidth 64 : U64) <<< 32).toNat = pe.toNat * 2 ^ 32 := by
    rw [BitVec.toNat_shiftLeft, BitVec.toNat_setWidth, Nat.shiftLeft_eq]
    have : pe.toNat % 2 ^ 64 = pe.toNat := by omega
    rw [this]; omega
  rw [BitVec.toNat_or, h1, h2, Nat.or_comm, Nat.add_comm, Nat.mul_comm]
  exact (Nat.two_pow_add_eq_or_of_lt hp _).symm

/-- **Every read of a product applies the selected product shift with sign extension**: none,
arithmetic `>> 1` (floor), `<< 1`, `<< 2` of the exact 33-bit product. -/
theorem productToBus40_spec (p : U32) (pe ps : U16) (hpe : pe.toNat < 2) (hps : ps.toNat < 4) :
    (productToBus40 p pe ps).toInt =
      if ps = 0 then I33 p pe else if ps = 1 then I33 p pe / 2
      else if ps = 2 then 2 * I33 p pe else 4 * I33 p pe := by
  have hv := pvalue_toNat p pe hpe
  have hp := p.isLt
  unfold productToBus40 I33
  simp only []
  generalize hV : ((p.setWidth 64 : U64) ||| ((pe.setWidth 64 : U64) <<< 32)) = V at hv
  have hps' : ps = 0 ∨ ps = 1 ∨ ps = 2 ∨ ps = 3 := by
    have : ps.toNat = 0 ∨ ps.toNat = 1 ∨ ps.toNat = 2 ∨ ps.toNat = 3 := by omega
    rcases this with h | h | h | h
    · left; exact BitVec.eq_of_toNat_eq (by simpa using h)
    · right; left; exact BitVec.eq_of_toNat_eq (by simpa using h)
    · right; right; left; exact BitVec.eq_of_toNat_eq (by simpa using h)
    · right; right; right; exact BitVec.eq_of_toNat_eq (by simpa using h)
  rcases hps' with h | h | h | h <;> subst h
  · simp only [beq_self_eq_true, if_true]
    rw [signExtend_toInt 33 V (by decide) (by decide), hv]
    split <;> omega
  · have e : ((1 : U16) == 0) = false := by decide
    simp only [e, Bool.false_eq_true, if_false, beq_self_eq_true, if_true,
      show ((1 : U16) = 0) = False from by decide]
    rw [signExtend_toInt 32 (V >>> 1) (by decide) (by decide), BitVec.toNat_ushiftRight, hv,
      Nat.shiftRight_eq_div_pow]
    split <;> omega
  · have e0 : ((2 : U16) == 0) = false := by decide
    have e1 : ((2 : U16) == 1) = false := by decide
    simp only [e0, e1, Bool.false_eq_true, if_false, beq_self_eq_true, if_true,
      show ((2 : U16) = 0) = False from by decide, show ((2 : U16) = 1) = False from by decide]
    rw [signExtend_toInt 34 (V <<< 1) (by decide) (by decide), BitVec.toNat_shiftLeft, hv,
      Nat.shiftLeft_eq]
    split <;> omega
  · have e0 : ((3 : U16) == 0) = false := by decide
    have e1 : ((3 : U16) == 1) = false := by decide
    have e2 : ((3 : U16) == 2) = false := by decide
    simp only [e0, e1, e2, Bool.false_eq_true, if_false, beq_self_eq_true, if_true,
      show ((3 : U16) = 0) = False from by decide, show ((3 : U16) = 1) = False from by decide,
      show ((3 : U16) = 2) = False from by decide]
    rw [signExtend_toInt 35 (V <<< 2) (by decide) (by decide), BitVec.toNat_shiftLeft, hv,
      Nat.shiftLeft_eq]
    split <;> omega


/-! ## the 40-bit shifter (`ShiftBus40`) -/

/-- Unsigned value of the low 40 bits. -/
def U40' (v : U64) : Nat := v.toNat % 2 ^ 40

private theorem and_mask40_toNat (a : U64) : (a &&& mask40).toNat = a.toNat % 2 ^ 40 := by
  have h : mask40.toNat = 2 ^ 40 - 1 := by decide
  rw [BitVec.toNat_and, h, Nat.and_two_pow_sub_one_eq_mod]

private theorem sv_left (sv : U16) : ((sv >>> 15) == 0) = decide (sv.toNat < 0x8000) := by
  have : ((sv >>> 15) == 0) = decide ((sv >>> 15).toNat = 0) := by
    by_cases he : sv >>> 15 = 0
    · rw [he]; rfl
    · have : (sv >>> 15).toNat ≠ 0 := fun hh => he (BitVec.eq_of_toNat_eq (by simpa using hh))
      have h1 : ((sv >>> 15) == 0) = false := by simpa using he
      rw [h1]; exact (decide_eq_false this).symm
  rw [this, BitVec.toNat_ushiftRight, Nat.shiftRight_eq_div_pow, decide_eq_decide]
  have := sv.isLt
  omega

/-- **Left shift, value (both modes).**  The low 40 bits of the result are the low 40 bits of
`value · 2ⁿ` (zero for `n ≥ 40`). -/
theorem shl_value (value : U64) (sv s : U16) (h : sv.toNat < 0x8000) :
    U40' (shiftCore value sv s).value = (U40' value * 2 ^ sv.toNat) % 2 ^ 40 := by
  unfold shiftCore U40'
  simp only [sv_left, h, decide_true, if_true]
  by_cases hn : sv.toNat ≥ 40
  · simp only [hn, decide_true, if_true]
    have : 2 ^ sv.toNat = 2 ^ 40 * 2 ^ (sv.toNat - 40) := by rw [← Nat.pow_add]; congr 1; omega
    rw [this, ← Nat.mul_assoc, Nat.mul_comm _ (2 ^ 40), Nat.mul_assoc, Nat.mul_mod_right]
    rfl
  · simp only [hn, decide_false, Bool.false_eq_true, if_false]
    have hlt : sv.toNat < 40 := by omega
    rw [BitVec.toNat_shiftLeft, and_mask40_toNat, Nat.shiftLeft_eq]
    generalize sv.toNat = n at *
    interval_cases n <;> simp only [Nat.reducePow] <;> omega


private theorem b2u_inj {a b : Bool} (h : a = b) : b2u a = b2u b := by rw [h]

private theorem bne_zero_toNat (v : U64) : (v != 0) = decide (v.toNat ≠ 0) := by
  by_cases he : v = 0
  · subst he; simp
  · have : v.toNat ≠ 0 := fun hh => he (BitVec.eq_of_toNat_eq (by simpa using hh))
    have h1 : (v != 0) = true := by simpa using he
    rw [h1]; exact (decide_eq_true this).symm

private theorem and_two_pow_ne_zero (x k : Nat) : (x &&& 2 ^ k ≠ 0) ↔ x / 2 ^ k % 2 = 1 := by
  have ht : x.testBit k = true ↔ x / 2 ^ k % 2 = 1 := by
    rw [Nat.testBit, Nat.one_and_eq_mod_two, Nat.shiftRight_eq_div_pow]
    rcases Nat.mod_two_eq_zero_or_one (x / 2 ^ k) with h | h <;> simp [h]
  rw [← ht]
  constructor
  · intro h
    by_contra hb
    apply h
    apply Nat.eq_of_testBit_eq; intro i
    simp only [Nat.testBit_and, Nat.testBit_two_pow, Nat.zero_testBit]
    by_cases hik : k = i
    · subst hik; simp at hb; simp [hb]
    · simp [hik]
  · intro hb h
    have := congrArg (·.testBit k) h
    simp [Nat.testBit_and, Nat.testBit_two_pow, hb] at this

private theorem nat_bne_zero (b : Nat) : (b != 0) = decide (b ≠ 0) := by
  by_cases h : b = 0 <;> simp [h]

private theorem shl_carry_nat (x n : Nat) (hx : x < 2 ^ 40) (hn : n < 40) :
    (x * 2 ^ n % 2 ^ 64 / 2 ^ 40 % 2 = 1) ↔ (x / 2 ^ (40 - n) % 2 ≠ 0) := by
  interval_cases n <;> simp only [Nat.reducePow, Nat.reduceSub] <;> omega

/-- **Left shift, carry.**  For `0 ≤ n < 40` the carry is bit `40 − n` of the 40-bit operand, i.e.
the last bit shifted out (no bit for `n = 0`); for `n ≥ 40` the code reports 0. -/
theorem shl_carry (value : U64) (sv s : U16) (h : sv.toNat < 0x8000) :
    (shiftCore value sv s).fc0 =
      b2u (decide (sv.toNat < 40) && (U40' value).testBit (40 - sv.toNat)) := by
  unfold shiftCore U40'
  simp only [sv_left, h, decide_true, if_true]
  by_cases hn : sv.toNat ≥ 40
  · have : ¬ sv.toNat < 40 := by omega
    simp only [hn, decide_true, if_true, this, decide_false, Bool.false_and]; rfl
  · simp only [hn, decide_false, Bool.false_eq_true, if_false]
    have hlt : sv.toNat < 40 := by omega
    simp only [hlt, decide_true, Bool.true_and]
    apply b2u_inj
    rw [bne_zero_toNat, BitVec.toNat_and, BitVec.toNat_shiftLeft, and_mask40_toNat, Nat.shiftLeft_eq]
    have h40 : (((1 <<< 40 : Nat) : U64)).toNat = 2 ^ 40 := by decide
    rw [h40, Nat.testBit, Nat.one_and_eq_mod_two, Nat.shiftRight_eq_div_pow, nat_bne_zero]
    have hx : value.toNat % 2 ^ 40 < 2 ^ 40 := Nat.mod_lt _ (by decide)
    rw [Bool.eq_iff_iff]; simp only [decide_eq_true_eq]
    exact (and_two_pow_ne_zero _ 40).trans (shl_carry_nat _ _ hx hlt)

private theorem bne_toInt (a b : U64) : (a != b) = decide (a.toInt ≠ b.toInt) := by
  by_cases he : a = b
  · subst he; simp
  · have : a.toInt ≠ b.toInt := fun hh => he (BitVec.eq_of_toInt_eq hh)
    have h1 : (a != b) = true := by simpa using he
    rw [h1]; exact (decide_eq_true this).symm

private theorem setWidth40_toInt (value : U64) :
    (value.setWidth 40).toInt =
      if 2 * (value.toNat % 2 ^ 40) < 2 ^ 40 then ((value.toNat % 2 ^ 40 : Nat) : Int)
      else ((value.toNat % 2 ^ 40 : Nat) : Int) - 2 ^ 40 := by
  rw [BitVec.toInt_eq_toNat_cond, BitVec.toNat_setWidth]
  split <;> simp

private theorem shl_overflow_nat (x n : Nat) (hx : x < 2 ^ 40) (hn : n < 40) :
    ((if 2 * (x % 2 ^ 40) < 2 ^ 40 then ((x % 2 ^ 40 : Nat) : Int) else ((x % 2 ^ 40 : Nat) : Int) - 2 ^ 40) ≠
      (if 2 * (x % 2 ^ (40 - n)) < 2 ^ (40 - n) then ((x % 2 ^ (40 - n) : Nat) : Int)
       else ((x % 2 ^ (40 - n) : Nat) : Int) - 2 ^ (40 - n))) ↔
    ((if 2 * x < 2 ^ 40 then (x : Int) else (x : Int) - 2 ^ 40) * 2 ^ n < -2 ^ 39 ∨
      2 ^ 39 ≤ (if 2 * x < 2 ^ 40 then (x : Int) else (x : Int) - 2 ^ 40) * 2 ^ n) := by
  interval_cases n <;> simp only [Nat.reducePow, Nat.reduceSub, Int.reducePow] <;>
    ((repeat' split) <;> omega)

/-- **Left shift, overflow.**  In arithmetic mode `fv` is raised exactly when `value · 2ⁿ` does not
fit 40 bits two's complement (an arithmetic left shift loses significant bits); in logic mode
`fv` is left alone. -/
theorem shl_overflow (value : U64) (sv s : U16) (h : sv.toNat < 0x8000) :
    (shiftCore value sv s).fv =
      if s = 0 then
        some (b2u (decide ((value.setWidth 40).toInt * 2 ^ sv.toNat < -2 ^ 39 ∨
                           2 ^ 39 ≤ (value.setWidth 40).toInt * 2 ^ sv.toNat)))
      else none := by
  unfold shiftCore
  simp only [sv_left, h, decide_true, if_true]
  have hx : value.toNat % 2 ^ 40 < 2 ^ 40 := Nat.mod_lt _ (by decide)
  have hV := setWidth40_toInt value
  by_cases hs : s = 0
  · subst hs
    simp only [beq_self_eq_true, if_true]
    by_cases hn : sv.toNat ≥ 40
    · simp only [hn, decide_true, if_true]
      congr 2
      rw [bne_zero_toNat, and_mask40_toNat, Bool.eq_iff_iff]
      simp only [decide_eq_true_eq]
      have hp : (2 : Int) ^ sv.toNat ≥ 2 ^ 40 := by
        have : (2 : Nat) ^ 40 ≤ 2 ^ sv.toNat := Nat.pow_le_pow_right (by decide) hn
        exact_mod_cast this
      rw [hV]
      constructor
      · intro hne
        have hp0 : (0 : Int) ≤ 2 ^ sv.toNat := by positivity
        split
        · right
          have h1 : (1 : Int) ≤ ((value.toNat % 2 ^ 40 : Nat) : Int) := by omega
          have := mul_le_mul_of_nonneg_right h1 hp0
          omega
        · left
          have h1 : ((value.toNat % 2 ^ 40 : Nat) : Int) - 2 ^ 40 ≤ -1 := by omega
          have := mul_le_mul_of_nonneg_right h1 hp0
          omega
      · intro hr hz
        rw [hz] at hr; simp at hr
    · simp only [hn, decide_false, Bool.false_eq_true, if_false]
      have hlt : sv.toNat < 40 := by omega
      congr 2
      rw [bne_toInt, signExtend_toInt 40 _ (by decide) (by decide),
        signExtend_toInt (40 - sv.toNat) _ (by omega) (by omega), and_mask40_toNat, hV,
        Bool.eq_iff_iff]
      simp only [decide_eq_true_eq]
      have := shl_overflow_nat _ _ hx hlt
      simp only [Nat.mod_eq_of_lt hx] at this ⊢
      exact this
  · have hs' : (s == 0) = false := by simpa using hs
    simp only [hs, hs', if_false, Bool.false_eq_true]
    split <;> rfl


/-! ### right shifts (`sv` negative; amount `m = 2¹⁶ − sv`) -/

private theorem sv_right (sv : U16) (h : 0x8000 ≤ sv.toNat) : ((sv >>> 15) == 0) = false := by
  rw [sv_left]; simp; omega

private theorem nsv_toNat (sv : U16) (h : 0x8000 ≤ sv.toNat) : (~~~sv + 1).toNat = 2 ^ 16 - sv.toNat := by
  have := sv.isLt
  rw [BitVec.toNat_add, BitVec.toNat_not]
  simp only [show (1 : U16).toNat = 1 from rfl]
  omega

/-- Right shifts clear `fv` in arithmetic mode and leave it alone in logic mode. -/
theorem shr_overflow (value : U64) (sv s : U16) (h : 0x8000 ≤ sv.toNat) :
    (shiftCore value sv s).fv = if s = 0 then some 0 else none := by
  unfold shiftCore
  simp only [sv_right sv h, Bool.false_eq_true, if_false]
  by_cases hs : s = 0
  · subst hs; simp only [beq_self_eq_true, if_true]; repeat' split
    all_goals rfl
  · have hs' : (s == 0) = false := by simpa using hs
    simp only [hs, hs', if_false, Bool.false_eq_true]; repeat' split
    all_goals rfl

/-- `SignExtend<bits>` as a function on the 64-bit pattern. -/
theorem signExtend_toNat (bits : Nat) (v : U64) (h1 : 0 < bits) (h2 : bits ≤ 64) :
    (signExtend bits v).toNat =
      v.toNat % 2 ^ bits + if 2 ^ (bits - 1) ≤ v.toNat % 2 ^ bits then 2 ^ 64 - 2 ^ bits else 0 := by
  unfold signExtend
  rw [BitVec.toNat_signExtend, BitVec.toNat_setWidth, BitVec.toNat_setWidth, BitVec.msb_eq_decide,
    BitVec.toNat_setWidth]
  have hle : 2 ^ bits ≤ 2 ^ 64 := Nat.pow_le_pow_right (by decide) h2
  have : v.toNat % 2 ^ bits % 2 ^ 64 = v.toNat % 2 ^ bits := by
    apply Nat.mod_eq_of_lt
    have := Nat.mod_lt v.toNat (Nat.two_pow_pos bits)
    omega
  rw [this]
  by_cases hh : 2 ^ (bits - 1) ≤ v.toNat % 2 ^ bits
  · simp only [hh, decide_true, if_true]
  · simp only [hh, decide_false, Bool.false_eq_true, if_false]

private theorem shr_arith_nat (x m : Nat) (hx : x < 2 ^ 40) (h1 : 1 ≤ m) (h2 : m < 40) :
    (if 2 * ((x / 2 ^ m % 2 ^ (40 - m) +
          if 2 ^ (40 - m - 1) ≤ x / 2 ^ m % 2 ^ (40 - m) then 2 ^ 64 - 2 ^ (40 - m) else 0) % 2 ^ 40) < 2 ^ 40
      then (((x / 2 ^ m % 2 ^ (40 - m) +
          if 2 ^ (40 - m - 1) ≤ x / 2 ^ m % 2 ^ (40 - m) then 2 ^ 64 - 2 ^ (40 - m) else 0) % 2 ^ 40 : Nat) : Int)
      else (((x / 2 ^ m % 2 ^ (40 - m) +
          if 2 ^ (40 - m - 1) ≤ x / 2 ^ m % 2 ^ (40 - m) then 2 ^ 64 - 2 ^ (40 - m) else 0) % 2 ^ 40 : Nat) : Int)
        - 2 ^ 40) =
    (if 2 * x < 2 ^ 40 then (x : Int) else (x : Int) - 2 ^ 40) / 2 ^ m := by
  interval_cases m <;> simp only [Nat.reducePow, Nat.reduceSub, Int.reducePow] <;>
    ((repeat' split) <;> omega)

/-- **Arithmetic right shift, value.**  The result is `⌊value / 2ᵐ⌋` (floor division of the signed
40-bit operand), for every amount `1 ≤ m ≤ 32768`. -/
theorem shr_arith_value (value : U64) (sv : U16) (h : 0x8000 ≤ sv.toNat) :
    (signExtend 40 (shiftCore value sv 0).value).toInt =
      (value.setWidth 40).toInt / 2 ^ (2 ^ 16 - sv.toNat) := by
  have hx : value.toNat % 2 ^ 40 < 2 ^ 40 := Nat.mod_lt _ (by decide)
  have hV := setWidth40_toInt value
  have hsv := sv.isLt
  unfold shiftCore
  simp only [sv_right sv h, Bool.false_eq_true, if_false, beq_self_eq_true, if_true, nsv_toNat sv h]
  by_cases hm : 2 ^ 16 - sv.toNat ≥ 40
  · simp only [hm, decide_true, if_true]
    -- everything is shifted out: the result is the sign
    have hq : ∀ V : Int, -2 ^ 39 ≤ V → V < 2 ^ 39 →
        V / 2 ^ (2 ^ 16 - sv.toNat) = if V < 0 then -1 else 0 := by
      intro V hl hu
      have hp : (2 : Int) ^ (2 ^ 16 - sv.toNat) ≥ 2 ^ 40 := by
        have : (2 : Nat) ^ 40 ≤ 2 ^ (2 ^ 16 - sv.toNat) := Nat.pow_le_pow_right (by decide) hm
        exact_mod_cast this
      split
      · rw [Int.ediv_eq_neg_one_of_neg_of_le (by omega) (by omega)] <;> omega
      · exact Int.ediv_eq_zero_of_lt (by omega) (by omega)
    rw [hq _ (by rw [hV]; split <;> omega) (by rw [hV]; split <;> omega), hV]
    have hbit : (((value &&& mask40) >>> 39 &&& 1) != 0) = decide (2 ^ 39 ≤ value.toNat % 2 ^ 40) := by
      rw [bne_zero_toNat, Bool.eq_iff_iff]
      simp only [decide_eq_true_eq]
      have : ((value &&& mask40) >>> 39 &&& 1).toNat = value.toNat % 2 ^ 40 / 2 ^ 39 % 2 := by
        rw [BitVec.toNat_and, BitVec.toNat_ushiftRight, and_mask40_toNat, Nat.shiftRight_eq_div_pow]
        show _ &&& (2 ^ 1 - 1) = _
        rw [Nat.and_two_pow_sub_one_eq_mod]
      rw [this]; omega
    rw [hbit]
    by_cases hneg : 2 ^ 39 ≤ value.toNat % 2 ^ 40
    · simp only [hneg, decide_true, if_true]
      have : ¬ 2 * (value.toNat % 2 ^ 40) < 2 ^ 40 := by omega
      simp only [this, if_false]
      have : ((value.toNat % 2 ^ 40 : Nat) : Int) - 2 ^ 40 < 0 := by omega
      simp only [this, if_true]
      decide
    · simp only [hneg, decide_false, Bool.false_eq_true, if_false]
      have : 2 * (value.toNat % 2 ^ 40) < 2 ^ 40 := by omega
      simp only [this, if_true]
      have : ¬ ((value.toNat % 2 ^ 40 : Nat) : Int) < 0 := by omega
      simp only [this, if_false]
      decide
  · simp only [hm, decide_false, Bool.false_eq_true, if_false]
    have h1 : 1 ≤ 2 ^ 16 - sv.toNat := by omega
    have h2 : 2 ^ 16 - sv.toNat < 40 := by omega
    generalize hmdef : 2 ^ 16 - sv.toNat = m at *
    rw [signExtend_toInt 40 _ (by decide) (by decide), signExtend_toNat (40 - m) _ (by omega) (by omega),
      BitVec.toNat_ushiftRight, and_mask40_toNat, Nat.shiftRight_eq_div_pow, hV]
    exact shr_arith_nat _ m hx h1 h2


private theorem shr_carry_nat (x m : Nat) (hx : x < 2 ^ 40) (h1 : 1 ≤ m) (h2 : m < 40) :
    (x / 2 ^ (m - 1) % 2 = 1) ↔
      ((if 2 * x < 2 ^ 40 then (x : Int) else (x : Int) - 2 ^ 40) / 2 ^ (m - 1) % 2 = 1) := by
  interval_cases m <;> simp only [Nat.reducePow, Nat.reduceSub, Int.reducePow] <;>
    ((repeat' split) <;> omega)

/-- **Arithmetic right shift, carry.**  The carry is the last bit shifted out of the (infinitely
sign-extended) operand: bit `m − 1` of `value`, the sign for `m ≥ 40`. -/
theorem shr_arith_carry (value : U64) (sv : U16) (h : 0x8000 ≤ sv.toNat) :
    (shiftCore value sv 0).fc0 =
      b2u (decide ((value.setWidth 40).toInt / 2 ^ (2 ^ 16 - sv.toNat - 1) % 2 = 1)) := by
  have hx : value.toNat % 2 ^ 40 < 2 ^ 40 := Nat.mod_lt _ (by decide)
  have hV := setWidth40_toInt value
  have hsv := sv.isLt
  unfold shiftCore
  simp only [sv_right sv h, Bool.false_eq_true, if_false, beq_self_eq_true, if_true, nsv_toNat sv h]
  by_cases hm : 2 ^ 16 - sv.toNat ≥ 40
  · simp only [hm, decide_true, if_true]
    have hq : ∀ V : Int, -2 ^ 39 ≤ V → V < 2 ^ 39 →
        V / 2 ^ (2 ^ 16 - sv.toNat - 1) = if V < 0 then -1 else 0 := by
      intro V hl hu
      have hp : (2 : Int) ^ (2 ^ 16 - sv.toNat - 1) ≥ 2 ^ 39 := by
        have : (2 : Nat) ^ 39 ≤ 2 ^ (2 ^ 16 - sv.toNat - 1) := Nat.pow_le_pow_right (by decide) (by omega)
        exact_mod_cast this
      split
      · rw [Int.ediv_eq_neg_one_of_neg_of_le (by omega) (by omega)] <;> omega
      · exact Int.ediv_eq_zero_of_lt (by omega) (by omega)
    rw [hq _ (by rw [hV]; split <;> omega) (by rw [hV]; split <;> omega), hV]
    have hc : (((value &&& mask40) >>> 39 &&& 1).setWidth 16 : U16) =
        b2u (decide (2 ^ 39 ≤ value.toNat % 2 ^ 40)) := by
      apply BitVec.eq_of_toNat_eq
      rw [BitVec.toNat_setWidth, BitVec.toNat_and, BitVec.toNat_ushiftRight, and_mask40_toNat,
        Nat.shiftRight_eq_div_pow]
      show (_ &&& (2 ^ 1 - 1)) % _ = _
      rw [Nat.and_two_pow_sub_one_eq_mod]
      unfold b2u
      by_cases hneg : 2 ^ 39 ≤ value.toNat % 2 ^ 40
      · simp only [hneg, decide_true, if_true]; show _ = 1; omega
      · simp only [hneg, decide_false, Bool.false_eq_true, if_false]; show _ = 0; omega
    rw [hc]
    apply b2u_inj
    rw [Bool.eq_iff_iff]; simp only [decide_eq_true_eq]
    constructor
    · intro hneg
      have : ¬ 2 * (value.toNat % 2 ^ 40) < 2 ^ 40 := by omega
      simp only [this, if_false]
      have : ((value.toNat % 2 ^ 40 : Nat) : Int) - 2 ^ 40 < 0 := by omega
      simp only [this, if_true]; decide
    · intro hr
      by_contra hneg
      have h1 : 2 * (value.toNat % 2 ^ 40) < 2 ^ 40 := by omega
      simp only [h1, if_true] at hr
      have h2 : ¬ ((value.toNat % 2 ^ 40 : Nat) : Int) < 0 := by omega
      simp only [h2, if_false] at hr
      simp at hr
  · simp only [hm, decide_false, Bool.false_eq_true, if_false]
    have h1 : 1 ≤ 2 ^ 16 - sv.toNat := by omega
    have h2 : 2 ^ 16 - sv.toNat < 40 := by omega
    generalize hmdef : 2 ^ 16 - sv.toNat = m at *
    apply b2u_inj
    rw [bne_zero_toNat, BitVec.toNat_and, and_mask40_toNat, hV, Bool.eq_iff_iff]
    simp only [decide_eq_true_eq]
    have h2m : (((1 <<< (m - 1) : Nat) : U64)).toNat = 2 ^ (m - 1) := by
      rw [BitVec.natCast_eq_ofNat, BitVec.toNat_ofNat, Nat.shiftLeft_eq, Nat.one_mul]
      apply Nat.mod_eq_of_lt
      exact Nat.pow_lt_pow_right (by decide) (by omega)
    rw [h2m]
    exact (and_two_pow_ne_zero _ _).trans (shr_carry_nat _ m hx h1 h2)

private theorem sne (s : U16) (hs : s ≠ 0) : (s == 0) = false := by simpa using hs

/-- **Logical right shift, value.**  The 40-bit pattern is shifted right with zero fill:
`⌊pattern / 2ᵐ⌋` (zero for `m ≥ 40`). -/
theorem shr_logic_value (value : U64) (sv s : U16) (hs : s ≠ 0) (h : 0x8000 ≤ sv.toNat) :
    U40' (shiftCore value sv s).value = U40' value / 2 ^ (2 ^ 16 - sv.toNat) := by
  have hx : value.toNat % 2 ^ 40 < 2 ^ 40 := Nat.mod_lt _ (by decide)
  unfold shiftCore U40'
  simp only [sv_right sv h, Bool.false_eq_true, if_false, sne s hs, nsv_toNat sv h]
  by_cases hm : 2 ^ 16 - sv.toNat ≥ 40
  · simp only [hm, decide_true, if_true]
    have : 2 ^ 40 ≤ 2 ^ (2 ^ 16 - sv.toNat) := Nat.pow_le_pow_right (by decide) hm
    rw [Nat.div_eq_of_lt (by omega)]; rfl
  · simp only [hm, decide_false, Bool.false_eq_true, if_false]
    rw [BitVec.toNat_ushiftRight, and_mask40_toNat, Nat.shiftRight_eq_div_pow]
    apply Nat.mod_eq_of_lt
    exact Nat.lt_of_le_of_lt (Nat.div_le_self _ _) hx

/-- **Logical right shift, carry.**  Bit `m − 1` of the pattern for `m < 40`; 0 for `m ≥ 40`
(the code reports 0 there, also for `m = 40`). -/
theorem shr_logic_carry (value : U64) (sv s : U16) (hs : s ≠ 0) (h : 0x8000 ≤ sv.toNat) :
    (shiftCore value sv s).fc0 =
      b2u (decide (2 ^ 16 - sv.toNat < 40) && (U40' value).testBit (2 ^ 16 - sv.toNat - 1)) := by
  have hsv := sv.isLt
  unfold shiftCore U40'
  simp only [sv_right sv h, Bool.false_eq_true, if_false, sne s hs, nsv_toNat sv h]
  by_cases hm : 2 ^ 16 - sv.toNat ≥ 40
  · have : ¬ 2 ^ 16 - sv.toNat < 40 := by omega
    simp only [hm, decide_true, if_true, this, decide_false, Bool.false_and]; rfl
  · have hlt : 2 ^ 16 - sv.toNat < 40 := by omega
    simp only [hm, decide_false, Bool.false_eq_true, if_false, hlt, decide_true, Bool.true_and]
    apply b2u_inj
    generalize hmdef : 2 ^ 16 - sv.toNat = m at *
    rw [bne_zero_toNat, BitVec.toNat_and, and_mask40_toNat, Bool.eq_iff_iff]
    simp only [decide_eq_true_eq]
    have h2m : (((1 <<< (m - 1) : Nat) : U64)).toNat = 2 ^ (m - 1) := by
      rw [BitVec.natCast_eq_ofNat, BitVec.toNat_ofNat, Nat.shiftLeft_eq, Nat.one_mul]
      apply Nat.mod_eq_of_lt
      exact Nat.pow_lt_pow_right (by decide) (by omega)
    rw [h2m, Nat.testBit, Nat.one_and_eq_mod_two, Nat.shiftRight_eq_div_pow, nat_bne_zero]
    simp only [decide_eq_true_eq]
    refine (and_two_pow_ne_zero _ _).trans ?_
    omega

end Teakra.Alu
