import Proofs.C06Sys.Cycle
import Proofs.C06Sys.Ticks
import Proofs.C06Sys.Witness
/-!
# C06 — `Run(n)` equals `n` single cycles on the concrete machine (`Sys.ops true`)

Part 2: the obligations of `Proofs/C06.lean` (`FastForwardOk`, `ObsOk`) discharged for
`Sys.ops true` (`TeakraModel/Sys.lean`), hence `run_eq_steps` and `run_partition` for the concrete
core + bus.  Ingredients:
* `Proofs/C06Sys/Decode.lean` — the decoder on the opcodes `0x57F0 | cond`;
* `Proofs/C06Sys/Cycle.lean` — symbolic execution of the loop body on a self-branch (`cycle_brr`),
  the interrupt block when nothing is deliverable (`interruptCheck_noop`);
* `Proofs/C06Sys/Ticks.lean` — `k` bus ticks inside the horizon, componentwise (`ticksN_quiet`),
  and `CoreTiming::Skip` as `k` ticks (`skip_eq_ticked`), from C15 / C16;
* `Proofs/C06Sys/Witness.lean` — the upstream witness (`upstream_skip_not_idle`).
-/
namespace Teakra.Sys
open Teakra Exec ExecLemmas Interp

/-- The invariant: an idle core sits on a plain self-branch, the audio ports satisfy their flag and
clock invariants, the timers are in a configuration `Timer::Tick` accepts. -/
def P (c : Core) : Prop :=
  idleOk c = true ∧ periphOk c.bus = true ∧ Timer.WF (c.bus.per.timer[0]) ∧ Timer.WF (c.bus.per.timer[1])

theorem P_busOk {c : Core} (h : P c) : BusOk c.bus := h.2

/-- `brrSelf` reads the registers and the program memory only. -/
theorem brrSelf_congr (c c' : Core) (hr : c'.regs = c.regs) (hm : c'.bus.mem = c.bus.mem) :
    brrSelf c' = brrSelf c := by
  unfold brrSelf Bus.programRead
  simp only [condHolds_eq, hr, hm]

theorem Bus.tick_ok_WF (b : Bus) (r : Bus × List PEvent) (h : b.tick = .ok r) :
    Timer.WF (b.per.timer[0]) ∧ Timer.WF (b.per.timer[1]) := by
  unfold Bus.tick at h
  cases h0 : (b.per.timer[0]).tick with
  | error e => rw [h0] at h; cases h
  | ok r0 =>
    have hw0 := (Timer.WF_of_tick h0).1
    refine ⟨hw0, ?_⟩
    rw [h0] at h
    simp only [] at h
    rw [Periph.raiseIf_frame] at h
    simp only [vec2_set0_get1] at h
    cases h1 : (b.per.timer[1]).tick with
    | error e => rw [h1] at h; cases h
    | ok r1 => exact (Timer.WF_of_tick h1).1

/-- A successful tick re-establishes the invariant from `idleOk` alone (the tick itself checks the
audio ports and the timers). -/
theorem tick_P (c c' : Core) (hid : idleOk c = true) (h : tick c = .ok c') : P c' := by
  obtain ⟨hp, b', evs, hb, hc'⟩ := tick_spec c c' h
  obtain ⟨hw0, hw1⟩ := Bus.tick_ok_WF c.bus _ hb
  obtain ⟨icu, evs', hb'⟩ := Bus.tick_spec c.bus hw0 hw1
  rw [hb] at hb'
  injection hb' with hb'
  injection hb' with hb1 hb2
  obtain ⟨ip, vp, vc, va, he⟩ := Core.emit_frame ({ c with bus := b' } : Core) evs
  rw [he] at hc'
  rw [periphOk_iff] at hp
  have hregs : c'.regs = c.regs := by rw [hc']
  have hidle : c'.idle = c.idle := by rw [hc']
  have hbus : c'.bus = b' := by rw [hc']
  refine ⟨?_, ?_, ?_, ?_⟩
  · unfold idleOk at hid ⊢
    rw [brrSelf_congr c c' hregs (by rw [hbus, hb1]), hidle]
    exact hid
  · rw [periphOk_iff, hbus, hb1]
    exact ⟨⟨Btdmp.inv_tick _ hp.1.1, Btdmp.clk_tick _ hp.1.2⟩, ⟨Btdmp.inv_tick _ hp.2.1, Btdmp.clk_tick _ hp.2.2⟩⟩
  · rw [hbus, hb1]; exact Timer.WF_tickCore' hw0
  · rw [hbus, hb1]; exact Timer.WF_tickCore' hw1

/-! ## the loop body -/

theorem body_idleOk (s s1 : Core) (h : body s = .ok s1) : idleOk s1 = true := by
  unfold body at h
  split at h
  · cases h
  · simp only [] at h
    split at h
    · rename_i hi
      injection h with h
      rw [← h]; exact hi
    · cases h

theorem noLatch_spec (c : Core) (h : noLatch c = true) :
    c.vpend = false ∧ c.ipend = Vector.replicate 3 false ∧ latchAll c = c.regs := by
  unfold noLatch at h
  simp only [Bool.and_eq_true, Bool.not_eq_true'] at h
  obtain ⟨⟨⟨hv, h0⟩, h1⟩, h2⟩ := h
  refine ⟨hv, ?_, ?_⟩
  · apply Vector.ext
    intro i hi
    have g : ∀ j (hj : j < 3), c.ipend.toArray.getD j false = c.ipend[j] := by
      intro j hj; simp [Array.getD, hj]
    match i, hi with
    | 0, _ => rw [← g 0 (by omega), h0]; simp
    | 1, _ => rw [← g 1 (by omega), h1]; simp
    | 2, _ => rw [← g 2 (by omega), h2]; simp
  · unfold latchAll latch1
    simp only [hv, h0, h1, h2, Bool.false_eq_true, if_false]

/-- The interrupt block run after a self-branch in a state without latches leaves the state alone;
so the loop body is the identity. -/
theorem idle_body (s : Core) (hp : P s) (hs : (ops true).skipAllowed s = true) : body s = .ok s := by
  have hs' : s.idle = true ∧ noLatch s = true := by
    simpa [ops] using hs
  obtain ⟨hidle, hnl⟩ := hs'
  have hbrr : brrSelf s = true := by
    have := hp.1
    unfold idleOk at this
    simpa [hidle] using this
  obtain ⟨w, accs, hread, hw, hcond, hrep, hloop, hdel⟩ := brrSelf_spec s hbrr
  obtain ⟨hv, hip, hla⟩ := noLatch_spec s hnl
  have hpre : pre s accs = { s with log := accs.reverse ++ s.log } := by
    unfold pre
    rw [hla, ← hip, ← hv, ← hidle]
  have hcyc := cycle_brr s w accs hread hw hcond hrep hloop
  rw [hpre, interruptCheck_noop ({ s with log := accs.reverse ++ s.log } : Core) hdel] at hcyc
  unfold body
  rw [hcyc]
  simp only []
  have : ({ ({ s with log := accs.reverse ++ s.log } : Core) with log := s.log } : Core) = s := rfl
  rw [this, hp.1]
  rfl

/-! ## the fast-forward obligations -/

/-- The obligations of `Proofs/C06.lean` for the concrete machine with the `fix:` commit. -/
def ffOk : LoopOps.FastForwardOk (ops true) where
  P := P
  bound := 2 ^ 63
  horizon := fun c => c.bus.maxSkip
  P_tick := fun s s' hp h => tick_P s s' hp.1 h
  P_cycle := fun s s1 s2 _ hb ht => tick_P s1 s2 (body_idleOk s s1 hb) ht
  skip_eq := by
    intro s m hp _ hm
    show skip s m = _
    rw [skip_eq_ticked s hp.2 m hm, ticksN_quiet true _ s hp.2 (Nat.min_le_right _ _)]
    rfl
  quiet := by
    intro s hp hs j hj s' h
    rw [ticksN_quiet true j s hp.2 hj] at h
    injection h with h
    rw [← h]
    exact hs
  idle_body := idle_body

/-! ## slicing: everything but the `idle` flag is observable -/

/-- Observation: everything except the idle flag (which `Run` re-initialises). -/
def obs (c : Core) : Core := { c with idle := false }

theorem obs_eq (s t : Core) (h : obs s = obs t) : t = { s with idle := t.idle } := by
  cases s; cases t
  simp only [obs, Core.mk.injEq] at h
  obtain ⟨h1, h2, h3, h4, h5, h6, h7, h8, _⟩ := h
  subst h1 h2 h3 h4 h5 h6 h7 h8
  rfl

theorem signal_idle (c : Core) (b : Bool) (e : PEvent) :
    Core.signal { c with idle := b } e = { Core.signal c e with idle := b } := by
  cases e with
  | irq i =>
    by_cases h : i < 3
    · simp only [Core.signal, h, dite_true]
    · simp only [Core.signal, h, dite_false]
  | _ => rfl

theorem foldl_signal_idle (evs : List PEvent) (b : Bool) : ∀ c : Core,
    evs.foldl Core.signal { c with idle := b } = { evs.foldl Core.signal c with idle := b } := by
  induction evs with
  | nil => intro c; rfl
  | cons e evs ih => intro c; rw [List.foldl_cons, signal_idle, ih]; rfl

theorem emit_idle (c : Core) (b : Bool) (evs : List PEvent) :
    Core.emit { c with idle := b } evs = { Core.emit c evs with idle := b } := by
  unfold Core.emit
  simp only [foldl_signal_idle]

/-- The tick neither reads nor writes `idle`. -/
theorem tick_idle (s : Core) (b : Bool) :
    tick { s with idle := b } = (tick s).map fun c => { c with idle := b } := by
  unfold tick
  rw [tickAll_run, tickAll_run]
  show (if periphOk s.bus = true then _ else _) = _
  by_cases hp : periphOk s.bus = true
  · simp only [hp, if_true]
    cases hb : s.bus.tick with
    | error e => rfl
    | ok r =>
      obtain ⟨b', evs⟩ := r
      simp only [Except.map]
      exact congrArg Except.ok (emit_idle ({ s with bus := b' } : Core) b evs)
  · simp only [hp]; rfl

theorem tick_congr (s t : Core) (h : obs s = obs t) : (tick s).map obs = (tick t).map obs := by
  have ht := obs_eq s t h
  generalize t.idle = b at ht
  subst ht
  rw [tick_idle s b]
  cases tick s with
  | error e => rfl
  | ok c => rfl

/-- On a self-branch the loop body does not depend on the incoming `idle` flag (the branch sets it). -/
theorem body_idle_irrelevant (s : Core) (b : Bool) (hbrr : brrSelf s = true) :
    body { s with idle := b } = body s := by
  obtain ⟨w, accs, hread, hw, hcond, hrep, hloop, _⟩ := brrSelf_spec s hbrr
  have h1 := cycle_brr s w accs hread hw hcond hrep hloop
  have h2 := cycle_brr { s with idle := b } w accs hread hw hcond hrep hloop
  have hpre : pre { s with idle := b } accs = pre s accs := rfl
  rw [hpre] at h2
  unfold body
  rw [h1, h2]

theorem body_congr (s t : Core) (hps : P s) (hpt : P t) (h : obs s = obs t) :
    (body s).map obs = (body t).map obs := by
  have ht := obs_eq s t h
  generalize hb : t.idle = b at ht
  subst ht
  by_cases hsb : s.idle = b
  · subst hsb; rfl
  · have hbrr : brrSelf s = true := by
      cases hsi : s.idle with
      | true =>
        have := hps.1
        unfold idleOk at this
        simpa [hsi] using this
      | false =>
        have hbt : b = true := by
          cases b with
          | true => rfl
          | false => exact absurd hsi hsb
        have := hpt.1
        unfold idleOk at this
        rw [brrSelf_congr s ({ s with idle := b } : Core) rfl rfl] at this
        simpa [hbt] using this
    rw [body_idle_irrelevant s b hbrr]

/-- The slicing obligations. -/
theorem obsOk : LoopOps.ObsOk (ops true) ffOk obs where
  start_obs := fun _ => rfl
  P_start := fun _ hp => ⟨rfl, hp.2⟩
  body_congr := body_congr
  tick_congr := tick_congr

/-! ## the end-to-end statements -/

/-- **`Run(n)` is `n` single steps** on the concrete machine, for every `n ≤ 2^63`, from every
state whose peripherals are inside the modelled envelope. -/
theorem run_eq_steps (n : Nat) (hn : n ≤ 2 ^ 63) (c : Core) (hp : P { c with idle := false }) :
    (ops true).run n c = (ops true).cyclesN n { c with idle := false } :=
  LoopOps.run_eq_cycles ffOk n hn c hp

/-- **Every partition of the budget** gives the same observable result as one call. -/
theorem run_partition (ns : List Nat) (hb : ns.sum ≤ 2 ^ 63) (c : Core) (hp : P c) :
    (LoopOps.runSlices (ops true) ns c).map obs = ((ops true).run ns.sum c).map obs :=
  LoopOps.run_partition ffOk obsOk ns hb c hp


/-! ## non-vacuity -/

/-- The reset state satisfies the invariant … -/
example : P {} := ⟨rfl, by decide, by decide, by decide⟩

/-- … and so does the (idle, self-branching) upstream witness. -/
example : P upstreamWitness := by
  refine ⟨?_, by decide, by decide, by decide⟩
  unfold idleOk brrSelf
  rw [upstreamWitness_read]
  decide

end Teakra.Sys
