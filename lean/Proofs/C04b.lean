import Proofs.C03
import Proofs.C04
import Proofs.C03Exec
import Proofs.C03b
import Proofs.Lemmas.Exec
import TeakraModel.Exec
/-!
# C04, second part — exponent, the complete `ShiftBus40`, multiply–accumulate order, product sums

* `exp_spec`, `exp_normalises` — `Exp` counts the redundant sign bits (minus eight);
* `shiftBus40_run`, `shiftRegs_spec`, `shiftBus40_sat_original_sign` — the whole of `ShiftBus40`
  (shifter core, carry, overflow latch, flags, saturation by the *original* sign);
* `mac_order`, `productSum_spec` — accumulate-then-multiply order of `MulGeneric`, and `ProductSum`.
-/
namespace Teakra.Alu

/-! ## `Exp` -/

/-- `n` is the number of redundant sign bits of the 40-bit value `v`: the largest `n ≤ 39` such that
bits `38 … 39 − n` all repeat bit 39. -/
def IsRedundantSignCount (v : U64) (n : Nat) : Prop :=
  n ≤ 39 ∧ (∀ j, 39 - n ≤ j → j ≤ 38 → v.getLsbD j = v.getLsbD 39) ∧
    (n < 39 → v.getLsbD (38 - n) ≠ v.getLsbD 39)

/-- The signed 40-bit value fits `bits` bits two's complement. -/
def FitsBits (v : U64) (bits : Nat) : Prop := -2 ^ (bits - 1) ≤ I40 v ∧ I40 v < 2 ^ (bits - 1)

private theorem expLoop_spec (v : U64) (s : Bool) : ∀ (bit count : Nat),
    let r := expLoop v s bit count
    count ≤ r ∧ r ≤ count + bit + 1 ∧
    (∀ j, bit + 1 - (r - count) ≤ j → j ≤ bit → v.getLsbD j = s) ∧
    (r < count + bit + 1 → v.getLsbD (bit - (r - count)) ≠ s) := by
  intro bit
  induction bit with
  | zero =>
    intro count
    unfold expLoop
    by_cases h : v.getLsbD 0 = s
    · simp only [h, bne_self_eq_false, Bool.false_eq_true, if_false]
      refine ⟨by omega, by omega, ?_, by omega⟩
      intro j _ hj
      have : j = 0 := by omega
      rw [this, h]
    · have hb : (v.getLsbD 0 != s) = true := by simpa using h
      simp only [hb, if_true]
      refine ⟨by omega, by omega, ?_, ?_⟩
      · intro j h1 h2; omega
      · intro _; simpa using h
  | succ b ih =>
    intro count
    unfold expLoop
    by_cases h : v.getLsbD (b + 1) = s
    · simp only [h, bne_self_eq_false, Bool.false_eq_true, if_false]
      obtain ⟨h1, h2, h3, h4⟩ := ih (count + 1)
      refine ⟨by omega, by omega, ?_, ?_⟩
      · intro j hj1 hj2
        by_cases hj : j = b + 1
        · rw [hj, h]
        · exact h3 j (by omega) (by omega)
      · intro hr
        have := h4 (by omega)
        have e : b + 1 - (expLoop v s b (count + 1) - count) = b - (expLoop v s b (count + 1) - (count + 1)) := by
          omega
        rw [e]; exact this
    · have hb : (v.getLsbD (b + 1) != s) = true := by simpa using h
      simp only [hb, if_true]
      refine ⟨by omega, by omega, ?_, ?_⟩
      · intro j h1 h2; omega
      · intro _; simpa using h

/-- The loop of `Exp` computes the redundant-sign-bit count. -/
theorem expLoop_count (v : U64) : IsRedundantSignCount v (expLoop v (v.getLsbD 39) 38 0) := by
  obtain ⟨_, h2, h3, h4⟩ := expLoop_spec v (v.getLsbD 39) 38 0
  refine ⟨by omega, ?_, ?_⟩
  · intro j hj1 hj2; exact h3 j (by omega) hj2
  · intro hn
    have := h4 (by omega)
    simpa using this

/-- The count is unique. -/
theorem redundantSignCount_unique (v : U64) (n m : Nat) (hn : IsRedundantSignCount v n)
    (hm : IsRedundantSignCount v m) : n = m := by
  obtain ⟨n1, n2, n3⟩ := hn
  obtain ⟨m1, m2, m3⟩ := hm
  by_contra hne
  rcases Nat.lt_or_gt_of_ne hne with h | h
  · exact n3 (by omega) (m2 (38 - n) (by omega) (by omega))
  · exact m3 (by omega) (n2 (38 - m) (by omega) (by omega))

/-! ### from bits to bounds -/

private theorem low40_testBit (v : U64) (j : Nat) (hj : j < 40) :
    v.getLsbD j = (v.toNat % 2 ^ 40).testBit j := by
  unfold BitVec.getLsbD
  rw [Nat.testBit_mod_two_pow]
  simp [hj]

private theorem zeros_above (x k : Nat) (hx : x < 2 ^ 40)
    (h : ∀ j, k ≤ j → j ≤ 39 → x.testBit j = false) : x < 2 ^ k := by
  apply Nat.lt_pow_two_of_testBit
  intro i hi
  by_cases h40 : i ≤ 39
  · exact h i hi h40
  · apply Nat.testBit_lt_two_pow
    exact Nat.lt_of_lt_of_le hx (Nat.pow_le_pow_right (by decide) (by omega))

private theorem ones_above (x k : Nat) (hx : x < 2 ^ 40)
    (h : ∀ j, k ≤ j → j ≤ 39 → x.testBit j = true) : 2 ^ 40 - 2 ^ k ≤ x := by
  have hy : 2 ^ 40 - (x + 1) < 2 ^ k := by
    apply zeros_above _ _ (by omega)
    intro j h1 h2
    rw [Nat.testBit_two_pow_sub_succ hx, h j h1 h2]
    simp
  omega

private theorem I40_eq (v : U64) :
    I40 v = if 2 ^ 39 ≤ v.toNat % 2 ^ 40 then ((v.toNat % 2 ^ 40 : Nat) : Int) - 2 ^ 40
            else ((v.toNat % 2 ^ 40 : Nat) : Int) := by
  unfold I40
  rw [BitVec.toInt_eq_toNat_cond, BitVec.toNat_setWidth]
  split <;> split <;> omega

private theorem bit39_eq (v : U64) : v.getLsbD 39 = decide (2 ^ 39 ≤ v.toNat % 2 ^ 40) := by
  rw [low40_testBit v 39 (by decide), Nat.testBit, Nat.one_and_eq_mod_two, Nat.shiftRight_eq_div_pow]
  have : v.toNat % 2 ^ 40 < 2 ^ 40 := Nat.mod_lt _ (by decide)
  rw [Bool.eq_iff_iff]; simp only [bne_iff_ne, decide_eq_true_eq]
  omega

private theorem two_pow_succ_pred (k : Nat) (hk : 1 ≤ k) : 2 ^ k = 2 * 2 ^ (k - 1) := by
  have : k = (k - 1) + 1 := by omega
  rw [this, Nat.pow_succ]; simp; omega

/-- A redundant-sign-bit count `n` says exactly: the value fits `40 − n` bits and (unless `n = 39`)
does not fit `39 − n` bits. -/
theorem redundantSignCount_bounds (v : U64) (n : Nat) (h : IsRedundantSignCount v n) :
    FitsBits v (40 - n) ∧ (n < 39 → ¬ FitsBits v (39 - n)) := by
  obtain ⟨hn, hall, hstop⟩ := h
  have hx : v.toNat % 2 ^ 40 < 2 ^ 40 := Nat.mod_lt _ (by decide)
  have hI := I40_eq v
  have hs := bit39_eq v
  unfold FitsBits
  have e1 : 40 - n - 1 = 39 - n := by omega
  have e2 : 39 - n - 1 = 38 - n := by omega
  rw [e1, e2]
  have hp : (2 : Nat) ^ (39 - n) ≤ 2 ^ 39 := Nat.pow_le_pow_right (by decide) (by omega)
  have hc1 : ((2 : Int) ^ (39 - n)) = ((2 ^ (39 - n) : Nat) : Int) := by push_cast; rfl
  have hc2 : ((2 : Int) ^ (38 - n)) = ((2 ^ (38 - n) : Nat) : Int) := by push_cast; rfl
  rw [hc1, hc2]
  generalize hxd : v.toNat % 2 ^ 40 = x at *
  have hbits : ∀ j, 39 - n ≤ j → j ≤ 39 → x.testBit j = v.getLsbD 39 := by
    intro j h1 h2
    by_cases h39 : j = 39
    · subst h39; rw [low40_testBit v 39 (by decide), hxd]
    · rw [← hall j h1 (by omega), low40_testBit v j (by omega), hxd]
  by_cases hneg : 2 ^ 39 ≤ x
  · have hsign : v.getLsbD 39 = true := by rw [hs]; simpa using hneg
    rw [hsign] at hbits
    have hlo := ones_above x (39 - n) hx hbits
    simp only [hneg, if_true] at hI
    refine ⟨by omega, ?_⟩
    intro hn39
    have hbit : x.testBit (38 - n) = false := by
      have := hstop hn39
      rw [hsign, low40_testBit v (38 - n) (by omega), hxd] at this
      simpa using this
    -- bit 38-n is clear, bits above are set: x < 2^40 - 2^(38-n)
    have hp2 := two_pow_succ_pred (39 - n) (by omega)
    rw [show 39 - n - 1 = 38 - n from by omega] at hp2
    have hlt : x < 2 ^ 40 - 2 ^ (38 - n) := by
      by_contra hge
      have hge' : 2 ^ 40 - 2 ^ (38 - n) ≤ x := by omega
      -- then x / 2^(38-n) is odd
      have hy : 2 ^ 40 - (x + 1) < 2 ^ (38 - n) := by omega
      have := Nat.testBit_two_pow_sub_succ hx (38 - n)
      rw [Nat.testBit_lt_two_pow hy, hbit] at this
      simp at this
      omega
    omega
  · have hsign : v.getLsbD 39 = false := by rw [hs]; simpa using hneg
    rw [hsign] at hbits
    have hhi := zeros_above x (39 - n) hx hbits
    simp only [hneg, if_false] at hI
    refine ⟨by omega, ?_⟩
    intro hn39
    have hbit : x.testBit (38 - n) = true := by
      have := hstop hn39
      rw [hsign, low40_testBit v (38 - n) (by omega), hxd] at this
      simpa using this
    have hge : 2 ^ (38 - n) ≤ x := Nat.ge_two_pow_of_testBit hbit
    omega

private theorem fitsBits_mono (v : U64) (a b : Nat) (hab : a ≤ b) (h : FitsBits v a) : FitsBits v b := by
  unfold FitsBits at *
  have hp : (2 : Int) ^ (a - 1) ≤ 2 ^ (b - 1) := by
    have : (2 : Nat) ^ (a - 1) ≤ 2 ^ (b - 1) := Nat.pow_le_pow_right (by decide) (by omega)
    exact_mod_cast this
  omega

/-- **The exponent instructions report the redundant sign bits minus eight.**  With `n` the number
of redundant sign bits of the 40-bit value (the largest `n ≤ 39` such that bits `38 … 39 − n` all
equal bit 39), `Exp(v) = n − 8` as a 16-bit word; arithmetically `n` is characterised by: the signed
value fits `40 − n` bits, `−2^(39−n) ≤ v < 2^(39−n)`, and, if `n < 39`, does not fit `39 − n` bits. -/
theorem exp_spec (v : U64) :
    ∃ n, IsRedundantSignCount v n ∧ exp v = BitVec.ofNat 16 n - 8 ∧
      (-2 ^ (39 - n) ≤ I40 v ∧ I40 v < 2 ^ (39 - n)) ∧
      (n < 39 → ¬ (-2 ^ (38 - n) ≤ I40 v ∧ I40 v < 2 ^ (38 - n))) := by
  refine ⟨expLoop v (v.getLsbD 39) 38 0, expLoop_count v, rfl, ?_⟩
  have h := redundantSignCount_bounds v _ (expLoop_count v)
  unfold FitsBits at h
  generalize expLoop v (v.getLsbD 39) 38 0 = n at *
  rw [show 40 - n - 1 = 39 - n from by omega, show 39 - n - 1 = 38 - n from by omega] at h
  exact h

/-- `Exp` of any value whose redundant-sign-bit count is `n`. -/
theorem exp_eq_of_count (v : U64) (n : Nat) (h : IsRedundantSignCount v n) :
    exp v = BitVec.ofNat 16 n - 8 := by
  rw [redundantSignCount_unique v n _ h (expLoop_count v)]; rfl

/-- The arithmetic characterisation determines the count: if the value fits `40 − n` bits but not
`39 − n` bits (or `n = 39`), then `n` is the number of redundant sign bits and `Exp(v) = n − 8`. -/
theorem exp_eq_of_bounds (v : U64) (n : Nat) (hn : n ≤ 39) (h1 : FitsBits v (40 - n))
    (h2 : n < 39 → ¬ FitsBits v (39 - n)) :
    IsRedundantSignCount v n ∧ exp v = BitVec.ofNat 16 n - 8 := by
  have hm := expLoop_count v
  have hb := redundantSignCount_bounds v _ hm
  generalize expLoop v (v.getLsbD 39) 38 0 = m at *
  have : n = m := by
    by_contra hne
    rcases Nat.lt_or_gt_of_ne hne with h | h
    · exact h2 (by have := hm.1; omega) (fitsBits_mono v (40 - m) (39 - n) (by omega) hb.1)
    · exact hb.2 (by omega) (fitsBits_mono v (40 - n) (39 - m) (by omega) h1)
  subst this
  exact ⟨hm, exp_eq_of_count v n hm⟩

/-! ### the arithmetic left shift as exact arithmetic, and normalisation -/

private theorem I40_signExtend40 (x : U64) : I40 (signExtend 40 x) = I40 x := by
  unfold I40 signExtend
  congr 1
  apply BitVec.eq_of_toNat_eq
  rw [BitVec.toNat_setWidth, BitVec.toNat_signExtend, BitVec.toNat_setWidth]
  have := (x.setWidth 40).isLt
  simp only [BitVec.toNat_setWidth] at this ⊢
  split <;> omega

private theorem I40_bmod (x : U64) : I40 x = ((U40' x : Nat) : Int).bmod (2 ^ 40) := by
  unfold I40 U40'
  rw [BitVec.toInt_eq_toNat_bmod, BitVec.toNat_setWidth]

/-- **Left shift, value as a signed number.**  The 40-bit result of a left shift by `n` is
`value · 2ⁿ` wrapped to 40 bits two's complement (so it is exact whenever `fv` is not raised). -/
theorem shl_arith_value (value : U64) (sv s : U16) (h : sv.toNat < 0x8000) :
    I40 (signExtend 40 (shiftCore value sv s).value) = wrap40 (I40 value * 2 ^ sv.toNat) := by
  rw [I40_signExtend40, I40_bmod, shl_value value sv s h, I40_bmod, wrap40]
  rw [Int.natCast_mod, Int.emod_bmod, Int.bmod_mul_bmod, Int.natCast_mul, Int.natCast_pow]
  rfl

private theorem ofNat16_sub8_toNat (n : Nat) (h8 : 8 ≤ n) (h : n ≤ 39) :
    (BitVec.ofNat 16 n - 8 : U16).toNat = n - 8 := by
  rw [BitVec.toNat_sub, BitVec.toNat_ofNat]
  simp only [show (8 : U16).toNat = 8 from rfl]
  omega

/-- **Shifting left by the reported exponent normalises the value.**  When the count of redundant
sign bits is at least 8 (so `e = Exp(v) = n − 8` is a left-shift count `0 ≤ e ≤ 31`), the arithmetic
shifter applied to `v` with shift value `Exp(v)` yields exactly `v · 2ᵉ`, raises no overflow, the
result fits 32 bits, and it is normalised — `2³⁰ ≤ |result|`-wise: bits 31 and 30 of the result
differ — for every `v ≠ 0` (including `v = −1`, which becomes `−2³¹`); `v = 0` stays 0. -/
theorem exp_normalises (v : U64) (n : Nat) (hc : IsRedundantSignCount v n) (h8 : 8 ≤ n) :
    let W := I40 v * 2 ^ (n - 8)
    let R := signExtend 40 (shiftCore v (exp v) 0).value
    (exp v).toNat = n - 8 ∧ n - 8 ≤ 31 ∧
    I40 R = W ∧ (shiftCore v (exp v) 0).fv = some 0 ∧
    (-2 ^ 31 ≤ W ∧ W < 2 ^ 31) ∧
    (I40 v ≠ 0 → (2 ^ 30 ≤ W ∨ W < -2 ^ 30) ∧ R.getLsbD 31 ≠ R.getLsbD 30) ∧
    (I40 v = 0 → W = 0) := by
  intro W R
  have hn := hc.1
  have he : (exp v).toNat = n - 8 := by rw [exp_eq_of_count v n hc]; exact ofNat16_sub8_toNat n h8 hn
  have hb := redundantSignCount_bounds v n hc
  unfold FitsBits at hb
  rw [show 40 - n - 1 = 39 - n from by omega, show 39 - n - 1 = 38 - n from by omega] at hb
  obtain ⟨⟨hlo, hhi⟩, hnot⟩ := hb
  have hlt : (exp v).toNat < 0x8000 := by omega
  -- powers: 2^(39-n) * 2^(n-8) = 2^31, 2^(38-n) * 2^(n-8) = 2^30
  have hP : (0 : Int) < 2 ^ (n - 8) := by positivity
  have hp31 : (2 : Int) ^ (39 - n) * 2 ^ (n - 8) = 2 ^ 31 := by
    rw [← pow_add]; congr 1; omega
  have hWlo : -2 ^ 31 ≤ W := by
    have := mul_le_mul_of_nonneg_right hlo (le_of_lt hP)
    show -2 ^ 31 ≤ I40 v * 2 ^ (n - 8)
    rw [neg_mul, hp31] at this; exact this
  have hWhi : W < 2 ^ 31 := by
    have := mul_lt_mul_of_pos_right hhi hP
    show I40 v * 2 ^ (n - 8) < 2 ^ 31
    rw [hp31] at this; exact this
  have hR : I40 R = W := by
    show I40 (signExtend 40 (shiftCore v (exp v) 0).value) = _
    rw [shl_arith_value v (exp v) 0 hlt, he, wrap40]
    exact Int.bmod_eq_of_le (by omega) (by omega)
  have hfv : (shiftCore v (exp v) 0).fv = some 0 := by
    rw [shl_overflow v (exp v) 0 hlt, he]
    simp only [if_true]
    have : ¬ (I40 v * 2 ^ (n - 8) < -2 ^ 39 ∨ 2 ^ 39 ≤ I40 v * 2 ^ (n - 8)) := by
      have h1 : -2 ^ 31 ≤ I40 v * 2 ^ (n - 8) := hWlo
      have h2 : I40 v * 2 ^ (n - 8) < 2 ^ 31 := hWhi
      omega
    unfold I40 at this
    simp only [this, decide_false]; rfl
  refine ⟨he, by omega, hR, hfv, ⟨hWlo, hWhi⟩, ?_, ?_⟩
  · intro hv0
    have hnorm : 2 ^ 30 ≤ W ∨ W < -2 ^ 30 := by
      by_cases h39 : n < 39
      · have hp30 : (2 : Int) ^ (38 - n) * 2 ^ (n - 8) = 2 ^ 30 := by
          rw [← pow_add]; congr 1; omega
        have hnf := hnot h39
        by_cases hge : 2 ^ (38 - n) ≤ I40 v
        · left
          have := mul_le_mul_of_nonneg_right hge (le_of_lt hP)
          rw [hp30] at this; exact this
        · right
          have hl : I40 v < -2 ^ (38 - n) := by
            by_contra hh; exact hnf ⟨by omega, by omega⟩
          have := mul_lt_mul_of_pos_right hl hP
          rw [neg_mul, hp30] at this; exact this
      · have hn39 : n = 39 := by omega
        subst hn39
        simp only [show 39 - 39 = 0 from rfl, pow_zero] at hlo hhi
        have hm1 : I40 v = -1 := by omega
        right
        show I40 v * 2 ^ (39 - 8) < -2 ^ 30
        rw [hm1]; decide
    refine ⟨hnorm, ?_⟩
    -- bits 31 and 30 of the result pattern
    have hwf : AccWF R := by
      unfold AccWF
      show signExtend 40 (signExtend 40 _) = signExtend 40 _
      unfold signExtend
      congr 1
      apply BitVec.eq_of_toNat_eq
      rw [BitVec.toNat_setWidth, BitVec.toNat_signExtend, BitVec.toNat_setWidth]
      have := ((shiftCore v (exp v) 0).value.setWidth 40).isLt
      simp only [BitVec.toNat_setWidth] at this ⊢
      split <;> omega
    have hcases := wf_toNat_cases R hwf
    rw [hR] at hcases
    have hRlt := R.isLt
    have b31 : R.getLsbD 31 = decide (R.toNat / 2 ^ 31 % 2 = 1) := by
      unfold BitVec.getLsbD
      rw [Nat.testBit, Nat.one_and_eq_mod_two, Nat.shiftRight_eq_div_pow, Bool.eq_iff_iff]
      simp only [bne_iff_ne, decide_eq_true_eq]; omega
    have b30 : R.getLsbD 30 = decide (R.toNat / 2 ^ 30 % 2 = 1) := by
      unfold BitVec.getLsbD
      rw [Nat.testBit, Nat.one_and_eq_mod_two, Nat.shiftRight_eq_div_pow, Bool.eq_iff_iff]
      simp only [bne_iff_ne, decide_eq_true_eq]; omega
    rw [b31, b30]
    intro heq
    rw [decide_eq_decide] at heq
    rcases hcases with ⟨c1, c2⟩ | ⟨c1, c2⟩ <;> rcases hnorm with hh | hh <;> omega
  · intro hv0
    show I40 v * 2 ^ (n - 8) = 0
    rw [hv0]; simp

end Teakra.Alu

namespace Teakra.Interp
open Teakra Exec ExecLemmas Alu

/-! ## `ShiftBus40` end to end -/

/-- The 40-bit shifted value `ShiftBus40` computes before flags and saturation, as a well-formed
accumulator pattern (`Proofs/C04.lean` and `shl_arith_value` say which number it is). -/
def shifted (s : U16) (value : U64) (sv : U16) : U64 :=
  signExtend 40 (shiftCore (value &&& mask40) sv s).value

/-- Carry, and in arithmetic mode overflow with its latch, as the shifter core reports them. -/
def withShiftFlags (r : Regs) (o : ShiftOut) : Regs :=
  match o.fv with
  | some fv => { r with fc0 := o.fc0, fv := fv, fvl := if fv != 0 then 1 else r.fvl }
  | none => { r with fc0 := o.fc0 }

/-- `regs.flm = 1` -/
def withFlm1 (r : Regs) : Regs := { r with flm := 1 }

/-- What `ShiftBus40(value, sv, dest)` leaves in the register file (`k` is the destination
accumulator): carry, overflow and its latch (arithmetic mode only), the four value flags of the
shifted 40-bit value, then the write with saturation by the ORIGINAL sign. -/
def shiftRegs (r : Regs) (k : Bool × Fin 2) (value : U64) (sv : U16) : Regs :=
  let o := shiftCore (value &&& mask40) sv r.s
  let S := shifted r.s value sv
  let r3 := withAccFlags (withShiftFlags r o) S
  if r.s == 0 && r.sata == 0 then
    if (withShiftFlags r o).fv != 0 || signExtend 32 S != S then
      setAccOf (withFlm1 r3) k
        (if (value &&& mask40) >>> 39 == 1 then (0xFFFFFFFF80000000 : U64) else 0x7FFFFFFF)
    else setAccOf r3 k S
  else setAccOf r3 k S

/-- **`ShiftBus40` as a pure function of the old state.**  The handler helper touches nothing but
the register file, and the new register file is `shiftRegs`. -/
theorem shiftBus40_run (value : U64) (sv : U16) (dest : RegName) (k : Bool × Fin 2)
    (h : accIndex dest = some k) (c : Core) :
    (shiftBus40 value sv dest).run c = .ok ((), withRegs c (shiftRegs c.regs k value sv)) := by
  unfold shiftBus40 shiftRegs shifted withRegs withAccFlags withShiftFlags withFlm1
  simp only [run_bind, run_getRegs, except_ok_bind, run_modifyRegs]
  cases hfv : (shiftCore (value &&& mask40) sv c.regs.s).fv with
  | none =>
    simp only [except_ok_bind, run_setAccFlag, run_getRegs, run_bind]
    by_cases hc : (c.regs.s == 0 && c.regs.sata == 0) = true
    · by_cases hs : (c.regs.fv != 0 || signExtend 32 (signExtend 40 (shiftCore (value &&& mask40) sv c.regs.s).value)
          != signExtend 40 (shiftCore (value &&& mask40) sv c.regs.s).value) = true
      · simp only [hc, hs, if_true, run_bind, run_modifyRegs, except_ok_bind, run_pure, run_setAcc _ k h]
      · simp only [hc, hs, if_true, if_false, Bool.false_eq_true, run_bind, run_pure, except_ok_bind, run_setAcc _ k h]
    · simp only [hc, if_false, Bool.false_eq_true, run_bind, run_pure, except_ok_bind, run_setAcc _ k h]
  | some fv =>
    simp only [run_modifyRegs, except_ok_bind, run_setAccFlag, run_getRegs, run_bind]
    by_cases hc : (c.regs.s == 0 && c.regs.sata == 0) = true
    · by_cases hs : (fv != 0 || signExtend 32 (signExtend 40 (shiftCore (value &&& mask40) sv c.regs.s).value)
          != signExtend 40 (shiftCore (value &&& mask40) sv c.regs.s).value) = true
      · simp only [hc, hs, if_true, run_bind, run_modifyRegs, except_ok_bind, run_pure, run_setAcc _ k h]
      · simp only [hc, hs, if_true, if_false, Bool.false_eq_true, run_bind, run_pure, except_ok_bind, run_setAcc _ k h]
    · simp only [hc, if_false, Bool.false_eq_true, run_bind, run_pure, except_ok_bind, run_setAcc _ k h]

/-! ### what the fields of `shiftRegs` are -/

private theorem mask40_idem (v : U64) : (v &&& mask40) &&& mask40 = v &&& mask40 := by
  rw [BitVec.and_assoc, BitVec.and_self]

/-- The shifter core only looks at the low 40 bits (the caller's pre-masking is redundant). -/
theorem shiftCore_mask (value : U64) (sv s : U16) :
    shiftCore (value &&& mask40) sv s = shiftCore value sv s := by
  unfold shiftCore
  simp only [mask40_idem]

/-- The overflow flag the arithmetic shifter reports: a left shift by `n` that does not fit 40 bits;
right shifts report 0. -/
def shiftFv (value : U64) (sv : U16) : U16 :=
  if sv.toNat < 0x8000 then
    b2u (decide (I40 value * 2 ^ sv.toNat < -2 ^ 39 ∨ 2 ^ 39 ≤ I40 value * 2 ^ sv.toNat))
  else 0

theorem shiftCore_fv (value : U64) (sv s : U16) :
    (shiftCore value sv s).fv = if s = 0 then some (shiftFv value sv) else none := by
  unfold shiftFv
  by_cases h : sv.toNat < 0x8000
  · rw [shl_overflow value sv s h]; simp only [h, if_true]; rfl
  · rw [shr_overflow value sv s (by omega)]; simp only [h, if_false]

theorem shifted_eq (s : U16) (value : U64) (sv : U16) :
    shifted s value sv = signExtend 40 (shiftCore value sv s).value := by
  unfold shifted; rw [shiftCore_mask]

theorem shifted_wf (s : U16) (value : U64) (sv : U16) : AccWF (shifted s value sv) := by
  unfold AccWF shifted signExtend
  congr 1
  apply BitVec.eq_of_toNat_eq
  rw [BitVec.toNat_setWidth, BitVec.toNat_signExtend, BitVec.toNat_setWidth]
  have := ((shiftCore (value &&& mask40) sv s).value.setWidth 40).isLt
  simp only [BitVec.toNat_setWidth] at this ⊢
  split <;> omega

private theorem origSign_eq (value : U64) :
    ((value &&& mask40) >>> 39 == 1) = decide (I40 value < 0) := by
  have hx : value.toNat % 2 ^ 40 < 2 ^ 40 := Nat.mod_lt _ (by decide)
  have hm : (value &&& mask40).toNat = value.toNat % 2 ^ 40 := by
    have h : mask40.toNat = 2 ^ 40 - 1 := by decide
    rw [BitVec.toNat_and, h, Nat.and_two_pow_sub_one_eq_mod]
  have hI := Alu.I40_eq value
  have hb : ((value &&& mask40) >>> 39 == 1) = decide (((value &&& mask40) >>> 39).toNat = 1) := by
    by_cases he : (value &&& mask40) >>> 39 = 1
    · rw [he]; rfl
    · have hne : ((value &&& mask40) >>> 39).toNat ≠ 1 := fun hh => he (BitVec.eq_of_toNat_eq hh)
      have h1 : ((value &&& mask40) >>> 39 == 1) = false := by simpa using he
      rw [h1]; exact (decide_eq_false hne).symm
  rw [hb, BitVec.toNat_ushiftRight, hm, Nat.shiftRight_eq_div_pow, decide_eq_decide]
  by_cases hneg : 2 ^ 39 ≤ value.toNat % 2 ^ 40
  · simp only [hneg, if_true] at hI; omega
  · simp only [hneg, if_false] at hI; omega

private theorem saturate_snd (v : U64) : (saturate v).2 = (v != signExtend 32 v) := by
  unfold saturate
  cases hb : (v != signExtend 32 v) with
  | true => simp only [if_true]; split <;> rfl
  | false => simp only [Bool.false_eq_true, if_false]

private theorem notFit32_eq (v : U64) (h : AccWF v) :
    (signExtend 32 v != v) = decide (I40 v < -2 ^ 31 ∨ 2 ^ 31 ≤ I40 v) := by
  rw [← (saturate_spec v h).2.1, saturate_snd, bne_comm]

/-- The condition under which `ShiftBus40` saturates: arithmetic mode, saturation-on-write enabled,
and the shift overflowed 40 bits or its 40-bit result does not fit 32 bits. -/
def ShiftSaturates (r : Regs) (value : U64) (sv : U16) : Prop :=
  r.s = 0 ∧ r.sata = 0 ∧
    (shiftFv value sv ≠ 0 ∨ I40 (shifted r.s value sv) < -2 ^ 31 ∨ 2 ^ 31 ≤ I40 (shifted r.s value sv))

instance (r : Regs) (value : U64) (sv : U16) : Decidable (ShiftSaturates r value sv) := by
  unfold ShiftSaturates; exact inferInstance

/-- The carry / overflow part: carry always; overflow and its latch only in arithmetic mode. -/
theorem withShiftFlags_spec (r : Regs) (value : U64) (sv : U16) :
    let r2 := withShiftFlags r (shiftCore value sv r.s)
    r2.fc0 = (shiftCore value sv r.s).fc0 ∧
    (r.s = 0 → r2.fv = shiftFv value sv ∧ r2.fvl = if shiftFv value sv ≠ 0 then 1 else r.fvl) ∧
    (r.s ≠ 0 → r2.fv = r.fv ∧ r2.fvl = r.fvl) ∧ r2.flm = r.flm := by
  have hfv := shiftCore_fv value sv r.s
  by_cases hs : r.s = 0
  · rw [if_pos hs] at hfv
    have e : withShiftFlags r (shiftCore value sv r.s) =
        { r with fc0 := (shiftCore value sv r.s).fc0, fv := shiftFv value sv,
                 fvl := if shiftFv value sv != 0 then 1 else r.fvl } := by
      unfold withShiftFlags; simp only [hfv]
    rw [e]
    refine ⟨rfl, fun _ => ⟨rfl, ?_⟩, fun h => absurd hs h, rfl⟩
    show (if shiftFv value sv != 0 then (1 : U16) else r.fvl) = _
    by_cases h0 : shiftFv value sv = 0 <;> simp [h0]
  · rw [if_neg hs] at hfv
    have e : withShiftFlags r (shiftCore value sv r.s) = { r with fc0 := (shiftCore value sv r.s).fc0 } := by
      unfold withShiftFlags; simp only [hfv]
    rw [e]
    exact ⟨rfl, fun h => absurd h hs, fun _ => ⟨rfl, rfl⟩, rfl⟩

/-- `shiftRegs` in normal form: flags first, then one `if` for the saturation rule. -/
theorem shiftRegs_eq (r : Regs) (k : Bool × Fin 2) (value : U64) (sv : U16) :
    shiftRegs r k value sv =
      (let S := shifted r.s value sv
       let r3 := withAccFlags (withShiftFlags r (shiftCore value sv r.s)) S
       if ShiftSaturates r value sv then
         setAccOf (withFlm1 r3) k (if I40 value < 0 then (0xFFFFFFFF80000000 : U64) else 0x7FFFFFFF)
       else setAccOf r3 k S) := by
  have hfit := notFit32_eq (shifted r.s value sv) (shifted_wf r.s value sv)
  have hos := origSign_eq value
  obtain ⟨_, h1, _, _⟩ := withShiftFlags_spec r value sv
  unfold shiftRegs
  simp only [shiftCore_mask, hos, hfit, decide_eq_true_eq]
  by_cases hs : r.s = 0
  · have hs' : (r.s == 0) = true := by simpa using hs
    simp only [hs', Bool.true_and, (h1 hs).1]
    by_cases hsata : r.sata = 0
    · have hsata' : (r.sata == 0) = true := by simpa using hsata
      simp only [hsata', if_true]
      by_cases hcond : shiftFv value sv ≠ 0 ∨ I40 (shifted r.s value sv) < -2 ^ 31 ∨
          2 ^ 31 ≤ I40 (shifted r.s value sv)
      · have hb : (shiftFv value sv != 0 || decide (I40 (shifted r.s value sv) < -2 ^ 31 ∨
            2 ^ 31 ≤ I40 (shifted r.s value sv))) = true := by
          simpa using hcond
        have hS : ShiftSaturates r value sv := ⟨hs, hsata, hcond⟩
        rw [if_pos hb, if_pos hS]
      · have hb : ¬ (shiftFv value sv != 0 || decide (I40 (shifted r.s value sv) < -2 ^ 31 ∨
            2 ^ 31 ≤ I40 (shifted r.s value sv))) = true := by
          simpa using hcond
        have hS : ¬ ShiftSaturates r value sv := fun h => hcond h.2.2
        rw [if_neg hb, if_neg hS]
    · have hsata' : (r.sata == 0) = false := by simpa using hsata
      simp only [hsata', Bool.false_eq_true, if_false]
      have hS : ¬ ShiftSaturates r value sv := fun h => hsata h.2.1
      rw [if_neg hS]
  · have hs' : (r.s == 0) = false := by simpa using hs
    simp only [hs', Bool.false_and, Bool.false_eq_true, if_false]
    have hS : ¬ ShiftSaturates r value sv := fun h => hs h.1
    rw [if_neg hS]

/-- **`ShiftBus40`, field by field.**  With `S` the 40-bit shifted value (`Proofs/C04.lean`:
`shl_value`, `shr_arith_value`, `shr_logic_value`; `shl_arith_value` above):
* carry is the shifter core's carry — the last bit shifted out (`shl_carry`, `shr_*_carry`);
* in arithmetic mode (`s = 0`) overflow is raised exactly when a left shift loses significant bits
  and is latched into `fvl`; in logic mode `fv`/`fvl` are untouched;
* zero / minus / extension / normalized are the flags of `S`;
* when `s = 0 ∧ sata = 0` and (`fv ≠ 0` or `S` does not fit 32 bits) the destination receives
  `0x7FFFFFFF` or `0xFFFFFFFF80000000` according to the ORIGINAL operand's sign and `flm := 1`;
  otherwise `S` is stored unchanged and `flm` is untouched. -/
theorem shiftRegs_spec (r : Regs) (k : Bool × Fin 2) (value : U64) (sv : U16) :
    let r' := shiftRegs r k value sv
    let S := shifted r.s value sv
    r'.fc0 = (shiftCore value sv r.s).fc0 ∧
    (r.s = 0 → r'.fv = shiftFv value sv ∧ r'.fvl = if shiftFv value sv ≠ 0 then 1 else r.fvl) ∧
    (r.s ≠ 0 → r'.fv = r.fv ∧ r'.fvl = r.fvl) ∧
    r'.fz = b2u (decide (I40 S = 0)) ∧ r'.fm = b2u (decide (I40 S < 0)) ∧
    r'.fe = b2u (decide (I40 S < -2 ^ 31 ∨ 2 ^ 31 ≤ I40 S)) ∧
    r'.fn = b2u (decide (I40 S = 0) || (!decide (I40 S < -2 ^ 31 ∨ 2 ^ 31 ≤ I40 S) &&
                (S.getLsbD 31 != S.getLsbD 30))) ∧
    (ShiftSaturates r value sv →
      accOf r' k = (if I40 value < 0 then (0xFFFFFFFF80000000 : U64) else 0x7FFFFFFF) ∧ r'.flm = 1) ∧
    (¬ ShiftSaturates r value sv → accOf r' k = S ∧ r'.flm = r.flm) := by
  intro r' S
  have hwf : AccWF S := shifted_wf r.s value sv
  obtain ⟨hz, hm, he, hn⟩ := accFlags_spec S hwf
  obtain ⟨g1, g2, g3, g4⟩ := withShiftFlags_spec r value sv
  have heq : r' = _ := shiftRegs_eq r k value sv
  simp only [] at heq
  by_cases hsat : ShiftSaturates r value sv
  · rw [if_pos hsat] at heq
    obtain ⟨f1, f2, f3, f4, f5, f6, f7, f8⟩ := setAccOf_frame
      (withFlm1 (withAccFlags (withShiftFlags r (shiftCore value sv r.s)) (shifted r.s value sv))) k
      (if I40 value < 0 then (0xFFFFFFFF80000000 : U64) else 0x7FFFFFFF)
    rw [heq, f1, f2, f3, f4, f5, f6, f7, f8, accOf_setAccOf]
    exact ⟨g1, g2, g3, hz, hm, he, hn, fun _ => ⟨rfl, rfl⟩, fun h => absurd hsat h⟩
  · rw [if_neg hsat] at heq
    obtain ⟨f1, f2, f3, f4, f5, f6, f7, f8⟩ := setAccOf_frame
      (withAccFlags (withShiftFlags r (shiftCore value sv r.s)) (shifted r.s value sv)) k
      (shifted r.s value sv)
    rw [heq, f1, f2, f3, f4, f5, f6, f7, f8, accOf_setAccOf]
    exact ⟨g1, g2, g3, hz, hm, he, hn, fun h => absurd h hsat, fun _ => ⟨rfl, g4⟩⟩

/-- **Saturation keeps the ORIGINAL sign.**  When `ShiftBus40` saturates, the bound is chosen by the
sign of the operand before shifting (not by the sign of the shifted pattern): a non-negative
operand gives `0x7FFFFFFF`, a negative one `0xFFFFFFFF80000000`, and the limit flag is set. -/
theorem shiftBus40_sat_original_sign (value : U64) (sv : U16) (dest : RegName) (k : Bool × Fin 2)
    (h : accIndex dest = some k) (c : Core) (hsat : ShiftSaturates c.regs value sv) :
    ∃ c', (shiftBus40 value sv dest).run c = .ok ((), c') ∧
      accOf c'.regs k = (if I40 value < 0 then (0xFFFFFFFF80000000 : U64) else 0x7FFFFFFF) ∧
      I40 (accOf c'.regs k) = (if I40 value < 0 then -2 ^ 31 else 2 ^ 31 - 1) ∧
      c'.regs.flm = 1 := by
  refine ⟨_, shiftBus40_run value sv dest k h c, ?_⟩
  have hs := (shiftRegs_spec c.regs k value sv).2.2.2.2.2.2.2.1 hsat
  refine ⟨hs.1, ?_, hs.2⟩
  show I40 (accOf (shiftRegs c.regs k value sv) k) = _
  rw [hs.1]
  by_cases hneg : I40 value < 0
  · simp only [hneg, if_true]; decide
  · simp only [hneg, if_false]; decide

/-- In logic mode (`s ≠ 0`) there is never saturation and overflow is untouched. -/
theorem shiftBus40_logic_no_saturation (r : Regs) (k : Bool × Fin 2) (value : U64) (sv : U16)
    (hs : r.s ≠ 0) :
    accOf (shiftRegs r k value sv) k = shifted r.s value sv ∧
    (shiftRegs r k value sv).flm = r.flm ∧ (shiftRegs r k value sv).fv = r.fv ∧
    (shiftRegs r k value sv).fvl = r.fvl := by
  have h := shiftRegs_spec r k value sv
  simp only [] at h
  have hns : ¬ ShiftSaturates r value sv := fun hh => hs hh.1
  exact ⟨(h.2.2.2.2.2.2.2.2 hns).1, (h.2.2.2.2.2.2.2.2 hns).2, (h.2.2.1 hs).1, (h.2.2.1 hs).2⟩

/-! ### arithmetic mode in exact arithmetic -/

/-- The exact (unbounded) result of an arithmetic shift of the signed 40-bit operand: `v · 2ⁿ` for a
left shift by `n = sv`, `⌊v / 2ᵐ⌋` for a right shift by `m = 2¹⁶ − sv`. -/
def shiftExact (value : U64) (sv : U16) : Int :=
  if sv.toNat < 0x8000 then I40 value * 2 ^ sv.toNat else I40 value / 2 ^ (2 ^ 16 - sv.toNat)

private theorem I40_range (v : U64) : -2 ^ 39 ≤ I40 v ∧ I40 v < 2 ^ 39 := by
  have h := Alu.I40_eq v
  have hx : v.toNat % 2 ^ 40 < 2 ^ 40 := Nat.mod_lt _ (by decide)
  split at h <;> omega

private theorem signExtend40_toInt (x : U64) : (signExtend 40 x).toInt = I40 x := by
  unfold signExtend I40
  exact BitVec.toInt_signExtend_of_le (by decide)

private theorem shiftExact_sign (value : U64) (sv : U16) :
    (2 ^ 31 ≤ shiftExact value sv → ¬ I40 value < 0) ∧ (shiftExact value sv < -2 ^ 31 → I40 value < 0) := by
  unfold shiftExact
  split
  · have hP : (0 : Int) < 2 ^ sv.toNat := by positivity
    constructor
    · intro h hneg
      have := Int.mul_neg_of_neg_of_pos hneg hP
      omega
    · intro h
      by_contra hnn
      have := Int.mul_nonneg (by omega : 0 ≤ I40 value) (le_of_lt hP)
      omega
  · have hP : (0 : Int) < 2 ^ (2 ^ 16 - sv.toNat) := by positivity
    constructor
    · intro h hneg
      have := Int.ediv_neg_of_neg_of_pos hneg hP
      omega
    · intro h
      by_contra hnn
      have := Int.ediv_nonneg (by omega : 0 ≤ I40 value) (le_of_lt hP)
      omega

private theorem shr_exact_range (V P : Int) (hV : -2 ^ 39 ≤ V ∧ V < 2 ^ 39) (hP : 1 ≤ P) :
    -2 ^ 39 ≤ V / P ∧ V / P < 2 ^ 39 := by
  by_cases hneg : V < 0
  · have h1 : V / P < 0 := Int.ediv_neg_of_neg_of_pos hneg (by omega)
    have h2 : V ≤ V / P := by
      apply Int.le_ediv_of_mul_le (by omega)
      nlinarith
    omega
  · have h1 : 0 ≤ V / P := Int.ediv_nonneg (by omega) (by omega)
    have h2 : V / P ≤ V := Int.ediv_le_self _ (by omega)
    omega

/-- **Arithmetic shifts against exact arithmetic, saturation included.**  In arithmetic mode
(`s = 0`), with `E` the exact shifted number (`v · 2ⁿ` or `⌊v / 2ᵐ⌋`): the 40-bit shifted value is
`E` wrapped to 40 bits, overflow says `E` does not fit 40 bits, and — because the bound is chosen by
the original sign, which is the sign of `E` — with saturation enabled the destination receives
exactly `E` clamped to 32 bits, the limit flag being set exactly when `E` does not fit 32 bits. -/
theorem shiftRegs_arith_exact (r : Regs) (k : Bool × Fin 2) (value : U64) (sv : U16) (hs : r.s = 0) :
    let E := shiftExact value sv
    let r' := shiftRegs r k value sv
    I40 (shifted r.s value sv) = wrap40 E ∧
    r'.fv = b2u (decide (E < -2 ^ 39 ∨ 2 ^ 39 ≤ E)) ∧
    I40 (accOf r' k) = (if r.sata = 0 then max (-2 ^ 31) (min (2 ^ 31 - 1) E) else wrap40 E) ∧
    r'.flm = (if r.sata = 0 ∧ (E < -2 ^ 31 ∨ 2 ^ 31 ≤ E) then 1 else r.flm) := by
  intro E r'
  have hspec := shiftRegs_spec r k value sv
  simp only [] at hspec
  obtain ⟨_, hfv, _, _, _, _, _, hsat, hnsat⟩ := hspec
  have hVr := I40_range value
  have hsign := shiftExact_sign value sv
  -- the shifted value and the overflow flag in terms of `E`
  have hSE : I40 (shifted r.s value sv) = wrap40 E ∧
      shiftFv value sv = b2u (decide (E < -2 ^ 39 ∨ 2 ^ 39 ≤ E)) := by
    show _ = wrap40 (shiftExact value sv) ∧ _ = b2u (decide (shiftExact value sv < _ ∨ _ ≤ shiftExact value sv))
    unfold shiftExact shiftFv
    by_cases hl : sv.toNat < 0x8000
    · simp only [hl, if_true]
      exact ⟨by rw [shifted_eq, shl_arith_value value sv r.s hl], trivial⟩
    · simp only [hl, if_false]
      have hsv := sv.isLt
      have hP : (1 : Int) ≤ 2 ^ (2 ^ 16 - sv.toNat) := by
        have : (1 : Nat) ≤ 2 ^ (2 ^ 16 - sv.toNat) := Nat.one_le_two_pow
        exact_mod_cast this
      have hr := shr_exact_range (I40 value) _ hVr hP
      have hv : I40 (shifted r.s value sv) = I40 value / 2 ^ (2 ^ 16 - sv.toNat) := by
        rw [shifted_eq, hs, Alu.I40_signExtend40, ← signExtend40_toInt,
          shr_arith_value value sv (by omega)]
        rfl
      refine ⟨?_, ?_⟩
      · rw [hv, wrap40]; exact (Int.bmod_eq_of_le (by omega) (by omega)).symm
      · have : ¬ (I40 value / 2 ^ (2 ^ 16 - sv.toNat) < -2 ^ 39 ∨ 2 ^ 39 ≤ I40 value / 2 ^ (2 ^ 16 - sv.toNat)) := by
          omega
        simp only [this, decide_false]; rfl
  obtain ⟨hS, hF⟩ := hSE
  have hwrap : ¬ (E < -2 ^ 39 ∨ 2 ^ 39 ≤ E) → wrap40 E = E := by
    intro h; unfold wrap40; exact Int.bmod_eq_of_le (by omega) (by omega)
  have hwr : -2 ^ 39 ≤ wrap40 E ∧ wrap40 E < 2 ^ 39 := by
    unfold wrap40
    exact ⟨Int.le_bmod (by decide), Int.bmod_lt (by decide)⟩
  -- the saturation condition is "E does not fit 32 bits"
  have hcond : ShiftSaturates r value sv ↔ (r.sata = 0 ∧ (E < -2 ^ 31 ∨ 2 ^ 31 ≤ E)) := by
    unfold ShiftSaturates
    rw [hS, hF]
    by_cases h40 : E < -2 ^ 39 ∨ 2 ^ 39 ≤ E
    · have : b2u (decide (E < -2 ^ 39 ∨ 2 ^ 39 ≤ E)) ≠ 0 := by
        simp only [h40, decide_true]; decide
      constructor
      · intro h; exact ⟨h.2.1, by omega⟩
      · intro h; exact ⟨hs, h.1, Or.inl this⟩
    · have h0 : b2u (decide (E < -2 ^ 39 ∨ 2 ^ 39 ≤ E)) = 0 := by
        simp only [h40, decide_false]; rfl
      rw [hwrap h40, h0]
      constructor
      · intro h; exact ⟨h.2.1, by rcases h.2.2 with h | h; exact absurd rfl h; exact h⟩
      · intro h; exact ⟨hs, h.1, Or.inr h.2⟩
  refine ⟨hS, by rw [(hfv hs).1, hF], ?_, ?_⟩
  · by_cases hsa : ShiftSaturates r value sv
    · obtain ⟨ha, _⟩ := hsat hsa
      have hc := hcond.1 hsa
      show I40 (accOf (shiftRegs r k value sv) k) = _
      rw [ha, if_pos hc.1]
      rcases hc.2 with hlo | hhi
      · rw [if_pos (hsign.2 hlo)]
        have : I40 (0xFFFFFFFF80000000 : U64) = -2 ^ 31 := by decide
        rw [this]; omega
      · rw [if_neg (hsign.1 hhi)]
        have : I40 (0x7FFFFFFF : U64) = 2 ^ 31 - 1 := by decide
        rw [this]; omega
    · obtain ⟨ha, _⟩ := hnsat hsa
      show I40 (accOf (shiftRegs r k value sv) k) = _
      rw [ha, hS]
      by_cases hsata : r.sata = 0
      · rw [if_pos hsata]
        have hfit : ¬ (E < -2 ^ 31 ∨ 2 ^ 31 ≤ E) := fun h => hsa (hcond.2 ⟨hsata, h⟩)
        rw [hwrap (by omega)]; omega
      · rw [if_neg hsata]
  · by_cases hsa : ShiftSaturates r value sv
    · rw [(hsat hsa).2, if_pos (hcond.1 hsa)]
    · rw [(hnsat hsa).2, if_neg (fun h => hsa (hcond.2 h))]

/-! ## multiply–accumulate: accumulate the OLD product, then multiply -/

theorem run_productToBus40 (unit : Fin 2) (c : Core) :
    (productToBus40 unit).run c =
      .ok (Alu.productToBus40 c.regs.p[unit] c.regs.pe[unit] c.regs.ps[unit], c) := rfl

/-- Register file after `DoMultiplication(unit, xSign, ySign)`. -/
def mulRegs (r : Regs) (unit : Fin 2) (xSign ySign : Bool) : Regs :=
  { r with p := r.p.set unit (multiply r.x[unit] r.y[unit] r.hwm unit.val xSign ySign).1,
           pe := r.pe.set unit (multiply r.x[unit] r.y[unit] r.hwm unit.val xSign ySign).2 }

theorem run_doMultiplication (unit : Fin 2) (xSign ySign : Bool) (c : Core) :
    (doMultiplication unit xSign ySign).run c = .ok ((), withRegs c (mulRegs c.regs unit xSign ySign)) := rfl

/-- The forms that add the previous product to the accumulator first. -/
def macAccumulates : MulOp → Bool
  | .mpy | .mpysu => false
  | _ => true

/-- `maa` / `maasu` add the product aligned 16 bits down (`>> 16`, sign-extended). -/
def macAligned : MulOp → Bool
  | .maa | .maasu => true
  | _ => false

/-- Sign selection of the `x` and `y` factor per form. -/
def macXSign : MulOp → Bool
  | .mpy | .mac | .maa | .macus => true
  | _ => false
def macYSign : MulOp → Bool
  | .macus | .macuu => false
  | _ => true

/-- The product register of `unit` as `ProductToBus40` reads it. -/
def pBus (r : Regs) (unit : Fin 2) : U64 := Alu.productToBus40 r.p[unit] r.pe[unit] r.ps[unit]

/-- `>> 16` with sign extension from 24 bits, when selected. -/
def alignP (al : Bool) (v : U64) : U64 := if al then signExtend 24 (v >>> 16) else v

/-- Register file after `MulGeneric(op, a)`. -/
def macRegs (r : Regs) (k : Bool × Fin 2) (op : MulOp) : Regs :=
  mulRegs (if macAccumulates op then
             addSubWrite r k (accOf r k) (alignP (macAligned op) (pBus r 0)) false
           else r) 0 (macXSign op) (macYSign op)

/-- **Multiply–accumulate order.**  `MulGeneric` first (for the accumulate forms) adds the product
register as it was BEFORE this instruction to the accumulator — `AddSub` + saturating write — and
only then launches the new multiplication of `x0`, `y0`; `mpy` / `mpysu` skip the accumulate step. -/
theorem mac_order (op : MulOp) (a : RegName) (k : Bool × Fin 2) (h : accIndex a = some k) (c : Core) :
    (Exec.mulGeneric op a).run c = .ok ((), withRegs c (macRegs c.regs k op)) := by
  cases op <;>
    (unfold Exec.mulGeneric macRegs addSubWrite withAddSubFlags pBus alignP
     simp only [run_bind, run_ite, run_getAcc _ k h, run_productToBus40, run_addSub,
       run_satAndSetAccAndFlag _ k h, run_doMultiplication, except_ok_bind, macAccumulates, macAligned,
       macXSign, macYSign]
     rfl)

/-- `SatAndSetAccAndFlag` leaves the multiplier registers alone. -/
theorem satSetRegs_mulframe (r : Regs) (k : Bool × Fin 2) (v : U64) :
    (satSetRegs r k v).x = r.x ∧ (satSetRegs r k v).y = r.y ∧ (satSetRegs r k v).hwm = r.hwm ∧
    (satSetRegs r k v).p = r.p ∧ (satSetRegs r k v).pe = r.pe ∧ (satSetRegs r k v).ps = r.ps ∧
    (satSetRegs r k v).sv = r.sv := by
  unfold satSetRegs setAccOf
  obtain ⟨isB, i⟩ := k
  cases isB <;> simp only [] <;> (repeat' split) <;> exact ⟨rfl, rfl, rfl, rfl, rfl, rfl, rfl⟩

theorem accOf_mulRegs (r : Regs) (unit : Fin 2) (xs ys : Bool) (k : Bool × Fin 2) :
    accOf (mulRegs r unit xs ys) k = accOf r k := by
  obtain ⟨isB, i⟩ := k; cases isB <;> rfl

/-- **The new product is exact** (`mul_exact` at register level): after `DoMultiplication` the
product register of the unit holds the exact 33-bit product of that unit's factors. -/
theorem mulRegs_product (r : Regs) (unit : Fin 2) (xs ys : Bool) :
    I33 (mulRegs r unit xs ys).p[unit] (mulRegs r unit xs ys).pe[unit] =
      factorX xs r.x[unit] * factorY ys r.y[unit] r.hwm unit.val := by
  unfold mulRegs
  simp only [Fin.getElem_fin, Vector.getElem_set_self]
  exact mul_exact _ _ _ _ _ _

/-- A 64-bit pattern whose two's-complement value fits 40 bits has that value as its 40-bit value. -/
theorem I40_of_toInt (w : U64) (h : -2 ^ 39 ≤ w.toInt ∧ w.toInt < 2 ^ 39) : I40 w = w.toInt := by
  have h1 := I40_cases w
  have hlt := w.isLt
  rw [BitVec.toInt_eq_toNat_cond] at h ⊢
  split at h1 <;> split at h <;> split <;> omega

/-- `SignExtend<24>(v >> 16)` is the arithmetic shift of the 40-bit value: `⌊v / 2¹⁶⌋`. -/
theorem I40_align16 (v : U64) : I40 (signExtend 24 (v >>> 16)) = I40 v / 2 ^ 16 := by
  have hs := signExtend_toInt 24 (v >>> 16) (by decide) (by decide)
  rw [BitVec.toNat_ushiftRight, Nat.shiftRight_eq_div_pow] at hs
  have h1 := I40_cases v
  have hlt := v.isLt
  have hr : -2 ^ 39 ≤ (signExtend 24 (v >>> 16)).toInt ∧ (signExtend 24 (v >>> 16)).toInt < 2 ^ 39 := by
    rw [hs]; split <;> omega
  rw [I40_of_toInt _ hr, hs]
  split at h1 <;> split <;> omega

/-- With a 2-bit product-shift selector the product on the bus fits 35 bits. -/
theorem productToBus40_range (p : U32) (pe ps : U16) (hps : ps.toNat < 4) :
    -2 ^ 34 ≤ (Alu.productToBus40 p pe ps).toInt ∧ (Alu.productToBus40 p pe ps).toInt < 2 ^ 34 := by
  have hps' : ps = 0 ∨ ps = 1 ∨ ps = 2 ∨ ps = 3 := by
    have : ps.toNat = 0 ∨ ps.toNat = 1 ∨ ps.toNat = 2 ∨ ps.toNat = 3 := by omega
    rcases this with h | h | h | h
    · left; exact BitVec.eq_of_toNat_eq (by simpa using h)
    · right; left; exact BitVec.eq_of_toNat_eq (by simpa using h)
    · right; right; left; exact BitVec.eq_of_toNat_eq (by simpa using h)
    · right; right; right; exact BitVec.eq_of_toNat_eq (by simpa using h)
  unfold Alu.productToBus40
  simp only []
  generalize ((p.setWidth 64 : U64) ||| ((pe.setWidth 64 : U64) <<< 32)) = V
  rcases hps' with h | h | h | h <;> subst h
  · simp only [beq_self_eq_true, if_true]
    rw [signExtend_toInt 33 V (by decide) (by decide)]; split <;> omega
  · simp only [show ((1 : U16) == 0) = false from by decide, Bool.false_eq_true, if_false,
      beq_self_eq_true, if_true]
    rw [signExtend_toInt 32 _ (by decide) (by decide)]; split <;> omega
  · simp only [show ((2 : U16) == 0) = false from by decide, show ((2 : U16) == 1) = false from by decide,
      Bool.false_eq_true, if_false, beq_self_eq_true, if_true]
    rw [signExtend_toInt 34 _ (by decide) (by decide)]; split <;> omega
  · simp only [show ((3 : U16) == 0) = false from by decide, show ((3 : U16) == 1) = false from by decide,
      show ((3 : U16) == 2) = false from by decide, Bool.false_eq_true, if_false, beq_self_eq_true, if_true]
    rw [signExtend_toInt 35 _ (by decide) (by decide)]; split <;> omega

/-- The value a product register contributes: `ProductToBus40` (the 33-bit product under the
selected product shift — `productToBus40_spec`) as a number. -/
def P40 (r : Regs) (unit : Fin 2) : Int := (pBus r unit).toInt

/-- The 40-bit value of a (possibly aligned) product operand. -/
theorem I40_alignP (r : Regs) (unit : Fin 2) (al : Bool) (hps : r.ps[unit].toNat < 4) :
    I40 (alignP al (pBus r unit)) = if al then P40 r unit / 2 ^ 16 else P40 r unit := by
  have hr := productToBus40_range r.p[unit] r.pe[unit] r.ps[unit] hps
  have hI : I40 (pBus r unit) = P40 r unit := I40_of_toInt _ ⟨by unfold pBus; omega, by unfold pBus; omega⟩
  unfold alignP
  cases al
  · simp only [Bool.false_eq_true, if_false]; exact hI
  · simp only [if_true]; rw [I40_align16, hI]

/-- **Multiply–accumulate, in numbers.**  With `P` the OLD product register `p0` as
`ProductToBus40` reads it (for `maa` / `maasu` aligned: `⌊P / 2¹⁶⌋`):
* afterwards `p0 : pe0` hold the exact new product of `x0`, `y0` under the form's sign selection;
* for the accumulate forms (`mac`, `macus`, `macuu`, `macsu`, `maa`, `maasu`) the accumulator
  receives `old_acc + P` wrapped to 40 bits (clamped to 32 bits and `flm` set when saturation-on-write
  is enabled and it does not fit), with carry / overflow (latched) / zero / minus / extension of that
  addition — all computed from the product BEFORE the new multiplication;
* for `mpy` / `mpysu` nothing but `p0 : pe0` changes. -/
theorem mac_order_spec (r : Regs) (k : Bool × Fin 2) (op : MulOp) (hps : r.ps[(0 : Fin 2)].toNat < 4) :
    let r' := macRegs r k op
    I33 r'.p[(0 : Fin 2)] r'.pe[(0 : Fin 2)] =
      factorX (macXSign op) r.x[(0 : Fin 2)] * factorY (macYSign op) r.y[(0 : Fin 2)] r.hwm 0 ∧
    (macAccumulates op = true →
      let P : Int := if macAligned op then P40 r 0 / 2 ^ 16 else P40 r 0
      let exact : Int := I40 (accOf r k) + P
      I40 (accOf r' k) = (if r.sata = 0 then max (-2 ^ 31) (min (2 ^ 31 - 1) (wrap40 exact)) else wrap40 exact) ∧
      r'.fc0 = b2u (decide (2 ^ 40 ≤ U40 (accOf r k) + U40 (alignP (macAligned op) (pBus r 0)))) ∧
      r'.fv = b2u (decide (exact < -2 ^ 39 ∨ 2 ^ 39 ≤ exact)) ∧
      r'.fvl = (if exact < -2 ^ 39 ∨ 2 ^ 39 ≤ exact then 1 else r.fvl) ∧
      r'.fz = b2u (decide (wrap40 exact = 0)) ∧ r'.fm = b2u (decide (wrap40 exact < 0)) ∧
      r'.fe = b2u (decide (wrap40 exact < -2 ^ 31 ∨ 2 ^ 31 ≤ wrap40 exact)) ∧
      r'.flm = (if r.sata = 0 ∧ (wrap40 exact < -2 ^ 31 ∨ 2 ^ 31 ≤ wrap40 exact) then 1 else r.flm)) ∧
    (macAccumulates op = false →
      r' = mulRegs r 0 (macXSign op) (macYSign op) ∧ ∀ k', accOf r' k' = accOf r k') := by
  intro r'
  refine ⟨?_, ?_, ?_⟩
  · show I33 (macRegs r k op).p[(0 : Fin 2)] (macRegs r k op).pe[(0 : Fin 2)] = _
    unfold macRegs
    rw [mulRegs_product]
    by_cases hacc : macAccumulates op = true
    · rw [if_pos hacc]
      obtain ⟨f1, f2, f3, _⟩ := satSetRegs_mulframe
        (withAddSubFlags r (Alu.addSub (accOf r k) (alignP (macAligned op) (pBus r 0)) false)) k
        (Alu.addSub (accOf r k) (alignP (macAligned op) (pBus r 0)) false).result
      unfold addSubWrite
      rw [f1, f2, f3]; rfl
    · rw [if_neg hacc]; rfl
  · intro hacc P exact
    have hsp := addSubWrite_spec r k (accOf r k) (alignP (macAligned op) (pBus r 0)) false exact (by
      show exact = I40 (accOf r k) + I40 (alignP (macAligned op) (pBus r 0))
      rw [I40_alignP r 0 (macAligned op) hps])
    simp only [Bool.false_eq_true, if_false] at hsp
    have e : r' = mulRegs (addSubWrite r k (accOf r k) (alignP (macAligned op) (pBus r 0)) false) 0
        (macXSign op) (macYSign op) := by
      show macRegs r k op = _
      unfold macRegs; rw [if_pos hacc]
    rw [e, accOf_mulRegs]
    exact hsp
  · intro hacc
    have hacc' : ¬ macAccumulates op = true := by rw [hacc]; simp
    have e : r' = mulRegs r 0 (macXSign op) (macYSign op) := by
      show macRegs r k op = _
      unfold macRegs; rw [if_neg hacc']
    exact ⟨e, fun k' => by rw [e, accOf_mulRegs]⟩

/-! ## `ProductSum` -/

/-- The base operand of `ProductSum`: zero, the accumulator itself, `sv << 16` (sign-extended from
32 bits), or `sv << 16` with the rounding constant. -/
def sumBaseValue (r : Regs) (k : Bool × Fin 2) : SumBase → U64
  | .zero => 0
  | .acc => accOf r k
  | .sv => signExtend 32 ((r.sv.setWidth 64 : U64) <<< 16)
  | .svRnd => signExtend 32 ((r.sv.setWidth 64 : U64) <<< 16) ||| 0x8000

/-- The carry / overflow merge at the end of `ProductSum`: OR when both products have the same
add/sub direction, XOR otherwise (the latch `fvl` is not part of the merge). -/
def mergeFlags (r : Regs) (same : Bool) (tempC tempV : U16) : Regs :=
  if same then { r with fc0 := r.fc0 ||| tempC, fv := r.fv ||| tempV }
  else { r with fc0 := r.fc0 ^^^ tempC, fv := r.fv ^^^ tempV }

/-- Register file after `ProductSum(base, acc, sub_p0, p0_align, sub_p1, p1_align)`. -/
def productSumRegs (r : Regs) (k : Bool × Fin 2) (base : SumBase) (subP0 p0Align subP1 p1Align : Bool) : Regs :=
  let A := alignP p0Align (pBus r 0)
  let B := alignP p1Align (pBus r 1)
  let C := sumBaseValue r k base
  let o1 := Alu.addSub C A subP0
  let o2 := Alu.addSub o1.result B subP1
  satSetRegs (mergeFlags (withAddSubFlags (withAddSubFlags r o1) o2) (subP0 == subP1) o1.fc0 o1.fv) k o2.result

theorem productSum_run (base : SumBase) (acc : RegName) (k : Bool × Fin 2) (h : accIndex acc = some k)
    (subP0 p0Align subP1 p1Align : Bool) (c : Core) :
    (Exec.productSum base acc subP0 p0Align subP1 p1Align).run c =
      .ok ((), withRegs c (productSumRegs c.regs k base subP0 p0Align subP1 p1Align)) := by
  unfold Exec.productSum productSumRegs mergeFlags withAddSubFlags pBus alignP sumBaseValue withRegs
  cases base <;>
    (simp only [run_bind, run_pure, run_productToBus40, run_getAcc _ k h, run_getRegs, run_addSub,
       except_ok_bind, run_ite, run_modifyRegs, run_satAndSetAccAndFlag _ k h]
     by_cases hsame : (subP0 == subP1) = true
     · simp only [hsame, if_true]
     · simp only [hsame, Bool.false_eq_true, if_false])

private theorem b2u_or (x y : Bool) : b2u x ||| b2u y = b2u (x || y) := by
  cases x <;> cases y <;> decide

private theorem b2u_xor (x y : Bool) : b2u x ^^^ b2u y = b2u (x ^^ y) := by
  cases x <;> cases y <;> decide

private theorem b2u_ne_zero (x : Bool) : (b2u x != 0) = x := by cases x <;> decide

/-- The 40-bit pattern of an `AddSub` result. -/
theorem addSub_result_U40 (a b : U64) (sub : Bool) :
    U40 (Alu.addSub a b sub).result =
      if sub then (U40 a + 2 ^ 40 - U40 b) % 2 ^ 40 else (U40 a + U40 b) % 2 ^ 40 := by
  rw [addSub_result]
  unfold U40
  have ha := a.isLt; have hb := b.isLt
  cases sub
  · simp only [Bool.false_eq_true, if_false]
    rw [BitVec.toNat_signExtend]
    have hl := (a.setWidth 40 + b.setWidth 40).isLt
    simp only [BitVec.toNat_add, BitVec.toNat_setWidth] at hl ⊢
    split <;> omega
  · simp only [if_true]
    rw [BitVec.toNat_signExtend]
    have hl := (a.setWidth 40 - b.setWidth 40).isLt
    simp only [BitVec.toNat_sub, BitVec.toNat_setWidth] at hl ⊢
    split <;> omega

private theorem mergeFlags_frame (r : Regs) (same : Bool) (tc tv : U16) :
    (mergeFlags r same tc tv).sata = r.sata ∧ (mergeFlags r same tc tv).flm = r.flm ∧
    (mergeFlags r same tc tv).fvl = r.fvl ∧
    (mergeFlags r same tc tv).fc0 = (if same then r.fc0 ||| tc else r.fc0 ^^^ tc) ∧
    (mergeFlags r same tc tv).fv = (if same then r.fv ||| tv else r.fv ^^^ tv) := by
  unfold mergeFlags; cases same <;> exact ⟨rfl, rfl, rfl, rfl, rfl⟩

private theorem productSum_core (r : Regs) (k : Bool × Fin 2) (s0 s1 : Bool) (Cp A B : U64) :
    I40 (accOf (satSetRegs (mergeFlags (withAddSubFlags (withAddSubFlags r (Alu.addSub Cp A s0))
            (Alu.addSub (Alu.addSub Cp A s0).result B s1)) (s0 == s1) (Alu.addSub Cp A s0).fc0
            (Alu.addSub Cp A s0).fv) k (Alu.addSub (Alu.addSub Cp A s0).result B s1).result) k) =
      (if r.sata = 0 then
         max (-2 ^ 31) (min (2 ^ 31 - 1) (wrap40 (if s1 then (if s0 then I40 Cp - I40 A else I40 Cp + I40 A) - I40 B
              else (if s0 then I40 Cp - I40 A else I40 Cp + I40 A) + I40 B)))
       else wrap40 (if s1 then (if s0 then I40 Cp - I40 A else I40 Cp + I40 A) - I40 B
              else (if s0 then I40 Cp - I40 A else I40 Cp + I40 A) + I40 B)) ∧
    (satSetRegs (mergeFlags (withAddSubFlags (withAddSubFlags r (Alu.addSub Cp A s0))
            (Alu.addSub (Alu.addSub Cp A s0).result B s1)) (s0 == s1) (Alu.addSub Cp A s0).fc0
            (Alu.addSub Cp A s0).fv) k (Alu.addSub (Alu.addSub Cp A s0).result B s1).result).fc0 =
      b2u (if s0 == s1 then
             ((if s0 then decide (U40 Cp < U40 A) else decide (2 ^ 40 ≤ U40 Cp + U40 A)) ||
              (if s1 then decide ((if s0 then (U40 Cp + 2 ^ 40 - U40 A) % 2 ^ 40 else (U40 Cp + U40 A) % 2 ^ 40) < U40 B)
               else decide (2 ^ 40 ≤ (if s0 then (U40 Cp + 2 ^ 40 - U40 A) % 2 ^ 40 else (U40 Cp + U40 A) % 2 ^ 40) + U40 B)))
           else
             ((if s0 then decide (U40 Cp < U40 A) else decide (2 ^ 40 ≤ U40 Cp + U40 A)) ^^
              (if s1 then decide ((if s0 then (U40 Cp + 2 ^ 40 - U40 A) % 2 ^ 40 else (U40 Cp + U40 A) % 2 ^ 40) < U40 B)
               else decide (2 ^ 40 ≤ (if s0 then (U40 Cp + 2 ^ 40 - U40 A) % 2 ^ 40 else (U40 Cp + U40 A) % 2 ^ 40) + U40 B)))) ∧
    (satSetRegs (mergeFlags (withAddSubFlags (withAddSubFlags r (Alu.addSub Cp A s0))
            (Alu.addSub (Alu.addSub Cp A s0).result B s1)) (s0 == s1) (Alu.addSub Cp A s0).fc0
            (Alu.addSub Cp A s0).fv) k (Alu.addSub (Alu.addSub Cp A s0).result B s1).result).fv =
      b2u (if s0 == s1 then
             (decide ((if s0 then I40 Cp - I40 A else I40 Cp + I40 A) < -2 ^ 39 ∨
                      2 ^ 39 ≤ (if s0 then I40 Cp - I40 A else I40 Cp + I40 A)) ||
              decide ((if s1 then wrap40 (if s0 then I40 Cp - I40 A else I40 Cp + I40 A) - I40 B
                         else wrap40 (if s0 then I40 Cp - I40 A else I40 Cp + I40 A) + I40 B) < -2 ^ 39 ∨
                      2 ^ 39 ≤ (if s1 then wrap40 (if s0 then I40 Cp - I40 A else I40 Cp + I40 A) - I40 B
                         else wrap40 (if s0 then I40 Cp - I40 A else I40 Cp + I40 A) + I40 B)))
           else
             (decide ((if s0 then I40 Cp - I40 A else I40 Cp + I40 A) < -2 ^ 39 ∨
                      2 ^ 39 ≤ (if s0 then I40 Cp - I40 A else I40 Cp + I40 A)) ^^
              decide ((if s1 then wrap40 (if s0 then I40 Cp - I40 A else I40 Cp + I40 A) - I40 B
                         else wrap40 (if s0 then I40 Cp - I40 A else I40 Cp + I40 A) + I40 B) < -2 ^ 39 ∨
                      2 ^ 39 ≤ (if s1 then wrap40 (if s0 then I40 Cp - I40 A else I40 Cp + I40 A) - I40 B
                         else wrap40 (if s0 then I40 Cp - I40 A else I40 Cp + I40 A) + I40 B)))) ∧
    (satSetRegs (mergeFlags (withAddSubFlags (withAddSubFlags r (Alu.addSub Cp A s0))
            (Alu.addSub (Alu.addSub Cp A s0).result B s1)) (s0 == s1) (Alu.addSub Cp A s0).fc0
            (Alu.addSub Cp A s0).fv) k (Alu.addSub (Alu.addSub Cp A s0).result B s1).result).fvl =
      (if ((if s0 then I40 Cp - I40 A else I40 Cp + I40 A) < -2 ^ 39 ∨
             2 ^ 39 ≤ (if s0 then I40 Cp - I40 A else I40 Cp + I40 A)) ∨
          ((if s1 then wrap40 (if s0 then I40 Cp - I40 A else I40 Cp + I40 A) - I40 B
                else wrap40 (if s0 then I40 Cp - I40 A else I40 Cp + I40 A) + I40 B) < -2 ^ 39 ∨
             2 ^ 39 ≤ (if s1 then wrap40 (if s0 then I40 Cp - I40 A else I40 Cp + I40 A) - I40 B
                else wrap40 (if s0 then I40 Cp - I40 A else I40 Cp + I40 A) + I40 B))
       then 1 else r.fvl) := by
  have hv1 := addSub_value Cp A s0
  have hc1 := addSub_carry Cp A s0
  have ho1 := addSub_overflow Cp A s0
  have hu1 := addSub_result_U40 Cp A s0
  have hv2 := addSub_value (Alu.addSub Cp A s0).result B s1
  have hc2 := addSub_carry (Alu.addSub Cp A s0).result B s1
  have ho2 := addSub_overflow (Alu.addSub Cp A s0).result B s1
  have hwf2 := addSub_wf (Alu.addSub Cp A s0).result B s1
  simp only [] at ho1 ho2
  rw [hv1] at hv2 ho2
  rw [hu1] at hc2
  generalize ho1d : Alu.addSub Cp A s0 = o1 at *
  generalize ho2d : Alu.addSub o1.result B s1 = o2 at *
  obtain ⟨m1, m2, m3, m4, m5⟩ := mergeFlags_frame (withAddSubFlags (withAddSubFlags r o1) o2) (s0 == s1) o1.fc0 o1.fv
  have hs := satSetRegs_spec (mergeFlags (withAddSubFlags (withAddSubFlags r o1) o2) (s0 == s1) o1.fc0 o1.fv) k
    o2.result hwf2
  have frame := satSetRegs_frame (mergeFlags (withAddSubFlags (withAddSubFlags r o1) o2) (s0 == s1) o1.fc0 o1.fv) k
    o2.result
  simp only [] at hs
  obtain ⟨h1, _⟩ := hs
  rw [m1, hv2] at h1
  have hsata : (withAddSubFlags (withAddSubFlags r o1) o2).sata = r.sata := rfl
  rw [hsata] at h1
  -- the exact three-operand sum and the two-step sum agree modulo 2^40
  have htot : wrap40 (if s1 = true then wrap40 (if s0 = true then I40 Cp - I40 A else I40 Cp + I40 A) - I40 B
        else wrap40 (if s0 = true then I40 Cp - I40 A else I40 Cp + I40 A) + I40 B) =
      wrap40 (if s1 = true then (if s0 = true then I40 Cp - I40 A else I40 Cp + I40 A) - I40 B
        else (if s0 = true then I40 Cp - I40 A else I40 Cp + I40 A) + I40 B) := by
    unfold wrap40
    cases s1
    · simp only [Bool.false_eq_true, if_false]; exact Int.bmod_add_bmod
    · simp only [if_true]; exact Int.bmod_sub_bmod
  rw [htot] at h1
  refine ⟨h1, ?_, ?_, ?_⟩
  · rw [frame.1, m4]
    show (if (s0 == s1) = true then o2.fc0 ||| o1.fc0 else o2.fc0 ^^^ o1.fc0) = _
    rw [hc1, hc2]
    by_cases hsame : (s0 == s1) = true
    · simp only [hsame, if_true]; rw [b2u_or, Bool.or_comm]
    · simp only [hsame, Bool.false_eq_true, if_false]; rw [b2u_xor, Bool.xor_comm]
  · rw [frame.2.1, m5]
    show (if (s0 == s1) = true then o2.fv ||| o1.fv else o2.fv ^^^ o1.fv) = _
    rw [ho1, ho2]
    by_cases hsame : (s0 == s1) = true
    · simp only [hsame, if_true]; rw [b2u_or, Bool.or_comm]
    · simp only [hsame, Bool.false_eq_true, if_false]; rw [b2u_xor, Bool.xor_comm]
  · rw [frame.2.2, m3]
    show (if o2.fv != 0 then (1 : U16) else (if o1.fv != 0 then 1 else r.fvl)) = _
    rw [ho1, ho2, b2u_ne_zero, b2u_ne_zero]
    by_cases hx1 : ((if s0 = true then I40 Cp - I40 A else I40 Cp + I40 A) < -2 ^ 39 ∨
             2 ^ 39 ≤ (if s0 = true then I40 Cp - I40 A else I40 Cp + I40 A)) <;>
    by_cases hx2 : ((if s1 = true then wrap40 (if s0 = true then I40 Cp - I40 A else I40 Cp + I40 A) - I40 B
                else wrap40 (if s0 = true then I40 Cp - I40 A else I40 Cp + I40 A) + I40 B) < -2 ^ 39 ∨
             2 ^ 39 ≤ (if s1 = true then wrap40 (if s0 = true then I40 Cp - I40 A else I40 Cp + I40 A) - I40 B
                else wrap40 (if s0 = true then I40 Cp - I40 A else I40 Cp + I40 A) + I40 B)) <;>
    simp only [hx1, hx2, decide_true, decide_false, if_true, if_false, Bool.false_eq_true, or_self, or_true,
      or_false]

private theorem productSum_core2 (r : Regs) (k : Bool × Fin 2) (s0 s1 : Bool) (Cp A B : U64) :
    (satSetRegs (mergeFlags (withAddSubFlags (withAddSubFlags r (Alu.addSub Cp A s0))
            (Alu.addSub (Alu.addSub Cp A s0).result B s1)) (s0 == s1) (Alu.addSub Cp A s0).fc0
            (Alu.addSub Cp A s0).fv) k (Alu.addSub (Alu.addSub Cp A s0).result B s1).result).fz =
      b2u (decide (wrap40 (if s1 then (if s0 then I40 Cp - I40 A else I40 Cp + I40 A) - I40 B
              else (if s0 then I40 Cp - I40 A else I40 Cp + I40 A) + I40 B) = 0)) ∧
    (satSetRegs (mergeFlags (withAddSubFlags (withAddSubFlags r (Alu.addSub Cp A s0))
            (Alu.addSub (Alu.addSub Cp A s0).result B s1)) (s0 == s1) (Alu.addSub Cp A s0).fc0
            (Alu.addSub Cp A s0).fv) k (Alu.addSub (Alu.addSub Cp A s0).result B s1).result).fm =
      b2u (decide (wrap40 (if s1 then (if s0 then I40 Cp - I40 A else I40 Cp + I40 A) - I40 B
              else (if s0 then I40 Cp - I40 A else I40 Cp + I40 A) + I40 B) < 0)) ∧
    (satSetRegs (mergeFlags (withAddSubFlags (withAddSubFlags r (Alu.addSub Cp A s0))
            (Alu.addSub (Alu.addSub Cp A s0).result B s1)) (s0 == s1) (Alu.addSub Cp A s0).fc0
            (Alu.addSub Cp A s0).fv) k (Alu.addSub (Alu.addSub Cp A s0).result B s1).result).fe =
      b2u (decide (wrap40 (if s1 then (if s0 then I40 Cp - I40 A else I40 Cp + I40 A) - I40 B
              else (if s0 then I40 Cp - I40 A else I40 Cp + I40 A) + I40 B) < -2 ^ 31 ∨
            2 ^ 31 ≤ wrap40 (if s1 then (if s0 then I40 Cp - I40 A else I40 Cp + I40 A) - I40 B
              else (if s0 then I40 Cp - I40 A else I40 Cp + I40 A) + I40 B))) ∧
    (satSetRegs (mergeFlags (withAddSubFlags (withAddSubFlags r (Alu.addSub Cp A s0))
            (Alu.addSub (Alu.addSub Cp A s0).result B s1)) (s0 == s1) (Alu.addSub Cp A s0).fc0
            (Alu.addSub Cp A s0).fv) k (Alu.addSub (Alu.addSub Cp A s0).result B s1).result).flm =
      (if r.sata = 0 ∧ (wrap40 (if s1 then (if s0 then I40 Cp - I40 A else I40 Cp + I40 A) - I40 B
              else (if s0 then I40 Cp - I40 A else I40 Cp + I40 A) + I40 B) < -2 ^ 31 ∨
            2 ^ 31 ≤ wrap40 (if s1 then (if s0 then I40 Cp - I40 A else I40 Cp + I40 A) - I40 B
              else (if s0 then I40 Cp - I40 A else I40 Cp + I40 A) + I40 B)) then 1 else r.flm) := by
  have hv1 := addSub_value Cp A s0
  have hv2 := addSub_value (Alu.addSub Cp A s0).result B s1
  have hwf2 := addSub_wf (Alu.addSub Cp A s0).result B s1
  rw [hv1] at hv2
  generalize ho1d : Alu.addSub Cp A s0 = o1 at *
  generalize ho2d : Alu.addSub o1.result B s1 = o2 at *
  obtain ⟨m1, m2, _, _, _⟩ := mergeFlags_frame (withAddSubFlags (withAddSubFlags r o1) o2) (s0 == s1) o1.fc0 o1.fv
  have hs := satSetRegs_spec (mergeFlags (withAddSubFlags (withAddSubFlags r o1) o2) (s0 == s1) o1.fc0 o1.fv) k
    o2.result hwf2
  simp only [] at hs
  obtain ⟨_, h2, h3, h4, h5⟩ := hs
  have htot : wrap40 (if s1 = true then wrap40 (if s0 = true then I40 Cp - I40 A else I40 Cp + I40 A) - I40 B
        else wrap40 (if s0 = true then I40 Cp - I40 A else I40 Cp + I40 A) + I40 B) =
      wrap40 (if s1 = true then (if s0 = true then I40 Cp - I40 A else I40 Cp + I40 A) - I40 B
        else (if s0 = true then I40 Cp - I40 A else I40 Cp + I40 A) + I40 B) := by
    unfold wrap40
    cases s1
    · simp only [Bool.false_eq_true, if_false]; exact Int.bmod_add_bmod
    · simp only [if_true]; exact Int.bmod_sub_bmod
  have hsata : (withAddSubFlags (withAddSubFlags r o1) o2).sata = r.sata := rfl
  have hflm : (withAddSubFlags (withAddSubFlags r o1) o2).flm = r.flm := rfl
  rw [hv2, htot] at h2 h3 h4 h5
  rw [m1, m2, hsata, hflm] at h5
  exact ⟨h2, h3, h4, h5⟩

/-- **`ProductSum`.**  With `C` the base operand (zero / the accumulator / `sv·2¹⁶` / `sv·2¹⁶ + 0x8000`),
`P0'`, `P1'` the two product registers as `ProductToBus40` reads them, optionally aligned
(`⌊P / 2¹⁶⌋`, i.e. `>> 16` sign-extended) — `I40_alignP`:
* the accumulator receives `C ± P0' ± P1'`, the exact integer sum wrapped to 40 bits (clamped to 32
  bits with `flm` set when saturation-on-write is enabled and it does not fit); zero / minus /
  extension are the flags of that wrapped sum;
* carry and overflow are the code's MERGE of the flags of the two successive 40-bit `AddSub`s
  (first `C ± P0'`, then `wrap40(C ± P0') ± P1'`): OR when both products go the same direction, XOR
  otherwise — this is what the code computes, not the carry / overflow of the three-operand sum;
* the overflow latch `fvl` is set when either `AddSub` overflowed (it is not part of the merge). -/
theorem productSum_spec (r : Regs) (k : Bool × Fin 2) (base : SumBase) (s0 al0 s1 al1 : Bool)
    (hps0 : r.ps[(0 : Fin 2)].toNat < 4) (hps1 : r.ps[(1 : Fin 2)].toNat < 4) :
    let A := alignP al0 (pBus r 0)
    let B := alignP al1 (pBus r 1)
    let Cp := sumBaseValue r k base
    let P0 : Int := if al0 then P40 r 0 / 2 ^ 16 else P40 r 0
    let P1 : Int := if al1 then P40 r 1 / 2 ^ 16 else P40 r 1
    let e1 : Int := if s0 then I40 Cp - P0 else I40 Cp + P0
    let e2 : Int := if s1 then wrap40 e1 - P1 else wrap40 e1 + P1
    let total : Int := if s1 then e1 - P1 else e1 + P1
    let u1 : Nat := if s0 then (U40 Cp + 2 ^ 40 - U40 A) % 2 ^ 40 else (U40 Cp + U40 A) % 2 ^ 40
    let c1 : Bool := if s0 then decide (U40 Cp < U40 A) else decide (2 ^ 40 ≤ U40 Cp + U40 A)
    let c2 : Bool := if s1 then decide (u1 < U40 B) else decide (2 ^ 40 ≤ u1 + U40 B)
    let v1 : Bool := decide (e1 < -2 ^ 39 ∨ 2 ^ 39 ≤ e1)
    let v2 : Bool := decide (e2 < -2 ^ 39 ∨ 2 ^ 39 ≤ e2)
    let r' := productSumRegs r k base s0 al0 s1 al1
    I40 A = P0 ∧ I40 B = P1 ∧
    I40 (accOf r' k) = (if r.sata = 0 then max (-2 ^ 31) (min (2 ^ 31 - 1) (wrap40 total)) else wrap40 total) ∧
    r'.fc0 = b2u (if s0 == s1 then c1 || c2 else c1 ^^ c2) ∧
    r'.fv = b2u (if s0 == s1 then v1 || v2 else v1 ^^ v2) ∧
    r'.fvl = (if (e1 < -2 ^ 39 ∨ 2 ^ 39 ≤ e1) ∨ (e2 < -2 ^ 39 ∨ 2 ^ 39 ≤ e2) then 1 else r.fvl) ∧
    r'.fz = b2u (decide (wrap40 total = 0)) ∧ r'.fm = b2u (decide (wrap40 total < 0)) ∧
    r'.fe = b2u (decide (wrap40 total < -2 ^ 31 ∨ 2 ^ 31 ≤ wrap40 total)) ∧
    r'.flm = (if r.sata = 0 ∧ (wrap40 total < -2 ^ 31 ∨ 2 ^ 31 ≤ wrap40 total) then 1 else r.flm) := by
  intro A B Cp P0 P1 e1 e2 total u1 c1 c2 v1 v2 r'
  have hA : I40 A = P0 := I40_alignP r 0 al0 hps0
  have hB : I40 B = P1 := I40_alignP r 1 al1 hps1
  obtain ⟨g1, g2, g3, g4⟩ := productSum_core r k s0 s1 Cp A B
  obtain ⟨g5, g6, g7, g8⟩ := productSum_core2 r k s0 s1 Cp A B
  rw [hA, hB] at g1 g3 g4 g5 g6 g7 g8
  exact ⟨hA, hB, g1, g2, g3, g4, g5, g6, g7, g8⟩

/-- The base operand of `ProductSum` as a number. -/
theorem sumBaseValue_spec (r : Regs) (k : Bool × Fin 2) (base : SumBase) :
    I40 (sumBaseValue r k base) =
      match base with
      | .zero => 0
      | .acc => I40 (accOf r k)
      | .sv => r.sv.toInt * 2 ^ 16
      | .svRnd => r.sv.toInt * 2 ^ 16 + 0x8000 := by
  have hlt := r.sv.isLt
  have hX : (signExtend 32 ((r.sv.setWidth 64 : U64) <<< 16)).toNat =
      r.sv.toNat * 65536 + if 2 ^ 15 ≤ r.sv.toNat then 2 ^ 64 - 2 ^ 32 else 0 := by
    rw [signExtend_toNat 32 _ (by decide) (by decide), BitVec.toNat_shiftLeft, BitVec.toNat_setWidth,
      Nat.shiftLeft_eq]
    have e : r.sv.toNat % 2 ^ 64 * 2 ^ 16 % 2 ^ 64 % 2 ^ 32 = r.sv.toNat * 65536 := by omega
    rw [e]
    split <;> split <;> omega
  have hsv : r.sv.toInt = if 2 ^ 15 ≤ r.sv.toNat then (r.sv.toNat : Int) - 2 ^ 16 else (r.sv.toNat : Int) := by
    rw [BitVec.toInt_eq_toNat_cond]; split <;> split <;> omega
  have hor : (signExtend 32 ((r.sv.setWidth 64 : U64) <<< 16) ||| 0x8000).toNat =
      (signExtend 32 ((r.sv.setWidth 64 : U64) <<< 16)).toNat + 0x8000 := by
    rw [BitVec.toNat_or]
    have hq : (signExtend 32 ((r.sv.setWidth 64 : U64) <<< 16)).toNat =
        2 ^ 16 * ((signExtend 32 ((r.sv.setWidth 64 : U64) <<< 16)).toNat / 2 ^ 16) := by
      rw [hX]; split <;> omega
    rw [hq]
    have h8 : (0x8000 : U64).toNat = 0x8000 := rfl
    rw [h8]
    exact (Nat.two_pow_add_eq_or_of_lt (by decide : 0x8000 < 2 ^ 16) _).symm
  have h1 := I40_cases (signExtend 32 ((r.sv.setWidth 64 : U64) <<< 16))
  have h2 := I40_cases (signExtend 32 ((r.sv.setWidth 64 : U64) <<< 16) ||| 0x8000)
  rw [hor] at h2
  rw [hX] at h1 h2
  cases base
  · show I40 (0 : U64) = 0; decide
  · rfl
  · show I40 (signExtend 32 ((r.sv.setWidth 64 : U64) <<< 16)) = r.sv.toInt * 2 ^ 16
    rw [h1, hsv]
    by_cases hneg : 2 ^ 15 ≤ r.sv.toNat
    · simp only [hneg, if_true]; split <;> omega
    · simp only [hneg, if_false]; split <;> omega
  · show I40 (signExtend 32 ((r.sv.setWidth 64 : U64) <<< 16) ||| 0x8000) = r.sv.toInt * 2 ^ 16 + 0x8000
    rw [h2, hsv]
    by_cases hneg : 2 ^ 15 ≤ r.sv.toNat
    · simp only [hneg, if_true]; split <;> omega
    · simp only [hneg, if_false]; split <;> omega

/-! ## the hypotheses are satisfiable, the effects are visible -/

/-- `Exp` on a few values: 0 and −1 have 39 redundant sign bits, 1 has 38, the largest positive
value none (the result is −8). -/
example : exp 0 = 31 ∧ exp 0xFFFFFFFFFF = 31 ∧ exp 1 = 30 ∧ exp 0x7FFFFFFFFF = 0xFFF8 ∧
    exp 0xFFFFFF8000000000 = 0xFFF8 := by decide

/-- The hypothesis of `exp_normalises` holds for a small value (26 redundant sign bits, shift 18). -/
example : ∃ n, IsRedundantSignCount (0x1234 : U64) n ∧ 8 ≤ n ∧ exp 0x1234 = 18 :=
  ⟨_, expLoop_count _, by decide, by decide⟩

/-- Saturation uses the ORIGINAL sign: `0x4000000000 << 1` has bit 39 set (a negative pattern) but
the operand was positive, so the destination gets `0x7FFFFFFF`; in logic mode nothing saturates. -/
example : ShiftSaturates { ({} : Regs) with sata := 0 } 0x4000000000 1 ∧
    accOf (shiftRegs { ({} : Regs) with sata := 0 } (false, 0) 0x4000000000 1) (false, 0) = 0x7FFFFFFF ∧
    (shiftRegs { ({} : Regs) with sata := 0 } (false, 0) 0x4000000000 1).flm = 1 ∧
    (shiftRegs { ({} : Regs) with sata := 0 } (false, 0) 0x4000000000 1).fv = 1 ∧
    accOf (shiftRegs { ({} : Regs) with sata := 0, s := 1 } (false, 0) 0x4000000000 1) (false, 0)
      = 0xFFFFFF8000000000 ∧
    ¬ ShiftSaturates { ({} : Regs) with sata := 0, s := 1 } 0x4000000000 1 := by decide

/-- An arithmetic right shift of a negative value that still does not fit 32 bits saturates low. -/
example : accOf (shiftRegs { ({} : Regs) with sata := 0 } (false, 0) 0xFFFFFF8000000000 0xFFFF) (false, 0)
      = 0xFFFFFFFF80000000 := by decide

/-- `mac`: the accumulator gets `100 + 7` (the OLD product), the product register the NEW product
`3 · 5`; `mpy` leaves the accumulator alone. -/
example :
    accOf (macRegs { ({} : Regs) with a := #v[100, 0], p := #v[7, 0], x := #v[3, 0], y := #v[5, 0] }
      (false, 0) .mac) (false, 0) = 107 ∧
    (macRegs { ({} : Regs) with a := #v[100, 0], p := #v[7, 0], x := #v[3, 0], y := #v[5, 0] }
      (false, 0) .mac).p[(0 : Fin 2)] = 15 ∧
    accOf (macRegs { ({} : Regs) with a := #v[100, 0], p := #v[7, 0], x := #v[3, 0], y := #v[5, 0] }
      (false, 0) .mpy) (false, 0) = 100 ∧
    accOf (macRegs { ({} : Regs) with a := #v[100, 0], p := #v[0x70000, 0], x := #v[3, 0], y := #v[0xFFFF, 0] }
      (false, 0) .maa) (false, 0) = 107 ∧
    (macRegs { ({} : Regs) with a := #v[100, 0], p := #v[0x70000, 0], x := #v[3, 0], y := #v[0xFFFF, 0] }
      (false, 0) .maa).p[(0 : Fin 2)] = 0xFFFFFFFD := by decide

/-- `ProductSum`: `acc + p0 − p1 = 100 + 7 − 9`, and a case where the merged carry differs from a
single `AddSub`'s. -/
example :
    accOf (productSumRegs { ({} : Regs) with a := #v[100, 0], p := #v[7, 9] } (false, 0) .acc
      false false true false) (false, 0) = 98 ∧
    (productSumRegs { ({} : Regs) with a := #v[100, 0], p := #v[7, 9] } (false, 0) .acc
      false false true false).fc0 = 0 ∧
    (productSumRegs { ({} : Regs) with a := #v[1, 0], p := #v[7, 9] } (false, 0) .acc
      true false true false).fc0 = 1 := by decide

end Teakra.Interp
