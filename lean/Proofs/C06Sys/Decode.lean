import TeakraModel.Run
/-!
# C06 (system part) — the decoder on the self-branch opcodes `0x57F0 + cond`
-/
namespace Teakra.Sys

/-- The pre-computed decoder array is the decoder. -/
theorem decoderArray_getD (w : Nat) (h : w < 0x10000) : decoderArray.getD w none = decodeInstr w := by
  unfold decoderArray
  have hs : w < ((Array.range 0x10000).map decodeInstr).size := by
    rw [Array.size_map, Array.size_range]; exact h
  rw [Array.getD_eq_getD_getElem?, Array.getElem?_eq_getElem hs, Array.getElem_map, Array.getElem_range]
  rfl

/-- What the interpreter uses of a decoded pattern. -/
def patView (p : InstrPat) : Nat × Bool × List (Nat × Nat) := (p.idx, p.expanded, p.fields)

theorem decode_brrSelf_fin : ∀ k : Fin 16,
    (decodeInstr (0x57F0 + k.val)).map patView = some (105, false, [(4, 7), (0, 4)]) := by
  decide +kernel

theorem and_fff0 (n : Nat) (h : n < 65536) (hm : n &&& 0xFFF0 = 0x57F0) : n = 0x57F0 + n % 16 := by
  have h1 : (n &&& 0xFFF0) >>> 4 = 0x57F := by rw [hm]; decide
  rw [Nat.shiftRight_and_distrib] at h1
  have h2 : (0xFFF0 : Nat) >>> 4 = 2 ^ 12 - 1 := by decide
  rw [h2, Nat.and_two_pow_sub_one_eq_mod, Nat.shiftRight_eq_div_pow] at h1
  omega

/-- A word `0x57F0 | cond` decodes to table entry 105 (`brr RelAddr7, Cond`), one word, with
operands `RelAddr7 = 0x7F` (−1) and `Cond = cond`. -/
theorem decode_brrSelf (w : Nat) (hw : w &&& 0xFFF0 = 0x57F0) (hlt : w < 0x10000) :
    ∃ p, decoderArray.getD w none = some p ∧ p.idx = 105 ∧ p.expanded = false ∧
      p.extract w 0 = [0x7F, w % 16] := by
  have hk := and_fff0 w hlt hw
  have hf := decode_brrSelf_fin ⟨w % 16, Nat.mod_lt _ (by omega)⟩
  simp only [] at hf
  rw [← hk] at hf
  rw [decoderArray_getD w hlt]
  cases hd : decodeInstr w with
  | none => rw [hd] at hf; cases hf
  | some p =>
    rw [hd] at hf
    simp only [Option.map_some, patView, Option.some.injEq, Prod.mk.injEq] at hf
    refine ⟨p, rfl, hf.1, hf.2.1, ?_⟩
    simp only [InstrPat.extract, hf.2.2, List.map_cons, List.map_nil]
    have e1 : (w >>> 4) % 2 ^ 7 = 0x7F := by rw [Nat.shiftRight_eq_div_pow]; omega
    simp [e1]

end Teakra.Sys
