import Proofs.C06Sys.Cycle
/-!
# C06 — the upstream witness: with the pinned `Run` the fast-forward skips over a pending interrupt latch
-/
namespace Teakra.Sys
open Teakra Exec ExecLemmas Interp

/-- A data write outside the MMIO window only changes the memory and the access log. -/
theorem dataWrite_plain (c : Core) (addr v : U16) (conv : U32)
    (h1 : c.bus.miu.inMmioWindow addr = false) (h2 : c.bus.miu.convert addr = .ok conv)
    (h3 : Mem.inRange conv = true) :
    (dataWrite addr v).run c = .ok ((), { c with
      bus := { c.bus with mem := c.bus.mem.write (Mem.byteAddr conv / 2) v },
      log := ⟨Mem.byteAddr conv, true, v⟩ :: c.log }) := by
  unfold dataWrite
  rw [run_bind, run_get, except_ok_bind]
  have hb : c.bus.dataWrite addr v false =
      .ok ({ c.bus with mem := c.bus.mem.write (Mem.byteAddr conv / 2) v }, [], [⟨Mem.byteAddr conv, true, v⟩]) := by
    unfold Bus.dataWrite
    simp only [h1, Bool.false_and, Bool.false_eq_true, if_false, h2, Mem.writeWord, h3, if_true]
  simp only [hb]
  rfl


theorem pushWord_plain (c : Core) (v : U16) (conv : U32)
    (h1 : c.bus.miu.inMmioWindow (c.regs.sp - 1) = false) (h2 : c.bus.miu.convert (c.regs.sp - 1) = .ok conv)
    (h3 : Mem.inRange conv = true) :
    (pushWord v).run c = .ok ((), { c with
      regs := { c.regs with sp := c.regs.sp - 1 },
      bus := { c.bus with mem := c.bus.mem.write (Mem.byteAddr conv / 2) v },
      log := ⟨Mem.byteAddr conv, true, v⟩ :: c.log }) := by
  unfold pushWord
  rw [run_bind, run_modifyRegs, except_ok_bind, run_bind, run_getRegs, except_ok_bind]
  exact dataWrite_plain _ _ v conv h1 h2 h3

/-- The state after `PushPC` with `cpc = 1`, `sp = 0` and the reset MIU configuration. -/
def pushedPC (c : Core) : Core :=
  { c with
    regs := { c.regs with sp := 0xFFFE },
    bus := { c.bus with
      mem := Mem.write (Mem.write c.bus.mem 0x2FFFF ((c.regs.pc >>> 16).setWidth 16)) 0x2FFFE
        ((c.regs.pc &&& 0xFFFF).setWidth 16) },
    log := ⟨0x5FFFC, true, (c.regs.pc &&& 0xFFFF).setWidth 16⟩ ::
      ⟨0x5FFFE, true, (c.regs.pc >>> 16).setWidth 16⟩ :: c.log }

theorem pushPC_plain (c : Core) (hcpc : c.regs.cpc = 1) (hsp : c.regs.sp = 0) (hmiu : c.bus.miu = {}) :
    pushPC.run c = .ok ((), pushedPC c) := by
  unfold pushPC
  rw [run_bind, run_getRegs, except_ok_bind, fst_mk, snd_mk, hcpc]
  simp -zeta only [beq_self_eq_true, if_true]
  rw [run_bind]
  rw [pushWord_plain c _ 0x2FFFF (by rw [hmiu, hsp]; decide) (by rw [hmiu, hsp]; decide) (by decide)]
  rw [except_ok_bind, snd_mk]
  rw [pushWord_plain _ _ 0x2FFFE (by simp only [hmiu, hsp]; decide) (by simp only [hmiu, hsp]; decide) (by decide)]
  simp only [hsp]
  rfl

theorem interrupt_enter0 (c : Core)
    (hg : (c.regs.ie != 0 && !c.regs.rep) = true)
    (h0 : (c.regs.im.toArray.getD 0 0 != 0 && c.regs.ip.toArray.getD 0 0 != 0) = true)
    (hic : (c.regs.ic.toArray.getD 0 0 != 0) = false) (hcpc : c.regs.cpc = 1) (hsp : c.regs.sp = 0)
    (hmiu : c.bus.miu = {}) :
    ∃ c', interruptCheck.run c = .ok ((), c') ∧ c'.idle = false ∧ c'.regs.pc = 6 ∧ c'.regs.ie = 0 := by
  unfold interruptCheck
  rw [run_bind, run_getRegs, except_ok_bind, fst_mk, snd_mk, hg]
  simp -zeta only [if_true]
  rw [run_bind, interruptCheck.scan, run_bind, run_getRegs, except_ok_bind, fst_mk, snd_mk, h0]
  simp -zeta only [if_true]
  rw [run_bind, run_modifyRegs, except_ok_bind, snd_mk]
  rw [run_bind, pushPC_plain]
  rotate_left
  · exact hcpc
  · exact hsp
  · exact hmiu
  rw [except_ok_bind, snd_mk, run_bind, run_modifyRegs, except_ok_bind, snd_mk, run_bind, run_modify,
    except_ok_bind, snd_mk, run_bind, run_getRegs, except_ok_bind, fst_mk, snd_mk]
  rw [run_have, if_neg, run_pure, except_ok_bind, fst_mk, snd_mk, run_bind, run_getRegs, except_ok_bind,
    fst_mk, snd_mk]
  rotate_left
  · show ¬ ((c.regs.ic.toArray.getD 0 0 != 0) = true)
    rw [hic]; decide
  simp -zeta only [Bool.not_true, Bool.false_and, Bool.false_eq_true, if_false, run_pure]
  exact ⟨_, rfl, rfl, rfl, rfl⟩

/-- The witness: reset registers with interrupts enabled (`ie = 1`, `im0 = 1`), the word `0x57F0`
(`brr -1`, condition `true`) at `pc = 0`, the core idle, and interrupt latch 0 pending. -/
def upstreamWitness : Core :=
  { regs := { ie := 1, im := #v[1, 0, 0] },
    bus := { mem := Mem.write {} 0 0x57F0 },
    ipend := #v[true, false, false],
    idle := true }

theorem upstreamWitness_read :
    upstreamWitness.bus.programRead (fetchAddress upstreamWitness.regs) = .ok (0x57F0, [⟨0, false, 0⟩]) := by
  have h : fetchAddress upstreamWitness.regs = 0 := by decide
  rw [h]
  unfold Bus.programRead Mem.readWord
  have h2 : Mem.inRange 0 = true := by decide
  rw [h2]
  simp [upstreamWitness, Mem.read, Mem.write, Mem.byteAddr]

theorem body_of_cycle (c c' : Core) (h : cycle.run c = .ok ((), c')) (hid : c'.idle = false) :
    body c = .ok { c' with log := c.log } := by
  have hi : idleOk { c' with log := c.log } = true := by
    unfold idleOk
    rw [show ({ c' with log := c.log } : Core).idle = c'.idle from rfl, hid]
    rfl
  unfold body
  rw [h]
  simp only []
  rw [hi]
  rfl

/-- On the witness the loop body does not idle: the pending latch becomes an interrupt entry
(`ie` cleared, `pc` at the vector of interrupt 0, `idle` cleared). -/
theorem upstream_body_enters_interrupt :
    ∃ c', body upstreamWitness = .ok c' ∧ c'.idle = false ∧ c'.regs.pc = 6 ∧ c'.regs.ie = 0 := by
  have hcyc := cycle_brr upstreamWitness 0x57F0 _ upstreamWitness_read (by decide) (by decide) (by decide)
    (by decide)
  obtain ⟨c', hic, hidle, hpc, hie⟩ := interrupt_enter0 (pre upstreamWitness [⟨0, false, 0⟩])
    (by decide) (by decide) (by decide) (by decide) (by decide) (by decide)
  rw [hic] at hcyc
  exact ⟨{ c' with log := upstreamWitness.log }, body_of_cycle _ _ hcyc hidle, hidle, hpc, hie⟩

/-- **The upstream defect (pinned tree, `fixed = false`).**  The fast-forward is taken although an
interrupt latch is pending, and the loop body it skips is *not* the identity on that state. -/
theorem upstream_skip_not_idle :
    (ops false).skipAllowed upstreamWitness = true ∧
    (ops false).body upstreamWitness ≠ .ok upstreamWitness := by
  refine ⟨by decide, ?_⟩
  obtain ⟨c', hb, hidle, _, _⟩ := upstream_body_enters_interrupt
  show body upstreamWitness ≠ _
  rw [hb]
  intro h
  injection h with h
  rw [h] at hidle
  exact absurd hidle (by decide)

/-- With the `fix:` commit the fast-forward is not taken on the witness. -/
theorem fixed_no_skip : (ops true).skipAllowed upstreamWitness = false := by decide


end Teakra.Sys
