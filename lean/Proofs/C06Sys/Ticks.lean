import Proofs.C15
import Proofs.C16
import Proofs.C06
import TeakraModel.Sys
import Proofs.Lemmas.Exec
/-!
# C06 (system part) — `k` bus ticks inside the horizon, componentwise
-/
namespace Teakra

/-! ## component facts missing from C15 / C16 -/

namespace Timer

theorem WF_tickCore' {t : Timer} (h : WF t) : WF (tickCore t).1 := by
  have := tickCore_cfg t; unfold WF at *; simp_all

theorem WF_of_tick {t : Timer} {r : Timer × Bool} (h : tick t = .ok r) : WF t ∧ r = tickCore t := by
  unfold tick at h
  split at h
  · rename_i hk
    injection h with h
    refine ⟨?_, h.symm⟩
    unfold tickOk at hk; unfold WF; simpa using hk
  · cases h

theorem WF_ticksCore (k : Nat) : ∀ t, WF t → WF (ticksCore k t).1 := by
  induction k with
  | zero => intro t h; exact h
  | succ k ih => intro t h; exact ih _ (WF_tickCore' h)

/-- `k + 1` ticks, peeling the last one. -/
theorem ticksCore_succ_last (k : Nat) : ∀ t : Timer,
    ticksCore (k + 1) t =
      ((tickCore (ticksCore k t).1).1, (ticksCore k t).2 + (tickCore (ticksCore k t).1).2.toNat) := by
  induction k with
  | zero => intro t; simp [ticksCore]
  | succ k ih =>
    intro t
    have h := ih (tickCore t).1
    rw [show ticksCore (k + 1 + 1) t =
      ((ticksCore (k + 1) (tickCore t).1).1, (ticksCore (k + 1) (tickCore t).1).2 + (tickCore t).2.toNat) from rfl, h]
    simp only [ticksCore, Prod.mk.injEq, true_and]
    omega

/-- Within the reported horizon the last of `k + 1` ticks raises no interrupt either. -/
theorem last_tick_quiet (t : Timer) (hw : WF t) (k : Nat) (hk : k + 1 ≤ maxSkip t) :
    (tickCore (ticksCore k t).1).2 = false := by
  have h := (skip_eq_ticks t hw (k + 1) hk).2.1
  rw [ticksCore_succ_last] at h
  simp only [Nat.add_eq_zero_iff] at h
  cases hb : (tickCore (ticksCore k t).1).2
  · rfl
  · rw [hb] at h; simp at h

end Timer

namespace Btdmp

theorem ticksCore_inv_clk' (k : Nat) : ∀ (b : Btdmp), Inv b → Clk b →
    Inv (ticksCore k b).1 ∧ Clk (ticksCore k b).1 := by
  induction k with
  | zero => intro b hi hc; exact ⟨hi, hc⟩
  | succ k ih => intro b hi hc; exact ih _ (inv_tick b hi) (clk_tick b hc)

/-- `k + 1` ticks, peeling the last one. -/
theorem ticksCore_succ_last (k : Nat) : ∀ b : Btdmp,
    ticksCore (k + 1) b =
      ((tick (ticksCore k b).1).1, (ticksCore k b).2.1 ++ (tick (ticksCore k b).1).2.1,
        (ticksCore k b).2.2 + (tick (ticksCore k b).1).2.2) := by
  induction k with
  | zero => intro b; simp [ticksCore]
  | succ k ih =>
    intro b
    have h := ih (tick b).1
    rw [show ticksCore (k + 1 + 1) b =
      ((ticksCore (k + 1) (tick b).1).1, (tick b).2.1 ++ (ticksCore (k + 1) (tick b).1).2.1,
        (tick b).2.2 + (ticksCore (k + 1) (tick b).1).2.2) from rfl, h]
    simp only [ticksCore, Prod.mk.injEq, true_and, List.append_assoc]
    omega

/-- With an empty queue a tick raises no interrupt and leaves the queue empty. -/
theorem tick_empty (b : Btdmp) (hq : b.queue = []) : (tick b).2.2 = 0 ∧ (tick b).1.queue = [] := by
  by_cases he : b.enable = 0
  · simp only [tick, he, if_true, hq, and_self]
  · by_cases hp : b.period ≤ b.timer + 1
    · simp only [tick, he, hp, if_false, if_true, tickFrame, tickSlot, hq, and_self, Nat.add_zero]
    · simp only [tick, he, hp, if_false, hq, and_self]

theorem ticks_empty (k : Nat) : ∀ b : Btdmp, b.queue = [] → (ticksCore k b).2.2 = 0 := by
  induction k with
  | zero => intro b _; rfl
  | succ k ih =>
    intro b hq
    have h := tick_empty b hq
    simp only [ticksCore, h.1, ih _ h.2]

/-- Within the reported horizon (of any size) ticks raise no interrupt. -/
theorem ticks_quiet (b : Btdmp) (hi : Inv b) (hc : Clk b) (k : Nat) (hk : k ≤ maxSkip b) :
    (ticksCore k b).2.2 = 0 := by
  by_cases he : b.enable = 0
  · rw [ticks_disabled k b he]
  · by_cases hq : b.queue = []
    · exact ticks_empty k b hq
    · exact (horizon_keeps_one b hi hc he hq k hk).1

theorem last_tick_quiet (b : Btdmp) (hi : Inv b) (hc : Clk b) (k : Nat) (hk : k + 1 ≤ maxSkip b) :
    (tick (ticksCore k b).1).2.2 = 0 := by
  have h := ticks_quiet b hi hc (k + 1) hk
  rw [ticksCore_succ_last] at h
  simp only [Nat.add_eq_zero_iff] at h
  exact h.2

end Btdmp

/-! ## one `CoreTiming::Tick` -/

theorem vec2_set {α : Type} (v : Vector α 2) (a b : α) : (v.set 0 a).set 1 b = #v[a, b] := by
  apply Vector.ext
  intro i hi
  match i, hi with
  | 0, _ => simp
  | 1, _ => simp

theorem vec2_set0_get1 {α : Type} (v : Vector α 2) (a : α) : (v.set 0 a)[1] = v[1] := by simp

namespace Periph

theorem raise_frame (p : Periph) (irq : Nat) : (p.raise irq).1 = { p with icu := (p.raise irq).1.icu } := rfl

theorem raiseN_frame (irq : Nat) (n : Nat) : ∀ p : Periph,
    (p.raiseN irq n).1 = { p with icu := (p.raiseN irq n).1.icu } := by
  induction n with
  | zero => intro p; rfl
  | succ n ih =>
    intro p
    show ((p.raise irq).1.raiseN irq n).1 = _
    rw [ih]
    rfl

theorem raiseIf_frame (p : Periph) (f : Bool) (irq : Nat) :
    (p.raiseIf f irq).1 = { p with icu := (p.raiseIf f irq).1.icu } := by
  cases f <;> rfl

end Periph

/-- One bus tick with the timers' `Tick` assertions met: the four clocked components advance, the
ICU takes the raised interrupts, nothing else changes. -/
theorem Bus.tick_spec (b : Bus) (hw0 : Timer.WF (b.per.timer[0])) (hw1 : Timer.WF (b.per.timer[1])) :
    ∃ icu evs, b.tick = .ok ({ b with per := { b.per with
        timer := #v[(Timer.tickCore (b.per.timer[0])).1, (Timer.tickCore (b.per.timer[1])).1],
        btdmp := #v[(Btdmp.tick (b.per.btdmp[0])).1, (Btdmp.tick (b.per.btdmp[1])).1],
        icu := icu } }, evs) := by
  unfold Bus.tick
  rw [Timer.tick_of_WF hw0]
  simp only []
  generalize hr0 : Periph.raiseIf _ _ _ = r0
  have e0 := Periph.raiseIf_frame _ _ _ ▸ congrArg Prod.fst hr0
  obtain ⟨p0, ev0⟩ := r0
  simp only [] at e0
  subst e0
  simp only [vec2_set0_get1, Timer.tick_of_WF hw1]
  generalize hr1 : Periph.raiseIf _ _ _ = r1
  have e1 := Periph.raiseIf_frame _ _ _ ▸ congrArg Prod.fst hr1
  obtain ⟨p1, ev1⟩ := r1
  simp only [] at e1
  subst e1
  simp only []
  generalize hr2 : Periph.raiseN _ _ _ = r2
  have e2 := Periph.raiseN_frame _ _ _ ▸ congrArg Prod.fst hr2
  obtain ⟨p2, ev2⟩ := r2
  simp only [] at e2
  subst e2
  simp only []
  generalize hr3 : Periph.raiseN _ _ _ = r3
  have e3 := Periph.raiseN_frame _ _ _ ▸ congrArg Prod.fst hr3
  obtain ⟨p3, ev3⟩ := r3
  simp only [] at e3
  subst e3
  simp only [vec2_set0_get1, vec2_set]
  exact ⟨_, _, rfl⟩

/-- A bus tick in which no component raises an interrupt: only the four clocked components change
and the only events are the audio frames of `btdmp[0]`. -/
theorem Bus.tick_quiet (b : Bus) (hw0 : Timer.WF (b.per.timer[0])) (hw1 : Timer.WF (b.per.timer[1]))
    (hf0 : (Timer.tickCore (b.per.timer[0])).2 = false) (hf1 : (Timer.tickCore (b.per.timer[1])).2 = false)
    (hi0 : (Btdmp.tick (b.per.btdmp[0])).2.2 = 0) (hi1 : (Btdmp.tick (b.per.btdmp[1])).2.2 = 0) :
    b.tick = .ok ({ b with per := { b.per with
        timer := #v[(Timer.tickCore (b.per.timer[0])).1, (Timer.tickCore (b.per.timer[1])).1],
        btdmp := #v[(Btdmp.tick (b.per.btdmp[0])).1, (Btdmp.tick (b.per.btdmp[1])).1] } },
      Bus.audioEvents (Btdmp.tick (b.per.btdmp[0])).2.1) := by
  unfold Bus.tick
  rw [Timer.tick_of_WF hw0]
  simp only [hf0, Periph.raiseIf, Bool.false_eq_true, if_false, vec2_set0_get1, Timer.tick_of_WF hw1, hf1,
    hi0, hi1, Periph.raiseN, vec2_set, List.nil_append, List.append_nil]

/-! ## events reaching the core -/

theorem Core.signal_frame (c : Core) (e : PEvent) :
    ∃ ip vp vc va, c.signal e = { c with ipend := ip, vpend := vp, vctx := vc, vaddr := va } := by
  cases e with
  | irq i =>
    by_cases h : i < 3
    · exact ⟨_, _, _, _, by simp only [Core.signal, h, dite_true]; rfl⟩
    · exact ⟨_, _, _, _, by simp only [Core.signal, h, dite_false]; rfl⟩
  | virq a x => exact ⟨_, _, _, _, rfl⟩
  | audio l r => exact ⟨_, _, _, _, rfl⟩
  | recvHandler ch => exact ⟨_, _, _, _, rfl⟩
  | semHandler => exact ⟨_, _, _, _, rfl⟩
  | ext e => exact ⟨_, _, _, _, rfl⟩

theorem Core.foldl_signal_frame (evs : List PEvent) : ∀ c : Core,
    ∃ ip vp vc va, evs.foldl Core.signal c = { c with ipend := ip, vpend := vp, vctx := vc, vaddr := va } := by
  induction evs with
  | nil => intro c; exact ⟨_, _, _, _, rfl⟩
  | cons e evs ih =>
    intro c
    obtain ⟨ip, vp, vc, va, h⟩ := Core.signal_frame c e
    obtain ⟨ip', vp', vc', va', h'⟩ := ih (c.signal e)
    rw [List.foldl_cons, h', h]
    exact ⟨_, _, _, _, rfl⟩

/-- Events only touch the latches and the event log. -/
theorem Core.emit_frame (c : Core) (evs : List PEvent) :
    ∃ ip vp vc va, c.emit evs =
      { c with events := evs.reverse ++ c.events, ipend := ip, vpend := vp, vctx := vc, vaddr := va } := by
  obtain ⟨ip, vp, vc, va, h⟩ := Core.foldl_signal_frame evs c
  unfold Core.emit
  simp only [h]
  exact ⟨_, _, _, _, rfl⟩

theorem Core.foldl_signal_audio (fs : List Frame) : ∀ c : Core,
    (Bus.audioEvents fs).foldl Core.signal c = c := by
  induction fs with
  | nil => intro c; rfl
  | cons f fs ih => intro c; exact ih c

/-- Audio frames are host callbacks: they are logged and change nothing else. -/
theorem Core.emit_audio (c : Core) (fs : List Frame) :
    c.emit (Bus.audioEvents fs) = { c with events := (Bus.audioEvents fs).reverse ++ c.events } := by
  unfold Core.emit
  simp only [Core.foldl_signal_audio]

namespace Sys

theorem tickAll_run (c : Core) : tickAll.run c =
    match c.bus.tick with
    | .ok (bus, evs) => .ok ((), ({ c with bus := bus } : Core).emit evs)
    | .error e => .error (.abort e) := by
  unfold tickAll
  rw [ExecLemmas.run_bind, ExecLemmas.run_get, ExecLemmas.except_ok_bind]
  show StateT.run (match c.bus.tick with
    | .ok (bus, evs) => set (({ c with bus := bus } : Core).emit evs)
    | .error e => Exec.abort e) c = _
  cases c.bus.tick with
  | error e => rfl
  | ok r => rfl

/-- What a successful `Sys.tick` did. -/
theorem tick_spec (c c' : Core) (h : tick c = .ok c') :
    periphOk c.bus = true ∧ ∃ b' evs, c.bus.tick = .ok (b', evs) ∧ c' = ({ c with bus := b' } : Core).emit evs := by
  unfold tick at h
  rw [tickAll_run] at h
  split at h
  · rename_i hp
    refine ⟨hp, ?_⟩
    cases hb : c.bus.tick with
    | error e => rw [hb] at h; cases h
    | ok r =>
      obtain ⟨b', evs⟩ := r
      rw [hb] at h
      injection h with h
      exact ⟨b', evs, rfl, h.symm⟩
  · cases h

theorem tick_of_bus (c : Core) (b' : Bus) (evs : List PEvent) (hp : periphOk c.bus = true)
    (hb : c.bus.tick = .ok (b', evs)) : tick c = .ok (({ c with bus := b' } : Core).emit evs) := by
  unfold tick
  rw [tickAll_run, hb, hp]
  rfl

/-! ## `k` ticks inside the horizon -/

theorem vec2_get0 {α : Type} (a b : α) : (#v[a, b] : Vector α 2)[0] = a := rfl
theorem vec2_get1 {α : Type} (a b : α) : (#v[a, b] : Vector α 2)[1] = b := rfl
theorem vec2_eta {α : Type} (v : Vector α 2) : #v[v[0], v[1]] = v := by
  apply Vector.ext
  intro i hi
  match i, hi with
  | 0, _ => rfl
  | 1, _ => rfl

/-- The bus after `k` quiet ticks: each clocked component advanced `k` times, nothing else. -/
def tickedBus (k : Nat) (b : Bus) : Bus :=
  { b with per := { b.per with
      timer := #v[(Timer.ticksCore k (b.per.timer[0])).1, (Timer.ticksCore k (b.per.timer[1])).1],
      btdmp := #v[(Btdmp.ticksCore k (b.per.btdmp[0])).1, (Btdmp.ticksCore k (b.per.btdmp[1])).1] } }

/-- The machine after `k` quiet ticks: the bus advanced, the audio frames of `btdmp[0]` logged (in
order; `events` is most recent first), registers, memory, latches and `idle` untouched. -/
def ticked (k : Nat) (c : Core) : Core :=
  { c with bus := tickedBus k c.bus,
           events := (Bus.audioEvents (Btdmp.ticksCore k (c.bus.per.btdmp[0])).2.1).reverse ++ c.events }

theorem ticked_zero (c : Core) : ticked 0 c = c := by
  unfold ticked tickedBus
  simp only [Timer.ticksCore, Btdmp.ticksCore, vec2_eta, Bus.audioEvents, List.map_nil, List.reverse_nil,
    List.nil_append]

/-- The part of the invariant the ticks need. -/
def BusOk (b : Bus) : Prop :=
  periphOk b = true ∧ Timer.WF (b.per.timer[0]) ∧ Timer.WF (b.per.timer[1])

theorem btdmpOk_iff (b : Btdmp) : btdmpOk b = true ↔ Btdmp.Inv b ∧ Btdmp.Clk b := by
  unfold btdmpOk; simp

theorem periphOk_iff (b : Bus) : periphOk b = true ↔
    (Btdmp.Inv (b.per.btdmp[0]) ∧ Btdmp.Clk (b.per.btdmp[0])) ∧
    (Btdmp.Inv (b.per.btdmp[1]) ∧ Btdmp.Clk (b.per.btdmp[1])) := by
  unfold periphOk; rw [Bool.and_eq_true, btdmpOk_iff, btdmpOk_iff]

theorem BusOk_tickedBus (k : Nat) (b : Bus) (h : BusOk b) : BusOk (tickedBus k b) := by
  obtain ⟨hp, hw0, hw1⟩ := h
  rw [periphOk_iff] at hp
  refine ⟨?_, Timer.WF_ticksCore k _ hw0, Timer.WF_ticksCore k _ hw1⟩
  rw [periphOk_iff]
  exact ⟨Btdmp.ticksCore_inv_clk' k _ hp.1.1 hp.1.2, Btdmp.ticksCore_inv_clk' k _ hp.2.1 hp.2.2⟩

theorem ticksN_succ_last {ε S : Type} (o : LoopOps ε S) (k : Nat) : ∀ s : S,
    o.ticksN (k + 1) s = o.ticksN k s >>= o.tick := by
  induction k with
  | zero =>
    intro s
    show (o.tick s >>= fun s' => Except.ok s') = o.tick s
    cases o.tick s <;> rfl
  | succ k ih =>
    intro s
    rw [show o.ticksN (k + 1 + 1) s = o.tick s >>= o.ticksN (k + 1) from rfl]
    cases h : o.tick s with
    | error e => simp only [LoopOps.ticksN, h]; rfl
    | ok s1 =>
      rw [show (Except.ok s1 >>= o.ticksN (k + 1)) = o.ticksN (k + 1) s1 from rfl, ih s1]
      simp only [LoopOps.ticksN, h]
      rfl

/-- **`k` ticks inside the horizon, componentwise.**  No component raises an interrupt, so the
latches, the registers, the memory and the `idle` flag are untouched. -/
theorem ticksN_quiet (fixed : Bool) (k : Nat) (c : Core) (hq : BusOk c.bus) (hk : k ≤ c.bus.maxSkip) :
    (ops fixed).ticksN k c = .ok (ticked k c) := by
  induction k with
  | zero => simp only [LoopOps.ticksN, ticked_zero]
  | succ k ih =>
    rw [ticksN_succ_last, ih (by omega)]
    show tick (ticked k c) = _
    have hq' := BusOk_tickedBus k c.bus hq
    obtain ⟨hp, hw0, hw1⟩ := hq
    rw [periphOk_iff] at hp
    unfold Bus.maxSkip at hk
    have hf0 := Timer.last_tick_quiet _ hw0 k (by omega)
    have hf1 := Timer.last_tick_quiet _ hw1 k (by omega)
    have hi0 := Btdmp.last_tick_quiet _ hp.1.1 hp.1.2 k (by omega)
    have hi1 := Btdmp.last_tick_quiet _ hp.2.1 hp.2.2 k (by omega)
    have hb := Bus.tick_quiet (tickedBus k c.bus) hq'.2.1 hq'.2.2 hf0 hf1 hi0 hi1
    rw [tick_of_bus (ticked k c) _ _ hq'.1 hb, Core.emit_audio]
    unfold ticked tickedBus
    simp only [vec2_get0, vec2_get1, Timer.ticksCore_succ_last, Btdmp.ticksCore_succ_last, Bus.audioEvents,
      List.map_append, List.reverse_append, List.append_assoc]

/-- `CoreTiming::Skip` of `k` cycles inside the horizon is `k` quiet ticks of the bus. -/
theorem bus_skip_eq (b : Bus) (hq : BusOk b) (k : Nat) (hk : k ≤ b.maxSkip) (hk63 : k < 2 ^ 63) :
    b.skip k = .ok (tickedBus k b, Bus.audioEvents (Btdmp.ticksCore k (b.per.btdmp[0])).2.1) := by
  obtain ⟨hp, hw0, hw1⟩ := hq
  rw [periphOk_iff] at hp
  unfold Bus.maxSkip at hk
  have ht0 := (Timer.skip_eq_ticks _ hw0 k (by omega)).1
  have ht1 := (Timer.skip_eq_ticks _ hw1 k (by omega)).1
  have hov : ∀ x : Btdmp, x.timer.toNat + k < 2 ^ 64 := fun x => by have := x.timer.isLt; omega
  have hb0 := (Btdmp.skip_eq_ticks _ hp.1.1 hp.1.2 k (by omega) (fun _ => hov _)).1
  have hb1 := (Btdmp.skip_eq_ticks _ hp.2.1 hp.2.2 k (by omega) (fun _ => hov _)).1
  unfold Bus.skip busTimerSkipFixed
  rw [ht0, ht1, hb0, hb1]
  simp only [vec2_set]
  rfl

/-- `core_timing.Skip(m)` of the machine is `min m horizon` quiet ticks. -/
theorem skip_eq_ticked (c : Core) (hq : BusOk c.bus) (m : Nat) (hm : m < 2 ^ 63) :
    skip c m = .ok (ticked (min m c.bus.maxSkip) c, min m c.bus.maxSkip) := by
  unfold skip Bus.coreSkip
  simp only []
  rw [bus_skip_eq c.bus hq _ (Nat.min_le_right _ _) (by omega)]
  simp only [Core.emit_audio]
  rfl

end Sys
end Teakra
