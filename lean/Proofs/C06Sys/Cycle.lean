import Proofs.C06Sys.Decode
import Proofs.Lemmas.Exec
import TeakraModel.Sys
/-!
# C06 (system part) — symbolic execution of the loop body `cycle` on a self-branch

`cycle_brr`: when the word at `pc` is `brr -1` whose condition holds, no `rep` is running and the
block-repeat bookkeeping does not fire, the loop body is: move the latches into `ip`/`ipv`, log
the fetch, set `idle`, run the interrupt block — for arbitrary latches and arbitrary incoming
`idle` flag.  `interruptCheck_noop`: the interrupt block does nothing when no interrupt is
deliverable.

Proof engineering notes.  The `do` block of `cycle` elaborates to nested join points
(`have __do_jp := …`); all rewriting is done with `simp -zeta` / `rw` so that they are only
inlined one at a time (`run_have`) after the branch they guard has been decided — full
zeta-reduction duplicates the continuation at every `if`.  The decoder lookup
`decoderArray.getD opcode none` is rewritten to `some p` (via `decode_brrSelf`) *before* the
`have dec := …` binding is inlined: the kernel must never have to evaluate the 65536-entry array.
-/
namespace Teakra.Sys
open Teakra Exec ExecLemmas Interp

/-- One iteration of the latch loop: `if interrupt_pending[i] then ip[i] := 1`. -/
def latch1 (ip : Vector Bool 3) (i : Nat) (r : Regs) : Regs :=
  if ip.toArray.getD i false = true then { r with ip := vset r.ip i 1 } else r

/-- The latch loop `for i in [0:3]` of the loop body. -/
theorem latch_run (ip : Vector Bool 3) (c : Core) :
    StateT.run (forIn (m := Exec) [:3] PUnit.unit fun i (_ : PUnit) =>
      if ip.toArray.getD i false = true then do
        modifyRegs fun r => { r with ip := vset r.ip i 1 }
        pure (ForInStep.yield PUnit.unit)
      else pure (ForInStep.yield PUnit.unit)) c =
    .ok (PUnit.unit, { c with regs := latch1 ip 2 (latch1 ip 1 (latch1 ip 0 c.regs)) }) := by
  rw [Std.Legacy.Range.forIn_eq_forIn_range']
  simp only [Std.Legacy.Range.size, Nat.sub_zero, Nat.add_one_sub_one, Nat.div_one, List.range', Nat.zero_add, Nat.reduceAdd]
  simp only [List.forIn_cons, List.forIn_nil]
  cases h0 : ip.toArray.getD 0 false <;> cases h1 : ip.toArray.getD 1 false <;> cases h2 : ip.toArray.getD 2 false
  all_goals simp only [latch1, h0, h1, h2, if_true, if_false, Bool.false_eq_true, run_bind, run_modifyRegs, run_pure, except_ok_bind]



/-- Inline the outermost join point / `let` of a `do` block (targeted zeta). -/
theorem run_have {α β : Type} (v : α) (f : α → Exec β) (c : Core) :
    StateT.run (have x := v; f x) c = StateT.run (f v) c := rfl


/-- The loop body after the latches have been moved into `ip` / `ipv`. -/
def mainPhase : Exec Unit := do
  -- fetch
  let opcode ← programRead (← fetchAddr)
  let dec := decoderArray.getD opcode.toNat none
  let expanded := match dec with | some p => p.expanded | none => false
  let expansion ← if expanded then programRead (← fetchAddr) else pure 0
  -- single-instruction repeat
  let r ← getRegs
  if r.rep then
    if r.repc == 0 then modifyRegs fun r => { r with rep := false }
    else modifyRegs fun r => { r with repc := r.repc - 1, pc := r.pc - 1 }
  -- block repeat
  let r ← getRegs
  if r.lp != 0 then
    let i := r.bcn.toNat - 1
    if r.bcn == 0 || i ≥ 4 then abort .oob   -- `bkrep_stack[bcn - 1]` outside the array
    let f := r.bkrep.toArray.getD i {}
    if f.end_ + 1 == r.pc then
      if f.lc == 0 then
        modifyRegs fun r => { r with bcn := r.bcn - 1, lp := Alu.b2u (r.bcn - 1 != 0) }
      else
        modifyRegs fun r =>
          { r with bkrep := (if h : i < 4 then r.bkrep.set i { f with lc := f.lc - 1 } else r.bkrep),
                   pc := f.start }
  -- execute
  match dec with
  | none => unreachable            -- `undefined(opcode)`
  | some p => dispatch p.idx (p.extract opcode.toNat expansion.toNat)
  interruptCheck

/-- The registers after both latch steps (`interrupt_pending`, `vinterrupt_pending`). -/
def latchAll (c : Core) : Regs :=
  if c.vpend = true then { latch1 c.ipend 2 (latch1 c.ipend 1 (latch1 c.ipend 0 c.regs)) with ipv := 1 }
  else latch1 c.ipend 2 (latch1 c.ipend 1 (latch1 c.ipend 0 c.regs))

/-- The state after the latch phase of the loop body. -/
def latched (c : Core) : Core :=
  { c with regs := latchAll c, ipend := Vector.replicate 3 false, vpend := false }

/-- The loop body is the latch phase followed by `mainPhase`. -/
theorem cycle_eq_main (c : Core) : cycle.run c = mainPhase.run (latched c) := by
  unfold cycle
  simp -zeta only [run_bind, run_get, except_ok_bind, latch_run, run_modify]
  cases hv : c.vpend
  · simp -zeta only [Bool.false_eq_true, if_false]
    rw [run_have]
    unfold mainPhase latched latchAll
    simp -zeta only [hv, Bool.false_eq_true, if_false]
    congr 1
  · simp -zeta only [if_true]
    rw [run_have]
    rw [run_bind, run_modifyRegs, except_ok_bind, run_bind, run_modify, except_ok_bind]
    unfold mainPhase latched latchAll
    simp -zeta only [hv, if_true]
    congr 1

/-- `pc++` -/
def bumpPc (r : Regs) : Regs := { r with pc := r.pc + 1 }

theorem bumpPc_rep (r : Regs) : (bumpPc r).rep = r.rep := rfl
theorem bumpPc_lp (r : Regs) : (bumpPc r).lp = r.lp := rfl
theorem bumpPc_bcn (r : Regs) : (bumpPc r).bcn = r.bcn := rfl
theorem bumpPc_bkrep (r : Regs) : (bumpPc r).bkrep = r.bkrep := rfl
theorem bumpPc_pc (r : Regs) : (bumpPc r).pc = r.pc + 1 := rfl

theorem fetchAddr_run (c : Core) :
    fetchAddr.run c = .ok (fetchAddress c.regs, { c with regs := bumpPc c.regs }) := rfl

theorem programRead_run (c : Core) (a : U32) (w : U16) (accs : List Access)
    (h : c.bus.programRead a = .ok (w, accs)) :
    (programRead a).run c = .ok (w, { c with log := accs.reverse ++ c.log }) := by
  unfold programRead
  simp only [run_bind, run_get, except_ok_bind, h]
  rfl

/-- `ConditionPass` as a function of the registers. -/
def condVal (cv : CondValue) (r : Regs) : Bool :=
  match cv with
  | .true_ => true
  | .eq => r.fz == 1
  | .neq => r.fz == 0
  | .gt => r.fz == 0 && r.fm == 0
  | .ge => r.fm == 0
  | .lt => r.fm == 1
  | .le => r.fm == 1 || r.fz == 1
  | .nn => r.fn == 0
  | .c => r.fc0 == 1
  | .v => r.fv == 1
  | .e => r.fe == 1
  | .l => r.flm == 1 || r.fvl == 1
  | .nr => r.fr == 0
  | .niu0 => r.iu[0] == 0
  | .iu0 => r.iu[0] == 1
  | .iu1 => r.iu[1] == 1

theorem conditionPass_run (cv : CondValue) (c : Core) :
    (conditionPass cv).run c = .ok (condVal cv c.regs, c) := rfl

theorem condHolds_eq (c : Core) (k : Nat) : condHolds c k = condVal (Cond.name k) c.regs := rfl

theorem dispatch_105 (o : List Nat) :
    dispatch 105 o = Exec.brr_RelAddr7_Cond (o.getD 0 0) (o.getD 1 0) := rfl


/-- What `loopClear` says about the block-repeat branch of the loop body. -/
theorem loopClear_spec (r : Regs) (h : loopClear r = true) :
    r.lp = 0 ∨ ((r.lp != 0) = true ∧ (r.bcn == 0 || decide (r.bcn.toNat - 1 ≥ 4)) = false ∧
      ((r.bkrep.toArray.getD (r.bcn.toNat - 1) {}).end_ + 1 == r.pc + 1) = false) := by
  by_cases hlp : r.lp = 0
  · exact .inl hlp
  · right
    unfold loopClear at h
    simp only [Bool.or_eq_true, beq_iff_eq, hlp, false_or, Bool.and_eq_true, bne_iff_ne, ne_eq,
      decide_eq_true_eq] at h
    obtain ⟨⟨hb, hi⟩, he⟩ := h
    refine ⟨by simpa using hlp, ?_, by simpa using he⟩
    simp only [Bool.or_eq_false_iff, beq_eq_false_iff_ne, ne_eq, hb, not_false_eq_true, decide_eq_false_iff_not, true_and]
    omega

theorem condVal_bumpPc (cv : CondValue) (r : Regs) : condVal cv (bumpPc r) = condVal cv r := by
  cases cv <;> rfl

theorem relAddr7_m1 : relAddr7 127 = 0xFFFFFFFF := by decide

/-- `pc + 1 + (−1) = pc`: the self-branch puts the program counter back. -/
theorem brr_back (r : Regs) : { bumpPc r with pc := (bumpPc r).pc + relAddr7 127 } = r := by
  have h : (bumpPc r).pc + relAddr7 127 = r.pc := by
    rw [bumpPc_pc, relAddr7_m1]; bv_omega
  rw [h]; cases r; rfl

theorem fst_mk {α β : Type} (a : α) (b : β) : (a, b).fst = a := rfl
theorem snd_mk {α β : Type} (a : α) (b : β) : (a, b).snd = b := rfl
/-- Execute `dispatch 105 [0x7F, cond]` (= `brr -1`) with a passing condition, then hand over to
the interrupt block: `pc` is back on the branch and `idle` is set. -/
theorem brr_step (c : Core) (w : U16) (accs : List Access) (p : InstrPat)
    (hcond : condVal (Cond.name (w.toNat % 16)) c.regs = true)
    (hidx : p.idx = 105) (hext : p.extract w.toNat 0 = [0x7F, w.toNat % 16]) :
    StateT.run
      (have __do_jp := fun (__r : Unit) => interruptCheck;
        do
        let __r ← dispatch p.idx (p.extract (BitVec.toNat w) (BitVec.toNat (0 : U16)))
        __do_jp __r)
      ({ c with regs := bumpPc c.regs, log := accs.reverse ++ c.log } : Core) =
      StateT.run interruptCheck { c with log := accs.reverse ++ c.log, idle := true } := by
  rw [run_have, run_bind, hidx, show BitVec.toNat (0 : U16) = 0 from rfl, hext, dispatch_105]
  simp -zeta only [List.getD_cons_zero, List.getD_cons_succ]
  unfold Exec.brr_RelAddr7_Cond
  rw [run_bind, conditionPass_run, except_ok_bind, fst_mk, snd_mk, condVal_bumpPc, hcond]
  simp -zeta only [if_true]
  rw [run_bind, run_modifyRegs, except_ok_bind, snd_mk]
  have hm1 : (relAddr7 127 == 4294967295) = true := by decide
  rw [hm1]
  simp -zeta only [if_true]
  rw [run_modify, except_ok_bind, snd_mk]
  simp only [brr_back]

/-- Fetch, decode, repeat / block-repeat bookkeeping and execution of a self-branch. -/
theorem mainPhase_brr (c : Core) (w : U16) (accs : List Access)
    (hread : c.bus.programRead (fetchAddress c.regs) = .ok (w, accs))
    (hw : w &&& 0xFFF0 = 0x57F0) (hcond : condVal (Cond.name (w.toNat % 16)) c.regs = true)
    (hrep : c.regs.rep = false) (hloop : loopClear c.regs = true) :
    mainPhase.run c = interruptCheck.run { c with log := accs.reverse ++ c.log, idle := true } := by
  have hwn : w.toNat &&& 0xFFF0 = 0x57F0 := by
    have := congrArg BitVec.toNat hw
    simpa using this
  obtain ⟨p, hdec, hidx, hexp, hext⟩ := decode_brrSelf w.toNat hwn w.isLt
  unfold mainPhase
  simp -zeta only [run_bind, fetchAddr_run, except_ok_bind]
  rw [programRead_run { c with regs := bumpPc c.regs } _ w accs hread]
  rw [except_ok_bind, fst_mk, snd_mk, hdec]
  rw [run_have, run_have]
  simp -zeta only [hexp, Bool.false_eq_true, if_false]
  simp -zeta only [run_bind, run_pure, except_ok_bind, run_getRegs, bumpPc_rep, hrep]
  simp -zeta only [Bool.false_eq_true, if_false]
  rw [run_have]
  simp -zeta only [run_bind, run_getRegs, except_ok_bind, bumpPc_lp, bumpPc_bcn, bumpPc_bkrep, bumpPc_pc]
  rw [run_have]
  have hstep := brr_step c w accs p hcond hidx hext
  rcases loopClear_spec c.regs hloop with hlp | ⟨hlp', h1, h2⟩
  · simp -zeta only [hlp, bne_self_eq_false, Bool.false_eq_true, if_false]
    exact hstep
  · simp -zeta only [hlp', if_true]
    rw [run_have, run_have]
    simp -zeta only [h1, Bool.false_eq_true, if_false]
    rw [run_have]
    simp -zeta only [h2, Bool.false_eq_true, if_false]
    exact hstep

/-! ## the interrupt block does nothing when no interrupt is deliverable -/

theorem scan_step_no (c : Core) (i fuel : Nat)
    (h : (c.regs.im.toArray.getD i 0 != 0 && c.regs.ip.toArray.getD i 0 != 0) = false) :
    (interruptCheck.scan i (fuel + 1)).run c = (interruptCheck.scan (i + 1) fuel).run c := by
  rw [interruptCheck.scan, run_bind, run_getRegs, except_ok_bind, fst_mk, snd_mk, h]
  simp -zeta only [Bool.false_eq_true, if_false]

theorem scan_zero (c : Core) (i : Nat) : (interruptCheck.scan i 0).run c = .ok (false, c) := by
  rw [interruptCheck.scan]; rfl

theorem interruptCheck_noop (c : Core) (h : deliverable c.regs = false) :
    interruptCheck.run c = .ok ((), c) := by
  unfold interruptCheck
  rw [run_bind, run_getRegs, except_ok_bind, fst_mk, snd_mk]
  by_cases hg : (c.regs.ie != 0 && !c.regs.rep) = true
  · unfold deliverable at h
    rw [hg, Bool.true_and] at h
    simp only [Bool.or_eq_false_iff] at h
    obtain ⟨⟨⟨h0, h1⟩, h2⟩, hv⟩ := h
    rw [hg]
    simp -zeta only [if_true]
    rw [run_bind, scan_step_no c 0 2 h0, scan_step_no c 1 1 h1, scan_step_no c 2 0 h2, scan_zero,
      except_ok_bind, fst_mk, snd_mk, run_bind, run_getRegs, except_ok_bind, fst_mk, snd_mk]
    have : (!false && c.regs.imv != 0 && c.regs.ipv != 0) = false := by simpa using hv
    rw [this]
    simp -zeta only [Bool.false_eq_true, if_false, run_pure]
  · have hg' : (c.regs.ie != 0 && !c.regs.rep) = false := by simpa using hg
    rw [hg']
    simp -zeta only [Bool.false_eq_true, if_false, run_pure]

/-! ## the whole loop body on a self-branch -/

/-- What `brrSelf` says, as propositions. -/
theorem brrSelf_spec (c : Core) (h : brrSelf c = true) :
    ∃ w accs, c.bus.programRead (fetchAddress c.regs) = .ok (w, accs) ∧ w &&& 0xFFF0 = 0x57F0 ∧
      condVal (Cond.name (w.toNat % 16)) c.regs = true ∧ c.regs.rep = false ∧
      loopClear c.regs = true ∧ deliverable c.regs = false := by
  unfold brrSelf at h
  cases hr : c.bus.programRead (fetchAddress c.regs) with
  | error e => rw [hr] at h; cases h
  | ok r =>
    obtain ⟨w, accs⟩ := r
    rw [hr] at h
    simp only [Bool.and_eq_true, beq_iff_eq, Bool.not_eq_true', condHolds_eq] at h
    exact ⟨w, accs, rfl, h.1.1.1.1, h.1.1.1.2, h.1.1.2, h.1.2, h.2⟩

/-- Same registers except the interrupt-pending bits. -/
def withIp (r : Regs) (ip : Vector U16 3) (ipv : U16) : Regs := { r with ip := ip, ipv := ipv }

theorem latchAll_eq (c : Core) : latchAll c = withIp c.regs (latchAll c).ip (latchAll c).ipv := by
  unfold latchAll latch1
  repeat' split
  all_goals rfl

theorem condVal_withIp (cv : CondValue) (r : Regs) (ip : Vector U16 3) (ipv : U16) :
    condVal cv (withIp r ip ipv) = condVal cv r := by
  cases cv <;> rfl

/-- The state in which the interrupt block of the loop body runs when the instruction executed is
the self-branch: latches moved into `ip`/`ipv`, the fetch logged, `idle` set. -/
def pre (c : Core) (accs : List Access) : Core :=
  { c with regs := latchAll c, ipend := Vector.replicate 3 false, vpend := false,
           log := accs.reverse ++ c.log, idle := true }

/-- **The loop body on a self-branch**, whatever the latches and the incoming `idle` flag: it is
the interrupt block run in `pre c`. -/
theorem cycle_brr (c : Core) (w : U16) (accs : List Access)
    (hread : c.bus.programRead (fetchAddress c.regs) = .ok (w, accs))
    (hw : w &&& 0xFFF0 = 0x57F0) (hcond : condVal (Cond.name (w.toNat % 16)) c.regs = true)
    (hrep : c.regs.rep = false) (hloop : loopClear c.regs = true) :
    cycle.run c = interruptCheck.run (pre c accs) := by
  rw [cycle_eq_main]
  have he := latchAll_eq c
  have h := mainPhase_brr (latched c) w accs
    (by show c.bus.programRead (fetchAddress (latchAll c)) = _; rw [he]; exact hread) hw
    (by show condVal _ (latchAll c) = true; rw [he, condVal_withIp]; exact hcond)
    (by show (latchAll c).rep = false; rw [he]; exact hrep)
    (by show loopClear (latchAll c) = true; rw [he]; exact hloop)
  rw [h]
  rfl

end Teakra.Sys
