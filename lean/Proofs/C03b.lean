import Proofs.C03Exec
/-!
# C03, second part — the `Moda` family, the logic / test / compare forms of `AlmGeneric`,
operand extension

Handler-level theorems: what `moda` (inc, dec, neg, rnd, clr, clrr, copy, not) and the
`or`/`and`/`xor`/`tst0`/`tst1`/`cmp`/`cmpu` forms of `almGeneric` leave in the machine state, stated
against exact 40-bit arithmetic, and that a failing condition leaves the state unchanged.
-/
namespace Teakra.Interp
open Teakra Exec ExecLemmas Alu

end Teakra.Interp

namespace Teakra.Alu

/-! ## 40-bit values: a few general facts -/

/-- The signed 40-bit value from the unsigned one. -/
theorem I40_cases (v : U64) :
    I40 v = if 2 ^ 39 ≤ v.toNat % 2 ^ 40 then ((v.toNat % 2 ^ 40 : Nat) : Int) - 2 ^ 40
            else ((v.toNat % 2 ^ 40 : Nat) : Int) := by
  unfold I40
  rw [BitVec.toInt_eq_toNat_cond, BitVec.toNat_setWidth]
  split <;> split <;> omega

theorem I40_bounds (v : U64) : -2 ^ 39 ≤ I40 v ∧ I40 v < 2 ^ 39 := by
  have h := I40_cases v
  have hx : v.toNat % 2 ^ 40 < 2 ^ 40 := Nat.mod_lt _ (by decide)
  split at h <;> omega

/-- `SignExtend<40>` does not change the 40-bit value … -/
theorem I40_signExtend (x : U64) : I40 (signExtend 40 x) = I40 x := by
  unfold I40 signExtend
  congr 1
  apply BitVec.eq_of_toNat_eq
  rw [BitVec.toNat_setWidth, BitVec.toNat_signExtend, BitVec.toNat_setWidth]
  have := (x.setWidth 40).isLt
  simp only [BitVec.toNat_setWidth] at this ⊢
  split <;> omega

/-- … and produces a well-formed accumulator pattern. -/
theorem signExtend40_wf (x : U64) : AccWF (signExtend 40 x) := by
  unfold AccWF signExtend
  congr 1
  apply BitVec.eq_of_toNat_eq
  rw [BitVec.toNat_setWidth, BitVec.toNat_signExtend, BitVec.toNat_setWidth]
  have := (x.setWidth 40).isLt
  simp only [BitVec.toNat_setWidth] at this ⊢
  split <;> omega

/-- Converse of `wf_toNat_cases`. -/
theorem wf_of_toNat (v : U64) (h : v.toNat < 2 ^ 39 ∨ 2 ^ 64 - 2 ^ 39 ≤ v.toNat) : AccWF v := by
  unfold AccWF signExtend
  apply BitVec.eq_of_toNat_eq
  rw [BitVec.toNat_signExtend, BitVec.toNat_setWidth, BitVec.toNat_setWidth, BitVec.msb_eq_decide,
    BitVec.toNat_setWidth]
  have hlt := v.isLt
  simp only [show (40 - 1) = 39 from rfl]
  by_cases hm : 2 ^ 39 ≤ v.toNat % 2 ^ 40
  · simp only [hm, decide_true, if_true]; omega
  · simp only [hm, decide_false, Bool.false_eq_true, if_false]; omega

/-- Negation: the 40-bit value of `~v + 1` is `−v` wrapped to 40 bits. -/
theorem I40_neg (x : U64) : I40 (~~~x + 1) = wrap40 (-(I40 x)) := by
  have e : (~~~x + 1).setWidth 40 = -(x.setWidth 40) := by
    have hneg : ~~~x + 1 = -x := (BitVec.neg_eq_not_add x).symm
    rw [hneg]
    apply BitVec.eq_of_toNat_eq
    simp only [BitVec.toNat_setWidth, BitVec.toNat_neg]
    have := x.isLt
    omega
  unfold I40 wrap40
  rw [e, BitVec.toInt_neg]

/-- Bitwise complement: the 40-bit value of `~v` is `−v − 1`. -/
theorem I40_not (x : U64) : I40 (~~~x) = -(I40 x) - 1 := by
  have h1 := I40_cases x
  have h2 := I40_cases (~~~x)
  have hx := x.isLt
  have hn : (~~~x).toNat = 2 ^ 64 - 1 - x.toNat := by rw [BitVec.toNat_not]
  rw [hn] at h2
  split at h1 <;> split at h2 <;> omega

theorem not_wf (x : U64) (h : AccWF x) : AccWF (~~~x) := by
  apply wf_of_toNat
  have hn : (~~~x).toNat = 2 ^ 64 - 1 - x.toNat := by rw [BitVec.toNat_not]
  have hx := x.isLt
  rcases wf_toNat_cases x h with ⟨h1, _⟩ | ⟨h1, _⟩ <;> omega

end Teakra.Alu

namespace Teakra.Interp
open Teakra Exec ExecLemmas Alu

/-! ## writing an accumulator -/

/-- Writing an accumulator leaves every flag alone. -/
theorem setAccOf_frame (r : Regs) (k : Bool × Fin 2) (v : U64) :
    (setAccOf r k v).fc0 = r.fc0 ∧ (setAccOf r k v).fv = r.fv ∧ (setAccOf r k v).fvl = r.fvl ∧
    (setAccOf r k v).fz = r.fz ∧ (setAccOf r k v).fm = r.fm ∧ (setAccOf r k v).fe = r.fe ∧
    (setAccOf r k v).fn = r.fn ∧ (setAccOf r k v).flm = r.flm := by
  obtain ⟨isB, i⟩ := k
  cases isB <;> exact ⟨rfl, rfl, rfl, rfl, rfl, rfl, rfl, rfl⟩

theorem accOf_setAccOf (r : Regs) (k : Bool × Fin 2) (v : U64) : accOf (setAccOf r k v) k = v := by
  obtain ⟨isB, i⟩ := k
  cases isB <;> simp [accOf, setAccOf]

/-- … and every other accumulator. -/
theorem accOf_setAccOf_ne (r : Regs) (k k' : Bool × Fin 2) (v : U64) (h : k ≠ k') :
    accOf (setAccOf r k v) k' = accOf r k' := by
  obtain ⟨isB, i⟩ := k
  obtain ⟨isB', i'⟩ := k'
  cases isB <;> cases isB' <;> simp only [accOf, setAccOf]
  · have : i ≠ i' := fun hh => h (by rw [hh])
    exact Vector.getElem_set_ne _ _ (by omega)
  · have : i ≠ i' := fun hh => h (by rw [hh])
    exact Vector.getElem_set_ne _ _ (by omega)

/-- Register file after `AddSub(a, b, sub)` followed by `SatAndSetAccAndFlag(k, result)`. -/
def addSubWrite (r : Regs) (k : Bool × Fin 2) (a b : U64) (sub : Bool) : Regs :=
  satSetRegs (withAddSubFlags r (Alu.addSub a b sub)) k (Alu.addSub a b sub).result

/-- **Exact add / subtract of two 40-bit operands with flags and saturating write** (the common
tail of inc, dec, rnd, the accumulate step of the multiply–accumulate forms, …): the destination
receives the exact sum or difference wrapped to 40 bits and, when saturation-on-write is enabled,
clamped to 32 bits with the limit flag set exactly when it did not fit; carry is the carry / borrow
out of bit 39, overflow says the exact result does not fit 40 bits and is latched, and zero / minus
/ extension are the flags of the unsaturated 40-bit result. -/
theorem addSubWrite_spec (r : Regs) (k : Bool × Fin 2) (a b : U64) (sub : Bool) (exact : Int)
    (hex : exact = if sub then I40 a - I40 b else I40 a + I40 b) :
    let r' := addSubWrite r k a b sub
    I40 (accOf r' k) = (if r.sata = 0 then max (-2 ^ 31) (min (2 ^ 31 - 1) (wrap40 exact)) else wrap40 exact) ∧
    r'.fc0 = b2u (if sub then decide (U40 a < U40 b) else decide (2 ^ 40 ≤ U40 a + U40 b)) ∧
    r'.fv = b2u (decide (exact < -2 ^ 39 ∨ 2 ^ 39 ≤ exact)) ∧
    r'.fvl = (if exact < -2 ^ 39 ∨ 2 ^ 39 ≤ exact then 1 else r.fvl) ∧
    r'.fz = b2u (decide (wrap40 exact = 0)) ∧ r'.fm = b2u (decide (wrap40 exact < 0)) ∧
    r'.fe = b2u (decide (wrap40 exact < -2 ^ 31 ∨ 2 ^ 31 ≤ wrap40 exact)) ∧
    r'.flm = (if r.sata = 0 ∧ (wrap40 exact < -2 ^ 31 ∨ 2 ^ 31 ≤ wrap40 exact) then 1 else r.flm) := by
  intro r'
  subst hex
  have hval := addSub_value a b sub
  have hwf := addSub_wf a b sub
  have hc := addSub_carry a b sub
  have hv := addSub_overflow a b sub
  have hs := satSetRegs_spec (withAddSubFlags r (Alu.addSub a b sub)) k _ hwf
  simp only [] at hs
  rw [hval] at hs
  obtain ⟨h1, h2, h3, h4, h5⟩ := hs
  have frame := satSetRegs_frame (withAddSubFlags r (Alu.addSub a b sub)) k (Alu.addSub a b sub).result
  have hsata : (withAddSubFlags r (Alu.addSub a b sub)).sata = r.sata := rfl
  have hflm : (withAddSubFlags r (Alu.addSub a b sub)).flm = r.flm := rfl
  rw [hsata] at h1 h5
  rw [hflm] at h5
  refine ⟨h1, ?_, ?_, ?_, h2, h3, h4, h5⟩
  · show (addSubWrite r k a b sub).fc0 = _
    unfold addSubWrite; rw [frame.1]; exact hc
  · show (addSubWrite r k a b sub).fv = _
    unfold addSubWrite; rw [frame.2.1]; exact hv
  · show (addSubWrite r k a b sub).fvl = _
    unfold addSubWrite; rw [frame.2.2]
    show (if (Alu.addSub a b sub).fv != 0 then (1 : U16) else r.fvl) = _
    rw [hv]
    simp only []
    by_cases he : ((if sub = true then I40 a - I40 b else I40 a + I40 b) < -2 ^ 39 ∨
        2 ^ 39 ≤ (if sub = true then I40 a - I40 b else I40 a + I40 b))
    · simp only [he, decide_true, b2u, if_true]; rfl
    · simp only [he, decide_false, b2u, Bool.false_eq_true, if_false]; rfl

/-! ## `Moda` -/

/-- `RegisterState::ConditionPass` as a function of the register file. -/
def condHolds (r : Regs) : CondValue → Bool
  | .true_ => true
  | .eq => r.fz == 1
  | .neq => r.fz == 0
  | .gt => r.fz == 0 && r.fm == 0
  | .ge => r.fm == 0
  | .lt => r.fm == 1
  | .le => r.fm == 1 || r.fz == 1
  | .nn => r.fn == 0
  | .c => r.fc0 == 1
  | .v => r.fv == 1
  | .e => r.fe == 1
  | .l => r.flm == 1 || r.fvl == 1
  | .nr => r.fr == 0
  | .niu0 => r.iu[0] == 0
  | .iu0 => r.iu[0] == 1
  | .iu1 => r.iu[1] == 1

theorem run_conditionPass (cond : CondValue) (c : Core) :
    (conditionPass cond).run c = .ok (condHolds c.regs cond, c) := by
  cases cond <;> rfl

/-- **A failing condition leaves the state unchanged** — for every `Moda` operation. -/
theorem moda_fail (op : ModaOp) (a : RegName) (cond : CondValue) (c : Core)
    (h : condHolds c.regs cond = false) : (Exec.moda op a cond).run c = .ok ((), c) := by
  unfold Exec.moda
  simp only [run_bind, run_conditionPass, except_ok_bind, h, Bool.false_eq_true, if_false, run_pure]

/-- `SetAccAndFlag`: flags of `v`, then the plain (unsaturated) write. -/
def setFlagRegs (r : Regs) (k : Bool × Fin 2) (v : U64) : Regs := setAccOf (withAccFlags r v) k v

theorem run_setAccAndFlag (name : RegName) (k : Bool × Fin 2) (h : accIndex name = some k) (v : U64)
    (c : Core) : (setAccAndFlag name v).run c = .ok ((), withRegs c (setFlagRegs c.regs k v)) := by
  unfold setAccAndFlag setFlagRegs withRegs withAccFlags
  simp only [run_bind, run_setAccFlag, except_ok_bind, run_setAcc _ k h]

/-- `inc` / `dec` / `rnd`: `AddSub(acc, 1 | 1 | 0x8000, false | true | false)` with saturating write. -/
theorem moda_inc_run (a : RegName) (k : Bool × Fin 2) (h : accIndex a = some k) (cond : CondValue)
    (c : Core) (hp : condHolds c.regs cond = true) :
    (Exec.moda .inc a cond).run c = .ok ((), withRegs c (addSubWrite c.regs k (accOf c.regs k) 1 false)) := by
  unfold Exec.moda addSubWrite withRegs withAddSubFlags
  simp only [run_bind, run_conditionPass, except_ok_bind, hp, if_true, run_getAcc _ k h, run_addSub,
    run_satAndSetAccAndFlag _ k h]

theorem moda_dec_run (a : RegName) (k : Bool × Fin 2) (h : accIndex a = some k) (cond : CondValue)
    (c : Core) (hp : condHolds c.regs cond = true) :
    (Exec.moda .dec a cond).run c = .ok ((), withRegs c (addSubWrite c.regs k (accOf c.regs k) 1 true)) := by
  unfold Exec.moda addSubWrite withRegs withAddSubFlags
  simp only [run_bind, run_conditionPass, except_ok_bind, hp, if_true, run_getAcc _ k h, run_addSub,
    run_satAndSetAccAndFlag _ k h]

theorem moda_rnd_run (a : RegName) (k : Bool × Fin 2) (h : accIndex a = some k) (cond : CondValue)
    (c : Core) (hp : condHolds c.regs cond = true) :
    (Exec.moda .rnd a cond).run c = .ok ((), withRegs c (addSubWrite c.regs k (accOf c.regs k) 0x8000 false)) := by
  unfold Exec.moda addSubWrite withRegs withAddSubFlags
  simp only [run_bind, run_conditionPass, except_ok_bind, hp, if_true, run_getAcc _ k h, run_addSub,
    run_satAndSetAccAndFlag _ k h]

/-- **inc / dec / rnd are exact.**  The accumulator receives `v + 1`, `v − 1`, `v + 0x8000` wrapped
to 40 bits (clamped to 32 bits when saturation-on-write is enabled, limit flag set exactly then);
carry / overflow (latched) are those of that addition or subtraction; zero / minus / extension are
the flags of the unsaturated 40-bit result. -/
theorem moda_incdecrnd_spec (r : Regs) (k : Bool × Fin 2) (b : U64) (d : Int) (sub : Bool)
    (hb : (b = 1 ∧ d = 1) ∨ (b = 0x8000 ∧ d = 0x8000)) :
    let exact : Int := if sub then I40 (accOf r k) - d else I40 (accOf r k) + d
    let r' := addSubWrite r k (accOf r k) b sub
    I40 (accOf r' k) = (if r.sata = 0 then max (-2 ^ 31) (min (2 ^ 31 - 1) (wrap40 exact)) else wrap40 exact) ∧
    r'.fc0 = b2u (if sub then decide (U40 (accOf r k) < d.toNat) else decide (2 ^ 40 ≤ U40 (accOf r k) + d.toNat)) ∧
    r'.fv = b2u (decide (exact < -2 ^ 39 ∨ 2 ^ 39 ≤ exact)) ∧
    r'.fvl = (if exact < -2 ^ 39 ∨ 2 ^ 39 ≤ exact then 1 else r.fvl) ∧
    r'.fz = b2u (decide (wrap40 exact = 0)) ∧ r'.fm = b2u (decide (wrap40 exact < 0)) ∧
    r'.fe = b2u (decide (wrap40 exact < -2 ^ 31 ∨ 2 ^ 31 ≤ wrap40 exact)) ∧
    r'.flm = (if r.sata = 0 ∧ (wrap40 exact < -2 ^ 31 ∨ 2 ^ 31 ≤ wrap40 exact) then 1 else r.flm) := by
  intro exact r'
  have hI : I40 b = d ∧ U40 b = d.toNat := by
    rcases hb with ⟨h1, h2⟩ | ⟨h1, h2⟩ <;> subst h1 h2 <;> exact ⟨by decide, by decide⟩
  have h := addSubWrite_spec r k (accOf r k) b sub exact (by rw [hI.1])
  simp only [] at h
  rw [hI.2] at h
  exact h

/-! ### clr / clrr / copy -/

private theorem saturate_fits (v : U64) (h : (v != signExtend 32 v) = false) : saturate v = (v, false) := by
  unfold saturate; simp only [h, Bool.false_eq_true, if_false]

/-- `SatAndSetAccAndFlag` of a value that fits 32 bits is a plain flag-and-write. -/
theorem satSetRegs_fits (r : Regs) (k : Bool × Fin 2) (v : U64) (h : (v != signExtend 32 v) = false) :
    satSetRegs r k v = setFlagRegs r k v := by
  unfold satSetRegs setFlagRegs withAccFlags
  simp only [saturate_fits v h, Bool.false_eq_true, if_false]
  split <;> rfl

theorem moda_clr_run (a : RegName) (k : Bool × Fin 2) (h : accIndex a = some k) (cond : CondValue)
    (c : Core) (hp : condHolds c.regs cond = true) :
    (Exec.moda .clr a cond).run c = .ok ((), withRegs c (setFlagRegs c.regs k 0)) := by
  unfold Exec.moda withRegs
  simp only [run_bind, run_conditionPass, except_ok_bind, hp, if_true, run_satAndSetAccAndFlag _ k h]
  rw [satSetRegs_fits _ _ 0 (by decide)]

theorem moda_clrr_run (a : RegName) (k : Bool × Fin 2) (h : accIndex a = some k) (cond : CondValue)
    (c : Core) (hp : condHolds c.regs cond = true) :
    (Exec.moda .clrr a cond).run c = .ok ((), withRegs c (setFlagRegs c.regs k 0x8000)) := by
  unfold Exec.moda withRegs
  simp only [run_bind, run_conditionPass, except_ok_bind, hp, if_true, run_satAndSetAccAndFlag _ k h]
  rw [satSetRegs_fits _ _ 0x8000 (by decide)]

/-- **`SetAccAndFlag` — flags of the value, no saturation.**  The accumulator receives `v` itself
(also when it does not fit 32 bits and saturation-on-write is enabled), zero / minus / extension /
normalized are the flags of `v`, and carry, overflow, latched overflow and the limit flag are
untouched. -/
theorem setFlagRegs_spec (r : Regs) (k : Bool × Fin 2) (v : U64) (hv : AccWF v) :
    let r' := setFlagRegs r k v
    accOf r' k = v ∧
    r'.fz = b2u (decide (I40 v = 0)) ∧ r'.fm = b2u (decide (I40 v < 0)) ∧
    r'.fe = b2u (decide (I40 v < -2 ^ 31 ∨ 2 ^ 31 ≤ I40 v)) ∧
    r'.fn = b2u (decide (I40 v = 0) || (!decide (I40 v < -2 ^ 31 ∨ 2 ^ 31 ≤ I40 v) &&
                (v.getLsbD 31 != v.getLsbD 30))) ∧
    r'.fc0 = r.fc0 ∧ r'.fv = r.fv ∧ r'.fvl = r.fvl ∧ r'.flm = r.flm := by
  obtain ⟨hz, hm, he, hn⟩ := accFlags_spec v hv
  obtain ⟨f1, f2, f3, f4, f5, f6, f7, f8⟩ := setAccOf_frame (withAccFlags r v) k v
  simp only []
  unfold setFlagRegs
  rw [accOf_setAccOf, f1, f2, f3, f4, f5, f6, f7, f8]
  exact ⟨rfl, hz, hm, he, hn, rfl, rfl, rfl, rfl⟩

/-- **clr / clrr.**  The accumulator becomes 0 (resp. `0x8000`, the rounding constant); the flags are
those of that constant (`fz = 1, fn = 1` for 0; all clear for `0x8000`); nothing is saturated and
carry / overflow / limit are untouched. -/
theorem moda_clr_spec (r : Regs) (k : Bool × Fin 2) :
    accOf (setFlagRegs r k 0) k = 0 ∧ (setFlagRegs r k 0).fz = 1 ∧ (setFlagRegs r k 0).fm = 0 ∧
    (setFlagRegs r k 0).fe = 0 ∧ (setFlagRegs r k 0).fn = 1 ∧ (setFlagRegs r k 0).flm = r.flm ∧
    (setFlagRegs r k 0).fc0 = r.fc0 ∧ (setFlagRegs r k 0).fv = r.fv ∧ (setFlagRegs r k 0).fvl = r.fvl := by
  obtain ⟨f1, f2, f3, f4, f5, f6, f7, f8⟩ := setAccOf_frame (withAccFlags r 0) k 0
  unfold setFlagRegs
  rw [accOf_setAccOf, f1, f2, f3, f4, f5, f6, f7, f8]
  exact ⟨rfl, (by decide : (accFlags (0 : U64)).fz = 1), (by decide : (accFlags (0 : U64)).fm = 0),
    (by decide : (accFlags (0 : U64)).fe = 0), (by decide : (accFlags (0 : U64)).fn = 1), rfl, rfl, rfl, rfl⟩

theorem moda_clrr_spec (r : Regs) (k : Bool × Fin 2) :
    accOf (setFlagRegs r k 0x8000) k = 0x8000 ∧ (setFlagRegs r k 0x8000).fz = 0 ∧
    (setFlagRegs r k 0x8000).fm = 0 ∧ (setFlagRegs r k 0x8000).fe = 0 ∧ (setFlagRegs r k 0x8000).fn = 0 ∧
    (setFlagRegs r k 0x8000).flm = r.flm ∧ (setFlagRegs r k 0x8000).fc0 = r.fc0 ∧
    (setFlagRegs r k 0x8000).fv = r.fv ∧ (setFlagRegs r k 0x8000).fvl = r.fvl := by
  obtain ⟨f1, f2, f3, f4, f5, f6, f7, f8⟩ := setAccOf_frame (withAccFlags r 0x8000) k 0x8000
  unfold setFlagRegs
  rw [accOf_setAccOf, f1, f2, f3, f4, f5, f6, f7, f8]
  exact ⟨rfl, (by decide : (accFlags (0x8000 : U64)).fz = 0), (by decide : (accFlags (0x8000 : U64)).fm = 0),
    (by decide : (accFlags (0x8000 : U64)).fe = 0), (by decide : (accFlags (0x8000 : U64)).fn = 0),
    rfl, rfl, rfl, rfl⟩

/-- The source of `copy`: `a1` when the destination is `a0`, otherwise `a0` (the C++ notes that the
`b` accumulators are not supported — for them the source is `a0` as well). -/
def copySource (a : RegName) : Bool × Fin 2 := if a == .a0 then (false, 1) else (false, 0)

/-- `copy`: the other `a` accumulator through `SatAndSetAccAndFlag` (flags of the copied value,
saturating write — `satSetRegs_spec`). -/
theorem moda_copy_run (a : RegName) (k : Bool × Fin 2) (h : accIndex a = some k) (cond : CondValue)
    (c : Core) (hp : condHolds c.regs cond = true) :
    (Exec.moda .copy a cond).run c =
      .ok ((), withRegs c (satSetRegs c.regs k (accOf c.regs (copySource a)))) := by
  have hsrc : accIndex (if a == RegName.a0 then RegName.a1 else RegName.a0) = some (copySource a) := by
    unfold copySource; split <;> rfl
  unfold Exec.moda withRegs
  simp only [run_bind, run_conditionPass, except_ok_bind, hp, if_true, run_getAcc _ _ hsrc,
    run_satAndSetAccAndFlag _ k h]

/-- **copy.**  `a0` is copied from `a1` and `a1` from `a0`; the (well-formed) source value goes
through the saturating write: clamped to 32 bits with `flm` set when saturation-on-write is enabled
and it does not fit, flags of the unsaturated value, carry / overflow untouched. -/
theorem moda_copy_spec (r : Regs) (a : RegName) (k : Bool × Fin 2)
    (hwf : AccWF (accOf r (copySource a))) :
    copySource .a0 = (false, 1) ∧ copySource .a1 = (false, 0) ∧
    let v := accOf r (copySource a)
    let r' := satSetRegs r k v
    I40 (accOf r' k) = (if r.sata = 0 then max (-2 ^ 31) (min (2 ^ 31 - 1) (I40 v)) else I40 v) ∧
    r'.fz = b2u (decide (I40 v = 0)) ∧ r'.fm = b2u (decide (I40 v < 0)) ∧
    r'.fe = b2u (decide (I40 v < -2 ^ 31 ∨ 2 ^ 31 ≤ I40 v)) ∧
    r'.flm = (if r.sata = 0 ∧ (I40 v < -2 ^ 31 ∨ 2 ^ 31 ≤ I40 v) then 1 else r.flm) ∧
    r'.fc0 = r.fc0 ∧ r'.fv = r.fv ∧ r'.fvl = r.fvl := by
  refine ⟨by decide, by decide, ?_⟩
  intro v r'
  obtain ⟨h1, h2, h3, h4, h5⟩ := satSetRegs_spec r k v hwf
  obtain ⟨f1, f2, f3⟩ := satSetRegs_frame r k v
  exact ⟨h1, h2, h3, h4, h5, f1, f2, f3⟩

/-! ### not / neg -/

/-- `not`: bitwise complement through `SetAccAndFlag` (no saturation). -/
theorem moda_not_run (a : RegName) (k : Bool × Fin 2) (h : accIndex a = some k) (cond : CondValue)
    (c : Core) (hp : condHolds c.regs cond = true) :
    (Exec.moda .not_ a cond).run c = .ok ((), withRegs c (setFlagRegs c.regs k (~~~ accOf c.regs k))) := by
  unfold Exec.moda
  simp only [run_bind, run_conditionPass, except_ok_bind, hp, if_true, run_getAcc _ k h,
    run_setAccAndFlag _ k h]

/-- **not.**  The accumulator receives the bitwise complement `−v − 1` of the (well-formed) 40-bit
value — never saturated — with the flags of that value; carry, overflow and limit are untouched. -/
theorem moda_not_spec (r : Regs) (k : Bool × Fin 2) (hwf : AccWF (accOf r k)) :
    let r' := setFlagRegs r k (~~~ accOf r k)
    accOf r' k = ~~~ accOf r k ∧ I40 (accOf r' k) = -(I40 (accOf r k)) - 1 ∧
    r'.fz = b2u (decide (-(I40 (accOf r k)) - 1 = 0)) ∧ r'.fm = b2u (decide (-(I40 (accOf r k)) - 1 < 0)) ∧
    r'.fe = b2u (decide (-(I40 (accOf r k)) - 1 < -2 ^ 31 ∨ 2 ^ 31 ≤ -(I40 (accOf r k)) - 1)) ∧
    r'.fc0 = r.fc0 ∧ r'.fv = r.fv ∧ r'.fvl = r.fvl ∧ r'.flm = r.flm := by
  intro r'
  have h := setFlagRegs_spec r k (~~~ accOf r k) (not_wf _ hwf)
  simp only [] at h
  rw [I40_not] at h
  obtain ⟨h1, h2, h3, h4, _, h6, h7, h8, h9⟩ := h
  refine ⟨h1, ?_, h2, h3, h4, h6, h7, h8, h9⟩
  show I40 (accOf (setFlagRegs r k (~~~ accOf r k)) k) = _
  rw [h1, I40_not]

/-- Carry / overflow / latch written by `neg` from the old value `v`. -/
def withNegFlags (r : Regs) (v : U64) : Regs :=
  { r with fc0 := b2u (v != 0), fv := b2u (v == 0xFFFFFF8000000000),
           fvl := if b2u (v == 0xFFFFFF8000000000) != 0 then 1 else r.fvl }

/-- Register file after `neg`. -/
def negRegs (r : Regs) (k : Bool × Fin 2) : Regs :=
  satSetRegs (withNegFlags r (accOf r k)) k (signExtend 40 (~~~ accOf r k + 1))

private theorem accOf_withNegFlags (r : Regs) (v : U64) (k : Bool × Fin 2) :
    accOf (withNegFlags r v) k = accOf r k := by
  obtain ⟨isB, i⟩ := k; cases isB <;> rfl

theorem moda_neg_run (a : RegName) (k : Bool × Fin 2) (h : accIndex a = some k) (cond : CondValue)
    (c : Core) (hp : condHolds c.regs cond = true) :
    (Exec.moda .neg a cond).run c = .ok ((), withRegs c (negRegs c.regs k)) := by
  unfold Exec.moda negRegs withRegs
  simp only [run_bind, run_conditionPass, except_ok_bind, hp, if_true, run_getAcc _ k h, run_modifyRegs,
    run_satAndSetAccAndFlag _ k h]
  have := accOf_withNegFlags c.regs (accOf c.regs k) k
  unfold withNegFlags at this ⊢
  rw [this]

/-- **neg.**  For a well-formed accumulator value `v`: the destination receives `−v` wrapped to 40
bits (clamped to 32 bits when saturation-on-write is enabled); carry is set exactly when `v ≠ 0`;
overflow exactly when `v = −2³⁹` (the one value whose negation does not fit), and it is latched;
zero / minus / extension are the flags of the unsaturated result. -/
theorem moda_neg_spec (r : Regs) (k : Bool × Fin 2) (hwf : AccWF (accOf r k)) :
    let v := I40 (accOf r k)
    let r' := negRegs r k
    I40 (accOf r' k) = (if r.sata = 0 then max (-2 ^ 31) (min (2 ^ 31 - 1) (wrap40 (-v))) else wrap40 (-v)) ∧
    r'.fc0 = b2u (decide (v ≠ 0)) ∧ r'.fv = b2u (decide (v = -2 ^ 39)) ∧
    r'.fvl = (if v = -2 ^ 39 then 1 else r.fvl) ∧
    r'.fz = b2u (decide (wrap40 (-v) = 0)) ∧ r'.fm = b2u (decide (wrap40 (-v) < 0)) ∧
    r'.fe = b2u (decide (wrap40 (-v) < -2 ^ 31 ∨ 2 ^ 31 ≤ wrap40 (-v))) ∧
    r'.flm = (if r.sata = 0 ∧ (wrap40 (-v) < -2 ^ 31 ∨ 2 ^ 31 ≤ wrap40 (-v)) then 1 else r.flm) := by
  intro v r'
  have hres : I40 (signExtend 40 (~~~ accOf r k + 1)) = wrap40 (-v) := by
    rw [I40_signExtend, I40_neg]
  have hs := satSetRegs_spec (withNegFlags r (accOf r k)) k _ (signExtend40_wf (~~~ accOf r k + 1))
  simp only [] at hs
  rw [hres] at hs
  obtain ⟨h1, h2, h3, h4, h5⟩ := hs
  have frame := satSetRegs_frame (withNegFlags r (accOf r k)) k (signExtend 40 (~~~ accOf r k + 1))
  have hc := wf_toNat_cases _ hwf
  have hlt := (accOf r k).isLt
  -- the two 64-bit comparisons of the code, read on the 40-bit value
  have hne : ((accOf r k) != 0) = decide (v ≠ 0) := by
    have : ((accOf r k) != 0) = decide ((accOf r k).toNat ≠ 0) := by
      by_cases he : accOf r k = 0
      · rw [he]; rfl
      · have hn : (accOf r k).toNat ≠ 0 := fun hh => he (BitVec.eq_of_toNat_eq (by simpa using hh))
        have h1 : ((accOf r k) != 0) = true := by simpa using he
        rw [h1]; exact (decide_eq_true hn).symm
    rw [this, decide_eq_decide]
    show _ ↔ I40 (accOf r k) ≠ 0
    rcases hc with ⟨c1, c2⟩ | ⟨c1, c2⟩ <;> omega
  have hmin : ((accOf r k) == 0xFFFFFF8000000000) = decide (v = -2 ^ 39) := by
    have : ((accOf r k) == 0xFFFFFF8000000000) = decide ((accOf r k).toNat = 2 ^ 64 - 2 ^ 39) := by
      by_cases he : accOf r k = 0xFFFFFF8000000000
      · rw [he]; rfl
      · have hn : (accOf r k).toNat ≠ 2 ^ 64 - 2 ^ 39 := fun hh => he (BitVec.eq_of_toNat_eq hh)
        have h1 : ((accOf r k) == 0xFFFFFF8000000000) = false := by simpa using he
        rw [h1]; exact (decide_eq_false hn).symm
    rw [this, decide_eq_decide]
    show _ ↔ I40 (accOf r k) = -2 ^ 39
    rcases hc with ⟨c1, c2⟩ | ⟨c1, c2⟩ <;> omega
  have hsata : (withNegFlags r (accOf r k)).sata = r.sata := rfl
  have hflm : (withNegFlags r (accOf r k)).flm = r.flm := rfl
  rw [hsata] at h1 h5
  rw [hflm] at h5
  refine ⟨h1, ?_, ?_, ?_, h2, h3, h4, h5⟩
  · show (negRegs r k).fc0 = _
    unfold negRegs; rw [frame.1]
    show b2u ((accOf r k) != 0) = _
    rw [hne]
  · show (negRegs r k).fv = _
    unfold negRegs; rw [frame.2.1]
    show b2u ((accOf r k) == 0xFFFFFF8000000000) = _
    rw [hmin]
  · show (negRegs r k).fvl = _
    unfold negRegs; rw [frame.2.2]
    show (if b2u ((accOf r k) == 0xFFFFFF8000000000) != 0 then (1 : U16) else r.fvl) = _
    rw [hmin]
    by_cases hv : v = -2 ^ 39
    · simp only [hv, decide_true, b2u, if_true]; rfl
    · simp only [hv, decide_false, b2u, Bool.false_eq_true, if_false]; rfl

/-- The carry of `neg` is computed on the 64-bit pattern: for a pattern that is NOT a sign-extended
40-bit value the claim "carry ⇔ the 40-bit value is non-zero" fails (witness `2⁴⁰`, whose 40-bit
value is 0) — hence the well-formedness hypothesis of `moda_neg_spec`. -/
def NegCarryForAnyPattern : Prop := ∀ v : U64, (v != 0) = decide (I40 v ≠ 0)

theorem negCarryForAnyPattern_false : ¬ NegCarryForAnyPattern := by
  intro h
  have := h (0x10000000000 : U64)
  revert this
  decide

/-- How the `moda4` / `moda3` handlers reach `moda`: the operation tables of `operand.h`. -/
theorem moda_handlers (op a cond : Nat) :
    Exec.moda4_Moda4_Ax_Cond op a cond = Exec.moda (Moda4.name op) (Ax.name a) (Cond.name cond) ∧
    Exec.moda3_Moda3_Bx_Cond op a cond = Exec.moda (Moda3.name op) (Bx.name a) (Cond.name cond) ∧
    (Moda4.name 6 = .clr ∧ Moda4.name 8 = .not_ ∧ Moda4.name 9 = .neg ∧ Moda4.name 10 = .rnd ∧
     Moda4.name 12 = .clrr ∧ Moda4.name 13 = .inc ∧ Moda4.name 14 = .dec ∧ Moda4.name 15 = .copy) ∧
    (Moda3.name 6 = .clr ∧ Moda3.name 7 = .clrr) ∧
    (accIndex (Ax.name 0) = some (false, 0) ∧ accIndex (Ax.name 1) = some (false, 1) ∧
     accIndex (Bx.name 0) = some (true, 0) ∧ accIndex (Bx.name 1) = some (true, 1)) :=
  ⟨rfl, rfl, ⟨rfl, rfl, rfl, rfl, rfl, rfl, rfl, rfl⟩, ⟨rfl, rfl⟩, ⟨rfl, rfl, rfl, rfl⟩⟩

/-! ## `AlmGeneric`: logic, test and compare forms; operand extension -/

/-- The three bitwise operations of the ALM family. -/
def almLogic : AlmOp → Option (U64 → U64 → U64)
  | .or_ => some (· ||| ·)
  | .and_ => some (· &&& ·)
  | .xor_ => some (· ^^^ ·)
  | _ => none

/-- `or` / `and` / `xor`: `SetAccAndFlag(b, SignExtend<40>(acc op a))`. -/
theorem alm_logic_run (op : AlmOp) (f : U64 → U64 → U64) (hf : almLogic op = some f) (a : U64)
    (b : RegName) (k : Bool × Fin 2) (h : accIndex b = some k) (c : Core) :
    (Exec.almGeneric op a b).run c =
      .ok ((), withRegs c (setFlagRegs c.regs k (signExtend 40 (f (accOf c.regs k) a)))) := by
  cases op <;> simp only [almLogic, Option.some.injEq, reduceCtorEq] at hf <;> subst hf <;>
    (unfold Exec.almGeneric
     simp only [run_bind, run_getAcc _ k h, except_ok_bind, run_setAccAndFlag _ k h])

/-- Bits of a value sign-extended from 40 bits: the low 40 bits are kept, the rest repeat bit 39. -/
theorem signExtend40_getLsbD (x : U64) (i : Nat) :
    (signExtend 40 x).getLsbD i = if i < 40 then x.getLsbD i else (decide (i < 64) && x.getLsbD 39) := by
  unfold signExtend
  rw [BitVec.getLsbD_signExtend, BitVec.getLsbD_setWidth, BitVec.msb_setWidth]
  by_cases h : i < 40
  · have : i < 64 := by omega
    simp [h, this]
  · simp [h]

/-- **or / and / xor.**  The accumulator receives the bitwise result of the low 40 bits,
sign-extended from bit 39 — never saturated; zero / minus / extension / normalized are the flags
of that value; carry, overflow, its latch and the limit flag are untouched. -/
theorem alm_logic_spec (r : Regs) (k : Bool × Fin 2) (f : U64 → U64 → U64) (g : Bool → Bool → Bool)
    (hfg : (f = (· ||| ·) ∧ g = (· || ·)) ∨ (f = (· &&& ·) ∧ g = (· && ·)) ∨ (f = (· ^^^ ·) ∧ g = (· ^^ ·)))
    (a : U64) :
    let v := signExtend 40 (f (accOf r k) a)
    let r' := setFlagRegs r k v
    accOf r' k = v ∧ AccWF v ∧ (∀ i, i < 40 → v.getLsbD i = g ((accOf r k).getLsbD i) (a.getLsbD i)) ∧
    r'.fz = b2u (decide (I40 v = 0)) ∧ r'.fm = b2u (decide (I40 v < 0)) ∧
    r'.fe = b2u (decide (I40 v < -2 ^ 31 ∨ 2 ^ 31 ≤ I40 v)) ∧
    r'.fn = b2u (decide (I40 v = 0) || (!decide (I40 v < -2 ^ 31 ∨ 2 ^ 31 ≤ I40 v) &&
                (v.getLsbD 31 != v.getLsbD 30))) ∧
    r'.fc0 = r.fc0 ∧ r'.fv = r.fv ∧ r'.fvl = r.fvl ∧ r'.flm = r.flm := by
  intro v r'
  have hwf : AccWF v := signExtend40_wf _
  obtain ⟨h1, h2, h3, h4, h5, h6, h7, h8, h9⟩ := setFlagRegs_spec r k v hwf
  refine ⟨h1, hwf, ?_, h2, h3, h4, h5, h6, h7, h8, h9⟩
  intro i hi
  show (signExtend 40 (f (accOf r k) a)).getLsbD i = _
  rw [signExtend40_getLsbD, if_pos hi]
  rcases hfg with ⟨hf, hg⟩ | ⟨hf, hg⟩ | ⟨hf, hg⟩ <;> subst hf hg
  · exact BitVec.getLsbD_or
  · exact BitVec.getLsbD_and
  · exact BitVec.getLsbD_xor

/-- **tst0 / tst1 write only the zero flag** (set when no tested bit of the low word is set, resp.
when every tested bit is set). -/
theorem alm_tst0_run (a : U64) (b : RegName) (k : Bool × Fin 2) (h : accIndex b = some k) (c : Core) :
    (Exec.almGeneric .tst0 a b).run c =
      .ok ((), withRegs c { c.regs with fz := b2u ((((accOf c.regs k) &&& 0xFFFF) &&& a) == 0) }) := by
  unfold Exec.almGeneric withRegs
  simp only [run_bind, run_getAcc _ k h, except_ok_bind, run_modifyRegs]

theorem alm_tst1_run (a : U64) (b : RegName) (k : Bool × Fin 2) (h : accIndex b = some k) (c : Core) :
    (Exec.almGeneric .tst1 a b).run c =
      .ok ((), withRegs c { c.regs with fz := b2u ((((accOf c.regs k) &&& 0xFFFF) &&& ~~~a) == 0) }) := by
  unfold Exec.almGeneric withRegs
  simp only [run_bind, run_getAcc _ k h, except_ok_bind, run_modifyRegs]

/-- Register file after a compare: carry / overflow (latched) of the subtraction, value flags of the
difference; nothing else. -/
def cmpRegs (r : Regs) (k : Bool × Fin 2) (a : U64) : Regs :=
  withAccFlags (withAddSubFlags r (Alu.addSub (accOf r k) a true)) (Alu.addSub (accOf r k) a true).result

/-- **cmp / cmpu write flags only.** -/
theorem alm_cmp_run (op : AlmOp) (hop : op = .cmp ∨ op = .cmpu) (a : U64) (b : RegName)
    (k : Bool × Fin 2) (h : accIndex b = some k) (c : Core) :
    (Exec.almGeneric op a b).run c = .ok ((), withRegs c (cmpRegs c.regs k a)) := by
  rcases hop with hop | hop <;> subst hop <;>
    (unfold Exec.almGeneric cmpRegs withRegs withAccFlags withAddSubFlags
     simp only [run_bind, run_getAcc _ k h, except_ok_bind, run_addSub]
     rfl)

/-- **Compare forms change flags only**, and the flags are those of the exact 40-bit difference
`acc − a`: borrow, overflow (latched), zero, minus, extension; no accumulator changes and the limit
flag is untouched. -/
theorem cmpRegs_spec (r : Regs) (k : Bool × Fin 2) (a : U64) :
    let exact : Int := I40 (accOf r k) - I40 a
    let r' := cmpRegs r k a
    (∀ k', accOf r' k' = accOf r k') ∧
    r'.fc0 = b2u (decide (U40 (accOf r k) < U40 a)) ∧
    r'.fv = b2u (decide (exact < -2 ^ 39 ∨ 2 ^ 39 ≤ exact)) ∧
    r'.fvl = (if exact < -2 ^ 39 ∨ 2 ^ 39 ≤ exact then 1 else r.fvl) ∧
    r'.fz = b2u (decide (wrap40 exact = 0)) ∧ r'.fm = b2u (decide (wrap40 exact < 0)) ∧
    r'.fe = b2u (decide (wrap40 exact < -2 ^ 31 ∨ 2 ^ 31 ≤ wrap40 exact)) ∧ r'.flm = r.flm := by
  simp only []
  have hval := addSub_value (accOf r k) a true
  have hwf := addSub_wf (accOf r k) a true
  have hc := addSub_carry (accOf r k) a true
  have hv := addSub_overflow (accOf r k) a true
  obtain ⟨hz, hm, he, _⟩ := accFlags_spec _ hwf
  simp only [if_true] at hval hc hv
  rw [hval] at hz hm he
  refine ⟨fun k' => cmp_keeps_accumulators r _ _ k', hc, hv, ?_, hz, hm, he, rfl⟩
  show (if (Alu.addSub (accOf r k) a true).fv != 0 then (1 : U16) else r.fvl) = _
  rw [hv]
  by_cases hx : (I40 (accOf r k) - I40 a < -2 ^ 39 ∨ 2 ^ 39 ≤ I40 (accOf r k) - I40 a)
  · simp only [hx, decide_true, b2u, if_true]; rfl
  · simp only [hx, decide_false, b2u, Bool.false_eq_true, if_false]; rfl

/-- **`ExtendOperandForAlm`**: a 16-bit operand is read signed for `cmp` / `sub` / `add`, as the
(signed) high half `a · 2¹⁶` for `addh` / `subh`, and unsigned otherwise. -/
theorem extendOperandForAlm_spec (op : AlmOp) (a : U16) :
    (Exec.extendOperandForAlm op a).toInt =
      if op = .cmp ∨ op = .sub ∨ op = .add then a.toInt
      else if op = .addh ∨ op = .subh then a.toInt * 2 ^ 16 else (a.toNat : Int) := by
  have hlt := a.isLt
  have signed : (signExtend 16 (a.setWidth 64)).toInt = a.toInt := by
    unfold signExtend
    rw [BitVec.toInt_signExtend_of_le (by decide)]
    congr 1
    apply BitVec.eq_of_toNat_eq
    simp only [BitVec.toNat_setWidth]; omega
  have high : (signExtend 32 ((a.setWidth 64 : U64) <<< 16)).toInt = a.toInt * 2 ^ 16 := by
    unfold signExtend
    rw [BitVec.toInt_signExtend_of_le (by decide), BitVec.toInt_eq_toNat_cond,
      BitVec.toInt_eq_toNat_cond, BitVec.toNat_setWidth, BitVec.toNat_shiftLeft, BitVec.toNat_setWidth,
      Nat.shiftLeft_eq]
    have e : a.toNat % 2 ^ 64 * 2 ^ 16 % 2 ^ 64 % 2 ^ 32 = a.toNat * 65536 := by omega
    rw [e]
    split <;> split <;> omega
  have unsigned : (a.setWidth 64 : U64).toInt = (a.toNat : Int) := by
    rw [BitVec.toInt_eq_toNat_cond, BitVec.toNat_setWidth]
    split <;> omega
  by_cases h1 : op = .cmp ∨ op = .sub ∨ op = .add
  · rw [if_pos h1]
    rcases h1 with h | h | h <;> subst h <;> exact signed
  · rw [if_neg h1]
    by_cases h2 : op = .addh ∨ op = .subh
    · rw [if_pos h2]
      rcases h2 with h | h <;> subst h <;> exact high
    · rw [if_neg h2]
      have e : Exec.extendOperandForAlm op a = a.setWidth 64 := by
        cases op <;> simp only [reduceCtorEq, or_self, or_false, or_true,
          not_true_eq_false, not_false_eq_true] at h1 h2 <;> rfl
      rw [e]; exact unsigned

/-! ## the hypotheses are satisfiable, the effects are visible -/

/-- A passing and a failing condition on the reset state. -/
example : condHolds ({} : Regs) .true_ = true ∧ condHolds ({} : Regs) .eq = false := by decide

/-- The accumulators of the reset state are well formed. -/
example : AccWF (accOf ({} : Regs) (false, 0)) := by decide

/-- `neg` of `−2³⁹` overflows (and with saturation on the result is the upper bound), `neg 5 = −5`
with carry. -/
example : (negRegs { ({} : Regs) with a := #v[0xFFFFFF8000000000, 0], sata := 0 } (false, 0)).fv = 1 ∧
    accOf (negRegs { ({} : Regs) with a := #v[0xFFFFFF8000000000, 0], sata := 0 } (false, 0)) (false, 0)
      = 0xFFFFFFFF80000000 ∧
    accOf (negRegs { ({} : Regs) with a := #v[5, 0] } (false, 0)) (false, 0) = 0xFFFFFFFFFFFFFFFB ∧
    (negRegs { ({} : Regs) with a := #v[5, 0] } (false, 0)).fc0 = 1 := by decide

/-- `inc` saturates at `0x7FFFFFFF` when saturation-on-write is enabled, and does not otherwise. -/
example :
    accOf (addSubWrite { ({} : Regs) with a := #v[0x7FFFFFFF, 0], sata := 0 } (false, 0) 0x7FFFFFFF 1 false)
      (false, 0) = 0x7FFFFFFF ∧
    (addSubWrite { ({} : Regs) with a := #v[0x7FFFFFFF, 0], sata := 0 } (false, 0) 0x7FFFFFFF 1 false).flm = 1 ∧
    accOf (addSubWrite { ({} : Regs) with a := #v[0x7FFFFFFF, 0], sata := 1 } (false, 0) 0x7FFFFFFF 1 false)
      (false, 0) = 0x80000000 := by decide

/-- `not` is never saturated; `or` sign-extends from bit 39. -/
example : accOf (setFlagRegs { ({} : Regs) with sata := 0 } (false, 1) (~~~ (0x7FFFFFFF : U64))) (false, 1)
      = 0xFFFFFFFF80000000 ∧
    signExtend 40 ((0x8000000000 : U64) ||| 1) = 0xFFFFFF8000000001 := by decide

/-- The three readings of a 16-bit ALM operand. -/
example : Exec.extendOperandForAlm .add 0x8000 = 0xFFFFFFFFFFFF8000 ∧
    Exec.extendOperandForAlm .addh 0x8000 = 0xFFFFFFFF80000000 ∧
    Exec.extendOperandForAlm .or_ 0x8000 = 0x8000 := by decide

end Teakra.Interp
