import TeakraModel.Asm
import TeakraModel.CDo
import TeakraModel.Decode
import Proofs.C02
/-!
# C05 — assembly text and machine code correspond one-to-one

Three layers, and what each rests on:

1. **The assembler's parser** (`src/parser.cpp`, model `TeakraModel/Asm.lean`).  Theorems
   `parse_eq_firstWith`, `parse_build_first`, `parse_roundtrip`, `parse_invalid`, `build_assert_iff` hold
   for *every* iteration sequence of (opcode, token list, expansion flag), i.e. for every possible
   disassembler: assembling the token list of a renderable opcode returns the least opcode that prints
   that token list, with the status of that opcode; what no renderable opcode prints is `Invalid`; the
   `ASSERT` in `GenerateParser` fires exactly when a later opcode with the same text lacks a bit of the
   first one.
2. **The disassembler text** (`src/disassembler.cpp`) is *not* modelled.  What the property needs from it
   is the predicate `SameTextOnlyUnused`: two first words print the same token list only if they decode
   to the same decode-table entry with the same operand values and differ only in bits the table declares
   `Unused`.  For the real disassembler this is a finite fact about 65536 first words; `checks/c05.py`
   establishes it on every run by enumerating `Disassembler::GetTokenList` of the real code for all 65536
   words and grouping by text.  That is a test by complete enumeration of a finite table, **not** a theorem
   about `disassembler.cpp`.  `assemble_disasm` is the conditional end-to-end statement: *if* the token
   function satisfies `SameTextOnlyUnused` (and reports `NeedExpansion` as the decode table does) *then*
   the assembled opcode decodes to the same entry, with the same operand values for every second word,
   the same need for a second word, and differs from the original only in unused bits — so by C02's
   `unused_irrelevant` / `unused_same_decode` it executes identically, and (`assemble_disasm_text`) every
   disassembler that is a function of the decoded entry and operand values prints it identically for every
   second word.
3. **The C binding** (`src/disassembler_c.cpp`, model `TeakraModel/CDo.lean`): `cDo_bounds` for the
   intended behaviour, and proved counterexamples for the code as it was found.
-/
namespace Teakra.Asm
open Teakra.Decode

/-! ## The trie -/

/-- What `Parse` can observe at the end of a token walk: `(opcode, expansion)` of a node marked `end`. -/
def Node.payload (n : Node) (toks : List String) : Option (BitVec 16 × Bool) :=
  match n.find toks with
  | some c => if c.isEnd then some (c.opcode, c.expansion) else none
  | none => none

private theorem parse_eq_payload (r : Node) (toks : List String) :
    parse r toks = match r.payload toks with
      | some p => { status := statusOf p.2, opcode := p.1 }
      | none => {} := by
  unfold parse Node.payload
  cases r.find toks with
  | none => rfl
  | some c => cases h : c.isEnd <;> simp [h]

private theorem lookup_setChild_self (cs : List (String × Node)) (k : String) (c : Node) :
    (setChild cs k c).lookup k = some c := by
  induction cs with
  | nil => simp [setChild]
  | cons hd tl ih =>
    obtain ⟨k', c'⟩ := hd
    simp only [setChild]
    split
    · rename_i h; simp [List.lookup, h]
    · rename_i h; simp [List.lookup, h, ih]

private theorem lookup_setChild_ne (cs : List (String × Node)) (k k' : String) (c : Node) (hne : k' ≠ k) :
    (setChild cs k c).lookup k' = cs.lookup k' := by
  induction cs with
  | nil =>
    have : (k' == k) = false := by simpa using hne
    simp [setChild, List.lookup, this]
  | cons hd tl ih =>
    obtain ⟨k1, c1⟩ := hd
    simp only [setChild]
    split
    · rename_i h
      have hk : k = k1 := by simpa using h
      subst hk
      have : (k' == k) = false := by simpa using hne
      simp [List.lookup, this]
    · rename_i h
      simp only [List.lookup]
      cases k' == k1 <;> simp [ih]

private theorem payload_nil (n : Node) :
    n.payload [] = if n.isEnd then some (n.opcode, n.expansion) else none := by
  simp [Node.payload, Node.find]

private theorem payload_empty (toks : List String) : Node.empty.payload toks = none := by
  cases toks with
  | nil => simp [Node.payload, Node.find, Node.empty, Node.isEnd]
  | cons k ks => simp [Node.payload, Node.find, Node.empty, Node.children]

private theorem payload_cons (n : Node) (k : String) (ks : List String) :
    n.payload (k :: ks) = ((n.children.lookup k).getD Node.empty).payload ks := by
  cases h : n.children.lookup k with
  | none =>
    rw [show n.payload (k :: ks) = none from by simp [Node.payload, Node.find, h]]
    simp [payload_empty]
  | some c => simp [Node.payload, Node.find, h]

/-- What one insertion does, as seen by `Parse`. -/
private theorem insertAt_ok {o : BitVec 16} {x : Bool} {n n' : Node} {ks : List String}
    (h : insertAt o x n ks = .ok n') :
    (∀ ks', ks' ≠ ks → n'.payload ks' = n.payload ks') ∧
    n'.payload ks = (match n.payload ks with | some p => some p | none => some (o, x)) ∧
    (∀ p, n.payload ks = some p → p.1 &&& ~~~o = 0#16) := by
  induction ks generalizing n n' with
  | nil =>
    obtain ⟨e, o', x', cs⟩ := n
    simp only [insertAt, finish] at h
    cases e with
    | true =>
      by_cases hz : o' &&& ~~~o = 0#16
      · simp [hz] at h
        subst h
        refine ⟨fun _ _ => rfl, ?_, ?_⟩
        · simp [payload_nil, Node.isEnd]
        · intro p hp
          simp [payload_nil, Node.isEnd, Node.opcode] at hp
          rw [← hp]; exact hz
      · simp [hz] at h
    | false =>
      simp at h
      subst h
      refine ⟨?_, ?_, ?_⟩
      · intro ks' hne
        cases ks' with
        | nil => exact absurd rfl hne
        | cons k r => simp [payload_cons, Node.children]
      · simp [payload_nil, Node.isEnd, Node.opcode, Node.expansion]
      · intro p hp
        simp [payload_nil, Node.isEnd] at hp
  | cons k ks ih =>
    simp only [insertAt] at h
    cases hc : insertAt o x ((n.children.lookup k).getD Node.empty) ks with
    | error e => simp [hc] at h
    | ok c' =>
      simp [hc] at h
      subst h
      obtain ⟨ih1, ih2, ih3⟩ := ih hc
      refine ⟨?_, ?_, ?_⟩
      · intro ks' hne
        cases ks' with
        | nil => cases n; rfl
        | cons k' r =>
          rw [payload_cons, payload_cons]
          by_cases hk : k' = k
          · subst hk
            have hr : r ≠ ks := fun hr => hne (by rw [hr])
            simp only [Node.children, lookup_setChild_self, Option.getD_some]
            exact ih1 r hr
          · simp only [Node.children, lookup_setChild_ne _ _ _ _ hk]
      · rw [payload_cons, payload_cons]
        simp only [Node.children, lookup_setChild_self, Option.getD_some]
        exact ih2
      · intro p hp
        rw [payload_cons] at hp
        exact ih3 p hp

private theorem insertAt_error {o : BitVec 16} {x : Bool} {n : Node} {ks : List String} {e : Abort}
    (h : insertAt o x n ks = .error e) :
    e = .assert ∧ ∃ p, n.payload ks = some p ∧ p.1 &&& ~~~o ≠ 0#16 := by
  induction ks generalizing n with
  | nil =>
    obtain ⟨en, o', x', cs⟩ := n
    simp only [insertAt, finish] at h
    cases en with
    | true =>
      by_cases hz : o' &&& ~~~o = 0#16
      · simp [hz] at h
      · simp [hz] at h
        exact ⟨h.symm, (o', x'), by simp [payload_nil, Node.isEnd, Node.opcode, Node.expansion], hz⟩
    | false => simp at h
  | cons k ks ih =>
    simp only [insertAt] at h
    cases hc : insertAt o x ((n.children.lookup k).getD Node.empty) ks with
    | ok c' => simp [hc] at h
    | error e' =>
      simp [hc] at h
      subst h
      obtain ⟨h1, p, hp, hz⟩ := ih hc
      exact ⟨h1, p, by rw [payload_cons]; exact hp, hz⟩

/-! ## The build loop -/

/-- `(opcode, expansion)` of the first renderable entry printing `toks`. -/
private def spec (es : List Entry) (toks : List String) : Option (BitVec 16 × Bool) :=
  (firstWith es toks).map fun f => (f.opcode, f.expansion)

private theorem firstWith_append (a b : List Entry) (toks : List String) :
    firstWith (a ++ b) toks = (firstWith a toks).or (firstWith b toks) := by
  simp [firstWith, List.find?_append]

private theorem firstWith_single (en : Entry) (toks : List String) :
    firstWith [en] toks = if en.renderable = true ∧ en.tokens = toks then some en else none := by
  simp only [firstWith, List.find?_cons, List.find?_nil]
  by_cases h1 : en.renderable = true <;> by_cases h2 : en.tokens = toks
  · simp [h1, h2]
  · have : (en.tokens == toks) = false := by simpa using h2
    simp [h1, h2, this]
  · simp [h1, h2]
  · simp [h1, h2]

private def Inv (n : Node) (done : List Entry) : Prop := ∀ toks, n.payload toks = spec done toks

private theorem step_ok {n n' : Node} {done : List Entry} {en : Entry} (hI : Inv n done)
    (h : step n en = .ok n') :
    Inv n' (done ++ [en]) ∧
    (en.renderable = true → ∀ f, firstWith (done ++ [en]) en.tokens = some f → f.opcode &&& ~~~en.opcode = 0#16) := by
  unfold step at h
  by_cases hr : en.renderable = true
  · simp only [hr, if_true] at h
    obtain ⟨h1, h2, h3⟩ := insertAt_ok h
    constructor
    · intro toks
      simp only [spec, firstWith_append, firstWith_single, hr, true_and]
      by_cases ht : toks = en.tokens
      · subst ht
        rw [h2, hI]
        simp only [spec]
        cases firstWith done en.tokens <;> simp
      · rw [h1 toks ht, hI]
        have : ¬ en.tokens = toks := fun h => ht h.symm
        simp only [spec, this, if_false]
        cases firstWith done toks <;> simp
    · intro _ f hf
      simp only [firstWith_append, firstWith_single, hr, true_and, if_true] at hf
      cases hd : firstWith done en.tokens with
      | none =>
        simp [hd] at hf
        subst hf
        exact BitVec.and_not_self _
      | some g =>
        simp [hd] at hf
        subst hf
        have := hI en.tokens
        simp only [spec, hd, Option.map_some] at this
        exact h3 _ this
  · simp only [hr] at h
    have h' : n = n' := by simpa using h
    subst h'
    constructor
    · intro toks
      have hr' : en.renderable = false := by simpa using hr
      simp only [spec, firstWith_append, firstWith_single, hr']
      rw [hI]
      simp only [spec]
      cases firstWith done toks <;> simp
    · intro h; exact absurd h hr

private theorem step_error {n : Node} {done : List Entry} {en : Entry} {e : Abort} (hI : Inv n done)
    (h : step n en = .error e) :
    e = .assert ∧ en.renderable = true ∧
      ∃ f, firstWith (done ++ [en]) en.tokens = some f ∧ f.opcode &&& ~~~en.opcode ≠ 0#16 := by
  unfold step at h
  by_cases hr : en.renderable = true
  · simp only [hr, if_true] at h
    obtain ⟨h1, p, hp, hz⟩ := insertAt_error h
    refine ⟨h1, hr, ?_⟩
    rw [hI] at hp
    simp only [spec] at hp
    cases hd : firstWith done en.tokens with
    | none => simp [hd] at hp
    | some g =>
      simp [hd] at hp
      refine ⟨g, by simp [firstWith_append, hd], ?_⟩
      rw [← hp] at hz
      exact hz
  · simp [hr] at h

/-- No later entry with the same text lacks a bit of the first one (the `ASSERT` of the loop, for all of `es`). -/
def NoViolation (all es : List Entry) : Prop :=
  ∀ en ∈ es, en.renderable = true → ∀ f, firstWith all en.tokens = some f → f.opcode &&& ~~~en.opcode = 0#16

private theorem firstWith_prefix {a b : List Entry} {toks : List String} {f : Entry}
    (h : firstWith a toks = some f) : firstWith (a ++ b) toks = some f := by
  simp [firstWith_append, h]

/-- A renderable entry of the list has a first entry with its text. -/
private theorem firstWith_of_mem {es : List Entry} {en : Entry} (hm : en ∈ es) (hr : en.renderable = true) :
    ∃ f, firstWith es en.tokens = some f := by
  cases h : firstWith es en.tokens with
  | some f => exact ⟨f, rfl⟩
  | none =>
    simp only [firstWith, List.find?_eq_none] at h
    have := h en hm
    simp [hr] at this

private theorem firstWith_mid {done rest : List Entry} {en : Entry} (hr : en.renderable = true) :
    firstWith (done ++ en :: rest) en.tokens = firstWith (done ++ [en]) en.tokens := by
  have : done ++ en :: rest = (done ++ [en]) ++ rest := by simp
  rw [this]
  obtain ⟨f, hf⟩ := firstWith_of_mem (es := done ++ [en]) (en := en) (by simp) hr
  rw [firstWith_prefix hf, hf]

private theorem buildFrom_spec {n : Node} {done es : List Entry} (hI : Inv n done) :
    (∀ n', buildFrom n es = .ok n' → Inv n' (done ++ es) ∧ NoViolation (done ++ es) es) ∧
    (∀ e, buildFrom n es = .error e → e = .assert ∧
      ∃ en ∈ es, en.renderable = true ∧ ∃ f, firstWith (done ++ es) en.tokens = some f ∧
        f.opcode &&& ~~~en.opcode ≠ 0#16) := by
  induction es generalizing n done with
  | nil =>
    constructor
    · intro n' h
      simp only [buildFrom] at h
      have : n = n' := by simpa using h
      subst this
      exact ⟨by simpa using hI, fun en hm => absurd hm (by simp)⟩
    · intro e h; simp [buildFrom] at h
  | cons en rest ih =>
    have hassoc : done ++ en :: rest = (done ++ [en]) ++ rest := by simp
    constructor
    · intro n' h
      simp only [buildFrom] at h
      cases hs : step n en with
      | error e => simp [hs] at h
      | ok n1 =>
        simp only [hs] at h
        obtain ⟨hI1, hv1⟩ := step_ok hI hs
        obtain ⟨hI2, hv2⟩ := (ih hI1).1 n' h
        rw [hassoc]
        refine ⟨hI2, ?_⟩
        intro en' hm hr f hf
        rcases List.mem_cons.1 hm with rfl | hm'
        · rw [← hassoc, firstWith_mid hr] at hf
          exact hv1 hr f hf
        · exact hv2 en' hm' hr f hf
    · intro e h
      simp only [buildFrom] at h
      cases hs : step n en with
      | error e' =>
        simp [hs] at h
        subst h
        obtain ⟨h1, hr, f, hf, hz⟩ := step_error hI hs
        exact ⟨h1, en, by simp, hr, f, by rw [firstWith_mid hr]; exact hf, hz⟩
      | ok n1 =>
        simp only [hs] at h
        obtain ⟨hI1, _⟩ := step_ok hI hs
        obtain ⟨h1, en', hm, hr, f, hf, hz⟩ := (ih hI1).2 e h
        exact ⟨h1, en', List.mem_cons_of_mem _ hm, hr, f, by rw [hassoc]; exact hf, hz⟩

private theorem inv_empty : Inv Node.empty [] := by
  intro toks; simp [payload_empty, spec, firstWith]

/-! ## Property theorems about the parser (for every possible disassembler) -/

/-- **What the assembler returns, completely**: after a successful `GenerateParser`, `Parse(tokens)` is
decided by the *first* iteration (lowest opcode) whose token list is renderable and equal to `tokens`:
its opcode, `ValidWithExpansion`/`Valid` from its `NeedExpansion` flag; `Invalid` if there is none. -/
theorem parse_eq_firstWith {es : List Entry} {t : Node} (hb : buildParser es = .ok t)
    (toks : List String) :
    parse t toks = match firstWith es toks with
      | some f => { status := statusOf f.expansion, opcode := f.opcode }
      | none => {} := by
  have := ((buildFrom_spec (es := es) inv_empty).1 t hb).1 toks
  rw [parse_eq_payload, this]
  simp only [spec, List.nil_append]
  cases firstWith es toks <;> simp

/-- **Assembling the token list of a renderable opcode returns the least opcode with that token list**
(the first one in iteration order), as a valid opcode whose status is that opcode's need for a second
word. -/
theorem parse_build_first {es : List Entry} {t : Node} {en : Entry} (hb : buildParser es = .ok t)
    (hm : en ∈ es) (hr : en.renderable = true) :
    ∃ f, firstWith es en.tokens = some f ∧ f ∈ es ∧ f.renderable = true ∧ f.tokens = en.tokens ∧
      parse t en.tokens = { status := statusOf f.expansion, opcode := f.opcode } := by
  obtain ⟨f, hf⟩ := firstWith_of_mem hm hr
  have hp := parse_eq_firstWith hb en.tokens
  rw [hf] at hp
  have hmem := List.mem_of_find?_eq_some hf
  have hsat := List.find?_some hf
  simp only [Bool.and_eq_true, beq_iff_eq] at hsat
  exact ⟨f, hf, hmem, hsat.1, hsat.2, hp⟩

/-- **Re-disassembling the assembled opcode gives the same token list**: whatever `Parse` accepts is the
opcode of an iteration that printed exactly these tokens (and was renderable), and the status tells
that opcode's need for a second word. -/
theorem parse_roundtrip {es : List Entry} {t : Node} (hb : buildParser es = .ok t)
    {toks : List String} (hv : (parse t toks).status ≠ .invalid) :
    ∃ f ∈ es, f.renderable = true ∧ f.tokens = toks ∧ (parse t toks).opcode = f.opcode ∧
      (parse t toks).status = statusOf f.expansion := by
  have hp := parse_eq_firstWith hb toks
  cases hf : firstWith es toks with
  | none => rw [hf] at hp; rw [hp] at hv; exact absurd rfl hv
  | some f =>
    rw [hf] at hp
    have hmem := List.mem_of_find?_eq_some hf
    have hsat := List.find?_some hf
    simp only [Bool.and_eq_true, beq_iff_eq] at hsat
    exact ⟨f, hmem, hsat.1, hsat.2, by rw [hp], by rw [hp]⟩

/-- **Token lists that no renderable opcode prints are `Invalid`** (opcode field 0, as
`Opcode{Opcode::Invalid}`). -/
theorem parse_invalid {es : List Entry} {t : Node} (hb : buildParser es = .ok t) {toks : List String}
    (hn : ∀ en ∈ es, en.renderable = true → en.tokens ≠ toks) :
    parse t toks = { status := .invalid, opcode := 0 } := by
  have hp := parse_eq_firstWith hb toks
  have : firstWith es toks = none := by
    simp only [firstWith, List.find?_eq_none]
    intro en hm
    by_cases hr : en.renderable = true
    · simp [hr, hn en hm hr]
    · simp [hr]
  rw [this] at hp
  exact hp

/-- The build either succeeds or stops at the `ASSERT`; there is no other outcome. -/
theorem build_ok_or_assert (es : List Entry) :
    (∃ t, buildParser es = .ok t) ∨ buildParser es = .error .assert := by
  cases h : buildParser es with
  | ok t => exact .inl ⟨t, rfl⟩
  | error e =>
    have := ((buildFrom_spec (es := es) inv_empty).2 e h).1
    subst this; exact .inr rfl

/-- **`GenerateParser` aborts exactly when two renderable opcodes with the same token list violate the
bit-superset condition**: some iteration `en` prints the text of an earlier first iteration `f` but lacks
one of `f`'s bits (`ASSERT((current->opcode & ~o) == 0)` fails). -/
theorem build_assert_iff (es : List Entry) :
    buildParser es = .error .assert ↔
      ∃ en ∈ es, en.renderable = true ∧ ∃ f, firstWith es en.tokens = some f ∧
        f.opcode &&& ~~~en.opcode ≠ 0#16 := by
  constructor
  · intro h
    have := ((buildFrom_spec (es := es) inv_empty).2 _ h).2
    simpa using this
  · rintro ⟨en, hm, hr, f, hf, hz⟩
    rcases build_ok_or_assert es with ⟨t, ht⟩ | h
    · have := ((buildFrom_spec (es := es) inv_empty).1 t ht).2 en hm hr f (by simpa using hf)
      exact absurd this hz
    · exact h

/-! ## The real iteration order: opcodes `0 … 0xFFFF` increasing -/

def entryOf (d : Disasm) (o : BitVec 16) : Entry :=
  { opcode := o, tokens := d.tokens o 0, expansion := d.expansion o }

private theorem entriesOf_eq (d : Disasm) :
    entriesOf d = (List.range 65536).map fun n => entryOf d (BitVec.ofNat 16 n) := rfl

private theorem mem_entriesOf (d : Disasm) (o : BitVec 16) : entryOf d o ∈ entriesOf d := by
  rw [entriesOf_eq, List.mem_map]
  exact ⟨o.toNat, List.mem_range.2 o.isLt, by rw [BitVec.ofNat_toNat, BitVec.setWidth_eq]⟩

private theorem length_entriesOf (d : Disasm) : (entriesOf d).length = 65536 := by
  rw [entriesOf_eq, List.length_map, List.length_range]

private theorem getElem_entriesOf (d : Disasm) (j : Nat) (hj : j < (entriesOf d).length) :
    (entriesOf d)[j] = entryOf d (BitVec.ofNat 16 j) := by
  simp only [entriesOf_eq, List.getElem_map, List.getElem_range]

/-- `firstWith` over the real iteration order is the least opcode (as a number) printing the text. -/
private theorem firstWith_entriesOf {d : Disasm} {toks : List String} {f : Entry}
    (h : firstWith (entriesOf d) toks = some f) :
    ∃ m : BitVec 16, f = entryOf d m ∧ renderable (d.tokens m 0) = true ∧ d.tokens m 0 = toks ∧
      ∀ m' : BitVec 16, renderable (d.tokens m' 0) = true → d.tokens m' 0 = toks → m.toNat ≤ m'.toNat := by
  unfold firstWith at h
  rw [List.find?_eq_some_iff_getElem] at h
  obtain ⟨hp, i, hi, hget, hmin⟩ := h
  have hi' : i < 65536 := by
    have := hi
    rw [length_entriesOf] at this
    exact this
  have hf : f = entryOf d (BitVec.ofNat 16 i) := by
    rw [← hget, getElem_entriesOf]
  subst hf
  simp only [Bool.and_eq_true, beq_iff_eq] at hp
  refine ⟨BitVec.ofNat 16 i, rfl, hp.1, hp.2, ?_⟩
  intro m' hr' ht'
  have hmi : (BitVec.ofNat 16 i).toNat = i := by simp [BitVec.toNat_ofNat, Nat.mod_eq_of_lt hi']
  rw [hmi]
  apply Nat.le_of_not_lt
  intro hlt
  have := hmin m'.toNat hlt
  rw [getElem_entriesOf, BitVec.ofNat_toNat, BitVec.setWidth_eq] at this
  simp [entryOf, Entry.renderable] at this
  exact this.elim (fun h => Bool.noConfusion (h.symm.trans hr')) (fun h => h ht')

/-- **`Parse(GetTokenList(w))` for the real loop order**: the numerically least opcode `m` printing the
same token list as `w`, with `m`'s `NeedExpansion` as the status. -/
theorem parse_generate_least {d : Disasm} {t : Node} (hb : generateParser d = .ok t) (w : BitVec 16)
    (hr : renderable (d.tokens w 0) = true) :
    ∃ m : BitVec 16, parse t (d.tokens w 0) = { status := statusOf (d.expansion m), opcode := m } ∧
      d.tokens m 0 = d.tokens w 0 ∧ m.toNat ≤ w.toNat ∧
      ∀ m' : BitVec 16, d.tokens m' 0 = d.tokens w 0 → m.toNat ≤ m'.toNat := by
  obtain ⟨f, hf, _, _, _, hp⟩ := parse_build_first (en := entryOf d w) hb (mem_entriesOf d w) hr
  obtain ⟨m, rfl, _, hm2, hm3⟩ := firstWith_entriesOf hf
  refine ⟨m, hp, hm2, hm3 w hr rfl, ?_⟩
  intro m' ht
  exact hm3 m' (by rw [ht]; exact hr) ht

/-! ## The end-to-end statement, conditional on the finite fact about the disassembler text -/

/-- **Two opcodes print the same text only if they differ in unused bits** — the one fact about
`disassembler.cpp` the property needs: whenever a renderable first word `w` and a first word `m` print the
same token list (second word 0, as `GenerateParser` calls it), both decode to the same decode-table entry
`p`, the visitor receives the same operand values, and every bit in which they differ is declared
`Unused` in `p`.

For the real disassembler this is a finite statement about 65536 first words.  It is **not proved** about
`disassembler.cpp`; `checks/c05.py` establishes it on every run by complete enumeration of the real
`Disassembler::GetTokenList` over all 65536 words against the translated decode table (C02). -/
def SameTextOnlyUnused (d : Disasm) : Prop :=
  ∀ w m : BitVec 16, renderable (d.tokens w 0) = true → d.tokens m 0 = d.tokens w 0 →
    ∃ p, decode w = some p ∧ decode m = some p ∧ p.extract m 0 = p.extract w 0 ∧
      ∀ i, i < 16 → m.getLsbD i ≠ w.getLsbD i → i ∈ p.unusedBits

/-- `Disassembler::NeedExpansion` answers from the decode table (`Decode<Disassembler>(opcode).NeedExpansion()`;
compared with the table for all 65536 words by C02's `consumers` op and again by `checks/c05.py`). -/
def NeedFromTable (d : Disasm) : Prop := ∀ w, d.expansion w = needExpansion w

/-- The text is a function of what `Decode<Disassembler>(opcode).call(dsm, opcode, expansion)` hands the
visitor: the selected entry and the extracted operand values (structural in `GetTokenList`; the extraction
is tied to the table by C02's exhaustive `dec` run). -/
def FactorsThroughDecode (d : Disasm) : Prop :=
  ∃ (render : Pat → List Nat → List String) (undef : List String), ∀ w e,
    d.tokens w e = match decode w with
      | some p => render p (p.extract w e)
      | none => undef

private theorem operand_extract_indep {o : Operand} {n m : Nat}
    (h : o.extract n 0 = o.extract m 0) (e : Nat) : o.extract n e = o.extract m e := by
  unfold Operand.extract at h ⊢
  by_cases h1 : o.isUnused = true
  · simp [h1]
  · by_cases h2 : o.bits = 0
    · simp [h1, h2]
    · by_cases h3 : o.pos = 16
      · simp [h1, h2, h3]
      · simpa [h1, h2, h3] using h

private theorem operand_extract_isSome (o : Operand) (n m e e' : Nat) :
    (o.extract n e).isSome = (o.extract m e').isSome := by
  unfold Operand.extract
  by_cases h1 : o.isUnused = true
  · simp [h1]
  · by_cases h2 : o.bits = 0
    · simp [h1, h2]
    · by_cases h3 : o.pos = 16 <;> simp [h1, h2, h3]

private theorem extractN_indep (ops : List Operand) {n m : Nat}
    (h : ops.filterMap (·.extract n 0) = ops.filterMap (·.extract m 0)) (e : Nat) :
    ops.filterMap (·.extract n e) = ops.filterMap (·.extract m e) := by
  induction ops with
  | nil => rfl
  | cons o os ih =>
    simp only [List.filterMap_cons] at h ⊢
    have hs := operand_extract_isSome o n m 0 0
    cases hn : o.extract n 0 with
    | none =>
      have hm : o.extract m 0 = none := by
        rw [hn] at hs; cases hx : o.extract m 0 with
        | none => rfl
        | some v => rw [hx] at hs; simp at hs
      have hne : o.extract n e = none := by
        have := operand_extract_isSome o n n e 0; rw [hn] at this
        cases hx : o.extract n e with
        | none => rfl
        | some v => rw [hx] at this; simp at this
      have hme : o.extract m e = none := by
        have := operand_extract_isSome o m m e 0; rw [hm] at this
        cases hx : o.extract m e with
        | none => rfl
        | some v => rw [hx] at this; simp at this
      simp only [hn, hm] at h
      simp only [hne, hme]
      exact ih h
    | some a =>
      cases hm : o.extract m 0 with
      | none => rw [hn, hm] at hs; simp at hs
      | some b =>
        simp only [hn, hm, List.cons.injEq] at h
        have hab : o.extract n 0 = o.extract m 0 := by rw [hn, hm, h.1]
        have he := operand_extract_indep hab e
        have hse := operand_extract_isSome o n n e 0
        rw [hn] at hse
        cases hx : o.extract n e with
        | none => rw [hx] at hse; simp at hse
        | some c =>
          rw [hx] at he
          simp only [← he]
          rw [ih h.2]

/-- **Assembling what the disassembler printed gives back the same instruction** (conditional on the
finite fact `SameTextOnlyUnused`, which the check establishes by complete enumeration of the real code):
for every first word `w` the disassembler can render, `Parse(GetTokenList(w))` is a valid opcode `m ≤ w`
with the same need for a second word as `w`, printing the same token list, decoding to the same
decode-table entry `p`, handing the visitor the same operand values for **every** second word `e`, and
differing from `w` only in bits `p` declares `Unused`.  The interpreter's effect and the disassembler's
text are functions of (entry, operand values) (C02 `unused_irrelevant`, `unused_same_decode`), hence
execution and disassembly of `m` are identical to those of `w`. -/
theorem assemble_disasm {d : Disasm} {t : Node} (hS : SameTextOnlyUnused d) (hN : NeedFromTable d)
    (hb : generateParser d = .ok t) (w : BitVec 16) (hr : renderable (d.tokens w 0) = true) :
    ∃ (m : BitVec 16) (p : Pat),
      parse t (d.tokens w 0) = { status := statusOf (needExpansion w), opcode := m } ∧
      m.toNat ≤ w.toNat ∧ d.tokens m 0 = d.tokens w 0 ∧
      decode w = some p ∧ decode m = some p ∧ needExpansion m = needExpansion w ∧
      (∀ e : BitVec 16, p.extract m e = p.extract w e) ∧
      (∀ i, i < 16 → m.getLsbD i ≠ w.getLsbD i → i ∈ p.unusedBits) := by
  obtain ⟨m, hp, htok, hle, _⟩ := parse_generate_least hb w hr
  obtain ⟨p, hdw, hdm, hex, hun⟩ := hS w m hr htok
  have hne : needExpansion m = needExpansion w := by simp [needExpansion, hdw, hdm]
  refine ⟨m, p, ?_, hle, htok, hdw, hdm, hne, ?_, hun⟩
  · rw [hp, hN m, hne]
  · intro e
    exact extractN_indep p.operands hex e.toNat

/-- … and its disassembly is identical **for every second word**, for every disassembler whose text is a
function of the decoded entry and the operand values. -/
theorem assemble_disasm_text {d : Disasm} {t : Node} (hS : SameTextOnlyUnused d) (hN : NeedFromTable d)
    (hF : FactorsThroughDecode d) (hb : generateParser d = .ok t) (w : BitVec 16)
    (hr : renderable (d.tokens w 0) = true) (e : BitVec 16) :
    d.tokens (parse t (d.tokens w 0)).opcode e = d.tokens w e := by
  obtain ⟨m, p, hp, _, _, hdw, hdm, _, hex, _⟩ := assemble_disasm hS hN hb w hr
  obtain ⟨render, undef, hF⟩ := hF
  rw [hp]
  simp only [hF, hdw, hdm, hex e]

/-- Under `SameTextOnlyUnused` the `ASSERT` of `GenerateParser` is not the safety net: it can still fire
only between opcodes that differ in unused bits; conversely a failed superset check is always between two
opcodes with the same text. (Restatement of `build_assert_iff` for the real loop order.) -/
theorem generate_assert_iff (d : Disasm) :
    generateParser d = .error .assert ↔
      ∃ w m : BitVec 16, renderable (d.tokens w 0) = true ∧ d.tokens m 0 = d.tokens w 0 ∧
        (∀ m' : BitVec 16, d.tokens m' 0 = d.tokens w 0 → m.toNat ≤ m'.toNat) ∧ m &&& ~~~w ≠ 0#16 := by
  unfold generateParser
  rw [build_assert_iff]
  constructor
  · rintro ⟨en, hm, hr, f, hf, hz⟩
    obtain ⟨m, rfl, _, hm2, hm3⟩ := firstWith_entriesOf hf
    rw [entriesOf_eq, List.mem_map] at hm
    obtain ⟨n, _, rfl⟩ := hm
    refine ⟨BitVec.ofNat 16 n, m, hr, hm2, ?_, hz⟩
    intro m' ht
    exact hm3 m' (by rw [ht]; exact hr) ht
  · rintro ⟨w, m, hr, ht, hmin, hz⟩
    obtain ⟨f, hf⟩ := firstWith_of_mem (mem_entriesOf d w) (show (entryOf d w).renderable = true from hr)
    obtain ⟨m0, rfl, hr0, ht0, hmin0⟩ := firstWith_entriesOf hf
    have h1 : m0.toNat ≤ m.toNat := hmin0 m (by rw [ht]; exact hr) ht
    have h2 : m.toNat ≤ m0.toNat := hmin m0 ht0
    have : m0 = m := BitVec.eq_of_toNat_eq (Nat.le_antisymm h1 h2)
    subst this
    exact ⟨entryOf d w, mem_entriesOf d w, hr, entryOf d m0, hf, hz⟩

/-! ## Non-vacuity -/

/-- A three-opcode disassembler: `nop` is printed by 0 and by 1 (1 ⊇ 0 bitwise), 2 is not renderable, 4
needs a second word.  The build succeeds, `nop` assembles to the least opcode, the `[ERROR]` text and
unknown text are invalid. -/
example :
    (match buildParser [⟨0, ["nop"], false⟩, ⟨1, ["nop"], false⟩, ⟨2, ["mov", "[ERROR]52"], false⟩,
        ⟨4, ["br", "0x00000000", "always"], true⟩] with
      | .ok t => [parse t ["nop"], parse t ["br", "0x00000000", "always"], parse t ["mov", "[ERROR]52"],
          parse t ["br"], parse t []]
      | .error _ => []) =
    [⟨.valid, 0⟩, ⟨.validWithExpansion, 4⟩, ⟨.invalid, 0⟩, ⟨.invalid, 0⟩, ⟨.invalid, 0⟩] := by decide

/-- The `ASSERT` fires when a later opcode with the same text lacks a bit of the first one (2 then 1) … -/
example : buildParser [⟨2, ["x"], false⟩, ⟨1, ["x"], false⟩] = .error .assert := by
  rw [build_assert_iff]
  exact ⟨⟨1, ["x"], false⟩, by simp, by decide, ⟨2, ["x"], false⟩, by decide, by decide⟩

/-- … and not when it is a bit-superset (2 then 3). -/
example : ∃ t, buildParser [⟨2, ["x"], false⟩, ⟨3, ["x"], false⟩] = .ok t ∧ parse t ["x"] = ⟨.valid, 2⟩ := by
  rcases build_ok_or_assert [⟨2, ["x"], false⟩, ⟨3, ["x"], false⟩] with ⟨t, ht⟩ | h
  · refine ⟨t, ht, ?_⟩
    rw [parse_eq_firstWith ht]; decide
  · rw [build_assert_iff] at h
    obtain ⟨en, hm, _, f, hf, hz⟩ := h
    simp only [List.mem_cons, List.mem_nil_iff, or_false] at hm
    rcases hm with rfl | rfl
    · have : f = ⟨2, ["x"], false⟩ := by
        have : firstWith [⟨2, ["x"], false⟩, ⟨3, ["x"], false⟩] ["x"] = some ⟨2, ["x"], false⟩ := by decide
        rw [this] at hf; exact (Option.some.inj hf).symm
      subst this; exact absurd (by decide) hz
    · have : f = ⟨2, ["x"], false⟩ := by
        have : firstWith [⟨2, ["x"], false⟩, ⟨3, ["x"], false⟩] ["x"] = some ⟨2, ["x"], false⟩ := by decide
        rw [this] at hf; exact (Option.some.inj hf).symm
      subst this; exact absurd (by decide) hz

/-- The hypotheses of `assemble_disasm` are jointly satisfiable by a disassembler that renders every defined
opcode and marks every undefined one `[ERROR]` (here with injective text); `0x4180` (`br`) is renderable,
`0x0021` (undefined) is not. -/
example : ∃ d : Disasm, SameTextOnlyUnused d ∧ NeedFromTable d ∧
    renderable (d.tokens 0x4180#16 0) = true ∧ renderable (d.tokens 0x0021#16 0) = false := by
  let tk : BitVec 16 → List String := fun w =>
    if (decode w).isSome then "op" :: List.replicate w.toNat "i" else ["[ERROR]"]
  have tk_some : ∀ w p, decode w = some p → tk w = "op" :: List.replicate w.toNat "i" := by
    intro w p h; simp [tk, h]
  have tk_none : ∀ w, decode w = none → tk w = ["[ERROR]"] := by
    intro w h; simp [tk, h]
  have hren : ∀ n : Nat, renderable ("op" :: List.replicate n "i") = true := by
    intro n
    have h1 : isErrorToken "op" = false := by decide
    have h2 : isErrorToken "i" = false := by decide
    simp [renderable, h1, List.any_replicate, h2]
  have hnren : renderable ["[ERROR]"] = false := by decide
  refine ⟨{ tokens := fun w _ => tk w, expansion := needExpansion }, ?_, fun _ => rfl, ?_, ?_⟩
  · intro w m hr ht
    simp only at hr ht
    cases hw : decode w with
    | none => rw [tk_none w hw, hnren] at hr; cases hr
    | some p =>
      have hm : m = w := by
        cases hdm : decode m with
        | none => rw [tk_none m hdm, tk_some w p hw] at ht; simp at ht
        | some q =>
          rw [tk_some m q hdm, tk_some w p hw] at ht
          have := congrArg List.length ht
          simp at this
          exact BitVec.eq_of_toNat_eq this
      subst hm
      exact ⟨p, rfl, hw, rfl, fun i _ h => absurd rfl h⟩
  · have : (decode 0x4180#16).isSome = true := by decide +kernel
    obtain ⟨p, hp⟩ := Option.isSome_iff_exists.1 this
    show renderable (tk 0x4180#16) = true
    rw [tk_some _ p hp]; exact hren _
  · have : decode 0x0021#16 = none := by decide +kernel
    show renderable (tk 0x0021#16) = false
    rw [tk_none _ this]; exact hnren

/-- The conclusion of `SameTextOnlyUnused` on a real pair: `0x5F48`/`0x5F49` (`bkreprst [sp]`, printed
identically by the real disassembler) decode to the same entry, hand over the same operands and differ only
in bit 0, which that entry declares unused — and a pair it must reject: `0x0000` (`nop`) / `0x0001` differ
in a bit that is not unused in either entry. -/
example : decode 0x5F49#16 = decode 0x5F48#16 ∧
    ((decode 0x5F48#16).map fun p => (p.extract 0x5F48#16 0 == p.extract 0x5F49#16 0,
      (List.range 16).all fun i => (0x5F48#16).getLsbD i == (0x5F49#16).getLsbD i || p.unusedBits.contains i))
      = some (true, true) ∧
    decode 0x0000#16 ≠ decode 0x0001#16 := by decide +kernel

end Teakra.Asm

/-! ## The C binding -/
namespace Teakra.CDo

private theorem store_in (m : Mem) (i : Nat) (v : UInt8) (h : i < m.buf.length) :
    m.store i v = { m with buf := m.buf.set i v } := by simp [Mem.store, h]

private theorem store_pre (m : Mem) (i : Nat) (v : UInt8) : (m.store i v).pre = m.pre := by
  unfold Mem.store; split <;> rfl

private theorem store_other (m : Mem) (i j : Nat) (v : UInt8) (h : i ≠ j) :
    (m.store i v).buf[j]? = m.buf[j]? := by
  unfold Mem.store; split
  · exact List.getElem?_set_ne h
  · rfl

/-- The copy loop, pointwise: it stores `rest` at `i, i+1, …` up to (excluding) `min lim (i + |rest|)` and
nothing else, provided those indices exist. -/
private theorem copyLoop_spec (lim : Nat) (rest : List UInt8) (i : Nat) (m : Mem)
    (hfit : i + min (lim - i) rest.length ≤ m.buf.length) :
    (copyLoop lim rest i m).1 = i + min (lim - i) rest.length ∧
    (copyLoop lim rest i m).2.oob = m.oob ∧ (copyLoop lim rest i m).2.pre = m.pre ∧
    (copyLoop lim rest i m).2.buf.length = m.buf.length ∧
    (∀ j, i ≤ j → j < i + min (lim - i) rest.length → (copyLoop lim rest i m).2.buf[j]? = rest[j - i]?) ∧
    (∀ j, j < i ∨ i + min (lim - i) rest.length ≤ j → (copyLoop lim rest i m).2.buf[j]? = m.buf[j]?) := by
  induction rest generalizing i m with
  | nil =>
    refine ⟨by simp [copyLoop], rfl, rfl, rfl, ?_, fun _ _ => rfl⟩
    intro j h1 h2
    simp only [List.length_nil] at h2
    omega
  | cons c cs ih =>
    by_cases hlt : i < lim
    · have hi : i < m.buf.length := by simp only [List.length_cons] at hfit; omega
      have hst := store_in m i c hi
      have hfit' : (i + 1) + min (lim - (i + 1)) cs.length ≤ (m.store i c).buf.length := by
        rw [hst]; simp only [List.length_set, List.length_cons] at hfit ⊢; omega
      obtain ⟨h1, h2, h3, h4, h5, h6⟩ := ih (i + 1) (m.store i c) hfit'
      have hk : i + 1 + min (lim - (i + 1)) cs.length = i + min (lim - i) (cs.length + 1) := by omega
      have hcl : copyLoop lim (c :: cs) i m = copyLoop lim cs (i + 1) (m.store i c) := by
        simp only [copyLoop, hlt, if_true]
      rw [hcl]
      simp only [List.length_cons]
      refine ⟨by rw [h1, hk], by rw [h2, hst], by rw [h3, hst], by rw [h4, hst]; simp, ?_, ?_⟩
      · intro j hj1 hj2
        by_cases hj : j = i
        · subst hj
          rw [h6 j (Or.inl (by omega)), hst]
          simp only [Nat.sub_self, List.getElem?_cons_zero]
          exact List.getElem?_set_self hi
        · have he : j - i = (j - (i + 1)) + 1 := by omega
          rw [h5 j (by omega) (by omega), he, List.getElem?_cons_succ]
      · intro j hj
        rw [h6 j (by omega)]
        exact store_other m i j c (by omega)
    · have hz : lim - i = 0 := by omega
      have hcl : copyLoop lim (c :: cs) i m = (i, m) := by simp only [copyLoop, hlt, if_false]
      rw [hcl, hz]
      refine ⟨by simp, rfl, rfl, rfl, ?_, fun _ _ => rfl⟩
      intro j h1 h2
      simp only [Nat.zero_min, Nat.add_zero] at h2
      omega

/-- The copy loop never touches bytes below its start index nor the bytes below `dst`. -/
private theorem copyLoop_below (lim : Nat) (rest : List UInt8) (i : Nat) (m : Mem) :
    (copyLoop lim rest i m).2.pre = m.pre ∧ ∀ j, j < i → (copyLoop lim rest i m).2.buf[j]? = m.buf[j]? := by
  induction rest generalizing i m with
  | nil => exact ⟨rfl, fun _ _ => rfl⟩
  | cons c cs ih =>
    by_cases hlt : i < lim
    · obtain ⟨h1, h2⟩ := ih (i + 1) (m.store i c)
      have hcl : copyLoop lim (c :: cs) i m = copyLoop lim cs (i + 1) (m.store i c) := by
        simp only [copyLoop, hlt, if_true]
      rw [hcl]
      constructor
      · rw [h1, store_pre]
      · intro j hj
        rw [h2 j (by omega)]
        exact store_other m i j c (by omega)
    · have hcl : copyLoop lim (c :: cs) i m = (i, m) := by simp only [copyLoop, hlt, if_false]
      rw [hcl]
      exact ⟨rfl, fun _ _ => rfl⟩

private theorem sizeSubOne_pos {dstlen : Nat} (h0 : dstlen ≠ 0) (hsz : dstlen < 2 ^ 64) :
    sizeSubOne dstlen = dstlen - 1 := by
  unfold sizeSubOne
  have : dstlen + (2 ^ 64 - 1) = (dstlen - 1) + 2 ^ 64 := by omega
  rw [this, Nat.add_mod_right, Nat.mod_eq_of_lt (by omega)]

private theorem cDoFixed_pos (m : Mem) (dstlen : Nat) (text : List UInt8) (h0 : dstlen ≠ 0) :
    cDoFixed m false dstlen text =
      (text.length, (copyLoop (dstlen - 1) text 0 m).2.store (copyLoop (dstlen - 1) text 0 m).1 0) := by
  have hb : (dstlen == 0) = false := by simpa using h0
  simp only [cDoFixed, hb, Bool.false_or, Bool.false_eq_true, if_false]

/-- **The C binding never writes more than the caller's buffer size and always NUL-terminates**
(intended `Teakra_Disasm_Do`, `cDoFixed`): for a caller buffer of `dstlen` bytes at `dst` (the first
`dstlen` bytes of `m.buf`; whatever lies around it is arbitrary) and any text,
* the return value is the full text length;
* nothing below `dst` and nothing at index `≥ dstlen` changes, and no store leaves the modelled memory —
  every write goes to an index `< dstlen`;
* if `dstlen > 0`, the byte at index `min(len, dstlen-1)` is NUL and the bytes before it are the text's
  prefix: the buffer holds a proper C string, NUL directly after the copied text;
* `dstlen = 0` writes nothing at all, and neither does `dst = NULL`. -/
theorem cDo_bounds (m : Mem) (dstlen : Nat) (text : List UInt8) (hbuf : dstlen ≤ m.buf.length) :
    (cDoFixed m false dstlen text).1 = text.length ∧
    (cDoFixed m false dstlen text).2.oob = m.oob ∧
    (cDoFixed m false dstlen text).2.pre = m.pre ∧
    (cDoFixed m false dstlen text).2.buf.length = m.buf.length ∧
    (∀ j, dstlen ≤ j → (cDoFixed m false dstlen text).2.buf[j]? = m.buf[j]?) ∧
    (0 < dstlen →
      (cDoFixed m false dstlen text).2.buf[min text.length (dstlen - 1)]? = some 0 ∧
      ∀ j, j < min text.length (dstlen - 1) → (cDoFixed m false dstlen text).2.buf[j]? = text[j]?) ∧
    (dstlen = 0 → (cDoFixed m false dstlen text).2 = m) ∧
    (cDoFixed m true dstlen text) = (text.length, m) := by
  have hnull : cDoFixed m true dstlen text = (text.length, m) := by simp [cDoFixed]
  by_cases h0 : dstlen = 0
  · subst h0
    have : cDoFixed m false 0 text = (text.length, m) := by simp [cDoFixed]
    rw [this]
    exact ⟨rfl, rfl, rfl, rfl, fun _ _ => rfl, fun h => absurd h (by omega), fun _ => rfl, hnull⟩
  · have hfit : 0 + min (dstlen - 1 - 0) text.length ≤ m.buf.length := by omega
    obtain ⟨h1, h2, h3, h4, h5, h6⟩ := copyLoop_spec (dstlen - 1) text 0 m hfit
    have hn : (copyLoop (dstlen - 1) text 0 m).1 = min text.length (dstlen - 1) := by rw [h1]; omega
    have hi : min text.length (dstlen - 1) < (copyLoop (dstlen - 1) text 0 m).2.buf.length := by
      rw [h4]; omega
    rw [cDoFixed_pos m dstlen text h0, hn, store_in _ _ _ hi]
    refine ⟨rfl, h2, h3, by simp [h4], ?_, ?_, fun h => absurd h h0, hnull⟩
    · intro j hj
      show ((copyLoop (dstlen - 1) text 0 m).2.buf.set _ 0)[j]? = _
      rw [List.getElem?_set_ne (by omega), h6 j (Or.inr (by omega))]
    · intro _
      constructor
      · exact List.getElem?_set_self hi
      · intro j hj
        show ((copyLoop (dstlen - 1) text 0 m).2.buf.set _ 0)[j]? = _
        rw [List.getElem?_set_ne (by omega), h5 j (by omega) (by omega), Nat.sub_zero]

/-- **Counterexample 1 for the code as found** (`cDo`): with `dstlen = 0` — a caller that owns no byte at
all — and any non-empty text, the byte *below* `dst` is overwritten with NUL (`dst[dstlen-1]` with
`dstlen-1 = 2^64-1`) and `dst[0]`, which is outside the caller's (empty) buffer, receives the first
character (the loop bound `i < dstlen-1` is `i < 2^64-1`). -/
theorem cDo_zero_out_of_bounds (below : UInt8) (pre : List UInt8) (b : UInt8) (bs : List UInt8)
    (c : UInt8) (cs : List UInt8) (oob : Bool) :
    (cDo ⟨below :: pre, b :: bs, oob⟩ false 0 (c :: cs)).2.pre = 0 :: pre ∧
    (cDo ⟨below :: pre, b :: bs, oob⟩ false 0 (c :: cs)).2.buf[0]? = some c := by
  have hl : 0 < sizeSubOne 0 := by decide
  have hst : Mem.store ⟨below :: pre, b :: bs, oob⟩ 0 c = ⟨below :: pre, c :: bs, oob⟩ := by
    simp [Mem.store]
  obtain ⟨h1, h2⟩ := copyLoop_below (sizeSubOne 0) cs 1 ⟨below :: pre, c :: bs, oob⟩
  have hcd : cDo ⟨below :: pre, b :: bs, oob⟩ false 0 (c :: cs) =
      ((c :: cs).length, (copyLoop (sizeSubOne 0) cs 1 ⟨below :: pre, c :: bs, oob⟩).2.storeBelow 0 0) := by
    simp only [cDo, Bool.false_eq_true, if_false, if_true, copyLoop, hl, hst]
  rw [hcd]
  have hp : 0 < (copyLoop (sizeSubOne 0) cs 1 ⟨below :: pre, c :: bs, oob⟩).2.pre.length := by
    rw [h1]; simp
  constructor
  · simp [Mem.storeBelow, h1]
  · have := h2 0 (by omega)
    simp only [Mem.storeBelow, hp, if_true]
    rw [this]; rfl

/-- **Counterexample 2 for the code as found**: whenever the buffer is more than one byte longer than the
text (`len + 1 < dstlen`), the NUL goes to the *last* byte `dst[dstlen-1]`; the byte directly after the
copied text keeps whatever the caller's buffer held, as do all bytes up to `dstlen-2` — the result is a
C string only if the caller had zeroed the buffer. -/
theorem cDo_no_nul_after_text (m : Mem) (dstlen : Nat) (text : List UInt8)
    (hbuf : dstlen ≤ m.buf.length) (hsz : dstlen < 2 ^ 64) (hlong : text.length + 1 < dstlen) :
    (∀ j, text.length ≤ j → j < dstlen - 1 → (cDo m false dstlen text).2.buf[j]? = m.buf[j]?) ∧
    (cDo m false dstlen text).2.buf[dstlen - 1]? = some 0 := by
  have h0 : dstlen ≠ 0 := by omega
  have hs := sizeSubOne_pos h0 hsz
  have hfit : 0 + min (dstlen - 1 - 0) text.length ≤ m.buf.length := by omega
  obtain ⟨_, _, _, h4, _, h6⟩ := copyLoop_spec (dstlen - 1) text 0 m hfit
  have hi : dstlen - 1 < (copyLoop (dstlen - 1) text 0 m).2.buf.length := by rw [h4]; omega
  have hcd : cDo m false dstlen text =
      (text.length, (copyLoop (dstlen - 1) text 0 m).2.store (dstlen - 1) 0) := by
    simp only [cDo, Bool.false_eq_true, if_false, h0, hs]
  rw [hcd, store_in _ _ _ hi]
  constructor
  · intro j hj1 hj2
    show ((copyLoop (dstlen - 1) text 0 m).2.buf.set _ 0)[j]? = _
    rw [List.getElem?_set_ne (by omega), h6 j (Or.inr (by omega))]
  · exact List.getElem?_set_self hi

/-- The two versions agree exactly when the text fills the buffer (`0 < dstlen ≤ len + 1`): the defect is
invisible to callers that always truncate. -/
theorem cDo_eq_fixed_of_tight (m : Mem) (dstlen : Nat) (text : List UInt8)
    (hbuf : dstlen ≤ m.buf.length) (hsz : dstlen < 2 ^ 64) (hpos : 0 < dstlen)
    (htight : dstlen ≤ text.length + 1) :
    cDo m false dstlen text = cDoFixed m false dstlen text := by
  have h0 : dstlen ≠ 0 := by omega
  have hs := sizeSubOne_pos h0 hsz
  have hfit : 0 + min (dstlen - 1 - 0) text.length ≤ m.buf.length := by omega
  obtain ⟨h1, _⟩ := copyLoop_spec (dstlen - 1) text 0 m hfit
  have hn : (copyLoop (dstlen - 1) text 0 m).1 = dstlen - 1 := by rw [h1]; omega
  rw [cDoFixed_pos m dstlen text h0, hn]
  simp only [cDo, Bool.false_eq_true, if_false, h0, hs]

/-- Concrete replay of counterexample 1: `dstlen = 0`, text `"nop"`, one canary byte below and four above. -/
example : cDo ⟨[0xAA], [0xAA, 0xAA, 0xAA, 0xAA], false⟩ false 0 [0x6e, 0x6f, 0x70] =
    (3, ⟨[0x00], [0x6e, 0x6f, 0x70, 0xAA], false⟩) := by decide

/-- Concrete replay of counterexample 2: `dstlen = 8`, text `"nop"`: `6e 6f 70 aa aa aa aa 00`. -/
example : cDo ⟨[], List.replicate 8 0xAA, false⟩ false 8 [0x6e, 0x6f, 0x70] =
    (3, ⟨[], [0x6e, 0x6f, 0x70, 0xAA, 0xAA, 0xAA, 0xAA, 0x00], false⟩) := by decide

/-- The intended behaviour on the same inputs, and on a truncating buffer. -/
example : cDoFixed ⟨[0xAA], [0xAA, 0xAA, 0xAA, 0xAA], false⟩ false 0 [0x6e, 0x6f, 0x70] =
      (3, ⟨[0xAA], [0xAA, 0xAA, 0xAA, 0xAA], false⟩) ∧
    cDoFixed ⟨[], List.replicate 8 0xAA, false⟩ false 8 [0x6e, 0x6f, 0x70] =
      (3, ⟨[], [0x6e, 0x6f, 0x70, 0x00, 0xAA, 0xAA, 0xAA, 0xAA], false⟩) ∧
    cDoFixed ⟨[], List.replicate 4 0xAA, false⟩ false 3 [0x6e, 0x6f, 0x70] =
      (3, ⟨[], [0x6e, 0x6f, 0x00, 0xAA], false⟩) := by decide

end Teakra.CDo
