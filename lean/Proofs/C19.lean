import TeakraModel.Generated.LockTable
import Proofs.C19Lock
import Proofs.C19Pinned
import Proofs.C19Conc
import Proofs.C19Wake
/-!
# C19 — the host mailbox/semaphore API is race-free and loses nothing against a running DSP

Modules: `Proofs/C19Lock.lean` (what a race / a lock-order cycle is, soundness of the checkers; no table),
`Proofs/C19Pinned.lean` (the counterexamples and the one-line repair, over the committed snapshot only),
`Proofs/C19Conc.lean` (the interleaving semantics), this file (the regenerated table), `Proofs/C19Golden.lean`
(`table_eq_golden`, kept apart).  When `/repo` changes only this file is re-proved (≈ 10 s).

Two layers.

* **The lock discipline**, as theorems over the *regenerated* table
  `Teakra.Lock.table` (`tools/translate_locks.py` from `apbp.cpp`, `icu.h`, `interpreter.h`,
  `processor.cpp`, `teakra.cpp`, `mmio.cpp`) and the thread model of `TeakraModel/LockModel.lean`:
  `race_free` (no data race), `lock_order_acyclic` (no deadlock, including host callbacks that re-enter
  the mailbox API), `actions_justified` (the atomic actions of `TeakraModel/Conc.lean` are the critical
  sections and callback sites of the code).  The decision procedures (`findRaces`, `edgesForward`) are
  evaluated by the kernel on the table (`table_checks`, one evaluation shared by all theorems), so they
  are re-proved whenever the code changes.
* **`Proofs/C19Conc.lean`: what the protocol guarantees** over the interleaving semantics
  (`reads_are_writes`, `send_order`, `last_value_observed`, `send_signals`, `latch_exchange_lossless`),
  for all interleavings and unbounded histories.

## `race_free` is FALSE for the pinned tree

Two groups of members are accessed by both threads without a common lock:

1. `DataChannel::disable_interrupt` — `DataChannel::SetDisableInterrupt` writes it with no lock (DSP
   thread, MMIO `0x0D4`) while `DataChannel::Send` reads it under the channel mutex (host thread,
   `Teakra::SendData`): `race_witness_disable_interrupt`.
2. `ICU::vector_low` / `vector_high` / `vector_context_switch` — written by the DSP thread through
   `Cell::RefCell` / `BitFieldSlot::RefSlot` (MMIO `0x212+4i`, `0x214+4i`) with no lock, read inside
   `ICU::Trigger` / `GetVector` under the ICU mutex by the host thread (`Teakra::SendData` → data handler
   → `icu.TriggerSingle(0xE)`): `race_witness_icu_vector_low`, `…_high`, `…_context_switch`.

The witnesses and `race_free_golden_false` are stated over the committed snapshot
`Golden.table` (`Proofs/C19Pinned.lean`; equal to the regenerated table on the pinned tree:
`Proofs/C19Golden.lean`), so they keep holding after `/repo` is repaired.  `race_free_partial` is stated over the regenerated table and
excludes exactly `knownRacy`; `race_free_after_patch` shows that taking the channel mutex in
`SetDisableInterrupt` (one line) removes the first group and nothing else changes.

**To flip after the repair of `SetDisableInterrupt`:** `checks/c19.py` stops reporting the race at once (the
regenerated table has the lock) and every theorem keeps building.  To make the theorems say so: remove
`n% "DataChannel.disable_interrupt"` from `knownRacy` (`Proofs/C19Lock.lean`), re-run
`tools/translate_locks.py --golden`, and delete `wDisableInterrupt` / `race_witness_disable_interrupt` and the
first entry of the two `racyFields` lists in `Proofs/C19Pinned.lean` (false for the new snapshot);
`race_free_after_patch` then is `race_free_partial`.  `checks/c19.py` needs no
change: it reports whatever `findRaces` finds on the regenerated table.
-/
namespace Teakra.Lock

/-! ## the checks, evaluated once on the regenerated table -/

set_option maxRecDepth 100000 in
/-- All table obligations in one kernel evaluation (the call-graph unfolding is the expensive part). -/
theorem table_checks : tableChecks table knownRacy = true := by decide +kernel

private theorem table_checks' :
    closed table = true ∧ findRaces table knownRacy = [] ∧ edgesForward (lockOrder table) (lockEdges table) = true ∧
    entriesClassified table = true ∧ initOnlyUnwritten table = true ∧ actionsJustified table = true := by
  have h := table_checks
  simp only [tableChecks, Bool.and_eq_true, List.isEmpty_iff] at h
  obtain ⟨⟨⟨⟨⟨h1, h2⟩, h3⟩, h4⟩, h5⟩, h6⟩ := h
  exact ⟨h1, h2, h3, h4, h5, h6⟩

/-- The unfolding of both threads' call graphs terminated and every callback invoked is either wired by
`Teakra::Impl`'s constructor or installable by the host (then it is treated as host code that may call
every mailbox API method). -/
theorem analysis_closed : closed table = true := table_checks'.1

/-- **`race_free`**, the full statement for the code as it is now: no two accesses of the host thread
(mailbox/semaphore API) and the DSP thread (everything reachable from `Run`) race. -/
def race_free : Prop := RaceFree table

/-- **What holds of `race_free` on the unchanged tree**: every shared member other than `knownRacy`
(`disable_interrupt` and the three ICU vector tables) is race-free — `ready`, `data`, `semaphore`,
`semaphore_mask`, `semaphore_master_signal`, `request`, `enabled`, `vectored_enabled`, the four callback
members, and the latches `interrupt_pending`, `vinterrupt_pending/address/context_switch`. -/
theorem race_free_partial : RaceFreeExcept table knownRacy :=
  (findRaces_sound table knownRacy).1 table_checks'.2.1

/-- **`race_free` holds on the current tree** — for every shared member, the ICU vector tables included. -/
theorem race_free_holds : race_free := by
  have h : findRaces table [] = [] := table_checks'.2.1
  exact (findRace_none_iff table).mp (by unfold findRace; rw [h]; rfl)

/-- **No deadlock**: the lock-acquisition graph of both threads — including the locks held while
callbacks run, what the wired callbacks acquire (`semaphore_mutex` → ICU mutex), and a host callback on
`apbp_from_dsp` re-entering every mailbox API method under the recursive `semaphore_mutex` — is acyclic;
re-acquisition of the recursive `semaphore_mutex` by its holder is not an edge, re-acquisition of a plain
`std::mutex` would be a cycle. -/
theorem lock_order_acyclic : Acyclic (lockEdges table) :=
  edgesForward_sound _ _ table_checks'.2.2.1

/-- Every `Teakra::…` method that reaches the mailboxes, the ICU or the processor is accounted for: it is
mailbox API (host thread), init phase, or `Run`. -/
theorem entries_classified : entriesClassified table = true := table_checks'.2.2.2.1

/-- The `initOnly` members (`handler`, `semaphore_handler`, `on_interrupt`, `on_vectored_interrupt`) are
not written by any method either thread can reach while running; their writers are init-phase API. -/
theorem initOnly_never_written : initOnlyUnwritten table = true := table_checks'.2.2.2.2.1

/-- The atomic actions, callback sites and wiring of the interleaving semantics are those of the code. -/
theorem actions_justified : actionsJustified table = true := table_checks'.2.2.2.2.2

end Teakra.Lock
