import TeakraModel.RunLoop
/-!
# C06 — `Run(n)` is equivalent to `n` single-cycle steps, however it is sliced

Part 1: the control structure.  For ANY state type and ANY body / tick / skip operations that
satisfy the three stated obligations, `Run(cycles)` equals `cycles` single cycles; hence every
slicing of the budget gives the same result.  The obligations are discharged for the concrete
machine elsewhere (`skip = ticks` is C15/C16 lifted to `CoreTiming`; "the body is the identity
while idling with nothing pending" is the self-branch lemma).
-/
namespace Teakra.LoopOps
variable {ε S : Type} (o : LoopOps ε S)

/-- What the fast path needs from the machine. -/
structure FastForwardOk (o : LoopOps ε S) where
  /-- an invariant of the machine: kept by a tick, and re-established by every loop body that is
  followed by a successful tick (the tick checks the peripherals' configuration) -/
  P : S → Prop
  P_tick : ∀ s s', P s → o.tick s = .ok s' → P s'
  P_cycle : ∀ s s1 s2, P s → o.body s = .ok s1 → o.tick s1 = .ok s2 → P s2
  /-- the largest cycle budget the statement covers (`Run` takes a 64-bit count) -/
  bound : Nat
  /-- horizon reported by the peripherals in a state -/
  horizon : S → Nat
  /-- `Skip(m)` advances by `k = min m horizon` cycles and equals `k` ticks -/
  skip_eq : ∀ s m, P s → o.skipAllowed s = true → m < bound →
    o.skip s m = (o.ticksN (min m (horizon s)) s).map fun s' => (s', min m (horizon s))
  /-- while the fast-forward condition holds and within the horizon, ticks keep it true … -/
  quiet : ∀ s, P s → o.skipAllowed s = true → ∀ j, j ≤ horizon s → ∀ s', o.ticksN j s = .ok s' → o.skipAllowed s' = true
  /-- … and the loop body is the identity on such states (the core only re-executes its self-branch) -/
  idle_body : ∀ s, P s → o.skipAllowed s = true → o.body s = .ok s

variable {o}

private theorem ticksN_add (a b : Nat) (s : S) :
    o.ticksN (a + b) s = (o.ticksN a s) >>= fun s' => o.ticksN b s' := by
  induction a generalizing s with
  | zero => simp only [Nat.zero_add, ticksN]; rfl
  | succ a ih =>
    rw [Nat.succ_add]
    simp only [ticksN]
    cases h : o.tick s with
    | error e => rfl
    | ok s1 => simp only [bind, Except.bind]; exact ih s1

private theorem cyclesN_add (a b : Nat) (s : S) :
    o.cyclesN (a + b) s = (o.cyclesN a s) >>= fun s' => o.cyclesN b s' := by
  induction a generalizing s with
  | zero => simp only [Nat.zero_add, cyclesN]; rfl
  | succ a ih =>
    rw [Nat.succ_add]
    simp only [cyclesN]
    cases h : o.body s with
    | error e => rfl
    | ok s1 =>
      simp only [bind, Except.bind]
      cases h2 : o.tick s1 with
      | error e => rfl
      | ok s2 => simp only []; exact ih s2

private theorem P_ticksN (h : FastForwardOk o) (k : Nat) : ∀ s s', h.P s → o.ticksN k s = .ok s' → h.P s' := by
  induction k with
  | zero => intro s s' hp ht; simp only [ticksN] at ht; cases ht; exact hp
  | succ k ih =>
    intro s s' hp ht
    simp only [ticksN] at ht
    cases h1 : o.tick s with
    | error e => rw [h1] at ht; cases ht
    | ok s1 => rw [h1] at ht; exact ih s1 s' (h.P_tick s s1 hp h1) ht

/-- The invariant holds after any number of completed single cycles. -/
theorem P_cyclesN (h : FastForwardOk o) (k : Nat) : ∀ s s', h.P s → o.cyclesN k s = .ok s' → h.P s' := by
  induction k with
  | zero => intro s s' hp ht; simp only [cyclesN] at ht; cases ht; exact hp
  | succ k ih =>
    intro s s' hp ht
    simp only [cyclesN] at ht
    cases h1 : o.body s with
    | error e => rw [h1] at ht; cases ht
    | ok s1 =>
      rw [h1] at ht
      cases h2 : o.tick s1 with
      | error e => simp only [bind, Except.bind, h2] at ht; cases ht
      | ok s2 =>
        simp only [bind, Except.bind, h2] at ht
        exact ih s2 s' (h.P_cycle s s1 s2 hp h1 h2) ht

/-- While idling, single cycles are just ticks — up to one cycle past the horizon (the body of
that last cycle still runs in a state inside the horizon). -/
private theorem cycles_eq_ticks (h : FastForwardOk o) (k : Nat) :
    ∀ s, h.P s → o.skipAllowed s = true → k ≤ h.horizon s + 1 → o.cyclesN k s = o.ticksN k s := by
  induction k with
  | zero => intro s _ _ _; rfl
  | succ k ih =>
    intro s hp hs hk
    -- split off the LAST cycle instead of the first, so the horizon of `s` bounds everything
    rw [cyclesN_add k 1, ticksN_add k 1, ih s hp hs (by omega)]
    cases hk' : o.ticksN k s with
    | error e => rfl
    | ok s' =>
      have hq := h.quiet s hp hs k (by omega) s' hk'
      have hp' := P_ticksN h k s s' hp hk'
      simp only [bind, Except.bind, cyclesN, ticksN, h.idle_body s' hp' hq]

private theorem bind_assoc' {α β γ : Type} (x : Except ε α) (f : α → Except ε β) (g : β → Except ε γ) :
    (x >>= f) >>= g = x >>= fun a => f a >>= g := by
  cases x <;> rfl

/-- The `for` loop from index `i` equals `cycles − i` single cycles. -/
theorem go_eq_cycles (h : FastForwardOk o) (cycles : Nat) (hc : cycles ≤ h.bound) :
    ∀ fuel i s, h.P s → cycles - i ≤ fuel → o.go cycles fuel i s = o.cyclesN (cycles - i) s := by
  intro fuel
  induction fuel with
  | zero =>
    intro i s _ hf
    have : cycles - i = 0 := by omega
    simp [go, this, cyclesN]
  | succ fuel ih =>
    intro i s hp hf
    unfold go
    by_cases hi : i < cycles
    · simp only [hi, if_true]
      obtain ⟨n, hn⟩ : ∃ n, cycles - i = n + 1 := ⟨cycles - i - 1, by omega⟩
      by_cases hs : o.skipAllowed s = true
      · have hkdef : cycles - i - 1 = n := by omega
        simp only [hs, if_true, h.skip_eq s (cycles - i - 1) hp hs (by omega)]
        rw [hkdef]
        by_cases hlt : min n (h.horizon s) < n
        · -- the skip stops at the peripherals' horizon: one extra tick, then the loop body
          have hk : min n (h.horizon s) = h.horizon s := by omega
          have hcond : i + h.horizon s < cycles - 1 := by omega
          rw [hk] at *
          have hslow : o.cyclesN (cycles - i) s =
              (o.ticksN (h.horizon s + 1) s) >>= fun s' => o.cyclesN (cycles - i - (h.horizon s + 1)) s' := by
            have : cycles - i = (h.horizon s + 1) + (cycles - i - (h.horizon s + 1)) := by omega
            rw [this, cyclesN_add, cycles_eq_ticks h _ s hp hs (by omega)]
            congr 1
            funext s'
            congr 1
            omega
          rw [hslow, ticksN_add (h.horizon s) 1]
          cases ht : o.ticksN (h.horizon s) s with
          | error e => rfl
          | ok s1 =>
            have hp1 := P_ticksN h _ s s1 hp ht
            simp only [Except.map, bind, Except.bind, hcond, if_true, pure, Except.pure, ticksN]
            cases ht2 : o.tick s1 with
            | error e => rfl
            | ok s2 =>
              have hp2 := h.P_tick s1 s2 hp1 ht2
              simp only []
              obtain ⟨m, hm⟩ : ∃ m, cycles - i - (h.horizon s + 1) = m + 1 := ⟨cycles - i - (h.horizon s + 1) - 1, by omega⟩
              rw [hm]
              simp only [cyclesN, bind, Except.bind]
              cases hb : o.body s2 with
              | error e => rfl
              | ok s3 =>
                simp only []
                cases ht3 : o.tick s3 with
                | error e => rfl
                | ok s4 =>
                  simp only []
                  rw [ih (i + h.horizon s + 1 + 1) s4 (h.P_cycle s2 s3 s4 hp2 hb ht3) (by omega)]
                  congr 1
                  omega
        · -- the skip covers the rest of the slice: no extra tick, the body runs on the last cycle
          have hk : min n (h.horizon s) = n := by omega
          have hcond : ¬ (i + n < cycles - 1) := by omega
          rw [hk]
          have hslow : o.cyclesN (cycles - i) s = (o.ticksN n s) >>= fun s' => o.cyclesN 1 s' := by
            rw [hn, cyclesN_add n 1, cycles_eq_ticks h n s hp hs (by omega)]
          rw [hslow]
          cases ht : o.ticksN n s with
          | error e => rfl
          | ok s1 =>
            have hp1 := P_ticksN h _ s s1 hp ht
            simp only [Except.map, bind, Except.bind, hcond, if_false, pure, Except.pure, cyclesN]
            cases hb : o.body s1 with
            | error e => rfl
            | ok s2 =>
              simp only []
              cases ht2 : o.tick s2 with
              | error e => rfl
              | ok s3 =>
                simp only []
                rw [ih (i + n + 1) s3 (h.P_cycle s1 s2 s3 hp1 hb ht2) (by omega)]
                have : cycles - (i + n + 1) = 0 := by omega
                rw [this]; rfl
      · simp only [hs, Bool.false_eq_true, if_false, pure, Except.pure, bind, Except.bind]
        rw [hn]
        simp only [cyclesN, bind, Except.bind]
        cases hb : o.body s with
        | error e => rfl
        | ok s1 =>
          simp only []
          cases ht : o.tick s1 with
          | error e => rfl
          | ok s2 =>
            simp only []
            rw [ih (i + 1) s2 (h.P_cycle s s1 s2 hp hb ht) (by omega)]
            congr 1
            omega
    · simp only [hi, if_false]
      have : cycles - i = 0 := by omega
      rw [this]; rfl

/-- **`Run(n)` is `n` single cycles.**  The fast-forward taken while the program idles is
unobservable: with the obligations of `FastForwardOk`, executing `n` cycles in one call gives
exactly the state (and abort behaviour) of stepping every cycle individually. -/
theorem run_eq_cycles (h : FastForwardOk o) (n : Nat) (hn : n ≤ h.bound) (s : S) (hp : h.P (o.start s)) :
    o.run n s = o.cyclesN n (o.start s) := by
  unfold run
  rw [go_eq_cycles h n hn n 0 (o.start s) hp (by omega)]
  rfl


/-! ## slicing -/

/-- An observation of the state that forgets exactly what `Run` re-initialises at its start (the
`idle` flag) and that the body and the tick respect. -/
structure ObsOk (o : LoopOps ε S) (h : FastForwardOk o) {O : Type} (obs : S → O) where
  start_obs : ∀ s, obs (o.start s) = obs s
  P_start : ∀ s, h.P s → h.P (o.start s)
  body_congr : ∀ s t, h.P s → h.P t → obs s = obs t → (o.body s).map obs = (o.body t).map obs
  tick_congr : ∀ s t, obs s = obs t → (o.tick s).map obs = (o.tick t).map obs

private theorem map_eq_cases {α β : Type} {x y : Except ε α} {f : α → β} (h : x.map f = y.map f) :
    (∃ e, x = .error e ∧ y = .error e) ∨ (∃ a b, x = .ok a ∧ y = .ok b ∧ f a = f b) := by
  cases x <;> cases y <;> simp [Except.map] at h
  · left; exact ⟨_, rfl, by rw [h]⟩
  · right; exact ⟨_, _, rfl, rfl, h⟩

private theorem cyclesN_congr {O : Type} {obs : S → O} {h : FastForwardOk o} (hob : ObsOk o h obs) (n : Nat) :
    ∀ s t, h.P s → h.P t → obs s = obs t → (o.cyclesN n s).map obs = (o.cyclesN n t).map obs := by
  induction n with
  | zero => intro s t _ _ hst; simp [cyclesN, Except.map, hst]
  | succ n ih =>
    intro s t hps hpt hst
    simp only [cyclesN]
    rcases map_eq_cases (hob.body_congr s t hps hpt hst) with ⟨e, h1, h2⟩ | ⟨a, b, h1, h2, hab⟩
    · rw [h1, h2]
    · rw [h1, h2]
      simp only [bind, Except.bind]
      rcases map_eq_cases (hob.tick_congr a b hab) with ⟨e, h3, h4⟩ | ⟨a', b', h3, h4, hab'⟩
      · rw [h3, h4]
      · rw [h3, h4]
        exact ih a' b' (h.P_cycle s a a' hps h1 h3) (h.P_cycle t b b' hpt h2 h4) hab'

/-- **Any two-way slicing.**  `Run(m + n)` and `Run(m)` followed by `Run(n)` are observationally
equal (same registers, memory, peripheral state and events — everything `obs` keeps), including
when either call aborts. -/
theorem run_slice {O : Type} {obs : S → O} (h : FastForwardOk o) (hob : ObsOk o h obs) (m n : Nat)
    (hb : m + n ≤ h.bound) (s : S) (hp : h.P s) :
    (o.run (m + n) s).map obs = ((o.run m s) >>= fun s' => o.run n s').map obs := by
  have hp0 := hob.P_start s hp
  rw [run_eq_cycles h _ hb s hp0, run_eq_cycles h m (by omega) s hp0, cyclesN_add]
  cases hm : o.cyclesN m (o.start s) with
  | error e => rfl
  | ok s1 =>
    have hp1 := P_cyclesN h m _ s1 hp0 hm
    simp only [bind, Except.bind]
    rw [run_eq_cycles h n (by omega) s1 (hob.P_start s1 hp1)]
    exact cyclesN_congr hob n s1 (o.start s1) hp1 (hob.P_start s1 hp1) (hob.start_obs s1).symm

/-- Run a list of slices one after the other. -/
def runSlices (o : LoopOps ε S) : List Nat → S → Except ε S
  | [], s => .ok s
  | n :: ns, s => (o.run n s) >>= fun s' => runSlices o ns s'

/-- The invariant holds after every completed `Run`. -/
theorem P_run {O : Type} {obs : S → O} (h : FastForwardOk o) (hob : ObsOk o h obs) (n : Nat) (hn : n ≤ h.bound)
    (s s' : S) (hp : h.P s) (hr : o.run n s = .ok s') : h.P s' := by
  rw [run_eq_cycles h n hn s (hob.P_start s hp)] at hr
  exact P_cyclesN h n _ s' (hob.P_start s hp) hr

/-- **Every partition of the cycle budget.**  Executing the slices `n₁, n₂, …` in sequence is
observationally equal to one call with their sum. -/
theorem run_partition {O : Type} {obs : S → O} (h : FastForwardOk o) (hob : ObsOk o h obs) (ns : List Nat)
    (hb : ns.sum ≤ h.bound) :
    ∀ s, h.P s → (runSlices o ns s).map obs = (o.run ns.sum s).map obs := by
  induction ns with
  | nil =>
    intro s hp
    simp only [runSlices, List.sum_nil, run_eq_cycles h 0 (by omega) s (hob.P_start s hp), cyclesN, Except.map,
      hob.start_obs]
  | cons n ns ih =>
    intro s hp
    rw [List.sum_cons] at hb
    rw [List.sum_cons, run_slice h hob n ns.sum hb s hp]
    simp only [runSlices]
    cases hn : o.run n s with
    | error e => rfl
    | ok s1 => exact ih (by omega) s1 (P_run h hob n (by omega) s s1 hp hn)

end Teakra.LoopOps
