import TeakraModel.Generated.MmioBind
import TeakraModel.Golden.MmioBind
/-!
The cell bindings translated from `src/mmio.cpp` of the tree under test equal the committed translation of the pinned tree,
against which the per-cell read/write functions of `TeakraModel/Mmio.lean` were written.
-/
namespace Teakra

theorem bind_eq_golden : Generated.mmioBind = Golden.mmioBind ∧ Generated.mmioDups = Golden.mmioDups := by decide +kernel

end Teakra
