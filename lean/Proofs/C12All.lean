import Proofs.C12
import Proofs.C12Bind
