import Proofs.C02
import Proofs.C02Fetch
/-! All C02 theorems: the decode table (`Proofs/C02.lean`, over the table regenerated from `decoder.h`) and the
fetch loop's use of it (`Proofs/C02Fetch.lean`). -/
