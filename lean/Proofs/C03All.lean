import Proofs.C03
import Proofs.C03Exec
import Proofs.C03b
/-! All C03 theorems (value level `Proofs/C03.lean`, handler level `Proofs/C03Exec.lean`, `Proofs/C03b.lean`). -/
