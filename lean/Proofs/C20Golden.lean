import Proofs.C20
import TeakraModel.Golden.RegLayout
/-!
# C20 — the generated layout table equals the committed snapshot

Separate module so that a changed `register.h` breaks *this* file (telling the reader which table
entry moved) while `Proofs/C20.lean` is re-proved over the new table.
-/
namespace Teakra.Regs

/-- The table translated from the tree under test is the committed snapshot of the pinned tree. -/
theorem layouts_eq_golden : layouts = Golden.layouts := by decide +kernel

/-- So are the shadow lists and the `RegisterState` member list (used by C08 / C17). -/
theorem shadow_lists_eq_golden :
    shadowRegisters = Golden.shadowRegisters ∧ shadowSwapRegisters = Golden.shadowSwapRegisters ∧
    shadowSwapArArp = Golden.shadowSwapArArp ∧ stateFields = Golden.stateFields := by decide +kernel

/-- Writable masks of the 19 words of the pinned tree (for the record; `get_set` is about these). -/
theorem writable_golden : Golden.layouts.map (fun w => (w.1, writable w.2)) =
    [("cfgi", 0xFFFF#16), ("cfgj", 0xFFFF#16), ("stt0", 0x08FF#16), ("stt1", 0xC010#16), ("stt2", 0x00C0#16),
     ("mod0", 0x6FE3#16), ("mod1", 0xF0FF#16), ("mod2", 0xFFFF#16), ("mod3", 0xEFFF#16),
     ("st0", 0xFFFF#16), ("st1", 0xFCFF#16), ("st2", 0x03FF#16), ("icr", 0x000F#16),
     ("ar0", 0xFFFF#16), ("ar1", 0xFFFF#16), ("arp0", 0x6FFF#16), ("arp1", 0x6FFF#16),
     ("arp2", 0x6FFF#16), ("arp3", 0x6FFF#16)] := by decide +kernel

end Teakra.Regs
