import Proofs.C09.Book
import Proofs.C09.Plain
import Proofs.C09.Step
import Proofs.C09.Rep
import Proofs.C09.Nest
import Proofs.C09.Block
import Proofs.C09.BlockRun
import Proofs.C09.Program
import Proofs.C09.Handlers
import Proofs.C09.RegOnly
import Proofs.C09.Alu
import Proofs.C09.Decode
import Proofs.C09.Frame
import Proofs.C09.FrameRun
import Proofs.C09.Restore
import Proofs.C09.RoundTrip
/-!
# C09 — hardware loops execute their body exactly `count + 1` times

Everything is about the model of `Interpreter::Run`'s loop body, `cycle` (`TeakraModel/Run.lean`).

## A. One loop body, split at its join points (`Proofs/C09/Book.lean`)

`mainPhase_split` : after the latch, `cycle` = `fetchBook` (fetch, `repBook`, `loopBook`) → `exec1`
(`dispatch`) → `interruptCheck`, with no side condition.  `cycle_one` / `cycle_two` are the closed
forms for a one- / two-word instruction.  The bookkeeping is two pure functions on the register
file, with `book_rep_more`, `book_rep_last`, `book_rep_off`, `book_loop_back`, `book_loop_exit`,
`book_loop_inside`, `book_loop_off`, `book_bcn_range` (+ `cycle_bcn_range`: the model stops with
`oob` when `lp` is set and `bcn` is 0 or > 4, where the C++ indexes `bkrep_stack[bcn - 1]` outside
its four entries).

## B. Counting

* `Plain A h` (`Proofs/C09/Plain.lean`): `h` leaves the loop registers, `prpage`, `ie`, the latches
  and the program words at the addresses `A` alone (`frame`), and does not depend on the loop
  registers or the access log (`blind`).  Instances (`Handlers.lean`, `Alu.lean`): `plain_nop`,
  `plain_load_page`, `plain_load_modi`, `plain_modr` (`modr (Rn), step`), `plain_add_Ab_Bx`,
  `plain_sub_Ab_Bx` (accumulator add / sub with flags and saturation, all operand values).
* Equalities are stated through `seen`, i.e. on `loopView`: the whole machine state (registers,
  bus with memory and peripherals, event log, latches, idle flag) **except** the six loop registers
  `pc, rep, repc, lp, bcn, bkrep` and the memory-access log `Core.log`; the values of the six loop
  registers at the end are stated separately (`RepDone`, `BlkExit`), and `loopView_determines` says
  that the two together fix the final state up to the access log.  The access log is *not*
  compared (the loop logs one program fetch per iteration at the same address, the unrolled code
  would log fetches at consecutive addresses).
* `rep_unrolled`, `rep_sets`, `rep_program` (`Rep.lean`); `blockRepeat_push`, `blockRepeat_full`,
  `break_spec`, `break_outside`, `nested_exit`, `outer_exit` (`Nest.lean`); `blk_step`, `blk_pass`,
  `bkrep_unrolled`, `bkrep_counter` (`BlockRun.lean`; blocks of one- and two-word instructions, a
  two-word instruction may be the last one); `bkrep_program` (`Program.lean`).
* `Decode.lean`: the opcodes `nop`, `rep #imm8`, `rep r6`, `break`, `modr`, `bkrep #imm8, addr16`
  decode to their handlers (`fetches_*`), so the hypotheses `Fetches1` / `Fetches2` / `Code` reduce to
  statements about memory contents; `rep_imm8_modr` and `bkrep_imm8_nop_modr` below are fully
  spelled-out instances.

## C. Frame save / restore

`storeBlockRepeat_run`, `restoreBlockRepeat_run` (closed forms: which words at which addresses,
`packFlag` / `frameOf` bit packing, `storePop` / `restoreShift` / `restoreValid` on the loop
registers), `restore_store_words` (unpack ∘ pack = id on the word level), `restore_store_regs`
(pop then push-back is the identity on `bkrep, bcn, lp`, at every depth).  The hypotheses
`start, end < 2^18` and `lp ∈ {0, 1}` are necessary: `pack_needs_18bit`, `pack_needs_lp01`.
-/
namespace Teakra
open Exec ExecLemmas Interp Sys

/-- Outside the 18-bit address range the packing is not injective: bit 31 of `start` lands on the
valid bit of the flag word (the C++ `flag |= start >> 16` does the same). -/
theorem pack_needs_18bit : validOf (packFlag 0 { start := 0x80000000, end_ := 0, lc := 0 }) = 1 := by decide

/-- `lp << 15` keeps only bit 0 of `lp`. -/
theorem pack_needs_lp01 : validOf (packFlag 2 { start := 0, end_ := 0, lc := 0 }) = 0 := by decide

/-- **Instance: `rep #k` followed by `modr (Rn), step`.**  Memory holds the word `0x0C00 + k` at
`pc` and `0x0080 + 8 * step + n` behind it; interrupts disabled, no latch pending, no loop active.
Then `k + 2` loop bodies give the outcome of `k + 1` executions of the `modr` handler, and end
with `pc` behind both instructions, `rep = false`, `repc = 0`. -/
theorem rep_imm8_modr (c : Core) (k n st : Nat) (hk : k < 256) (hn : n < 8) (hst : st < 4)
    (accs accs' : List Access)
    (hrep : c.regs.rep = false) (hlp : c.regs.lp = 0) (hie : c.regs.ie = 0)
    (hip : c.ipend = Vector.replicate 3 false) (hvp : c.vpend = false)
    (hw0 : c.bus.programRead (fetchAddress c.regs) = .ok (BitVec.ofNat 16 (0x0C00 + k), accs))
    (hw1 : c.bus.programRead (fAddr c.regs.prpage (c.regs.pc + 1)) =
      .ok (BitVec.ofNat 16 (0x0080 + (8 * st + n)), accs')) :
    seen ((cycles (1 + (k + 1))).run c) = seen ((iter (Exec.modr_Rn_StepZIDS n st) (k + 1)).run c) ∧
    ∀ c', (cycles (1 + (k + 1))).run c = .ok ((), c') → RepDone (c.regs.pc + 1) c c' := by
  have hN : (imm16 k).toNat = k := by
    show (BitVec.ofNat 16 k).toNat = k
    rw [BitVec.toNat_ofNat]; omega
  have := rep_program (A := fun _ => True) (plain_modr _ n st) c (imm16 k) hrep hlp hie hip hvp
    (fetches_rep_imm8 c.bus _ accs k hk hw0) (fun _ _ => rfl) trivial
    (fetches_modr c.bus _ accs' n st hn hst hw1)
  rw [hN] at this
  exact this

/-- **Instance: `bkrep #k, 0x0103` at address `0x0100`, block `nop ; modr (Rn), step`.**  Memory
holds `0x5C00 + k`, `0x0103`, `0x0000`, `0x0080 + 8 * step + n` at `0x100 … 0x103`; no loop active,
interrupts disabled, no latch pending.  Then `1 + (k + 1) * 2` loop bodies give the outcome of
`k + 1` executions of `nop ; modr`, and end at `pc = 0x104` with `lp = 0`, `bcn = 0` and the counter
of frame 0 at 0. -/
theorem bkrep_imm8_nop_modr (c : Core) (k n st : Nat) (hk : k < 256) (hn : n < 8) (hst : st < 4)
    (a0 a1 a2 a3 : List Access)
    (hpc : c.regs.pc = 0x100) (hrep : c.regs.rep = false) (hlp : c.regs.lp = 0) (hbcn : c.regs.bcn = 0)
    (hie : c.regs.ie = 0) (hip : c.ipend = Vector.replicate 3 false) (hvp : c.vpend = false)
    (hw0 : c.bus.programRead (fAddr c.regs.prpage 0x100) = .ok (BitVec.ofNat 16 (0x5C00 + k), a0))
    (hw1 : c.bus.programRead (fAddr c.regs.prpage 0x101) = .ok (0x0103, a1))
    (hw2 : c.bus.programRead (fAddr c.regs.prpage 0x102) = .ok (0, a2))
    (hw3 : c.bus.programRead (fAddr c.regs.prpage 0x103) = .ok (BitVec.ofNat 16 (0x0080 + (8 * st + n)), a3)) :
    seen ((cycles (1 + (k + 1) * 2)).run c) =
      seen ((iter (seqH [Exec.nop, Exec.modr_Rn_StepZIDS n st]) (k + 1)).run c) ∧
    ∀ c', (cycles (1 + (k + 1) * 2)).run c = .ok ((), c') →
      BlkExit (fun _ => True) c.bus c.regs.prpage 0 0x102 0x103 c.regs.bkrep 1 c' := by
  have hN : (imm16 k).toNat = k := by
    show (BitVec.ofNat 16 k).toNat = k
    rw [BitVec.toNat_ofNat]; omega
  have hs : (c.regs.pc + 2).toNat = 0x102 := by rw [hpc]; rfl
  have hfa : fetchAddress c.regs = fAddr c.regs.prpage 0x100 := by rw [fetchAddress_eq, hpc]
  have hfb : fetchAddress (bumpPc c.regs) = fAddr c.regs.prpage 0x101 := by
    rw [fetchAddress_eq, bumpPc_pc, hpc]; rfl
  have hcode : Code c.bus c.regs.prpage 0x102 [Exec.nop, Exec.modr_Rn_StepZIDS n st] 0x104 :=
    .cons (ℓ := 1) (.inl ⟨rfl, fetches_nop c.bus _ a2 hw2⟩)
      (.cons (ℓ := 1) (.inl ⟨rfl, fetches_modr c.bus _ a3 n st hn hst hw3⟩) (.nil _))
  have key := bkrep_program (A := fun _ => True) (i := 0) c (imm16 k) 0x103
    (Exec.bkrep_Imm8_Address16 k (0x0103 : U16).toNat) Exec.nop [Exec.modr_Rn_StepZIDS n st]
    hrep hie hip hvp (by rw [hbcn]; rfl) (book_loop_off _ hlp)
    (by rw [hfa, hfb]; exact fetches_bkrep_imm8 c.bus _ _ a0 a1 k hk 0x0103 hw0 hw1)
    (by
      intro x hx
      rw [bkrep_Imm8_run, hx]
      show (Exec.blockRepeat _ (_ ||| ((c.regs.pc + BitVec.ofNat 32 2) &&& 0x30000))).run x = _
      rw [hpc]; rfl)
    (by decide) (fun _ _ _ => trivial)
    (by
      intro g hg
      rcases List.mem_cons.mp hg with rfl | hg
      · exact plain_nop _
      · rcases List.mem_cons.mp hg with rfl | hg
        · exact plain_modr _ n st
        · cases hg)
    (by rw [hs]; exact hcode)
  rw [hN, hs, hbcn] at key
  exact key

end Teakra
