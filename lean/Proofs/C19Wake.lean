import TeakraModel.Conc
import Proofs.C19Conc
/-!
# C19, lost-wake-up freedom of "enable the mailbox interrupt, then poll" over `TeakraModel/Conc.lean`

`Proofs/C19Conc.lean` proves per-send facts ("a send whose critical section found the interrupt enabled calls the
handler before it returns").  What a **stale read of the interrupt-disable flag** breaks is a property of the
*protocol*: the receiver enables the channel's interrupt and then polls the ready bit once; the sender concurrently
sends a word.  Then in every interleaving the poll sees the word or the send raises the interrupt
(`enable_then_poll_never_loses_wakeup`).  This needs the flag read and the `ready`/`data` store of
`DataChannel::Send` to be **one** atomic action; `split_send_loses_wakeup` exhibits the lost wake-up for a variant
semantics (`stepSplit`, defined here, not part of the model) in which `Send` samples the flag in an earlier
critical section.

Ghost state used (added to `Global`, read by no transition): `polls s ch` — the values `IsDataReady` returned, in
order; `sentIrq s ch` — for each word of `sent s ch`, whether that send found the interrupt enabled.

Contents:
* projections: `step_ghost` (what a step does to `polls`/`sentIrq`/`irqSends`), `step_pushed` (the calls a step
  pushes are calls of a host callback), `step_wview` (one channel's flag/word/`sent`/`polls`/`sentIrq`);
* stable properties: `noCall_step`, `irqSends_mono`;
* general invariants, arbitrary scripts: `signal_accounting`, `ready_by_enabled_send_signalled`; from an arbitrary
  state on: `enabled_window_sends_raise`, `ready_window_polls_true`;
* the scenario: `EnablePoll` (side conditions), `WakeInv` (the inductive invariant, three phases),
  `poll_returned_outcome`, `enable_then_poll_never_loses_wakeup` (+ the `'` form with the pre-existing counters);
* the negative witness `split_send_loses_wakeup` (+ `_flag1`, `stepSplit_back_to_back`) and non-vacuity
  (`wake_poll_false_irq_raised`, `wake_poll_true_no_irq`).
-/
set_option linter.unusedSimpArgs false
namespace Teakra.Conc
open Teakra

/-! ## what a step does to the ghost histories `polls`, `sentIrq`, `irqSends` -/

/-- Effect of frame `f`, executed by `t` in state `g`, on the poll history. -/
def pollsAfter (g : Global) : Frame → Side → Fin 3 → List Bool
  | .call (.isReady s ch) => upd g.polls s (upd (g.polls s) ch (g.polls s ch ++ [(g.chan s ch).ready]))
  | _ => g.polls

def sentIrqAfter (g : Global) : Frame → Side → Fin 3 → List Bool
  | .call (.send s ch _) =>
    upd g.sentIrq s (upd (g.sentIrq s) ch (g.sentIrq s ch ++ [decide ((g.chan s ch).disableInterrupt = 0)]))
  | _ => g.sentIrq

def irqSendsAfter (g : Global) (t : Tid) : Frame → Tid → Side → Nat
  | .call (.send s ch _) =>
    upd g.irqSends t (upd (g.irqSends t) s (g.irqSends t s + if (g.chan s ch).disableInterrupt = 0 then 1 else 0))
  | _ => g.irqSends

private theorem trigger_ghost {t : Tid} {bits : U16} {rest : List Frame} {g g' : Global}
    (h : trigger t bits rest g = some g') :
    g'.polls = g.polls ∧ g'.sentIrq = g.sentIrq ∧ g'.irqSends = g.irqSends := by
  unfold trigger at h
  split at h
  · cases h
  · cases h; exact ⟨rfl, rfl, rfl⟩

private theorem icuCS_ghost {t : Tid} {rest : List Frame} {g g' : Global} {f : Icu → Icu}
    (h : icuCS rest t g f = some g') :
    g'.polls = g.polls ∧ g'.sentIrq = g.sentIrq ∧ g'.irqSends = g.irqSends := by
  unfold icuCS at h
  split at h
  · cases h
  · cases h; exact ⟨rfl, rfl, rfl⟩

private theorem semCS_ghost {t : Tid} {rest : List Frame} {g g' : Global} {s' : Side} {f : Apbp → Apbp}
    (h : semCS rest t s' g f = some g') :
    g'.polls = g.polls ∧ g'.sentIrq = g.sentIrq ∧ g'.irqSends = g.irqSends := by
  unfold semCS at h
  split at h
  · cases h; exact ⟨rfl, rfl, rfl⟩
  · cases h

theorem step_ghost {cb : HostCallbacks} {g g' : Global} {t : Tid} {f : Frame} {rest : List Frame}
    (hst : g.stack t = f :: rest) (h : step cb g t = some g') :
    g'.polls = pollsAfter g f ∧ g'.sentIrq = sentIrqAfter g f ∧ g'.irqSends = irqSendsAfter g t f := by
  unfold step at h
  rw [hst] at h
  dsimp only at h
  cases f with
  | call c =>
    cases c with
    | send s ch v =>
      simp only [execFrame, execCall, Option.some.injEq] at h
      subst h
      refine ⟨rfl, ?_, ?_⟩
      · simp only [sentIrqAfter, Global.chan, Apbp.sendData, DataChannel.send]
        by_cases hd : (g.apbp s).dataChannels[(ch : Nat)].disableInterrupt = 0#16 <;> simp [hd]
      · simp only [irqSendsAfter, Global.chan, Apbp.sendData, DataChannel.send]
        by_cases hd : (g.apbp s).dataChannels[(ch : Nat)].disableInterrupt = 0#16 <;> simp [hd]
    | isReady s ch => simp only [execFrame, execCall, Option.some.injEq] at h; subst h; exact ⟨rfl, rfl, rfl⟩
    | recv s ch => simp only [execFrame, execCall, Option.some.injEq] at h; subst h; exact ⟨rfl, rfl, rfl⟩
    | peek s ch => simp only [execFrame, execCall, Option.some.injEq] at h; subst h; exact ⟨rfl, rfl, rfl⟩
    | getDisable s ch => simp only [execFrame, execCall, Option.some.injEq] at h; subst h; exact ⟨rfl, rfl, rfl⟩
    | setDisable s ch v => simp only [execFrame, execCall, Option.some.injEq] at h; subst h; exact ⟨rfl, rfl, rfl⟩
    | semSet s bits =>
      simp only [execFrame, execCall] at h
      split at h
      · cases h; exact ⟨rfl, rfl, rfl⟩
      · cases h
    | semMask s bits =>
      simp only [execFrame, execCall] at h
      split at h
      · cases h; exact ⟨rfl, rfl, rfl⟩
      · cases h
    | semClear s bits => exact semCS_ghost (f := fun a => a.clearSemaphore bits) h
    | semGet s => exact semCS_ghost h
    | maskGet s => exact semCS_ghost h
    | signaled s => exact semCS_ghost h
    | icuGetRequest => exact icuCS_ghost h
    | icuAck bits => exact icuCS_ghost (f := fun i => i.acknowledge bits) h
    | icuTrigger bits => exact trigger_ghost h
    | icuSetEnable k bits => exact icuCS_ghost (f := fun i => i.setEnable k bits) h
    | icuSetEnableVectored bits => exact icuCS_ghost (f := fun i => i.setEnableVectored bits) h
    | icuGetEnable k => exact icuCS_ghost h
    | icuGetEnableVectored => exact icuCS_ghost h
    | icuSetVectorLow irq v => simp only [execFrame, execCall, Option.some.injEq] at h; subst h; exact ⟨rfl, rfl, rfl⟩
    | icuSetVectorHigh irq v => simp only [execFrame, execCall, Option.some.injEq] at h; subst h; exact ⟨rfl, rfl, rfl⟩
    | icuSetVectorCtx irq v => simp only [execFrame, execCall, Option.some.injEq] at h; subst h; exact ⟨rfl, rfl, rfl⟩
    | exchange i =>
      simp only [execFrame, execCall] at h
      split at h <;> (cases h; exact ⟨rfl, rfl, rfl⟩)
    | vexchange =>
      simp only [execFrame, execCall] at h
      split at h <;> (cases h; exact ⟨rfl, rfl, rfl⟩)
  | dataHandler s ch =>
    cases s with
    | cpu => simp only [execFrame] at h; have := trigger_ghost h; exact this
    | dsp => simp only [execFrame, Option.some.injEq] at h; subst h; exact ⟨rfl, rfl, rfl⟩
  | semHandler s =>
    cases s with
    | cpu => exact trigger_ghost h
    | dsp => simp only [execFrame, Option.some.injEq] at h; subst h; exact ⟨rfl, rfl, rfl⟩
  | semSetFinish s ns => simp only [execFrame, Option.some.injEq] at h; subst h; exact ⟨rfl, rfl, rfl⟩
  | semMaskFinish s ns => simp only [execFrame, Option.some.injEq] at h; subst h; exact ⟨rfl, rfl, rfl⟩
  | latchSet i => simp only [execFrame, Option.some.injEq] at h; subst h; exact ⟨rfl, rfl, rfl⟩
  | vlatchAddr a => simp only [execFrame, Option.some.injEq] at h; subst h; exact ⟨rfl, rfl, rfl⟩
  | vlatchPending => simp only [execFrame, Option.some.injEq] at h; subst h; exact ⟨rfl, rfl, rfl⟩
  | vlatchCtx b => simp only [execFrame, Option.some.injEq] at h; subst h; exact ⟨rfl, rfl, rfl⟩
  | icuRelease => simp only [execFrame, Option.some.injEq] at h; subst h; exact ⟨rfl, rfl, rfl⟩

/-! ## the calls a step can put on a stack come from the host callbacks -/

/-- `c` is one of the calls a host callback makes. -/
def HostCallbacks.has (cb : HostCallbacks) (c : Call) : Prop := (∃ ch, c ∈ cb.data ch) ∨ c ∈ cb.sem

private theorem call_not_mem_events (c : Call) (evs : List IcuEvent) :
    Frame.call c ∉ evs.flatMap eventFrames := by
  intro h
  obtain ⟨e, _, he⟩ := List.mem_flatMap.1 h
  cases e <;> simp [eventFrames] at he

/-- A step of `t` replaces `t`'s top frame by `pushed`; every not-yet-started call among `pushed` is a call of
a host callback (the other pushed frames are continuations of the call in progress). -/
theorem step_pushed {cb : HostCallbacks} {g g' : Global} {t : Tid} {f : Frame} {rest : List Frame}
    (hst : g.stack t = f :: rest) (h : step cb g t = some g') :
    ∃ pushed, g'.stack = upd g.stack t (pushed ++ rest) ∧ ∀ c, Frame.call c ∈ pushed → cb.has c := by
  unfold step at h
  rw [hst] at h
  dsimp only at h
  have nil : g'.stack = upd g.stack t rest →
      ∃ pushed, g'.stack = upd g.stack t (pushed ++ rest) ∧ ∀ c, Frame.call c ∈ pushed → cb.has c :=
    fun e => ⟨[], e, fun c hc => by cases hc⟩
  have trig : ∀ {bits : U16} {g₁ : Global}, g₁.stack = g.stack → trigger t bits rest g₁ = some g' →
      ∃ pushed, g'.stack = upd g.stack t (pushed ++ rest) ∧ ∀ c, Frame.call c ∈ pushed → cb.has c := by
    intro bits g₁ e h
    unfold trigger at h
    split at h
    · cases h
    · cases h
      refine ⟨(g₁.icu.trigger bits).2.flatMap eventFrames ++ [Frame.icuRelease], by simp [e], fun c hc => ?_⟩
      rcases List.mem_append.1 hc with hc | hc
      · exact absurd hc (call_not_mem_events _ _)
      · simp at hc
  have icu : ∀ {fn : Icu → Icu}, icuCS rest t g fn = some g' →
      ∃ pushed, g'.stack = upd g.stack t (pushed ++ rest) ∧ ∀ c, Frame.call c ∈ pushed → cb.has c := by
    intro fn h
    unfold icuCS at h
    split at h
    · cases h
    · cases h; exact nil rfl
  have sem : ∀ {s : Side} {fn : Apbp → Apbp}, semCS rest t s g fn = some g' →
      ∃ pushed, g'.stack = upd g.stack t (pushed ++ rest) ∧ ∀ c, Frame.call c ∈ pushed → cb.has c := by
    intro s fn h
    unfold semCS at h
    split at h
    · cases h; exact nil rfl
    · cases h
  cases f with
  | call c =>
    cases c with
    | send s ch v =>
      simp only [execFrame, execCall, Option.some.injEq] at h; subst h
      refine ⟨if !((g.apbp s).sendData ch v).2.isEmpty then [Frame.dataHandler s ch] else [], by
        dsimp only; split <;> rfl, fun c hc => ?_⟩
      split at hc <;> simp at hc
    | semSet s bits =>
      simp only [execFrame, execCall] at h
      split at h
      · cases h
        refine ⟨(if Apbp.signalOf ((g.apbp s).semaphore ||| bits) (g.apbp s).semaphoreMask then [Frame.semHandler s] else []) ++
          [Frame.semSetFinish s (Apbp.signalOf ((g.apbp s).semaphore ||| bits) (g.apbp s).semaphoreMask)], by simp,
          fun c hc => ?_⟩
        rcases List.mem_append.1 hc with hc | hc
        · split at hc <;> simp at hc
        · simp at hc
      · cases h
    | semMask s bits =>
      simp only [execFrame, execCall] at h
      split at h
      · cases h
        refine ⟨(if (Apbp.signalOf (g.apbp s).semaphore bits && !(g.apbp s).semaphoreMasterSignal) then [Frame.semHandler s] else []) ++
          [Frame.semMaskFinish s (Apbp.signalOf (g.apbp s).semaphore bits)], by simp, fun c hc => ?_⟩
        rcases List.mem_append.1 hc with hc | hc
        · split at hc <;> simp at hc
        · simp at hc
      · cases h
    | exchange i =>
      simp only [execFrame, execCall] at h
      split at h <;> (cases h; exact nil rfl)
    | vexchange =>
      simp only [execFrame, execCall] at h
      split at h <;> (cases h; exact nil rfl)
    | semClear s bits => exact sem (fn := fun a => a.clearSemaphore bits) h
    | semGet s => exact sem h
    | maskGet s => exact sem h
    | signaled s => exact sem h
    | icuGetRequest => exact icu h
    | icuAck bits => exact icu (fn := fun i => i.acknowledge bits) h
    | icuTrigger bits => exact trig rfl h
    | icuSetEnable k bits => exact icu (fn := fun i => i.setEnable k bits) h
    | icuSetEnableVectored bits => exact icu (fn := fun i => i.setEnableVectored bits) h
    | icuGetEnable k => exact icu h
    | icuGetEnableVectored => exact icu h
    | recv s ch => simp only [execFrame, execCall, Option.some.injEq] at h; subst h; exact nil rfl
    | peek s ch => simp only [execFrame, execCall, Option.some.injEq] at h; subst h; exact nil rfl
    | isReady s ch => simp only [execFrame, execCall, Option.some.injEq] at h; subst h; exact nil rfl
    | getDisable s ch => simp only [execFrame, execCall, Option.some.injEq] at h; subst h; exact nil rfl
    | setDisable s ch v => simp only [execFrame, execCall, Option.some.injEq] at h; subst h; exact nil rfl
    | icuSetVectorLow irq v => simp only [execFrame, execCall, Option.some.injEq] at h; subst h; exact nil rfl
    | icuSetVectorHigh irq v => simp only [execFrame, execCall, Option.some.injEq] at h; subst h; exact nil rfl
    | icuSetVectorCtx irq v => simp only [execFrame, execCall, Option.some.injEq] at h; subst h; exact nil rfl
  | dataHandler s ch =>
    cases s with
    | cpu => simp only [execFrame] at h; refine trig ?_ h; rfl
    | dsp =>
      simp only [execFrame, Option.some.injEq] at h; subst h
      exact ⟨(cb.data ch).map Frame.call, rfl, fun c hc => Or.inl ⟨ch, by simpa using hc⟩⟩
  | semHandler s =>
    cases s with
    | cpu => exact trig rfl h
    | dsp =>
      simp only [execFrame, Option.some.injEq] at h; subst h
      exact ⟨cb.sem.map Frame.call, rfl, fun c hc => Or.inr (by simpa using hc)⟩
  | semSetFinish s ns => simp only [execFrame, Option.some.injEq] at h; subst h; exact nil rfl
  | semMaskFinish s ns => simp only [execFrame, Option.some.injEq] at h; subst h; exact nil rfl
  | latchSet i => simp only [execFrame, Option.some.injEq] at h; subst h; exact nil rfl
  | vlatchAddr a => simp only [execFrame, Option.some.injEq] at h; subst h; exact nil rfl
  | vlatchPending => simp only [execFrame, Option.some.injEq] at h; subst h; exact nil rfl
  | vlatchCtx b => simp only [execFrame, Option.some.injEq] at h; subst h; exact nil rfl
  | icuRelease => simp only [execFrame, Option.some.injEq] at h; subst h; exact nil rfl

/-! ## the view of one channel with its poll and signalling histories -/

structure WView where
  chan : DataChannel
  sent : List U16
  polls : List Bool
  sentIrq : List Bool

def wview (g : Global) (s : Side) (ch : Fin 3) : WView := ⟨g.chan s ch, g.sent s ch, g.polls s ch, g.sentIrq s ch⟩

inductive WOp where
  | none | send (v : U16) | recv | setDisable (v : U16) | poll

def WView.apply (c : WView) : WOp → WView
  | .none => c
  | .send v => { c with chan := { c.chan with ready := true, data := v }, sent := c.sent ++ [v],
                        sentIrq := c.sentIrq ++ [decide (c.chan.disableInterrupt = 0)] }
  | .recv => { c with chan := { c.chan with ready := false } }
  | .setDisable v => { c with chan := { c.chan with disableInterrupt := v } }
  | .poll => { c with polls := c.polls ++ [c.chan.ready] }

/-- The operation frame `f` performs on channel `(s, ch)` (as far as `WView` is concerned). -/
def wopOf (s : Side) (ch : Fin 3) : Frame → WOp
  | .call (.send s' ch' v) => if s' = s ∧ ch' = ch then .send v else .none
  | .call (.recv s' ch') => if s' = s ∧ ch' = ch then .recv else .none
  | .call (.setDisable s' ch' v) => if s' = s ∧ ch' = ch then .setDisable v else .none
  | .call (.isReady s' ch') => if s' = s ∧ ch' = ch then .poll else .none
  | _ => .none

private theorem upd2 {β : Type} (f : Side → Fin 3 → β) (s s' : Side) (ch ch' : Fin 3) (b : β) :
    upd f s' (upd (f s') ch' b) s ch = if s' = s ∧ ch' = ch then b else f s ch := by
  by_cases es : s = s'
  · subst es
    by_cases ec : ch = ch'
    · subst ec; simp [upd]
    · have : ¬ ch' = ch := fun e => ec e.symm
      simp [upd, ec, this]
  · have : ¬ s' = s := fun e => es e.symm
    simp [upd, es, this]

theorem step_wview {cb : HostCallbacks} {g g' : Global} {t : Tid} {f : Frame} {rest : List Frame}
    (hst : g.stack t = f :: rest) (h : step cb g t = some g') (s : Side) (ch : Fin 3) :
    wview g' s ch = (wview g s ch).apply (wopOf s ch f) := by
  have hv := step_view hst h s ch
  obtain ⟨hp, hi, _⟩ := step_ghost hst h
  have e1 : g'.chan s ch = ((view g s ch).apply (chanOpOf s ch f)).chan := congrArg ChanView.chan hv
  have e2 : g'.sent s ch = ((view g s ch).apply (chanOpOf s ch f)).sent := congrArg ChanView.sent hv
  have e3 : g'.polls s ch = pollsAfter g f s ch := by rw [hp]
  have e4 : g'.sentIrq s ch = sentIrqAfter g f s ch := by rw [hi]
  simp only [wview, e1, e2, e3, e4]
  cases f with
  | call c =>
    cases c with
    | send s' ch' v =>
      simp only [chanOpOf, wopOf, pollsAfter, sentIrqAfter, upd2]
      by_cases e : s' = s ∧ ch' = ch
      · obtain ⟨rfl, rfl⟩ := e; simp [ChanView.apply, WView.apply, view]
      · simp [e, ChanView.apply, WView.apply, view]
    | recv s' ch' =>
      simp only [chanOpOf, wopOf, pollsAfter, sentIrqAfter]
      by_cases e : s' = s ∧ ch' = ch <;> simp [e, ChanView.apply, WView.apply, view]
    | peek s' ch' =>
      simp only [chanOpOf, wopOf, pollsAfter, sentIrqAfter]
      by_cases e : s' = s ∧ ch' = ch <;> simp [e, ChanView.apply, WView.apply, view]
    | setDisable s' ch' v =>
      simp only [chanOpOf, wopOf, pollsAfter, sentIrqAfter]
      by_cases e : s' = s ∧ ch' = ch <;> simp [e, ChanView.apply, WView.apply, view]
    | isReady s' ch' =>
      simp only [chanOpOf, wopOf, pollsAfter, sentIrqAfter, upd2]
      by_cases e : s' = s ∧ ch' = ch
      · obtain ⟨rfl, rfl⟩ := e; simp [ChanView.apply, WView.apply, view]
      · simp [e, ChanView.apply, WView.apply, view]
    | _ => simp [chanOpOf, wopOf, pollsAfter, sentIrqAfter, ChanView.apply, WView.apply, view]
  | _ => simp [chanOpOf, wopOf, pollsAfter, sentIrqAfter, ChanView.apply, WView.apply, view]

/-! ## stable "no such call is still to come" properties -/

/-- No not-yet-started call on the stack `l` satisfies `P`. -/
def noCall (P : Call → Prop) (l : List Frame) : Prop := ∀ c, Frame.call c ∈ l → ¬ P c

theorem noCall_step {cb : HostCallbacks} {g g' : Global} {t : Tid} (P : Call → Prop)
    (hcb : ∀ c, cb.has c → ¬ P c) (h : step cb g t = some g') (t' : Tid)
    (hn : noCall P (g.stack t')) : noCall P (g'.stack t') := by
  cases hst : g.stack t with
  | nil => simp [step, hst] at h
  | cons f rest =>
    obtain ⟨pushed, e, hp⟩ := step_pushed hst h
    by_cases et : t' = t
    · subst et
      rw [e, upd_same]
      intro c hc
      rcases List.mem_append.1 hc with hc | hc
      · exact hcb c (hp c hc)
      · exact hn c (by rw [hst]; exact List.mem_cons_of_mem _ hc)
    · rw [e, upd_other _ _ _ _ et]; exact hn

theorem noCall_map {P : Call → Prop} {l : List Call} (h : ∀ c ∈ l, ¬ P c) : noCall P (l.map Frame.call) := by
  intro c hc
  have : c ∈ l := by simpa using hc
  exact h c this

/-- The frame a thread executes is on its stack. -/
private theorem top_mem {g : Global} {t : Tid} {f : Frame} {rest : List Frame} (hst : g.stack t = f :: rest) :
    f ∈ g.stack t := by rw [hst]; exact List.mem_cons_self

theorem irqSends_mono {cb : HostCallbacks} {g g' : Global} {t : Tid} (h : step cb g t = some g')
    (t' : Tid) (s : Side) : g.irqSends t' s ≤ g'.irqSends t' s := by
  cases hst : g.stack t with
  | nil => simp [step, hst] at h
  | cons f rest =>
    rw [(step_ghost hst h).2.2]
    unfold irqSendsAfter
    split
    · rename_i s' ch' v
      by_cases e1 : t' = t
      · subst e1
        by_cases e2 : s = s'
        · subst e2; simp [upd]
        · simp [upd, e2]
      · simp [upd, e1]
    · exact Nat.le_refl _

/-! ## view-level facts -/

theorem wopOf_send {s : Side} {ch : Fin 3} {f : Frame} {w : U16} (h : wopOf s ch f = .send w) :
    f = Frame.call (Call.send s ch w) := by
  cases f with
  | call c =>
    cases c <;> simp only [wopOf] at h <;> (try split at h) <;> (try cases h)
    rename_i e; obtain ⟨rfl, rfl⟩ := e; rfl
  | _ => cases h

theorem wopOf_recv {s : Side} {ch : Fin 3} {f : Frame} (h : wopOf s ch f = .recv) :
    f = Frame.call (Call.recv s ch) := by
  cases f with
  | call c =>
    cases c <;> simp only [wopOf] at h <;> (try split at h) <;> (try cases h)
    rename_i e; obtain ⟨rfl, rfl⟩ := e; rfl
  | _ => cases h

theorem wopOf_setDisable {s : Side} {ch : Fin 3} {f : Frame} {w : U16} (h : wopOf s ch f = .setDisable w) :
    f = Frame.call (Call.setDisable s ch w) := by
  cases f with
  | call c =>
    cases c <;> simp only [wopOf] at h <;> (try split at h) <;> (try cases h)
    rename_i e; obtain ⟨rfl, rfl⟩ := e; rfl
  | _ => cases h

@[simp] theorem wopOf_send_self (s : Side) (ch : Fin 3) (w : U16) :
    wopOf s ch (Frame.call (Call.send s ch w)) = .send w := by simp [wopOf]
@[simp] theorem wopOf_poll_self (s : Side) (ch : Fin 3) :
    wopOf s ch (Frame.call (Call.isReady s ch)) = .poll := by simp [wopOf]
@[simp] theorem wopOf_setDisable_self (s : Side) (ch : Fin 3) (w : U16) :
    wopOf s ch (Frame.call (Call.setDisable s ch w)) = .setDisable w := by simp [wopOf]

/-- Without a receive, a channel that was ever sent to is ready. -/
def WView.readyOfSent (c : WView) : Prop := c.sent ≠ [] → c.chan.ready = true

theorem WView.readyOfSent_apply {c : WView} (h : c.readyOfSent) {op : WOp} (hop : op ≠ .recv) :
    (c.apply op).readyOfSent := by
  cases op with
  | recv => exact absurd rfl hop
  | send v => intro _; rfl
  | none => exact h
  | setDisable v => exact h
  | poll => exact h

/-- `sentIrq` runs parallel to `sent`. -/
theorem WView.len_apply {c : WView} (h : c.sentIrq.length = c.sent.length) (op : WOp) :
    (c.apply op).sentIrq.length = (c.apply op).sent.length := by
  cases op <;> simp [WView.apply, h]

theorem WView.sent_mono {c : WView} {v : U16} (h : v ∈ c.sent) (op : WOp) : v ∈ (c.apply op).sent := by
  cases op <;> simp [WView.apply, h]

/-- The last poll returned true and the word is still there. -/
def WView.sawReady (c : WView) : Prop := c.polls.getLast? = some true ∧ c.chan.ready = true

theorem WView.sawReady_apply {c : WView} (h : c.sawReady) {op : WOp} (hop : op ≠ .recv) :
    (c.apply op).sawReady := by
  cases op with
  | recv => exact absurd rfl hop
  | send v => exact ⟨h.1, rfl⟩
  | none => exact h
  | setDisable v => exact h
  | poll => exact ⟨by simp [WView.apply, h.2], h.2⟩

/-- Every send so far found the interrupt enabled. -/
def WView.allRaised (c : WView) : Prop := ∀ b ∈ c.sentIrq, b = true

theorem WView.allRaised_apply {c : WView} (h : c.allRaised) (hd : c.chan.disableInterrupt = 0) {op : WOp}
    (hop : ∀ w, op ≠ .setDisable w) : (c.apply op).allRaised ∧ (c.apply op).chan.disableInterrupt = 0 := by
  cases op with
  | setDisable w => exact absurd rfl (hop w)
  | send v =>
    refine ⟨?_, hd⟩
    intro b hb
    simp only [WView.apply, List.mem_append, List.mem_singleton] at hb
    rcases hb with hb | hb
    · exact h b hb
    · rw [hb]; simp [hd]
  | none => exact ⟨h, hd⟩
  | recv => exact ⟨h, hd⟩
  | poll => exact ⟨h, hd⟩

/-! ## the enable-then-poll scenario: invariant -/

/-- `c` writes the interrupt-disable flag of channel `(s, ch)`. -/
def isSD (s : Side) (ch : Fin 3) (c : Call) : Prop := ∃ w, c = Call.setDisable s ch w
/-- `c` receives from channel `(s, ch)`. -/
def isRecv (s : Side) (ch : Fin 3) (c : Call) : Prop := c = Call.recv s ch

/-- The DSP thread's stack from the enabling write on: `SetDisableInterrupt(ch, 0)`, the calls `mid`, the poll,
the calls `post`. -/
def tailE (s : Side) (ch : Fin 3) (mid post : List Call) : List Frame :=
  Frame.call (Call.setDisable s ch 0) :: (mid.map Frame.call ++ Frame.call (Call.isReady s ch) :: post.map Frame.call)

/-- What holds once the poll has been made with the interrupt enabled: the last poll so far saw the word (and it
is still there), or every send on the channel so far found the interrupt enabled and the host's send is either
still to come or was one of them. -/
def Outcome (s : Side) (ch : Fin 3) (v : U16) (g : Global) : Prop :=
  (wview g s ch).sawReady ∨
  ((wview g s ch).allRaised ∧ (Frame.call (Call.send s ch v) ∈ g.stack Tid.host ∨ 1 ≤ g.irqSends Tid.host s))

/-- The invariant of the scenario. -/
structure WakeInv (s : Side) (ch : Fin 3) (v : U16) (mid post : List Call) (g : Global) : Prop where
  /-- the host thread never writes the flag -/
  host_sd : noCall (isSD s ch) (g.stack Tid.host)
  /-- nobody receives from the channel -/
  no_recv : ∀ t, noCall (isRecv s ch) (g.stack t)
  ready_of_sent : (wview g s ch).readyOfSent
  len : (g.sentIrq s ch).length = (g.sent s ch).length
  /-- the host's send is still on its stack or has stored its word -/
  send_done : Frame.call (Call.send s ch v) ∈ g.stack Tid.host ∨ v ∈ g.sent s ch
  /-- phase 0: the enabling write is still to come; phase 1: the flag is 0 for good and the poll is still to
  come; phase 2: the poll has been made -/
  phase : (∃ X, g.stack Tid.dsp = X ++ tailE s ch mid post) ∨
          ((g.chan s ch).disableInterrupt = 0 ∧ noCall (isSD s ch) (g.stack Tid.dsp) ∧
            ((∃ X Y, g.stack Tid.dsp = X ++ Frame.call (Call.isReady s ch) :: Y) ∨ Outcome s ch v g))

private theorem mem_stack_step {g g' : Global} {t t' : Tid} {f x : Frame} {rest pushed : List Frame}
    (hst : g.stack t = f :: rest) (e : g'.stack = upd g.stack t (pushed ++ rest)) (hx : x ∈ g.stack t') :
    (t' = t ∧ x = f) ∨ x ∈ g'.stack t' := by
  by_cases et : t' = t
  · subst et
    rw [hst] at hx
    rcases List.mem_cons.1 hx with hx | hx
    · exact Or.inl ⟨rfl, hx⟩
    · right; rw [e, upd_same]; exact List.mem_append_right _ hx
  · right; rw [e, upd_other _ _ _ _ et]; exact hx

theorem wakeInv_step {cb : HostCallbacks} {s : Side} {ch : Fin 3} {v : U16} {mid post : List Call}
    (cb_sd : ∀ c, cb.has c → ¬ isSD s ch c) (cb_recv : ∀ c, cb.has c → ¬ isRecv s ch c)
    (mid_sd : ∀ c ∈ mid, ¬ isSD s ch c) (post_sd : ∀ c ∈ post, ¬ isSD s ch c)
    {g g' : Global} {t : Tid} (h : step cb g t = some g') (hi : WakeInv s ch v mid post g) :
    WakeInv s ch v mid post g' := by
  cases hst : g.stack t with
  | nil => simp [step, hst] at h
  | cons f rest =>
  obtain ⟨pushed, e, hp⟩ := step_pushed hst h
  have wv := step_wview hst h s ch
  have hnr : wopOf s ch f ≠ .recv := by
    intro er
    have := wopOf_recv er
    subst this
    exact hi.no_recv t _ (top_mem hst) rfl
  have hsd' : noCall (isSD s ch) (g'.stack Tid.host) := noCall_step _ cb_sd h _ hi.host_sd
  -- the host's send: still pending, or now done
  have hsend : ∀ {P : Prop}, (Frame.call (Call.send s ch v) ∈ g.stack Tid.host) →
      (Frame.call (Call.send s ch v) ∈ g'.stack Tid.host → P) →
      (t = Tid.host → f = Frame.call (Call.send s ch v) → P) → P := by
    intro P hx h1 h2
    rcases mem_stack_step hst e hx with ⟨et, ef⟩ | hx'
    · exact h2 et.symm ef.symm
    · exact h1 hx'
  refine ⟨hsd', fun t' => noCall_step _ cb_recv h t' (hi.no_recv t'), ?_, ?_, ?_, ?_⟩
  · rw [wv]; exact WView.readyOfSent_apply hi.ready_of_sent hnr
  · have := WView.len_apply (c := wview g s ch) hi.len (wopOf s ch f)
    rw [← wv] at this; exact this
  · rcases hi.send_done with hx | hx
    · refine hsend hx Or.inl (fun _ ef => Or.inr ?_)
      have : (wview g' s ch).sent = _ := congrArg WView.sent wv
      rw [ef, wopOf_send_self] at this
      show v ∈ (wview g' s ch).sent
      rw [this]; simp [WView.apply]
    · right
      have := WView.sent_mono (c := wview g s ch) hx (wopOf s ch f)
      rw [← wv] at this; exact this
  · rcases hi.phase with ⟨X, hX⟩ | ⟨hflag, hdsd, hph⟩
    · -- phase 0
      cases t with
      | host => left; exact ⟨X, by rw [e, upd_other _ _ _ _ (by decide)]; exact hX⟩
      | dsp =>
        rw [hst] at hX
        cases X with
        | cons x X' =>
          simp only [List.cons_append, List.cons.injEq] at hX
          left; exact ⟨pushed ++ X', by rw [e, upd_same, hX.2, List.append_assoc]⟩
        | nil =>
          simp only [List.nil_append, tailE, List.cons.injEq] at hX
          obtain ⟨hf, hrest⟩ := hX
          right
          refine ⟨?_, ?_, Or.inl ⟨pushed ++ mid.map Frame.call, post.map Frame.call, ?_⟩⟩
          · have : (wview g' s ch).chan = _ := congrArg WView.chan wv
            rw [hf, wopOf_setDisable_self] at this
            show (wview g' s ch).chan.disableInterrupt = 0
            rw [this]; rfl
          · rw [e, upd_same, hrest]
            intro c hc
            rcases List.mem_append.1 hc with hc | hc
            · exact cb_sd c (hp c hc)
            · rcases List.mem_append.1 hc with hc | hc
              · exact noCall_map mid_sd c hc
              · rcases List.mem_cons.1 hc with hc | hc
                · cases hc; rintro ⟨w, hw⟩; cases hw
                · exact noCall_map post_sd c hc
          · rw [e, upd_same, hrest, List.append_assoc]
    · -- the flag is 0 for good
      have hfsd : ∀ w, wopOf s ch f ≠ .setDisable w := by
        intro w esd
        have := wopOf_setDisable esd
        subst this
        cases t with
        | host => exact hi.host_sd _ (top_mem hst) ⟨w, rfl⟩
        | dsp => exact hdsd _ (top_mem hst) ⟨w, rfl⟩
      have hflag' : (g'.chan s ch).disableInterrupt = 0 := by
        have : (wview g' s ch).chan = _ := congrArg WView.chan wv
        show (wview g' s ch).chan.disableInterrupt = 0
        rw [this]
        cases hop : wopOf s ch f with
        | setDisable w => exact absurd hop (hfsd w)
        | _ => exact hflag
      right
      refine ⟨hflag', noCall_step _ cb_sd h _ hdsd, ?_⟩
      -- the outcome is stable
      have hout : Outcome s ch v g → Outcome s ch v g' := by
        rintro (hl | ⟨ha, hb⟩)
        · left; rw [wv]; exact WView.sawReady_apply hl hnr
        · right
          refine ⟨by rw [wv]; exact (WView.allRaised_apply ha hflag hfsd).1, ?_⟩
          rcases hb with hb | hb
          · refine hsend hb Or.inl (fun et ef => Or.inr ?_)
            have := (step_ghost hst h).2.2
            rw [this, ef, et]
            simp [irqSendsAfter, hflag]
          · right; exact Nat.le_trans hb (irqSends_mono h _ _)
      rcases hph with ⟨X, Y, hXY⟩ | ho
      · cases t with
        | host => left; exact ⟨X, Y, by rw [e, upd_other _ _ _ _ (by decide)]; exact hXY⟩
        | dsp =>
          rw [hst] at hXY
          cases X with
          | cons x X' =>
            simp only [List.cons_append, List.cons.injEq] at hXY
            left; exact ⟨pushed ++ X', Y, by rw [e, upd_same, hXY.2, List.append_assoc]⟩
          | nil =>
            simp only [List.nil_append, List.cons.injEq] at hXY
            obtain ⟨hf, -⟩ := hXY
            right
            rw [hf, wopOf_poll_self] at wv
            have hhost : g'.stack Tid.host = g.stack Tid.host := by rw [e, upd_other _ _ _ _ (by decide)]
            cases hr : (g.chan s ch).ready with
            | true =>
              left
              rw [wv]
              exact ⟨by simp [WView.apply, wview, hr], hr⟩
            | false =>
              right
              have hs0 : g.sent s ch = [] := by
                apply Classical.byContradiction
                intro hne
                have := hi.ready_of_sent hne
                simp only [wview] at this
                rw [hr] at this; cases this
              have hq0 : g.sentIrq s ch = [] := by
                have := hi.len; rw [hs0] at this; exact List.eq_nil_of_length_eq_zero this
              refine ⟨?_, Or.inl ?_⟩
              · rw [wv]; intro b hb
                simp only [WView.apply, wview, hq0] at hb
                cases hb
              · rw [hhost]
                rcases hi.send_done with hx | hx
                · exact hx
                · rw [hs0] at hx; cases hx
      · exact Or.inr (hout ho)

theorem wakeInv_init {s : Side} {ch : Fin 3} {v : U16} {hs pre mid post : List Call} (icu : Icu)
    (hsend : Call.send s ch v ∈ hs) (host_sd : ∀ c ∈ hs, ¬ isSD s ch c)
    (host_recv : ∀ c ∈ hs, ¬ isRecv s ch c)
    (dsp_recv : ∀ c ∈ pre ++ Call.setDisable s ch 0 :: (mid ++ Call.isReady s ch :: post), ¬ isRecv s ch c) :
    WakeInv s ch v mid post
      (init hs (pre ++ Call.setDisable s ch 0 :: (mid ++ Call.isReady s ch :: post)) icu) := by
  refine ⟨noCall_map host_sd, fun t => ?_, fun h => absurd rfl h, rfl, Or.inl ?_, Or.inl ⟨pre.map Frame.call, ?_⟩⟩
  · cases t
    · exact noCall_map host_recv
    · exact noCall_map dsp_recv
  · exact List.mem_map.2 ⟨_, hsend, rfl⟩
  · simp [init, tailE]

/-- The static side conditions of the scenario, over the host script `hs`, the three free parts `pre`, `mid`,
`post` of the DSP script and the host callbacks: the flag of channel `(s, ch)` is written by nobody but the DSP
thread before its enabling write (`pre` is unconstrained in this respect: it may disable the interrupt), and
nobody receives from the channel. -/
structure EnablePoll (cb : HostCallbacks) (s : Side) (ch : Fin 3) (hs pre mid post : List Call) : Prop where
  host_sd : ∀ w, Call.setDisable s ch w ∉ hs
  mid_sd : ∀ w, Call.setDisable s ch w ∉ mid
  post_sd : ∀ w, Call.setDisable s ch w ∉ post
  cb_sd : ∀ w, ¬ cb.has (Call.setDisable s ch w)
  host_recv : Call.recv s ch ∉ hs
  pre_recv : Call.recv s ch ∉ pre
  mid_recv : Call.recv s ch ∉ mid
  post_recv : Call.recv s ch ∉ post
  cb_recv : ¬ cb.has (Call.recv s ch)

theorem wakeInv_reachable {cb : HostCallbacks} {s : Side} {ch : Fin 3} {v : U16} {hs pre mid post : List Call}
    {icu : Icu} {g : Global} (hyp : EnablePoll cb s ch hs pre mid post) (hsend : Call.send s ch v ∈ hs)
    (hr : Reachable cb (init hs (pre ++ Call.setDisable s ch 0 :: (mid ++ Call.isReady s ch :: post)) icu) g) :
    WakeInv s ch v mid post g := by
  induction hr with
  | init =>
    refine wakeInv_init icu hsend ?_ ?_ ?_
    · rintro c hc ⟨w, rfl⟩; exact hyp.host_sd w hc
    · rintro c hc rfl; exact hyp.host_recv hc
    · rintro c hc rfl
      simp only [List.mem_append, List.mem_cons] at hc
      rcases hc with hc | hc | hc | hc | hc
      · exact hyp.pre_recv hc
      · cases hc
      · exact hyp.mid_recv hc
      · cases hc
      · exact hyp.post_recv hc
  | step t _ hstep ih =>
    refine wakeInv_step ?_ ?_ ?_ ?_ hstep ih
    · rintro c hc ⟨w, rfl⟩; exact hyp.cb_sd w hc
    · rintro c hc rfl; exact hyp.cb_recv hc
    · rintro c hc ⟨w, rfl⟩; exact hyp.mid_sd w hc
    · rintro c hc ⟨w, rfl⟩; exact hyp.post_sd w hc

/-! ## the theorems of the scenario -/

section
variable {cb : HostCallbacks} {s : Side} {ch : Fin 3} {v : U16} {hs pre mid post : List Call} {icu : Icu} {g : Global}

private theorem script_eq (pre mid post : List Call) (a b : Call) :
    pre ++ [a] ++ mid ++ [b] ++ post = pre ++ a :: (mid ++ b :: post) := by simp

/-- Once the DSP thread has returned from everything (in particular from its poll), whatever the host thread is
doing: the last poll of the channel returned true and the word is still in the mailbox, or every send made on the
channel so far found the interrupt enabled — and the host's send is either still to come or has counted as an
interrupt-raising send. -/
theorem poll_returned_outcome (hyp : EnablePoll cb s ch hs pre mid post) (hsend : Call.send s ch v ∈ hs)
    (hr : Reachable cb (init hs (pre ++ [Call.setDisable s ch 0] ++ mid ++ [Call.isReady s ch] ++ post) icu) g)
    (hdsp : g.stack Tid.dsp = []) :
    (g.chan s ch).disableInterrupt = 0 ∧
    (((g.polls s ch).getLast? = some true ∧ (g.chan s ch).ready = true) ∨
     ((∀ b ∈ g.sentIrq s ch, b = true) ∧
        (Frame.call (Call.send s ch v) ∈ g.stack Tid.host ∨ 1 ≤ g.irqSends Tid.host s))) := by
  rw [script_eq] at hr
  have hi := wakeInv_reachable hyp hsend hr
  rcases hi.phase with ⟨X, hX⟩ | ⟨hflag, _, ⟨X, Y, hXY⟩ | ho⟩
  · rw [hdsp] at hX; cases X <;> simp [tailE] at hX
  · rw [hdsp] at hXY; cases X <;> simp at hXY
  · exact ⟨hflag, ho⟩

/-- **Enable, then poll, never loses the wake-up.**  The DSP thread's script contains
`SetDisableInterrupt(ch, 0)` and, later, `IsDataReady(ch)`; before that it may do anything with the flag (e.g.
have the interrupt disabled), after it nobody writes the flag; the host thread's script contains a
`SendData(ch, v)`; nobody receives from the channel; everything else in both scripts and in the host callbacks is
arbitrary.  Then in **every** interleaving, once both threads have returned from all their calls: the last poll of
the channel (the DSP's, or a later one) returned `true`, **or** every send on the channel found the interrupt
enabled in its critical section — there was at least one, the host's was one of them, the host thread made the
handler call for each of its interrupt-raising sends and stored every latch those `Trigger`s routed. -/
theorem enable_then_poll_never_loses_wakeup (hyp : EnablePoll cb s ch hs pre mid post)
    (hsend : Call.send s ch v ∈ hs)
    (hr : Reachable cb (init hs (pre ++ [Call.setDisable s ch 0] ++ mid ++ [Call.isReady s ch] ++ post) icu) g)
    (hhost : g.stack Tid.host = []) (hdsp : g.stack Tid.dsp = []) :
    (g.polls s ch).getLast? = some true ∨
    (g.sentIrq s ch ≠ [] ∧ (∀ b ∈ g.sentIrq s ch, b = true) ∧ 1 ≤ g.irqSends Tid.host s ∧
      g.handlerRuns Tid.host s = g.irqSends Tid.host s ∧ g.latched Tid.host = g.routed Tid.host) := by
  obtain ⟨_, ho⟩ := poll_returned_outcome hyp hsend hr hdsp
  have hi := wakeInv_reachable hyp hsend (script_eq pre mid post _ _ ▸ hr)
  rcases ho with ⟨hl, _⟩ | ⟨ha, hb⟩
  · exact Or.inl hl
  · right
    have hret := send_signals_returned hr Tid.host (by rw [hhost]; intro f hf; cases hf)
    refine ⟨?_, ha, ?_, (hret.1 s).symm, hret.2.symm⟩
    · intro e0
      have hlen := hi.len
      rw [e0] at hlen
      have hs0 : g.sent s ch = [] := List.eq_nil_of_length_eq_zero hlen.symm
      rcases hi.send_done with hx | hx
      · rw [hhost] at hx; cases hx
      · rw [hs0] at hx; cases hx
    · rcases hb with hb | hb
      · rw [hhost] at hb; cases hb
      · exact hb

/-- The form with the existing counters only: the poll saw the word, or the host made an interrupt-raising send
(and has called the handler for it). -/
theorem enable_then_poll_never_loses_wakeup' (hyp : EnablePoll cb s ch hs pre mid post)
    (hsend : Call.send s ch v ∈ hs)
    (hr : Reachable cb (init hs (pre ++ [Call.setDisable s ch 0] ++ mid ++ [Call.isReady s ch] ++ post) icu) g)
    (hhost : g.stack Tid.host = []) (hdsp : g.stack Tid.dsp = []) :
    (g.polls s ch).getLast? = some true ∨ (1 ≤ g.irqSends Tid.host s ∧ 1 ≤ g.handlerRuns Tid.host s) := by
  rcases enable_then_poll_never_loses_wakeup hyp hsend hr hhost hdsp with h | ⟨_, _, h1, h2, _⟩
  · exact Or.inl h
  · exact Or.inr ⟨h1, by omega⟩

end

/-! ## the general invariant (arbitrary scripts): signal accounting per side -/

private theorem fin3_cases : ∀ ch : Fin 3, ch = 0 ∨ ch = 1 ∨ ch = 2 := by decide

/-- Number of sends on side `s` (all three channels) whose critical section found the interrupt enabled. -/
def raisedOn (g : Global) (s : Side) : Nat :=
  (g.sentIrq s 0).count true + (g.sentIrq s 1).count true + (g.sentIrq s 2).count true

/-- Sends that found the interrupt enabled = the two threads' `irqSends`. -/
def RaisedInv (g : Global) (s : Side) : Prop := raisedOn g s = g.irqSends Tid.host s + g.irqSends Tid.dsp s

theorem raisedInv_step {cb : HostCallbacks} {g g' : Global} {t : Tid} (h : step cb g t = some g') (s : Side)
    (hi : RaisedInv g s) : RaisedInv g' s := by
  cases hst : g.stack t with
  | nil => simp [step, hst] at h
  | cons f rest =>
    obtain ⟨_, h1, h2⟩ := step_ghost hst h
    unfold RaisedInv raisedOn at *
    rw [h1, h2]
    cases f with
    | call c =>
      cases c with
      | send s' ch' w =>
        simp only [sentIrqAfter, irqSendsAfter]
        by_cases es : s' = s
        · subst es
          have hch := fin3_cases ch'
          by_cases hd : (g.chan s' ch').disableInterrupt = 0#16
          · rcases hch with rfl | rfl | rfl <;> cases t <;> simp [upd, hd, List.count_append] <;> omega
          · rcases hch with rfl | rfl | rfl <;> cases t <;> simp [upd, hd, List.count_append] <;> omega
        · have es' : ¬ s = s' := fun x => es x.symm
          cases t <;> simp [upd, es'] <;> exact hi
      | _ => exact hi
    | _ => exact hi

theorem raisedInv_reachable {cb : HostCallbacks} {hs ds : List Call} {icu : Icu} {g : Global}
    (hr : Reachable cb (init hs ds icu) g) (s : Side) : RaisedInv g s := by
  induction hr with
  | init => simp [RaisedInv, raisedOn, init]
  | step t _ hstep ih => exact raisedInv_step hstep s ih

/-- **Signal accounting, for arbitrary scripts on both threads and arbitrary host callbacks.**  In every reachable
state and for each side: the number of sends (on the three channels) whose atomic action read
`disable_interrupt = 0` equals the number of data-handler calls the two threads have made plus the handler frames
still pending on their stacks (each the very next action of its thread, `send_calls_handler`).  `irqSends` and
`handlerRuns` only ever grow, so an ICU acknowledge cannot undo this. -/
theorem signal_accounting {cb : HostCallbacks} {hs ds : List Call} {icu : Icu} {g : Global}
    (hr : Reachable cb (init hs ds icu) g) (s : Side) :
    raisedOn g s =
      (g.handlerRuns Tid.host s + (g.stack Tid.host).countP (isDataHandler s)) +
      (g.handlerRuns Tid.dsp s + (g.stack Tid.dsp).countP (isDataHandler s)) := by
  have h1 := raisedInv_reachable hr s
  have h2 := (sigInv_reachable hr).1
  unfold RaisedInv at h1
  rw [h1, h2 Tid.host s, h2 Tid.dsp s]

/-- … in particular: if channel `(s, ch)` is ready **because of a send whose atomic action ran while
`disable_interrupt = 0`** (the last send on it is recorded as such), then some thread has the data handler of
side `s` pending on its stack or has already run it.  (The hypothesis `ready` is not even needed: a
received word's signal is accounted for just the same.) -/
theorem ready_by_enabled_send_signalled {cb : HostCallbacks} {hs ds : List Call} {icu : Icu} {g : Global}
    (hr : Reachable cb (init hs ds icu) g) (s : Side) (ch : Fin 3) (_hready : (g.chan s ch).ready = true)
    (hlast : (g.sentIrq s ch).getLast? = some true) :
    ∃ t, (∃ ch', Frame.dataHandler s ch' ∈ g.stack t) ∨ 1 ≤ g.handlerRuns t s := by
  have hmem : true ∈ g.sentIrq s ch := List.mem_of_getLast? hlast
  have hpos : 1 ≤ (g.sentIrq s ch).count true := List.count_pos_iff.2 hmem
  have hge : 1 ≤ raisedOn g s := by
    have hch := fin3_cases ch
    unfold raisedOn
    rcases hch with rfl | rfl | rfl <;> omega
  rw [signal_accounting hr s] at hge
  have pend : ∀ t, 1 ≤ (g.stack t).countP (isDataHandler s) → ∃ ch', Frame.dataHandler s ch' ∈ g.stack t := by
    intro t ht
    obtain ⟨f, hf, hp⟩ := List.countP_pos_iff.1 ht
    cases f <;> simp [isDataHandler] at hp
    subst hp
    exact ⟨_, hf⟩
  by_cases a : 1 ≤ g.handlerRuns Tid.host s
  · exact ⟨Tid.host, Or.inr a⟩
  by_cases b : 1 ≤ g.handlerRuns Tid.dsp s
  · exact ⟨Tid.dsp, Or.inr b⟩
  by_cases c : 1 ≤ (g.stack Tid.host).countP (isDataHandler s)
  · exact ⟨Tid.host, Or.inl (pend _ c)⟩
  · exact ⟨Tid.dsp, Or.inl (pend _ (by omega))⟩


/-! ## the two halves, script-free: from any state on -/

section
variable {cb : HostCallbacks} {s : Side} {ch : Fin 3} {g₁ g : Global}

/-- **After the enabling write, every send raises.**  From any state `g₁` (reachable or not) in which the flag of
channel `(s, ch)` is 0 and no write to that flag is still to come (none among the not-yet-started calls on either
stack, none in the host callbacks): in every later state the flag is still 0 and every send made on the channel
since `g₁` found the interrupt enabled. -/
theorem enabled_window_sends_raise (hcb : ∀ c, cb.has c → ¬ isSD s ch c)
    (hq : ∀ t, noCall (isSD s ch) (g₁.stack t)) (hflag : (g₁.chan s ch).disableInterrupt = 0)
    (hr : Reachable cb g₁ g) :
    (∀ t, noCall (isSD s ch) (g.stack t)) ∧ (g.chan s ch).disableInterrupt = 0 ∧
    ∃ k, g.sentIrq s ch = g₁.sentIrq s ch ++ List.replicate k true ∧
         (g.sent s ch).length = (g₁.sent s ch).length + k := by
  induction hr with
  | init => exact ⟨hq, hflag, 0, by simp, rfl⟩
  | @step g g' t _ hstep ih =>
    obtain ⟨hq', hf', k, hk, hl⟩ := ih
    refine ⟨fun t' => noCall_step _ hcb hstep t' (hq' t'), ?_⟩
    cases hst : g.stack t with
    | nil => simp [step, hst] at hstep
    | cons f rest =>
      have wv := step_wview hst hstep s ch
      have e1 : g'.chan s ch = _ := congrArg WView.chan wv
      have e2 : g'.sentIrq s ch = _ := congrArg WView.sentIrq wv
      have e3 : g'.sent s ch = _ := congrArg WView.sent wv
      rw [e1, e2, e3]
      cases hop : wopOf s ch f with
      | setDisable w =>
        have := wopOf_setDisable hop
        subst this
        exact absurd ⟨w, rfl⟩ (hq' t _ (top_mem hst))
      | send w =>
        refine ⟨hf', k + 1, ?_, ?_⟩
        · simp only [WView.apply, wview, hk, hf', List.replicate_succ', decide_true, List.append_assoc]
        · simp only [WView.apply, wview, List.length_append, List.length_singleton, hl]; omega
      | none => exact ⟨hf', k, hk, hl⟩
      | recv => exact ⟨hf', k, hk, hl⟩
      | poll => exact ⟨hf', k, hk, hl⟩

/-- **After a send, every poll sees the word** — as long as nobody receives it.  From any state `g₁` in which
channel `(s, ch)` is ready and no receive from it is still to come: in every later state it is still ready and
every poll made since `g₁` returned true. -/
theorem ready_window_polls_true (hcb : ∀ c, cb.has c → ¬ isRecv s ch c)
    (hq : ∀ t, noCall (isRecv s ch) (g₁.stack t)) (hready : (g₁.chan s ch).ready = true)
    (hr : Reachable cb g₁ g) :
    (∀ t, noCall (isRecv s ch) (g.stack t)) ∧ (g.chan s ch).ready = true ∧
    ∃ k, g.polls s ch = g₁.polls s ch ++ List.replicate k true := by
  induction hr with
  | init => exact ⟨hq, hready, 0, by simp⟩
  | @step g g' t _ hstep ih =>
    obtain ⟨hq', hf', k, hk⟩ := ih
    refine ⟨fun t' => noCall_step _ hcb hstep t' (hq' t'), ?_⟩
    cases hst : g.stack t with
    | nil => simp [step, hst] at hstep
    | cons f rest =>
      have wv := step_wview hst hstep s ch
      have e1 : g'.chan s ch = _ := congrArg WView.chan wv
      have e2 : g'.polls s ch = _ := congrArg WView.polls wv
      rw [e1, e2]
      cases hop : wopOf s ch f with
      | recv =>
        have := wopOf_recv hop
        subst this
        exact absurd rfl (hq' t _ (top_mem hst))
      | poll =>
        refine ⟨hf', k + 1, ?_⟩
        have : (g.chan s ch).ready = true := hf'
        simp only [WView.apply, wview, hk, this, List.replicate_succ', List.append_assoc]
      | send w => exact ⟨rfl, k, hk⟩
      | none => exact ⟨hf', k, hk⟩
      | setDisable w => exact ⟨hf', k, hk⟩

end

/-! ## why the atomicity matters: a `Send` that samples the flag in an earlier critical section

The variant keeps, per thread, the flag value a `Send` in progress has sampled.  A `Send` is two actions of its
thread: first *read the interrupt-disable flag* (nothing else changes), later *store `ready`/`data`* and schedule the
handler iff the **sampled** flag was clear.  Every other action is the one of `step`.  (This is the seeded defect
the theorem above excludes: `DataChannel::Send` reading `disable_interrupt` in a critical section of its own, before
the one that stores the word.) -/

structure SplitState where
  g : Global
  /-- `sampled t = some irq`: thread `t` is inside a `Send` and has read "interrupt enabled = `irq`" -/
  sampled : Tid → Option Bool

def stepSplit (cb : HostCallbacks) (σ : SplitState) (t : Tid) : Option SplitState :=
  match σ.g.stack t with
  | Frame.call (Call.send s ch v) :: rest =>
    match σ.sampled t with
    | none => some { σ with sampled := upd σ.sampled t (some (decide ((σ.g.chan s ch).disableInterrupt = 0))) }
    | some irq =>
      let g := σ.g
      let a := g.apbp s
      some { g := { g with
                apbp := upd g.apbp s
                  { a with dataChannels := a.dataChannels.set ch { a.dataChannels[ch] with ready := true, data := v } },
                sent := upd g.sent s (upd (g.sent s) ch (g.sent s ch ++ [v])),
                irqSends := upd g.irqSends t (upd (g.irqSends t) s (g.irqSends t s + (if irq then 1 else 0))),
                sentIrq := upd g.sentIrq s (upd (g.sentIrq s) ch (g.sentIrq s ch ++ [irq])),
                stack := upd g.stack t (if irq then Frame.dataHandler s ch :: rest else rest) },
             sampled := upd σ.sampled t none }
  | _ => (step cb σ.g t).map fun g' => { σ with g := g' }

def runSplit (cb : HostCallbacks) : List Tid → SplitState → SplitState
  | [], σ => σ
  | t :: ts, σ => runSplit cb ts ((stepSplit cb σ t).getD σ)

private theorem upd_upd {α β : Type} [DecidableEq α] (f : α → β) (a : α) (b c : β) :
    upd (upd f a b) a c = upd f a c := by
  funext x; by_cases h : x = a <;> simp [upd, h]

/-- Sanity of the variant: the two actions of a split `Send`, performed back to back, are exactly the atomic
`Send` of `step` — the variant differs from the model only in letting other actions in between. -/
theorem stepSplit_back_to_back {cb : HostCallbacks} {σ : SplitState} {t : Tid} {s : Side} {ch : Fin 3} {v : U16}
    {rest : List Frame} (hst : σ.g.stack t = Frame.call (Call.send s ch v) :: rest) (hsm : σ.sampled t = none) :
    ((stepSplit cb σ t).bind fun σ' => stepSplit cb σ' t) =
      (step cb σ.g t).map fun g' => { g := g', sampled := upd σ.sampled t none } := by
  have e1 : stepSplit cb σ t =
      some { σ with sampled := upd σ.sampled t (some (decide ((σ.g.chan s ch).disableInterrupt = 0))) } := by
    simp only [stepSplit, hst, hsm]
  rw [e1]
  simp only [Option.bind_some, stepSplit, hst, upd_same, step, execFrame, execCall, Option.map_some,
    Option.some.injEq]
  by_cases hd : (σ.g.apbp s).dataChannels[(ch : Nat)].disableInterrupt = 0#16 <;>
    simp [hd, Global.chan, Apbp.sendData, DataChannel.send, upd_upd]

def noCb : HostCallbacks := ⟨fun _ => [], []⟩

/-- The scenario of the theorem, with the interrupt disabled to begin with: the DSP disables the channel-0 data
interrupt of `apbp_from_cpu`, later enables it and polls once; the host sends a word on that channel. -/
def wakeHost : List Call := [.send .cpu 0 5]
def wakeDsp : List Call := [.setDisable .cpu 0 1, .setDisable .cpu 0 0, .isReady .cpu 0]
def wakeIcu : Icu := { enabled := #v[0x4000, 0, 0] }

/-- The script is an instance of the scenario (`pre = [SetDisableInterrupt(0, 1)]`, `mid = post = []`). -/
theorem wake_scenario : EnablePoll noCb .cpu 0 wakeHost [.setDisable .cpu 0 1] [] [] := by
  refine ⟨?_, ?_, ?_, ?_, ?_, ?_, ?_, ?_, ?_⟩ <;> simp [wakeHost, noCb, HostCallbacks.has]

/-- **With the flag read in an earlier critical section the wake-up is lost.**  Schedule: the DSP disables the
interrupt; the host's `Send` samples the flag (disabled); the DSP enables the interrupt and polls — not ready; the
host's `Send` stores the word and, going by its stale sample, does not call the handler.  Both threads have
returned; the word sits in the mailbox with the interrupt enabled; the poll saw `false`; no interrupt was or will
be raised.  (The same script under `step` cannot end like this: `enable_then_poll_never_loses_wakeup`.) -/
theorem split_send_loses_wakeup :
    let σ := runSplit noCb [.dsp, .host, .dsp, .dsp, .host] ⟨init wakeHost wakeDsp wakeIcu, fun _ => none⟩
    σ.g.stack .host = [] ∧ σ.g.stack .dsp = [] ∧ σ.sampled .host = none ∧
    σ.g.polls .cpu 0 = [false] ∧
    (σ.g.chan .cpu 0).ready = true ∧ (σ.g.chan .cpu 0).data = 5 ∧ (σ.g.chan .cpu 0).disableInterrupt = 0 ∧
    σ.g.sent .cpu 0 = [5] ∧ σ.g.sentIrq .cpu 0 = [false] ∧
    σ.g.irqSends .host .cpu = 0 ∧ σ.g.irqSends .dsp .cpu = 0 ∧ σ.g.handlerRuns .host .cpu = 0 ∧
    σ.g.triggers = 0 ∧ σ.g.icu.request = 0 ∧ σ.g.latch 0 = false := by
  decide

/-- The same from an initial state that already has the flag set (no disabling call at all): flag = 1, the host
samples it, the DSP enables and polls, the host stores. -/
theorem split_send_loses_wakeup_flag1 :
    let g₀ : Global := { init wakeHost [.setDisable .cpu 0 0, .isReady .cpu 0] wakeIcu with
      apbp := fun _ => { dataChannels := #v[{ disableInterrupt := 1 }, {}, {}] } }
    let σ := runSplit noCb [.host, .dsp, .dsp, .host] ⟨g₀, fun _ => none⟩
    (g₀.chan .cpu 0).disableInterrupt = 1 ∧
    σ.g.stack .host = [] ∧ σ.g.stack .dsp = [] ∧ σ.g.polls .cpu 0 = [false] ∧
    (σ.g.chan .cpu 0).ready = true ∧ (σ.g.chan .cpu 0).disableInterrupt = 0 ∧
    σ.g.irqSends .host .cpu = 0 ∧ σ.g.triggers = 0 := by
  decide

/-! ## non-vacuity of the theorem: both disjuncts occur, under the atomic semantics `step` -/

/-- Same script, same relative order of the calls as in the lost wake-up (disable, enable, poll, then the send):
the poll sees `false` and the atomic `Send` raises the interrupt — handler called, request bit 0xE set, latch of
line 0 stored. -/
theorem wake_poll_false_irq_raised :
    let g := run noCb [.dsp, .dsp, .dsp, .host, .host, .host, .host] (init wakeHost wakeDsp wakeIcu)
    g.stack .host = [] ∧ g.stack .dsp = [] ∧ g.polls .cpu 0 = [false] ∧ g.sentIrq .cpu 0 = [true] ∧
    g.irqSends .host .cpu = 1 ∧ g.handlerRuns .host .cpu = 1 ∧ g.icu.request = 0x4000 ∧ g.latch 0 = true ∧
    g.latched .host = 1 := by
  decide

/-- The send falls between the disabling and the enabling write: no interrupt, and the poll sees the word. -/
theorem wake_poll_true_no_irq :
    let g := run noCb [.dsp, .host, .dsp, .dsp] (init wakeHost wakeDsp wakeIcu)
    g.stack .host = [] ∧ g.stack .dsp = [] ∧ g.polls .cpu 0 = [true] ∧ g.sentIrq .cpu 0 = [false] ∧
    g.irqSends .host .cpu = 0 ∧ g.triggers = 0 ∧ (g.chan .cpu 0).ready = true := by
  decide

/-- The theorem applies to every state a schedule of this script produces. -/
example (ts : List Tid) :
    let g := run noCb ts (init wakeHost wakeDsp wakeIcu)
    g.stack .host = [] → g.stack .dsp = [] →
    (g.polls .cpu 0).getLast? = some true ∨ (1 ≤ g.irqSends .host .cpu ∧ 1 ≤ g.handlerRuns .host .cpu) := by
  intro g h1 h2
  exact enable_then_poll_never_loses_wakeup' (v := 5) (mid := []) (post := []) wake_scenario (by simp [wakeHost])
    (run_reachable _ _ ts _ Reachable.init) h1 h2

end Teakra.Conc
