import TeakraModel.Icu
/-!
# C07 (interrupt-controller slice) — routing, request latching and acknowledge of the ICU

Property theorems about `Teakra.Icu` (model of `src/icu.h`); the tie to the C++ is the `icu`
correspondence slice.  This is the component part of C07: what `ICU::Trigger` hands to the
processor (`on_interrupt` / `on_vectored_interrupt`) and what stays pending in `request`.
Helper lemmas are `private`.
-/
namespace Teakra.Icu

/-- The request lines named by a 16-bit word, in ascending order (the order of the C++ loop). -/
def triggered (irqBits : U16) : List (Fin 16) :=
  (List.finRange 16).filter fun (irq : Fin 16) => irqBits.getLsbD irq

/-- `q` is a member of `triggered bits` exactly when its bit is set. -/
theorem mem_triggered (irqBits : U16) (q : Fin 16) : q ∈ triggered irqBits ↔ irqBits.getLsbD q = true := by
  simp [triggered]

/-- The vector address is the 32-bit word `vector_high : vector_low`. -/
theorem getVector_eq (s : Icu) (q : Fin 16) : s.getVector q = s.vectorHigh[q] ++ s.vectorLow[q] := by
  unfold getVector
  generalize s.vectorHigh[q] = hi
  generalize s.vectorLow[q] = lo
  apply BitVec.eq_of_getLsbD_eq
  intro i hi'
  simp only [BitVec.getLsbD_or, BitVec.getLsbD_setWidth, BitVec.getLsbD_shiftLeft, BitVec.getLsbD_append]
  by_cases h : i < 16
  · simp [h]; omega
  · have : lo.getLsbD i = false := by apply BitVec.getLsbD_of_ge; omega
    simp [h, this, hi']; intro _; omega

private theorem finRange3 : List.finRange 3 = [0, 1, 2] := by decide

private theorem interrupt_mem_irqEvents (s : Icu) (q : Fin 16) (line : Fin 3) :
    IcuEvent.interrupt line ∈ s.irqEvents q ↔ s.enabled[line].getLsbD q = true := by
  unfold irqEvents
  simp only [List.mem_append, List.mem_map, List.mem_filter, List.mem_finRange, true_and]
  constructor
  · rintro (⟨l, hl, he⟩ | h)
    · injection he with he; subst he; exact hl
    · split at h <;> simp at h
  · intro h; exact Or.inl ⟨line, h, rfl⟩

private theorem vectored_mem_irqEvents (s : Icu) (q : Fin 16) (addr : U32) (ctx : Bool) :
    IcuEvent.vectored addr ctx ∈ s.irqEvents q ↔
      (s.vectoredEnabled.getLsbD q = true ∧ addr = s.getVector q ∧
       ctx = (s.vectorContextSwitch[q] != 0)) := by
  unfold irqEvents
  simp only [List.mem_append, List.mem_map, List.mem_filter, List.mem_finRange, true_and]
  constructor
  · rintro (⟨l, _, he⟩ | h)
    · cases he
    · split at h
      · rename_i hv
        simp only [List.mem_singleton] at h
        injection h with h1 h2
        exact ⟨hv, h1, h2⟩
      · simp at h
  · rintro ⟨hv, ha, hc⟩
    right; simp [hv, ha, hc]

private theorem count_interrupt_irqEvents (s : Icu) (q : Fin 16) (line : Fin 3) :
    (s.irqEvents q).count (IcuEvent.interrupt line) = if s.enabled[line].getLsbD q then 1 else 0 := by
  have hl : line = 0 ∨ line = 1 ∨ line = 2 := by omega
  unfold irqEvents
  rw [List.count_append, finRange3]
  have hv : (if s.vectoredEnabled.getLsbD q then
      [IcuEvent.vectored (s.getVector q) (s.vectorContextSwitch[q] != 0)] else []).count
        (IcuEvent.interrupt line) = 0 := by
    split <;> simp
  rw [hv]
  simp only [List.filter]
  rcases hl with rfl | rfl | rfl <;>
    cases s.enabled[(0 : Fin 3)].getLsbD q <;> cases s.enabled[(1 : Fin 3)].getLsbD q <;>
    cases s.enabled[(2 : Fin 3)].getLsbD q <;> simp

private theorem count_interrupt_flatMap (s : Icu) (line : Fin 3) (l : List (Fin 16)) :
    (l.flatMap s.irqEvents).count (IcuEvent.interrupt line) =
      (l.filter fun (q : Fin 16) => s.enabled[line].getLsbD q).length := by
  induction l with
  | nil => rfl
  | cons q l ih =>
    simp only [List.flatMap_cons, List.count_append, ih, count_interrupt_irqEvents, List.filter]
    cases s.enabled[line].getLsbD q <;> simp <;> omega

/-- **Routing of `ICU::Trigger`.**
1. The callbacks are, for the triggered request lines in ascending order, the callbacks of each
   line: the interrupt lines 0, 1, 2 that have it enabled (ascending), then the vectored one.
2. Interrupt line `i` receives an event for request `q` iff `q` is among the triggered bits and
   `enabled[i][q]` — exactly one event per such `q` (the count statement).
3. A vectored event is delivered for `q` iff `q` is triggered and `vectored_enabled[q]`; it
   carries the address `vector_low[q] | vector_high[q] << 16` and the flag
   `vector_context_switch[q] != 0`. -/
theorem trigger_routes (s : Icu) (irqBits : U16) :
    (s.trigger irqBits).2 = (triggered irqBits).flatMap s.irqEvents ∧
    (∀ (q : Fin 16) (line : Fin 3),
      IcuEvent.interrupt line ∈ s.irqEvents q ↔ s.enabled[line].getLsbD q = true) ∧
    (∀ (q : Fin 16) (addr : U32) (ctx : Bool), IcuEvent.vectored addr ctx ∈ s.irqEvents q ↔
      (s.vectoredEnabled.getLsbD q = true ∧ addr = s.getVector q ∧
       ctx = (s.vectorContextSwitch[q] != 0))) ∧
    (∀ (line : Fin 3), IcuEvent.interrupt line ∈ (s.trigger irqBits).2 ↔
      ∃ q : Fin 16, irqBits.getLsbD q = true ∧ s.enabled[line].getLsbD q = true) ∧
    (∀ (line : Fin 3), (s.trigger irqBits).2.count (IcuEvent.interrupt line) =
      ((List.finRange 16).filter fun (q : Fin 16) =>
        irqBits.getLsbD q && s.enabled[line].getLsbD q).length) ∧
    (∀ (addr : U32) (ctx : Bool), IcuEvent.vectored addr ctx ∈ (s.trigger irqBits).2 ↔
      ∃ q : Fin 16, irqBits.getLsbD q = true ∧ s.vectoredEnabled.getLsbD q = true ∧
        addr = s.getVector q ∧ ctx = (s.vectorContextSwitch[q] != 0)) := by
  refine ⟨rfl, interrupt_mem_irqEvents s, vectored_mem_irqEvents s, ?_, ?_, ?_⟩
  · intro line
    simp only [trigger, List.mem_flatMap, List.mem_filter, List.mem_finRange, true_and,
      interrupt_mem_irqEvents]
  · intro line
    simp only [trigger, count_interrupt_flatMap, List.filter_filter]
    congr 2; funext q; exact Bool.and_comm _ _
  · intro addr ctx
    simp only [trigger, List.mem_flatMap, List.mem_filter, List.mem_finRange, true_and,
      vectored_mem_irqEvents]

/-- `Trigger` latches exactly the triggered bits into `request` and changes nothing else. -/
theorem trigger_sets_request (s : Icu) (irqBits : U16) :
    (s.trigger irqBits).1 = { s with request := s.request ||| irqBits } ∧
    (∀ q : Nat, (s.trigger irqBits).1.getRequest.getLsbD q =
      (s.getRequest.getLsbD q || irqBits.getLsbD q)) := by
  refine ⟨rfl, fun q => ?_⟩
  simp [trigger, getRequest]

/-- `Acknowledge` clears exactly the acknowledged bits, changes nothing else and calls nothing. -/
theorem ack_exact (s : Icu) (irqBits : U16) :
    (s.acknowledge irqBits).request = s.request &&& ~~~irqBits ∧
    s.acknowledge irqBits = { s with request := s.request &&& ~~~irqBits } ∧
    (∀ q : Nat, q < 16 → (s.acknowledge irqBits).getRequest.getLsbD q =
      (s.getRequest.getLsbD q && !irqBits.getLsbD q)) := by
  refine ⟨rfl, rfl, fun q hq => ?_⟩
  simp [acknowledge, getRequest, hq]

private theorem singleBit_getLsbD (q r : Nat) :
    (singleBit q).getLsbD r = (decide (r < 16) && decide (q = r)) := by
  simp [singleBit, BitVec.getLsbD_ofNat, Nat.one_shiftLeft, Nat.testBit_two_pow]

private theorem triggered_singleBit : ∀ q : Fin 16, triggered (singleBit q) = [q] := by decide

private theorem singleBit_high : ∀ irq, irq < 32 → 16 ≤ irq → singleBit irq = 0 := by decide

/-- `TriggerSingle(q)` for a request line `q < 16` latches bit `q` and delivers exactly the
callbacks of that line; for `16 ≤ irq < 32` the narrowed word is 0 and nothing happens. -/
theorem triggerSingle_routes (s : Icu) :
    (∀ q : Fin 16, s.triggerSingle q =
      .ok ({ s with request := s.request ||| singleBit q }, s.irqEvents q)) ∧
    (∀ irq, irq < 32 → 16 ≤ irq → s.triggerSingle irq = .ok (s, [])) := by
  constructor
  · intro q
    have hq : (q : Nat) < 32 := by omega
    have := (trigger_routes s (singleBit q)).1
    simp only [triggerSingle, hq, if_true]
    rw [show s.trigger (singleBit q) = ((s.trigger (singleBit q)).1, (s.trigger (singleBit q)).2) from rfl,
      this, triggered_singleBit]
    simp [trigger]
  · intro irq h1 h2
    simp [triggerSingle, h1, singleBit_high irq h1 h2, trigger]

/-- If no interrupt line and no vectored enable has `q`, triggering `q` produces no event —
alone or together with other equally unrouted lines (the bit is still latched in `request`). -/
theorem unrouted_never (s : Icu) :
    (∀ q : Fin 16, (∀ line : Fin 3, s.enabled[line].getLsbD q = false) →
      s.vectoredEnabled.getLsbD q = false →
      s.irqEvents q = [] ∧ s.triggerSingle q = .ok ({ s with request := s.request ||| singleBit q }, [])) ∧
    (∀ irqBits : U16,
      (∀ q : Fin 16, irqBits.getLsbD q = true →
        (∀ line : Fin 3, s.enabled[line].getLsbD q = false) ∧ s.vectoredEnabled.getLsbD q = false) →
      (s.trigger irqBits).2 = []) := by
  have h1 : ∀ q : Fin 16, (∀ line : Fin 3, s.enabled[line].getLsbD q = false) →
      s.vectoredEnabled.getLsbD q = false → s.irqEvents q = [] := by
    intro q he hv
    simp_all [irqEvents]
  constructor
  · intro q he hv
    refine ⟨h1 q he hv, ?_⟩
    rw [(triggerSingle_routes s).1 q, h1 q he hv]
  · intro irqBits h
    simp only [trigger, List.flatMap_eq_nil_iff, List.mem_filter, List.mem_finRange, true_and]
    intro q hq
    exact h1 q (h q hq).1 (h q hq).2

/-! ## request bits over arbitrary histories -/

/-- Every state-changing entry point of the ICU: the public methods and the three public vector
tables (written by the MMIO cells `0x212 + 4i`, `0x214 + 4i`). -/
inductive Op where
  | ack (irqBits : U16)
  | trigger (irqBits : U16)
  | triggerSingle (irq : Fin 32)
  | setEnable (interruptIndex : Fin 3) (irqBits : U16)
  | setEnableVectored (irqBits : U16)
  | setVector (irq : Fin 16) (low high contextSwitch : U16)

def step (s : Icu) : Op → Icu × List IcuEvent
  | .ack b => (s.acknowledge b, [])
  | .trigger b => s.trigger b
  | .triggerSingle irq => s.trigger (singleBit irq)
  | .setEnable i b => (s.setEnable i b, [])
  | .setEnableVectored b => (s.setEnableVectored b, [])
  | .setVector q lo hi cs =>
      ({ s with vectorLow := s.vectorLow.set q lo, vectorHigh := s.vectorHigh.set q hi,
                vectorContextSwitch := s.vectorContextSwitch.set q cs }, [])

/-- `step` on `.triggerSingle` is the guarded C++ method. -/
theorem step_triggerSingle (s : Icu) (irq : Fin 32) :
    s.triggerSingle irq = .ok (step s (.triggerSingle irq)) := by
  simp [triggerSingle, step]

def run : List Op → Icu → Icu
  | [], s => s
  | op :: ops, s => run ops (step s op).1

/-- The operation acknowledges request line `q`. -/
def Op.acks (q : Nat) : Op → Bool
  | .ack b => b.getLsbD q
  | _ => false

/-- The operation triggers request line `q`. -/
def Op.triggers (q : Nat) : Op → Bool
  | .trigger b => b.getLsbD q
  | .triggerSingle irq => (singleBit irq).getLsbD q
  | _ => false

/-- **Pending requests are sticky.**  A set request bit stays set across every operation other
than an `Acknowledge` that names it — re-triggering, enable / vector-table writes and
acknowledges of other bits included — and so across every history without such an
acknowledge.  Conversely a request bit only ever becomes set by a `Trigger` that names it. -/
theorem pending_sticky (q : Nat) :
    (∀ (s : Icu) (op : Op), s.request.getLsbD q = true → op.acks q = false →
      (step s op).1.request.getLsbD q = true) ∧
    (∀ (ops : List Op) (s : Icu), s.request.getLsbD q = true → (∀ op ∈ ops, op.acks q = false) →
      (run ops s).request.getLsbD q = true) ∧
    (∀ (s : Icu) (op : Op), s.request.getLsbD q = false → (step s op).1.request.getLsbD q = true →
      op.triggers q = true) := by
  have h1 : ∀ (s : Icu) (op : Op), s.request.getLsbD q = true → op.acks q = false →
      (step s op).1.request.getLsbD q = true := by
    intro s op hs ha
    cases op with
    | ack b =>
      have hb : b.getLsbD q = false := ha
      have hq := BitVec.lt_of_getLsbD hs
      simp_all [step, acknowledge]
    | trigger b => simp [step, trigger, hs]
    | triggerSingle irq => simp [step, trigger, hs]
    | _ => exact hs
  refine ⟨h1, ?_, ?_⟩
  · intro ops
    induction ops with
    | nil => intro s hs _; exact hs
    | cons op ops ih =>
      intro s hs h
      exact ih _ (h1 s op hs (h op List.mem_cons_self)) (fun o ho => h o (List.mem_cons_of_mem _ ho))
  · intro s op hs h
    cases op with
    | ack b => simp [step, acknowledge, hs] at h
    | trigger b => simpa [step, trigger, hs, Op.triggers] using h
    | triggerSingle irq => simpa [step, trigger, hs, Op.triggers] using h
    | setEnable i b => simp [step, setEnable, hs] at h
    | setEnableVectored b => simp [step, setEnableVectored, hs] at h
    | setVector q lo hi cs => simp [step, hs] at h

/-- Delivery happens at `Trigger` time only: changing the routing (`SetEnable`,
`SetEnableVectored`, vector tables) or acknowledging calls no handler, so a request that was
latched while unrouted is *not* delivered by the ICU when it is routed later (it stays visible in
`request`). -/
theorem route_change_silent (s : Icu) (op : Op) (h : ∀ q, op.triggers q = false) :
    (step s op).2 = [] := by
  cases op with
  | trigger b =>
    have hb : ∀ q : Fin 16, b.getLsbD q = false := fun q => h q
    simp only [step, trigger, List.flatMap_eq_nil_iff, List.mem_filter, List.mem_finRange, true_and]
    intro q hq; rw [hb q] at hq; cases hq
  | triggerSingle irq =>
    have hb : ∀ q : Fin 16, (singleBit irq).getLsbD q = false := fun q => h q
    simp only [step, trigger, List.flatMap_eq_nil_iff, List.mem_filter, List.mem_finRange, true_and]
    intro q hq; rw [hb q] at hq; cases hq
  | _ => rfl

/-! ## non-vacuity -/

/-- A state with line 0 enabled for requests 0 and 15, line 2 for request 1, vectored for 15:
triggering {0, 1, 15} calls line 0, line 2, line 0, then the vectored handler. -/
example :
    (({ enabled := #v[0x8001, 0, 2], vectoredEnabled := 0x8000,
        vectorLow := Vector.replicate 16 0x10, vectorHigh := Vector.replicate 16 3,
        vectorContextSwitch := Vector.replicate 16 1 } : Icu).trigger 0x8003).2 =
      [.interrupt 0, .interrupt 2, .interrupt 0, .vectored 0x30010 true] := by decide
example : (({ request := 0x4000 } : Icu).acknowledge 0x4000).request = 0 := by decide
example : (({ } : Icu).triggerSingle 0xE) = .ok ({ request := 0x4000 }, []) := by decide
example : Op.acks 14 (.ack 0x0001) = false ∧ Op.acks 14 (.trigger 0x4000) = false ∧
    Op.triggers 14 (.triggerSingle 14) = true := by decide

end Teakra.Icu
