import Proofs.C06Sys
/-!
# C06 — slicing with host events at the slice boundaries

`Proofs/C06.lean` (`run_partition`) covers back-to-back calls of `Run`.  Here the host may act
between two calls (`SendData`, `RecvData`, the semaphore calls, `MMIOWrite`, …).  A *script* is a
list of `run n` and `host f` items; `merge` joins adjacent `run` items.  Two scripts with the same
`merge` have the same host events, in the same order, at the same cumulative cycle positions, and
differ only in how the cycles in between are sliced.  `exec_same_merge`: they are observationally
equal.

Part 1 is abstract (any `LoopOps` with `FastForwardOk` / `ObsOk`), part 2 instantiates it for the
concrete machine and the host API of `TeakraModel/Bus.lean`.
-/
namespace Teakra.LoopOps
variable {ε S O : Type} {o : LoopOps ε S}

/-- A host action between two calls of `Run`: it keeps the invariant, and it respects the
observation on states that satisfy the invariant. -/
structure HostOk (o : LoopOps ε S) (h : FastForwardOk o) (obs : S → O) (f : S → Except ε S) : Prop where
  keepsP : ∀ s s', h.P s → f s = .ok s' → h.P s'
  congr : ∀ s t, h.P s → h.P t → obs s = obs t → (f s).map obs = (f t).map obs

/-- One step of a script: a call of `Run(n)`, or a host action. -/
inductive Item (ε S : Type) where
  | run (n : Nat)
  | host (f : S → Except ε S)

/-- Execute a script from left to right. -/
def exec (o : LoopOps ε S) : List (Item ε S) → S → Except ε S
  | [], s => .ok s
  | .run n :: l, s => o.run n s >>= fun s' => exec o l s'
  | .host f :: l, s => f s >>= fun s' => exec o l s'

/-- The total number of cycles of a script. -/
def budget : List (Item ε S) → Nat
  | [] => 0
  | .run n :: l => n + budget l
  | .host _ :: l => budget l

/-- Join adjacent `run` items (`run a :: run b :: l ↦ run (a + b) :: l`, recursively); host items
stay in place.  The result has no two adjacent `run` items. -/
def merge : List (Item ε S) → List (Item ε S)
  | [] => []
  | .host f :: l => .host f :: merge l
  | .run a :: l =>
    match merge l with
    | .run b :: l' => .run (a + b) :: l'
    | l' => .run a :: l'

/-- Every host item of the script is an admissible host action. -/
def HostsOk (o : LoopOps ε S) (h : FastForwardOk o) (obs : S → O) (l : List (Item ε S)) : Prop :=
  ∀ f, Item.host f ∈ l → HostOk o h obs f

/-! ### `merge` -/

theorem merge_run_of_run (a b : Nat) (l l' : List (Item ε S)) (hm : merge l = .run b :: l') :
    merge (.run a :: l) = .run (a + b) :: l' := by
  simp only [merge, hm]

theorem merge_run_of_nil (a : Nat) (l : List (Item ε S)) (hm : merge l = []) :
    merge (.run a :: l) = [.run a] := by
  simp only [merge, hm]

theorem merge_run_of_host (a : Nat) (f : S → Except ε S) (l l' : List (Item ε S)) (hm : merge l = .host f :: l') :
    merge (.run a :: l) = .run a :: .host f :: l' := by
  simp only [merge, hm]

/-- `merge` really is the stated rewrite rule. -/
theorem merge_run_run (a b : Nat) (l : List (Item ε S)) :
    merge (.run a :: .run b :: l) = merge (.run (a + b) :: l) := by
  cases hm : merge l with
  | nil => rw [merge_run_of_run a b _ [] (merge_run_of_nil b l hm), merge_run_of_nil _ l hm]
  | cons x l' =>
    cases x with
    | run c =>
      rw [merge_run_of_run a (b + c) _ l' (merge_run_of_run b c l l' hm), merge_run_of_run (a + b) c l l' hm,
        Nat.add_assoc]
    | host f =>
      rw [merge_run_of_run a b _ (.host f :: l') (merge_run_of_host b f l l' hm), merge_run_of_host _ f l l' hm]

theorem budget_merge : ∀ l : List (Item ε S), budget (merge l) = budget l
  | [] => rfl
  | .host f :: l => by simp only [merge, budget, budget_merge l]
  | .run a :: l => by
    have ih := budget_merge l
    cases hm : merge l with
    | nil => rw [merge_run_of_nil a l hm]; rw [hm] at ih; simp only [budget] at ih ⊢; omega
    | cons x l' =>
      cases x with
      | run b => rw [merge_run_of_run a b l l' hm]; rw [hm] at ih; simp only [budget] at ih ⊢; omega
      | host f => rw [merge_run_of_host a f l l' hm]; rw [hm] at ih; simp only [budget] at ih ⊢; omega

/-- `merge` keeps the host items. -/
theorem host_mem_merge (f : S → Except ε S) : ∀ l : List (Item ε S), Item.host f ∈ merge l ↔ Item.host f ∈ l
  | [] => Iff.rfl
  | .host g :: l => by
    simp only [merge, List.mem_cons, host_mem_merge f l]
  | .run a :: l => by
    have ih := host_mem_merge f l
    cases hm : merge l with
    | nil =>
      rw [merge_run_of_nil a l hm]; rw [hm] at ih
      simp only [List.mem_cons, reduceCtorEq, false_or, ← ih]
    | cons x l' =>
      cases x with
      | run b =>
        rw [merge_run_of_run a b l l' hm]; rw [hm] at ih
        simp only [List.mem_cons, reduceCtorEq, false_or] at ih ⊢
        exact ih
      | host g =>
        rw [merge_run_of_host a g l l' hm]; rw [hm] at ih
        simp only [List.mem_cons, reduceCtorEq, false_or] at ih ⊢
        exact ih

theorem HostsOk.merge {h : FastForwardOk o} {obs : S → O} {l : List (Item ε S)} :
    HostsOk o h obs (merge l) ↔ HostsOk o h obs l :=
  ⟨fun hl f hf => hl f ((host_mem_merge f l).2 hf), fun hl f hf => hl f ((host_mem_merge f l).1 hf)⟩

theorem HostsOk.tail {h : FastForwardOk o} {obs : S → O} {x : Item ε S} {l : List (Item ε S)}
    (hl : HostsOk o h obs (x :: l)) : HostsOk o h obs l :=
  fun f hf => hl f (List.mem_cons_of_mem _ hf)

/-- `merge` is idempotent: its result is a normal form. -/
theorem merge_merge : ∀ l : List (Item ε S), merge (merge l) = merge l
  | [] => rfl
  | .host f :: l => by simp only [merge, merge_merge l]
  | .run a :: l => by
    have ih := merge_merge l
    cases hm : merge l with
    | nil => rw [merge_run_of_nil a l hm]; rfl
    | cons x l' =>
      rw [hm] at ih
      cases x with
      | host f =>
        rw [merge_run_of_host a f l l' hm]
        exact merge_run_of_host a f _ l' ih
      | run b =>
        rw [merge_run_of_run a b l l' hm]
        -- `merge (run b :: l') = run b :: l'`: the head of `merge l'` is not a `run`
        cases hm' : LoopOps.merge l' with
        | nil =>
          rw [merge_run_of_nil b l' hm'] at ih
          injection ih with _ ih
          rw [merge_run_of_nil _ l' hm', ih]
        | cons y l'' =>
          cases y with
          | run c =>
            rw [merge_run_of_run b c l' l'' hm'] at ih
            injection ih with ih1 ih2
            injection ih1 with ih1
            rw [merge_run_of_run _ c l' l'' hm', ← ih2]
            have : c = 0 := by omega
            rw [this]; rfl
          | host f =>
            rw [merge_run_of_host b f l' l'' hm'] at ih
            injection ih with _ ih
            rw [merge_run_of_host _ f l' l'' hm', ih]

/-! ### `Run(n)` respects the observation -/

private theorem map_eq_cases {α β : Type} {x y : Except ε α} {f : α → β} (h : x.map f = y.map f) :
    (∃ e, x = .error e ∧ y = .error e) ∨ (∃ a b, x = .ok a ∧ y = .ok b ∧ f a = f b) := by
  cases x <;> cases y <;> simp [Except.map] at h
  · left; exact ⟨_, rfl, by rw [h]⟩
  · right; exact ⟨_, _, rfl, rfl, h⟩

/-- `n` single cycles respect the observation (restated from `Proofs/C06.lean`, where it is private). -/
theorem cyclesN_obs_congr {obs : S → O} {h : FastForwardOk o} (hob : ObsOk o h obs) (n : Nat) :
    ∀ s t, h.P s → h.P t → obs s = obs t → (o.cyclesN n s).map obs = (o.cyclesN n t).map obs := by
  induction n with
  | zero => intro s t _ _ hst; simp [cyclesN, Except.map, hst]
  | succ n ih =>
    intro s t hps hpt hst
    simp only [cyclesN]
    rcases map_eq_cases (hob.body_congr s t hps hpt hst) with ⟨e, h1, h2⟩ | ⟨a, b, h1, h2, hab⟩
    · rw [h1, h2]
    · rw [h1, h2]
      simp only [bind, Except.bind]
      rcases map_eq_cases (hob.tick_congr a b hab) with ⟨e, h3, h4⟩ | ⟨a', b', h3, h4, hab'⟩
      · rw [h3, h4]
      · rw [h3, h4]
        exact ih a' b' (h.P_cycle s a a' hps h1 h3) (h.P_cycle t b b' hpt h2 h4) hab'

/-- One call of `Run(n)` from two observationally equal states. -/
theorem run_congr {obs : S → O} (h : FastForwardOk o) (hob : ObsOk o h obs) (n : Nat) (hn : n ≤ h.bound)
    (s t : S) (hps : h.P s) (hpt : h.P t) (hst : obs s = obs t) :
    (o.run n s).map obs = (o.run n t).map obs := by
  rw [run_eq_cycles h n hn s (hob.P_start s hps), run_eq_cycles h n hn t (hob.P_start t hpt)]
  exact cyclesN_obs_congr hob n _ _ (hob.P_start s hps) (hob.P_start t hpt)
    (by rw [hob.start_obs, hob.start_obs, hst])

/-! ### scripts -/

/-- The invariant holds after every completed script. -/
theorem P_exec {obs : S → O} (h : FastForwardOk o) (hob : ObsOk o h obs) :
    ∀ (l : List (Item ε S)), HostsOk o h obs l → budget l ≤ h.bound →
      ∀ s s', h.P s → exec o l s = .ok s' → h.P s'
  | [], _, _, s, s', hp, he => by
    simp only [exec] at he
    injection he with he
    rw [← he]; exact hp
  | .run n :: l, hl, hb, s, s', hp, he => by
    simp only [budget] at hb
    simp only [exec] at he
    cases hr : o.run n s with
    | error e => rw [hr] at he; cases he
    | ok s1 =>
      rw [hr] at he
      exact P_exec h hob l hl.tail (by omega) s1 s' (P_run h hob n (by omega) s s1 hp hr) he
  | .host f :: l, hl, hb, s, s', hp, he => by
    simp only [budget] at hb
    simp only [exec] at he
    cases hr : f s with
    | error e => rw [hr] at he; cases he
    | ok s1 =>
      rw [hr] at he
      exact P_exec h hob l hl.tail hb s1 s' ((hl f (List.mem_cons_self ..)).keepsP s s1 hp hr) he

/-- **A script respects the observation**: from two states that satisfy the invariant and are
observationally equal, a script gives observationally equal results (including aborts). -/
theorem exec_congr {obs : S → O} (h : FastForwardOk o) (hob : ObsOk o h obs) :
    ∀ (l : List (Item ε S)), HostsOk o h obs l → budget l ≤ h.bound →
      ∀ s t, h.P s → h.P t → obs s = obs t → (exec o l s).map obs = (exec o l t).map obs
  | [], _, _, s, t, _, _, hst => by simp only [exec, Except.map, hst]
  | .run n :: l, hl, hb, s, t, hps, hpt, hst => by
    simp only [budget] at hb
    simp only [exec]
    rcases map_eq_cases (run_congr h hob n (by omega) s t hps hpt hst) with ⟨e, h1, h2⟩ | ⟨a, b, h1, h2, hab⟩
    · rw [h1, h2]
    · rw [h1, h2]
      exact exec_congr h hob l hl.tail (by omega) a b (P_run h hob n (by omega) s a hps h1)
        (P_run h hob n (by omega) t b hpt h2) hab
  | .host f :: l, hl, hb, s, t, hps, hpt, hst => by
    simp only [budget] at hb
    simp only [exec]
    have hf := hl f (List.mem_cons_self ..)
    rcases map_eq_cases (hf.congr s t hps hpt hst) with ⟨e, h1, h2⟩ | ⟨a, b, h1, h2, hab⟩
    · rw [h1, h2]
    · rw [h1, h2]
      exact exec_congr h hob l hl.tail hb a b (hf.keepsP s a hps h1) (hf.keepsP t b hpt h2) hab

/-- **A zero-length slice is unobservable**: `Run(0)` may be inserted in front of any script. -/
theorem exec_run_zero {obs : S → O} (h : FastForwardOk o) (hob : ObsOk o h obs) (l : List (Item ε S))
    (hl : HostsOk o h obs l) (hb : budget l ≤ h.bound) (s : S) (hp : h.P s) :
    (exec o (.run 0 :: l) s).map obs = (exec o l s).map obs := by
  have hr : o.run 0 s = .ok (o.start s) := by
    rw [run_eq_cycles h 0 (Nat.zero_le _) s (hob.P_start s hp)]; rfl
  simp only [exec, hr]
  exact exec_congr h hob l hl hb (o.start s) s (hob.P_start s hp) hp (hob.start_obs s)

/-- Appending scripts. -/
theorem exec_append (l₁ l₂ : List (Item ε S)) : ∀ s, exec o (l₁ ++ l₂) s = exec o l₁ s >>= fun s' => exec o l₂ s' := by
  induction l₁ with
  | nil => intro s; rfl
  | cons x l₁ ih =>
    intro s
    cases x with
    | run n =>
      simp only [List.cons_append, exec]
      cases o.run n s with
      | error e => rfl
      | ok s1 => exact ih s1
    | host f =>
      simp only [List.cons_append, exec]
      cases f s with
      | error e => rfl
      | ok s1 => exact ih s1

theorem budget_append (l₁ l₂ : List (Item ε S)) : budget (l₁ ++ l₂) = budget l₁ + budget l₂ := by
  induction l₁ with
  | nil => simp [budget]
  | cons x l₁ ih => cases x <;> simp only [List.cons_append, budget, ih] <;> omega

/-- … and a `Run(0)` may be inserted anywhere in a script. -/
theorem exec_insert_run_zero {obs : S → O} (h : FastForwardOk o) (hob : ObsOk o h obs) (l₁ l₂ : List (Item ε S))
    (hl : HostsOk o h obs (l₁ ++ l₂)) (hb : budget (l₁ ++ l₂) ≤ h.bound) (s : S) (hp : h.P s) :
    (exec o (l₁ ++ .run 0 :: l₂) s).map obs = (exec o (l₁ ++ l₂) s).map obs := by
  have hl1 : HostsOk o h obs l₁ := fun f hf => hl f (List.mem_append_left _ hf)
  have hl2 : HostsOk o h obs l₂ := fun f hf => hl f (List.mem_append_right _ hf)
  rw [budget_append] at hb
  rw [exec_append, exec_append]
  cases he : exec o l₁ s with
  | error e => rfl
  | ok s1 =>
    exact exec_run_zero h hob l₂ hl2 (by omega) s1 (P_exec h hob l₁ hl1 (by omega) s s1 hp he)

/-- **Merging adjacent slices is unobservable.** -/
theorem exec_merge {obs : S → O} (h : FastForwardOk o) (hob : ObsOk o h obs) :
    ∀ (l : List (Item ε S)), HostsOk o h obs l → budget l ≤ h.bound →
      ∀ s, h.P s → (exec o l s).map obs = (exec o (merge l) s).map obs
  | [], _, _, _, _ => rfl
  | .host f :: l, hl, hb, s, hp => by
    simp only [budget] at hb
    simp only [merge, exec]
    cases hr : f s with
    | error e => rfl
    | ok s1 => exact exec_merge h hob l hl.tail hb s1 ((hl f (List.mem_cons_self ..)).keepsP s s1 hp hr)
  | .run a :: l, hl, hb, s, hp => by
    simp only [budget] at hb
    have hbm := budget_merge l
    have hlm : HostsOk o h obs (merge l) := HostsOk.merge.2 hl.tail
    -- first merge the tail
    have h1 : (exec o (.run a :: l) s).map obs = (exec o (.run a :: merge l) s).map obs := by
      simp only [exec]
      cases hr : o.run a s with
      | error e => rfl
      | ok s1 => exact exec_merge h hob l hl.tail (by omega) s1 (P_run h hob a (by omega) s s1 hp hr)
    rw [h1]
    cases hm : merge l with
    | nil => rw [merge_run_of_nil a l hm]
    | cons x l' =>
      cases x with
      | host f => rw [merge_run_of_host a f l l' hm]
      | run b =>
        rw [merge_run_of_run a b l l' hm]
        rw [hm] at hbm hlm
        simp only [budget] at hbm
        simp only [exec]
        have hsl := run_slice h hob a b (by omega) s hp
        have key : (o.run a s >>= fun s' => o.run b s' >>= fun s'' => exec o l' s'') =
            ((o.run a s >>= fun s' => o.run b s') >>= fun s'' => exec o l' s'') := by
          cases o.run a s <;> rfl
        rw [key]
        rcases map_eq_cases hsl with ⟨e, h2, h3⟩ | ⟨x, y, h2, h3, hxy⟩
        · rw [h2, h3]
        · rw [h2, h3]
          have hpx := P_run h hob (a + b) (by omega) s x hp h2
          have hpy : h.P y := by
            cases hr : o.run a s with
            | error e => rw [hr] at h3; cases h3
            | ok s1 =>
              rw [hr] at h3
              exact P_run h hob b (by omega) s1 y (P_run h hob a (by omega) s s1 hp hr) h3
          exact (exec_congr h hob l' hlm.tail (by omega) x y hpx hpy hxy).symm

/-- **Slicing with host events.**  Two scripts with the same `merge` — the same host actions in the
same order at the same cumulative cycle positions, and any slicing of the cycles in between — give
the same observation from the same state.  (Hypotheses on `l₁` only: `l₂` has the same host items
and the same budget.) -/
theorem exec_same_merge {obs : S → O} (h : FastForwardOk o) (hob : ObsOk o h obs) (l₁ l₂ : List (Item ε S))
    (hm : merge l₁ = merge l₂) (hl : HostsOk o h obs l₁) (hb : budget l₁ ≤ h.bound) (s : S) (hp : h.P s) :
    (exec o l₁ s).map obs = (exec o l₂ s).map obs := by
  have hl2 : HostsOk o h obs l₂ := HostsOk.merge.1 (hm ▸ HostsOk.merge.2 hl)
  have hb2 : budget l₂ ≤ h.bound := by rw [← budget_merge l₂, ← hm, budget_merge]; exact hb
  rw [exec_merge h hob l₁ hl hb s hp, exec_merge h hob l₂ hl2 hb2 s hp, hm]

/-- The same from two observationally equal states. -/
theorem exec_same_merge' {obs : S → O} (h : FastForwardOk o) (hob : ObsOk o h obs) (l₁ l₂ : List (Item ε S))
    (hm : merge l₁ = merge l₂) (hl : HostsOk o h obs l₁) (hb : budget l₁ ≤ h.bound) (s t : S) (hps : h.P s)
    (hpt : h.P t) (hst : obs s = obs t) :
    (exec o l₁ s).map obs = (exec o l₂ t).map obs := by
  rw [exec_same_merge h hob l₁ l₂ hm hl hb s hps]
  have hl2 : HostsOk o h obs l₂ := HostsOk.merge.1 (hm ▸ HostsOk.merge.2 hl)
  have hb2 : budget l₂ ≤ h.bound := by rw [← budget_merge l₂, ← hm, budget_merge]; exact hb
  exact exec_congr h hob l₂ hl2 hb2 s t hps hpt hst

/-- `run_partition` of `Proofs/C06.lean` is the special case without host items. -/
theorem exec_runs (ns : List Nat) : ∀ s, exec o (ns.map Item.run) s = runSlices o ns s := by
  induction ns with
  | nil => intro s; rfl
  | cons n ns ih =>
    intro s
    simp only [List.map_cons, exec, runSlices]
    cases o.run n s with
    | error e => rfl
    | ok s1 => exact ih s1

end Teakra.LoopOps

/-! # the concrete machine -/
namespace Teakra.Sys
open Teakra LoopOps

/-! ## host actions on the whole machine

A host call between two `Run`s goes to the bus; the events it returns (interrupt requests to the
core, host callbacks) are applied to the core latches and appended to the event history, exactly as
the bus driver does (`Drive/Bus.lean`, `withBus` / `latchEvents`).  The registers, the memory log
and the `idle` flag are not touched. -/

/-- Lift a bus-level host call to the machine. -/
def liftBus (f : Bus → R (Bus × List PEvent)) (c : Core) : Except Stop Core :=
  match f c.bus with
  | .ok (b, evs) => .ok (({ c with bus := b } : Core).emit evs)
  | .error e => .error (.abort e)

/-- `Teakra::SendData(i, v)` -/
def sendData (i : Nat) (v : U16) : Core → Except Stop Core := liftBus fun b => b.sendData i v
/-- `Teakra::RecvData(i)` (the value handed to the host is a function of the bus, see `host_reads_congr`) -/
def recvData (i : Nat) : Core → Except Stop Core := liftBus fun b =>
  match b.recvData i with
  | .ok (_, b') => .ok (b', [])
  | .error e => .error e
/-- `Teakra::SetSemaphore(v)` -/
def setSemaphore (v : U16) : Core → Except Stop Core := liftBus fun b => .ok (b.setSemaphore v)
/-- `Teakra::MaskSemaphore(v)` -/
def maskSemaphore (v : U16) : Core → Except Stop Core := liftBus fun b => .ok (b.maskSemaphore v)
/-- `Teakra::ClearSemaphore(v)` -/
def clearSemaphore (v : U16) : Core → Except Stop Core := liftBus fun b => .ok (b.clearSemaphore v, [])
/-- `Teakra::MMIOWrite(addr, v)`, unguarded -/
def hostMmioWriteRaw (addr v : U16) : Core → Except Stop Core := liftBus fun b => b.hostMmioWrite addr v
/-- `Teakra::MMIORead(addr)`, unguarded (reads have side effects on some cells) -/
def hostMmioReadRaw (addr : U16) : Core → Except Stop Core := liftBus fun b =>
  match b.hostMmioRead addr with
  | .ok (_, b', evs) => .ok (b', evs)
  | .error e => .error e

/-! ### what a lifted call does -/

theorem liftBus_spec (f : Bus → R (Bus × List PEvent)) (c c' : Core) (h : liftBus f c = .ok c') :
    ∃ b evs, f c.bus = .ok (b, evs) ∧ c' = ({ c with bus := b } : Core).emit evs := by
  unfold liftBus at h
  cases hf : f c.bus with
  | error e => rw [hf] at h; cases h
  | ok r =>
    obtain ⟨b, evs⟩ := r
    rw [hf] at h
    injection h with h
    exact ⟨b, evs, rfl, h.symm⟩

/-- The registers, the memory log and the idle flag are untouched; the bus is the one the call returns. -/
theorem liftBus_frame (f : Bus → R (Bus × List PEvent)) (c c' : Core) (h : liftBus f c = .ok c') :
    c'.regs = c.regs ∧ c'.log = c.log ∧ c'.idle = c.idle ∧
      ∃ evs, f c.bus = .ok (c'.bus, evs) ∧ c'.events = evs.reverse ++ c.events := by
  obtain ⟨b, evs, hf, hc'⟩ := liftBus_spec f c c' h
  obtain ⟨ip, vp, vc, va, he⟩ := Core.emit_frame ({ c with bus := b } : Core) evs
  rw [he] at hc'
  subst hc'
  exact ⟨rfl, rfl, rfl, evs, hf, rfl⟩

/-- A lifted call neither reads nor writes `idle`. -/
theorem liftBus_idle (f : Bus → R (Bus × List PEvent)) (s : Core) (b : Bool) :
    liftBus f { s with idle := b } = (liftBus f s).map fun c => { c with idle := b } := by
  unfold liftBus
  show (match f s.bus with | .ok (b', evs) => _ | .error e => _) = _
  cases hf : f s.bus with
  | error e => rfl
  | ok r =>
    obtain ⟨b', evs⟩ := r
    simp only [Except.map]
    exact congrArg Except.ok (emit_idle ({ s with bus := b' } : Core) b evs)

/-- A lifted call respects the observation (no invariant needed). -/
theorem liftBus_congr (f : Bus → R (Bus × List PEvent)) (s t : Core) (h : obs s = obs t) :
    (liftBus f s).map obs = (liftBus f t).map obs := by
  have ht := obs_eq s t h
  generalize t.idle = b at ht
  subst ht
  rw [liftBus_idle f s b]
  cases liftBus f s with
  | error e => rfl
  | ok c => rfl

/-- Everything the host can *read* between two calls (`RecvData`, `GetSemaphore`, `MMIORead`, the
shared memory, …) is a function of the bus, which the observation keeps. -/
theorem host_reads_congr {α : Type} (g : Bus → α) (s t : Core) (h : obs s = obs t) : g s.bus = g t.bus := by
  rw [obs_eq s t h]

/-! ### calls that stay inside the envelope unconditionally -/

/-- The call leaves the shared memory, the timers and the audio ports alone. -/
def Bus.Quiet (f : Bus → R (Bus × List PEvent)) : Prop :=
  ∀ b b' evs, f b = .ok (b', evs) → b'.mem = b.mem ∧ b'.per.timer = b.per.timer ∧ b'.per.btdmp = b.per.btdmp

theorem hostOk_of_quiet (f : Bus → R (Bus × List PEvent)) (hq : Bus.Quiet f) :
    HostOk (ops true) ffOk obs (liftBus f) where
  congr := fun s t _ _ h => liftBus_congr f s t h
  keepsP := by
    intro s s' hp h
    obtain ⟨hr, _, hi, evs, hf, _⟩ := liftBus_frame f s s' h
    obtain ⟨hm, ht, hb⟩ := hq _ _ _ hf
    obtain ⟨h1, h2, h3, h4⟩ := hp
    refine ⟨?_, ?_, ?_, ?_⟩
    · unfold idleOk at h1 ⊢
      rw [brrSelf_congr s s' hr hm, hi]
      exact h1
    · unfold periphOk at h2 ⊢
      rw [hb]; exact h2
    · rw [ht]; exact h3
    · rw [ht]; exact h4

theorem sendData_quiet (i : Nat) (v : U16) : Bus.Quiet fun b => b.sendData i v := by
  intro b b' evs h
  simp only [Bus.sendData] at h
  cases hs : b.per.apbpFromCpu.sendDataN i v with
  | error e => rw [hs] at h; cases h
  | ok r =>
    obtain ⟨a, ev⟩ := r
    rw [hs] at h
    injection h with h
    injection h with h1 h2
    rw [← h1, Periph.raiseN_frame]
    exact ⟨rfl, rfl, rfl⟩

theorem recvData_quiet (i : Nat) : Bus.Quiet fun b =>
    match b.recvData i with
    | .ok (_, b') => .ok (b', [])
    | .error e => .error e := by
  intro b b' evs h
  simp only [Bus.recvData] at h
  cases hs : b.per.apbpFromDsp.recvDataN i with
  | error e => rw [hs] at h; cases h
  | ok r =>
    obtain ⟨a, v⟩ := r
    rw [hs] at h
    injection h with h
    injection h with h1 h2
    rw [← h1]
    exact ⟨rfl, rfl, rfl⟩

theorem setSemaphore_quiet (v : U16) : Bus.Quiet fun b => .ok (b.setSemaphore v) := by
  intro b b' evs h
  injection h with h
  simp only [Bus.setSemaphore] at h
  injection h with h1 h2
  rw [← h1, Periph.raiseN_frame]
  exact ⟨rfl, rfl, rfl⟩

theorem maskSemaphore_quiet (v : U16) : Bus.Quiet fun b => .ok (b.maskSemaphore v) := by
  intro b b' evs h
  injection h with h
  simp only [Bus.maskSemaphore] at h
  injection h with h1 h2
  rw [← h1]
  exact ⟨rfl, rfl, rfl⟩

theorem clearSemaphore_quiet (v : U16) : Bus.Quiet fun b => .ok (b.clearSemaphore v, []) := by
  intro b b' evs h
  injection h with h
  injection h with h1 h2
  rw [← h1]
  exact ⟨rfl, rfl, rfl⟩

/-- **`SendData`, `RecvData` and the three semaphore calls are admissible host actions**, without
any side condition. -/
theorem sendData_hostOk (i : Nat) (v : U16) : HostOk (ops true) ffOk obs (sendData i v) :=
  hostOk_of_quiet _ (sendData_quiet i v)
theorem recvData_hostOk (i : Nat) : HostOk (ops true) ffOk obs (recvData i) :=
  hostOk_of_quiet _ (recvData_quiet i)
theorem setSemaphore_hostOk (v : U16) : HostOk (ops true) ffOk obs (setSemaphore v) :=
  hostOk_of_quiet _ (setSemaphore_quiet v)
theorem maskSemaphore_hostOk (v : U16) : HostOk (ops true) ffOk obs (maskSemaphore v) :=
  hostOk_of_quiet _ (maskSemaphore_quiet v)
theorem clearSemaphore_hostOk (v : U16) : HostOk (ops true) ffOk obs (clearSemaphore v) :=
  hostOk_of_quiet _ (clearSemaphore_quiet v)

/-! ### calls that can leave the envelope: `MMIOWrite`, `MMIORead`

An MMIO write can put a timer into a configuration `Timer::Tick` rejects, break the flag invariant
of an audio port, or (by starting a DMA transfer) rewrite the program word the idling core sits on.
The invariant `P` is decidable, so such a call can be wrapped in a guard that answers `unmodelled`
when the result is outside the envelope. -/

instance (c : Core) : Decidable (P c) := by unfold P; exact inferInstance

/-- The guard as first proposed: check `P` on the result.  It keeps `P` (`guardP_keepsP`) but it does
NOT respect the observation (`guardP_not_hostOk`): `P` reads the `idle` flag. -/
def guardP (act : Core → Except Stop Core) (c : Core) : Except Stop Core :=
  match act c with
  | .ok c' => if decide (P c') then .ok c' else .error (.unmodelled "host action left the proven envelope")
  | .error e => .error e

theorem guardP_ok (act : Core → Except Stop Core) (c c' : Core) (h : guardP act c = .ok c') :
    act c = .ok c' ∧ P c' := by
  unfold guardP at h
  cases ha : act c with
  | error e => rw [ha] at h; cases h
  | ok c1 =>
    rw [ha] at h
    by_cases hp : P c1
    · simp only [hp, decide_true, if_true] at h
      injection h with h
      rw [← h]; exact ⟨rfl, hp⟩
    · simp only [hp, decide_false, Bool.false_eq_true, if_false] at h
      cases h

theorem guardP_keepsP (act : Core → Except Stop Core) (c c' : Core) (h : guardP act c = .ok c') : P c' :=
  (guardP_ok act c c' h).2

/-- The envelope check that does not look at `idle`: the audio ports and the timers are inside the
envelope, and a core that sat on a plain self-branch before the call still does.  Among the checks
that treat observationally equal states alike this is the weakest one that implies `P` for the
result (`guardEnv_of_guardP`). -/
def envOk (c c' : Core) : Bool :=
  periphOk c'.bus && decide (Timer.WF (c'.bus.per.timer[0])) && decide (Timer.WF (c'.bus.per.timer[1])) &&
    (!brrSelf c || brrSelf c')

def guardEnv (act : Core → Except Stop Core) (c : Core) : Except Stop Core :=
  match act c with
  | .ok c' => if envOk c c' then .ok c' else .error (.unmodelled "host action left the proven envelope")
  | .error e => .error e

theorem guardEnv_ok (act : Core → Except Stop Core) (c c' : Core) (h : guardEnv act c = .ok c') :
    act c = .ok c' ∧ envOk c c' = true := by
  unfold guardEnv at h
  cases ha : act c with
  | error e => rw [ha] at h; cases h
  | ok c1 =>
    rw [ha] at h
    by_cases hp : envOk c c1 = true
    · simp only [hp, if_true] at h
      injection h with h
      rw [← h]; exact ⟨rfl, hp⟩
    · simp only [hp, Bool.false_eq_true, if_false] at h
      cases h

theorem envOk_P (c c' : Core) (hi : c'.idle = c.idle) (hp : P c) (h : envOk c c' = true) : P c' := by
  unfold envOk at h
  simp only [Bool.and_eq_true, decide_eq_true_eq, Bool.or_eq_true, Bool.not_eq_true'] at h
  obtain ⟨⟨⟨h1, h2⟩, h3⟩, h4⟩ := h
  refine ⟨?_, h1, h2, h3⟩
  have h0 := hp.1
  unfold idleOk at h0 ⊢
  rw [hi]
  cases hci : c.idle with
  | false => rfl
  | true =>
    rw [hci] at h0
    have hb : brrSelf c = true := by simpa using h0
    rcases h4 with h4 | h4
    · rw [hb] at h4; cases h4
    · simp [h4]

/-- **Any bus-level host call, guarded, is an admissible host action.** -/
theorem guardEnv_hostOk (f : Bus → R (Bus × List PEvent)) : HostOk (ops true) ffOk obs (guardEnv (liftBus f)) where
  keepsP := by
    intro s s' hp h
    obtain ⟨ha, he⟩ := guardEnv_ok _ s s' h
    exact envOk_P s s' (liftBus_frame f s s' ha).2.2.1 hp he
  congr := by
    intro s t _ _ h
    have ht := obs_eq s t h
    generalize t.idle = b at ht
    subst ht
    unfold guardEnv
    rw [liftBus_idle f s b]
    cases liftBus f s with
    | error e => rfl
    | ok c =>
      simp only [Except.map]
      have he : envOk { s with idle := b } { c with idle := b } = envOk s c := by
        unfold envOk
        rw [brrSelf_congr s ({ s with idle := b } : Core) rfl rfl, brrSelf_congr c ({ c with idle := b } : Core) rfl rfl]
      rw [he]
      cases envOk s c <;> rfl

/-- The envelope guard accepts only what the `P` guard accepts … -/
theorem guardP_of_guardEnv (f : Bus → R (Bus × List PEvent)) (c c' : Core) (hp : P c)
    (h : guardEnv (liftBus f) c = .ok c') : guardP (liftBus f) c = .ok c' := by
  have hp' : P c' := (guardEnv_hostOk f).keepsP c c' hp h
  obtain ⟨ha, _⟩ := guardEnv_ok _ c c' h
  unfold guardP
  rw [ha]
  simp only [hp', decide_true, if_true]

/-- … and the two differ only when a core that is *not* idle sits on a self-branch which the call
destroys (observationally equal to the idle core on that self-branch, for which `P` fails). -/
theorem guardEnv_of_guardP (f : Bus → R (Bus × List PEvent)) (c c' : Core)
    (hc : c.idle = true ∨ brrSelf c = false) (h : guardP (liftBus f) c = .ok c') :
    guardEnv (liftBus f) c = .ok c' := by
  obtain ⟨ha, hp'⟩ := guardP_ok _ c c' h
  have hi := (liftBus_frame f c c' ha).2.2.1
  have he : envOk c c' = true := by
    obtain ⟨h1, h2, h3, h4⟩ := hp'
    unfold envOk
    simp only [Bool.and_eq_true, decide_eq_true_eq, Bool.or_eq_true, Bool.not_eq_true']
    refine ⟨⟨⟨h2, h3⟩, h4⟩, ?_⟩
    rcases hc with hc | hc
    · right
      unfold idleOk at h1
      rw [hi, hc] at h1
      simpa using h1
    · left; exact hc
  unfold guardEnv
  rw [ha]
  simp only [he, if_true]

/-! #### the `P` guard does not respect the observation

Witness: the upstream witness state (idle on `brr -1` at address 0) and the same state with
`idle = false` (what a zero-length `Run` leaves) are observationally equal and both satisfy `P`.  A
host action that destroys the self-branch is rejected by `guardP` in the first (the result would be
an idle core that is not on a self-branch) and accepted in the second. -/

/-- A bus-level action that wipes the shared memory (what a DMA transfer started through MMIO can do to
the program word under the idle loop). -/
def wipe : Bus → R (Bus × List PEvent) := fun b => .ok ({ b with mem := {} }, [])

theorem P_upstreamWitness : P upstreamWitness := by
  refine ⟨?_, by decide, by decide, by decide⟩
  unfold idleOk brrSelf
  rw [upstreamWitness_read]
  decide

theorem guardP_not_hostOk : ¬ HostOk (ops true) ffOk obs (guardP (liftBus wipe)) := by
  intro hh
  let s := upstreamWitness
  let t : Core := { upstreamWitness with idle := false }
  have hps : P s := P_upstreamWitness
  have hpt : P t := ⟨rfl, by decide, by decide, by decide⟩
  have hc := hh.congr s t hps hpt rfl
  have hs' : liftBus wipe s = .ok { s with bus := { s.bus with mem := {} } } := rfl
  have ht' : liftBus wipe t = .ok { t with bus := { t.bus with mem := {} } } := rfl
  have hnp : ¬ P { s with bus := { s.bus with mem := {} } } := by
    intro hp
    have h1 := hp.1
    unfold idleOk brrSelf Bus.programRead Mem.readWord at h1
    simp [s, upstreamWitness, Mem.read, Mem.inRange, Mem.byteAddr, fetchAddress, Mem.bgWord] at h1
  have hp2 : P { t with bus := { t.bus with mem := {} } } := ⟨rfl, by decide, by decide, by decide⟩
  unfold guardP at hc
  rw [hs', ht'] at hc
  simp only [hnp, hp2, decide_true, decide_false, if_true, Bool.false_eq_true, if_false, Except.map] at hc
  cases hc

/-- `Teakra::MMIOWrite(addr, v)` inside the envelope -/
def hostMmioWrite (addr v : U16) : Core → Except Stop Core := guardEnv (hostMmioWriteRaw addr v)
/-- `Teakra::MMIORead(addr)` inside the envelope -/
def hostMmioRead (addr : U16) : Core → Except Stop Core := guardEnv (hostMmioReadRaw addr)

theorem hostMmioWrite_hostOk (addr v : U16) : HostOk (ops true) ffOk obs (hostMmioWrite addr v) :=
  guardEnv_hostOk _
theorem hostMmioRead_hostOk (addr : U16) : HostOk (ops true) ffOk obs (hostMmioRead addr) :=
  guardEnv_hostOk _

/-! ## scripts of the host API -/

/-- The host calls covered. -/
inductive HostCall where
  | sendData (i : Nat) (v : U16)
  | recvData (i : Nat)
  | setSemaphore (v : U16)
  | maskSemaphore (v : U16)
  | clearSemaphore (v : U16)
  | mmioWrite (addr v : U16)
  | mmioRead (addr : U16)
  deriving DecidableEq, Repr

def HostCall.act : HostCall → Core → Except Stop Core
  | .sendData i v => Sys.sendData i v
  | .recvData i => Sys.recvData i
  | .setSemaphore v => Sys.setSemaphore v
  | .maskSemaphore v => Sys.maskSemaphore v
  | .clearSemaphore v => Sys.clearSemaphore v
  | .mmioWrite a v => Sys.hostMmioWrite a v
  | .mmioRead a => Sys.hostMmioRead a

theorem HostCall.hostOk : ∀ k : HostCall, HostOk (ops true) ffOk obs k.act
  | .sendData i v => sendData_hostOk i v
  | .recvData i => recvData_hostOk i
  | .setSemaphore v => setSemaphore_hostOk v
  | .maskSemaphore v => maskSemaphore_hostOk v
  | .clearSemaphore v => clearSemaphore_hostOk v
  | .mmioWrite a v => hostMmioWrite_hostOk a v
  | .mmioRead a => hostMmioRead_hostOk a

/-- One step of what the host does with the emulator: `Run(n)` or one of the calls above. -/
inductive Step where
  | run (n : Nat)
  | call (k : HostCall)
  deriving DecidableEq, Repr

def Step.item : Step → Item Stop Core
  | .run n => .run n
  | .call k => .host k.act

/-- The script of a list of steps. -/
def script (l : List Step) : List (Item Stop Core) := l.map Step.item

/-- Execute a list of steps on the machine. -/
def execSteps (l : List Step) (c : Core) : Except Stop Core := exec (ops true) (script l) c

/-- Total cycle count. -/
def cyclesOf : List Step → Nat
  | [] => 0
  | .run n :: l => n + cyclesOf l
  | .call _ :: l => cyclesOf l

/-- `merge` on first-order steps (so that "same host events at the same positions" is decidable). -/
def mergeSteps : List Step → List Step
  | [] => []
  | .call k :: l => .call k :: mergeSteps l
  | .run a :: l =>
    match mergeSteps l with
    | .run b :: l' => .run (a + b) :: l'
    | l' => .run a :: l'

theorem budget_script : ∀ l : List Step, budget (script l) = cyclesOf l
  | [] => rfl
  | .run n :: l => by show n + budget (script l) = _; rw [budget_script l]; rfl
  | .call k :: l => by show budget (script l) = _; rw [budget_script l]; rfl

theorem script_mergeSteps : ∀ l : List Step, script (mergeSteps l) = merge (script l)
  | [] => rfl
  | .call k :: l => by
    show Item.host k.act :: script (mergeSteps l) = Item.host k.act :: merge (script l)
    rw [script_mergeSteps l]
  | .run a :: l => by
    have ih := script_mergeSteps l
    show script (mergeSteps (.run a :: l)) = merge (.run a :: script l)
    cases hm : mergeSteps l with
    | nil =>
      rw [hm] at ih
      rw [merge_run_of_nil a _ ih.symm]
      simp only [mergeSteps, hm]; rfl
    | cons x l' =>
      rw [hm] at ih
      cases x with
      | run b =>
        rw [merge_run_of_run a b _ (script l') ih.symm]
        simp only [mergeSteps, hm]; rfl
      | call k =>
        rw [merge_run_of_host a k.act _ (script l') ih.symm]
        simp only [mergeSteps, hm]; rfl

theorem hostsOk_script (l : List Step) : HostsOk (ops true) ffOk obs (script l) := by
  intro f hf
  unfold script at hf
  obtain ⟨x, _, hx⟩ := List.mem_map.1 hf
  cases x with
  | run n => cases hx
  | call k =>
    injection hx with hx
    rw [← hx]; exact k.hostOk

/-- **C06 with host events, abstract scripts**: any two scripts over admissible host actions with the
same `merge`, within the cycle bound, are observationally equal from every state in the envelope. -/
theorem run_script_slicing_items (l₁ l₂ : List (Item Stop Core)) (hm : merge l₁ = merge l₂)
    (hl : HostsOk (ops true) ffOk obs l₁) (hb : budget l₁ ≤ 2 ^ 63) (c : Core) (hp : P c) :
    (exec (ops true) l₁ c).map obs = (exec (ops true) l₂ c).map obs :=
  exec_same_merge ffOk obsOk l₁ l₂ hm hl hb c hp

/-- **C06 with host events.**  Executing `n` cycles interleaved with host calls (`SendData`,
`RecvData`, `Set/Mask/ClearSemaphore`, `MMIOWrite`, `MMIORead`) gives the same registers, memory,
peripheral state, interrupt latches and ordered callback events (everything but the `idle` flag that
`Run` re-initialises), and the same abort if any, for every way of slicing the cycles between the
host calls: two step lists with the same host calls in the same order at the same cumulative cycle
positions (`mergeSteps l₁ = mergeSteps l₂`, a decidable condition) are observationally equal. -/
theorem run_script_slicing (l₁ l₂ : List Step) (hm : mergeSteps l₁ = mergeSteps l₂) (hb : cyclesOf l₁ ≤ 2 ^ 63)
    (c : Core) (hp : P c) :
    (execSteps l₁ c).map obs = (execSteps l₂ c).map obs := by
  refine run_script_slicing_items (script l₁) (script l₂) ?_ (hostsOk_script l₁) ?_ c hp
  · rw [← script_mergeSteps, ← script_mergeSteps, hm]
  · rw [budget_script]; exact hb

theorem mergeSteps_idem : ∀ l : List Step, mergeSteps (mergeSteps l) = mergeSteps l := by
  intro l
  induction l with
  | nil => rfl
  | cons x l ih =>
    cases x with
    | call k => simp only [mergeSteps, ih]
    | run a =>
      cases hm : mergeSteps l with
      | nil => simp only [mergeSteps, hm]
      | cons y l' =>
        rw [hm] at ih
        cases y with
        | call k =>
          have e : mergeSteps (.run a :: l) = .run a :: .call k :: l' := by simp only [mergeSteps, hm]
          rw [e]
          have e2 : mergeSteps (.run a :: .call k :: l') = .run a :: mergeSteps (.call k :: l') := by
            simp only [mergeSteps]
          rw [e2, ih]
        | run b =>
          have e : mergeSteps (.run a :: l) = .run (a + b) :: l' := by simp only [mergeSteps, hm]
          rw [e]
          -- the head of `mergeSteps l'` is not a non-zero `run`, since `run b :: l'` is a fixed point
          cases hm' : mergeSteps l' with
          | nil =>
            simp only [mergeSteps, hm'] at ih ⊢
            rw [← (List.cons.inj ih).2]
          | cons z l'' =>
            cases z with
            | call k =>
              simp only [mergeSteps, hm'] at ih ⊢
              rw [← (List.cons.inj ih).2]
            | run c =>
              simp only [mergeSteps, hm'] at ih
              have h1 := (List.cons.inj ih).1
              injection h1 with h1
              have hc : c = 0 := by omega
              simp only [mergeSteps, hm', hc, Nat.add_zero]
              rw [← (List.cons.inj ih).2]

/-- … in particular every such list equals its merged form: one `Run` between consecutive host calls. -/
theorem run_script_merged (l : List Step) (hb : cyclesOf l ≤ 2 ^ 63) (c : Core) (hp : P c) :
    (execSteps l c).map obs = (execSteps (mergeSteps l) c).map obs :=
  run_script_slicing l (mergeSteps l) (mergeSteps_idem l).symm hb c hp

/-! ## non-vacuity -/

/-- Two different slicings around one `SendData`, with a zero-length slice. -/
example : mergeSteps [.run 5, .call (.sendData 0 0x1234), .run 7] =
    mergeSteps [.run 2, .run 3, .call (.sendData 0 0x1234), .run 0, .run 7] := by decide

/-- The same on the abstract scripts (host items are functions there). -/
example : merge (script [.run 5, .call (.sendData 0 0x1234), .run 7]) =
    merge (script [.run 2, .run 3, .call (.sendData 0 0x1234), .run 0, .run 7]) := rfl

/-- Hence, from the reset state: -/
example : (execSteps [.run 5, .call (.sendData 0 0x1234), .run 7] {}).map obs =
    (execSteps [.run 2, .run 3, .call (.sendData 0 0x1234), .run 0, .run 7] {}).map obs :=
  run_script_slicing _ _ (by decide) (by decide) {} ⟨rfl, by decide, by decide, by decide⟩

/-- The host call itself succeeds there (the statement is not about two aborts). -/
example : (sendData 0 0x1234 {}).toBool = true := by decide

/-- Moving a host call to a different cycle position is NOT covered (different `merge`). -/
example : mergeSteps [.run 5, .call (.setSemaphore 1), .run 7] ≠
    mergeSteps [.run 6, .call (.setSemaphore 1), .run 6] := by decide

/-- A guarded MMIO write between slices, any slicing. -/
example (a v : U16) (c : Core) (hp : P c) :
    (execSteps [.run 100, .call (.mmioWrite a v), .run 28] c).map obs =
      (execSteps [.run 64, .run 36, .call (.mmioWrite a v), .run 0, .run 14, .run 14] c).map obs :=
  run_script_slicing _ _ (by simp [mergeSteps]) (by simp [cyclesOf]) c hp

end Teakra.Sys
