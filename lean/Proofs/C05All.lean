import Proofs.C05
import Proofs.C05Dis
/-! All C05 theorems: the parser construction and the C binding (`Proofs/C05.lean`) and the disassembler model translated
from `disassembler.cpp` (`Proofs/C05Dis.lean`). -/
