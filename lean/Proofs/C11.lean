import TeakraModel.Bus
import TeakraModel.MmioKinds
/-!
# C11 — DSP-side and host-side views of program and data memory are the same bytes

Theorems about `Teakra.Bus.programRead/Write`, `dataRead/Write`, `dataReadA32/WriteA32` (model of
`MemoryInterface`, src/memory_interface.cpp), `Mem.byte` / `Mem.setByte` (the raw pointer
`GetDspMemory()`) and the MMIO window.

A *port* is one way of addressing memory: the program accessor with its 32-bit word address
(instruction fetches use it too), the data accessor with a 16-bit address and the bypass flag
(loads and stores of the core, `Teakra::DataRead/DataWrite` of the host), and the
32-bit-address data accessor.  `Port.cell` is the index of the 16-bit word (bytes `2w`, `2w+1`
of the 0x80000-byte array) that a port addresses in the current MIU configuration, or `none`
when the access goes to an MMIO register, fails an `ASSERT`, or falls outside the array.
-/
namespace Teakra

/-- One way of addressing a memory word. -/
inductive Port where
  /-- `ProgramRead/ProgramWrite(address)` -/
  | prog (p : U32)
  /-- `DataRead/DataWrite(address, bypass_mmio)` -/
  | data (a : U16) (bypass : Bool)
  /-- `DataReadA32/DataWriteA32(address)` -/
  | a32 (a : U32)
  deriving DecidableEq, Repr

namespace Bus

/-- The word index addressed by a 32-bit word address (`none`: outside the array). -/
def wordCell (wa : U32) : Option Nat := if Mem.inRange wa then some (Mem.byteAddr wa / 2) else none

/-- The memory word a port addresses (`none`: MMIO register, failed `ASSERT`, outside the array). -/
def Port.cell (b : Bus) : Port → Option Nat
  | .prog p => wordCell p
  | .data a bypass =>
    if b.miu.inMmioWindow a && !bypass then none
    else match b.miu.convert a with
      | .ok c => wordCell c
      | .error _ => none
  | .a32 a => wordCell (a32Address a)

/-- The value a read through the port returns. -/
def Port.read (b : Bus) : Port → R U16
  | .prog p => (b.programRead p).map (·.1)
  | .data a bypass => (b.dataRead a bypass).map (·.1)
  | .a32 a => (b.dataReadA32 a).map (·.1)

/-- The state after a write through the port. -/
def Port.write (b : Bus) (v : U16) : Port → R Bus
  | .prog p => (b.programWrite p v).map (·.1)
  | .data a bypass => (b.dataWrite a v bypass).map (·.1)
  | .a32 a => (b.dataWriteA32 a v).map (·.1)

/-! ## the memory itself -/

theorem Mem.read_write (m : Mem) (w w' : Nat) (v : U16) :
    (m.write w v).read w' = if w' = w then v else m.read w' := by
  by_cases h : w' = w
  · subst h; simp [Mem.read, Mem.write]
  · have : ¬ (w = w') := fun e => h e.symm
    simp [Mem.read, Mem.write, Std.HashMap.getElem?_insert, h, this]

private theorem split16 (x : U16) : x.extractLsb' 8 8 ++ x.extractLsb' 0 8 = x := by
  apply BitVec.eq_of_getLsbD_eq
  intro i hi
  simp only [BitVec.getLsbD_append, BitVec.getLsbD_extractLsb']
  by_cases h : i < 8
  · simp [h]
  · have : 8 + (i - 8) = i := by omega
    have h2 : i - 8 < 8 := by omega
    simp [h, this, h2]

private theorem app_lo (hi lo : BitVec 8) : (hi ++ lo).extractLsb' 0 8 = lo := by
  apply BitVec.eq_of_getLsbD_eq
  intro i h
  rw [BitVec.getLsbD_extractLsb', BitVec.getLsbD_append]
  simp [h]

private theorem app_hi (hi lo : BitVec 8) : (hi ++ lo).extractLsb' 8 8 = hi := by
  apply BitVec.eq_of_getLsbD_eq
  intro i h
  rw [BitVec.getLsbD_extractLsb', BitVec.getLsbD_append]
  simp [h]

/-- **Byte view.**  Word `w` is bytes `2w` (low) and `2w+1` (high) of the array. -/
theorem byte_view (m : Mem) (w : Nat) : m.byte (2 * w + 1) ++ m.byte (2 * w) = m.read w := by
  have h0 : (2 * w) % 2 = 0 := by omega
  have h1 : ¬ ((2 * w + 1) % 2 = 0) := by omega
  have d0 : (2 * w) / 2 = w := by omega
  have d1 : (2 * w + 1) / 2 = w := by omega
  simp only [Mem.byte, h0, h1, d0, d1, if_true, if_false]
  exact split16 _

/-- `GetDspMemory()[ba] = v` changes byte `ba` … -/
theorem byte_setByte_same (m : Mem) (ba : Nat) (v : BitVec 8) : (m.setByte ba v).byte ba = v := by
  unfold Mem.setByte Mem.byte
  simp only [Mem.read_write, if_true]
  by_cases h : ba % 2 = 0
  · simp only [h, if_true]; exact app_lo _ _
  · simp only [h, if_false]; exact app_hi _ _

/-- … and no other byte. -/
theorem byte_write_other (m : Mem) (ba ba' : Nat) (v : BitVec 8) (h : ba' ≠ ba) :
    (m.setByte ba v).byte ba' = m.byte ba' := by
  unfold Mem.setByte Mem.byte
  simp only [Mem.read_write]
  by_cases hw : ba' / 2 = ba / 2
  · simp only [hw, if_true]
    by_cases h0 : ba % 2 = 0
    · have h1 : ¬ ba' % 2 = 0 := by omega
      simp only [h0, h1, if_true, if_false]; exact app_hi _ _
    · have h1 : ba' % 2 = 0 := by omega
      simp only [h0, h1, if_true, if_false]; exact app_lo _ _
  · simp only [hw, if_false]

/-- **Bounds.**  `SharedMemory` asserts `word_address < 0x40000`: a word access is performed exactly for the
0x40000 words of the array (the second conjunct is kept in the shape later proofs use). -/
theorem mem_bounds (wa : U32) :
    (Mem.inRange wa = true ↔ wa.toNat < 0x40000) ∧
    (wa.toNat < 0x80000000 → (Mem.inRange wa = true ↔ wa.toNat < 0x40000)) := by
  unfold Mem.inRange
  constructor
  · simp
  · intro _; simp

/-- The pinned upstream code had no bound: what was inside the array was decided by the `u32` byte address,
which drops the top bit of the word address. -/
theorem mem_bounds_upstream (wa : U32) :
    (Mem.inRangeUpstream wa = true ↔ (wa * 2).toNat ≤ 0x7FFFE) := by
  unfold Mem.inRangeUpstream Mem.byteAddr
  simp; omega

private theorem cell_lt (wa : U32) (h : wa.toNat < 0x40000) : wordCell wa = some wa.toNat := by
  unfold wordCell Mem.inRange Mem.byteAddr
  have : (wa * 2).toNat = wa.toNat * 2 := by rw [BitVec.toNat_mul]; simp; omega
  rw [this]
  have h2 : decide (wa.toNat < 0x40000) = true := by simp; omega
  simp only [h2, if_true]
  congr 1; omega

/-! ## what each accessor does, in terms of the word it addresses -/

theorem programRead_cell (b : Bus) (p : U32) (w : Nat) (h : wordCell p = some w) :
    b.programRead p = .ok (b.mem.read w, [⟨Mem.byteAddr p, false, 0⟩]) := by
  unfold wordCell at h
  split at h
  · rename_i hr
    simp at h; subst h
    simp [programRead, Mem.readWord, hr]
  · cases h

theorem programWrite_cell (b : Bus) (p : U32) (v : U16) (w : Nat) (h : wordCell p = some w) :
    b.programWrite p v = .ok ({ b with mem := b.mem.write w v }, [⟨Mem.byteAddr p, true, v⟩]) := by
  unfold wordCell at h
  split at h
  · rename_i hr
    simp at h; subst h
    simp [programWrite, Mem.writeWord, hr]
  · cases h

theorem program_oob (b : Bus) (p : U32) (v : U16) (h : wordCell p = none) :
    b.programRead p = .error .assert ∧ b.programWrite p v = .error .assert := by
  unfold wordCell at h
  split at h
  · cases h
  · rename_i hr
    simp [programRead, programWrite, Mem.readWord, Mem.writeWord, hr]

/-- **Program memory.**  Program word `p` (`p < 0x40000`) is the 16-bit word at index `p`, i.e.
bytes `2p` (low) and `2p+1` (high) of the shared array; the hook sees one read at byte `2p`. -/
theorem program_bytes (b : Bus) (p : U32) (h : p.toNat < 0x40000) :
    b.programRead p =
      .ok (b.mem.byte (2 * p.toNat + 1) ++ b.mem.byte (2 * p.toNat), [⟨2 * p.toNat, false, 0⟩]) := by
  rw [programRead_cell b p p.toNat (cell_lt p h), byte_view]
  have : Mem.byteAddr p = 2 * p.toNat := by
    unfold Mem.byteAddr; rw [BitVec.toNat_mul]; simp; omega
  rw [this]

/-- The same statement by word index. -/
theorem program_word_index (b : Bus) (p : U32) (h : p.toNat < 0x40000) :
    (b.programRead p).map (·.1) = .ok (b.mem.read p.toNat) := by
  rw [programRead_cell b p p.toNat (cell_lt p h)]; rfl

private theorem programRead_outside (b : Bus) (a : U32) (h : Mem.inRange a = false) :
    b.programRead a = .error .assert := by
  simp only [programRead, Mem.readWord, h, Bool.false_eq_true, if_false]

/-- **No aliasing.**  A 32-bit program address with any bit above the 18-bit program space is rejected by the
assertion (the pinned upstream code dropped the top bit in `word_address * 2`, so that `p + 0x80000000`
silently addressed word `p`: `Mem.inRangeUpstream`). -/
theorem program_alias_top_bit (b : Bus) (p : U32) (h : p.toNat < 0x40000) :
    b.programRead (p + 0x80000000) = .error .assert ∧ Mem.inRangeUpstream (p + 0x80000000) = true := by
  have hn : (p + 0x80000000 : U32).toNat = p.toNat + 0x80000000 := by
    rw [BitVec.toNat_add]; simp; omega
  constructor
  · have hr : Mem.inRange (p + 0x80000000) = false := by
      unfold Mem.inRange
      rw [hn]
      have : ¬ (p.toNat + 0x80000000 < 0x40000) := by omega
      simp [this]
    exact programRead_outside b _ hr
  · unfold Mem.inRangeUpstream Mem.byteAddr
    have e : (p + 0x80000000) * 2 = p * 2 := by
      rw [BitVec.add_mul]
      have : (0x80000000 : U32) * 2 = 0 := by decide
      rw [this]; simp
    rw [e]
    have : (p * 2).toNat = p.toNat * 2 := by rw [BitVec.toNat_mul]; simp; omega
    rw [this]; simp; omega

/-- **`ConvertDataAddress` and its `ASSERT`s.**  In page mode 0 the bank is `z_page`; otherwise
`x_page` for `addr <= x_size[0] * 0x400` and `y_page` above; the call asserts exactly when the
selected page is `≥ 2`, and otherwise yields `0x20000 + 0x10000 * page + addr`. -/
theorem convert_asserts (u : Miu) (a : U16) :
    let page := if u.pageMode = 0 then u.zPage else if a.toNat ≤ u.xSize[0].toNat * 0x400 then u.xPage else u.yPage
    u.convert a = if page < 2 then .ok (BitVec.ofNat 32 (0x20000 + 0x10000 * page.toNat + a.toNat)) else .error .assert := by
  intro page
  have key : ∀ pg : U16, pg < 2 →
      (0x20000 + a.setWidth 32 + pg.setWidth 32 * 0x10000 : U32) = BitVec.ofNat 32 (0x20000 + 0x10000 * pg.toNat + a.toNat) := by
    intro pg hpg
    apply BitVec.eq_of_toNat_eq
    have : pg.toNat < 2 := hpg
    simp [BitVec.toNat_add, BitVec.toNat_mul, BitVec.toNat_setWidth]
    omega
  unfold Miu.convert
  simp only [page]
  by_cases h0 : u.pageMode = 0
  · simp only [h0, if_true]
    by_cases hz : u.zPage < 2
    · simp only [hz, if_true, key _ hz]
    · simp only [hz, if_false]
  · simp only [h0, if_false]
    by_cases hx : a.toNat ≤ u.xSize[0].toNat * 0x400
    · simp only [hx, if_true]
      by_cases hz : u.xPage < 2
      · simp only [hz, if_true, key _ hz]
      · simp only [hz, if_false]
    · simp only [hx, if_false]
      by_cases hz : u.yPage < 2
      · simp only [hz, if_true, key _ hz]
      · simp only [hz, if_false]

theorem dataRead_cell (b : Bus) (a : U16) (bypass : Bool) (w : Nat) (h : Port.cell b (.data a bypass) = some w) :
    ∃ conv, b.miu.convert a = .ok conv ∧
      b.dataRead a bypass = .ok (b.mem.read w, b, [], [⟨Mem.byteAddr conv, false, 0⟩]) := by
  simp only [Port.cell] at h
  split at h
  · cases h
  · rename_i hwin
    split at h
    · rename_i conv hc
      refine ⟨conv, hc, ?_⟩
      unfold wordCell at h
      split at h
      · rename_i hr
        simp at h; subst h
        simp [dataRead, hwin, hc, Mem.readWord, hr]
      · cases h
    · cases h

theorem dataWrite_cell (b : Bus) (a v : U16) (bypass : Bool) (w : Nat) (h : Port.cell b (.data a bypass) = some w) :
    ∃ conv, b.miu.convert a = .ok conv ∧
      b.dataWrite a v bypass = .ok ({ b with mem := b.mem.write w v }, [], [⟨Mem.byteAddr conv, true, v⟩]) := by
  simp only [Port.cell] at h
  split at h
  · cases h
  · rename_i hwin
    split at h
    · rename_i conv hc
      refine ⟨conv, hc, ?_⟩
      unfold wordCell at h
      split at h
      · rename_i hr
        simp at h; subst h
        simp [dataWrite, hwin, hc, Mem.writeWord, hr]
      · cases h
    · cases h

/-- **Data memory, default paging.**  With `page_mode = 0`, `z_page = z < 2`, outside the MMIO
window (or with bypass), data word `a` is the word at index `0x20000 + 0x10000 * z + a`. -/
theorem data_cell (b : Bus) (a : U16) (bypass : Bool) (hp : b.miu.pageMode = 0) (hz : b.miu.zPage < 2)
    (hw : (b.miu.inMmioWindow a && !bypass) = false) :
    Port.cell b (.data a bypass) = some (0x20000 + 0x10000 * b.miu.zPage.toNat + a.toNat) ∧
    (b.dataRead a bypass).map (·.1) = .ok (b.mem.read (0x20000 + 0x10000 * b.miu.zPage.toNat + a.toNat)) := by
  have hc := convert_asserts b.miu a
  simp only [hp, if_true, hz] at hc
  have hzn : b.miu.zPage.toNat < 2 := hz
  have hlt : (BitVec.ofNat 32 (0x20000 + 0x10000 * b.miu.zPage.toNat + a.toNat) : U32).toNat < 0x40000 := by
    simp; omega
  have hcell : Port.cell b (.data a bypass) = some (0x20000 + 0x10000 * b.miu.zPage.toNat + a.toNat) := by
    unfold Port.cell
    simp only [hw, hc]
    rw [cell_lt _ hlt]
    simp; omega
  refine ⟨hcell, ?_⟩
  obtain ⟨conv, -, hr⟩ := dataRead_cell b a bypass _ hcell
  rw [hr]; rfl

/-- **Data memory, page mode ≠ 0.**  The bank is `x_page` for `a <= x_size[0] * 0x400` (note the
`<=` of the code) and `y_page` above. -/
theorem data_cell_paged (b : Bus) (a : U16) (bypass : Bool) (hp : b.miu.pageMode ≠ 0)
    (hw : (b.miu.inMmioWindow a && !bypass) = false) :
    let page := if a.toNat ≤ b.miu.xSize[0].toNat * 0x400 then b.miu.xPage else b.miu.yPage
    page < 2 → Port.cell b (.data a bypass) = some (0x20000 + 0x10000 * page.toNat + a.toNat) := by
  intro page hz
  have hc := convert_asserts b.miu a
  simp only [hp, if_false] at hc
  have hzn : page.toNat < 2 := hz
  have hlt : (BitVec.ofNat 32 (0x20000 + 0x10000 * page.toNat + a.toNat) : U32).toNat < 0x40000 := by
    simp; omega
  unfold Port.cell
  simp only [hw]
  have hc' : b.miu.convert a = .ok (BitVec.ofNat 32 (0x20000 + 0x10000 * page.toNat + a.toNat)) := by
    rw [hc]; simp only [page] at hz ⊢; rw [if_pos hz]
  simp only [hc']
  rw [cell_lt _ hlt]
  simp; omega

/-- **`DataReadA32` masks the address with `0x1FFFF`** (both banks, nothing else). -/
theorem a32_mask (b : Bus) (a : U32) (v : U16) :
    b.dataReadA32 a = b.dataReadA32 (a &&& 0x1FFFF) ∧ b.dataWriteA32 a v = b.dataWriteA32 (a &&& 0x1FFFF) v := by
  have : a32Address (a &&& 0x1FFFF) = a32Address a := by
    unfold a32Address
    congr 1
    ext i hi
    simp
  unfold dataReadA32 dataWriteA32
  rw [this]
  exact ⟨rfl, rfl⟩

/-- The A32 accessors address word `0x20000 + (a & 0x1FFFF)`. -/
theorem a32_cell (b : Bus) (a : U32) : Port.cell b (.a32 a) = some (0x20000 + (a &&& 0x1FFFF).toNat) := by
  have hm : (a &&& 0x1FFFF).toNat < 0x20000 := by
    rw [BitVec.toNat_and]
    have := Nat.and_two_pow_sub_one_eq_mod a.toNat 17
    have e : (0x1FFFF : U32).toNat = 2 ^ 17 - 1 := by decide
    rw [e, this]
    omega
  have hadd : (a32Address a).toNat = (a &&& 0x1FFFF).toNat + 0x20000 := by
    unfold a32Address
    rw [BitVec.toNat_add]
    have e : (0x20000 : U32).toNat = 0x20000 := by decide
    rw [e]
    omega
  have hlt : (a32Address a).toNat < 0x40000 := by omega
  simp only [Port.cell]
  refine (cell_lt _ hlt).trans ?_
  exact congrArg some (by omega)

/-! ## all views agree -/

private theorem port_read (b : Bus) (pr : Port) (w : Nat) (h : Port.cell b pr = some w) :
    Port.read b pr = .ok (b.mem.read w) := by
  cases pr with
  | prog p => simp only [Port.read, programRead_cell b p w h]; rfl
  | data a byp =>
    obtain ⟨conv, -, hr⟩ := dataRead_cell b a byp w h
    simp only [Port.read, hr]; rfl
  | a32 a => simp only [Port.read, dataReadA32, programRead_cell b _ w h]; rfl

private theorem port_write (b : Bus) (pw : Port) (v : U16) (w : Nat) (h : Port.cell b pw = some w) :
    Port.write b v pw = .ok { b with mem := b.mem.write w v } := by
  cases pw with
  | prog p => simp only [Port.write, programWrite_cell b p v w h]; rfl
  | data a byp =>
    obtain ⟨conv, -, hr⟩ := dataWrite_cell b a v byp w h
    simp only [Port.write, hr]; rfl
  | a32 a => simp only [Port.write, dataWriteA32, programWrite_cell b _ v w h]; rfl

private theorem cell_mem (b : Bus) (m : Mem) (p : Port) : Port.cell { b with mem := m } p = Port.cell b p := by
  cases p <;> rfl

/-- **All views agree.**  A write of `v` through any port is observed by a read through every
port that addresses the same word (program accessor, data accessor with or without bypass, A32
accessor — in any combination) … -/
theorem views_agree (b b' : Bus) (pw pr : Port) (v : U16) (w : Nat)
    (hw : Port.cell b pw = some w) (hwr : Port.write b v pw = .ok b') (hr : Port.cell b pr = some w) :
    Port.read b' pr = .ok v := by
  rw [port_write b pw v w hw] at hwr
  simp at hwr; subst hwr
  rw [port_read _ pr w (by rw [cell_mem]; exact hr)]
  simp [Mem.read_write]

/-- … and by the raw pointer: bytes `2w` and `2w+1` are the low and high byte of `v` … -/
theorem views_agree_bytes (b b' : Bus) (pw : Port) (v : U16) (w : Nat)
    (hw : Port.cell b pw = some w) (hwr : Port.write b v pw = .ok b') :
    b'.mem.byte (2 * w + 1) ++ b'.mem.byte (2 * w) = v := by
  rw [port_write b pw v w hw] at hwr
  simp at hwr; subst hwr
  rw [byte_view]
  simp [Mem.read_write]

/-- … and a byte stored through the raw pointer is observed by every port addressing its word. -/
theorem views_agree_setByte (b : Bus) (pr : Port) (ba : Nat) (x : BitVec 8) (hr : Port.cell b pr = some (ba / 2)) :
    ∃ r, Port.read { b with mem := b.mem.setByte ba x } pr = .ok r ∧
      (if ba % 2 = 0 then r.extractLsb' 0 8 else r.extractLsb' 8 8) = x := by
  refine ⟨_, port_read _ pr (ba / 2) (by rw [cell_mem]; exact hr), ?_⟩
  have := byte_setByte_same b.mem ba x
  unfold Mem.byte at this
  exact this

/-- **No other cell.**  A write through any port changes no other word: every port addressing a
different word reads what it read before, and every byte outside `2w`, `2w+1` is unchanged.
Nothing but `mem` changes (MIU, peripherals and external memory are untouched). -/
theorem read_write_other (b b' : Bus) (pw pr : Port) (v : U16) (w w' : Nat)
    (hw : Port.cell b pw = some w) (hwr : Port.write b v pw = .ok b') (hr : Port.cell b pr = some w')
    (hne : w' ≠ w) :
    Port.read b' pr = Port.read b pr ∧
    (∀ ba, ba / 2 ≠ w → b'.mem.byte ba = b.mem.byte ba) ∧
    b'.miu = b.miu ∧ b'.per = b.per ∧ b'.ext = b.ext := by
  rw [port_write b pw v w hw] at hwr
  simp at hwr; subst hwr
  refine ⟨?_, ?_, rfl, rfl, rfl⟩
  · rw [port_read _ pr w' (by rw [cell_mem]; exact hr), port_read _ pr w' hr]
    simp [Mem.read_write, hne]
  · intro ba hba
    simp [Mem.byte, Mem.read_write, hba]

/-- Reads through any port leave the memory alone. -/
theorem reads_do_not_write (b b' : Bus) (a r : U16) (bypass : Bool) (ev : List PEvent) (acc : List Access)
    (h : b.dataRead a bypass = .ok (r, b', ev, acc)) : b'.mem = b.mem ∧ b'.miu = b.miu ∧ b'.ext = b.ext := by
  unfold dataRead at h
  split at h
  · split at h
    · cases h
    · rename_i off hoff
      split at h
      · rename_i v b1 ev1 hm
        simp at h
        obtain ⟨-, rfl, -, -⟩ := h
        unfold mmioRead at hm
        split at hm
        · split at hm
          · simp at hm
            obtain ⟨-, rfl, -⟩ := hm
            unfold cellReadState
            split <;> exact ⟨rfl, rfl, rfl⟩
          · cases hm
        · cases hm
      · cases h
  · split at h
    · cases h
    · split at h
      · simp at h; obtain ⟨-, rfl, -, -⟩ := h; exact ⟨rfl, rfl, rfl⟩
      · cases h

/-! ## the MMIO window -/

/-- **Stores into the window are register writes.**  With `z_page = 0` and no bypass, a data
write to an address inside `[mmio_base, mmio_base + 0x800)` (compared without wrap-around) is
exactly `MMIORegion::Write((addr - mmio_base) & 0x7FF, v)`: no memory access is made by the
memory interface. -/
theorem mmio_window_write (b : Bus) (a v : U16) (hw : b.miu.inMmioWindow a = true) (hz : b.miu.zPage = 0) :
    b.dataWrite a v false =
      match b.mmioWrite ((a - b.miu.mmioBase) &&& 0x7FF) v with
      | .ok (b', ev) => .ok (b', ev, [])
      | .error e => .error e := by
  unfold dataWrite
  simp only [hw, Bool.not_false, Bool.and_true, if_true, Miu.toMmio, hz]
  cases b.mmioWrite ((a - b.miu.mmioBase) &&& 0x7FF) v <;> rfl

/-- **Loads from the window are register reads.** -/
theorem mmio_window_read (b : Bus) (a : U16) (hw : b.miu.inMmioWindow a = true) (hz : b.miu.zPage = 0) :
    b.dataRead a false =
      match b.mmioRead ((a - b.miu.mmioBase) &&& 0x7FF) with
      | .ok (v, b', ev) => .ok (v, b', ev, [])
      | .error e => .error e := by
  unfold dataRead
  simp only [hw, Bool.not_false, Bool.and_true, if_true, Miu.toMmio, hz]
  cases b.mmioRead ((a - b.miu.mmioBase) &&& 0x7FF) <;> rfl

/-- **A register write never modifies the memory underneath** (nor any other memory word): the
only MMIO cell whose write reaches the shared memory is the DMA control word `0x1DE` with the
start value `0x40C0`, which runs a DMA transfer. -/
theorem mmio_write_keeps_memory (b b' : Bus) (o v : U16) (ev : List PEvent)
    (h : b.mmioWrite o v = .ok (b', ev)) (hd : ¬ (cellAt o.toNat = .dma .z ∧ v = 0x40C0)) : b'.mem = b.mem := by
  unfold mmioWrite at h
  split at h
  · rename_i ho
    cases hc : cellAt o.toNat with
    | dma dc =>
      rw [hc] at h
      cases dc with
      | z =>
        have hv : v ≠ 0x40C0 := fun e => hd ⟨hc, e⟩
        simp only [Bus.cellWrite, Dma.setZ] at h
        split at h
        · cases h
        · rename_i d w' n hs
          split at hs
          · rename_i d1 h1
            rw [if_neg hv] at hs
            simp at hs
            obtain ⟨-, rfl, -⟩ := hs
            simp at h
            rw [← h.1]
          · cases hs
      | _ =>
        simp only [Bus.cellWrite] at h
        split at h
        · cases h
        · simp at h; rw [← h.1]
    | store => rw [hc] at h; simp [Bus.cellWrite] at h; rw [← h.1]
    | const k => rw [hc] at h; simp [Bus.cellWrite] at h; rw [← h.1]
    | timer i tc =>
      rw [hc] at h
      simp only [Bus.cellWrite] at h
      split at h
      · cases h
      · simp at h; rw [← h.1]
    | apbp ac => rw [hc] at h; simp [Bus.cellWrite] at h; rw [← h.1]
    | ahbm ac => rw [hc] at h; simp [Bus.cellWrite] at h; rw [← h.1]
    | miu mc => rw [hc] at h; simp [Bus.cellWrite] at h; rw [← h.1]
    | icu ic => rw [hc] at h; simp [Bus.cellWrite] at h; rw [← h.1]
    | btdmp i bc => rw [hc] at h; simp [Bus.cellWrite] at h; rw [← h.1]
  · cases h

/-- **Bypass.**  With `bypass_mmio` the window is ignored: the access goes to the memory word
underneath (`ConvertDataAddress`), and no peripheral is touched. -/
theorem mmio_window_bypass (b : Bus) (a v : U16) (w : Nat) (hc : Port.cell b (.data a true) = some w) :
    (b.dataRead a true).map (·.1) = .ok (b.mem.read w) ∧
    (b.dataWrite a v true).map (·.1) = .ok { b with mem := b.mem.write w v } := by
  obtain ⟨_, -, h1⟩ := dataRead_cell b a true w hc
  obtain ⟨_, -, h2⟩ := dataWrite_cell b a v true w hc
  rw [h1, h2]; exact ⟨rfl, rfl⟩

/-- **`ToMMIO`'s `ASSERT(z_page == 0)`.** -/
theorem mmio_window_assert (b : Bus) (a v : U16) (hw : b.miu.inMmioWindow a = true) (hz : b.miu.zPage ≠ 0) :
    b.dataRead a false = .error .assert ∧ b.dataWrite a v false = .error .assert := by
  unfold dataRead dataWrite Miu.toMmio
  simp only [hw, Bool.not_false, Bool.and_true, if_true, if_neg hz]
  exact ⟨trivial, trivial⟩

/-- **The window does not wrap.**  `InMMIO` compares in `int`: a window based above `0xF800` ends
at `0xFFFF`, and the offset of an address inside the window is the plain difference. -/
theorem window_no_wrap (u : Miu) (a : U16) (hw : u.inMmioWindow a = true) (hz : u.zPage = 0) :
    u.mmioBase.toNat ≤ a.toNat ∧ a.toNat - u.mmioBase.toNat < mmioSize ∧
    u.toMmio a = .ok (BitVec.ofNat 16 (a.toNat - u.mmioBase.toNat)) := by
  unfold Miu.inMmioWindow at hw
  simp at hw
  refine ⟨hw.1, by omega, ?_⟩
  unfold Miu.toMmio
  rw [if_pos hz]
  congr 1
  apply BitVec.eq_of_toNat_eq
  rw [BitVec.toNat_and]
  have h7 := Nat.and_two_pow_sub_one_eq_mod (a - u.mmioBase).toNat 11
  have e : (0x7FF : U16).toNat = 2 ^ 11 - 1 := by decide
  rw [e, h7, BitVec.toNat_sub, BitVec.toNat_ofNat]
  simp only [mmioSize] at hw
  omega

/-- `Teakra::Reset` zeroes the whole array. -/
theorem reset_clears_memory (b : Bus) (w ba : Nat) : b.reset.mem.read w = 0 ∧ b.reset.mem.byte ba = 0 := by
  have : b.reset.mem.read (ba / 2) = 0 := by simp [reset, Mem.read, Mem.bgWord]
  refine ⟨by simp [reset, Mem.read, Mem.bgWord], ?_⟩
  unfold Mem.byte
  rw [this]
  split <;> rfl

/-! ## non-vacuity -/

/-- On the reset configuration, data address 0x1234, program address 0x21234 and A32 address
0x1234 address the same word, so `views_agree` applies to every pair of them. -/
example : Port.cell ({} : Bus) (.data 0x1234 false) = some 0x21234 ∧
    Port.cell ({} : Bus) (.prog 0x21234) = some 0x21234 ∧ Port.cell ({} : Bus) (.a32 0x1234) = some 0x21234 := by
  refine ⟨by decide, by decide, by decide⟩

/-- … while 0x8024 (inside the default window) addresses no memory word unless bypassed. -/
example : Port.cell ({} : Bus) (.data 0x8024 false) = none ∧ Port.cell ({} : Bus) (.data 0x8024 true) = some 0x28024 := by
  refine ⟨by decide, by decide⟩

/-- The first word outside the array, and a top-bit alias: both rejected. -/
example : Port.cell ({} : Bus) (.prog 0x40000) = none ∧ Port.cell ({} : Bus) (.prog 0x80000005) = none := by
  refine ⟨by decide, by decide⟩

end Bus
end Teakra
