import TeakraModel.RegFile
import TeakraModel.ArDecode
import TeakraModel.Generated.RegLayout
/-!
# C20 — status/config words are faithful bit-field views of one register state

Theorems about `PseudoRegister::Get/Set` (`TeakraModel/RegFile.lean`) over the **generated** layout
table `Teakra.Regs.layouts` (`TeakraModel/Generated/RegLayout.lean`, rewritten from
`/repo/include/teakra/impl/register.h` on every check run).

Structure: a Boolean checker `wordOk` on a resolved slot list; soundness lemmas (`wordOk rs = true →
…` for arbitrary slot lists); one kernel evaluation `layouts_ok_all` of the checker over the table;
the property theorems instantiate the lemmas.  When register.h changes, the table changes and every
`decide` below is re-run on the new table.

Hypotheses: `Sized s` (the register file has one entry per member) wherever something is written;
`WF s` (every member within its hardware width, accumulators sign-extended) wherever a word is
*read*: `PseudoRegister::Get` does not mask a member to its slot, so an over-wide member bleeds into
neighbouring bits (`get_set_fails_without_WF`).
-/
namespace Teakra.Regs
open RegFile

/-! ## machinery: bits, cells, single slots -/

private theorem lowMask_bit : ∀ len, len ≤ 16 → ∀ j, j < 16 → (lowMask len).getLsbD j = decide (j < len) := by decide
private theorem lowMask_toNat : ∀ len, len ≤ 16 → (lowMask len).toNat = 2 ^ len - 1 := by decide

theorem fieldVal_bit (v : U16) (pos len j : Nat) (hl : len ≤ 16) :
    (fieldVal v pos len).getLsbD j = (decide (j < len) && v.getLsbD (pos + j)) := by
  unfold fieldVal
  by_cases hj : j < 16
  · simp [BitVec.getLsbD_and, BitVec.getLsbD_ushiftRight, lowMask_bit len hl j hj, Bool.and_comm]
  · have : ¬ j < len := by omega
    simp [this]
    intro _
    exact BitVec.getLsbD_of_ge _ _ (by omega)

theorem fieldVal_lt (v : U16) (pos len : Nat) (hl : len ≤ 16) : (fieldVal v pos len).toNat < 2 ^ len := by
  unfold fieldVal
  rw [BitVec.toNat_and, lowMask_toNat len hl]
  have := @Nat.and_le_right (v >>> pos).toNat (2 ^ len - 1)
  have : 0 < 2 ^ len := Nat.two_pow_pos len
  omega

theorem slotMask_bit (pos len i : Nat) (hl : len ≤ 16) (hi : i < 16) :
    (slotMask pos len).getLsbD i = (decide (pos ≤ i) && decide (i < pos + len)) := by
  unfold slotMask
  rw [BitVec.getLsbD_shiftLeft]
  by_cases h : i < pos
  · have : ¬ pos ≤ i := by omega
    simp [h, this]
  · have h1 : pos ≤ i := by omega
    rw [lowMask_bit len hl (i - pos) (by omega)]
    simp [h, h1, hi]
    omega

/-- bits above the width of a small value are clear -/
private theorem bit_of_lt {x : U16} {n k : Nat} (h : x.toNat < 2 ^ n) (hk : n ≤ k) : x.getLsbD k = false := by
  rw [BitVec.getLsbD, ]
  apply Nat.testBit_lt_two_pow
  exact Nat.lt_of_lt_of_le h (Nat.pow_le_pow_right (by omega) hk)

theorem getC_setC (s : RegFile) (c c' : Nat) (x : U16) :
    (s.setC c x).getC c' = if c = c' ∧ c < s.regs.size then x else s.getC c' := by
  unfold getC setC
  simp only [Array.getD_eq_getD_getElem?, Array.getElem?_setIfInBounds]
  by_cases h1 : c = c' <;> by_cases h2 : c < s.regs.size <;> simp [h1, h2]
  · subst h1; simp [h2]
  · subst h1; simp [h2]

private theorem size_setC (s : RegFile) (c : Nat) (x : U16) : (s.setC c x).regs.size = s.regs.size := by
  simp [setC]
private theorem a0_setC (s : RegFile) (c : Nat) (x : U16) : (s.setC c x).a0 = s.a0 := rfl
private theorem a1_setC (s : RegFile) (c : Nat) (x : U16) : (s.setC c x).a1 = s.a1 := rfl
private theorem getA_setC (s : RegFile) (c : Nat) (x : U16) (i : Nat) : (s.setC c x).getA i = s.getA i := rfl
private theorem getC_setA (s : RegFile) (i : Nat) (x : U64) (c : Nat) : (s.setA i x).getC c = s.getC c := by
  unfold setA; repeat' split
  all_goals rfl
private theorem size_setA (s : RegFile) (i : Nat) (x : U64) : (s.setA i x).regs.size = s.regs.size := by
  unfold setA; repeat' split
  all_goals rfl
private theorem getA_setA (s : RegFile) (i j : Nat) (x : U64) (hi : i < 2) (hj : j < 2):
    (s.setA i x).getA j = if i = j then x else s.getA j := by
  unfold setA getA
  have : i = 0 ∨ i = 1 := by omega
  have : j = 0 ∨ j = 1 := by omega
  rcases ‹i = 0 ∨ i = 1› with h | h <;> rcases ‹j = 0 ∨ j = 1› with h' | h' <;> subst h <;> subst h' <;> simp

/-- cells a slot's `Set` may assign -/
def targets (r : RSlot) : List Nat :=
  match r.kind with
  | .rw => [r.c1]
  | .double => [r.c1, r.c2]
  | .lp => [r.c1, r.c2]
  | _ => []

/-- the assignments a slot's `Set` performs when the word value is `v` -/
def writes (r : RSlot) (v : U16) : List (Nat × U16) :=
  match r.kind with
  | .rw => [(r.c1, fieldVal v r.pos r.len)]
  | .double => [(r.c1, fieldVal v r.pos r.len), (r.c2, fieldVal v r.pos r.len)]
  | .lp => if fieldVal v r.pos r.len ≠ 0#16 then [(r.c1, 0#16), (r.c2, 0#16)] else []
  | _ => []

theorem mem_targets_of_writes {r : RSlot} {v : U16} {c : Nat} {y : U16} (h : (c, y) ∈ writes r v) :
    c ∈ targets r := by
  unfold writes at h; unfold targets
  cases hk : r.kind <;> simp [hk] at h ⊢
  · exact h.1
  · rcases h with h | h <;> simp [h.1]
  · rcases h with ⟨_, h | h⟩ <;> simp [h.1]

theorem proxySet_frame (r : RSlot) (x : U16) (s : RegFile) (c : Nat) (h : c ∉ targets r) :
    (proxySet r x s).getC c = s.getC c := by
  unfold targets at h; unfold proxySet
  cases hk : r.kind <;> simp only [hk] at h ⊢
  · simp at h; rw [getC_setC, if_neg (by omega)]
  · simp at h; rw [getC_setC, if_neg (by omega), getC_setC, if_neg (by omega)]
  · exact getC_setA ..
  · simp at h; split
    · rw [getC_setC, if_neg (by omega), getC_setC, if_neg (by omega)]
    · rfl

theorem proxySet_size (r : RSlot) (x : U16) (s : RegFile) : (proxySet r x s).regs.size = s.regs.size := by
  unfold proxySet
  cases hk : r.kind <;> simp only
  · exact size_setC ..
  · rw [size_setC, size_setC]
  · exact size_setA ..
  · split
    · rw [size_setC, size_setC]
    · rfl

/-- Per-slot side conditions: the slot lies inside the word, names existing cells, and is exactly as
wide as the hardware width of its member. -/
def slotOk (r : RSlot) : Bool :=
  decide (1 ≤ r.len ∧ r.pos + r.len ≤ 16) &&
  match r.kind with
  | .rw | .ro => decide (r.c1 < nCells ∧ cellBits r.c1 = r.len)
  | .double => decide (r.c1 < nCells ∧ r.c2 < nCells ∧ cellBits r.c1 = r.len ∧ cellBits r.c2 = r.len)
  | .lp => decide (r.c1 < nCells ∧ r.c2 < nCells ∧ cellBits r.c1 = r.len)
  | .accE => decide (r.c1 < 2 ∧ r.len = 4)

/-- Two slots of one word do not interfere: disjoint bit ranges, disjoint assigned cells, different
accumulators. -/
def compatOk (a b : RSlot) : Bool :=
  a == b ||
  (decide (a.pos + a.len ≤ b.pos ∨ b.pos + b.len ≤ a.pos) &&
   (targets a).all (fun c => !(targets b).contains c) &&
   !(a.kind == .accE && b.kind == .accE && a.c1 == b.c1))

/-- Only an `LPRedirector` slot may assign the cell behind an `RO` slot, and then only through its
second target (`bcn`). -/
def roOk (a b : RSlot) : Bool :=
  a.kind != .ro || !(targets b).contains a.c1 || (b.kind == .lp && a.c1 == b.c2)

def wordOk (rs : List RSlot) : Bool :=
  rs.all slotOk && rs.all (fun a => rs.all (fun b => compatOk a b)) &&
  rs.all (fun a => rs.all (fun b => roOk a b))

theorem wordOk_slot {rs : List RSlot} (h : wordOk rs = true) {r : RSlot} (hr : r ∈ rs) : slotOk r = true := by
  simp only [wordOk, Bool.and_eq_true, List.all_eq_true] at h
  exact h.1.1 r hr

theorem wordOk_compat {rs : List RSlot} (h : wordOk rs = true) {a b : RSlot} (ha : a ∈ rs) (hb : b ∈ rs) :
    compatOk a b = true := by
  simp only [wordOk, Bool.and_eq_true, List.all_eq_true] at h
  exact h.1.2 a ha b hb

theorem wordOk_ro {rs : List RSlot} (h : wordOk rs = true) {a b : RSlot} (ha : a ∈ rs) (hb : b ∈ rs) :
    roOk a b = true := by
  simp only [wordOk, Bool.and_eq_true, List.all_eq_true] at h
  exact h.2 a ha b hb

theorem wordOk_tail {r : RSlot} {rs : List RSlot} (h : wordOk (r :: rs) = true) : wordOk rs = true := by
  simp only [wordOk, Bool.and_eq_true, List.all_eq_true] at h ⊢
  exact ⟨⟨fun x hx => h.1.1 x (List.mem_cons_of_mem _ hx),
          fun a ha b hb => h.1.2 a (List.mem_cons_of_mem _ ha) b (List.mem_cons_of_mem _ hb)⟩,
         fun a ha b hb => h.2 a (List.mem_cons_of_mem _ ha) b (List.mem_cons_of_mem _ hb)⟩

theorem slotOk_len {r : RSlot} (h : slotOk r = true) : 1 ≤ r.len ∧ r.pos + r.len ≤ 16 := by
  simp only [slotOk, Bool.and_eq_true, decide_eq_true_eq] at h
  exact h.1

theorem compat_ranges {a b : RSlot} (h : compatOk a b = true) (hne : a ≠ b) :
    a.pos + a.len ≤ b.pos ∨ b.pos + b.len ≤ a.pos := by
  simp only [compatOk, Bool.or_eq_true, beq_iff_eq, Bool.and_eq_true, decide_eq_true_eq] at h
  rcases h with h | h
  · exact absurd h hne
  · exact h.1.1

theorem compat_targets {a b : RSlot} (h : compatOk a b = true) (hne : a ≠ b) {c : Nat}
    (hc : c ∈ targets a) : c ∉ targets b := by
  simp only [compatOk, Bool.or_eq_true, beq_iff_eq, Bool.and_eq_true, decide_eq_true_eq,
    List.all_eq_true] at h
  rcases h with h | h
  · exact absurd h hne
  · have := h.1.2 c hc
    simpa using this

theorem compat_acc {a b : RSlot} (h : compatOk a b = true) (hne : a ≠ b)
    (ha : a.kind = .accE) (hb : b.kind = .accE) : a.c1 ≠ b.c1 := by
  simp only [compatOk, Bool.or_eq_true, beq_iff_eq, Bool.and_eq_true, decide_eq_true_eq] at h
  rcases h with h | h
  · exact absurd h hne
  · have := h.2
    simp [ha, hb] at this
    exact this

/-- `Set` of one slot assigns what `writes` says (cells exist because of `slotOk`). -/
theorem proxySet_written {r : RSlot} {v : U16} {s : RegFile} (hs : Sized s) (hok : slotOk r = true)
    {c : Nat} {y : U16} (h : (c, y) ∈ writes r v) :
    (proxySet r (fieldVal v r.pos r.len) s).getC c = y := by
  unfold Sized at hs
  simp only [slotOk, Bool.and_eq_true, decide_eq_true_eq] at hok
  obtain ⟨_, hok⟩ := hok
  unfold writes at h; unfold proxySet
  cases hk : r.kind <;> simp only [hk] at h hok ⊢
  · simp at h hok; obtain ⟨rfl, rfl⟩ := h
    rw [getC_setC, if_pos ⟨rfl, by omega⟩]
  · simp at h
  · simp at h hok
    rcases h with ⟨rfl, rfl⟩ | ⟨rfl, rfl⟩
    · rw [getC_setC, if_pos ⟨rfl, by rw [size_setC]; omega⟩]
    · rw [getC_setC, getC_setC]
      split
      · rfl
      · rw [if_pos ⟨rfl, by omega⟩]
  · simp at h
  · simp at hok
    split at h
    · rename_i hx
      simp at h
      rw [if_pos hx]
      rcases h with ⟨rfl, rfl⟩ | ⟨rfl, rfl⟩
      · rw [getC_setC, getC_setC]
        split
        · rfl
        · rw [if_pos ⟨rfl, by omega⟩]
      · rw [getC_setC, if_pos ⟨rfl, by rw [size_setC]; omega⟩]
    · simp at h

private theorem setWordR_nil (v : U16) (s : RegFile) : setWordR [] v s = s := rfl
private theorem setWordR_cons (r : RSlot) (rs : List RSlot) (v : U16) (s : RegFile) :
    setWordR (r :: rs) v s = setWordR rs v (proxySet r (fieldVal v r.pos r.len) s) := rfl

theorem setWordR_size (rs : List RSlot) (v : U16) (s : RegFile) : (setWordR rs v s).regs.size = s.regs.size := by
  induction rs generalizing s with
  | nil => rfl
  | cons r rs ih => rw [setWordR_cons, ih, proxySet_size]

/-- A cell that no slot of the word assigns is unchanged by `Set`. -/
theorem setWordR_frame (rs : List RSlot) (v : U16) (s : RegFile) (c : Nat)
    (h : ∀ r ∈ rs, c ∉ targets r) : (setWordR rs v s).getC c = s.getC c := by
  induction rs generalizing s with
  | nil => rfl
  | cons r rs ih =>
    rw [setWordR_cons, ih _ (fun r' hr' => h r' (List.mem_cons_of_mem _ hr')),
      proxySet_frame _ _ _ _ (h r List.mem_cons_self)]

/-- After `Set`, every assigned cell holds the value its slot assigned. -/
theorem setWordR_written {rs : List RSlot} {v : U16} {s : RegFile} (hs : Sized s) (hok : wordOk rs = true)
    {r : RSlot} (hr : r ∈ rs) {c : Nat} {y : U16} (h : (c, y) ∈ writes r v) :
    (setWordR rs v s).getC c = y := by
  induction rs generalizing s with
  | nil => cases hr
  | cons r0 rs ih =>
    rw [setWordR_cons]
    by_cases hin : r ∈ rs
    · exact ih (by unfold Sized; rw [proxySet_size]; exact hs) (wordOk_tail hok) hin
    · have hr0 : r = r0 := by
        rcases List.mem_cons.mp hr with h' | h'
        · exact h'
        · exact absurd h' hin
      subst hr0
      rw [setWordR_frame]
      · exact proxySet_written hs (wordOk_slot hok List.mem_cons_self) h
      · intro b hb
        have hne : r ≠ b := fun e => hin (e ▸ hb)
        exact compat_targets (wordOk_compat hok List.mem_cons_self (List.mem_cons_of_mem _ hb)) hne
          (mem_targets_of_writes h)

/-! ### read side -/

/-- `Get` in 16-bit arithmetic: the `int` promotion is invisible after truncation. -/
def getWord16 (rs : List RSlot) (s : RegFile) : U16 :=
  rs.foldl (fun (acc : U16) r => acc ||| (proxyGet r s <<< r.pos)) 0

private theorem trunc_shift (x : U16) (p : Nat) : (x.setWidth 32 <<< p).setWidth 16 = x <<< p := by
  apply BitVec.eq_of_getLsbD_eq
  intro i hi
  simp only [BitVec.getLsbD_setWidth, BitVec.getLsbD_shiftLeft]
  have : i < 32 := by omega
  have : i - p < 32 := by omega
  simp [*]

theorem getWordR_eq16 (rs : List RSlot) (s : RegFile) : getWordR rs s = getWord16 rs s := by
  unfold getWordR getWord16
  suffices h : ∀ (acc : U32), (rs.foldl (fun (acc : U32) r => acc ||| ((proxyGet r s).setWidth 32 <<< r.pos)) acc).setWidth 16
      = rs.foldl (fun (acc : U16) r => acc ||| (proxyGet r s <<< r.pos)) (acc.setWidth 16) by
    simpa using h 0
  induction rs with
  | nil => intro acc; rfl
  | cons r rs ih =>
    intro acc
    simp only [List.foldl_cons]
    rw [ih, BitVec.setWidth_or, trunc_shift]

theorem getWord16_bit (rs : List RSlot) (s : RegFile) (i : Nat) (hi : i < 16) :
    (getWord16 rs s).getLsbD i = rs.any (fun r => decide (r.pos ≤ i) && (proxyGet r s).getLsbD (i - r.pos)) := by
  unfold getWord16
  suffices h : ∀ (acc : U16), (rs.foldl (fun (acc : U16) r => acc ||| (proxyGet r s <<< r.pos)) acc).getLsbD i
      = (acc.getLsbD i || rs.any (fun r => decide (r.pos ≤ i) && (proxyGet r s).getLsbD (i - r.pos))) by
    simpa using h 0
  induction rs with
  | nil => intro acc; simp
  | cons r rs ih =>
    intro acc
    simp only [List.foldl_cons, List.any_cons]
    rw [ih, BitVec.getLsbD_or, BitVec.getLsbD_shiftLeft]
    by_cases hp : i < r.pos
    · have : ¬ r.pos ≤ i := by omega
      simp [hp, this]
    · have : r.pos ≤ i := by omega
      simp [hp, this, hi, Bool.or_assoc]

/-- every slot's proxy reads a value that fits the slot -/
def Fits (rs : List RSlot) (s : RegFile) : Prop := ∀ r ∈ rs, (proxyGet r s).toNat < 2 ^ r.len

/-- If every slot's value fits, bit `pos + j` of the word is bit `j` of the slot's value. -/
theorem getWordR_slot_bit {rs : List RSlot} {s : RegFile} (hok : wordOk rs = true) (hf : Fits rs s)
    {r : RSlot} (hr : r ∈ rs) {j : Nat} (hj : j < r.len) :
    (getWordR rs s).getLsbD (r.pos + j) = (proxyGet r s).getLsbD j := by
  have hlen := slotOk_len (wordOk_slot hok hr)
  rw [getWordR_eq16, getWord16_bit _ _ _ (by omega)]
  rw [Bool.eq_iff_iff, List.any_eq_true]
  constructor
  · rintro ⟨r', hr', h⟩
    simp only [Bool.and_eq_true, decide_eq_true_eq] at h
    obtain ⟨hle, hb⟩ := h
    have hk : r.pos + j - r'.pos < r'.len := by
      apply Decidable.byContradiction
      intro hge
      rw [bit_of_lt (hf r' hr') (by omega)] at hb
      cases hb
    by_cases he : r = r'
    · subst he
      have : r.pos + j - r.pos = j := by omega
      rw [this] at hb; exact hb
    · have := compat_ranges (wordOk_compat hok hr hr') he
      omega
  · intro h
    refine ⟨r, hr, ?_⟩
    have : r.pos + j - r.pos = j := by omega
    simp [this, h]

/-- If every slot's value fits, the slot's bits of the word are exactly the proxy's value. -/
theorem getWordR_field {rs : List RSlot} {s : RegFile} (hok : wordOk rs = true) (hf : Fits rs s)
    {r : RSlot} (hr : r ∈ rs) : fieldVal (getWordR rs s) r.pos r.len = proxyGet r s := by
  have hlen := slotOk_len (wordOk_slot hok hr)
  apply BitVec.eq_of_getLsbD_eq
  intro j _
  rw [fieldVal_bit _ _ _ _ (by omega)]
  by_cases hj : j < r.len
  · simp [hj, getWordR_slot_bit hok hf hr hj]
  · simp [hj, bit_of_lt (hf r hr) (by omega : r.len ≤ j)]

/-! ### well-formedness -/

private theorem accE_get_lt (a : U64) : (((a >>> 32) &&& 0xF#64).setWidth 16 : U16).toNat < 2 ^ 4 := by
  rw [BitVec.toNat_setWidth, BitVec.toNat_and]
  have := @Nat.and_le_right (a >>> 32).toNat (0xF#64).toNat
  have h15 : (0xF#64).toNat = 15 := by decide
  rw [h15] at this ⊢
  have : (a >>> 32).toNat &&& 15 < 2 ^ 16 := by omega
  rw [Nat.mod_eq_of_lt this]; omega

theorem fits_of_WF {rs : List RSlot} {s : RegFile} (hok : wordOk rs = true) (hw : WF s) : Fits rs s := by
  intro r hr
  have hso := wordOk_slot hok hr
  simp only [slotOk, Bool.and_eq_true, decide_eq_true_eq] at hso
  obtain ⟨_, hso⟩ := hso
  unfold proxyGet
  cases hk : r.kind <;> simp only [hk, decide_eq_true_eq] at hso ⊢
  · rw [← hso.2]; exact hw.bits _ hso.1
  · rw [← hso.2]; exact hw.bits _ hso.1
  · rw [BitVec.toNat_or]
    apply Nat.or_lt_two_pow
    · rw [← hso.2.2.1]; exact hw.bits _ hso.1
    · rw [← hso.2.2.2]; exact hw.bits _ hso.2.1
  · rw [hso.2]; exact accE_get_lt _
  · rw [← hso.2.2]; exact hw.bits _ hso.1

/-- Upper-half pattern written by `AccEProxy::Set`: bits 7..31 of the 32-bit value repeat bit 7
(in fact bits 3..31 repeat bit 3). -/
def SignFill (h : U32) : Prop := ∀ k, k < 32 → 7 ≤ k → h.getLsbD k = h.getLsbD 7
instance (h : U32) : Decidable (SignFill h) := by unfold SignFill; exact inferInstance

private theorem signExtend4_fill4 : ∀ n : BitVec 4, SignFill (signExtend4 (n.setWidth 32)) := by decide
private theorem signExtend4_low4 : ∀ n : BitVec 4, (signExtend4 (n.setWidth 32)) &&& 0xF#32 = n.setWidth 32 := by decide

private theorem nibble_of_lt {x : U16} (h : x.toNat < 16) : x.setWidth 32 = (x.setWidth 4).setWidth 32 := by
  apply BitVec.eq_of_toNat_eq
  simp only [BitVec.toNat_setWidth]
  have : x.toNat < 2 ^ 32 := by omega
  have h4 : x.toNat % 2 ^ 4 = x.toNat := Nat.mod_eq_of_lt (by omega)
  rw [h4]

private theorem signExtend4_fill {x : U16} (h : x.toNat < 16) : SignFill (signExtend4 (x.setWidth 32)) := by
  rw [nibble_of_lt h]; exact signExtend4_fill4 _

private theorem signExtend4_low {x : U16} (h : x.toNat < 16) : (signExtend4 (x.setWidth 32)) &&& 0xF#32 = x.setWidth 32 := by
  rw [nibble_of_lt h]; exact signExtend4_low4 _

/-- the accumulator value `AccEProxy::Set` leaves behind -/
def accSet (a : U64) (x : U16) : U64 :=
  (a &&& 0xFFFFFFFF#64) ||| ((signExtend4 (x.setWidth 32)).setWidth 64 <<< 32)

theorem accSet_bit (a : U64) (x : U16) (i : Nat) (hi : i < 64) :
    (accSet a x).getLsbD i = if i < 32 then a.getLsbD i else (signExtend4 (x.setWidth 32)).getLsbD (i - 32) := by
  unfold accSet
  have hm : ∀ j, j < 64 → (0xFFFFFFFF#64).getLsbD j = decide (j < 32) := by decide
  rw [BitVec.getLsbD_or, BitVec.getLsbD_and, BitVec.getLsbD_shiftLeft, BitVec.getLsbD_setWidth, hm i hi]
  by_cases h : i < 32
  · simp [h]
  · have : i - 32 < 64 := by omega
    simp [h, hi, this]

theorem accSet_signExt40 (a : U64) {x : U16} (h : x.toNat < 16) : SignExt40 (accSet a x) := by
  unfold SignExt40
  apply BitVec.eq_of_getLsbD_eq
  intro i hi
  rw [BitVec.getLsbD_signExtend]
  simp only [hi, decide_true, Bool.true_and]
  split
  · rename_i h40; simp [h40]
  · rename_i h40
    rw [BitVec.msb_eq_getLsbD_last]
    simp only [BitVec.getLsbD_setWidth, Nat.add_one_sub_one, Nat.lt_add_one, decide_true, Bool.true_and]
    rw [accSet_bit _ _ _ hi, accSet_bit _ _ _ (by omega)]
    rw [if_neg (by omega), if_neg (by omega)]
    have hf := signExtend4_fill h
    rw [hf (i - 32) (by omega) (by omega)]

theorem accSet_get (a : U64) {x : U16} (h : x.toNat < 16) :
    (((accSet a x) >>> 32) &&& 0xF#64).setWidth 16 = x := by
  apply BitVec.eq_of_getLsbD_eq
  intro i hi
  have hm : ∀ j, j < 64 → (0xF#64).getLsbD j = decide (j < 4) := by decide
  rw [BitVec.getLsbD_setWidth, BitVec.getLsbD_and, BitVec.getLsbD_ushiftRight, hm i (by omega)]
  have hl := signExtend4_low h
  have hb := congrArg (fun (b : U32) => b.getLsbD i) hl
  have hm32 : ∀ j, j < 32 → (0xF#32).getLsbD j = decide (j < 4) := by decide
  simp only [BitVec.getLsbD_and, BitVec.getLsbD_setWidth, hm32 i (by omega)] at hb
  have hi32 : i < 32 := by omega
  by_cases h4 : i < 4
  · rw [accSet_bit _ _ _ (by omega), if_neg (by omega)]
    have : 32 + i - 32 = i := by omega
    simp [h4, hi32, this] at hb ⊢
    simp [hi, hb]
  · simp [h4, hi]
    exact bit_of_lt (n := 4) (k := i) (by simpa using h) (by omega)

theorem accSet_low (a : U64) (x : U16) : (accSet a x) &&& 0xFFFFFFFF#64 = a &&& 0xFFFFFFFF#64 := by
  apply BitVec.eq_of_getLsbD_eq
  intro i hi
  have hm : ∀ j, j < 64 → (0xFFFFFFFF#64).getLsbD j = decide (j < 32) := by decide
  rw [BitVec.getLsbD_and, BitVec.getLsbD_and, hm i hi, accSet_bit _ _ _ hi]
  by_cases h : i < 32 <;> simp [h]

theorem getA_proxySet (r : RSlot) (x : U16) (s : RegFile) (i : Nat) (hi : i < 2)
    (hr : r.kind = .accE → r.c1 < 2) :
    (proxySet r x s).getA i = if r.kind = .accE ∧ r.c1 = i then accSet (s.getA i) x else s.getA i := by
  unfold proxySet
  cases hk : r.kind <;> simp only [hk] at hr ⊢
  · simp [getA_setC]
  · simp
  · simp [getA_setC]
  · simp only [true_and]
    rw [getA_setA _ _ _ _ (hr trivial) hi]
    split
    · rename_i h; subst h; rfl
    · rfl
  · simp only [reduceCtorEq, false_and, if_false]
    split <;> simp [getA_setC]

/-- One slot's `Set` keeps the state well-formed when the value fits the slot. -/
theorem proxySet_WF {r : RSlot} {x : U16} {s : RegFile} (hw : WF s) (hok : slotOk r = true)
    (hx : x.toNat < 2 ^ r.len) : WF (proxySet r x s) := by
  have hsz : Sized (proxySet r x s) := by unfold Sized; rw [proxySet_size]; exact hw.sized
  have hso := hok
  simp only [slotOk, Bool.and_eq_true, decide_eq_true_eq] at hso
  obtain ⟨hlen, hso⟩ := hso
  have hacc : r.kind = .accE → r.c1 < 2 ∧ r.len = 4 := by
    intro hk; simp only [hk, decide_eq_true_eq] at hso; exact hso
  have hpos : ∀ n, (0#16).toNat < 2 ^ n := fun n => Nat.two_pow_pos n
  refine ⟨hsz, ?_, ?_, ?_⟩
  · intro c hc
    unfold proxySet
    cases hk : r.kind <;> simp only [hk, decide_eq_true_eq] at hso ⊢
    · rw [getC_setC]; split
      · rename_i h; rw [← h.1, hso.2]; exact hx
      · exact hw.bits c hc
    · exact hw.bits c hc
    · rw [getC_setC]; split
      · rename_i h; rw [← h.1, hso.2.2.1]; exact hx
      · rw [getC_setC]; split
        · rename_i h; rw [← h.1, hso.2.2.2]; exact hx
        · exact hw.bits c hc
    · rw [getC_setA]; exact hw.bits c hc
    · split
      · rw [getC_setC]; split
        · exact hpos _
        · rw [getC_setC]; split
          · exact hpos _
          · exact hw.bits c hc
      · exact hw.bits c hc
  · have := getA_proxySet r x s 0 (by omega) (fun h => (hacc h).1)
    simp only [getA] at this
    simp only [if_true] at this
    rw [this]; split
    · rename_i h; exact accSet_signExt40 _ (by rw [(hacc h.1).2] at hx; exact hx)
    · exact hw.a0
  · have := getA_proxySet r x s 1 (by omega) (fun h => (hacc h).1)
    simp only [getA] at this
    simp only [Nat.succ_ne_self, if_false] at this
    rw [this]; split
    · rename_i h; exact accSet_signExt40 _ (by rw [(hacc h.1).2] at hx; exact hx)
    · exact hw.a1

theorem setWordR_WF {rs : List RSlot} {v : U16} {s : RegFile} (hw : WF s) (hok : wordOk rs = true) :
    WF (setWordR rs v s) := by
  induction rs generalizing s with
  | nil => exact hw
  | cons r rs ih =>
    rw [setWordR_cons]
    have hso := wordOk_slot hok List.mem_cons_self
    exact ih (proxySet_WF hw hso (fieldVal_lt _ _ _ (by have := slotOk_len hso; omega))) (wordOk_tail hok)

/-! ### accumulators through a whole word -/

theorem accSet_idem (a : U64) (x : U16) : accSet (accSet a x) x = accSet a x := by
  show ((accSet a x) &&& 0xFFFFFFFF#64) ||| _ = _
  rw [accSet_low]; rfl

theorem setWordR_acc_frame (rs : List RSlot) (v : U16) (s : RegFile) (i : Nat) (hi : i < 2)
    (hok : wordOk rs = true) (h : ∀ r ∈ rs, r.kind = .accE → r.c1 ≠ i) :
    (setWordR rs v s).getA i = s.getA i := by
  induction rs generalizing s with
  | nil => rfl
  | cons r rs ih =>
    rw [setWordR_cons, ih _ (wordOk_tail hok) (fun r' hr' => h r' (List.mem_cons_of_mem _ hr'))]
    have hso := wordOk_slot hok (List.mem_cons_self (a := r) (l := rs))
    rw [getA_proxySet _ _ _ _ hi]
    · rw [if_neg]; intro hh; exact h r List.mem_cons_self hh.1 hh.2
    · intro hk
      simp only [slotOk, hk, Bool.and_eq_true, decide_eq_true_eq] at hso
      exact hso.2.1

theorem setWordR_acc {rs : List RSlot} {v : U16} {s : RegFile} (hok : wordOk rs = true)
    {r : RSlot} (hr : r ∈ rs) (hk : r.kind = .accE) :
    (setWordR rs v s).getA r.c1 = accSet (s.getA r.c1) (fieldVal v r.pos r.len) := by
  have hc1 : ∀ {q : RSlot}, q ∈ rs → q.kind = .accE → q.c1 < 2 := by
    intro q hq hqk
    have hso := wordOk_slot hok hq
    simp only [slotOk, hqk, Bool.and_eq_true, decide_eq_true_eq] at hso
    exact hso.2.1
  have hi := hc1 hr hk
  induction rs generalizing s with
  | nil => cases hr
  | cons r0 rs ih =>
    rw [setWordR_cons]
    by_cases hin : r ∈ rs
    · rw [ih (wordOk_tail hok) hin (fun hq hqk => hc1 (List.mem_cons_of_mem _ hq) hqk)]
      rw [getA_proxySet _ _ _ _ hi (fun h0 => hc1 List.mem_cons_self h0)]
      split
      · rename_i h0
        have : r0 = r := by
          apply Decidable.byContradiction
          intro hne
          exact compat_acc (wordOk_compat hok List.mem_cons_self hr) hne h0.1 hk h0.2
        subst this
        exact accSet_idem _ _
      · rfl
    · have hr0 : r = r0 := by
        rcases List.mem_cons.mp hr with h' | h'
        · exact h'
        · exact absurd h' hin
      subst hr0
      rw [setWordR_acc_frame _ _ _ _ hi (wordOk_tail hok)]
      · rw [getA_proxySet _ _ _ _ hi (fun _ => hi), if_pos ⟨hk, rfl⟩]
      · intro b hb hbk
        have hne : b ≠ r := fun e => hin (e ▸ hb)
        exact compat_acc (wordOk_compat hok (List.mem_cons_of_mem _ hb) List.mem_cons_self) hne hbk hk

/-- Kinds whose bits are plainly writable (`LPRedirector` is write-one-to-clear, `RO…` ignores). -/
def ProxyKind.writable : ProxyKind → Bool
  | .rw | .double | .accE => true
  | .ro | .lp => false

/-- After `Set`, a writable slot's proxy reads the value that was written to the slot. -/
theorem proxyGet_after_set {rs : List RSlot} {v : U16} {s : RegFile} (hs : Sized s) (hok : wordOk rs = true)
    {r : RSlot} (hr : r ∈ rs) (hk : r.kind.writable = true) :
    proxyGet r (setWordR rs v s) = fieldVal v r.pos r.len := by
  have hso := wordOk_slot hok hr
  unfold proxyGet
  cases hkk : r.kind <;> simp only [hkk, ProxyKind.writable] at hk ⊢
  · exact setWordR_written hs hok hr (by simp [writes, hkk])
  · cases hk
  · rw [setWordR_written hs hok hr (c := r.c1) (y := fieldVal v r.pos r.len) (by simp [writes, hkk]),
        setWordR_written hs hok hr (c := r.c2) (y := fieldVal v r.pos r.len) (by simp [writes, hkk])]
    exact BitVec.or_self
  · rw [setWordR_acc hok hr hkk]
    apply accSet_get
    simp only [slotOk, hkk, Bool.and_eq_true, decide_eq_true_eq] at hso
    have := fieldVal_lt v r.pos r.len (by omega)
    have h4 : (2 : Nat) ^ r.len = 16 := by rw [hso.2.2]
    omega
  · cases hk

/-- A cell none of whose assignments is performed (`writes`) is unchanged by one slot's `Set`. -/
theorem proxySet_frame_w (r : RSlot) (v : U16) (s : RegFile) (c : Nat)
    (h : ∀ y, (c, y) ∉ writes r v) : (proxySet r (fieldVal v r.pos r.len) s).getC c = s.getC c := by
  unfold writes at h; unfold proxySet
  cases hk : r.kind <;> simp only [hk] at h ⊢
  · have := h (fieldVal v r.pos r.len); simp at this
    rw [getC_setC, if_neg (by omega)]
  · have := h (fieldVal v r.pos r.len); simp at this
    rw [getC_setC, if_neg (by omega), getC_setC, if_neg (by omega)]
  · exact getC_setA ..
  · split
    · rename_i hx
      have := h 0#16; simp [hx] at this
      rw [getC_setC, if_neg (by omega), getC_setC, if_neg (by omega)]
    · rfl

theorem setWordR_frame_w (rs : List RSlot) (v : U16) (s : RegFile) (c : Nat)
    (h : ∀ r ∈ rs, ∀ y, (c, y) ∉ writes r v) : (setWordR rs v s).getC c = s.getC c := by
  induction rs generalizing s with
  | nil => rfl
  | cons r rs ih =>
    rw [setWordR_cons, ih _ (fun r' hr' => h r' (List.mem_cons_of_mem _ hr')),
      proxySet_frame_w _ _ _ _ (h r List.mem_cons_self)]

/-! ## the generated table -/

/-- The slot list of word `name` of the generated table (`[]` if there is no such word). -/
def word (name : String) : List Slot := (layouts.lookup name).getD []

/-- **The one evaluation of the checker over the generated table.** -/
theorem layouts_ok_all : layouts.all (fun w => wordOk (w.2.map resolve)) = true := by decide +kernel

theorem layouts_ok {w : String × List Slot} (hw : w ∈ layouts) : wordOk (w.2.map resolve) = true :=
  List.all_eq_true.mp layouts_ok_all w hw

theorem resolve_kind (sl : Slot) : (resolve sl).kind = sl.kind := by
  unfold resolve; cases sl.kind <;> rfl
theorem resolve_pos (sl : Slot) : (resolve sl).pos = sl.pos := by
  unfold resolve; cases sl.kind <;> rfl
theorem resolve_len (sl : Slot) : (resolve sl).len = sl.len := by
  unfold resolve; cases sl.kind <;> rfl

theorem mem_resolve {slots : List Slot} {sl : Slot} (h : sl ∈ slots) : resolve sl ∈ slots.map resolve :=
  List.mem_map.mpr ⟨sl, h, rfl⟩

/-- The 19 architectural words, in header order. -/
theorem layouts_names : layouts.map (·.1) =
    ["cfgi", "cfgj", "stt0", "stt1", "stt2", "mod0", "mod1", "mod2", "mod3", "st0", "st1", "st2", "icr",
     "ar0", "ar1", "arp0", "arp1", "arp2", "arp3"] := by decide +kernel

/-- The hand-written member table (names, array sizes) is exactly the list of `u16` members of
`struct RegisterState` found in the header (so `WF`, the driver's dump and the frame theorem range
over every `u16` member; `BlockRepeatFrame::lc` lives inside `bkrep_stack` and is no slot's target). -/
theorem fieldTable_covers_state :
    fieldTable.map (fun d => (d.name, d.count)) =
      (stateFields.filter (fun f => f.2.1 == "u16" && f.1 != "BlockRepeatFrame.lc")).map (fun f => (f.1, f.2.2)) := by
  decide +kernel

/-! ## C20 property theorems -/

/-- **slots_disjoint.**  In every word each slot lies inside the 16 bits (`pos + len ≤ 16`,
`1 ≤ len < 16` — the header's own `static_assert`s) and the masks of different slots are pairwise
disjoint (`NoOverlap<u16, ProxySlots::mask...>`). -/
theorem slots_disjoint : ∀ w ∈ layouts,
    (∀ sl ∈ w.2, 1 ≤ sl.len ∧ sl.len < 16 ∧ sl.pos + sl.len ≤ 16) ∧
    w.2.Pairwise (fun a b => slotMask a.pos a.len &&& slotMask b.pos b.len = 0#16) := by
  decide +kernel

/-- Union of the masks of the plainly writable slots (`Redirector`, `ArrayRedirector`,
`DoubleRedirector`, `AccEProxy`) of a word. -/
def writable (slots : List Slot) : U16 :=
  slots.foldl (fun acc sl => if sl.kind.writable then acc ||| slotMask sl.pos sl.len else acc) 0#16

theorem writable_bit (slots : List Slot) (hl : ∀ sl ∈ slots, sl.len ≤ 16) (i : Nat) (hi : i < 16) :
    (writable slots).getLsbD i =
      slots.any (fun sl => sl.kind.writable && (decide (sl.pos ≤ i) && decide (i < sl.pos + sl.len))) := by
  unfold writable
  suffices h : ∀ (acc : U16), (slots.foldl (fun acc sl => if sl.kind.writable then acc ||| slotMask sl.pos sl.len else acc) acc).getLsbD i
      = (acc.getLsbD i || slots.any (fun sl => sl.kind.writable && (decide (sl.pos ≤ i) && decide (i < sl.pos + sl.len)))) by
    simpa using h 0#16
  induction slots with
  | nil => intro acc; simp
  | cons sl slots ih =>
    intro acc
    simp only [List.foldl_cons, List.any_cons]
    rw [ih (fun x hx => hl x (List.mem_cons_of_mem _ hx))]
    cases hk : sl.kind.writable
    · simp
    · simp only [if_true, BitVec.getLsbD_or, Bool.true_and]
      rw [slotMask_bit _ _ _ (hl sl List.mem_cons_self) hi, Bool.or_assoc]

/-- **get_set.**  On a well-formed state, writing `v` to a word and reading the word back returns `v`
on every writable bit — for every word of the table, every `v` and every state.
(`WF` is needed: see `get_set_fails_without_WF`.) -/
theorem get_set {w : String × List Slot} (hw : w ∈ layouts) (v : U16) {s : RegFile} (hs : WF s) :
    getWord w.2 (setWord w.2 v s) &&& writable w.2 = v &&& writable w.2 := by
  have hok := layouts_ok hw
  have hw' : WF (setWord w.2 v s) := setWordR_WF hs hok
  have hf := fits_of_WF hok hw'
  have hlen : ∀ sl ∈ w.2, sl.len ≤ 16 := by
    intro sl hsl
    have := slotOk_len (wordOk_slot hok (mem_resolve hsl))
    rw [resolve_len] at this; omega
  apply BitVec.eq_of_getLsbD_eq
  intro i hi
  rw [BitVec.getLsbD_and, BitVec.getLsbD_and, writable_bit _ hlen i hi]
  cases hany : w.2.any (fun sl => sl.kind.writable && (decide (sl.pos ≤ i) && decide (i < sl.pos + sl.len)))
  · simp
  · obtain ⟨sl, hsl, hc⟩ := List.any_eq_true.mp hany
    simp only [Bool.and_eq_true, decide_eq_true_eq] at hc
    obtain ⟨hk, hp1, hp2⟩ := hc
    have hr := mem_resolve hsl
    have hj : i - sl.pos < (resolve sl).len := by rw [resolve_len]; omega
    have hi' : i = (resolve sl).pos + (i - sl.pos) := by rw [resolve_pos]; omega
    simp only [Bool.and_true]
    unfold getWord
    rw [hi', getWordR_slot_bit hok hf hr hj]
    show (proxyGet (resolve sl) (setWordR (w.2.map resolve) v s)).getLsbD _ = _
    rw [proxyGet_after_set hs.sized hok hr (by rw [resolve_kind]; exact hk),
        fieldVal_bit _ _ _ _ (by rw [resolve_len]; exact hlen sl hsl)]
    simp [hj]

/-- **set_preserves_WF.**  `Set` of any word with any value keeps the state well-formed. -/
theorem set_preserves_WF {w : String × List Slot} (hw : w ∈ layouts) (v : U16) {s : RegFile} (hs : WF s) :
    WF (setWord w.2 v s) := setWordR_WF hs (layouts_ok hw)

/-- A plain slot (`Redirector`, `ArrayRedirector`, `RORedirector`, `ArrayRORedirector`). -/
def Slot.plain (sl : Slot) : Bool := sl.kind == .rw || sl.kind == .ro

theorem proxyGet_plain {sl : Slot} (hp : sl.plain = true) (s : RegFile) :
    proxyGet (resolve sl) s = s.getF sl.field sl.index := by
  unfold Slot.plain at hp
  unfold proxyGet resolve getF
  cases hk : sl.kind <;> simp [hk] at hp ⊢

/-- **Field view (read).**  On a well-formed state the bits `[pos, pos+len)` of a word read through
a plain slot are exactly the member's value. -/
theorem get_field {w : String × List Slot} (hw : w ∈ layouts) {sl : Slot} (hsl : sl ∈ w.2)
    (hp : sl.plain = true) {s : RegFile} (hs : WF s) :
    fieldVal (getWord w.2 s) sl.pos sl.len = s.getF sl.field sl.index := by
  have hok := layouts_ok hw
  have := getWordR_field hok (fits_of_WF hok hs) (mem_resolve hsl)
  rw [resolve_pos, resolve_len, proxyGet_plain hp] at this
  exact this

/-- **compat_same_field.**  A member visible (through plain slots) in two words — e.g. the
TeakLite-compatible `st0` and the Teak-native `mod0` — reads the same through both, for every pair of
words of the table and every well-formed state.  (Both slots then necessarily have the member's
hardware width, so no "same length" hypothesis is needed.) -/
theorem compat_same_field {w₁ w₂ : String × List Slot} (h₁ : w₁ ∈ layouts) (h₂ : w₂ ∈ layouts)
    {a b : Slot} (ha : a ∈ w₁.2) (hb : b ∈ w₂.2) (pa : a.plain = true) (pb : b.plain = true)
    (hf : a.field = b.field) (hi : a.index = b.index) {s : RegFile} (hs : WF s) :
    fieldVal (getWord w₁.2 s) a.pos a.len = fieldVal (getWord w₂.2 s) b.pos b.len := by
  rw [get_field h₁ ha pa hs, get_field h₂ hb pb hs, hf, hi]

/-- **Field view (write).**  After `Set`, the member behind an `rw` slot holds the slot's bits of `v`. -/
theorem set_field {w : String × List Slot} (hw : w ∈ layouts) {sl : Slot} (hsl : sl ∈ w.2)
    (hk : sl.kind = .rw) (v : U16) {s : RegFile} (hs : Sized s) :
    (setWord w.2 v s).getF sl.field sl.index = fieldVal v sl.pos sl.len := by
  have hok := layouts_ok hw
  have := setWordR_written (v := v) hs hok (mem_resolve hsl) (c := cellOf sl.field sl.index)
    (y := fieldVal v sl.pos sl.len) (by simp [writes, resolve, hk])
  exact this

/-! ### the limit flag (`DoubleRedirector`) -/

/-- On a well-formed state a `DoubleRedirector` slot reads the OR of its two members. -/
theorem get_double {w : String × List Slot} (hw : w ∈ layouts) {sl : Slot} (hsl : sl ∈ w.2)
    (hk : sl.kind = .double) {s : RegFile} (hs : WF s) :
    fieldVal (getWord w.2 s) sl.pos sl.len = s.getF sl.field ||| s.getF sl.field2 := by
  have hok := layouts_ok hw
  have := getWordR_field hok (fits_of_WF hok hs) (mem_resolve hsl)
  rw [resolve_pos, resolve_len] at this
  unfold getWord
  rw [this]; simp [proxyGet, resolve, hk, getF]

/-- Writing a `DoubleRedirector` slot sets both members. -/
theorem set_double {w : String × List Slot} (hw : w ∈ layouts) {sl : Slot} (hsl : sl ∈ w.2)
    (hk : sl.kind = .double) (v : U16) {s : RegFile} (hs : Sized s) :
    (setWord w.2 v s).getF sl.field = fieldVal v sl.pos sl.len ∧
    (setWord w.2 v s).getF sl.field2 = fieldVal v sl.pos sl.len := by
  have hok := layouts_ok hw
  exact ⟨setWordR_written (v := v) hs hok (mem_resolve hsl) (c := cellOf sl.field 0) (by simp [writes, resolve, hk]),
         setWordR_written (v := v) hs hok (mem_resolve hsl) (c := cellOf sl.field2 0) (by simp [writes, resolve, hk])⟩

theorem st0_mem : ("st0", word "st0") ∈ layouts := by decide +kernel
theorem stt0_mem : ("stt0", word "stt0") ∈ layouts := by decide +kernel
theorem st0_limit_slot : (⟨.double, "flm", 0, "fvl", 5, 1⟩ : Slot) ∈ word "st0" := by decide +kernel
theorem stt0_flm_slot : (⟨.rw, "flm", 0, "", 0, 1⟩ : Slot) ∈ word "stt0" := by decide +kernel
theorem stt0_fvl_slot : (⟨.rw, "fvl", 0, "", 1, 1⟩ : Slot) ∈ word "stt0" := by decide +kernel

/-- **st0_limit.**  Bit 5 of the TeakLite word `st0` is `flm | fvl` … -/
theorem st0_limit {s : RegFile} (hs : WF s) :
    fieldVal (getWord (word "st0") s) 5 1 = s.getF "flm" ||| s.getF "fvl" :=
  get_double st0_mem st0_limit_slot rfl hs

/-- … which is the OR of bits 0 and 1 of the Teak word `stt0` … -/
theorem st0_limit_stt0 {s : RegFile} (hs : WF s) :
    fieldVal (getWord (word "st0") s) 5 1 =
      fieldVal (getWord (word "stt0") s) 0 1 ||| fieldVal (getWord (word "stt0") s) 1 1 := by
  rw [st0_limit hs, get_field stt0_mem stt0_flm_slot rfl hs, get_field stt0_mem stt0_fvl_slot rfl hs]

/-- … and writing `st0` sets both limit flags to bit 5 of the written value. -/
theorem st0_limit_set (v : U16) {s : RegFile} (hs : Sized s) :
    (setWord (word "st0") v s).getF "flm" = fieldVal v 5 1 ∧
    (setWord (word "st0") v s).getF "fvl" = fieldVal v 5 1 :=
  set_double st0_mem st0_limit_slot rfl v hs

/-! ### frame -/

/-- The members `Set` may assign through a slot.  (`LPRedirector` names none in its template
arguments; its body assigns `lp` and `bcn`.) -/
def Slot.assigns (sl : Slot) : List (String × Nat) :=
  match sl.kind with
  | .rw => [(sl.field, sl.index)]
  | .double => [(sl.field, 0), (sl.field2, 0)]
  | .lp => [("lp", 0), ("bcn", 0)]
  | .ro | .accE => []

theorem targets_resolve (sl : Slot) : targets (resolve sl) = sl.assigns.map (fun p => cellOf p.1 p.2) := by
  unfold targets resolve Slot.assigns
  cases hk : sl.kind <;> rfl

theorem targets_lt {r : RSlot} (h : slotOk r = true) {c : Nat} (hc : c ∈ targets r) : c < nCells := by
  simp only [slotOk, Bool.and_eq_true, decide_eq_true_eq] at h
  obtain ⟨_, h⟩ := h
  unfold targets at hc
  cases hk : r.kind <;> simp only [hk, decide_eq_true_eq] at h hc
  · simp at hc; omega
  · simp at hc
  · simp at hc; omega
  · simp at hc
  · simp at hc; omega

/-- Different members have different cells (for members that exist). -/
theorem cellOf_inj {a b : String} {i j : Nat} (h : cellOf a i = cellOf b j) (hlt : cellOf a i < nCells) :
    (a, i) = (b, j) := by
  unfold cellOf nCells at *
  have h1 := List.getElem_idxOf hlt
  have h2 := List.getElem_idxOf (h ▸ hlt : List.idxOf (b, j) cellKeys < cellKeys.length)
  rw [← h1, ← h2]
  congr 1

/-- **set_frame.**  Every `u16` member that no slot of the word assigns is unchanged by `Set` — for
every word of the table, every value, every state (no hypothesis on the state). -/
theorem set_frame {w : String × List Slot} (hw : w ∈ layouts) (name : String) (idx : Nat)
    (h : ∀ sl ∈ w.2, (name, idx) ∉ sl.assigns) (v : U16) (s : RegFile) :
    (setWord w.2 v s).getF name idx = s.getF name idx := by
  have hok := layouts_ok hw
  unfold getF setWord
  apply setWordR_frame
  intro r hr hc
  obtain ⟨sl, hsl, rfl⟩ := List.mem_map.mp hr
  have hlt := targets_lt (wordOk_slot hok hr) hc
  rw [targets_resolve] at hc
  obtain ⟨p, hp, hpe⟩ := List.mem_map.mp hc
  have := cellOf_inj hpe (hpe ▸ hlt)
  exact h sl hsl (by rw [← this]; exact hp)

/-- **set_frame (accumulators).**  `a[i]` is unchanged unless the word has an `AccEProxy<i>` slot; the
other accumulators `b[]`, the products, `pc`, the loop stack … are not reachable from any proxy. -/
theorem set_frame_acc {w : String × List Slot} (hw : w ∈ layouts) (i : Nat) (hi : i < 2)
    (h : ∀ sl ∈ w.2, sl.kind = .accE → sl.index ≠ i) (v : U16) (s : RegFile) :
    (setWord w.2 v s).getA i = s.getA i := by
  apply setWordR_acc_frame _ _ _ _ hi (layouts_ok hw)
  intro r hr hk
  obtain ⟨sl, hsl, rfl⟩ := List.mem_map.mp hr
  rw [resolve_kind] at hk
  have := h sl hsl hk
  simpa [resolve, hk] using this

/-! ### read-only slots -/

/-- **ro_unchanged.**  The member behind a read-only slot, and (on a well-formed state) the bits read
through it, are the same before and after `Set` — provided the write does not set the word's
`LPRedirector` bit, or the member is not `bcn`. (Writing one to the `lp` bit of `stt2`/`icr` clears
`bcn`, which the same word shows read-only: `ro_unchanged_literal_false`.) -/
theorem ro_unchanged {w : String × List Slot} (hw : w ∈ layouts) {sl : Slot} (hsl : sl ∈ w.2)
    (hk : sl.kind = .ro) (v : U16) (s : RegFile)
    (hlp : sl.field ≠ "bcn" ∨ ∀ l ∈ w.2, l.kind = .lp → fieldVal v l.pos l.len = 0#16) :
    (setWord w.2 v s).getF sl.field sl.index = s.getF sl.field sl.index ∧
    (WF s → fieldVal (getWord w.2 (setWord w.2 v s)) sl.pos sl.len = fieldVal (getWord w.2 s) sl.pos sl.len) := by
  have hok := layouts_ok hw
  have hmem : (setWord w.2 v s).getF sl.field sl.index = s.getF sl.field sl.index := by
    unfold getF setWord
    apply setWordR_frame_w
    intro r hr y hy
    obtain ⟨b, hb, rfl⟩ := List.mem_map.mp hr
    have hro := wordOk_ro hok (mem_resolve hsl) hr
    have hin := mem_targets_of_writes hy
    have hc1 : (resolve sl).c1 = cellOf sl.field sl.index := by simp [resolve, hk]
    have hlt : cellOf sl.field sl.index < nCells := by
      have := wordOk_slot hok (mem_resolve hsl)
      simp only [slotOk, resolve_kind, hk, Bool.and_eq_true, decide_eq_true_eq, hc1] at this
      exact this.2.1
    simp only [roOk, resolve_kind, hk, bne_self_eq_false, Bool.false_or, Bool.or_eq_true,
      Bool.not_eq_true', Bool.and_eq_true, beq_iff_eq, hc1] at hro
    rcases hro with hro | ⟨hbk, hbcn⟩
    · have : (targets (resolve b)).contains (cellOf sl.field sl.index) = true := by simpa using hin
      rw [this] at hro; cases hro
    · rcases hlp with hlp | hlp
      · have hc2 : (resolve b).c2 = cellOf "bcn" 0 := by simp [resolve, hbk]
        rw [hc2] at hbcn
        have := cellOf_inj hbcn hlt
        exact hlp (congrArg Prod.fst this)
      · have hz := hlp b hb hbk
        simp [writes, resolve, hbk, hz] at hy
  refine ⟨hmem, fun hs => ?_⟩
  have hp : sl.plain = true := by simp [Slot.plain, hk]
  rw [get_field hw hsl hp (set_preserves_WF hw v hs), get_field hw hsl hp hs, hmem]

/-! ### the loop flag (`LPRedirector`) -/

/-- **lp_write_one_to_clear.**  For every word with an `LPRedirector` slot (`stt2` bit 15, `icr`
bit 4): the bit reads `lp` (on a well-formed state); writing one clears `lp` **and** `bcn`; writing
zero leaves both unchanged. -/
theorem lp_write_one_to_clear {w : String × List Slot} (hw : w ∈ layouts) {sl : Slot} (hsl : sl ∈ w.2)
    (hk : sl.kind = .lp) (v : U16) {s : RegFile} (hs : Sized s) :
    (WF s → fieldVal (getWord w.2 s) sl.pos sl.len = s.getF "lp") ∧
    (fieldVal v sl.pos sl.len ≠ 0#16 →
      (setWord w.2 v s).getF "lp" = 0#16 ∧ (setWord w.2 v s).getF "bcn" = 0#16) ∧
    (fieldVal v sl.pos sl.len = 0#16 →
      (setWord w.2 v s).getF "lp" = s.getF "lp" ∧ (setWord w.2 v s).getF "bcn" = s.getF "bcn") := by
  have hok := layouts_ok hw
  have hr := mem_resolve hsl
  refine ⟨fun hwf => ?_, fun hx => ?_, fun hx => ?_⟩
  · have := getWordR_field hok (fits_of_WF hok hwf) hr
    rw [resolve_pos, resolve_len] at this
    unfold getWord
    rw [this]; simp [proxyGet, resolve, hk, getF]
  · exact ⟨setWordR_written (v := v) hs hok hr (c := cellOf "lp" 0) (y := 0#16) (by simp [writes, resolve, hk, hx]),
           setWordR_written (v := v) hs hok hr (c := cellOf "bcn" 0) (y := 0#16) (by simp [writes, resolve, hk, hx])⟩
  · have key : ∀ c ∈ targets (resolve sl), (setWordR (w.2.map resolve) v s).getC c = s.getC c := by
      intro c hc
      apply setWordR_frame_w
      intro r hr' y hy
      by_cases he : r = resolve sl
      · subst he; simp [writes, resolve, hk, hx] at hy
      · exact compat_targets (wordOk_compat hok hr hr') (fun e => he e.symm) hc (mem_targets_of_writes hy)
    exact ⟨key _ (by simp [targets, resolve, hk]), key _ (by simp [targets, resolve, hk])⟩

/-! ### the accumulator extension nibble (`AccEProxy`) -/

/-- **accE_roundtrip.**  For every word with an `AccEProxy<i>` slot (`st0`: `a[0]`, `st1`: `a[1]`):
the slot reads bits 32..35 of `a[i]`; `Set` replaces bits 32..63 of `a[i]` by the sign extension of
the written nibble and keeps bits 0..31; the nibble reads back; the accumulator stays sign-extended
from bit 39. -/
theorem accE_roundtrip {w : String × List Slot} (hw : w ∈ layouts) {sl : Slot} (hsl : sl ∈ w.2)
    (hk : sl.kind = .accE) (v : U16) (s : RegFile) :
    (WF s → fieldVal (getWord w.2 s) sl.pos sl.len = (((s.getA sl.index) >>> 32) &&& 0xF#64).setWidth 16) ∧
    (setWord w.2 v s).getA sl.index = accSet (s.getA sl.index) (fieldVal v sl.pos sl.len) ∧
    (setWord w.2 v s).getA sl.index &&& 0xFFFFFFFF#64 = s.getA sl.index &&& 0xFFFFFFFF#64 ∧
    ((((setWord w.2 v s).getA sl.index) >>> 32) &&& 0xF#64).setWidth 16 = fieldVal v sl.pos sl.len ∧
    SignExt40 ((setWord w.2 v s).getA sl.index) := by
  have hok := layouts_ok hw
  have hr := mem_resolve hsl
  have hso := wordOk_slot hok hr
  simp only [slotOk, resolve_kind, hk, Bool.and_eq_true, decide_eq_true_eq, resolve_len] at hso
  have hx : (fieldVal v sl.pos sl.len).toNat < 16 := by
    have := fieldVal_lt v sl.pos sl.len (by omega)
    have h4 : (2 : Nat) ^ sl.len = 16 := by rw [hso.2.2]
    omega
  have hset : (setWord w.2 v s).getA sl.index = accSet (s.getA sl.index) (fieldVal v sl.pos sl.len) := by
    have := setWordR_acc (v := v) (s := s) hok hr (by rw [resolve_kind]; exact hk)
    unfold setWord
    simpa [resolve, hk] using this
  refine ⟨fun hwf => ?_, hset, ?_, ?_, ?_⟩
  · have := getWordR_field hok (fits_of_WF hok hwf) hr
    rw [resolve_pos, resolve_len] at this
    unfold getWord
    rw [this]; simp [proxyGet, resolve, hk]
  · rw [hset, accSet_low]
  · rw [hset, accSet_get _ hx]
  · rw [hset]; exact accSet_signExt40 _ hx

/-! ### concrete witnesses -/

theorem getC_zero (c : Nat) : RegFile.zero.getC c = 0#16 := by
  unfold RegFile.zero getC
  rw [Array.getD_eq_getD_getElem?, Array.getElem?_replicate]
  split <;> rfl

theorem zero_WF : WF RegFile.zero :=
  ⟨by simp [Sized, RegFile.zero], fun c _ => by rw [getC_zero]; exact Nat.two_pow_pos _, by decide, by decide⟩

theorem setF_WF {s : RegFile} (hw : WF s) (name : String) (idx : Nat) (x : U16)
    (hx : x.toNat < 2 ^ cellBits (cellOf name idx)) : WF (s.setF name idx x) := by
  refine ⟨by unfold Sized setF; rw [size_setC]; exact hw.sized, fun c hc => ?_, hw.a0, hw.a1⟩
  unfold setF; rw [getC_setC]; split
  · rename_i h; rw [← h.1]; exact hx
  · exact hw.bits c hc

theorem setA0_WF {s : RegFile} (hw : WF s) (a : U64) (ha : SignExt40 a) : WF { s with a0 := a } :=
  ⟨hw.sized, hw.bits, ha, hw.a1⟩

/-- a state in which the read-only user input pin `iu[0]` holds 0x10 (outside its 1-bit width) -/
def bleedState : RegFile := RegFile.zero.setF "iu" 0 0x10#16

/-- **Without `WF`, `get_set` fails.**  `PseudoRegister::Get` does not mask members: with
`iu[0] = 0x10` the read-only slot at bit 10 of `stt1` bleeds into bit 14 (`pe[0]`, writable):
writing 0 to `stt1` and reading it back gives 0x4000. -/
theorem get_set_fails_without_WF :
    ("stt1", word "stt1") ∈ layouts ∧ Sized bleedState ∧
    ¬ (bleedState.getF "iu" 0).toNat < 2 ^ cellBits (cellOf "iu" 0) ∧
    getWord (word "stt1") (setWord (word "stt1") 0#16 bleedState) = 0x4000#16 ∧
    getWord (word "stt1") (setWord (word "stt1") 0#16 bleedState) &&& writable (word "stt1")
      ≠ 0#16 &&& writable (word "stt1") := by decide +kernel

/-- `bcn = 3`, `lp = 1`: inside two nested block-repeat loops -/
def loopState : RegFile := (RegFile.zero.setF "bcn" 0 3#16).setF "lp" 0 1#16

/-- The literal reading of "`Set` leaves read-only bits unchanged". -/
def RoUnchangedLiteral : Prop :=
  ∀ w ∈ layouts, ∀ sl ∈ w.2, sl.kind = .ro → ∀ (v : U16) (s : RegFile), WF s →
    fieldVal (getWord w.2 (setWord w.2 v s)) sl.pos sl.len = fieldVal (getWord w.2 s) sl.pos sl.len

/-- **The literal statement is false on the unchanged code**: `stt2` shows `bcn` read-only in bits
12..14 and `lp` in bit 15; from `bcn = 3, lp = 1` (`stt2 = 0xB000`) writing `0x8000` clears both
(`stt2 = 0`): the read-only bits changed.  (`ro_unchanged` is the statement with this case excluded;
`lp_write_one_to_clear` describes it.) -/
theorem ro_unchanged_literal_false : ¬ RoUnchangedLiteral := by
  intro h
  have hmem : ("stt2", word "stt2") ∈ layouts := by decide +kernel
  have hsl : (⟨.ro, "bcn", 0, "", 12, 3⟩ : Slot) ∈ word "stt2" := by decide +kernel
  have hwf : WF loopState := setF_WF (setF_WF zero_WF _ _ _ (by decide +kernel)) _ _ _ (by decide +kernel)
  have := h _ hmem _ hsl rfl 0x8000#16 loopState hwf
  revert this
  decide +kernel

theorem loopState_stt2 : getWord (word "stt2") loopState = 0xB000#16 ∧
    getWord (word "stt2") (setWord (word "stt2") 0x8000#16 loopState) = 0#16 := by decide +kernel

/-- `a[0] = 0x7F_0000_0000` (a well-formed positive 40-bit value) -/
def accState : RegFile := { RegFile.zero with a0 := 0x7F00000000#64 }

/-- **Writing back the value just read is not the identity for `st0`/`st1`**: the words expose only
the low nibble of the 8-bit accumulator extension, and `AccEProxy::Set` rebuilds bits 36..39 (and
up) from that nibble's sign.  From `a[0] = 0x7F_0000_0000`, `st0` reads `0xF000`; writing `0xF000`
back gives `a[0] = 0xFFFF_FFFF_0000_0000` (i.e. `-0x1_0000_0000`). -/
theorem accE_write_back_changes_acc :
    WF accState ∧ getWord (word "st0") accState = 0xF000#16 ∧
    (setWord (word "st0") 0xF000#16 accState).a0 = 0xFFFFFFFF00000000#64 ∧
    (setWord (word "st0") 0xF000#16 accState).a0 ≠ accState.a0 :=
  ⟨setA0_WF zero_WF _ (by decide), by decide +kernel, by decide +kernel, by decide +kernel⟩

/-! ## ar / arp: three decoders, one meaning -/

theorem fieldVal_fieldVal (v : U16) (p l q m : Nat) (hl : l ≤ 16) (hm : q + m ≤ l) :
    fieldVal (fieldVal v p l) q m = fieldVal v (p + q) m := by
  apply BitVec.eq_of_getLsbD_eq
  intro j _
  rw [fieldVal_bit _ _ _ _ (by omega), fieldVal_bit _ _ _ _ hl, fieldVal_bit _ _ _ _ (by omega)]
  by_cases hj : j < m
  · have : q + j < l := by omega
    simp [hj, this, Nat.add_assoc]
  · simp [hj]

theorem fieldVal_shift (v : U16) (p l q : Nat) (hl : l ≤ 16) (hq : q ≤ l) :
    (fieldVal v p l) >>> q = fieldVal v (p + q) (l - q) := by
  apply BitVec.eq_of_getLsbD_eq
  intro j _
  rw [BitVec.getLsbD_ushiftRight, fieldVal_bit _ _ _ _ hl, fieldVal_bit _ _ _ _ (by omega)]
  by_cases hj : j < l - q
  · have : q + j < l := by omega
    simp [hj, this, Nat.add_assoc]
  · have : ¬ q + j < l := by omega
    simp [hj, this]

private theorem and7_eq (x : U16) : x &&& 7#16 = fieldVal x 0 3 := by
  unfold fieldVal; rw [BitVec.ushiftRight_zero]; rfl

/-- name of the `ar` word holding the configuration of `ArRn`/`ArStep` operand value `k` -/
def arName (i : Nat) : String := if i = 0 then "ar0" else "ar1"
/-- name of the `arp` word of `ArpRn`/`ArpStep` operand value `k` -/
def arpName (i : Nat) : String := if i = 0 then "arp0" else if i = 1 then "arp1" else if i = 2 then "arp2" else "arp3"

/-- Where the generated table puts the interpreter's `arrn[k]`, `arstep[k]`, `aroffset[k]`. -/
theorem ar_slots : ∀ k, k < 4 →
    (arName (k / 2), word (arName (k / 2))) ∈ layouts ∧
    (⟨.rw, "arrn", k, "", 13 - 3 * (k % 2), 3⟩ : Slot) ∈ word (arName (k / 2)) ∧
    (⟨.rw, "arstep", k, "", 5 - 5 * (k % 2), 3⟩ : Slot) ∈ word (arName (k / 2)) ∧
    (⟨.rw, "aroffset", k, "", 5 - 5 * (k % 2) + 3, 2⟩ : Slot) ∈ word (arName (k / 2)) := by decide +kernel

/-- Where the generated table puts `arprni[k]`, `arprnj[k]`, `arpstepi/j[k]`, `arpoffseti/j[k]`. -/
theorem arp_slots : ∀ k, k < 4 →
    (arpName k, word (arpName k)) ∈ layouts ∧
    (⟨.rw, "arprni", k, "", 10, 2⟩ : Slot) ∈ word (arpName k) ∧
    (⟨.rw, "arprnj", k, "", 13, 2⟩ : Slot) ∈ word (arpName k) ∧
    (⟨.rw, "arpstepi", k, "", 0, 3⟩ : Slot) ∈ word (arpName k) ∧
    (⟨.rw, "arpoffseti", k, "", 3, 2⟩ : Slot) ∈ word (arpName k) ∧
    (⟨.rw, "arpstepj", k, "", 5, 3⟩ : Slot) ∈ word (arpName k) ∧
    (⟨.rw, "arpoffsetj", k, "", 8, 2⟩ : Slot) ∈ word (arpName k) := by decide +kernel

theorem dsm_arRn (ar : Nat → U16) (k : Nat) : Dsm.arRn ar k = fieldVal (ar (k / 2)) (13 - 3 * (k % 2)) 3 := rfl
theorem gen_arRn (ar : Nat → U16) (k : Nat) : Gen.arRn ar k = Dsm.arRn ar k := rfl
theorem dsm_arStep (ar : Nat → U16) (k : Nat) :
    Dsm.step (Dsm.arStepWord ar k) = fieldVal (ar (k / 2)) (5 - 5 * (k % 2)) 3 := by
  show (fieldVal (ar (k / 2)) (5 - 5 * (k % 2)) 5) &&& 7#16 = _
  rw [and7_eq, fieldVal_fieldVal _ _ 5 0 3 (by omega) (by omega)]; rfl
theorem dsm_arOffset (ar : Nat → U16) (k : Nat) :
    Dsm.offset (Dsm.arStepWord ar k) = fieldVal (ar (k / 2)) (5 - 5 * (k % 2) + 3) 2 := by
  show (fieldVal (ar (k / 2)) (5 - 5 * (k % 2)) 5) >>> 3 = _
  rw [fieldVal_shift _ _ 5 3 (by omega) (by omega)]

theorem dsm_arpRni (arp : Nat → U16) (k : Nat) : Dsm.arpRni arp k = fieldVal (arp k) 10 2 := rfl
theorem dsm_arpRnj (arp : Nat → U16) (k : Nat) : Dsm.arpRnj arp k = fieldVal (arp k) 13 2 + 4#16 := rfl
theorem dsm_arpStepi (arp : Nat → U16) (k : Nat) : Dsm.step (Dsm.arpStepiWord arp k) = fieldVal (arp k) 0 3 := by
  show ((arp k) &&& 31#16) &&& 7#16 = _
  have : (arp k) &&& 31#16 = fieldVal (arp k) 0 5 := by unfold fieldVal; rw [BitVec.ushiftRight_zero]; rfl
  rw [this, and7_eq, fieldVal_fieldVal _ _ 5 0 3 (by omega) (by omega)]
theorem dsm_arpOffseti (arp : Nat → U16) (k : Nat) : Dsm.offset (Dsm.arpStepiWord arp k) = fieldVal (arp k) 3 2 := by
  show ((arp k) &&& 31#16) >>> 3 = _
  have : (arp k) &&& 31#16 = fieldVal (arp k) 0 5 := by unfold fieldVal; rw [BitVec.ushiftRight_zero]; rfl
  rw [this, fieldVal_shift _ _ 5 3 (by omega) (by omega)]
theorem dsm_arpStepj (arp : Nat → U16) (k : Nat) : Dsm.step (Dsm.arpStepjWord arp k) = fieldVal (arp k) 5 3 := by
  show (fieldVal (arp k) 5 5) &&& 7#16 = _
  rw [and7_eq, fieldVal_fieldVal _ _ 5 0 3 (by omega) (by omega)]
theorem dsm_arpOffsetj (arp : Nat → U16) (k : Nat) : Dsm.offset (Dsm.arpStepjWord arp k) = fieldVal (arp k) 8 2 := by
  show (fieldVal (arp k) 5 5) >>> 3 = _
  rw [fieldVal_shift _ _ 5 3 (by omega) (by omega)]

/-- The hand-written generator decoders are the expressions found in `src/test_generator.cpp`
(`GenSrc`, translated from source on every run; C `int` arithmetic on `Nat`). -/
theorem gen_matches_source (ar arp : Nat → U16) (mod2 : U16) (i : Nat) :
    (Gen.arRn ar i).toNat = GenSrc.arRn (fun j => (ar j).toNat) i ∧
    (Gen.arpRni arp i).toNat = GenSrc.arpRnA (fun j => (arp j).toNat) i ∧
    (Gen.arpRnj arp i).toNat = GenSrc.arpRnB (fun j => (arp j).toNat) i ∧
    (Gen.mod2M mod2 i).toNat = GenSrc.mod2M mod2.toNat i ∧
    (Gen.mod2Br mod2 i).toNat = GenSrc.mod2Br mod2.toNat i := by
  refine ⟨?_, ?_, ?_, ?_, ?_⟩
  · simp [Gen.arRn, GenSrc.arRn, BitVec.toNat_and, BitVec.toNat_ushiftRight]
  · simp [Gen.arpRni, GenSrc.arpRnA, BitVec.toNat_and, BitVec.toNat_ushiftRight]
  · simp only [Gen.arpRnj, GenSrc.arpRnB, BitVec.toNat_add, BitVec.toNat_and, BitVec.toNat_ushiftRight,
      BitVec.toNat_ofNat]
    have := @Nat.and_le_right ((arp i).toNat >>> 13) 3
    simp only [Nat.reducePow, Nat.reduceMod]
    omega
  · simp [Gen.mod2M, GenSrc.mod2M, BitVec.toNat_and, BitVec.toNat_ushiftRight]
  · simp [Gen.mod2Br, GenSrc.mod2Br, BitVec.toNat_and, BitVec.toNat_ushiftRight]

/-- **ar_decoders_agree (`ar0`/`ar1`).**  For every 16-bit value `v` written to the `ar` word that
holds operand value `k` (0..3): the register, step and offset the *interpreter* will use
(`arrn[k]`, `arstep[k]`, `aroffset[k]`, set by `Set<ar>` through the generated layout) are what the
*disassembler* prints from the raw word (`DsmArRn`, `DsmArStep` = `ConvertArStepAndOffset`) and the
register is the one the *test generator* points at test memory. -/
theorem ar_decoders_agree (k : Nat) (hk : k < 4) (v : U16) (ar : Nat → U16) (har : ar (k / 2) = v)
    {s : RegFile} (hs : Sized s) :
    (setWord (word (arName (k / 2))) v s).getF "arrn" k = Dsm.arRn ar k ∧
    Dsm.arRn ar k = Gen.arRn ar k ∧
    (Gen.arRn ar k).toNat = GenSrc.arRn (fun j => (ar j).toNat) k ∧
    (setWord (word (arName (k / 2))) v s).getF "arstep" k = Dsm.step (Dsm.arStepWord ar k) ∧
    (setWord (word (arName (k / 2))) v s).getF "aroffset" k = Dsm.offset (Dsm.arStepWord ar k) := by
  obtain ⟨hm, h1, h2, h3⟩ := ar_slots k hk
  refine ⟨?_, rfl, (gen_matches_source ar ar 0 k).1, ?_, ?_⟩
  · rw [dsm_arRn, har]; exact set_field hm h1 rfl v hs
  · rw [dsm_arStep, har]; exact set_field hm h2 rfl v hs
  · rw [dsm_arOffset, har]; exact set_field hm h3 rfl v hs

/-- **ar_decoders_agree (`arp0`..`arp3`).**  Likewise for the `arp` words: `arprni[k]`,
`arprnj[k] + 4` (the interpreter's `GetArpRnUnit`), `arpstepi/j[k]`, `arpoffseti/j[k]` against
`DsmArpRni`, `DsmArpRnj`, `DsmArpStepi/j` and the generator's two marked registers. -/
theorem arp_decoders_agree (k : Nat) (hk : k < 4) (v : U16) (arp : Nat → U16) (harp : arp k = v)
    {s : RegFile} (hs : Sized s) :
    (setWord (word (arpName k)) v s).getF "arprni" k = Dsm.arpRni arp k ∧
    (setWord (word (arpName k)) v s).getF "arprnj" k + 4#16 = Dsm.arpRnj arp k ∧
    Dsm.arpRni arp k = Gen.arpRni arp k ∧ Dsm.arpRnj arp k = Gen.arpRnj arp k ∧
    (Gen.arpRni arp k).toNat = GenSrc.arpRnA (fun j => (arp j).toNat) k ∧
    (Gen.arpRnj arp k).toNat = GenSrc.arpRnB (fun j => (arp j).toNat) k ∧
    (setWord (word (arpName k)) v s).getF "arpstepi" k = Dsm.step (Dsm.arpStepiWord arp k) ∧
    (setWord (word (arpName k)) v s).getF "arpoffseti" k = Dsm.offset (Dsm.arpStepiWord arp k) ∧
    (setWord (word (arpName k)) v s).getF "arpstepj" k = Dsm.step (Dsm.arpStepjWord arp k) ∧
    (setWord (word (arpName k)) v s).getF "arpoffsetj" k = Dsm.offset (Dsm.arpStepjWord arp k) := by
  obtain ⟨hm, h1, h2, h3, h4, h5, h6⟩ := arp_slots k hk
  have g := gen_matches_source arp arp 0 k
  refine ⟨?_, ?_, rfl, rfl, g.2.1, g.2.2.1, ?_, ?_, ?_, ?_⟩
  · rw [dsm_arpRni, harp]; exact set_field hm h1 rfl v hs
  · rw [dsm_arpRnj, harp, set_field hm h2 rfl v hs]
  · rw [dsm_arpStepi, harp]; exact set_field hm h3 rfl v hs
  · rw [dsm_arpOffseti, harp]; exact set_field hm h4 rfl v hs
  · rw [dsm_arpStepj, harp]; exact set_field hm h5 rfl v hs
  · rw [dsm_arpOffsetj, harp]; exact set_field hm h6 rfl v hs

/-- **ar_decoders_agree (read direction).**  On a well-formed state, decoding the words *read* from
the state (what `mov ar0, …`/the test verifier's dump shows) gives the interpreter's members back. -/
theorem ar_decoders_agree_read (k : Nat) (hk : k < 4) {s : RegFile} (hs : WF s) :
    let ar := fun i => getWord (word (arName i)) s
    let arp := fun i => getWord (word (arpName i)) s
    s.getF "arrn" k = Dsm.arRn ar k ∧ s.getF "arstep" k = Dsm.step (Dsm.arStepWord ar k) ∧
    s.getF "aroffset" k = Dsm.offset (Dsm.arStepWord ar k) ∧
    s.getF "arprni" k = Dsm.arpRni arp k ∧ s.getF "arprnj" k + 4#16 = Dsm.arpRnj arp k ∧
    s.getF "arpstepi" k = Dsm.step (Dsm.arpStepiWord arp k) ∧
    s.getF "arpoffseti" k = Dsm.offset (Dsm.arpStepiWord arp k) ∧
    s.getF "arpstepj" k = Dsm.step (Dsm.arpStepjWord arp k) ∧
    s.getF "arpoffsetj" k = Dsm.offset (Dsm.arpStepjWord arp k) := by
  intro ar arp
  obtain ⟨hm, h1, h2, h3⟩ := ar_slots k hk
  obtain ⟨hm', g1, g2, g3, g4, g5, g6⟩ := arp_slots k hk
  refine ⟨?_, ?_, ?_, ?_, ?_, ?_, ?_, ?_, ?_⟩
  · rw [dsm_arRn]; exact (get_field hm h1 rfl hs).symm
  · rw [dsm_arStep]; exact (get_field hm h2 rfl hs).symm
  · rw [dsm_arOffset]; exact (get_field hm h3 rfl hs).symm
  · rw [dsm_arpRni]; exact (get_field hm' g1 rfl hs).symm
  · rw [dsm_arpRnj]; exact congrArg (· + 4#16) (get_field hm' g2 rfl hs).symm
  · rw [dsm_arpStepi]; exact (get_field hm' g3 rfl hs).symm
  · rw [dsm_arpOffseti]; exact (get_field hm' g4 rfl hs).symm
  · rw [dsm_arpStepj]; exact (get_field hm' g5 rfl hs).symm
  · rw [dsm_arpOffsetj]; exact (get_field hm' g6 rfl hs).symm

/-- Where the table puts `m[i]` and `br[i]` in `mod2`. -/
theorem mod2_slots : ∀ i, i < 8 → ("mod2", word "mod2") ∈ layouts ∧
    (⟨.rw, "m", i, "", i, 1⟩ : Slot) ∈ word "mod2" ∧ (⟨.rw, "br", i, "", i + 8, 1⟩ : Slot) ∈ word "mod2" := by
  decide +kernel

/-- The generator's reading of the modulo / bit-reverse enables from a `mod2` word agrees with the
interpreter's `m[i]` / `br[i]` (it decides whether to bit-reverse the address it plants in `r[i]`). -/
theorem gen_mod2_agrees (i : Nat) (hi : i < 8) {s : RegFile} (hs : WF s) :
    Gen.mod2M (getWord (word "mod2") s) i = s.getF "m" i ∧
    Gen.mod2Br (getWord (word "mod2") s) i = s.getF "br" i := by
  obtain ⟨hm, h1, h2⟩ := mod2_slots i hi
  have e1 : ∀ w : U16, Gen.mod2M w i = fieldVal w i 1 := fun _ => rfl
  have e2 : ∀ w : U16, Gen.mod2Br w i = fieldVal w (i + 8) 1 := fun _ => rfl
  rw [e1, e2]
  exact ⟨get_field hm h1 rfl hs, get_field hm h2 rfl hs⟩

/-! ## non-vacuity -/

/-- `WF` is satisfiable by a non-trivial state (inside two nested loops) … -/
example : WF loopState := setF_WF (setF_WF zero_WF _ _ _ (by decide +kernel)) _ _ _ (by decide +kernel)

/-- … on which `get_set` says something: all of `st0` is writable, and of `stt2` only `pcmhi`. -/
example : writable (word "st0") = 0xFFFF#16 ∧ writable (word "stt2") = 0x00C0#16 := by decide +kernel

example : getWord (word "st0") (setWord (word "st0") 0xA5C3#16 loopState) = 0xA5C3#16 := by decide +kernel

/-- `compat_same_field` has instances: `sat` is bit 0 of both `mod0` (Teak) and `st0` (TeakLite);
`page` is the low byte of `mod1` and `st1`; `ip[2]` is bit 2 of `stt2` but bit 13 of `st2`. -/
example : ("mod0", word "mod0") ∈ layouts ∧ (⟨.rw, "sat", 0, "", 0, 1⟩ : Slot) ∈ word "mod0" ∧
    (⟨.rw, "sat", 0, "", 0, 1⟩ : Slot) ∈ word "st0" ∧
    (⟨.rw, "page", 0, "", 0, 8⟩ : Slot) ∈ word "mod1" ∧ (⟨.rw, "page", 0, "", 0, 8⟩ : Slot) ∈ word "st1" ∧
    (⟨.ro, "ip", 2, "", 2, 1⟩ : Slot) ∈ word "stt2" ∧ (⟨.ro, "ip", 2, "", 13, 1⟩ : Slot) ∈ word "st2" := by
  decide +kernel

/-- The `LPRedirector` and `AccEProxy` theorems have instances. -/
example : (⟨.lp, "lp", 0, "bcn", 15, 1⟩ : Slot) ∈ word "stt2" ∧ (⟨.lp, "lp", 0, "bcn", 4, 1⟩ : Slot) ∈ word "icr" ∧
    (⟨.accE, "a", 0, "", 12, 4⟩ : Slot) ∈ word "st0" ∧ (⟨.accE, "a", 1, "", 12, 4⟩ : Slot) ∈ word "st1" := by
  decide +kernel

/-- Decoders on a concrete word: `ar0 = 0xB6D3` selects `r5`/`r5`… (`arrn[0] = 5`, step 6, offset 2). -/
example : Dsm.arRn (fun _ => 0xB6D3#16) 0 = 5#16 ∧ Dsm.step (Dsm.arStepWord (fun _ => 0xB6D3#16) 0) = 6#16 ∧
    Dsm.offset (Dsm.arStepWord (fun _ => 0xB6D3#16) 0) = 2#16 ∧
    Dsm.memARS (fun _ => 0xB6D3#16) 0 0 = "[%r5-1++2*]" := by decide +kernel

end Teakra.Regs
