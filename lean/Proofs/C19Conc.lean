import TeakraModel.Conc
import Proofs.C07Icu
/-!
# C19, protocol guarantees over the interleaving semantics `TeakraModel/Conc.lean`

"The host-side mailbox and semaphore calls may be made from another thread while `Run` executes: … every
value the receiver reads is one the sender wrote and values are seen in send order, and the last value sent is
always eventually observed.  Every send with interrupts enabled is followed by at least one interrupt delivery
to the other side …"

Theorems (all by invariants and induction over `Reachable`, never by exploring interleavings):
`reads_are_writes`, `send_order`, `last_value_observed`, `send_signals` (+ `send_signals_returned`,
`send_calls_handler`, `handler_triggers`, `latchSet_sets`, `step_stacks`), `latch_exchange_lossless`
(+ `latch_kept`, `exchange_idle`, `exchange_once`), `semSet_is_sequential` / `semMask_is_sequential` (the split
semaphore actions compose to the C14-validated sequential methods), `run_reachable`.

Proof architecture: every atomic action is projected onto the component a theorem talks about
(`step_view`: one channel's flag/word/histories; `step_lview`: one latch; `step_stack`: the stacks;
`sigInv_step`: the signalling counters), each projection is one case analysis over the 34 kinds of action, and
the invariants (`ChanInv`, `LatchInv`, `SigInv`) are proved on the projections.

**What this cannot exhibit.**  (1) Nothing below "access under a lock / atomic operation" of the C++ memory
model: the atomic actions are licensed by `race_free_partial` / `actions_justified` (`Proofs/C19.lean`); for the
members in `knownRacy` the C++ has a data race, i.e. no defined behaviour, and the model (which treats those
accesses as atomic) says nothing about the real program's behaviour on schedules that exercise them.
(2) Liveness: "the last value sent is *eventually* observed" is proved in its safety form (`last_value_observed`:
whenever a receive happens it returns the last value; `latch_exchange_lossless`: whenever the next exchange
happens it sees the latch); that the DSP program does receive, and that the scheduler lets it, is outside the
model.  (3) The relative order of `vinterrupt_address` / `vinterrupt_pending` / `vinterrupt_context_switch`: they
are three separate atomic stores, so a `vexchange` between the second and the third store pairs the new address
with the previous context-switch flag — the model exhibits this, no theorem here rules it out (it is outside the
property's text).
-/
set_option linter.unusedSimpArgs false
namespace Teakra.Conc
open Teakra

/-! ## the view of one channel and the operation a frame performs on it -/

/-- Everything the channel theorems talk about, for one channel of one side. -/
structure ChanView where
  chan : DataChannel
  sent : List U16
  taken : List U16
  reads : List U16

def view (g : Global) (s : Side) (ch : Fin 3) : ChanView := ⟨g.chan s ch, g.sent s ch, g.taken s ch, g.reads s ch⟩

inductive ChanOp where
  | none | send (v : U16) | recv | peek | setDisable (v : U16)

def ChanView.apply (c : ChanView) : ChanOp → ChanView
  | .none => c
  | .send v => { c with chan := { c.chan with ready := true, data := v }, sent := c.sent ++ [v] }
  | .recv => { c with chan := { c.chan with ready := false }, reads := c.reads ++ [c.chan.data],
                      taken := if c.chan.ready then c.taken ++ [c.chan.data] else c.taken }
  | .peek => { c with reads := c.reads ++ [c.chan.data] }
  | .setDisable v => { c with chan := { c.chan with disableInterrupt := v } }

/-- The operation frame `f` performs on channel `(s, ch)`. -/
def chanOpOf (s : Side) (ch : Fin 3) : Frame → ChanOp
  | .call (.send s' ch' v) => if s' = s ∧ ch' = ch then .send v else .none
  | .call (.recv s' ch') => if s' = s ∧ ch' = ch then .recv else .none
  | .call (.peek s' ch') => if s' = s ∧ ch' = ch then .peek else .none
  | .call (.setDisable s' ch' v) => if s' = s ∧ ch' = ch then .setDisable v else .none
  | _ => .none

private theorem chan_set (a : Apbp) (ch ch' : Fin 3) (c : DataChannel) :
    ({ a with dataChannels := a.dataChannels.set ch' c } : Apbp).dataChannels[ch] =
      if ch' = ch then c else a.dataChannels[ch] := by
  by_cases h : ch' = ch
  · subst h; simp
  · have : (ch' : Nat) ≠ ch := fun e => h (Fin.ext e)
    simp [h, Vector.getElem_set_ne, this]

private theorem vset_ne {α : Type} (v : Vector α 3) (ch ch' : Fin 3) (x : α) (h : ch' ≠ ch) :
    (v.set ch' x)[ch] = v[ch] := by
  have : (ch' : Nat) ≠ ch := fun e => h (Fin.ext e)
  simp [Vector.getElem_set_ne, this]

private theorem trigger_view {t : Tid} {bits : U16} {rest : List Frame} {g g' : Global}
    (h : trigger t bits rest g = some g') (s : Side) (ch : Fin 3) : view g' s ch = view g s ch := by
  unfold trigger at h
  split at h
  · cases h
  · cases h; rfl

private theorem icuCS_view {t : Tid} {rest : List Frame} {g g' : Global} {f : Icu → Icu}
    (h : icuCS rest t g f = some g') (s : Side) (ch : Fin 3) : view g' s ch = view g s ch := by
  unfold icuCS at h
  split at h
  · cases h
  · cases h; rfl

private theorem semCS_view {t : Tid} {rest : List Frame} {g g' : Global} {s' : Side} {f : Apbp → Apbp}
    (hf : ∀ a, (f a).dataChannels = a.dataChannels)
    (h : semCS rest t s' g f = some g') (s : Side) (ch : Fin 3) : view g' s ch = view g s ch := by
  unfold semCS at h
  split at h
  · cases h
    simp only [view, Global.chan, upd]
    split
    · rename_i e; subst e; simp [hf]
    · rfl
  · cases h

theorem step_view {cb : HostCallbacks} {g g' : Global} {t : Tid} {f : Frame} {rest : List Frame}
    (hst : g.stack t = f :: rest) (h : step cb g t = some g') (s : Side) (ch : Fin 3) :
    view g' s ch = (view g s ch).apply (chanOpOf s ch f) := by
  unfold step at h
  rw [hst] at h
  dsimp only at h
  cases f with
  | call c =>
    cases c with
    | send s' ch' v =>
      simp only [execFrame, execCall, Option.some.injEq] at h
      subst h
      simp only [view, Global.chan, chanOpOf, upd]
      by_cases e : s' = s ∧ ch' = ch
      · obtain ⟨rfl, rfl⟩ := e
        simp [ChanView.apply, Apbp.sendData, DataChannel.send]
      · simp only [e, if_false, ChanView.apply]
        by_cases es : s = s'
        · subst es
          have ec : ch' ≠ ch := fun e' => e ⟨rfl, e'⟩
          have ec' : ch ≠ ch' := fun e' => ec e'.symm
          simp [Apbp.sendData, vset_ne _ _ _ _ ec, upd_other _ _ _ _ ec']
        · simp [es]
    | recv s' ch' =>
      simp only [execFrame, execCall, Option.some.injEq] at h
      subst h
      simp only [view, Global.chan, chanOpOf, upd]
      by_cases e : s' = s ∧ ch' = ch
      · obtain ⟨rfl, rfl⟩ := e
        simp [ChanView.apply, Apbp.recvData, DataChannel.recv, Apbp.isDataReady, DataChannel.isReady]
        try rfl
      · simp only [e, if_false, ChanView.apply]
        by_cases es : s = s'
        · subst es
          have ec : ch' ≠ ch := fun e' => e ⟨rfl, e'⟩
          have ec' : ch ≠ ch' := fun e' => ec e'.symm
          simp [Apbp.recvData, vset_ne _ _ _ _ ec, upd_other _ _ _ _ ec']
        · simp [es]
    | peek s' ch' =>
      simp only [execFrame, execCall, Option.some.injEq] at h
      subst h
      simp only [view, Global.chan, chanOpOf, upd]
      by_cases e : s' = s ∧ ch' = ch
      · obtain ⟨rfl, rfl⟩ := e
        simp [ChanView.apply, Apbp.peekData, DataChannel.peek]
      · simp only [e, if_false, ChanView.apply]
        by_cases es : s = s'
        · subst es
          have ec : ch' ≠ ch := fun e' => e ⟨rfl, e'⟩
          have ec' : ch ≠ ch' := fun e' => ec e'.symm
          simp [upd_other _ _ _ _ ec']
        · simp [es]
    | setDisable s' ch' v =>
      simp only [execFrame, execCall, Option.some.injEq] at h
      subst h
      simp only [view, Global.chan, chanOpOf, upd]
      by_cases e : s' = s ∧ ch' = ch
      · obtain ⟨rfl, rfl⟩ := e
        simp [ChanView.apply, Apbp.setDisableInterrupt, DataChannel.setDisableInterrupt]
      · simp only [e, if_false, ChanView.apply]
        by_cases es : s = s'
        · subst es
          have ec : ch' ≠ ch := fun e' => e ⟨rfl, e'⟩
          simp [Apbp.setDisableInterrupt, vset_ne _ _ _ _ ec]
        · simp [es]
    | isReady s' ch' => simp only [execFrame, execCall, Option.some.injEq] at h; subst h; rfl
    | getDisable s' ch' => simp only [execFrame, execCall, Option.some.injEq] at h; subst h; rfl
    | semSet s' bits =>
      simp only [execFrame, execCall] at h
      split at h
      · cases h
        simp only [view, Global.chan, upd, chanOpOf, ChanView.apply]
        split
        · rename_i e; subst e; rfl
        · rfl
      · cases h
    | semMask s' bits =>
      simp only [execFrame, execCall] at h
      split at h
      · cases h
        simp only [view, Global.chan, upd, chanOpOf, ChanView.apply]
        split
        · rename_i e; subst e; rfl
        · rfl
      · cases h
    | semClear s' bits => exact semCS_view (f := fun a => a.clearSemaphore bits) (fun a => rfl) h s ch
    | semGet s' => exact semCS_view (fun a => rfl) h s ch
    | maskGet s' => exact semCS_view (fun a => rfl) h s ch
    | signaled s' => exact semCS_view (fun a => rfl) h s ch
    | icuGetRequest => exact icuCS_view h s ch
    | icuAck bits => exact icuCS_view (f := fun i => i.acknowledge bits) h s ch
    | icuTrigger bits => exact trigger_view h s ch
    | icuSetEnable k bits => exact icuCS_view (f := fun i => i.setEnable k bits) h s ch
    | icuSetEnableVectored bits => exact icuCS_view (f := fun i => i.setEnableVectored bits) h s ch
    | icuGetEnable k => exact icuCS_view h s ch
    | icuGetEnableVectored => exact icuCS_view h s ch
    | icuSetVectorLow irq v => simp only [execFrame, execCall, Option.some.injEq] at h; subst h; rfl
    | icuSetVectorHigh irq v => simp only [execFrame, execCall, Option.some.injEq] at h; subst h; rfl
    | icuSetVectorCtx irq v => simp only [execFrame, execCall, Option.some.injEq] at h; subst h; rfl
    | exchange i =>
      simp only [execFrame, execCall] at h
      split at h <;> (cases h; rfl)
    | vexchange =>
      simp only [execFrame, execCall] at h
      split at h <;> (cases h; rfl)
  | dataHandler s' ch' =>
    cases s' with
    | cpu => exact trigger_view h s ch
    | dsp => simp only [execFrame, Option.some.injEq] at h; subst h; rfl
  | semHandler s' =>
    cases s' with
    | cpu => exact trigger_view h s ch
    | dsp => simp only [execFrame, Option.some.injEq] at h; subst h; rfl
  | semSetFinish s' ns =>
    simp only [execFrame, Option.some.injEq] at h; subst h
    simp only [view, Global.chan, upd, chanOpOf, ChanView.apply]
    split
    · rename_i e; subst e; rfl
    · rfl
  | semMaskFinish s' ns =>
    simp only [execFrame, Option.some.injEq] at h; subst h
    simp only [view, Global.chan, upd, chanOpOf, ChanView.apply]
    split
    · rename_i e; subst e; rfl
    · rfl
  | latchSet i => simp only [execFrame, Option.some.injEq] at h; subst h; rfl
  | vlatchAddr a => simp only [execFrame, Option.some.injEq] at h; subst h; rfl
  | vlatchPending => simp only [execFrame, Option.some.injEq] at h; subst h; rfl
  | vlatchCtx b => simp only [execFrame, Option.some.injEq] at h; subst h; rfl
  | icuRelease => simp only [execFrame, Option.some.injEq] at h; subst h; rfl

/-! ## the channel invariant -/

/-- What holds of every channel in every reachable state: the ready flag implies something was sent; the
stored word is the last word sent (0 before the first send); the words taken with ready = 1 are a
subsequence of the words sent, *excluding* the last one while it is still waiting (ready = 1); every word
returned by a read was sent (or is the initial 0). -/
structure ChanInv (c : ChanView) : Prop where
  ready_sent : c.chan.ready = true → c.sent ≠ []
  data_last : c.chan.data = c.sent.getLast?.getD 0
  taken_sub : c.taken.Sublist (if c.chan.ready then c.sent.dropLast else c.sent)
  reads_sent : ∀ v ∈ c.reads, v ∈ c.sent ∨ v = 0

private theorem nil_or_snoc {α : Type} (l : List α) : l = [] ∨ ∃ l' a, l = l' ++ [a] := by
  rcases List.eq_nil_or_concat l with e | ⟨l', a, e⟩
  · exact Or.inl e
  · exact Or.inr ⟨l', a, by rw [e, List.concat_eq_append]⟩

private theorem taken_sub_sent {c : ChanView} (h : ChanInv c) : c.taken.Sublist c.sent := by
  have := h.taken_sub
  split at this
  · exact this.trans (List.dropLast_sublist _)
  · exact this

private theorem data_mem {c : ChanView} (h : ChanInv c) : c.chan.data ∈ c.sent ∨ c.chan.data = 0 := by
  rw [h.data_last]
  rcases nil_or_snoc c.sent with e | ⟨l, a, e⟩
  · right; simp [e]
  · left; simp [e]

theorem ChanInv.apply {c : ChanView} (h : ChanInv c) (op : ChanOp) : ChanInv (c.apply op) := by
  cases op with
  | none => exact h
  | send v =>
    refine ⟨fun _ => by simp [ChanView.apply], by simp [ChanView.apply], ?_, ?_⟩
    · simp only [ChanView.apply, if_true, List.dropLast_concat]
      exact taken_sub_sent h
    · intro w hw
      rcases h.reads_sent w hw with h1 | h1
      · left; exact List.mem_append_left _ h1
      · right; exact h1
  | recv =>
    refine ⟨fun e => by simp [ChanView.apply] at e, h.data_last, ?_, ?_⟩
    · simp only [ChanView.apply, Bool.false_eq_true, if_false]
      by_cases hr : c.chan.ready = true
      · simp only [hr, if_true]
        have hs := h.taken_sub
        simp only [hr, if_true] at hs
        rcases nil_or_snoc c.sent with e | ⟨l, a, e⟩
        · exact absurd e (h.ready_sent hr)
        · have hd : c.chan.data = a := by rw [h.data_last, e]; simp
          rw [e, List.dropLast_concat] at hs
          rw [e, hd]
          exact List.Sublist.append hs (List.Sublist.refl _)
      · simp only [hr]
        exact taken_sub_sent h
    · intro w hw
      simp only [ChanView.apply, List.mem_append, List.mem_singleton] at hw
      rcases hw with hw | hw
      · exact h.reads_sent w hw
      · rw [hw]; show c.chan.data ∈ c.sent ∨ c.chan.data = 0; exact data_mem h
  | peek =>
    refine ⟨h.ready_sent, h.data_last, h.taken_sub, ?_⟩
    intro w hw
    simp only [ChanView.apply, List.mem_append, List.mem_singleton] at hw
    rcases hw with hw | hw
    · exact h.reads_sent w hw
    · rw [hw]; show c.chan.data ∈ c.sent ∨ c.chan.data = 0; exact data_mem h
  | setDisable v => exact ⟨h.ready_sent, h.data_last, h.taken_sub, h.reads_sent⟩

/-- The invariant holds after construction. -/
theorem chanInv_init (hs ds : List Call) (icu : Icu) (s : Side) (ch : Fin 3) :
    ChanInv (view (init hs ds icu) s ch) := by
  refine ⟨?_, ?_, ?_, ?_⟩ <;> simp [view, init, Global.chan]

/-- … and is preserved by every atomic action of either thread. -/
theorem chanInv_step {cb : HostCallbacks} {g g' : Global} {t : Tid} (h : step cb g t = some g')
    (s : Side) (ch : Fin 3) (hi : ChanInv (view g s ch)) : ChanInv (view g' s ch) := by
  cases hst : g.stack t with
  | nil => simp [step, hst] at h
  | cons f rest => rw [step_view hst h s ch]; exact hi.apply _

theorem chanInv_reachable {cb : HostCallbacks} {hs ds : List Call} {icu : Icu} {g : Global}
    (hr : Reachable cb (init hs ds icu) g) (s : Side) (ch : Fin 3) : ChanInv (view g s ch) := by
  induction hr with
  | init => exact chanInv_init hs ds icu s ch
  | step t _ hstep ih => exact chanInv_step hstep s ch ih

/-! ## interrupt signalling: the bookkeeping invariant -/

/-- Per thread: every send that found the channel's interrupt enabled has either already made its handler
call or still has the handler frame on the thread's stack (it is the thread's very next action); every
`on_interrupt` call scheduled by `ICU::Trigger` has either stored its latch or is still on the stack, above
the release of the ICU mutex. -/
def SigInv (g : Global) : Prop :=
  (∀ t s, g.irqSends t s = g.handlerRuns t s + (g.stack t).countP (isDataHandler s)) ∧
  (∀ t, g.routed t = g.latched t + (g.stack t).countP isLatchSet)

private theorem countP_calls (p : Frame → Bool) (hp : ∀ c, p (Frame.call c) = false) (l : List Call) :
    (l.map Frame.call).countP p = 0 := by
  induction l with
  | nil => rfl
  | cons c l ih => simp [List.countP_cons, hp, ih]

private theorem countP_events_dh (s : Side) (evs : List IcuEvent) :
    (evs.flatMap eventFrames).countP (isDataHandler s) = 0 := by
  induction evs with
  | nil => rfl
  | cons e evs ih =>
    simp only [List.flatMap_cons, List.countP_append, ih, Nat.add_zero]
    cases e <;> simp [eventFrames, List.countP_cons, isDataHandler]

private theorem trigger_sig {t : Tid} {bits : U16} {f : Frame} {rest : List Frame} {g g' : Global}
    (hf1 : ∀ s, isDataHandler s f = false) (hf2 : isLatchSet f = false)
    (hst : g.stack t = f :: rest) (hi : SigInv g) (h : trigger t bits rest g = some g') : SigInv g' := by
  unfold trigger at h
  split at h
  · cases h
  · cases h
    have h1 := hi.1 t
    have h2 := hi.2 t
    rw [hst] at h1 h2
    constructor
    · intro t' s
      by_cases e : t' = t
      · subst e
        have := h1 s
        simp only [List.countP_cons, hf1, Bool.false_eq_true, if_false, Nat.add_zero] at this
        simp [List.countP_append, List.countP_cons, countP_events_dh, isDataHandler, this]
      · simp only [upd_other _ _ _ _ e]; exact hi.1 t' s
    · intro t'
      by_cases e : t' = t
      · subst e
        simp only [List.countP_cons, hf2, Bool.false_eq_true, if_false, Nat.add_zero] at h2
        simp [List.countP_append, List.countP_cons, isLatchSet, h2]
        omega
      · simp only [upd_other _ _ _ _ e]; exact hi.2 t'

/-- Close a `SigInv` goal for a step of `t` that pops `f` (neither a handler nor a latch frame), pushes only
`call` frames or nothing, and changes no counter. -/
private theorem pop_sig {t : Tid} {f : Frame} {rest pushed : List Frame} {g g' : Global}
    (hf1 : ∀ s, isDataHandler s f = false) (hf2 : isLatchSet f = false)
    (hp1 : ∀ s, pushed.countP (isDataHandler s) = 0) (hp2 : pushed.countP isLatchSet = 0)
    (hst : g.stack t = f :: rest) (hi : SigInv g)
    (e1 : g'.stack = upd g.stack t (pushed ++ rest)) (e2 : g'.irqSends = g.irqSends)
    (e3 : g'.handlerRuns = g.handlerRuns) (e4 : g'.routed = g.routed) (e5 : g'.latched = g.latched) :
    SigInv g' := by
  have h1 := hi.1 t
  have h2 := hi.2 t
  rw [hst] at h1 h2
  constructor
  · intro t' s
    rw [e1, e2, e3]
    by_cases e : t' = t
    · subst e
      have := h1 s
      simp only [List.countP_cons, hf1, Bool.false_eq_true, if_false, Nat.add_zero] at this
      simp [List.countP_append, hp1, this]
    · simp only [upd_other _ _ _ _ e]; exact hi.1 t' s
  · intro t'
    rw [e1, e4, e5]
    by_cases e : t' = t
    · subst e
      simp only [List.countP_cons, hf2, Bool.false_eq_true, if_false, Nat.add_zero] at h2
      simp [List.countP_append, hp2, h2]
    · simp only [upd_other _ _ _ _ e]; exact hi.2 t'

private theorem icuCS_sig {t : Tid} {f : Frame} {rest : List Frame} {g g' : Global} {fn : Icu → Icu}
    (hf1 : ∀ s, isDataHandler s f = false) (hf2 : isLatchSet f = false)
    (hst : g.stack t = f :: rest) (hi : SigInv g) (h : icuCS rest t g fn = some g') : SigInv g' := by
  unfold icuCS at h
  split at h
  · cases h
  · cases h
    exact pop_sig (pushed := []) hf1 hf2 (fun _ => rfl) rfl hst hi rfl rfl rfl rfl rfl

private theorem semCS_sig {t : Tid} {f : Frame} {rest : List Frame} {g g' : Global} {s' : Side} {fn : Apbp → Apbp}
    (hf1 : ∀ s, isDataHandler s f = false) (hf2 : isLatchSet f = false)
    (hst : g.stack t = f :: rest) (hi : SigInv g) (h : semCS rest t s' g fn = some g') : SigInv g' := by
  unfold semCS at h
  split at h
  · cases h
    exact pop_sig (pushed := []) hf1 hf2 (fun _ => rfl) rfl hst hi rfl rfl rfl rfl rfl
  · cases h

theorem sigInv_step {cb : HostCallbacks} {g g' : Global} {t : Tid} (h : step cb g t = some g')
    (hi : SigInv g) : SigInv g' := by
  cases hst : g.stack t with
  | nil => simp [step, hst] at h
  | cons f rest =>
    unfold step at h
    rw [hst] at h
    dsimp only at h
    have h1 := hi.1 t
    have h2 := hi.2 t
    rw [hst] at h1 h2
    cases f with
    | call c =>
      have hf1 : ∀ s, isDataHandler s (Frame.call c) = false := fun _ => rfl
      have hf2 : isLatchSet (Frame.call c) = false := rfl
      cases c with
      | send s' ch' v =>
        simp only [execFrame, execCall, Option.some.injEq] at h
        subst h
        constructor
        · intro t' s
          by_cases e : t' = t
          · subst e
            have := h1 s
            simp only [List.countP_cons, hf1, Bool.false_eq_true, if_false, Nat.add_zero] at this
            by_cases es : s = s'
            · subst es
              cases hirq : ((g.apbp s).sendData ch' v).2.isEmpty <;>
                simp [List.countP_cons, isDataHandler, this, hirq] <;> omega
            · cases hirq : ((g.apbp s').sendData ch' v).2.isEmpty <;>
                simp [List.countP_cons, isDataHandler, this, hirq, upd_other _ _ _ _ es, Ne.symm es]
          · simp only [upd_other _ _ _ _ e]; exact hi.1 t' s
        · intro t'
          by_cases e : t' = t
          · subst e
            simp only [List.countP_cons, hf2, Bool.false_eq_true, if_false, Nat.add_zero] at h2
            cases hirq : ((g.apbp s').sendData ch' v).2.isEmpty <;>
              simp [List.countP_cons, isLatchSet, h2, hirq]
          · simp only [upd_other _ _ _ _ e]; exact hi.2 t'
      | recv s' ch' =>
        simp only [execFrame, execCall, Option.some.injEq] at h; subst h
        exact pop_sig (pushed := []) hf1 hf2 (fun _ => rfl) rfl hst hi rfl rfl rfl rfl rfl
      | peek s' ch' =>
        simp only [execFrame, execCall, Option.some.injEq] at h; subst h
        exact pop_sig (pushed := []) hf1 hf2 (fun _ => rfl) rfl hst hi rfl rfl rfl rfl rfl
      | isReady s' ch' =>
        simp only [execFrame, execCall, Option.some.injEq] at h; subst h
        exact pop_sig (pushed := []) hf1 hf2 (fun _ => rfl) rfl hst hi rfl rfl rfl rfl rfl
      | getDisable s' ch' =>
        simp only [execFrame, execCall, Option.some.injEq] at h; subst h
        exact pop_sig (pushed := []) hf1 hf2 (fun _ => rfl) rfl hst hi rfl rfl rfl rfl rfl
      | setDisable s' ch' v =>
        simp only [execFrame, execCall, Option.some.injEq] at h; subst h
        exact pop_sig (pushed := []) hf1 hf2 (fun _ => rfl) rfl hst hi rfl rfl rfl rfl rfl
      | semSet s' bits =>
        simp only [execFrame, execCall] at h
        split at h
        · cases h
          refine pop_sig (pushed := (if Apbp.signalOf ((g.apbp s').semaphore ||| bits) (g.apbp s').semaphoreMask then [Frame.semHandler s'] else []) ++
              [Frame.semSetFinish s' (Apbp.signalOf ((g.apbp s').semaphore ||| bits) (g.apbp s').semaphoreMask)])
            hf1 hf2 ?_ ?_ hst hi ?_ rfl rfl rfl rfl
          · intro s; split <;> rfl
          · split <;> rfl
          · simp
        · cases h
      | semMask s' bits =>
        simp only [execFrame, execCall] at h
        split at h
        · cases h
          refine pop_sig (pushed := (if (Apbp.signalOf (g.apbp s').semaphore bits && !(g.apbp s').semaphoreMasterSignal) then [Frame.semHandler s'] else []) ++
              [Frame.semMaskFinish s' (Apbp.signalOf (g.apbp s').semaphore bits)])
            hf1 hf2 ?_ ?_ hst hi ?_ rfl rfl rfl rfl
          · intro s; split <;> rfl
          · split <;> rfl
          · simp
        · cases h
      | semClear s' bits => exact semCS_sig (fn := fun a => a.clearSemaphore bits) hf1 hf2 hst hi h
      | semGet s' => exact semCS_sig hf1 hf2 hst hi h
      | maskGet s' => exact semCS_sig hf1 hf2 hst hi h
      | signaled s' => exact semCS_sig hf1 hf2 hst hi h
      | icuGetRequest => exact icuCS_sig hf1 hf2 hst hi h
      | icuAck bits => exact icuCS_sig (fn := fun i => i.acknowledge bits) hf1 hf2 hst hi h
      | icuTrigger bits => exact trigger_sig hf1 hf2 hst hi h
      | icuSetEnable k bits => exact icuCS_sig (fn := fun i => i.setEnable k bits) hf1 hf2 hst hi h
      | icuSetEnableVectored bits => exact icuCS_sig (fn := fun i => i.setEnableVectored bits) hf1 hf2 hst hi h
      | icuGetEnable k => exact icuCS_sig hf1 hf2 hst hi h
      | icuGetEnableVectored => exact icuCS_sig hf1 hf2 hst hi h
      | icuSetVectorLow irq v =>
        simp only [execFrame, execCall, Option.some.injEq] at h; subst h
        exact pop_sig (pushed := []) hf1 hf2 (fun _ => rfl) rfl hst hi rfl rfl rfl rfl rfl
      | icuSetVectorHigh irq v =>
        simp only [execFrame, execCall, Option.some.injEq] at h; subst h
        exact pop_sig (pushed := []) hf1 hf2 (fun _ => rfl) rfl hst hi rfl rfl rfl rfl rfl
      | icuSetVectorCtx irq v =>
        simp only [execFrame, execCall, Option.some.injEq] at h; subst h
        exact pop_sig (pushed := []) hf1 hf2 (fun _ => rfl) rfl hst hi rfl rfl rfl rfl rfl
      | exchange i =>
        simp only [execFrame, execCall] at h
        split at h <;> (cases h; exact pop_sig (pushed := []) hf1 hf2 (fun _ => rfl) rfl hst hi rfl rfl rfl rfl rfl)
      | vexchange =>
        simp only [execFrame, execCall] at h
        split at h <;> (cases h; exact pop_sig (pushed := []) hf1 hf2 (fun _ => rfl) rfl hst hi rfl rfl rfl rfl rfl)
    | dataHandler s' ch' =>
      have h1' : ∀ s, g.irqSends t s = g.handlerRuns t s + (if s' = s then 1 else 0) + rest.countP (isDataHandler s) := by
        intro s
        have := h1 s
        simp only [List.countP_cons, isDataHandler] at this
        by_cases es : s' = s <;> simp [es] at this ⊢ <;> omega
      have h2' : g.routed t = g.latched t + rest.countP isLatchSet := by
        simpa [List.countP_cons, isLatchSet] using h2
      cases s' with
      | cpu =>
        simp only [execFrame] at h
        unfold trigger at h
        split at h
        · cases h
        · cases h
          constructor
          · intro t' s
            by_cases e : t' = t
            · subst e
              have := h1' s
              by_cases es : s = Side.cpu
              · subst es
                simp [List.countP_append, countP_events_dh, isDataHandler] at this ⊢
                omega
              · have es' : Side.cpu ≠ s := fun x => es x.symm
                simp [List.countP_append, countP_events_dh, isDataHandler, upd_other _ _ _ _ es, es'] at this ⊢
                omega
            · simp only [upd_other _ _ _ _ e]; exact hi.1 t' s
          · intro t'
            by_cases e : t' = t
            · subst e
              simp [List.countP_append, isLatchSet, h2']
              omega
            · simp only [upd_other _ _ _ _ e]; exact hi.2 t'
      | dsp =>
        simp only [execFrame, Option.some.injEq] at h
        subst h
        constructor
        · intro t' s
          by_cases e : t' = t
          · subst e
            have := h1' s
            have hc := countP_calls (isDataHandler s) (fun _ => rfl) (cb.data ch')
            by_cases es : s = Side.dsp
            · subst es
              simp [List.countP_append, hc] at this ⊢
              omega
            · have es' : Side.dsp ≠ s := fun x => es x.symm
              simp [List.countP_append, hc, upd_other _ _ _ _ es, es'] at this ⊢
              omega
          · simp only [upd_other _ _ _ _ e]; exact hi.1 t' s
        · intro t'
          by_cases e : t' = t
          · subst e
            have hc := countP_calls isLatchSet (fun _ => rfl) (cb.data ch')
            simp [List.countP_append, hc, h2']
          · simp only [upd_other _ _ _ _ e]; exact hi.2 t'
    | semHandler s' =>
      have hf1 : ∀ s, isDataHandler s (Frame.semHandler s') = false := fun _ => rfl
      have hf2 : isLatchSet (Frame.semHandler s') = false := rfl
      cases s' with
      | cpu => exact trigger_sig hf1 hf2 hst hi h
      | dsp =>
        simp only [execFrame, Option.some.injEq] at h; subst h
        exact pop_sig (pushed := cb.sem.map Frame.call) hf1 hf2 (fun s => countP_calls _ (fun _ => rfl) _)
          (countP_calls _ (fun _ => rfl) _) hst hi rfl rfl rfl rfl rfl
    | semSetFinish s' ns =>
      simp only [execFrame, Option.some.injEq] at h; subst h
      exact pop_sig (pushed := []) (fun _ => rfl) rfl (fun _ => rfl) rfl hst hi rfl rfl rfl rfl rfl
    | semMaskFinish s' ns =>
      simp only [execFrame, Option.some.injEq] at h; subst h
      exact pop_sig (pushed := []) (fun _ => rfl) rfl (fun _ => rfl) rfl hst hi rfl rfl rfl rfl rfl
    | latchSet i =>
      simp only [execFrame, Option.some.injEq] at h; subst h
      constructor
      · intro t' s
        by_cases e : t' = t
        · subst e
          have := h1 s
          simp only [List.countP_cons, isDataHandler, Bool.false_eq_true, if_false, Nat.add_zero] at this
          simp [this]
        · simp only [upd_other _ _ _ _ e]; exact hi.1 t' s
      · intro t'
        by_cases e : t' = t
        · subst e
          simp only [List.countP_cons, isLatchSet, if_true] at h2
          simp [h2]
          omega
        · simp only [upd_other _ _ _ _ e]; exact hi.2 t'
    | vlatchAddr a =>
      simp only [execFrame, Option.some.injEq] at h; subst h
      exact pop_sig (pushed := []) (fun _ => rfl) rfl (fun _ => rfl) rfl hst hi rfl rfl rfl rfl rfl
    | vlatchPending =>
      simp only [execFrame, Option.some.injEq] at h; subst h
      exact pop_sig (pushed := []) (fun _ => rfl) rfl (fun _ => rfl) rfl hst hi rfl rfl rfl rfl rfl
    | vlatchCtx b =>
      simp only [execFrame, Option.some.injEq] at h; subst h
      exact pop_sig (pushed := []) (fun _ => rfl) rfl (fun _ => rfl) rfl hst hi rfl rfl rfl rfl rfl
    | icuRelease =>
      simp only [execFrame, Option.some.injEq] at h; subst h
      exact pop_sig (pushed := []) (fun _ => rfl) rfl (fun _ => rfl) rfl hst hi rfl rfl rfl rfl rfl

theorem sigInv_init (hs ds : List Call) (icu : Icu) : SigInv (init hs ds icu) := by
  constructor
  · intro t s
    cases t <;> simp [init, countP_calls (isDataHandler s) (fun _ => rfl)]
  · intro t
    cases t <;> simp [init, countP_calls isLatchSet (fun _ => rfl)]

theorem sigInv_reachable {cb : HostCallbacks} {hs ds : List Call} {icu : Icu} {g : Global}
    (hr : Reachable cb (init hs ds icu) g) : SigInv g := by
  induction hr with
  | init => exact sigInv_init hs ds icu
  | step t _ hstep ih => exact sigInv_step hstep ih

/-! ## stack discipline: a thread's step replaces its top frame, nobody touches another thread's stack -/

theorem step_stack {cb : HostCallbacks} {g g' : Global} {t : Tid} {f : Frame} {rest : List Frame}
    (hst : g.stack t = f :: rest) (h : step cb g t = some g') :
    ∃ pushed, g'.stack = upd g.stack t (pushed ++ rest) := by
  unfold step at h
  rw [hst] at h
  dsimp only at h
  have trig : ∀ {bits : U16} {g₁ : Global}, g₁.stack = g.stack → trigger t bits rest g₁ = some g' →
      ∃ pushed, g'.stack = upd g.stack t (pushed ++ rest) := by
    intro bits g₁ e h
    unfold trigger at h
    split at h
    · cases h
    · cases h
      exact ⟨(g₁.icu.trigger bits).2.flatMap eventFrames ++ [Frame.icuRelease], by simp [e]⟩
  have icu : ∀ {fn : Icu → Icu}, icuCS rest t g fn = some g' → ∃ pushed, g'.stack = upd g.stack t (pushed ++ rest) := by
    intro fn h
    unfold icuCS at h
    split at h
    · cases h
    · cases h; exact ⟨[], rfl⟩
  have sem : ∀ {s : Side} {fn : Apbp → Apbp}, semCS rest t s g fn = some g' →
      ∃ pushed, g'.stack = upd g.stack t (pushed ++ rest) := by
    intro s fn h
    unfold semCS at h
    split at h
    · cases h; exact ⟨[], rfl⟩
    · cases h
  cases f with
  | call c =>
    cases c with
    | send s ch v =>
      simp only [execFrame, execCall, Option.some.injEq] at h; subst h
      exact ⟨if !((g.apbp s).sendData ch v).2.isEmpty then [Frame.dataHandler s ch] else [], by
        dsimp only; split <;> rfl⟩
    | semSet s bits =>
      simp only [execFrame, execCall] at h
      split at h
      · cases h
        exact ⟨(if Apbp.signalOf ((g.apbp s).semaphore ||| bits) (g.apbp s).semaphoreMask then [Frame.semHandler s] else []) ++
          [Frame.semSetFinish s (Apbp.signalOf ((g.apbp s).semaphore ||| bits) (g.apbp s).semaphoreMask)], by simp⟩
      · cases h
    | semMask s bits =>
      simp only [execFrame, execCall] at h
      split at h
      · cases h
        exact ⟨(if (Apbp.signalOf (g.apbp s).semaphore bits && !(g.apbp s).semaphoreMasterSignal) then [Frame.semHandler s] else []) ++
          [Frame.semMaskFinish s (Apbp.signalOf (g.apbp s).semaphore bits)], by simp⟩
      · cases h
    | exchange i =>
      simp only [execFrame, execCall] at h
      split at h <;> (cases h; exact ⟨[], rfl⟩)
    | vexchange =>
      simp only [execFrame, execCall] at h
      split at h <;> (cases h; exact ⟨[], rfl⟩)
    | semClear s bits => exact sem (fn := fun a => a.clearSemaphore bits) h
    | semGet s => exact sem h
    | maskGet s => exact sem h
    | signaled s => exact sem h
    | icuGetRequest => exact icu h
    | icuAck bits => exact icu (fn := fun i => i.acknowledge bits) h
    | icuTrigger bits => exact trig rfl h
    | icuSetEnable k bits => exact icu (fn := fun i => i.setEnable k bits) h
    | icuSetEnableVectored bits => exact icu (fn := fun i => i.setEnableVectored bits) h
    | icuGetEnable k => exact icu h
    | icuGetEnableVectored => exact icu h
    | recv s ch => simp only [execFrame, execCall, Option.some.injEq] at h; subst h; exact ⟨[], rfl⟩
    | peek s ch => simp only [execFrame, execCall, Option.some.injEq] at h; subst h; exact ⟨[], rfl⟩
    | isReady s ch => simp only [execFrame, execCall, Option.some.injEq] at h; subst h; exact ⟨[], rfl⟩
    | getDisable s ch => simp only [execFrame, execCall, Option.some.injEq] at h; subst h; exact ⟨[], rfl⟩
    | setDisable s ch v => simp only [execFrame, execCall, Option.some.injEq] at h; subst h; exact ⟨[], rfl⟩
    | icuSetVectorLow irq v => simp only [execFrame, execCall, Option.some.injEq] at h; subst h; exact ⟨[], rfl⟩
    | icuSetVectorHigh irq v => simp only [execFrame, execCall, Option.some.injEq] at h; subst h; exact ⟨[], rfl⟩
    | icuSetVectorCtx irq v => simp only [execFrame, execCall, Option.some.injEq] at h; subst h; exact ⟨[], rfl⟩
  | dataHandler s ch =>
    cases s with
    | cpu => simp only [execFrame] at h; refine trig ?_ h; rfl
    | dsp => simp only [execFrame, Option.some.injEq] at h; subst h; exact ⟨_, rfl⟩
  | semHandler s =>
    cases s with
    | cpu => exact trig rfl h
    | dsp => simp only [execFrame, Option.some.injEq] at h; subst h; exact ⟨_, rfl⟩
  | semSetFinish s ns => simp only [execFrame, Option.some.injEq] at h; subst h; exact ⟨[], rfl⟩
  | semMaskFinish s ns => simp only [execFrame, Option.some.injEq] at h; subst h; exact ⟨[], rfl⟩
  | latchSet i => simp only [execFrame, Option.some.injEq] at h; subst h; exact ⟨[], rfl⟩
  | vlatchAddr a => simp only [execFrame, Option.some.injEq] at h; subst h; exact ⟨[], rfl⟩
  | vlatchPending => simp only [execFrame, Option.some.injEq] at h; subst h; exact ⟨[], rfl⟩
  | vlatchCtx b => simp only [execFrame, Option.some.injEq] at h; subst h; exact ⟨[], rfl⟩
  | icuRelease => simp only [execFrame, Option.some.injEq] at h; subst h; exact ⟨[], rfl⟩

/-! ## the latches -/

/-- Everything the latch theorems talk about, for one interrupt line. -/
structure LatchView where
  latch : Bool
  ip : Bool
  observed : Nat
  sets : Nat

def lview (g : Global) (i : Fin 3) : LatchView := ⟨g.latch i, g.ip i, g.observed i, g.latchSets i⟩

inductive LatchOp where
  | none | set | exchange

def LatchView.apply (c : LatchView) : LatchOp → LatchView
  | .none => c
  | .set => { c with latch := true, sets := c.sets + 1 }
  | .exchange => if c.latch then { c with latch := false, ip := true, observed := c.observed + 1 } else c

/-- The operation frame `f` performs on latch `i`. -/
def latchOpOf (i : Fin 3) : Frame → LatchOp
  | .latchSet j => if j = i then .set else .none
  | .call (.exchange j) => if j = i then .exchange else .none
  | _ => .none

theorem step_lview {cb : HostCallbacks} {g g' : Global} {t : Tid} {f : Frame} {rest : List Frame}
    (hst : g.stack t = f :: rest) (h : step cb g t = some g') (i : Fin 3) :
    lview g' i = (lview g i).apply (latchOpOf i f) := by
  unfold step at h
  rw [hst] at h
  dsimp only at h
  have trig : ∀ {bits : U16} {g₁ : Global}, lview g₁ i = lview g i → trigger t bits rest g₁ = some g' →
      lview g' i = lview g i := by
    intro bits g₁ e h
    unfold trigger at h
    split at h
    · cases h
    · cases h; exact e
  have icu : ∀ {fn : Icu → Icu}, icuCS rest t g fn = some g' → lview g' i = lview g i := by
    intro fn h
    unfold icuCS at h
    split at h
    · cases h
    · cases h; rfl
  have sem : ∀ {s : Side} {fn : Apbp → Apbp}, semCS rest t s g fn = some g' → lview g' i = lview g i := by
    intro s fn h
    unfold semCS at h
    split at h
    · cases h; rfl
    · cases h
  cases f with
  | call c =>
    cases c with
    | exchange j =>
      simp only [execFrame, execCall] at h
      by_cases e : j = i
      · subst e
        split at h
        · rename_i hl
          cases h
          simp [lview, latchOpOf, LatchView.apply, hl]
        · rename_i hl
          cases h
          simp [lview, latchOpOf, LatchView.apply, hl]
      · have e' : i ≠ j := fun x => e x.symm
        split at h <;> (cases h; simp [lview, latchOpOf, LatchView.apply, e, upd_other _ _ _ _ e'])
    | vexchange =>
      simp only [execFrame, execCall] at h
      split at h <;> (cases h; rfl)
    | send s ch v => simp only [execFrame, execCall, Option.some.injEq] at h; subst h; rfl
    | semSet s bits =>
      simp only [execFrame, execCall] at h
      split at h
      · cases h; rfl
      · cases h
    | semMask s bits =>
      simp only [execFrame, execCall] at h
      split at h
      · cases h; rfl
      · cases h
    | semClear s bits => exact sem (fn := fun a => a.clearSemaphore bits) h
    | semGet s => exact sem h
    | maskGet s => exact sem h
    | signaled s => exact sem h
    | icuGetRequest => exact icu h
    | icuAck bits => exact icu (fn := fun i => i.acknowledge bits) h
    | icuTrigger bits => exact trig rfl h
    | icuSetEnable k bits => exact icu (fn := fun i => i.setEnable k bits) h
    | icuSetEnableVectored bits => exact icu (fn := fun i => i.setEnableVectored bits) h
    | icuGetEnable k => exact icu h
    | icuGetEnableVectored => exact icu h
    | recv s ch => simp only [execFrame, execCall, Option.some.injEq] at h; subst h; rfl
    | peek s ch => simp only [execFrame, execCall, Option.some.injEq] at h; subst h; rfl
    | isReady s ch => simp only [execFrame, execCall, Option.some.injEq] at h; subst h; rfl
    | getDisable s ch => simp only [execFrame, execCall, Option.some.injEq] at h; subst h; rfl
    | setDisable s ch v => simp only [execFrame, execCall, Option.some.injEq] at h; subst h; rfl
    | icuSetVectorLow irq v => simp only [execFrame, execCall, Option.some.injEq] at h; subst h; rfl
    | icuSetVectorHigh irq v => simp only [execFrame, execCall, Option.some.injEq] at h; subst h; rfl
    | icuSetVectorCtx irq v => simp only [execFrame, execCall, Option.some.injEq] at h; subst h; rfl
  | dataHandler s ch =>
    cases s with
    | cpu => simp only [execFrame] at h; refine trig ?_ h; rfl
    | dsp => simp only [execFrame, Option.some.injEq] at h; subst h; rfl
  | semHandler s =>
    cases s with
    | cpu => exact trig rfl h
    | dsp => simp only [execFrame, Option.some.injEq] at h; subst h; rfl
  | semSetFinish s ns => simp only [execFrame, Option.some.injEq] at h; subst h; rfl
  | semMaskFinish s ns => simp only [execFrame, Option.some.injEq] at h; subst h; rfl
  | latchSet j =>
    simp only [execFrame, Option.some.injEq] at h; subst h
    by_cases e : j = i
    · subst e; simp [lview, latchOpOf, LatchView.apply]
    · have e' : i ≠ j := fun x => e x.symm
      simp [lview, latchOpOf, LatchView.apply, e, upd_other _ _ _ _ e']
  | vlatchAddr a => simp only [execFrame, Option.some.injEq] at h; subst h; rfl
  | vlatchPending => simp only [execFrame, Option.some.injEq] at h; subst h; rfl
  | vlatchCtx b => simp only [execFrame, Option.some.injEq] at h; subst h; rfl
  | icuRelease => simp only [execFrame, Option.some.injEq] at h; subst h; rfl

/-- Every `true` returned by an `exchange` consumes a store: observations never outnumber stores, and a
latch that is still set is one more store not yet observed. -/
def LatchInv (c : LatchView) : Prop := c.observed + (if c.latch then 1 else 0) ≤ c.sets

theorem LatchInv.apply {c : LatchView} (h : LatchInv c) (op : LatchOp) : LatchInv (c.apply op) := by
  unfold LatchInv at *
  cases op with
  | none => exact h
  | set => simp only [LatchView.apply, if_true]; split at h <;> omega
  | exchange =>
    simp only [LatchView.apply]
    split
    · rename_i hl; simp only [hl, if_true] at h; simp; omega
    · rename_i hl; simpa [hl] using h

theorem latchInv_step {cb : HostCallbacks} {g g' : Global} {t : Tid} (h : step cb g t = some g')
    (i : Fin 3) (hi : LatchInv (lview g i)) : LatchInv (lview g' i) := by
  cases hst : g.stack t with
  | nil => simp [step, hst] at h
  | cons f rest => rw [step_lview hst h i]; exact hi.apply _

theorem latchInv_reachable {cb : HostCallbacks} {hs ds : List Call} {icu : Icu} {g : Global}
    (hr : Reachable cb (init hs ds icu) g) (i : Fin 3) : LatchInv (lview g i) := by
  induction hr with
  | init => simp [LatchInv, lview, init]
  | step t _ hstep ih => exact latchInv_step hstep i ih

/-! # The property theorems

All of them quantify over every state reachable from construction by *any* interleaving of the two
threads' atomic actions (`Reachable`), for arbitrary scripts of API calls on both sides (also calls a
thread would not normally make — e.g. both threads receiving from the same channel), arbitrary host
callbacks and unbounded histories. -/

section
variable {cb : HostCallbacks} {hs ds : List Call} {icu : Icu} {g : Global}

/-- **Every value the receiver reads is one the sender wrote.**  Every word returned by `RecvData` or
`PeekData` on a channel was sent on that channel — or is the constructor's `data = 0`, which is what a read
before the first send returns; every word received while the channel's ready flag was 1 was sent, without
exception. -/
theorem reads_are_writes (hr : Reachable cb (init hs ds icu) g) (s : Side) (ch : Fin 3) :
    (∀ v ∈ g.reads s ch, v ∈ g.sent s ch ∨ v = 0) ∧ (∀ v ∈ g.taken s ch, v ∈ g.sent s ch) :=
  ⟨(chanInv_reachable hr s ch).reads_sent, fun _ hv => (taken_sub_sent (chanInv_reachable hr s ch)).subset hv⟩

/-- **Values are seen in send order.**  The sequence of words received with ready = 1 is a subsequence of
the sequence of words sent on the channel (a word overwritten before it was received is skipped, nothing is
reordered, nothing is received twice); and while ready = 1 that subsequence does not yet contain the last
word sent — it is still waiting. -/
theorem send_order (hr : Reachable cb (init hs ds icu) g) (s : Side) (ch : Fin 3) :
    (g.taken s ch).Sublist (g.sent s ch) ∧
    ((g.chan s ch).ready = true → (g.taken s ch).Sublist (g.sent s ch).dropLast) := by
  have h := chanInv_reachable hr s ch
  refine ⟨taken_sub_sent h, fun hr' => ?_⟩
  have := h.taken_sub
  simp only [view, hr', if_true] at this
  exact this

/-- **The last value sent is what a receive observes** (safety form of "the last value sent is always
eventually observed").  In every reachable state — the store of `Send` is one atomic action under the channel
mutex, so "the sender has no send in progress" holds between any two actions — the channel holds the last
word sent: `RecvData` and `PeekData` return it, whichever thread performs them next; and if the ready flag
is still 1 that receive is recorded as taken with ready = 1. -/
theorem last_value_observed (hr : Reachable cb (init hs ds icu) g) (s : Side) (ch : Fin 3) (v : U16)
    (hv : (g.sent s ch).getLast? = some v) :
    ((g.apbp s).recvData ch).2 = v ∧ (g.apbp s).peekData ch = v ∧
    ∀ (t : Tid) (rest : List Frame) (g' : Global), g.stack t = Frame.call (Call.recv s ch) :: rest →
      step cb g t = some g' →
      g'.reads s ch = g.reads s ch ++ [v] ∧
      ((g.chan s ch).ready = true → g'.taken s ch = g.taken s ch ++ [v]) := by
  have h := chanInv_reachable hr s ch
  have hd : (g.chan s ch).data = v := by
    have := h.data_last
    simp only [view, hv, Option.getD_some] at this
    exact this
  refine ⟨hd, hd, fun t rest g' hst hstep => ?_⟩
  have hv' := step_view hst hstep s ch
  simp only [chanOpOf, and_self, if_true, ChanView.apply, view] at hv'
  have e1 : g'.reads s ch = g.reads s ch ++ [(g.chan s ch).data] := congrArg ChanView.reads hv'
  have e2 := congrArg ChanView.taken hv'
  simp only at e2
  refine ⟨by rw [e1, hd], fun hr' => ?_⟩
  rw [e2]; simp [hr', hd]

/-- The stack discipline behind "before the call returns": a step of thread `t` replaces `t`'s top frame by
the frames the action schedules and leaves everything below — the rest of the call in progress, then the
caller's next call — in place; it does not touch the other thread's stack.  So what an action pushes is
executed by that thread before anything below it. -/
theorem step_stacks {g' : Global} {t : Tid} {f : Frame} {rest : List Frame}
    (hst : g.stack t = f :: rest) (h : step cb g t = some g') :
    (∃ pushed, g'.stack t = pushed ++ rest) ∧ ∀ t', t' ≠ t → g'.stack t' = g.stack t' := by
  obtain ⟨pushed, e⟩ := step_stack hst h
  exact ⟨⟨pushed, by rw [e, upd_same]⟩, fun t' ht => by rw [e, upd_other _ _ _ _ ht]⟩

/-- A send that finds the channel's interrupt enabled (`disable_interrupt = 0`, read under the channel
mutex in the same critical section) makes the handler call the sending thread's very next action, with the
channel mutex already released; a send that finds it disabled schedules nothing. -/
theorem send_calls_handler {g' : Global} {t : Tid} {s : Side} {ch : Fin 3} {v : U16} {rest : List Frame}
    (hst : g.stack t = Frame.call (Call.send s ch v) :: rest) (h : step cb g t = some g') :
    ((g.apbp s).getDisableInterrupt ch = 0 →
        g'.stack t = Frame.dataHandler s ch :: rest ∧ g'.irqSends t s = g.irqSends t s + 1) ∧
    ((g.apbp s).getDisableInterrupt ch ≠ 0 → g'.stack t = rest ∧ g'.irqSends t s = g.irqSends t s) := by
  unfold step at h
  rw [hst] at h
  simp only [execFrame, execCall, Option.some.injEq] at h
  subst h
  constructor
  · intro hd
    have : (g.apbp s).dataChannels[(ch : Nat)].disableInterrupt = 0 := hd
    simp [Apbp.sendData, DataChannel.send, this]
  · intro hd
    have : ¬ (g.apbp s).dataChannels[(ch : Nat)].disableInterrupt = 0#16 := hd
    simp [Apbp.sendData, DataChannel.send, this]

private theorem trigger_apbpIrq (s : Icu) :
    s.trigger apbpIrq = ({ s with request := s.request ||| apbpIrq }, s.irqEvents 14) := by
  have h := (Icu.triggerSingle_routes s).1 14
  simp only [Icu.triggerSingle] at h
  rw [if_pos (by decide)] at h
  exact Except.ok.inj h

/-- The data handler of `apbp_from_cpu` (`icu.TriggerSingle(0xE)`): it takes the ICU mutex, latches request
bit 0xE, and schedules — before the mutex is released and before anything else this thread does — one
`SignalInterrupt(line)` store for **every** interrupt line whose enable mask routes request 0xE (and the
three stores of `SignalVectoredInterrupt` if 0xE is vectored). -/
theorem handler_triggers {g' : Global} {t : Tid} {ch : Fin 3} {rest : List Frame}
    (hst : g.stack t = Frame.dataHandler Side.cpu ch :: rest) (h : step cb g t = some g') :
    g'.icu.request = g.icu.request ||| apbpIrq ∧ g'.icu.getRequest.getLsbD 14 = true ∧
    g'.icuLock = some t ∧ g'.handlerRuns t Side.cpu = g.handlerRuns t Side.cpu + 1 ∧
    g'.stack t = (g.icu.irqEvents 14).flatMap eventFrames ++ Frame.icuRelease :: rest ∧
    ∀ line : Fin 3, g.icu.enabled[line].getLsbD 14 = true → Frame.latchSet line ∈ g'.stack t := by
  unfold step at h
  rw [hst] at h
  simp only [execFrame] at h
  unfold trigger at h
  split at h
  · cases h
  · cases h
    refine ⟨?_, ?_, rfl, ?_, ?_, fun line hl => ?_⟩
    · simp only [trigger_apbpIrq]
    · rw [trigger_apbpIrq]
      simp [Icu.getRequest, apbpIrq, Icu.singleBit]
    · simp
    · simp only [trigger_apbpIrq, upd_same]
    · simp only [trigger_apbpIrq, upd_same]
      have hm : IcuEvent.interrupt line ∈ g.icu.irqEvents 14 :=
        ((Icu.trigger_routes g.icu apbpIrq).2.1 14 line).2 hl
      apply List.mem_append_left
      exact List.mem_flatMap.2 ⟨_, hm, by simp [eventFrames]⟩

/-- `SignalInterrupt(i)`: the store sets the core's latch. -/
theorem latchSet_sets {g' : Global} {t : Tid} {i : Fin 3} {rest : List Frame}
    (hst : g.stack t = Frame.latchSet i :: rest) (h : step cb g t = some g') :
    g'.latch i = true ∧ g'.latched t = g.latched t + 1 ∧ g'.stack t = rest := by
  unfold step at h
  rw [hst] at h
  simp only [execFrame, Option.some.injEq] at h
  subst h
  simp

/-- **Every send with interrupts enabled is followed by the interrupt delivery, before the call returns.**
In every reachable state and for each thread: the number of sends that found `disable_interrupt = 0` equals
the number of handler calls made plus the handler frames still on that thread's stack, and the number of
`on_interrupt` calls `Trigger` scheduled equals the latch stores performed plus the latch frames still on the
stack.  With `send_calls_handler` (the handler frame is pushed on top), `handler_triggers` (it triggers IRQ
0xE and pushes a latch store for every routed line) and `step_stacks` (pushed frames run before what is below
them — the call's return), no send can return with its signal outstanding. -/
theorem send_signals (hr : Reachable cb (init hs ds icu) g) :
    (∀ t s, g.irqSends t s = g.handlerRuns t s + (g.stack t).countP (isDataHandler s)) ∧
    (∀ t, g.routed t = g.latched t + (g.stack t).countP isLatchSet) :=
  sigInv_reachable hr

/-- … in particular, whenever all of thread `t`'s started calls have returned (its stack holds only calls not
yet started — e.g. its script is finished), every one of its interrupt-enabled sends has had its handler
called and every line routed by those triggers has had its latch stored. -/
theorem send_signals_returned (hr : Reachable cb (init hs ds icu) g) (t : Tid)
    (hq : ∀ f ∈ g.stack t, ∃ c, f = Frame.call c) :
    (∀ s, g.irqSends t s = g.handlerRuns t s) ∧ g.routed t = g.latched t := by
  have h := sigInv_reachable hr
  have z : ∀ (p : Frame → Bool), (∀ c, p (Frame.call c) = false) → (g.stack t).countP p = 0 := by
    intro p hp
    rw [List.countP_eq_zero]
    intro f hf
    obtain ⟨c, rfl⟩ := hq f hf
    simp [hp]
  refine ⟨fun s => ?_, ?_⟩
  · rw [h.1 t s, z _ (fun _ => rfl)]; rfl
  · rw [h.2 t, z _ (fun _ => rfl)]; rfl

/-! ### the latch exchange -/

/-- No step of the schedule `ts` from `g` is an `exchange` on latch `i`. -/
def noExchange (cb : HostCallbacks) (i : Fin 3) : List Tid → Global → Prop
  | [], _ => True
  | t :: ts, g => (g.stack t).head? ≠ some (Frame.call (Call.exchange i)) ∧ noExchange cb i ts ((step cb g t).getD g)

/-- A latch that is set stays set under every action of either thread other than the exchange on it. -/
theorem latch_kept (i : Fin 3) (ts : List Tid) : ∀ (g : Global), g.latch i = true → noExchange cb i ts g →
    (run cb ts g).latch i = true := by
  induction ts with
  | nil => intro g h _; exact h
  | cons t ts ih =>
    intro g hl hn
    obtain ⟨hne, hn'⟩ := hn
    simp only [run]
    refine ih _ ?_ hn'
    cases hs' : step cb g t with
    | none => simpa using hl
    | some g' =>
      simp only [Option.getD_some]
      cases hst : g.stack t with
      | nil => simp [step, hst] at hs'
      | cons f rest =>
        have hv := congrArg LatchView.latch (step_lview hst hs' i)
        simp only [lview] at hv
        rw [hv]
        have hf : f ≠ Frame.call (Call.exchange i) := by
          intro e; apply hne; rw [hst, e]; rfl
        cases f with
        | call c =>
          cases c with
          | exchange j =>
            have : j ≠ i := fun e => hf (by rw [e])
            simp [latchOpOf, this, LatchView.apply, hl]
          | _ => simp [latchOpOf, LatchView.apply, hl]
        | latchSet j => simp only [latchOpOf]; split <;> simp [LatchView.apply, hl]
        | _ => simp [latchOpOf, LatchView.apply, hl]

/-- **A latch set by `SignalInterrupt` is observed by the next exchange, exactly once.**  If latch `i` is set,
then after any interleaving of actions that contains no exchange on `i`, the next `exchange` on `i` — the
latch block of the next `Run` iteration — returns true: it sets `ip[i]`, clears the latch and is counted as
one observation … -/
theorem latch_exchange_lossless (i : Fin 3) (hl : g.latch i = true) (ts : List Tid) (hno : noExchange cb i ts g)
    (t : Tid) (rest : List Frame) (g' : Global)
    (hst : (run cb ts g).stack t = Frame.call (Call.exchange i) :: rest)
    (h : step cb (run cb ts g) t = some g') :
    g'.ip i = true ∧ g'.latch i = false ∧ g'.observed i = (run cb ts g).observed i + 1 := by
  have hk := latch_kept (cb := cb) i ts g hl hno
  have hv := step_lview hst h i
  simp only [latchOpOf, if_true, LatchView.apply, lview, hk] at hv
  exact ⟨congrArg LatchView.ip hv, congrArg LatchView.latch hv, congrArg LatchView.observed hv⟩

/-- … an exchange on a latch that is not set observes nothing … -/
theorem exchange_idle {g' : Global} {t : Tid} {i : Fin 3} {rest : List Frame} (hl : g.latch i = false)
    (hst : g.stack t = Frame.call (Call.exchange i) :: rest) (h : step cb g t = some g') :
    g'.ip i = g.ip i ∧ g'.latch i = false ∧ g'.observed i = g.observed i := by
  have hv := step_lview hst h i
  simp only [latchOpOf, if_true, LatchView.apply, lview, hl, Bool.false_eq_true, if_false] at hv
  exact ⟨congrArg LatchView.ip hv, congrArg LatchView.latch hv, congrArg LatchView.observed hv⟩

/-- … and in every reachable state the observations made on a latch, plus one if it is currently set, never
exceed the `SignalInterrupt` stores made to it: no store is observed twice.  (Several stores before one
exchange are observed once: the latch is a level, as in the C++.) -/
theorem exchange_once (hr : Reachable cb (init hs ds icu) g) (i : Fin 3) :
    g.observed i + (if g.latch i then 1 else 0) ≤ g.latchSets i :=
  latchInv_reachable hr i

end

/-! ### the split semaphore actions compose to the sequential methods -/

/-- `SetSemaphore`'s first action (`semaphore |= bits`) followed by its last
(`semaphore_master_signal ||= new_signal`) is the sequential `Apbp::SetSemaphore` of `TeakraModel/Apbp.lean`
(validated against the C++ by the C14 correspondence), and the handler is called exactly when that model says. -/
theorem semSet_is_sequential (a : Apbp) (bits : U16) :
    ({ a with semaphore := a.semaphore ||| bits,
              semaphoreMasterSignal := a.semaphoreMasterSignal ||
                Apbp.signalOf (a.semaphore ||| bits) a.semaphoreMask } = (a.setSemaphore bits).1) ∧
    ((a.setSemaphore bits).2 = if Apbp.signalOf (a.semaphore ||| bits) a.semaphoreMask then [.semaphore] else []) :=
  ⟨rfl, rfl⟩

/-- The same for `MaskSemaphore` (the repaired version that is in `/repo`). -/
theorem semMask_is_sequential (a : Apbp) (bits : U16) :
    ({ a with semaphoreMask := bits, semaphoreMasterSignal := Apbp.signalOf a.semaphore bits } =
      (a.maskSemaphoreGen true bits).1) ∧
    ((a.maskSemaphoreGen true bits).2 =
      if Apbp.signalOf a.semaphore bits && !a.semaphoreMasterSignal then [.semaphore] else []) := by
  simp [Apbp.maskSemaphoreGen]

/-! ## non-vacuity: a concrete interleaving

Host: two sends on channel 0 (interrupt enabled), then a peek of the DSP's reply.  DSP: receive, latch block,
reply on channel 2 (whose host callback receives the reply and sends on channel 1 — a re-entrant host callback
running on the DSP thread), latch block, receive, latch block of line 2.  The ICU routes request 0xE to lines 0
and 2.  The schedule makes the DSP's re-entrant send reach `ICU::Trigger` while the host thread still holds the
ICU mutex inside its own `Trigger` (its turn is skipped: blocked), and completes both scripts. -/

def exCb : HostCallbacks := ⟨fun ch => [.recv .dsp ch, .send .cpu 1 0x11], [.semGet .dsp]⟩
def exIcu : Icu := { enabled := #v[0x4000, 0, 0x4000] }
def exHost : List Call := [.send .cpu 0 5, .send .cpu 0 7, .peek .dsp 2]
def exDsp : List Call := [.recv .cpu 0, .exchange 0, .send .dsp 2 9, .exchange 0, .recv .cpu 0, .exchange 2]
open Tid in
def exSched : List Tid :=
  [host, dsp, host, host, host, dsp, host, dsp, host, host, dsp, dsp, dsp, dsp, dsp, dsp, dsp, dsp, dsp, dsp,
   host, host, dsp, dsp, dsp, dsp, host, host, dsp, dsp, dsp, dsp, dsp, dsp, dsp, dsp, dsp, dsp]
def exG : Global := run exCb exSched (init exHost exDsp exIcu)

/-- Both scripts run to completion; both words sent are received in order with ready = 1; the reply is read by
the callback and by the host; three `Trigger`s stored line 0's latch three times, observed by two exchanges
(two stores coalesced); all three interrupt-enabled sends had their handlers called. -/
example :
    exG.stack .host = [] ∧ exG.stack .dsp = [] ∧
    exG.sent .cpu 0 = [5, 7] ∧ exG.taken .cpu 0 = [5, 7] ∧ exG.reads .dsp 2 = [9, 9] ∧ exG.sent .cpu 1 = [0x11] ∧
    exG.latchSets 0 = 3 ∧ exG.observed 0 = 2 ∧ exG.latch 0 = false ∧ exG.ip 2 = true ∧
    exG.irqSends .host .cpu = 2 ∧ exG.handlerRuns .host .cpu = 2 ∧ exG.irqSends .dsp .cpu = 1 ∧
    exG.handlerRuns .dsp .dsp = 1 ∧ exG.routed .host = 4 ∧ exG.latched .host = 4 ∧ exG.triggers = 3 := by
  decide

/-- Every state produced by running a schedule is reachable (so the theorems above apply to `exG`). -/
theorem run_reachable (cb : HostCallbacks) (g₀ : Global) (ts : List Tid) :
    ∀ g, Reachable cb g₀ g → Reachable cb g₀ (run cb ts g) := by
  induction ts with
  | nil => intro g h; exact h
  | cons t ts ih =>
    intro g h
    simp only [run]
    cases hs : step cb g t with
    | none => simpa using ih g h
    | some g' => simpa using ih g' (Reachable.step t h hs)

/-- The hypotheses of the reachability theorems are satisfiable by this non-trivial state. -/
example : Reachable exCb (init exHost exDsp exIcu) exG := run_reachable _ _ _ _ Reachable.init

/-- A thread is really blocked while the other holds the ICU mutex: after the host's send and the first action
of its handler (inside `Trigger`), an ICU access of the DSP thread cannot step; the host can. -/
example :
    let g := run exCb [.host, .host] (init [.send .cpu 0 5] [.icuGetRequest] exIcu)
    g.icuLock = some .host ∧ (step exCb g .dsp).isNone = true ∧ (step exCb g .host).isSome = true := by
  decide

/-- A word overwritten before it is received is skipped, not reordered: sends 1, 2, 3 with one receive after
the second and one after the third give `taken = [2, 3]`, a subsequence of `[1, 2, 3]`; a further receive
(ready = 0) returns the last word again and is not counted as taken. -/
example :
    let g := run ⟨fun _ => [], []⟩ [.host, .host, .host, .host, .dsp, .host, .host, .dsp, .dsp]
      (init [.send .dsp 0 1, .send .dsp 0 2, .send .dsp 0 3] [.recv .dsp 0, .recv .dsp 0, .recv .dsp 0])
    g.sent .dsp 0 = [1, 2, 3] ∧ g.reads .dsp 0 = [2, 3, 3] ∧ g.taken .dsp 0 = [2, 3] := by
  decide

end Teakra.Conc
