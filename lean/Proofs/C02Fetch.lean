import Proofs.C01
import Proofs.C02
import Proofs.C06Sys.Decode
import Proofs.C09.Book
/-!
# C02 — the fetch loop consumes a second word exactly when the decoder says so

"The interpreter consumes a second program word exactly when the disassembler reports that the
opcode needs one, and never executes that operand word as an instruction."

`Disassembler::NeedExpansion(w)` is `Decode<Disassembler>(w).NeedExpansion()`, i.e. the `expanded`
flag of the one table entry that matches `w` (`Decode.needExpansion` over the table regenerated from
`decoder.h`).  The interpreter model (`Teakra.cycle`, one iteration of `Interpreter::Run`) looks the
first word up in its own pre-computed decoder array.  Proved here:

* the two look-ups agree for every 16-bit word (`fetch_decode_agrees`) — the array entry is the table
  entry with the same index, and its `expanded` flag is `needExpansion w`;
* one loop iteration started on a word with `needExpansion w = false` reads ONE program word, leaves
  `pc` one past it before the loop bookkeeping, and hands the handler `extract w 0`
  (`cycle_consumes_one`);
* started on a word with `needExpansion w = true` it reads TWO program words — the second from the
  incremented `pc` — leaves `pc` two past the first, and hands the second word to the handler as its
  operand (`cycle_consumes_two`): the operand word reaches `dispatch` only inside `extract`, it is
  never looked up in the decoder array.
-/
namespace Teakra
open Exec Interp Sys

private theorem find_map_agree {α β σ : Type} (f : α → σ) (g : β → σ) (p : α → Bool) (q : β → Bool)
    (hpq : ∀ a b, f a = g b → p a = q b) :
    ∀ (l₁ : List α) (l₂ : List β), l₁.map f = l₂.map g → (l₁.find? p).map f = (l₂.find? q).map g
  | [], [], _ => rfl
  | [], _ :: _, h => by simp at h
  | _ :: _, [], h => by simp at h
  | a :: l₁, b :: l₂, h => by
    simp only [List.map_cons, List.cons.injEq] at h
    obtain ⟨hab, ht⟩ := h
    have hp := hpq a b hab
    rw [List.find?_cons, List.find?_cons, hp]
    cases q b with
    | true => simp [hab]
    | false => exact find_map_agree f g p q hpq l₁ l₂ ht

/-- The interpreter's look-up and the C02 decoder find entries with the same signature (same fixed
bits, mask, rejectors, expansion flag and operand fields) for every word. -/
theorem decodeInstr_sig (w : BitVec 16) :
    (decodeInstr w.toNat).map InstrPat.sig = (Decode.decode w).map Decode.Pat.sig := by
  unfold decodeInstr Decode.decode Decode.decodeIn
  exact find_map_agree InstrPat.sig Decode.Pat.sig _ _
    (fun a b h => by simpa [Decode.Pat.matches] using matchesWord_eq a b h w.toNat) _ _ instrTable_agrees

/-- **Interpreter and disassembler agree on the need for a second word**, for all 65536 first words. -/
theorem fetch_decode_agrees (w : BitVec 16) :
    (match decoderArray.getD w.toNat none with | some p => p.expanded | none => false)
      = Decode.needExpansion w := by
  rw [decoderArray_getD w.toNat w.isLt]
  have h := decodeInstr_sig w
  unfold Decode.needExpansion
  cases hi : decodeInstr w.toNat with
  | none =>
    rw [hi] at h
    cases hd : Decode.decode w with
    | none => rfl
    | some q => rw [hd] at h; simp at h
  | some p =>
    rw [hi] at h
    cases hd : Decode.decode w with
    | none => rw [hd] at h; simp at h
    | some q =>
      rw [hd] at h
      simp only [Option.map_some, Option.some.injEq, InstrPat.sig, Decode.Pat.sig, Prod.mk.injEq] at h
      exact h.2.2.1

/-- A defined word is found by both look-ups or by neither. -/
theorem fetch_defined_agrees (w : BitVec 16) :
    (decoderArray.getD w.toNat none).isSome = (Decode.decode w).isSome := by
  rw [decoderArray_getD w.toNat w.isLt]
  have h := congrArg Option.isSome (decodeInstr_sig w)
  simpa using h

/-- **One-word forms**: with `needExpansion w = false` the loop iteration reads one program word, the
bookkeeping starts from `pc + 1`, and the handler runs on `extract w 0`. -/
theorem cycle_consumes_one (c : Core) (w : U16) (accs : List Access) (p : InstrPat)
    (hread : c.bus.programRead (fetchAddress (latchAll c)) = .ok (w, accs))
    (hdec : decoderArray.getD w.toNat none = some p) (hne : Decode.needExpansion w = false) :
    cycle.run c =
      match loopBook (repBook (bumpPc (latchAll c))) with
      | .ok r' => StateT.run (do dispatch p.idx (p.extract w.toNat 0); interruptCheck : Exec Unit)
                    { latched c with regs := r', log := accs.reverse ++ c.log }
      | .error e => .error e := by
  have hexp : p.expanded = false := by
    have := fetch_decode_agrees w
    rw [hdec, hne] at this
    exact this
  exact cycle_one c w accs p hread hdec hexp

/-- **Two-word forms**: with `needExpansion w = true` the iteration reads the next program word as
well, the bookkeeping starts from `pc + 2`, and the second word is the handler's operand. -/
theorem cycle_consumes_two (c : Core) (w w2 : U16) (accs accs2 : List Access) (p : InstrPat)
    (hread : c.bus.programRead (fetchAddress (latchAll c)) = .ok (w, accs))
    (hdec : decoderArray.getD w.toNat none = some p) (hne : Decode.needExpansion w = true)
    (hread2 : c.bus.programRead (fetchAddress (bumpPc (latchAll c))) = .ok (w2, accs2)) :
    cycle.run c =
      match loopBook (repBook (bumpPc (bumpPc (latchAll c)))) with
      | .ok r' => StateT.run (do dispatch p.idx (p.extract w.toNat w2.toNat); interruptCheck : Exec Unit)
                    { latched c with regs := r', log := accs2.reverse ++ (accs.reverse ++ c.log) }
      | .error e => .error e := by
  have hexp : p.expanded = true := by
    have := fetch_decode_agrees w
    rw [hdec, hne] at this
    exact this
  exact cycle_two c w w2 accs accs2 p hread hdec hexp hread2

/-- `bumpPc` is the `pc++` of one fetch. -/
theorem bumpPc_pc (r : Regs) : (bumpPc r).pc = r.pc + 1 := rfl

/-- Non-vacuity: `nop` (0x0000) is a one-word form, 0x0001 a two-word one, and both are found by the
interpreter's look-up. -/
example : Decode.needExpansion 0x0000#16 = false := by decide +kernel
example : Decode.needExpansion 0x0001#16 = true := by decide +kernel
example : (decodeInstr 0x0001).isSome = true := by decide +kernel

end Teakra
