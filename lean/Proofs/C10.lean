import TeakraModel.Interp
/-! C10 — placeholder; theorems in progress. -/
