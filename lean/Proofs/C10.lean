import Proofs.C10.Basic
import Proofs.C10.Mod
import Proofs.C10.Wrap
import Proofs.C10.Cyclic
import Proofs.C10.Step
import Proofs.C10.Rn
import Proofs.C10.Lift
/-!
# C10 — address registers step linearly, modulo or bit-reversed exactly as configured

"With modulo disabled, an address register post-modified by a step changes by exactly that step
modulo 2^16 (or is zeroed, for r3/r7 in their end-pointer mode) while the access uses the
pre-modified value; with modulo enabled, stepping by +1 or -1 walks cyclically through the aligned
buffer [base, base+mod] and never alters address bits above the buffer's power-of-two alignment, in
both Teak and TeakLite-compatible modes.  With bit reversal enabled and modulo off, the memory
address is the 16-bit bit reversal of the register while the register itself steps linearly, and a
zero step never changes the register."

The theorems are about `Teakra.Interp.stepAmount / modStepNew / modStepLegacy / stepAddressPure /
rnAddress / rnAndModify` (`StepAddress`, `RnAddress`, `RnAndModify` of `src/interpreter.h`).  They
hold for every unit number, every 16-bit modulo value (the hardware register has 9 bits), every
16-bit address and both values of `cmd`.  The proofs live in `Proofs/C10/*.lean`:

| part of the property | theorems |
|---|---|
| `log2p1`, mask | `log2p1_spec`, `lowMask_toNat` (`Basic`) |
| zero step | `step_zero`, `step_zero_amount` (`Step`), `zero_step_unchanged`, `zero_step_endPointer` (`Rn`) |
| modulo disabled ⇒ linear | `step_linear`, `step_linear_increase/decrease/increase2/decrease2/plusStep`, `stepAmount_plusStep`, `signExtend16_toInt` (`Step`) |
| modulo ±1, one-step functions | `modStepNew_inc/dec`, `modStepLegacy_inc/dec` (`Wrap`), `legacyMask_one/neg_one` (`Mod`), `modStepNew_stays`, `modStepLegacy_stays`, `modStepNew_cyclic`, `modStepLegacy_cyclic` (`Lift`) |
| modulo ±1, `stepAddressPure` | `mod_inc`, `mod_dec`, `mod_stays_in_buffer`, `mod_cyclic`, `mod_cyclic_dec`, `mod_inc_dec_inverse` (`Lift`) |
| high bits | `modStepNew_high`, `modStepLegacy_high`, `step_high_bits` (every step kind, every address, mask actually used), `mod_high_bits`, `mod_high_bits_unit`, `highBitsAlways_partial`; the unrestricted statement `HighBitsAlways` is false: `not_highBitsAlways` |
| bit reversal | `bitReverse_involutive`, `bitReverse_getElem`, `rnAddress_brv`, `rnAddressAndModify_brv`, `rnAddressAndModify_plain` (`Rn`) |
| `RnAndModify` | `rnAndModify_run`, `rnNext_normal`, `rnNext_endPointer`, `setRn_frame`, `setRn_same`, `setRn_other` (`Rn`) |
-/
namespace Teakra.Interp

/-! ## non-vacuity: the hypotheses are met by concrete, non-trivial configurations -/

-- masks: the 9-bit hardware range, the 16-bit extreme and zero
example : log2p1 0x1FF = 9 ∧ log2p1 0x100 = 9 ∧ log2p1 0xFFFF = 16 ∧ log2p1 1 = 1 := by decide
example : lowMask 5 = 7 ∧ lowMask 0x1FF = 0x1FF ∧ lowMask 0xFFFF = 0xFFFF ∧ lowMask 0 = 0 := by decide

-- a buffer of 6 words at 0x1230: in-buffer addresses exist, and so do out-of-buffer ones
example : InBuf 5 0x1234 ∧ InBuf 5 0x1235 ∧ ¬ InBuf 5 0x1236 := by decide

/-- Teak mode, r0 with modulo on, `modi = 5`. -/
private def rTeak : Regs := { cmd := 0, modi := 5, m := #v[1, 0, 0, 0, 0, 0, 0, 0] }
/-- TeakLite mode, r5 with modulo on, `modj = 0x1FF`. -/
private def rLite : Regs := { cmd := 1, modj := 0x1FF, m := #v[0, 0, 0, 0, 0, 1, 0, 0] }

example : ModuloOn rTeak 0 false ∧ modOf rTeak 0 ≠ 0 ∧ InBuf (modOf rTeak 0) 0x1235 := by decide
example : ModuloOn rLite 5 false ∧ modOf rLite 5 ≠ 0 ∧ InBuf (modOf rLite 5) 0xABFF := by decide
-- the wrap really happens, in both modes and both directions
example : stepAddressPure rTeak 0 0x1235 .increase false = 0x1230 := by decide
example : stepAddressPure rTeak 0 0x1230 .decrease false = 0x1235 := by decide
example : stepAddressPure rTeak 0 0x1233 .increase false = 0x1234 := by decide
example : stepAddressPure rLite 5 0xABFF .increase false = 0xAA00 := by decide
example : stepAddressPure rLite 5 0xAA00 .decrease false = 0xABFF := by decide
-- the period theorem applies to it: 6 increments around the 6-word buffer
example : Nat.repeat (fun x => stepAddressPure rTeak 0 x .increase false) 6 0x1233 = 0x1233 :=
  mod_cyclic rTeak 0 0x1233 false (by decide) (by decide) (by decide)
-- `dmod` or an unset `m` bit switch the same configuration to linear stepping
example : ¬ ModuloOn rTeak 0 true ∧ ¬ ModuloOn rTeak 1 false := by decide
example : stepAddressPure rTeak 0 0x1235 .increase true = 0x1236 := by decide
example : stepAddressPure rTeak 1 0xFFFF .increase false = 0 := by decide

-- bit reversal
example : Alu.bitReverse 0x0001 = 0x8000 ∧ Alu.bitReverse 0x1234 = 0x2C48 := by decide
private def rBrv : Regs := { br := #v[0, 0, 1, 0, 0, 0, 0, 0], stepi0 := 0x0100, r := #v[0, 0, 0x0080, 0, 0, 0, 0, 0] }
example : brOf rBrv 2 ≠ 0 ∧ mOf rBrv 2 = 0 ∧ ¬ EndPointer rBrv 2 .plusStep := by decide
example : plusStepAmount rBrv 2 = 0x0100 := by decide

-- end-pointer mode: reachable, and it does change the register on a zero step
private def rEp : Regs := { epi := 1, r := #v[0, 0, 0, 5, 0, 0, 0, 0] }
example : EndPointer rEp 3 .zero ∧ EndPointer rEp 3 .plusStep ∧ ¬ EndPointer rEp 3 .increase2Mode1 ∧
    ¬ EndPointer rEp 2 .zero := by decide
example : rnNext rEp 3 .zero false = 0 ∧ rEp.r.toArray.getD 3 0 = 5 := by decide
example : rnNext rEp 3 .increase2Mode1 false = 7 := by decide

end Teakra.Interp
