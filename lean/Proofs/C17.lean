import TeakraModel.Sys
/-!
# C17 — behaviour depends only on the call history; Reset equals a fresh machine

The model is a pure function of the call history by construction; what has to be shown is that it has no
hidden parameter.  (1) Construction: the model's fresh machine is the closed term `{}` — every member of
the C++ classes has an initialiser (the member table scanned from the sources by `tools/scan_members.py`
on every run; the members that had none on the pinned tree are listed in `known_findings.json` as fixed).
(2) `Teakra::Reset`: the state after `reset` does not depend on the state before it, except for what
belongs to the host (external memory, the logs the harness keeps).  Hence every history after a Reset
observes exactly what it observes on a fresh-and-reset machine.
-/
namespace Teakra.Sys

/-- `Impl::Reset` forgets everything but the host's external memory. -/
private theorem channels_reset (v v' : Vector DataChannel 3) :
    v.map DataChannel.reset = v'.map DataChannel.reset := by
  apply Vector.ext
  intro i hi
  simp only [Vector.getElem_map]
  rfl

theorem bus_reset_independent (b b' : Bus) (h : b.ext = b'.ext) : b.reset = b'.reset := by
  unfold Bus.reset
  simp [h, Apbp.reset, Ahbm.reset, Dma.reset, channels_reset b.per.apbpFromCpu.dataChannels b'.per.apbpFromCpu.dataChannels,
    channels_reset b.per.apbpFromDsp.dataChannels b'.per.apbpFromDsp.dataChannels]

/-- **Reset forgets the past.**  Two machines with the same host-owned parts are equal after `Reset`,
whatever their registers, memory, MIU, ICU, timers, DMA, AHBM, mailboxes, audio ports, MMIO storage
words, interrupt latches and idle flag were. -/
theorem reset_independent (c c' : Core) (hx : c.bus.ext = c'.bus.ext) (hl : c.log = c'.log)
    (he : c.events = c'.events) : reset c = reset c' := by
  unfold reset
  rw [bus_reset_independent c.bus c'.bus hx, hl, he]

/-- **Reset equals fresh-and-reset.** -/
theorem reset_eq_fresh (c : Core) : reset c = reset (freshLike c) :=
  reset_independent c (freshLike c) rfl rfl rfl

/-- Every later observation — any function of the state after the Reset, in particular the outcome of any
further history of API calls — is the one made on a fresh-and-reset machine. -/
theorem history_after_reset {α : Type} (later : Core → α) (c : Core) :
    later (reset c) = later (reset (freshLike c)) := by
  rw [reset_eq_fresh]

/-- Resetting twice is resetting once. -/
theorem reset_idempotent (c : Core) : reset (reset c) = reset c :=
  reset_independent (reset c) c rfl rfl rfl

/-- Two fresh machines are the same machine: the constructor has no parameter left to the allocator. -/
theorem fresh_deterministic (c c' : Core) (hx : c.bus.ext = c'.bus.ext) (hl : c.log = c'.log)
    (he : c.events = c'.events) : freshLike c = freshLike c' := by
  unfold freshLike
  rw [hx, hl, he]

/-- **The upstream defect, as a witness.**  The pinned `Reset` kept the interrupt controller, the MMIO
storage words, the mailbox interrupt-disable flags and the interrupt latches: a machine that had request
0xA routed to line 0 and pending, a storage word written, a mailbox interrupt disabled and a latch set
still has all of that after the upstream `Reset`, and so differs from a fresh-and-reset machine. -/
theorem upstream_reset_keeps_icu :
    let dirty : Core :=
      { bus := { per := { icu := { request := 0x400, enabled := #v[0x400, 0, 0] },
                          store := (Vector.replicate mmioSize (0 : U16)).set 0x2C 0x1234,
                          apbpFromCpu := (({} : Apbp).setDisableInterrupt 0 1) } },
        ipend := #v[true, false, false] }
    (resetUpstream dirty).bus.per.icu.request = 0x400 ∧
    (resetUpstream dirty).bus.per.store[0x2C]'(by decide) = 0x1234 ∧
    (resetUpstream dirty).bus.per.apbpFromCpu.getDisableInterrupt 0 = 1 ∧
    (resetUpstream dirty).ipend = #v[true, false, false] ∧
    (reset dirty).bus.per.icu.request = 0 ∧ (reset dirty).bus.per.store[0x2C]'(by decide) = 0 ∧
    (reset dirty).bus.per.apbpFromCpu.getDisableInterrupt 0 = 0 ∧
    (reset dirty).ipend = Vector.replicate 3 false := by
  decide +kernel

/-- non-vacuity: the reset machine is the fresh machine's reset, concretely. -/
example : (reset ({} : Core)).regs = {} ∧ (reset ({} : Core)).bus.miu = {} := ⟨rfl, rfl⟩

end Teakra.Sys
