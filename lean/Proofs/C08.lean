import Proofs.Lemmas.Exec
import TeakraModel.Exec
/-!
# C08 — calls, returns, stack push/pop and context switches restore state exactly

Part 1 (this file so far): the bank exchanges and the context store/restore pair at the level of
the register file.
-/
namespace Teakra.Interp
open Teakra Exec ExecLemmas

private theorem vset_eq {n : Nat} (v : Vector U16 n) (i : Nat) (x : U16) (h : i < n) :
    vset v i x = v.set i x h := by simp [vset, h]

private theorem getD_eq {n : Nat} (v : Vector U16 n) (i : Nat) (h : i < n) :
    v.toArray.getD i 0 = v[i] := by simp [Array.getD, h]

private theorem restore2 {n : Nat} (v : Vector U16 n) (i j : Nat) (hi : i < n) (hj : j < n) (a b : U16) :
    ((((v.set i a hi).set j b hj).set i v[i] hi).set j v[j] hj) = v := by
  apply Vector.ext; intro k hk
  simp only [Vector.getElem_set]
  by_cases h1 : j = k <;> by_cases h0 : i = k <;> simp [h1, h0] <;> subst_vars <;> rfl

private theorem set_eta (ss : Vector ArShadow n) (i : Nat) (h : i < n) :
    ss.set i { rni := ss[i].rni, rnj := ss[i].rnj, stepi := ss[i].stepi, stepj := ss[i].stepj,
               offseti := ss[i].offseti, offsetj := ss[i].offsetj } h = ss := by
  apply Vector.ext; intro k hk
  simp only [Vector.getElem_set]
  split
  · subst_vars; rfl
  · rfl

/-- `ShadowSwapAr<i>::Swap` applied twice is the identity (two-way bank). -/
theorem swapAr_involutive (r : Regs) (i : Fin 2) : swapArPure (swapArPure r i) i = r := by
  unfold swapArPure
  simp only [vset_eq _ _ _ (show i.val * 2 < 4 by omega), vset_eq _ _ _ (show i.val * 2 + 1 < 4 by omega),
    getD_eq _ _ (show i.val * 2 < 4 by omega), getD_eq _ _ (show i.val * 2 + 1 < 4 by omega)]
  cases r
  simp [restore2, set_eta]

/-- `ShadowSwapArp<i>::Swap` applied twice is the identity. -/
theorem swapArp_involutive (r : Regs) (i : Fin 4) : swapArpPure (swapArpPure r i) i = r := by
  unfold swapArpPure
  cases r
  simp [set_eta]


/-- Swaps of different `arp` banks commute. -/
theorem swapArp_comm (r : Regs) (i j : Fin 4) (h : i ≠ j) :
    swapArpPure (swapArpPure r i) j = swapArpPure (swapArpPure r j) i := by
  have hne : i.val ≠ j.val := fun e => h (Fin.ext e)
  have hne' : j.val ≠ i.val := fun e => h (Fin.ext e.symm)
  unfold swapArpPure
  cases r
  simp only [Vector.getElem_set_ne _ _ hne, Vector.getElem_set_ne _ _ hne', Fin.getElem_fin]
  congr 1 <;> (apply Vector.ext; intro k hk; simp only [Vector.getElem_set, Fin.getElem_fin]
               repeat' split
               all_goals first | rfl | omega | (subst_vars; simp_all))


/-- Swaps of the two `ar` banks commute. -/
theorem swapAr_comm' (r : Regs) (i j : Fin 2) (h : i ≠ j) :
    swapArPure (swapArPure r i) j = swapArPure (swapArPure r j) i := by
  have hne : i.val ≠ j.val := fun e => h (Fin.ext e)
  have b0 : i.val * 2 < 4 := by omega
  have b1 : i.val * 2 + 1 < 4 := by omega
  have c0 : j.val * 2 < 4 := by omega
  have c1 : j.val * 2 + 1 < 4 := by omega
  unfold swapArPure
  simp only [vset_eq _ _ _ b0, vset_eq _ _ _ b1, vset_eq _ _ _ c0, vset_eq _ _ _ c1,
    getD_eq _ _ b0, getD_eq _ _ b1, getD_eq _ _ c0, getD_eq _ _ c1]
  cases r
  simp only [Vector.getElem_set_ne _ _ (show i.val * 2 ≠ j.val * 2 by omega),
    Vector.getElem_set_ne _ _ (show i.val * 2 + 1 ≠ j.val * 2 by omega),
    Vector.getElem_set_ne _ _ (show i.val * 2 ≠ j.val * 2 + 1 by omega),
    Vector.getElem_set_ne _ _ (show i.val * 2 + 1 ≠ j.val * 2 + 1 by omega),
    Vector.getElem_set_ne _ _ (show j.val * 2 ≠ i.val * 2 by omega),
    Vector.getElem_set_ne _ _ (show j.val * 2 + 1 ≠ i.val * 2 by omega),
    Vector.getElem_set_ne _ _ (show j.val * 2 ≠ i.val * 2 + 1 by omega),
    Vector.getElem_set_ne _ _ (show j.val * 2 + 1 ≠ i.val * 2 + 1 by omega),
    Vector.getElem_set_ne _ _ hne, Vector.getElem_set_ne _ _ (Ne.symm hne), Fin.getElem_fin]
  congr 1 <;> (apply Vector.ext; intro k hk; simp only [Vector.getElem_set, Fin.getElem_fin]
               repeat' split
               all_goals first | rfl | omega | (subst_vars; simp_all))

theorem swapAr_comm (r : Regs) : swapArPure (swapArPure r 1) 0 = swapArPure (swapArPure r 0) 1 :=
  swapAr_comm' r 1 0 (by decide)

/-- An `ar` bank swap and an `arp` bank swap commute (disjoint registers). -/
theorem swapAr_swapArp_comm (r : Regs) (i : Fin 2) (k : Fin 4) :
    swapArPure (swapArpPure r k) i = swapArpPure (swapArPure r i) k := by
  unfold swapArPure swapArpPure
  cases r
  rfl

/-- `RegisterState::SwapAllArArp` (the `bankr` instruction without operands) applied twice is the
identity. -/
theorem swapAllArArp_involutive (r : Regs) : swapAllArArpPure (swapAllArArpPure r) = r := by
  unfold swapAllArArpPure
  simp only [swapAr_swapArp_comm, swapAr_comm, swapAr_involutive,
    swapArp_comm _ 1 0 (by decide), swapArp_comm _ 2 0 (by decide), swapArp_comm _ 3 0 (by decide),
    swapArp_comm _ 2 1 (by decide), swapArp_comm _ 3 1 (by decide), swapArp_comm _ 3 2 (by decide),
    swapArp_involutive]


/-- `shadow_swap_registers.Swap` applied twice is the identity. -/
theorem shadowSwapRegisters_involutive (r : Regs) :
    shadowSwapRegistersPure (shadowSwapRegistersPure r) = r := by
  cases r; rfl

private theorem shadowSwapRegisters_swapAr (r : Regs) (i : Fin 2) :
    shadowSwapRegistersPure (swapArPure r i) = swapArPure (shadowSwapRegistersPure r) i := by
  cases r; rfl

private theorem shadowSwapRegisters_swapArp (r : Regs) (i : Fin 4) :
    shadowSwapRegistersPure (swapArpPure r i) = swapArpPure (shadowSwapRegistersPure r) i := by
  cases r; rfl

/-- **Two-way banks.**  `RegisterState::ShadowSwap` applied twice restores every swapped register
and every shadow: nothing is lost in a context switch followed by its inverse. -/
theorem shadowSwap_involutive (r : Regs) : shadowSwapPure (shadowSwapPure r) = r := by
  unfold shadowSwapPure
  have : ∀ x, shadowSwapRegistersPure (swapAllArArpPure x) = swapAllArArpPure (shadowSwapRegistersPure x) := by
    intro x
    unfold swapAllArArpPure
    simp only [shadowSwapRegisters_swapAr, shadowSwapRegisters_swapArp]
  rw [this, swapAllArArp_involutive, shadowSwapRegisters_involutive]

/-! ## context store / restore (`cntx s`, `cntx r`, interrupt entry with context switch, `reti`/`retic`) -/

/-- The part of the register file that `ShadowSwap` neither reads nor writes and that the context
store/restore pair works on: flags, their one-way shadows, `repc`/`repcs`, the accumulators and
their shadows, and the two control bits. -/
structure CtxPart where
  flm : U16
  fvl : U16
  fe : U16
  fc0 : U16
  fc1 : U16
  fv : U16
  fn : U16
  fm : U16
  fz : U16
  fr : U16
  sh_flm : U16
  sh_fvl : U16
  sh_fe : U16
  sh_fc0 : U16
  sh_fc1 : U16
  sh_fv : U16
  sh_fn : U16
  sh_fm : U16
  sh_fz : U16
  sh_fr : U16
  repc : U16
  repcs : U16
  a : Vector U64 2
  b : Vector U64 2
  a1s : U64
  b1s : U64
  crep : U16
  ccnta : U16

def getCtx (r : Regs) : CtxPart :=
  { flm := r.flm, fvl := r.fvl, fe := r.fe, fc0 := r.fc0, fc1 := r.fc1, fv := r.fv, fn := r.fn, fm := r.fm,
    fz := r.fz, fr := r.fr, sh_flm := r.sh_flm, sh_fvl := r.sh_fvl, sh_fe := r.sh_fe, sh_fc0 := r.sh_fc0,
    sh_fc1 := r.sh_fc1, sh_fv := r.sh_fv, sh_fn := r.sh_fn, sh_fm := r.sh_fm, sh_fz := r.sh_fz, sh_fr := r.sh_fr,
    repc := r.repc, repcs := r.repcs, a := r.a, b := r.b, a1s := r.a1s, b1s := r.b1s, crep := r.crep,
    ccnta := r.ccnta }

def setCtx (r : Regs) (n : CtxPart) : Regs :=
  { r with
    flm := n.flm, fvl := n.fvl, fe := n.fe, fc0 := n.fc0, fc1 := n.fc1, fv := n.fv, fn := n.fn, fm := n.fm,
    fz := n.fz, fr := n.fr, sh_flm := n.sh_flm, sh_fvl := n.sh_fvl, sh_fe := n.sh_fe, sh_fc0 := n.sh_fc0,
    sh_fc1 := n.sh_fc1, sh_fv := n.sh_fv, sh_fn := n.sh_fn, sh_fm := n.sh_fm, sh_fz := n.sh_fz, sh_fr := n.sh_fr,
    repc := n.repc, repcs := n.repcs, a := n.a, b := n.b, a1s := n.a1s, b1s := n.b1s, crep := n.crep,
    ccnta := n.ccnta }

/-- Apply a function to the context part, leaving the rest alone. -/
def ctxApply (g : CtxPart → CtxPart) (r : Regs) : Regs := setCtx r (g (getCtx r))

theorem setCtx_getCtx (r : Regs) : setCtx r (getCtx r) = r := by cases r; rfl
theorem setCtx_setCtx (r : Regs) (n m : CtxPart) : setCtx (setCtx r n) m = setCtx r m := by cases r; rfl
theorem getCtx_setCtx (r : Regs) (n : CtxPart) : getCtx (setCtx r n) = n := by cases n; rfl

theorem ctxApply_ctxApply (g h : CtxPart → CtxPart) (r : Regs) :
    ctxApply g (ctxApply h r) = ctxApply (g ∘ h) r := by
  unfold ctxApply; rw [getCtx_setCtx, setCtx_setCtx]; rfl

private theorem swapAr_setCtx (r : Regs) (n : CtxPart) (i : Fin 2) :
    swapArPure (setCtx r n) i = setCtx (swapArPure r i) n := by cases r; rfl
private theorem swapArp_setCtx (r : Regs) (n : CtxPart) (i : Fin 4) :
    swapArpPure (setCtx r n) i = setCtx (swapArpPure r i) n := by cases r; rfl
private theorem ssr_setCtx (r : Regs) (n : CtxPart) :
    shadowSwapRegistersPure (setCtx r n) = setCtx (shadowSwapRegistersPure r) n := by cases r; rfl
private theorem getCtx_swapAr (r : Regs) (i : Fin 2) : getCtx (swapArPure r i) = getCtx r := by cases r; rfl
private theorem getCtx_swapArp (r : Regs) (i : Fin 4) : getCtx (swapArpPure r i) = getCtx r := by cases r; rfl
private theorem getCtx_ssr (r : Regs) : getCtx (shadowSwapRegistersPure r) = getCtx r := by cases r; rfl

/-- `ShadowSwap` commutes with every update of the context part … -/
theorem shadowSwap_setCtx (r : Regs) (n : CtxPart) :
    shadowSwapPure (setCtx r n) = setCtx (shadowSwapPure r) n := by
  unfold shadowSwapPure swapAllArArpPure
  simp only [ssr_setCtx, swapAr_setCtx, swapArp_setCtx]

/-- … and never changes it. -/
theorem getCtx_shadowSwap (r : Regs) : getCtx (shadowSwapPure r) = getCtx r := by
  unfold shadowSwapPure swapAllArArpPure
  simp only [getCtx_swapAr, getCtx_swapArp, getCtx_ssr]

theorem shadowSwap_ctxApply (g : CtxPart → CtxPart) (r : Regs) :
    shadowSwapPure (ctxApply g r) = ctxApply g (shadowSwapPure r) := by
  unfold ctxApply; rw [shadowSwap_setCtx, getCtx_shadowSwap]

/-- `ShadowStore`: flags → one-way shadows. -/
def saveFlagsCtx (n : CtxPart) : CtxPart :=
  { n with
    sh_flm := n.flm, sh_fvl := n.fvl, sh_fe := n.fe, sh_fc0 := n.fc0, sh_fc1 := n.fc1,
    sh_fv := n.fv, sh_fn := n.fn, sh_fm := n.fm, sh_fz := n.fz, sh_fr := n.fr }

/-- `ShadowRestore`: one-way shadows → flags. -/
def loadFlagsCtx (n : CtxPart) : CtxPart :=
  { n with
    flm := n.sh_flm, fvl := n.sh_fvl, fe := n.sh_fe, fc0 := n.sh_fc0, fc1 := n.sh_fc1,
    fv := n.sh_fv, fn := n.sh_fn, fm := n.sh_fm, fz := n.sh_fz, fr := n.sh_fr }

/-- The part of `ContextStore` after `ShadowSwap`. -/
def storeTail (n : CtxPart) : CtxPart :=
  let n : CtxPart := if n.crep == 0 then { n with repcs := n.repc } else n
  if n.ccnta == 0 then { n with a1s := n.a[1], b1s := n.b[1] }
  else
    let f := Alu.accFlags n.b[1]
    { n with b := n.b.set 1 n.a[1], a := n.a.set 1 n.b[1], fz := f.fz, fm := f.fm, fe := f.fe, fn := f.fn }

/-- The part of `ContextRestore` after `ShadowSwap`. -/
def restoreTail (n : CtxPart) : CtxPart :=
  let n : CtxPart := if n.crep == 0 then { n with repc := n.repcs } else n
  if n.ccnta == 0 then { n with a := n.a.set 1 n.a1s, b := n.b.set 1 n.b1s }
  else { n with a := n.a.set 1 n.b[1], b := n.b.set 1 n.a[1] }

/-- `ContextStore` as a function on the register file. -/
def contextStorePure (r : Regs) : Regs :=
  ctxApply storeTail (shadowSwapPure (ctxApply saveFlagsCtx r))

/-- `ContextRestore` as a function on the register file. -/
def contextRestorePure (r : Regs) : Regs :=
  ctxApply restoreTail (shadowSwapPure (ctxApply loadFlagsCtx r))

private theorem ctxApply_saveFlags (r : Regs) : ctxApply saveFlagsCtx r =
    { r with
      sh_flm := r.flm, sh_fvl := r.fvl, sh_fe := r.fe, sh_fc0 := r.fc0, sh_fc1 := r.fc1,
      sh_fv := r.fv, sh_fn := r.fn, sh_fm := r.fm, sh_fz := r.fz, sh_fr := r.fr } := by cases r; rfl

private theorem ctxApply_loadFlags (r : Regs) : ctxApply loadFlagsCtx r =
    { r with
      flm := r.sh_flm, fvl := r.sh_fvl, fe := r.sh_fe, fc0 := r.sh_fc0, fc1 := r.sh_fc1,
      fv := r.sh_fv, fn := r.sh_fn, fm := r.sh_fm, fz := r.sh_fz, fr := r.sh_fr } := by cases r; rfl

/-- The monadic `contextStore` only touches the register file, as `contextStorePure`. -/
theorem contextStore_run (c : Core) :
    contextStore.run c = .ok ((), { c with regs := contextStorePure c.regs }) := by
  unfold contextStore contextStorePure shadowStore shadowSwap setAccAndFlag setAccFlag setAcc accIndex
  simp only [run_bind, run_modifyRegs, run_getRegs, except_ok_bind, run_ite, run_pure, ctxApply_saveFlags]
  generalize shadowSwapPure _ = r'
  unfold ctxApply storeTail
  by_cases h1 : r'.crep = 0 <;> by_cases h2 : r'.ccnta = 0 <;> simp_all [getCtx, setCtx]

/-- The monadic `contextRestore` only touches the register file, as `contextRestorePure`. -/
theorem contextRestore_run (c : Core) :
    contextRestore.run c = .ok ((), { c with regs := contextRestorePure c.regs }) := by
  unfold contextRestore contextRestorePure shadowRestore shadowSwap
  simp only [run_bind, run_modifyRegs, run_getRegs, except_ok_bind, run_ite, run_pure, ctxApply_loadFlags]
  generalize shadowSwapPure _ = r'
  unfold ctxApply restoreTail
  by_cases h1 : r'.crep = 0 <;> by_cases h2 : r'.ccnta = 0 <;> simp_all [getCtx, setCtx]

/-- What a context store followed by a context restore leaves in the context part: everything as it
was, except that the hidden one-way save slots have taken the saved values. -/
def savedSlots (n : CtxPart) : CtxPart :=
  { n with
    sh_flm := n.flm, sh_fvl := n.fvl, sh_fe := n.fe, sh_fc0 := n.fc0, sh_fc1 := n.fc1,
    sh_fv := n.fv, sh_fn := n.fn, sh_fm := n.fm, sh_fz := n.fz, sh_fr := n.fr,
    repcs := if n.crep == 0 then n.repc else n.repcs,
    a1s := if n.ccnta == 0 then n.a[1] else n.a1s,
    b1s := if n.ccnta == 0 then n.b[1] else n.b1s }

private theorem vec2_restore (a : Vector U64 2) (x : U64) : (a.set 1 x).set 1 a[1] = a := by
  apply Vector.ext; intro k hk
  simp only [Vector.getElem_set]
  split
  · subst_vars; rfl
  · rfl

private theorem ctx_roundtrip (n : CtxPart) :
    restoreTail (loadFlagsCtx (storeTail (saveFlagsCtx n))) = savedSlots n := by
  unfold restoreTail loadFlagsCtx storeTail saveFlagsCtx savedSlots
  by_cases h1 : n.crep = 0 <;> by_cases h2 : n.ccnta = 0 <;> cases n <;> simp_all [vec2_restore]

/-- **Context store followed by context restore** (explicit `cntx s; cntx r`, or interrupt entry
with context switch followed by `retic`/`reti` with restore) leaves every program-visible register
and every two-way bank as it was, for all four `(crep, ccnta)` settings; only the hidden one-way
save slots (`sh_*`, `repcs`, `a1s`, `b1s`) take the saved values. -/
theorem cntx_r_cntx_s (r : Regs) :
    contextRestorePure (contextStorePure r) = ctxApply savedSlots r := by
  unfold contextRestorePure contextStorePure
  simp only [shadowSwap_ctxApply, shadowSwap_involutive, ctxApply_ctxApply]
  unfold ctxApply
  congr 1
  exact ctx_roundtrip (getCtx r)

/-- … at the level of the monadic instruction handlers. -/
theorem cntx_r_cntx_s_run (c : Core) :
    (do contextStore; contextRestore : Exec Unit).run c =
      .ok ((), { c with regs := ctxApply savedSlots c.regs }) := by
  simp only [run_bind, contextStore_run, except_ok_bind, contextRestore_run, cntx_r_cntx_s]


/-! ## bank exchanges (`banke`, `bankr`) -/

private theorem vec8_swap_back (v : Vector U16 8) (i : Nat) (h : i < 8) (x : U16) :
    (v.set i x h).set i v[i] h = v := by
  apply Vector.ext; intro k hk
  simp only [Vector.getElem_set]
  split
  · subst_vars; rfl
  · rfl

open Teakra.Exec (bkI bkJ bkR4 bkR1 bkR0 bkR7)

/-- `banke` as a function on the register file (same order as the C++). -/
def bankePure (f : BankFlags) (r : Regs) : Regs :=
  let r := if f.cfgi then bkI r else r
  let r := if f.r4 then bkR4 r else r
  let r := if f.r1 then bkR1 r else r
  let r := if f.r0 then bkR0 r else r
  let r := if f.r7 then bkR7 r else r
  if f.cfgj then bkJ r else r

theorem banke_run (flags : Nat) (c : Core) :
    (Exec.banke_BankFlags flags).run c = .ok ((), { c with regs := bankePure (BankFlags.decode flags) c.regs }) := by
  unfold Exec.banke_BankFlags bankePure
  generalize BankFlags.decode flags = f
  cases f with | mk cfgi r4 r1 r0 r7 cfgj =>
  cases cfgi <;> cases r4 <;> cases r1 <;> cases r0 <;> cases r7 <;> cases cfgj <;> rfl

private theorem bkI_inv (r : Regs) : bkI (bkI r) = r := by
  unfold bkI; cases r; simp only []; split <;> simp_all
private theorem bkJ_inv (r : Regs) : bkJ (bkJ r) = r := by
  unfold bkJ; cases r; simp only []; split <;> simp_all
private theorem bkR4_inv (r : Regs) : bkR4 (bkR4 r) = r := by
  unfold bkR4; cases r; simp [vec8_swap_back]
private theorem bkR1_inv (r : Regs) : bkR1 (bkR1 r) = r := by
  unfold bkR1; cases r; simp [vec8_swap_back]
private theorem bkR0_inv (r : Regs) : bkR0 (bkR0 r) = r := by
  unfold bkR0; cases r; simp [vec8_swap_back]
private theorem bkR7_inv (r : Regs) : bkR7 (bkR7 r) = r := by
  unfold bkR7; cases r; simp [vec8_swap_back]

private theorem c_I_J (r : Regs) : bkJ (bkI r) = bkI (bkJ r) := by
  unfold bkI bkJ; cases r; simp only []; (repeat' split) <;> simp_all
private theorem c_I_R4 (r : Regs) : bkR4 (bkI r) = bkI (bkR4 r) := by
  unfold bkI bkR4; cases r; simp only []; (repeat' split) <;> simp_all
private theorem c_I_R1 (r : Regs) : bkR1 (bkI r) = bkI (bkR1 r) := by
  unfold bkI bkR1; cases r; simp only []; (repeat' split) <;> simp_all
private theorem c_I_R0 (r : Regs) : bkR0 (bkI r) = bkI (bkR0 r) := by
  unfold bkI bkR0; cases r; simp only []; (repeat' split) <;> simp_all
private theorem c_I_R7 (r : Regs) : bkR7 (bkI r) = bkI (bkR7 r) := by
  unfold bkI bkR7; cases r; simp only []; (repeat' split) <;> simp_all
private theorem c_R4_J (r : Regs) : bkJ (bkR4 r) = bkR4 (bkJ r) := by
  unfold bkJ bkR4; cases r; simp only []; (repeat' split) <;> simp_all
private theorem c_R1_J (r : Regs) : bkJ (bkR1 r) = bkR1 (bkJ r) := by
  unfold bkJ bkR1; cases r; simp only []; (repeat' split) <;> simp_all
private theorem c_R0_J (r : Regs) : bkJ (bkR0 r) = bkR0 (bkJ r) := by
  unfold bkJ bkR0; cases r; simp only []; (repeat' split) <;> simp_all
private theorem c_R7_J (r : Regs) : bkJ (bkR7 r) = bkR7 (bkJ r) := by
  unfold bkJ bkR7; cases r; simp only []; (repeat' split) <;> simp_all

private theorem rset_comm (v : Vector U16 8) (i j : Nat) (hi : i < 8) (hj : j < 8) (h : i ≠ j) (x y : U16) :
    (v.set i x hi).set j y hj = (v.set j y hj).set i x hi := by
  apply Vector.ext; intro k hk
  simp only [Vector.getElem_set]
  repeat' split
  all_goals first | rfl | omega

private theorem c_R4_R1 (r : Regs) : bkR1 (bkR4 r) = bkR4 (bkR1 r) := by
  unfold bkR4 bkR1; cases r
  simp [Vector.getElem_set, rset_comm _ 4 1 (by decide) (by decide) (by decide)]
private theorem c_R4_R0 (r : Regs) : bkR0 (bkR4 r) = bkR4 (bkR0 r) := by
  unfold bkR4 bkR0; cases r
  simp [Vector.getElem_set, rset_comm _ 4 0 (by decide) (by decide) (by decide)]
private theorem c_R4_R7 (r : Regs) : bkR7 (bkR4 r) = bkR4 (bkR7 r) := by
  unfold bkR4 bkR7; cases r
  simp [Vector.getElem_set, rset_comm _ 4 7 (by decide) (by decide) (by decide)]
private theorem c_R1_R0 (r : Regs) : bkR0 (bkR1 r) = bkR1 (bkR0 r) := by
  unfold bkR1 bkR0; cases r
  simp [Vector.getElem_set, rset_comm _ 1 0 (by decide) (by decide) (by decide)]
private theorem c_R1_R7 (r : Regs) : bkR7 (bkR1 r) = bkR1 (bkR7 r) := by
  unfold bkR1 bkR7; cases r
  simp [Vector.getElem_set, rset_comm _ 1 7 (by decide) (by decide) (by decide)]
private theorem c_R0_R7 (r : Regs) : bkR7 (bkR0 r) = bkR0 (bkR7 r) := by
  unfold bkR0 bkR7; cases r
  simp [Vector.getElem_set, rset_comm _ 0 7 (by decide) (by decide) (by decide)]

/-- **A bank exchange applied twice** leaves every register and every two-way bank as it was, for
every selection of banks. -/
theorem banke_involutive (f : BankFlags) (r : Regs) : bankePure f (bankePure f r) = r := by
  unfold bankePure
  cases f with | mk cfgi r4 r1 r0 r7 cfgj =>
  cases cfgi <;> cases r4 <;> cases r1 <;> cases r0 <;> cases r7 <;> cases cfgj <;>
    simp only [Bool.false_eq_true, if_false, if_true, c_I_J, c_I_R4, c_I_R1, c_I_R0, c_I_R7, c_R4_J, c_R1_J,
      c_R0_J, c_R7_J, c_R4_R1, c_R4_R0, c_R4_R7, c_R1_R0, c_R1_R7, c_R0_R7,
      bkI_inv, bkJ_inv, bkR4_inv, bkR1_inv, bkR0_inv, bkR7_inv]

/-- `bankr` without operands (all `ar`/`arp` banks) applied twice is the identity; likewise the
single-bank forms. -/
theorem bankr_involutive (c : Core) :
    (do Exec.bankr; Exec.bankr : Exec Unit).run c = .ok ((), c) := by
  unfold Exec.bankr
  simp only [run_bind, run_modifyRegs, except_ok_bind, swapAllArArp_involutive]

theorem bankr_Ar_involutive (a : Nat) (c : Core) :
    (do Exec.bankr_Ar a; Exec.bankr_Ar a : Exec Unit).run c = .ok ((), c) := by
  unfold Exec.bankr_Ar
  simp only [run_bind, run_modifyRegs, except_ok_bind, swapAr_involutive]

theorem bankr_Arp_involutive (a : Nat) (c : Core) :
    (do Exec.bankr_Arp a; Exec.bankr_Arp a : Exec Unit).run c = .ok ((), c) := by
  unfold Exec.bankr_Arp
  simp only [run_bind, run_modifyRegs, except_ok_bind, swapArp_involutive]

end Teakra.Interp
