import Proofs.Lemmas.Exec
/-!
# C08 — calls, returns, stack push/pop and context switches restore state exactly

Part 1 (this file so far): the bank exchanges and the context store/restore pair at the level of
the register file.
-/
namespace Teakra.Interp
open Teakra Exec ExecLemmas

private theorem vset_eq {n : Nat} (v : Vector U16 n) (i : Nat) (x : U16) (h : i < n) :
    vset v i x = v.set i x h := by simp [vset, h]

private theorem getD_eq {n : Nat} (v : Vector U16 n) (i : Nat) (h : i < n) :
    v.toArray.getD i 0 = v[i] := by simp [Array.getD, h]

private theorem restore2 {n : Nat} (v : Vector U16 n) (i j : Nat) (hi : i < n) (hj : j < n) (a b : U16) :
    ((((v.set i a hi).set j b hj).set i v[i] hi).set j v[j] hj) = v := by
  apply Vector.ext; intro k hk
  simp only [Vector.getElem_set]
  by_cases h1 : j = k <;> by_cases h0 : i = k <;> simp [h1, h0] <;> subst_vars <;> rfl

private theorem set_eta (ss : Vector ArShadow n) (i : Nat) (h : i < n) :
    ss.set i { rni := ss[i].rni, rnj := ss[i].rnj, stepi := ss[i].stepi, stepj := ss[i].stepj,
               offseti := ss[i].offseti, offsetj := ss[i].offsetj } h = ss := by
  apply Vector.ext; intro k hk
  simp only [Vector.getElem_set]
  split
  · subst_vars; rfl
  · rfl

/-- `ShadowSwapAr<i>::Swap` applied twice is the identity (two-way bank). -/
theorem swapAr_involutive (r : Regs) (i : Fin 2) : swapArPure (swapArPure r i) i = r := by
  unfold swapArPure
  simp only [vset_eq _ _ _ (show i.val * 2 < 4 by omega), vset_eq _ _ _ (show i.val * 2 + 1 < 4 by omega),
    getD_eq _ _ (show i.val * 2 < 4 by omega), getD_eq _ _ (show i.val * 2 + 1 < 4 by omega)]
  cases r
  simp [restore2, set_eta]

/-- `ShadowSwapArp<i>::Swap` applied twice is the identity. -/
theorem swapArp_involutive (r : Regs) (i : Fin 4) : swapArpPure (swapArpPure r i) i = r := by
  unfold swapArpPure
  cases r
  simp [set_eta]


/-- Swaps of different `arp` banks commute. -/
theorem swapArp_comm (r : Regs) (i j : Fin 4) (h : i ≠ j) :
    swapArpPure (swapArpPure r i) j = swapArpPure (swapArpPure r j) i := by
  have hne : i.val ≠ j.val := fun e => h (Fin.ext e)
  have hne' : j.val ≠ i.val := fun e => h (Fin.ext e.symm)
  unfold swapArpPure
  cases r
  simp only [Vector.getElem_set_ne _ _ hne, Vector.getElem_set_ne _ _ hne', Fin.getElem_fin]
  congr 1 <;> (apply Vector.ext; intro k hk; simp only [Vector.getElem_set, Fin.getElem_fin]
               repeat' split
               all_goals first | rfl | omega | (subst_vars; simp_all))


/-- Swaps of the two `ar` banks commute. -/
theorem swapAr_comm' (r : Regs) (i j : Fin 2) (h : i ≠ j) :
    swapArPure (swapArPure r i) j = swapArPure (swapArPure r j) i := by
  have hne : i.val ≠ j.val := fun e => h (Fin.ext e)
  have b0 : i.val * 2 < 4 := by omega
  have b1 : i.val * 2 + 1 < 4 := by omega
  have c0 : j.val * 2 < 4 := by omega
  have c1 : j.val * 2 + 1 < 4 := by omega
  unfold swapArPure
  simp only [vset_eq _ _ _ b0, vset_eq _ _ _ b1, vset_eq _ _ _ c0, vset_eq _ _ _ c1,
    getD_eq _ _ b0, getD_eq _ _ b1, getD_eq _ _ c0, getD_eq _ _ c1]
  cases r
  simp only [Vector.getElem_set_ne _ _ (show i.val * 2 ≠ j.val * 2 by omega),
    Vector.getElem_set_ne _ _ (show i.val * 2 + 1 ≠ j.val * 2 by omega),
    Vector.getElem_set_ne _ _ (show i.val * 2 ≠ j.val * 2 + 1 by omega),
    Vector.getElem_set_ne _ _ (show i.val * 2 + 1 ≠ j.val * 2 + 1 by omega),
    Vector.getElem_set_ne _ _ (show j.val * 2 ≠ i.val * 2 by omega),
    Vector.getElem_set_ne _ _ (show j.val * 2 + 1 ≠ i.val * 2 by omega),
    Vector.getElem_set_ne _ _ (show j.val * 2 ≠ i.val * 2 + 1 by omega),
    Vector.getElem_set_ne _ _ (show j.val * 2 + 1 ≠ i.val * 2 + 1 by omega),
    Vector.getElem_set_ne _ _ hne, Vector.getElem_set_ne _ _ (Ne.symm hne), Fin.getElem_fin]
  congr 1 <;> (apply Vector.ext; intro k hk; simp only [Vector.getElem_set, Fin.getElem_fin]
               repeat' split
               all_goals first | rfl | omega | (subst_vars; simp_all))

theorem swapAr_comm (r : Regs) : swapArPure (swapArPure r 1) 0 = swapArPure (swapArPure r 0) 1 :=
  swapAr_comm' r 1 0 (by decide)

/-- An `ar` bank swap and an `arp` bank swap commute (disjoint registers). -/
theorem swapAr_swapArp_comm (r : Regs) (i : Fin 2) (k : Fin 4) :
    swapArPure (swapArpPure r k) i = swapArpPure (swapArPure r i) k := by
  unfold swapArPure swapArpPure
  cases r
  rfl

/-- `RegisterState::SwapAllArArp` (the `bankr` instruction without operands) applied twice is the
identity. -/
theorem swapAllArArp_involutive (r : Regs) : swapAllArArpPure (swapAllArArpPure r) = r := by
  unfold swapAllArArpPure
  simp only [swapAr_swapArp_comm, swapAr_comm, swapAr_involutive,
    swapArp_comm _ 1 0 (by decide), swapArp_comm _ 2 0 (by decide), swapArp_comm _ 3 0 (by decide),
    swapArp_comm _ 2 1 (by decide), swapArp_comm _ 3 1 (by decide), swapArp_comm _ 3 2 (by decide),
    swapArp_involutive]


/-- `shadow_swap_registers.Swap` applied twice is the identity. -/
theorem shadowSwapRegisters_involutive (r : Regs) :
    shadowSwapRegistersPure (shadowSwapRegistersPure r) = r := by
  cases r; rfl

private theorem shadowSwapRegisters_swapAr (r : Regs) (i : Fin 2) :
    shadowSwapRegistersPure (swapArPure r i) = swapArPure (shadowSwapRegistersPure r) i := by
  cases r; rfl

private theorem shadowSwapRegisters_swapArp (r : Regs) (i : Fin 4) :
    shadowSwapRegistersPure (swapArpPure r i) = swapArpPure (shadowSwapRegistersPure r) i := by
  cases r; rfl

/-- **Two-way banks.**  `RegisterState::ShadowSwap` applied twice restores every swapped register
and every shadow: nothing is lost in a context switch followed by its inverse. -/
theorem shadowSwap_involutive (r : Regs) : shadowSwapPure (shadowSwapPure r) = r := by
  unfold shadowSwapPure
  have : ∀ x, shadowSwapRegistersPure (swapAllArArpPure x) = swapAllArArpPure (shadowSwapRegistersPure x) := by
    intro x
    unfold swapAllArArpPure
    simp only [shadowSwapRegisters_swapAr, shadowSwapRegisters_swapArp]
  rw [this, swapAllArArp_involutive, shadowSwapRegisters_involutive]

/-! ## context store / restore (`cntx s`, `cntx r`, interrupt entry with context switch, `reti`/`retic`) -/

/-- `RegisterState::ShadowStore` -/
def saveFlags (r : Regs) : Regs :=
  { r with
    sh_flm := r.flm, sh_fvl := r.fvl, sh_fe := r.fe, sh_fc0 := r.fc0, sh_fc1 := r.fc1,
    sh_fv := r.fv, sh_fn := r.fn, sh_fm := r.fm, sh_fz := r.fz, sh_fr := r.fr }

/-- `RegisterState::ShadowRestore` -/
def loadFlags (r : Regs) : Regs :=
  { r with
    flm := r.sh_flm, fvl := r.sh_fvl, fe := r.sh_fe, fc0 := r.sh_fc0, fc1 := r.sh_fc1,
    fv := r.sh_fv, fn := r.sh_fn, fm := r.sh_fm, fz := r.sh_fz, fr := r.sh_fr }

/-- `ContextStore` as a function on the register file. -/
def contextStorePure (r : Regs) : Regs :=
  let r := saveFlags r
  let r := shadowSwapPure r
  let r := if r.crep == 0 then { r with repcs := r.repc } else r
  if r.ccnta == 0 then { r with a1s := r.a[1], b1s := r.b[1] }
  else
    let f := Alu.accFlags r.b[1]
    { r with b := r.b.set 1 r.a[1], a := r.a.set 1 r.b[1], fz := f.fz, fm := f.fm, fe := f.fe, fn := f.fn }

/-- `ContextRestore` as a function on the register file. -/
def contextRestorePure (r : Regs) : Regs :=
  let r := loadFlags r
  let r := shadowSwapPure r
  let r := if r.crep == 0 then { r with repc := r.repcs } else r
  if r.ccnta == 0 then { r with a := r.a.set 1 r.a1s, b := r.b.set 1 r.b1s }
  else { r with a := r.a.set 1 r.b[1], b := r.b.set 1 r.a[1] }

/-- The monadic `contextStore` only touches the register file, as `contextStorePure`. -/
theorem contextStore_run (c : Core) :
    contextStore.run c = .ok ((), { c with regs := contextStorePure c.regs }) := by
  unfold contextStore contextStorePure saveFlags shadowStore shadowSwap setAccAndFlag setAccFlag setAcc accIndex
  simp only [run_bind, run_modifyRegs, run_getRegs, except_ok_bind, run_ite, run_pure]
  generalize shadowSwapPure _ = r'
  by_cases h1 : r'.crep = 0 <;> by_cases h2 : r'.ccnta = 0 <;> simp_all


/-- The monadic `contextRestore` only touches the register file, as `contextRestorePure`. -/
theorem contextRestore_run (c : Core) :
    contextRestore.run c = .ok ((), { c with regs := contextRestorePure c.regs }) := by
  unfold contextRestore contextRestorePure loadFlags shadowRestore shadowSwap
  simp only [run_bind, run_modifyRegs, run_getRegs, except_ok_bind, run_ite, run_pure]
  generalize shadowSwapPure _ = r'
  by_cases h1 : r'.crep = 0 <;> by_cases h2 : r'.ccnta = 0 <;> simp_all

/-- The part of the register file that `ShadowSwap` neither reads nor writes and that the context
store/restore pair works on: flags, their one-way shadows, `repc`/`repcs`, the accumulators and
their shadows, and the two control bits. -/
structure CtxPart where
  flm : U16
  fvl : U16
  fe : U16
  fc0 : U16
  fc1 : U16
  fv : U16
  fn : U16
  fm : U16
  fz : U16
  fr : U16
  sh_flm : U16
  sh_fvl : U16
  sh_fe : U16
  sh_fc0 : U16
  sh_fc1 : U16
  sh_fv : U16
  sh_fn : U16
  sh_fm : U16
  sh_fz : U16
  sh_fr : U16
  repc : U16
  repcs : U16
  a : Vector U64 2
  b : Vector U64 2
  a1s : U64
  b1s : U64
  crep : U16
  ccnta : U16

def getCtx (r : Regs) : CtxPart :=
  { flm := r.flm, fvl := r.fvl, fe := r.fe, fc0 := r.fc0, fc1 := r.fc1, fv := r.fv, fn := r.fn, fm := r.fm,
    fz := r.fz, fr := r.fr, sh_flm := r.sh_flm, sh_fvl := r.sh_fvl, sh_fe := r.sh_fe, sh_fc0 := r.sh_fc0,
    sh_fc1 := r.sh_fc1, sh_fv := r.sh_fv, sh_fn := r.sh_fn, sh_fm := r.sh_fm, sh_fz := r.sh_fz, sh_fr := r.sh_fr,
    repc := r.repc, repcs := r.repcs, a := r.a, b := r.b, a1s := r.a1s, b1s := r.b1s, crep := r.crep,
    ccnta := r.ccnta }

def setCtx (r : Regs) (n : CtxPart) : Regs :=
  { r with
    flm := n.flm, fvl := n.fvl, fe := n.fe, fc0 := n.fc0, fc1 := n.fc1, fv := n.fv, fn := n.fn, fm := n.fm,
    fz := n.fz, fr := n.fr, sh_flm := n.sh_flm, sh_fvl := n.sh_fvl, sh_fe := n.sh_fe, sh_fc0 := n.sh_fc0,
    sh_fc1 := n.sh_fc1, sh_fv := n.sh_fv, sh_fn := n.sh_fn, sh_fm := n.sh_fm, sh_fz := n.sh_fz, sh_fr := n.sh_fr,
    repc := n.repc, repcs := n.repcs, a := n.a, b := n.b, a1s := n.a1s, b1s := n.b1s, crep := n.crep,
    ccnta := n.ccnta }

private theorem setCtx_getCtx (r : Regs) : setCtx r (getCtx r) = r := by cases r; rfl
private theorem setCtx_setCtx (r : Regs) (n m : CtxPart) : setCtx (setCtx r n) m = setCtx r m := by cases r; rfl
private theorem getCtx_setCtx (r : Regs) (n : CtxPart) : getCtx (setCtx r n) = n := by cases n; rfl

private theorem swapAr_setCtx (r : Regs) (n : CtxPart) (i : Fin 2) :
    swapArPure (setCtx r n) i = setCtx (swapArPure r i) n := by cases r; rfl
private theorem swapArp_setCtx (r : Regs) (n : CtxPart) (i : Fin 4) :
    swapArpPure (setCtx r n) i = setCtx (swapArpPure r i) n := by cases r; rfl
private theorem ssr_setCtx (r : Regs) (n : CtxPart) :
    shadowSwapRegistersPure (setCtx r n) = setCtx (shadowSwapRegistersPure r) n := by cases r; rfl

/-- `ShadowSwap` commutes with every update of the context part … -/
theorem shadowSwap_setCtx (r : Regs) (n : CtxPart) :
    shadowSwapPure (setCtx r n) = setCtx (shadowSwapPure r) n := by
  unfold shadowSwapPure swapAllArArpPure
  simp only [ssr_setCtx, swapAr_setCtx, swapArp_setCtx]

private theorem getCtx_swapAr (r : Regs) (i : Fin 2) : getCtx (swapArPure r i) = getCtx r := by cases r; rfl
private theorem getCtx_swapArp (r : Regs) (i : Fin 4) : getCtx (swapArpPure r i) = getCtx r := by cases r; rfl
private theorem getCtx_ssr (r : Regs) : getCtx (shadowSwapRegistersPure r) = getCtx r := by cases r; rfl

/-- … and never changes it. -/
theorem getCtx_shadowSwap (r : Regs) : getCtx (shadowSwapPure r) = getCtx r := by
  unfold shadowSwapPure swapAllArArpPure
  simp only [getCtx_swapAr, getCtx_swapArp, getCtx_ssr]

/-- the context-part view of `ShadowStore` / `ShadowRestore` -/
def saveFlagsCtx (n : CtxPart) : CtxPart :=
  { n with
    sh_flm := n.flm, sh_fvl := n.fvl, sh_fe := n.fe, sh_fc0 := n.fc0, sh_fc1 := n.fc1,
    sh_fv := n.fv, sh_fn := n.fn, sh_fm := n.fm, sh_fz := n.fz, sh_fr := n.fr }
def loadFlagsCtx (n : CtxPart) : CtxPart :=
  { n with
    flm := n.sh_flm, fvl := n.sh_fvl, fe := n.sh_fe, fc0 := n.sh_fc0, fc1 := n.sh_fc1,
    fv := n.sh_fv, fn := n.sh_fn, fm := n.sh_fm, fz := n.sh_fz, fr := n.sh_fr }

/-- What `ContextStore` does to the context part. -/
def storeCtx (n : CtxPart) : CtxPart :=
  let n : CtxPart := saveFlagsCtx n
  let n : CtxPart := if n.crep == 0 then { n with repcs := n.repc } else n
  if n.ccnta == 0 then { n with a1s := n.a[1], b1s := n.b[1] }
  else
    let f := Alu.accFlags n.b[1]
    { n with b := n.b.set 1 n.a[1], a := n.a.set 1 n.b[1], fz := f.fz, fm := f.fm, fe := f.fe, fn := f.fn }

/-- What `ContextRestore` does to the context part. -/
def restoreCtx (n : CtxPart) : CtxPart :=
  let n : CtxPart := loadFlagsCtx n
  let n : CtxPart := if n.crep == 0 then { n with repc := n.repcs } else n
  if n.ccnta == 0 then { n with a := n.a.set 1 n.a1s, b := n.b.set 1 n.b1s }
  else { n with a := n.a.set 1 n.b[1], b := n.b.set 1 n.a[1] }

private theorem setCtx_congr (r : Regs) (n : CtxPart) (r' : Regs) (h1 : getCtx r' = n)
    (h2 : setCtx r' (getCtx r) = r) : r' = setCtx r n := by
  rw [← h1, ← h2, setCtx_setCtx, setCtx_getCtx]

private theorem saveFlags_eq (x : Regs) : saveFlags x = setCtx x (saveFlagsCtx (getCtx x)) := by cases x; rfl
private theorem loadFlags_eq (x : Regs) : loadFlags x = setCtx x (loadFlagsCtx (getCtx x)) := by cases x; rfl

theorem contextStorePure_eq (r : Regs) :
    contextStorePure r = setCtx (shadowSwapPure r) (storeCtx (getCtx r)) := by
  unfold contextStorePure
  simp only []
  rw [saveFlags_eq, shadowSwap_setCtx]
  generalize shadowSwapPure r = q
  have e1 : ∀ n, (setCtx q n).crep = n.crep := fun _ => rfl
  have e2 : ∀ n, (setCtx q n).ccnta = n.ccnta := fun _ => rfl
  unfold storeCtx
  generalize saveFlagsCtx (getCtx r) = n
  by_cases hc : n.crep = 0 <;> by_cases ha : n.ccnta = 0
  all_goals (
    have hc' := hc; have ha' := ha
    simp only [e1, e2, hc, ha, beq_self_eq_true, if_true]
    try simp only [show (n.crep == 0) = false from by simpa using hc', show (n.ccnta == 0) = false from by simpa using ha']
    cases q; cases n; rfl)

theorem contextRestorePure_eq (r : Regs) :
    contextRestorePure r = setCtx (shadowSwapPure r) (restoreCtx (getCtx r)) := by
  unfold contextRestorePure
  simp only []
  rw [loadFlags_eq, shadowSwap_setCtx]
  generalize shadowSwapPure r = q
  have e1 : ∀ n, (setCtx q n).crep = n.crep := fun _ => rfl
  have e2 : ∀ n, (setCtx q n).ccnta = n.ccnta := fun _ => rfl
  unfold restoreCtx
  generalize loadFlagsCtx (getCtx r) = n
  by_cases hc : n.crep = 0 <;> by_cases ha : n.ccnta = 0
  all_goals (
    have hc' := hc; have ha' := ha
    simp only [e1, e2, hc, ha, beq_self_eq_true, if_true]
    try simp only [show (n.crep == 0) = false from by simpa using hc', show (n.ccnta == 0) = false from by simpa using ha']
    cases q; cases n; rfl)

end Teakra.Interp
