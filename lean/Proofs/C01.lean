import TeakraModel.Run
import TeakraModel.Decode
/-!
# C01 — instruction effects match the reference semantics

The reference is `Teakra.cycle` over the handler transcriptions (`TeakraModel/Exec/*.lean`); that the
implementation equals it is the instruction-level correspondence.  What is proved here is the
glue that the correspondence relies on:

* the decode table the interpreter model dispatches on (`instrTable`, emitted by
  `tools/gen_dispatch.py`) and the audited table of C02 (`Decode.table`, emitted by
  `tools/translate_decode.py`) — two independent translations of `decoder.h` — describe the same
  patterns in the same order (same fixed bits, masks, rejectors, expansion flags and operand
  fields), re-proved whenever `decoder.h` changes;
* hence the model fetches a second word exactly when the C02 table says the opcode is expanded,
  and what a handler receives are exactly the operand values C02's theorems speak about.
-/
namespace Teakra

abbrev PatSig := Nat × Nat × Bool × List (Nat × Nat) × List (Nat × Nat)

/-- The part of a pattern that decides matching and operand extraction. -/
def InstrPat.sig (p : InstrPat) : PatSig :=
  (p.expected, p.mask, p.expanded, p.rejectors, p.fields)

def Decode.Pat.sig (p : Decode.Pat) : PatSig :=
  (p.expected, p.mask, p.expanded, p.rejectors,
   (p.operands.filter fun o => o.kind == "At" || o.kind == "AtNamed").map fun o =>
     (o.pos, if o.pos == 16 then 16 else o.bits))

/-- **One decode table.**  The dispatcher's table and the C02 table agree entry by entry. -/
theorem instrTable_agrees : instrTable.map InstrPat.sig = Decode.table.map Decode.Pat.sig := by
  have : (instrTable.map InstrPat.sig == Decode.table.map Decode.Pat.sig) = true := by decide +kernel
  exact eq_of_beq this

/-- Same number of entries, same order: the dispatcher index is the C02 table index. -/
theorem instrTable_length : instrTable.length = Decode.table.length := by
  have := congrArg List.length instrTable_agrees
  simpa using this

/-- Matching is decided by the signature. -/
theorem matchesWord_eq (p : InstrPat) (q : Decode.Pat) (h : p.sig = q.sig) (n : Nat) :
    p.matchesWord n = q.matchesN n := by
  simp only [InstrPat.sig, Decode.Pat.sig, Prod.mk.injEq] at h
  obtain ⟨he, hm, _, hr, _⟩ := h
  unfold InstrPat.matchesWord Decode.Pat.matchesN Decode.rejects
  rw [he, hm, hr]
  rfl

end Teakra
