import TeakraModel.Run
/-! C01 — placeholder module; theorems are added as the handler model is completed. -/
