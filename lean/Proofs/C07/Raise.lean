import Proofs.C07Icu
import Proofs.C07.Push
/-!
# C07 (composition) — from `icu.TriggerSingle(irq)` to the core latches

`Periph.raise p irq` is the model of one `icu.TriggerSingle(irq)` made by a peripheral (timer
0xA/0x9, APBP 0xE, BTDMP 0xB, DMA 0xF — `TeakraModel/Periph.lean`) or by software through the
MMIO trigger register; its callbacks reach the core through `Core.emit`
(`Processor::SignalInterrupt` / `SignalVectoredInterrupt`).
-/
namespace Teakra
open Teakra Icu

private theorem finRange3' : List.finRange 3 = [0, 1, 2] := by decide
private theorem singleBit_self : ∀ q : Fin 16, (singleBit q).getLsbD q = true := by decide

/-- `raise` for a request line `q < 16`: bit `q` of `request` is set, and the callbacks are the
callbacks of that line. -/
theorem raise_eq (p : Periph) (q : Fin 16) :
    p.raise q =
      ({ p with icu := { p.icu with request := p.icu.request ||| singleBit q } },
       (p.icu.irqEvents q).map PEvent.ofIcu) := by
  have h := (triggerSingle_routes p.icu).1 q
  unfold triggerSingle at h
  rw [if_pos (by omega)] at h
  injection h with h
  unfold Periph.raise
  rw [h]

/-- The callbacks of one request line as a function of the four routing bits. -/
def lineEvents (e0 e1 e2 ev : Bool) (addr : U32) (ctx : Bool) : List PEvent :=
  (if e0 then [PEvent.irq 0] else []) ++ (if e1 then [PEvent.irq 1] else []) ++
  (if e2 then [PEvent.irq 2] else []) ++ (if ev then [PEvent.virq addr ctx] else [])

theorem irqEvents_eq (s : Icu) (q : Fin 16) :
    (s.irqEvents q).map PEvent.ofIcu =
      lineEvents (s.enabled[(0 : Fin 3)].getLsbD q) (s.enabled[(1 : Fin 3)].getLsbD q)
        (s.enabled[(2 : Fin 3)].getLsbD q) (s.vectoredEnabled.getLsbD q)
        (s.vectorHigh[q] ++ s.vectorLow[q]) (s.vectorContextSwitch[q] != 0) := by
  unfold irqEvents lineEvents
  rw [finRange3', ← getVector_eq]
  simp only [List.filter]
  generalize s.enabled[(0 : Fin 3)].getLsbD q = e0
  generalize s.enabled[(1 : Fin 3)].getLsbD q = e1
  generalize s.enabled[(2 : Fin 3)].getLsbD q = e2
  generalize s.vectoredEnabled.getLsbD q = ev
  cases e0 <;> cases e1 <;> cases e2 <;> cases ev <;> rfl

/-- Bit `i` of a triple. -/
def pick3 (e0 e1 e2 : Bool) (i : Fin 3) : Bool :=
  match i with | 0 => e0 | 1 => e1 | 2 => e2

theorem emit_lineEvents_ipend (c : Core) (e0 e1 e2 ev : Bool) (addr : U32) (ctx : Bool) (i : Fin 3) :
    (c.emit (lineEvents e0 e1 e2 ev addr ctx)).ipend[i] = (c.ipend[i] || pick3 e0 e1 e2 i) := by
  have : i = 0 ∨ i = 1 ∨ i = 2 := by omega
  rcases this with rfl | rfl | rfl <;>
    cases e0 <;> cases e1 <;> cases e2 <;> cases ev <;>
    simp [Core.emit, Core.signal, lineEvents, pick3]

theorem emit_lineEvents_vec (c : Core) (e0 e1 e2 ev : Bool) (addr : U32) (ctx : Bool) :
    (c.emit (lineEvents e0 e1 e2 ev addr ctx)).vpend = (c.vpend || ev) ∧
    (c.emit (lineEvents e0 e1 e2 ev addr ctx)).vaddr = (if ev then addr else c.vaddr) ∧
    (c.emit (lineEvents e0 e1 e2 ev addr ctx)).vctx = (if ev then ctx else c.vctx) := by
  cases e0 <;> cases e1 <;> cases e2 <;> cases ev <;>
    simp [Core.emit, Core.signal, lineEvents]


theorem pick3_enabled (s : Icu) (q : Fin 16) (l : Fin 3) :
    pick3 (s.enabled[(0 : Fin 3)].getLsbD q) (s.enabled[(1 : Fin 3)].getLsbD q)
      (s.enabled[(2 : Fin 3)].getLsbD q) l = s.enabled[l].getLsbD q := by
  have : l = 0 ∨ l = 1 ∨ l = 2 := by omega
  rcases this with rfl | rfl | rfl <;> rfl

/-- **From a raised IRQ to the core latches.**  For a request line `irq < 16`, one
`icu.TriggerSingle(irq)` (`Periph.raise`) followed by the delivery of its callbacks to the core
(`Core.emit`):

1. sets request bit `irq` in the controller and changes nothing else in the peripherals;
2. sets `interrupt_pending[l]` exactly for the lines `l < 3` whose enable mask contains `irq`
   (latches of the other lines keep their previous value);
3. sets the vectored latch iff the vectored enable contains `irq`, and then
   `vinterrupt_address = vector_high[irq] : vector_low[irq]`,
   `vinterrupt_context_switch = (vector_context_switch[irq] != 0)`; otherwise the vectored
   latch, address and flag keep their values;
4. touches neither the registers (in particular not `ip`/`ipv`: those only change in the latch
   phase, `latched_spec`), nor the bus, the access log or `idle`. -/
theorem raise_reaches_core (p : Periph) (irq : Nat) (hirq : irq < 16) (c : Core) :
    (p.raise irq).1 = { p with icu := { p.icu with request := p.icu.request ||| singleBit irq } } ∧
    (p.raise irq).1.icu.request.getLsbD irq = true ∧
    (∀ l : Fin 3, (c.emit (p.raise irq).2).ipend[l] =
        (c.ipend[l] || p.icu.enabled[l].getLsbD irq)) ∧
    (c.emit (p.raise irq).2).vpend = (c.vpend || p.icu.vectoredEnabled.getLsbD irq) ∧
    (p.icu.vectoredEnabled.getLsbD irq = true →
        (c.emit (p.raise irq).2).vaddr =
          p.icu.vectorHigh[(⟨irq, hirq⟩ : Fin 16)] ++ p.icu.vectorLow[(⟨irq, hirq⟩ : Fin 16)] ∧
        (c.emit (p.raise irq).2).vctx = (p.icu.vectorContextSwitch[(⟨irq, hirq⟩ : Fin 16)] != 0)) ∧
    (p.icu.vectoredEnabled.getLsbD irq = false →
        (c.emit (p.raise irq).2).vaddr = c.vaddr ∧ (c.emit (p.raise irq).2).vctx = c.vctx) ∧
    (c.emit (p.raise irq).2).regs = c.regs ∧ (c.emit (p.raise irq).2).bus = c.bus ∧
    (c.emit (p.raise irq).2).log = c.log ∧ (c.emit (p.raise irq).2).idle = c.idle := by
  have hr := raise_eq p ⟨irq, hirq⟩
  simp only [] at hr
  rw [hr, irqEvents_eq]
  obtain ⟨f1, f2, f3, f4, _⟩ := emit_frame c
    (lineEvents (p.icu.enabled[(0 : Fin 3)].getLsbD irq) (p.icu.enabled[(1 : Fin 3)].getLsbD irq)
      (p.icu.enabled[(2 : Fin 3)].getLsbD irq) (p.icu.vectoredEnabled.getLsbD irq)
      (p.icu.vectorHigh[(⟨irq, hirq⟩ : Fin 16)] ++ p.icu.vectorLow[(⟨irq, hirq⟩ : Fin 16)])
      (p.icu.vectorContextSwitch[(⟨irq, hirq⟩ : Fin 16)] != 0))
  obtain ⟨v1, v2, v3⟩ := emit_lineEvents_vec c
    (p.icu.enabled[(0 : Fin 3)].getLsbD irq) (p.icu.enabled[(1 : Fin 3)].getLsbD irq)
      (p.icu.enabled[(2 : Fin 3)].getLsbD irq) (p.icu.vectoredEnabled.getLsbD irq)
      (p.icu.vectorHigh[(⟨irq, hirq⟩ : Fin 16)] ++ p.icu.vectorLow[(⟨irq, hirq⟩ : Fin 16)])
      (p.icu.vectorContextSwitch[(⟨irq, hirq⟩ : Fin 16)] != 0)
  refine ⟨rfl, ?_, fun l => ?_, v1, fun hv => ?_, fun hv => ?_, f1, f2, f3, f4⟩
  · show (p.icu.request ||| singleBit irq).getLsbD irq = true
    rw [BitVec.getLsbD_or, singleBit_self ⟨irq, hirq⟩, Bool.or_true]
  · rw [emit_lineEvents_ipend]
    exact congrArg (c.ipend[l] || ·) (pick3_enabled p.icu ⟨irq, hirq⟩ l)
  · rw [v2, v3, hv]; exact ⟨rfl, rfl⟩
  · rw [v2, v3, hv]; exact ⟨rfl, rfl⟩

/-- **Unrouted requests never reach the core.**  If no interrupt line and not the vectored
interrupt has `irq` enabled, raising it makes no callback and leaves the core exactly as it was —
no latch is set, so (`latched_spec`, `no_spurious`) no `ip` bit and no entry can result — while
the request bit is still recorded in the controller. -/
theorem unrouted_never_latches (p : Periph) (irq : Nat) (hirq : irq < 16) (c : Core)
    (hl : ∀ l : Fin 3, p.icu.enabled[l].getLsbD irq = false)
    (hv : p.icu.vectoredEnabled.getLsbD irq = false) :
    (p.raise irq).2 = [] ∧ c.emit (p.raise irq).2 = c ∧
    (p.raise irq).1.icu.request.getLsbD irq = true := by
  have hr := raise_eq p ⟨irq, hirq⟩
  simp only [] at hr
  have he : p.icu.irqEvents ⟨irq, hirq⟩ = [] :=
    ((unrouted_never p.icu).1 ⟨irq, hirq⟩ hl hv).1
  have h2 : (p.raise irq).2 = [] := by rw [hr, he]; rfl
  refine ⟨h2, by rw [h2]; rfl, (raise_reaches_core p irq hirq c).2.1⟩

/-- **The request stays pending until acknowledged** (composition with `Icu.pending_sticky` and
`Icu.ack_exact`): after a raise, bit `irq` of the controller's request register survives every
sequence of controller operations that contains no acknowledge naming `irq` — including further
triggers, routing changes and acknowledges of other bits — and an acknowledge clears exactly the
bits it names. -/
theorem raised_stays_pending (p : Periph) (irq : Nat) (hirq : irq < 16) :
    (∀ ops : List Icu.Op, (∀ op ∈ ops, op.acks irq = false) →
      (Icu.run ops (p.raise irq).1.icu).request.getLsbD irq = true) ∧
    (∀ b : U16, ((p.raise irq).1.icu.acknowledge b).request = (p.raise irq).1.icu.request &&& ~~~b) ∧
    (∀ b : U16, ((p.raise irq).1.icu.acknowledge b).getRequest.getLsbD irq = !b.getLsbD irq) := by
  have hset : (p.raise irq).1.icu.request.getLsbD irq = true :=
    (raise_reaches_core p irq hirq default).2.1
  refine ⟨fun ops h => (pending_sticky irq).2.1 ops _ hset h, fun b => (ack_exact _ b).1, fun b => ?_⟩
  rw [(ack_exact _ b).2.2 irq hirq]
  show ((p.raise irq).1.icu.request.getLsbD irq && !b.getLsbD irq) = _
  rw [hset, Bool.true_and]
end Teakra
