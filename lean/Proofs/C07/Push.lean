import Proofs.C07.Latch
/-!
# C07 (core part 2) — `PushPC` and `mem.DataWrite` seen from the core

`Core.emit` (callbacks of a bus access) touches only the interrupt latches and the event log;
`mem.DataWrite` touches only the bus, the access log and — through `emit` — the latches;
`PushPC` is two such writes at `sp-1`, `sp-2` plus `sp -= 2`.
-/
namespace Teakra
open Teakra Exec ExecLemmas Interp Sys

/-! ## `Core.emit` only touches the latches and the event log -/

theorem signal_setRegs (c : Core) (r : Regs) (e : PEvent) :
    ({ c with regs := r } : Core).signal e = { c.signal e with regs := r } := by
  cases e with
  | irq i => by_cases h : i < 3 <;> simp [Core.signal, h]
  | _ => rfl

theorem foldl_signal_setRegs (evs : List PEvent) (c : Core) (r : Regs) :
    evs.foldl Core.signal ({ c with regs := r } : Core) = { evs.foldl Core.signal c with regs := r } := by
  induction evs generalizing c with
  | nil => rfl
  | cons e evs ih => rw [List.foldl_cons, List.foldl_cons, signal_setRegs, ih]

theorem emit_setRegs (c : Core) (r : Regs) (evs : List PEvent) :
    ({ c with regs := r } : Core).emit evs = { c.emit evs with regs := r } := by
  unfold Core.emit
  simp only [foldl_signal_setRegs]

/-- The fields `Core.signal` leaves alone. -/
theorem signal_frame (c : Core) (e : PEvent) :
    (c.signal e).regs = c.regs ∧ (c.signal e).bus = c.bus ∧ (c.signal e).log = c.log ∧
    (c.signal e).idle = c.idle ∧ (c.signal e).events = c.events := by
  cases e with
  | irq i => by_cases h : i < 3 <;> simp [Core.signal, h]
  | _ => exact ⟨rfl, rfl, rfl, rfl, rfl⟩

theorem foldl_signal_frame (evs : List PEvent) (c : Core) :
    (evs.foldl Core.signal c).regs = c.regs ∧ (evs.foldl Core.signal c).bus = c.bus ∧
    (evs.foldl Core.signal c).log = c.log ∧ (evs.foldl Core.signal c).idle = c.idle ∧
    (evs.foldl Core.signal c).events = c.events := by
  induction evs generalizing c with
  | nil => exact ⟨rfl, rfl, rfl, rfl, rfl⟩
  | cons e evs ih =>
    rw [List.foldl_cons]
    obtain ⟨h1, h2, h3, h4, h5⟩ := ih (c.signal e)
    obtain ⟨g1, g2, g3, g4, g5⟩ := signal_frame c e
    exact ⟨h1.trans g1, h2.trans g2, h3.trans g3, h4.trans g4, h5.trans g5⟩

theorem emit_frame (c : Core) (evs : List PEvent) :
    (c.emit evs).regs = c.regs ∧ (c.emit evs).bus = c.bus ∧ (c.emit evs).log = c.log ∧
    (c.emit evs).idle = c.idle ∧ (c.emit evs).events = evs.reverse ++ c.events := by
  obtain ⟨h1, h2, h3, h4, h5⟩ := foldl_signal_frame evs c
  unfold Core.emit
  exact ⟨h1, h2, h3, h4, congrArg (evs.reverse ++ ·) h5⟩

theorem emit_nil (c : Core) : c.emit [] = c := rfl

/-! ## `mem.DataWrite` seen from the core -/

/-- Everything `mem.DataWrite(a, v)` does: the bus access (memory word or MMIO register, with the
callbacks it triggers) — the register file is not involved. -/
def Core.busWrite (c : Core) (a v : U16) : Except Stop Core :=
  match c.bus.dataWrite a v false with
  | .ok (bus, evs, accs) => .ok (({ c with bus := bus, log := accs.reverse ++ c.log } : Core).emit evs)
  | .error e => .error (.abort e)

theorem dataWrite_run (a v : U16) (c : Core) :
    (dataWrite a v).run c = (c.busWrite a v >>= fun c' => .ok ((), c')) := by
  unfold dataWrite Core.busWrite
  rw [run_bind, run_get, except_ok_bind, fst_mk, snd_mk]
  cases c.bus.dataWrite a v false with
  | error e => rfl
  | ok r => rfl

theorem busWrite_setRegs (c : Core) (r : Regs) (a v : U16) :
    ({ c with regs := r } : Core).busWrite a v =
      (c.busWrite a v >>= fun c' => .ok { c' with regs := r }) := by
  unfold Core.busWrite
  show (match c.bus.dataWrite a v false with | .ok (bus, evs, accs) => _ | .error e => _) = _
  cases c.bus.dataWrite a v false with
  | error e => rfl
  | ok x =>
    obtain ⟨bus, evs, accs⟩ := x
    show Except.ok (({ ({ c with bus := bus, log := accs.reverse ++ c.log } : Core) with regs := r } : Core).emit evs) = _
    rw [emit_setRegs]; rfl

theorem busWrite_frame (c c' : Core) (a v : U16) (h : c.busWrite a v = .ok c') :
    c'.regs = c.regs ∧ c'.idle = c.idle := by
  unfold Core.busWrite at h
  cases hd : c.bus.dataWrite a v false with
  | error e => rw [hd] at h; cases h
  | ok x =>
    obtain ⟨bus, evs, accs⟩ := x
    rw [hd] at h
    injection h with h
    subst h
    obtain ⟨h1, _, _, h4, _⟩ := emit_frame ({ c with bus := bus, log := accs.reverse ++ c.log } : Core) evs
    exact ⟨h1, h4⟩

/-! ## `PushPC` -/

/-- The two words `PushPC` pushes, in push order: with `cpc = 1` the high half first (so the low
half ends up on top of the stack), otherwise the low half first. -/
def pcWords (r : Regs) : U16 × U16 :=
  if r.cpc == 1 then ((r.pc >>> 16).setWidth 16, (r.pc &&& 0xFFFF).setWidth 16)
  else ((r.pc &&& 0xFFFF).setWidth 16, (r.pc >>> 16).setWidth 16)

theorem pushWord_run (v : U16) (c : Core) :
    (pushWord v).run c =
      (dataWrite (c.regs.sp - 1) v).run { c with regs := { c.regs with sp := c.regs.sp - 1 } } := by
  unfold pushWord
  rw [run_bind, run_modifyRegs, except_ok_bind, snd_mk, run_bind, run_getRegs, except_ok_bind]

/-- **`PushPC`, closed form**: two `pushWord`s of the halves of `pc` in the order selected by
`cpc`. -/
theorem pushPC_spec (c : Core) :
    pushPC.run c = (do pushWord (pcWords c.regs).1; pushWord (pcWords c.regs).2 : Exec Unit).run c := by
  unfold pushPC pcWords
  rw [run_bind, run_getRegs, except_ok_bind, fst_mk, snd_mk]
  split <;> rfl

theorem sub_one_sub_one (x : U16) : x - 1 - 1 = x - 2 := by bv_omega

/-- `pushWord` on a state given as `{ c with regs := r }`: one bus write below `sp`, `sp -= 1`. -/
theorem pushWord_on (c : Core) (r : Regs) (v : U16) :
    (pushWord v).run { c with regs := r } =
      (c.busWrite (r.sp - 1) v >>= fun c' => .ok ((), { c' with regs := { r with sp := r.sp - 1 } })) := by
  rw [pushWord_run, dataWrite_run]
  show (({ c with regs := { r with sp := r.sp - 1 } } : Core).busWrite (r.sp - 1) v >>= _) = _
  rw [busWrite_setRegs]
  cases c.busWrite (r.sp - 1) v with
  | error e => rfl
  | ok c' => rfl

/-- **`PushPC`, bus level**: `mem.DataWrite(sp-1, w₁)`, `mem.DataWrite(sp-2, w₂)` and `sp -= 2`;
no other register changes. -/
theorem pushPC_run (c : Core) :
    pushPC.run c =
      (do let c1 ← c.busWrite (c.regs.sp - 1) (pcWords c.regs).1
          let c2 ← c1.busWrite (c.regs.sp - 2) (pcWords c.regs).2
          .ok ((), { c2 with regs := { c.regs with sp := c.regs.sp - 2 } })) := by
  rw [pushPC_spec, run_bind]
  have h := pushWord_on c c.regs (pcWords c.regs).1
  rw [show ({ c with regs := c.regs } : Core) = c from rfl] at h
  rw [h]
  cases c.busWrite (c.regs.sp - 1) (pcWords c.regs).1 with
  | error e => rfl
  | ok c1 =>
    simp only [except_ok_bind]
    rw [pushWord_on]
    show (c1.busWrite (c.regs.sp - 1 - 1) _ >>= fun c' =>
      Except.ok ((), ({ c' with regs := { c.regs with sp := c.regs.sp - 1 - 1 } } : Core))) = _
    rw [sub_one_sub_one]

/-! ## stack in ordinary data memory -/

/-- `a` is ordinary data memory on this bus: outside the MMIO window, the page registers pass the
`ASSERT`s of `ConvertDataAddress` (result `conv`), and the converted word is inside the shared
memory array. -/
structure OrdinaryAt (b : Bus) (a : U16) (conv : U32) : Prop where
  notMmio : b.miu.inMmioWindow a = false
  convert : b.miu.convert a = .ok conv
  inRange : Mem.inRange conv = true

/-- A write to ordinary memory: one word of the shared memory changes, one access is logged, no
callback runs. -/
theorem busWrite_ordinary (c : Core) (a v : U16) (conv : U32) (h : OrdinaryAt c.bus a conv) :
    c.busWrite a v =
      .ok { c with bus := { c.bus with mem := c.bus.mem.write (Mem.byteAddr conv / 2) v }
                   log := ⟨Mem.byteAddr conv, true, v⟩ :: c.log } := by
  unfold Core.busWrite Bus.dataWrite Mem.writeWord
  simp only [h.notMmio, h.convert, h.inRange, Bool.false_and, Bool.false_eq_true, if_false, if_true]
  rfl

/-- Writing ordinary memory does not move the MMIO window or the page registers. -/
theorem OrdinaryAt.after_write {b : Bus} {a : U16} {conv : U32} (h : OrdinaryAt b a conv) (m : Mem) :
    OrdinaryAt { b with mem := m } a conv := ⟨h.notMmio, h.convert, h.inRange⟩

/-- `pushPC` on a state given as `{ c with regs := r }`. -/
theorem pushPC_on (c : Core) (r : Regs) :
    pushPC.run { c with regs := r } =
      (do let c1 ← c.busWrite (r.sp - 1) (pcWords r).1
          let c2 ← c1.busWrite (r.sp - 2) (pcWords r).2
          .ok ((), { c2 with regs := { r with sp := r.sp - 2 } })) := by
  rw [pushPC_run]
  show (({ c with regs := r } : Core).busWrite (r.sp - 1) (pcWords r).1 >>= _) = _
  rw [busWrite_setRegs]
  cases c.busWrite (r.sp - 1) (pcWords r).1 with
  | error e => rfl
  | ok c1 =>
    simp only [except_ok_bind]
    rw [busWrite_setRegs]
    cases c1.busWrite (r.sp - 2) (pcWords r).2 with
    | error e => rfl
    | ok c2 => rfl

/-- The halves pushed by `PushPC` are the halves of `pc`: low word on top of the stack when
`cpc = 1`, high word on top otherwise. -/
theorem pcWords_cpc (r : Regs) :
    (r.cpc = 1 → pcWords r = ((r.pc >>> 16).setWidth 16, (r.pc &&& 0xFFFF).setWidth 16)) ∧
    (r.cpc ≠ 1 → pcWords r = ((r.pc &&& 0xFFFF).setWidth 16, (r.pc >>> 16).setWidth 16)) := by
  unfold pcWords
  constructor
  · intro h; rw [if_pos (by rw [h]; rfl)]
  · intro h; rw [if_neg (by simpa using h)]

private theorem low16_set : ∀ j : Fin 16, (65535#32 : BitVec 32)[j.val]'(by omega) = true := by decide

/-- The two halves determine `pc` (what `PopPC` reassembles). -/
theorem pc_of_halves (pc : U32) :
    (((pc &&& 0xFFFF).setWidth 16 : U16).setWidth 32 : U32) |||
      ((((pc >>> 16).setWidth 16 : U16).setWidth 32 : U32) <<< 16) = pc := by
  apply BitVec.eq_of_getLsbD_eq
  intro i hi
  simp only [BitVec.getLsbD_or, BitVec.getLsbD_setWidth, BitVec.getLsbD_and, BitVec.getLsbD_shiftLeft,
    BitVec.getLsbD_ushiftRight]
  by_cases h : i < 16
  · simp [h, hi]
    intro _
    exact low16_set ⟨i, h⟩
  · have e : 16 + (i - 16) = i := by omega
    simp [h, hi]
    rw [e]
    simp [show i - 16 < 32 by omega, show i - 16 < 16 by omega, BitVec.getLsbD_eq_getElem hi]

end Teakra
