import Proofs.C07.Entry
/-!
# C07 (core part 4) — where the interrupt block sits in the loop body

`cycle = latch phase ; execPhase ; interruptCheck`.  The decoder lookup is kept as an opaque
argument (`restK dec …`) so that the kernel never evaluates the 65536-entry decoder array.
-/
namespace Teakra
open Teakra Exec ExecLemmas Interp Sys

/-- The loop body after the first fetch, with the decoder entry `dec` of the fetched word and the
final statement `k` abstracted: expansion fetch, `rep` / block-repeat bookkeeping, instruction
handler, then `k`. -/
def restK (dec : Option InstrPat) (opcode : U16) (k : Exec Unit) : Exec Unit := do
  let expanded := match dec with | some p => p.expanded | none => false
  let expansion ← if expanded then programRead (← fetchAddr) else pure 0
  let r ← getRegs
  if r.rep then
    if r.repc == 0 then modifyRegs fun r => { r with rep := false }
    else modifyRegs fun r => { r with repc := r.repc - 1, pc := r.pc - 1 }
  let r ← getRegs
  if r.lp != 0 then
    let i := r.bcn.toNat - 1
    if r.bcn == 0 || i ≥ 4 then abort .oob
    let f := r.bkrep.toArray.getD i {}
    if f.end_ + 1 == r.pc then
      if f.lc == 0 then
        modifyRegs fun r => { r with bcn := r.bcn - 1, lp := Alu.b2u (r.bcn - 1 != 0) }
      else
        modifyRegs fun r =>
          { r with bkrep := (if h : i < 4 then r.bkrep.set i { f with lc := f.lc - 1 } else r.bkrep),
                   pc := f.start }
  match dec with
  | none => unreachable
  | some p => dispatch p.idx (p.extract opcode.toNat expansion.toNat)
  k

theorem mainPhase_eq_restK :
    mainPhase = (do
      let opcode ← programRead (← fetchAddr)
      restK (decoderArray.getD opcode.toNat none) opcode interruptCheck) := rfl

theorem ite_bind' {α β : Type} (b : Prop) [Decidable b] (x y : Exec α) (f : α → Exec β) :
    (if b then x else y) >>= f = if b then x >>= f else y >>= f := by split <;> rfl

theorem matchDec_bind {β : Type} (dec : Option InstrPat) (a : Exec Unit) (b : InstrPat → Exec Unit) (f : Unit → Exec β) :
    (match dec with | none => a | some p => b p) >>= f =
      match dec with | none => a >>= f | some p => b p >>= f := by cases dec <;> rfl

theorem abort_bind {α β : Type} (e : Abort) (f : α → Exec β) : (Exec.abort e : Exec α) >>= f = Exec.abort e := rfl
theorem unreachable_bind {α β : Type} (f : α → Exec β) : (Exec.unreachable : Exec α) >>= f = Exec.unreachable := rfl

theorem restK_factor (dec : Option InstrPat) (opcode : U16) (k : Exec Unit) :
    restK dec opcode k = (do restK dec opcode (pure ()); k) := by
  unfold restK
  simp only [bind_assoc, pure_bind, ite_bind', matchDec_bind, abort_bind, unreachable_bind]

/-- The instruction part of the loop body: fetch, expansion fetch, `rep` / block-repeat
bookkeeping, instruction handler — everything between the latch phase and the interrupt block. -/
def execPhase : Exec Unit := do
  let opcode ← programRead (← fetchAddr)
  restK (decoderArray.getD opcode.toNat none) opcode (pure ())

theorem mainPhase_factor : mainPhase = (do execPhase; interruptCheck) := by
  rw [mainPhase_eq_restK]
  unfold execPhase
  simp only [bind_assoc, restK_factor _ _ interruptCheck]

/-- **The interrupt block runs after the instruction handler**: one loop iteration is the latch
phase, then the instruction part `execPhase` (which leaves `pc` at the next instruction to be
executed: the fetch increments, the `rep`/`bkrep` bookkeeping and the handler redirect), and only
then the interrupt block — so the `pc` that `entry_pushes_next_pc` shows on the stack is the
address of the next unexecuted instruction. -/
theorem cycle_entry_after_exec (c : Core) :
    cycle.run c = (execPhase.run (latched c) >>= fun r => interruptCheck.run r.2) := by
  rw [cycle_eq_main, mainPhase_factor, run_bind]

/-- One loop iteration, with the interrupt block replaced by its decision. -/
theorem cycle_spec (c : Core) :
    cycle.run c =
      (execPhase.run (latched c) >>= fun r => (entryDecision r.2.regs).exec.run r.2) := by
  rw [cycle_entry_after_exec]
  congr 1
  funext r
  exact interruptCheck_eq_decision r.2
end Teakra
