import Proofs.C07.Entry
/-!
# C07 (core part 5) — return from interrupt: `reti`, `retic`

`reti cond` / `retic cond` (`TeakraModel/Exec/Control.lean`; `retid` / `retidc` are `UNREACHABLE`
in the C++ and in the model): if the condition passes, `PopPC`, `ie := 1`, and for `retic` a
`ContextRestore`.
-/
namespace Teakra
open Teakra Exec ExecLemmas Interp Sys

/-! ## `mem.DataRead` seen from the core -/

/-- Everything `mem.DataRead(a)` does: value read, bus effect (an MMIO read can have side
effects), callbacks delivered to the latches.  The register file is not involved. -/
def Core.busRead (c : Core) (a : U16) : Except Stop (U16 × Core) :=
  match c.bus.dataRead a false with
  | .ok (v, bus, evs, accs) =>
      .ok (v, ({ c with bus := bus, log := accs.reverse ++ c.log } : Core).emit evs)
  | .error e => .error (.abort e)

theorem dataRead_run (a : U16) (c : Core) : (dataRead a).run c = c.busRead a := by
  unfold dataRead Core.busRead
  rw [run_bind, run_get, except_ok_bind, fst_mk, snd_mk]
  cases c.bus.dataRead a false with
  | error e => rfl
  | ok r => rfl

theorem busRead_setRegs (c : Core) (r : Regs) (a : U16) :
    ({ c with regs := r } : Core).busRead a =
      (c.busRead a >>= fun x => .ok (x.1, { x.2 with regs := r })) := by
  unfold Core.busRead
  show (match c.bus.dataRead a false with | .ok (v, bus, evs, accs) => _ | .error e => _) = _
  cases c.bus.dataRead a false with
  | error e => rfl
  | ok x =>
    obtain ⟨v, bus, evs, accs⟩ := x
    show Except.ok (v, ({ ({ c with bus := bus, log := accs.reverse ++ c.log } : Core) with regs := r } : Core).emit evs) = _
    rw [emit_setRegs]; rfl

/-- `popWord` on a state given as `{ c with regs := r }`: one bus read at `sp`, `sp += 1`. -/
theorem popWord_on (c : Core) (r : Regs) :
    popWord.run { c with regs := r } =
      (c.busRead r.sp >>= fun x => .ok (x.1, { x.2 with regs := { r with sp := r.sp + 1 } })) := by
  unfold popWord
  rw [run_bind, run_getRegs, except_ok_bind, fst_mk, snd_mk, run_bind, run_modifyRegs, except_ok_bind,
    snd_mk, dataRead_run]
  show ({ c with regs := { r with sp := r.sp + 1 } } : Core).busRead r.sp = _
  rw [busRead_setRegs]

theorem add_one_add_one (x : U16) : x + 1 + 1 = x + 2 := by bv_omega

/-- The program counter `PopPC` assembles from the two popped words (first popped, second
popped): with `cpc = 1` the first is the low half. -/
def popPcValue (cpc : U16) (w1 w2 : U16) : U32 :=
  if cpc == 1 then (w1.setWidth 32 : U32) ||| ((w2.setWidth 32 : U32) <<< 16)
  else (w2.setWidth 32 : U32) ||| ((w1.setWidth 32 : U32) <<< 16)

/-- **`PopPC`, bus level**: `mem.DataRead(sp)`, `mem.DataRead(sp+1)`, `sp += 2`, then `SetPC` of
the assembled value (which `ASSERT`s `pc < 0x40000`). -/
theorem popPC_run (c : Core) :
    popPC.run c =
      (do let x1 ← c.busRead c.regs.sp
          let x2 ← x1.2.busRead (c.regs.sp + 1)
          if (popPcValue c.regs.cpc x1.1 x2.1).toNat < 0x40000 then
            .ok ((), { x2.2 with regs := { c.regs with sp := c.regs.sp + 2,
                                                       pc := popPcValue c.regs.cpc x1.1 x2.1 } })
          else .error (.abort .assert)) := by
  have h0 := popWord_on c c.regs
  rw [show ({ c with regs := c.regs } : Core) = c from rfl] at h0
  unfold popPC popPcValue
  rw [run_bind, run_getRegs, except_ok_bind, fst_mk, snd_mk]
  by_cases hc : (c.regs.cpc == 1) = true
  · simp only [hc, if_true, run_bind, bind_assoc, h0]
    cases c.busRead c.regs.sp with
    | error e => rfl
    | ok x1 =>
      simp only [except_ok_bind, popWord_on]
      cases x1.2.busRead (c.regs.sp + 1) with
      | error e => rfl
      | ok x2 =>
        simp only [except_ok_bind, run_pure, setPC, run_bind]
        by_cases hp : (x1.1.setWidth 32 ||| x2.1.setWidth 32 <<< 16 : U32).toNat < 0x40000
        · simp only [hp, decide_true, run_assert_true, except_ok_bind, run_modifyRegs, if_true]
          show Except.ok ((), ({ x2.2 with regs := { c.regs with sp := c.regs.sp + 1 + 1, pc := _ } } : Core)) = _
          rw [add_one_add_one]
        · simp only [hp, decide_false, run_assert_false, except_error_bind, if_false]
  · have hc' : (c.regs.cpc == 1) = false := by simpa using hc
    simp only [hc', Bool.false_eq_true, if_false, run_bind, bind_assoc, h0]
    cases c.busRead c.regs.sp with
    | error e => rfl
    | ok x1 =>
      simp only [except_ok_bind, popWord_on]
      cases x1.2.busRead (c.regs.sp + 1) with
      | error e => rfl
      | ok x2 =>
        simp only [except_ok_bind, run_pure, setPC, run_bind]
        by_cases hp : (x2.1.setWidth 32 ||| x1.1.setWidth 32 <<< 16 : U32).toNat < 0x40000
        · simp only [hp, decide_true, run_assert_true, except_ok_bind, run_modifyRegs, if_true]
          show Except.ok ((), ({ x2.2 with regs := { c.regs with sp := c.regs.sp + 1 + 1, pc := _ } } : Core)) = _
          rw [add_one_add_one]
        · simp only [hp, decide_false, run_assert_false, except_error_bind, if_false]


/-! ## `reti`, `retic` -/

/-- **`reti cond`, closed form**: nothing if the condition fails; otherwise `PopPC` and then
`ie := 1`. -/
theorem reti_run (cond : Nat) (c : Core) :
    (Exec.reti_Cond cond).run c =
      if condVal (Cond.name cond) c.regs = true then
        (popPC.run c >>= fun x => .ok ((), { x.2 with regs := { x.2.regs with ie := 1 } }))
      else .ok ((), c) := by
  unfold Exec.reti_Cond
  rw [run_bind, conditionPass_run, except_ok_bind, fst_mk, snd_mk]
  by_cases h : condVal (Cond.name cond) c.regs = true
  · simp only [h, if_true, run_bind, run_modifyRegs]
  · simp only [h]
    rfl

/-- **`retic cond`, closed form**: as `reti`, then `ContextRestore`. -/
theorem retic_run (cond : Nat) (c : Core) :
    (Exec.retic_Cond cond).run c =
      if condVal (Cond.name cond) c.regs = true then
        (popPC.run c >>= fun x =>
          .ok ((), { x.2 with regs := contextRestorePure { x.2.regs with ie := 1 } }))
      else .ok ((), c) := by
  unfold Exec.retic_Cond
  rw [run_bind, conditionPass_run, except_ok_bind, fst_mk, snd_mk]
  by_cases h : condVal (Cond.name cond) c.regs = true
  · simp only [h, if_true, run_bind, run_modifyRegs, except_ok_bind, contextRestore_run]
  · simp only [h]
    rfl

/-- `cntx s` / `cntx r` are `ContextStore` / `ContextRestore` on the register file alone. -/
theorem cntx_run (c : Core) :
    Exec.cntx_s.run c = .ok ((), { c with regs := contextStorePure c.regs }) ∧
    Exec.cntx_r.run c = .ok ((), { c with regs := contextRestorePure c.regs }) :=
  ⟨contextStore_run c, contextRestore_run c⟩

/-- `eint` / `dint`: `ie := 1` / `ie := 0`, nothing else. -/
theorem eint_dint_run (c : Core) :
    Exec.eint.run c = .ok ((), { c with regs := { c.regs with ie := 1 } }) ∧
    Exec.dint.run c = .ok ((), { c with regs := { c.regs with ie := 0 } }) := ⟨rfl, rfl⟩

/-- `ContextRestore` if `ctx`. -/
def restoreIf (ctx : Bool) (r : Regs) : Regs := if ctx then contextRestorePure r else r

/-- **What a return from interrupt does to the interrupt registers.**  If the condition passes and
the two stack reads succeed, `reti`/`retic` set `ie = 1`, add 2 to `sp`, set `pc` to the value
assembled from the two popped words, and leave `ip`, `ipv`, `ic`, `rep` alone (so a request that
is still pending is delivered at the first boundary after the return — `enabled_enters`).  `retic`
additionally applies `contextRestorePure`; with `cntx_r_cntx_s` (C08) this undoes the
`contextStorePure` of an entry made with context switch. -/
theorem reti_effect (ctx : Bool) (cond : Nat) (c c' : Core)
    (hc : condVal (Cond.name cond) c.regs = true)
    (h : (if ctx then Exec.retic_Cond cond else Exec.reti_Cond cond).run c = .ok ((), c')) :
    ∃ x1 x2, c.busRead c.regs.sp = .ok x1 ∧ x1.2.busRead (c.regs.sp + 1) = .ok x2 ∧
      (popPcValue c.regs.cpc x1.1 x2.1).toNat < 0x40000 ∧
      intPart c'.regs = { intPart c.regs with ie := 1, sp := c.regs.sp + 2,
                                               pc := popPcValue c.regs.cpc x1.1 x2.1 } ∧
      c'.regs = restoreIf ctx
        ({ c.regs with sp := c.regs.sp + 2, pc := popPcValue c.regs.cpc x1.1 x2.1, ie := 1 } : Regs) ∧
      c'.idle = x2.2.idle := by
  have hrun : (popPC.run c >>= fun x =>
      Except.ok ((), ({ x.2 with regs := (restoreIf ctx ({ x.2.regs with ie := 1 } : Regs)) } : Core))) =
        .ok ((), c') := by
    cases ctx
    · simp only [Bool.false_eq_true, if_false] at h
      rw [reti_run, if_pos hc] at h; exact h
    · simp only [if_true] at h
      rw [retic_run, if_pos hc] at h; exact h
  rw [popPC_run] at hrun
  cases h1 : c.busRead c.regs.sp with
  | error e => rw [h1] at hrun; cases hrun
  | ok x1 =>
    rw [h1] at hrun
    simp only [except_ok_bind] at hrun
    cases h2 : x1.2.busRead (c.regs.sp + 1) with
    | error e => rw [h2] at hrun; cases hrun
    | ok x2 =>
      rw [h2] at hrun
      simp only [except_ok_bind] at hrun
      by_cases hp : (popPcValue c.regs.cpc x1.1 x2.1).toNat < 0x40000
      · rw [if_pos hp] at hrun
        simp only [except_ok_bind] at hrun
        injection hrun with hrun; injection hrun with _ hrun; subst hrun
        refine ⟨x1, x2, rfl, h2, hp, ?_, rfl, rfl⟩
        cases ctx
        · rfl
        · simp only [restoreIf, if_true, intPart_contextRestore]; rfl
      · rw [if_neg hp] at hrun; cases hrun
end Teakra
