import Proofs.C06Sys.Cycle
/-!
# C07 (core part 1) — the latch phase of the loop body

`Sys.latched c` (`Proofs/C06Sys/Cycle.lean`, `cycle_eq_main : cycle.run c = mainPhase.run (latched c)`)
is the state after the first two statements of the loop body of `Interpreter::Run`:

```
for i in 0..3: if (interrupt_pending[i].exchange(false)) regs.ip[i] = 1;
if (vinterrupt_pending.exchange(false)) regs.ipv = 1;
```
-/
namespace Teakra
open Teakra Exec ExecLemmas Interp Sys

/-- `ip` after the latch loop: line `i` is 1 if its latch was set, otherwise unchanged. -/
def latchIp (ipend : Vector Bool 3) (ip : Vector U16 3) : Vector U16 3 :=
  Vector.ofFn fun i : Fin 3 => if ipend[i] = true then 1 else ip[i]

theorem latchIp_get (ipend : Vector Bool 3) (ip : Vector U16 3) (i : Nat) (h : i < 3) :
    (latchIp ipend ip)[i] = if ipend[i] = true then 1 else ip[i] := by
  simp [latchIp]

private theorem getD_bool (v : Vector Bool 3) (i : Nat) (h : i < 3) : v.toArray.getD i false = v[i] := by
  simp [Array.getD, h]

/-- One step of the latch loop on the `ip` vector. -/
def latchIp1 (ipend : Vector Bool 3) (i : Nat) (ip : Vector U16 3) : Vector U16 3 :=
  if ipend.toArray.getD i false = true then vset ip i 1 else ip

private theorem latch1_eq (ipend : Vector Bool 3) (i : Nat) (r : Regs) :
    latch1 ipend i r = { r with ip := latchIp1 ipend i r.ip } := by
  unfold latch1 latchIp1
  split <;> rfl

private theorem latchIp3 (ipend : Vector Bool 3) (ip : Vector U16 3) :
    latchIp1 ipend 2 (latchIp1 ipend 1 (latchIp1 ipend 0 ip)) = latchIp ipend ip := by
  unfold latchIp1
  rw [getD_bool ipend 0 (by omega), getD_bool ipend 1 (by omega), getD_bool ipend 2 (by omega)]
  apply Vector.ext; intro k hk
  have : k = 0 ∨ k = 1 ∨ k = 2 := by omega
  cases h0 : ipend[0] <;> cases h1 : ipend[1] <;> cases h2 : ipend[2] <;>
    rcases this with rfl | rfl | rfl <;> simp [latchIp_get, vset, h0, h1, h2]

private theorem latch3 (ipend : Vector Bool 3) (r : Regs) :
    latch1 ipend 2 (latch1 ipend 1 (latch1 ipend 0 r)) = { r with ip := latchIp ipend r.ip } := by
  rw [latch1_eq, latch1_eq, latch1_eq, ← latchIp3]

/-- **Latch phase, closed form.**  After the latch phase `ip[i] = 1` exactly for the lines whose
latch `interrupt_pending[i]` was set (the other `ip` bits are unchanged), `ipv = 1` if
`vinterrupt_pending` was set (else unchanged), all four latches are cleared, and nothing else in
the machine changes. -/
theorem latched_spec (c : Core) :
    latched c =
      { c with
        regs := { c.regs with ip := latchIp c.ipend c.regs.ip,
                              ipv := if c.vpend = true then 1 else c.regs.ipv }
        ipend := Vector.replicate 3 false
        vpend := false } := by
  unfold latched latchAll
  rw [latch3]
  cases c.vpend <;> simp

/-- Pointwise reading of `latched_spec`. -/
theorem latched_ip (c : Core) (i : Nat) (h : i < 3) :
    (latched c).regs.ip[i] = if c.ipend[i] = true then 1 else c.regs.ip[i] := by
  rw [latched_spec]; exact latchIp_get _ _ i h

theorem latched_ipv (c : Core) : (latched c).regs.ipv = if c.vpend = true then 1 else c.regs.ipv := by
  rw [latched_spec]

theorem latched_clears (c : Core) :
    (latched c).ipend = Vector.replicate 3 false ∧ (latched c).vpend = false := ⟨rfl, rfl⟩

/-- A state without pending latches is a fixed point of the latch phase. -/
theorem latched_of_noLatch (c : Core) (hi : c.ipend = Vector.replicate 3 false) (hv : c.vpend = false) :
    latched c = c := by
  rw [latched_spec, hi, hv]
  have : latchIp (Vector.replicate 3 false) c.regs.ip = c.regs.ip := by
    apply Vector.ext; intro k hk; simp [latchIp_get]
  rw [this]
  cases c; simp_all

/-- **Once per latched request.**  A latch that is set yields `ip[i] = 1` (resp. `ipv = 1`) in
the latch phase and is consumed by it: the latch phase of the next loop iteration finds all
latches clear and changes nothing (`latched (latched c) = latched c`), so one `SignalInterrupt`
produces one `ip` request, however many iterations follow. -/
theorem latch_once (c : Core) :
    (∀ i (h : i < 3), c.ipend[i] = true → (latched c).regs.ip[i] = 1) ∧
    (c.vpend = true → (latched c).regs.ipv = 1) ∧
    (latched c).ipend = Vector.replicate 3 false ∧ (latched c).vpend = false ∧
    latched (latched c) = latched c := by
  refine ⟨fun i h hi => ?_, fun hv => ?_, rfl, rfl, latched_of_noLatch _ rfl rfl⟩
  · rw [latched_ip c i h, hi]; rfl
  · rw [latched_ipv, hv]; rfl

/-- The latch phase never *clears* a request and never sets one without a latch. -/
theorem latch_no_spurious (c : Core) (i : Nat) (h : i < 3) (hi : c.ipend[i] = false) :
    (latched c).regs.ip[i] = c.regs.ip[i] := by
  rw [latched_ip c i h, hi]; rfl

end Teakra
