import Proofs.C07.Push
import Proofs.C08
/-!
# C07 (core part 2) — the interrupt block: complete characterisation of `interruptCheck`
-/
namespace Teakra
open Teakra Exec ExecLemmas Interp Sys

/-- Line `i` is unmasked and requested: `regs.im[i] && regs.ip[i]`, with the model's `getD`
indexing. -/
def lineReady (r : Regs) (i : Nat) : Bool :=
  r.im.toArray.getD i 0 != 0 && r.ip.toArray.getD i 0 != 0

/-- The vectored interrupt is unmasked and requested: `regs.imv && regs.ipv`. -/
def vecReady (r : Regs) : Bool := r.imv != 0 && r.ipv != 0

/-- The least line `i < 3` with `im[i] ≠ 0 ∧ ip[i] ≠ 0`. -/
def deliverLine (r : Regs) : Option (Fin 3) :=
  if lineReady r 0 then some 0 else if lineReady r 1 then some 1 else if lineReady r 2 then some 2
  else none

/-- `deliverLine` is the least ready line. -/
theorem deliverLine_eq_some (r : Regs) (i : Fin 3) :
    deliverLine r = some i ↔ (lineReady r i = true ∧ ∀ j : Fin 3, j < i → lineReady r j = false) := by
  unfold deliverLine
  have hi : i = 0 ∨ i = 1 ∨ i = 2 := by omega
  have hj : ∀ j : Fin 3, j = 0 ∨ j = 1 ∨ j = 2 := by omega
  cases h0 : lineReady r 0 <;> cases h1 : lineReady r 1 <;> cases h2 : lineReady r 2 <;>
    rcases hi with rfl | rfl | rfl <;> simp [h0, h1, h2, Fin.forall_fin_succ]

theorem deliverLine_eq_none (r : Regs) :
    deliverLine r = none ↔ ∀ j : Fin 3, lineReady r j = false := by
  unfold deliverLine
  cases h0 : lineReady r 0 <;> cases h1 : lineReady r 1 <;> cases h2 : lineReady r 2 <;>
    simp [h0, h1, h2, Fin.forall_fin_succ]

/-- Entry into the handler of interrupt line `i` (the body of the `if (regs.im[i] && regs.ip[i])`
of `Interpreter::Run`). -/
def enterLine (i : Fin 3) : Exec Unit := do
  modifyRegs fun r => { r with ip := vset r.ip i 0, ie := 0 }
  pushPC
  modifyRegs fun r => { r with pc := BitVec.ofNat 32 (0x0006 + i.val * 8) }
  modify fun c => { c with idle := false }
  if (← getRegs).ic.toArray.getD i 0 != 0 then contextStore

/-- Entry into the vectored handler. -/
def enterVectored : Exec Unit := do
  modifyRegs fun r => { r with ipv := 0, ie := 0 }
  pushPC
  let c ← get
  modifyRegs fun r => { r with pc := c.vaddr }
  modify fun c => { c with idle := false }
  if c.vctx then contextStore

/-! ## the decision -/

/-- One step of the priority scan on a ready line: enter it and report `true`. -/
theorem scan_step_yes (c : Core) (i : Fin 3) (fuel : Nat) (h : lineReady c.regs i = true) :
    (interruptCheck.scan i.val (fuel + 1)).run c = (do enterLine i; pure true : Exec Bool).run c := by
  rw [interruptCheck.scan, run_bind, run_getRegs, except_ok_bind, fst_mk, snd_mk]
  unfold lineReady at h; rw [h]; simp -zeta only [if_true]
  unfold enterLine
  simp -zeta only [run_bind, run_modifyRegs, run_modify, except_ok_bind, bind_assoc]
  cases pushPC.run _ with
  | error e => rfl
  | ok r =>
    simp -zeta only [except_ok_bind, run_getRegs]
    rw [run_have]
    split
    · rw [run_bind]
    · rfl

/-- The priority scan: enters the least ready line, or reports `false` without any effect. -/
theorem scan_spec (c : Core) :
    (interruptCheck.scan 0 3).run c =
      match deliverLine c.regs with
      | some i => (do enterLine i; pure true : Exec Bool).run c
      | none => .ok (false, c) := by
  unfold deliverLine
  cases h0 : lineReady c.regs 0
  · rw [scan_step_no c 0 2 h0]
    cases h1 : lineReady c.regs 1
    · rw [scan_step_no c 1 1 h1]
      cases h2 : lineReady c.regs 2
      · rw [scan_step_no c 2 0 h2, scan_zero]; rfl
      · exact scan_step_yes c 2 0 h2
    · exact scan_step_yes c 1 1 h1
  · exact scan_step_yes c 0 2 h0

/-- **The interrupt block, completely.**  Nothing happens if `ie = 0` or a single-instruction
repeat is running; otherwise the least unmasked requested line is entered; otherwise, if the
vectored interrupt is unmasked and requested, the vectored handler is entered; otherwise nothing
happens. -/
theorem interruptCheck_spec (c : Core) :
    interruptCheck.run c =
      if c.regs.ie = 0 ∨ c.regs.rep = true then .ok ((), c)
      else match deliverLine c.regs with
        | some i => (enterLine i).run c
        | none => if vecReady c.regs = true then enterVectored.run c else .ok ((), c) := by
  unfold interruptCheck
  rw [run_bind, run_getRegs, except_ok_bind, fst_mk, snd_mk]
  by_cases hg : c.regs.ie = 0 ∨ c.regs.rep = true
  · have hg' : (c.regs.ie != 0 && !c.regs.rep) = false := by
      rcases hg with h | h <;> simp [h]
    rw [hg', if_pos hg]
    simp -zeta only [Bool.false_eq_true, if_false, run_pure]
  · have hg' : (c.regs.ie != 0 && !c.regs.rep) = true := by
      simp only [not_or] at hg
      rw [bne_iff_ne.mpr hg.1, Bool.true_and]
      simpa using hg.2
    rw [hg', if_neg hg]
    simp -zeta only [if_true]
    rw [run_bind, scan_spec]
    cases hd : deliverLine c.regs with
    | some i =>
      simp -zeta only [run_bind, bind_assoc, run_pure]
      cases (enterLine i).run c with
      | error e => rfl
      | ok r =>
        simp -zeta only [except_ok_bind, run_getRegs, Bool.not_true, Bool.false_and, Bool.false_eq_true, if_false, run_pure]
    | none =>
      simp -zeta only [except_ok_bind, run_bind, run_getRegs, Bool.not_false, Bool.true_and]
      show StateT.run (if vecReady c.regs = true then _ else _) c = _
      split
      · unfold enterVectored
        simp -zeta only [run_bind, run_modifyRegs, run_modify, except_ok_bind]
      · rfl

/-! ## registers no context switch touches -/

/-- The registers the interrupt block cares about that no context switch touches. -/
structure IntPart where
  ie : U16
  ip : Vector U16 3
  ipv : U16
  ic : Vector U16 3
  sp : U16
  pc : U32
  rep : Bool
  cpc : U16

def intPart (r : Regs) : IntPart :=
  { ie := r.ie, ip := r.ip, ipv := r.ipv, ic := r.ic, sp := r.sp, pc := r.pc, rep := r.rep, cpc := r.cpc }

theorem intPart_setCtx (r : Regs) (n : CtxPart) : intPart (setCtx r n) = intPart r := rfl
theorem intPart_swapAr (r : Regs) (i : Fin 2) : intPart (swapArPure r i) = intPart r := rfl
theorem intPart_swapArp (r : Regs) (i : Fin 4) : intPart (swapArpPure r i) = intPart r := rfl
theorem intPart_ssr (r : Regs) : intPart (shadowSwapRegistersPure r) = intPart r := rfl

theorem intPart_shadowSwap (r : Regs) : intPart (shadowSwapPure r) = intPart r := by
  unfold shadowSwapPure swapAllArArpPure
  simp only [intPart_swapAr, intPart_swapArp, intPart_ssr]

theorem intPart_contextStore (r : Regs) : intPart (contextStorePure r) = intPart r := by
  unfold contextStorePure ctxApply
  simp only [intPart_setCtx, intPart_shadowSwap]

theorem intPart_contextRestore (r : Regs) : intPart (contextRestorePure r) = intPart r := by
  unfold contextRestorePure ctxApply
  simp only [intPart_setCtx, intPart_shadowSwap]

/-! ## closed form of the two entry sequences -/

/-- The handler address of interrupt line `i`: `0x0006 + i * 8`. -/
def lineVector (i : Fin 3) : U32 := BitVec.ofNat 32 (0x0006 + i.val * 8)

/-- The register file after entering line `i`. -/
def entryRegs (i : Fin 3) (r : Regs) : Regs :=
  let r' : Regs := { r with ip := vset r.ip i 0, ie := 0, sp := r.sp - 2, pc := lineVector i }
  if r.ic.toArray.getD i 0 != 0 then contextStorePure r' else r'

/-- The register file after entering the vectored handler at `addr`. -/
def vecEntryRegs (addr : U32) (ctx : Bool) (r : Regs) : Regs :=
  let r' : Regs := { r with ipv := 0, ie := 0, sp := r.sp - 2, pc := addr }
  if ctx then contextStorePure r' else r'

/-- **Entry of line `i`, closed form**: the two stack writes of `PushPC` (bus level), then the
register file `entryRegs i` and `idle := false`. -/
theorem enterLine_run (i : Fin 3) (c : Core) :
    (enterLine i).run c =
      (do let c1 ← c.busWrite (c.regs.sp - 1) (pcWords c.regs).1
          let c2 ← c1.busWrite (c.regs.sp - 2) (pcWords c.regs).2
          .ok ((), { c2 with regs := entryRegs i c.regs, idle := false })) := by
  unfold enterLine
  rw [run_bind, run_modifyRegs, except_ok_bind, snd_mk, run_bind, pushPC_on]
  show (c.busWrite (c.regs.sp - 1) (pcWords c.regs).1 >>= _) >>= _ = _
  cases c.busWrite (c.regs.sp - 1) (pcWords c.regs).1 with
  | error e => rfl
  | ok c1 =>
    simp only [except_ok_bind]
    show (c1.busWrite (c.regs.sp - 2) (pcWords c.regs).2 >>= _) >>= _ = _
    cases c1.busWrite (c.regs.sp - 2) (pcWords c.regs).2 with
    | error e => rfl
    | ok c2 =>
      simp only [except_ok_bind, run_bind, run_modifyRegs, run_modify, run_getRegs]
      unfold entryRegs
      by_cases hic : (c.regs.ic.toArray.getD i 0 != 0) = true
      · simp only [hic, if_true]; rw [contextStore_run]; rfl
      · simp only [hic]; rfl

theorem enterVectored_run (c : Core) :
    enterVectored.run c =
      (do let c1 ← c.busWrite (c.regs.sp - 1) (pcWords c.regs).1
          let c2 ← c1.busWrite (c.regs.sp - 2) (pcWords c.regs).2
          .ok ((), { c2 with regs := vecEntryRegs c2.vaddr c2.vctx c.regs, idle := false })) := by
  unfold enterVectored
  rw [run_bind, run_modifyRegs, except_ok_bind, snd_mk, run_bind, pushPC_on]
  show (c.busWrite (c.regs.sp - 1) (pcWords c.regs).1 >>= _) >>= _ = _
  cases c.busWrite (c.regs.sp - 1) (pcWords c.regs).1 with
  | error e => rfl
  | ok c1 =>
    simp only [except_ok_bind]
    show (c1.busWrite (c.regs.sp - 2) (pcWords c.regs).2 >>= _) >>= _ = _
    cases c1.busWrite (c.regs.sp - 2) (pcWords c.regs).2 with
    | error e => rfl
    | ok c2 =>
      simp only [except_ok_bind, run_bind, run_modifyRegs, run_modify, run_get]
      unfold vecEntryRegs
      by_cases hic : c2.vctx = true
      · simp only [hic, if_true]; rw [contextStore_run]
      · simp only [hic]; rfl

/-! ## what an entry does to the interrupt registers -/

theorem intPart_entryRegs (i : Fin 3) (r : Regs) :
    intPart (entryRegs i r) =
      { intPart r with ip := vset r.ip i 0, ie := 0, sp := r.sp - 2, pc := lineVector i } := by
  unfold entryRegs
  by_cases h : (r.ic.toArray.getD i 0 != 0) = true
  · simp only [h, if_true, intPart_contextStore]; rfl
  · simp only [h]; rfl

theorem intPart_vecEntryRegs (addr : U32) (ctx : Bool) (r : Regs) :
    intPart (vecEntryRegs addr ctx r) =
      { intPart r with ipv := 0, ie := 0, sp := r.sp - 2, pc := addr } := by
  unfold vecEntryRegs
  cases ctx
  · rfl
  · simp only [if_true, intPart_contextStore]; rfl

/-- Which entry the interrupt block makes. -/
inductive Entry where
  | none
  | line (i : Fin 3)
  | vectored
  deriving DecidableEq, Repr

/-- The decision of the interrupt block as a function of the registers. -/
def entryDecision (r : Regs) : Entry :=
  if r.ie = 0 ∨ r.rep = true then .none
  else match deliverLine r with
    | some i => .line i
    | none => if vecReady r = true then .vectored else .none

/-- The effect of each decision. -/
def Entry.exec : Entry → Exec Unit
  | .none => pure ()
  | .line i => enterLine i
  | .vectored => enterVectored

/-- `interruptCheck_spec`, factored through the decision. -/
theorem interruptCheck_eq_decision (c : Core) :
    interruptCheck.run c = (entryDecision c.regs).exec.run c := by
  rw [interruptCheck_spec]
  unfold entryDecision
  split
  · rfl
  · cases deliverLine c.regs with
    | some i => rfl
    | none => simp only []; split <;> rfl

/-- The registers the interrupt block reads and writes, after each kind of entry. -/
theorem entry_effect (c c' : Core) (h : interruptCheck.run c = .ok ((), c')) :
    match entryDecision c.regs with
    | .none => c' = c
    | .line i =>
        intPart c'.regs = { intPart c.regs with ip := vset c.regs.ip i 0, ie := 0, sp := c.regs.sp - 2,
                                                 pc := lineVector i } ∧ c'.idle = false
    | .vectored =>
        ∃ addr, intPart c'.regs = { intPart c.regs with ipv := 0, ie := 0, sp := c.regs.sp - 2, pc := addr } ∧
          c'.idle = false := by
  rw [interruptCheck_eq_decision] at h
  cases hd : entryDecision c.regs with
  | none =>
    rw [hd] at h
    injection h with h; injection h with _ h; exact h.symm
  | line i =>
    rw [hd] at h
    simp only [Entry.exec] at h
    rw [enterLine_run] at h
    cases h1 : c.busWrite (c.regs.sp - 1) (pcWords c.regs).1 with
    | error e => rw [h1] at h; cases h
    | ok c1 =>
      rw [h1] at h
      simp only [except_ok_bind] at h
      cases h2 : c1.busWrite (c.regs.sp - 2) (pcWords c.regs).2 with
      | error e => rw [h2] at h; cases h
      | ok c2 =>
        rw [h2] at h
        injection h with h; injection h with _ h; subst h
        exact ⟨intPart_entryRegs i c.regs, rfl⟩
  | vectored =>
    rw [hd] at h
    simp only [Entry.exec] at h
    rw [enterVectored_run] at h
    cases h1 : c.busWrite (c.regs.sp - 1) (pcWords c.regs).1 with
    | error e => rw [h1] at h; cases h
    | ok c1 =>
      rw [h1] at h
      simp only [except_ok_bind] at h
      cases h2 : c1.busWrite (c.regs.sp - 2) (pcWords c.regs).2 with
      | error e => rw [h2] at h; cases h
      | ok c2 =>
        rw [h2] at h
        injection h with h; injection h with _ h; subst h
        exact ⟨c2.vaddr, intPart_vecEntryRegs _ _ c.regs, rfl⟩

/-! ## indexing bridges -/

theorem getD_fin3 (v : Vector U16 3) (i : Fin 3) : v.toArray.getD i.val 0 = v[i] := by
  simp [Array.getD]

theorem vset_get (v : Vector U16 3) (i j : Fin 3) (x : U16) :
    (vset v i.val x)[j] = if i = j then x else v[j] := by
  unfold vset
  simp only [i.isLt, dif_pos]
  by_cases h : i = j
  · subst h; simp
  · have : i.val ≠ j.val := fun e => h (Fin.ext e)
    simp [h, this]

theorem lineReady_iff (r : Regs) (i : Fin 3) : lineReady r i = true ↔ r.im[i] ≠ 0 ∧ r.ip[i] ≠ 0 := by
  unfold lineReady
  rw [getD_fin3, getD_fin3]
  simp

theorem lineReady_false_iff (r : Regs) (i : Fin 3) : lineReady r i = false ↔ r.im[i] = 0 ∨ r.ip[i] = 0 := by
  unfold lineReady
  rw [getD_fin3, getD_fin3]
  simp only [Bool.and_eq_false_imp, bne_iff_ne, ne_eq, bne_eq_false_iff_eq]
  exact Decidable.or_iff_not_imp_left.symm

theorem vecReady_iff (r : Regs) : vecReady r = true ↔ r.imv ≠ 0 ∧ r.ipv ≠ 0 := by
  unfold vecReady; simp

/-! ## the decision, read backwards -/

theorem entryDecision_line (r : Regs) (i : Fin 3) :
    entryDecision r = .line i ↔ (r.ie ≠ 0 ∧ r.rep = false ∧ deliverLine r = some i) := by
  unfold entryDecision
  by_cases hg : r.ie = 0 ∨ r.rep = true
  · rw [if_pos hg]
    constructor
    · intro h; cases h
    · rintro ⟨h1, h2, _⟩
      rcases hg with h | h
      · exact absurd h h1
      · rw [h2] at h; cases h
  · rw [if_neg hg]
    simp only [not_or] at hg
    have hrep : r.rep = false := by simpa using hg.2
    cases hd : deliverLine r with
    | some j =>
      constructor
      · intro h; injection h with h; subst h; exact ⟨hg.1, hrep, rfl⟩
      · rintro ⟨_, _, h⟩; injection h with h; subst h; rfl
    | none =>
      constructor
      · intro h; simp only [] at h; split at h <;> cases h
      · rintro ⟨_, _, h⟩; cases h

theorem entryDecision_vectored (r : Regs) :
    entryDecision r = .vectored ↔
      (r.ie ≠ 0 ∧ r.rep = false ∧ deliverLine r = none ∧ vecReady r = true) := by
  unfold entryDecision
  by_cases hg : r.ie = 0 ∨ r.rep = true
  · rw [if_pos hg]
    constructor
    · intro h; cases h
    · rintro ⟨h1, h2, _⟩
      rcases hg with h | h
      · exact absurd h h1
      · rw [h2] at h; cases h
  · rw [if_neg hg]
    simp only [not_or] at hg
    have hrep : r.rep = false := by simpa using hg.2
    cases hd : deliverLine r with
    | some j =>
      constructor
      · intro h; cases h
      · rintro ⟨_, _, h, _⟩; cases h
    | none =>
      simp only []
      by_cases hv : vecReady r = true
      · rw [if_pos hv]; exact ⟨fun _ => ⟨hg.1, hrep, trivial, hv⟩, fun _ => rfl⟩
      · rw [if_neg hv]
        constructor
        · intro h; cases h
        · rintro ⟨_, _, _, h⟩; exact absurd h hv

/-- Something is entered exactly when `Sys.deliverable` (the exclusion used by the idle-skip
property C06) holds. -/
theorem entryDecision_none_iff (r : Regs) : entryDecision r = .none ↔ deliverable r = false := by
  unfold entryDecision deliverable deliverLine
  change _ ↔ (r.ie != 0 && !r.rep && (lineReady r 0 || lineReady r 1 || lineReady r 2 || vecReady r)) = false
  by_cases h1 : r.ie = 0
  · simp [h1]
  · cases h2 : r.rep
    · cases h3 : lineReady r 0 <;> cases h4 : lineReady r 1 <;> cases h5 : lineReady r 2 <;>
        cases h6 : vecReady r <;> simp
    · simp

/-! ## the named consequences -/

/-- **Fixed priority int0 > int1 > int2 > vectored.**  With interrupts enabled and no `rep`
running, if line `i` is unmasked and requested and no lower-numbered line is, then line `i` is
the one entered — whatever the state of the higher-numbered lines and of the vectored interrupt —
and the requests of all the others (`ip[j]`, `j ≠ i`, and `ipv`) are left exactly as they were,
i.e. they stay pending for a later boundary. -/
theorem priority (c : Core) (i : Fin 3) (hie : c.regs.ie ≠ 0) (hrep : c.regs.rep = false)
    (hi : c.regs.im[i] ≠ 0 ∧ c.regs.ip[i] ≠ 0)
    (hlow : ∀ j : Fin 3, j < i → c.regs.im[j] = 0 ∨ c.regs.ip[j] = 0) :
    entryDecision c.regs = .line i ∧ interruptCheck.run c = (enterLine i).run c ∧
    ∀ c', interruptCheck.run c = .ok ((), c') →
      c'.regs.pc = lineVector i ∧ c'.regs.ip[i] = 0 ∧
      (∀ j : Fin 3, j ≠ i → c'.regs.ip[j] = c.regs.ip[j]) ∧ c'.regs.ipv = c.regs.ipv := by
  have hd : entryDecision c.regs = .line i :=
    (entryDecision_line c.regs i).2 ⟨hie, hrep, (deliverLine_eq_some c.regs i).2
      ⟨(lineReady_iff c.regs i).2 hi, fun j hj => (lineReady_false_iff c.regs j).2 (hlow j hj)⟩⟩
  refine ⟨hd, by rw [interruptCheck_eq_decision, hd]; rfl, fun c' h => ?_⟩
  have he := entry_effect c c' h
  rw [hd] at he
  obtain ⟨he, _⟩ := he
  have hip : c'.regs.ip = vset c.regs.ip i 0 := congrArg IntPart.ip he
  refine ⟨congrArg IntPart.pc he, ?_, fun j hj => ?_, congrArg IntPart.ipv he⟩
  · rw [hip, vset_get]; simp
  · rw [hip, vset_get]; simp [Ne.symm hj]

/-- The vectored interrupt has the lowest priority: it is entered only when no interrupt line
is unmasked and requested. -/
theorem priority_vectored_last (r : Regs) (h : entryDecision r = .vectored) :
    ∀ j : Fin 3, r.im[j] = 0 ∨ r.ip[j] = 0 := by
  obtain ⟨_, _, hn, _⟩ := (entryDecision_vectored r).1 h
  exact fun j => (lineReady_false_iff r j).1 ((deliverLine_eq_none r).1 hn j)

/-- **Masked lines never enter and stay latched.**  If `im[i] = 0`, line `i` is not entered, and
whatever else the interrupt block does (nothing, another line, the vectored interrupt), `ip[i]`
is unchanged: the request stays pending until software unmasks it. -/
theorem masked_never_enters (c : Core) (i : Fin 3) (hm : c.regs.im[i] = 0) :
    entryDecision c.regs ≠ .line i ∧
    ∀ c', interruptCheck.run c = .ok ((), c') → c'.regs.ip[i] = c.regs.ip[i] := by
  have hne : entryDecision c.regs ≠ .line i := by
    intro h
    obtain ⟨_, _, hd⟩ := (entryDecision_line c.regs i).1 h
    exact ((lineReady_iff c.regs i).1 ((deliverLine_eq_some c.regs i).1 hd).1).1 hm
  refine ⟨hne, fun c' h => ?_⟩
  have he := entry_effect c c' h
  cases hd : entryDecision c.regs with
  | none => rw [hd] at he; rw [he]
  | line j =>
    rw [hd] at he hne
    have hip : c'.regs.ip = vset c.regs.ip j 0 := congrArg IntPart.ip he.1
    have : j ≠ i := fun e => hne (by rw [e])
    rw [hip, vset_get]; simp [this]
  | vectored =>
    rw [hd] at he
    obtain ⟨_, he, _⟩ := he
    have hip : c'.regs.ip = c.regs.ip := congrArg IntPart.ip he
    rw [hip]

/-- The same for the vectored interrupt: with `imv = 0` it is not entered and `ipv` is unchanged. -/
theorem masked_vectored_never_enters (c : Core) (hm : c.regs.imv = 0) :
    entryDecision c.regs ≠ .vectored ∧
    ∀ c', interruptCheck.run c = .ok ((), c') → c'.regs.ipv = c.regs.ipv := by
  have hne : entryDecision c.regs ≠ .vectored := by
    intro h
    obtain ⟨_, _, _, hv⟩ := (entryDecision_vectored c.regs).1 h
    exact ((vecReady_iff c.regs).1 hv).1 hm
  refine ⟨hne, fun c' h => ?_⟩
  have he := entry_effect c c' h
  cases hd : entryDecision c.regs with
  | none => rw [hd] at he; rw [he]
  | line j => rw [hd] at he; exact congrArg IntPart.ipv he.1
  | vectored => exact absurd hd hne

/-- **Global enable.**  With `ie = 0` the interrupt block changes nothing at all. -/
theorem disabled_never_enters (c : Core) (h : c.regs.ie = 0) : interruptCheck.run c = .ok ((), c) := by
  rw [interruptCheck_spec, if_pos (Or.inl h)]

/-- **Single-instruction repeat.**  While `rep` is set the interrupt block changes nothing. -/
theorem rep_holds_off (c : Core) (h : c.regs.rep = true) : interruptCheck.run c = .ok ((), c) := by
  rw [interruptCheck_spec, if_pos (Or.inr h)]

/-- **Entry clears the global enable**, so the interrupt block of the following instruction
boundaries does nothing (no second entry, for this or any other request) until software sets
`ie` again (`eint`, `reti`, a write to `st0`/`mod3`). -/
theorem entry_clears_enable (c c' : Core) (h : interruptCheck.run c = .ok ((), c'))
    (hent : entryDecision c.regs ≠ .none) :
    c'.regs.ie = 0 ∧ entryDecision c'.regs = .none ∧ interruptCheck.run c' = .ok ((), c') := by
  have he := entry_effect c c' h
  have hie : c'.regs.ie = 0 := by
    cases hd : entryDecision c.regs with
    | none => exact absurd hd hent
    | line j => rw [hd] at he; exact congrArg IntPart.ie he.1
    | vectored => rw [hd] at he; obtain ⟨_, he, _⟩ := he; exact congrArg IntPart.ie he
  refine ⟨hie, ?_, disabled_never_enters c' hie⟩
  unfold entryDecision; rw [if_pos (Or.inl hie)]

/-- **Entry consumes the request**: after entering line `i`, `ip[i] = 0`; after entering the
vectored handler, `ipv = 0`. -/
theorem entry_consumes_request (c c' : Core) (h : interruptCheck.run c = .ok ((), c')) :
    (∀ i, entryDecision c.regs = .line i → c'.regs.ip[i] = 0) ∧
    (entryDecision c.regs = .vectored → c'.regs.ipv = 0) := by
  have he := entry_effect c c' h
  constructor
  · intro i hd
    rw [hd] at he
    have hip : c'.regs.ip = vset c.regs.ip i 0 := congrArg IntPart.ip he.1
    rw [hip, vset_get]; simp
  · intro hd
    rw [hd] at he
    obtain ⟨_, he, _⟩ := he
    exact congrArg IntPart.ipv he

/-- **Never spuriously.**  If no request bit is set (`ip[0..2] = 0`, `ipv = 0`) nothing is
entered, whatever the masks and enables. -/
theorem no_spurious (c : Core) (hip : ∀ i : Fin 3, c.regs.ip[i] = 0) (hipv : c.regs.ipv = 0) :
    entryDecision c.regs = .none ∧ interruptCheck.run c = .ok ((), c) := by
  have hd : entryDecision c.regs = .none := by
    cases hd : entryDecision c.regs with
    | none => rfl
    | line i =>
      obtain ⟨_, _, h⟩ := (entryDecision_line c.regs i).1 hd
      exact absurd (hip i) ((lineReady_iff c.regs i).1 ((deliverLine_eq_some c.regs i).1 h).1).2
    | vectored =>
      obtain ⟨_, _, _, h⟩ := (entryDecision_vectored c.regs).1 hd
      exact absurd hipv ((vecReady_iff c.regs).1 h).2
  refine ⟨hd, ?_⟩
  rw [interruptCheck_eq_decision, hd]; rfl

/-- **Entered at the first boundary where everything is enabled**: with `ie ≠ 0`, no `rep`, and
line `i` unmasked and requested, *some* entry is made at this boundary (line `i` itself unless a
lower-numbered line is also ready — `priority`). -/
theorem enabled_enters (c : Core) (i : Fin 3) (hie : c.regs.ie ≠ 0) (hrep : c.regs.rep = false)
    (hi : c.regs.im[i] ≠ 0 ∧ c.regs.ip[i] ≠ 0) :
    ∃ j : Fin 3, j ≤ i ∧ entryDecision c.regs = .line j := by
  cases hd : deliverLine c.regs with
  | none => 
    have := (deliverLine_eq_none c.regs).1 hd i
    rw [(lineReady_iff c.regs i).2 hi] at this; cases this
  | some j =>
    refine ⟨j, ?_, (entryDecision_line c.regs j).2 ⟨hie, hrep, hd⟩⟩
    have hmin := ((deliverLine_eq_some c.regs j).1 hd).2
    apply Decidable.byContradiction
    intro hlt
    have := hmin i (by omega)
    rw [(lineReady_iff c.regs i).2 hi] at this; cases this

/-! ## the return address on the stack -/

/-- **The address pushed is the `pc` before entry.**  Entering line `i` performs exactly two
`mem.DataWrite` calls, in this order:

* `DataWrite(sp - 1, w₁)`, `DataWrite(sp - 2, w₂)` where `(w₁, w₂) = pcWords` of the registers
  *before* entry — `(pc >> 16, pc & 0xFFFF)` if `cpc = 1`, `(pc & 0xFFFF, pc >> 16)` otherwise
  (`pcWords_cpc`), so the word on top of the stack (`sp - 2`) is the low half when `cpc = 1` and the
  high half otherwise, which is the order `PopPC` reads them back in; the two halves determine
  `pc` (`pc_of_halves`);
* after that `sp` has decreased by 2, `pc` is the handler address, `idle` is cleared, and the
  resulting machine is the one after the second write with the register file `entryRegs i`.

Because `interruptCheck` is the last statement of the loop body (`cycle_entry_after_exec`), the
`pc` before entry is the `pc` the instruction handler left, i.e. the address of the next
instruction that has not been executed. -/
theorem entry_pushes_next_pc (i : Fin 3) (c c' : Core) (h : (enterLine i).run c = .ok ((), c')) :
    ∃ c1 c2,
      c.busWrite (c.regs.sp - 1) (pcWords c.regs).1 = .ok c1 ∧
      c1.busWrite (c.regs.sp - 2) (pcWords c.regs).2 = .ok c2 ∧
      c' = { c2 with regs := entryRegs i c.regs, idle := false } ∧
      c'.regs.sp = c.regs.sp - 2 ∧ c'.regs.pc = lineVector i := by
  rw [enterLine_run] at h
  cases h1 : c.busWrite (c.regs.sp - 1) (pcWords c.regs).1 with
  | error e => rw [h1] at h; cases h
  | ok c1 =>
    rw [h1] at h
    simp only [except_ok_bind] at h
    cases h2 : c1.busWrite (c.regs.sp - 2) (pcWords c.regs).2 with
    | error e => rw [h2] at h; cases h
    | ok c2 =>
      rw [h2] at h
      injection h with h; injection h with _ h; subst h
      have hi := intPart_entryRegs i c.regs
      exact ⟨c1, c2, rfl, h2, rfl, congrArg IntPart.sp hi, congrArg IntPart.pc hi⟩

/-- The same for the vectored entry; the handler address and the context-switch flag are the
latched `vinterrupt_address` / `vinterrupt_context_switch` *after* the two stack writes. -/
theorem vectored_entry_pushes_next_pc (c c' : Core) (h : enterVectored.run c = .ok ((), c')) :
    ∃ c1 c2,
      c.busWrite (c.regs.sp - 1) (pcWords c.regs).1 = .ok c1 ∧
      c1.busWrite (c.regs.sp - 2) (pcWords c.regs).2 = .ok c2 ∧
      c' = { c2 with regs := vecEntryRegs c2.vaddr c2.vctx c.regs, idle := false } ∧
      c'.regs.sp = c.regs.sp - 2 ∧ c'.regs.pc = c2.vaddr := by
  rw [enterVectored_run] at h
  cases h1 : c.busWrite (c.regs.sp - 1) (pcWords c.regs).1 with
  | error e => rw [h1] at h; cases h
  | ok c1 =>
    rw [h1] at h
    simp only [except_ok_bind] at h
    cases h2 : c1.busWrite (c.regs.sp - 2) (pcWords c.regs).2 with
    | error e => rw [h2] at h; cases h
    | ok c2 =>
      rw [h2] at h
      injection h with h; injection h with _ h; subst h
      have hi := intPart_vecEntryRegs c2.vaddr c2.vctx c.regs
      exact ⟨c1, c2, rfl, h2, rfl, congrArg IntPart.sp hi, congrArg IntPart.pc hi⟩

/-- **Stack in ordinary memory.**  If `sp - 1` and `sp - 2` are ordinary data memory (not in the
MMIO window, pages in range), entering line `i` succeeds, runs no callback, and the machine
afterwards is: shared memory with `w₁` at (the conversion of) `sp - 1` and `w₂` at `sp - 2`, the
two accesses logged, register file `entryRegs i`, `idle` cleared, everything else (latches,
peripherals, events) unchanged. -/
theorem entry_pushes_next_pc_ordinary (i : Fin 3) (c : Core) (a1 a2 : U32)
    (h1 : OrdinaryAt c.bus (c.regs.sp - 1) a1) (h2 : OrdinaryAt c.bus (c.regs.sp - 2) a2) :
    (enterLine i).run c = .ok ((),
      { c with
        regs := entryRegs i c.regs
        idle := false
        bus := { c.bus with mem := (c.bus.mem.write (Mem.byteAddr a1 / 2) (pcWords c.regs).1).write
                                      (Mem.byteAddr a2 / 2) (pcWords c.regs).2 }
        log := ⟨Mem.byteAddr a2, true, (pcWords c.regs).2⟩ ::
               ⟨Mem.byteAddr a1, true, (pcWords c.regs).1⟩ :: c.log }) := by
  rw [enterLine_run, busWrite_ordinary c _ _ a1 h1]
  simp only [except_ok_bind]
  have e := busWrite_ordinary
    ({ c with bus := { c.bus with mem := c.bus.mem.write (Mem.byteAddr a1 / 2) (pcWords c.regs).1 }
              log := ⟨Mem.byteAddr a1, true, (pcWords c.regs).1⟩ :: c.log } : Core)
    (c.regs.sp - 2) (pcWords c.regs).2 a2 (h2.after_write _)
  rw [e]
  rfl

theorem vectored_entry_pushes_next_pc_ordinary (c : Core) (a1 a2 : U32)
    (h1 : OrdinaryAt c.bus (c.regs.sp - 1) a1) (h2 : OrdinaryAt c.bus (c.regs.sp - 2) a2) :
    enterVectored.run c = .ok ((),
      { c with
        regs := vecEntryRegs c.vaddr c.vctx c.regs
        idle := false
        bus := { c.bus with mem := (c.bus.mem.write (Mem.byteAddr a1 / 2) (pcWords c.regs).1).write
                                      (Mem.byteAddr a2 / 2) (pcWords c.regs).2 }
        log := ⟨Mem.byteAddr a2, true, (pcWords c.regs).2⟩ ::
               ⟨Mem.byteAddr a1, true, (pcWords c.regs).1⟩ :: c.log }) := by
  rw [enterVectored_run, busWrite_ordinary c _ _ a1 h1]
  simp only [except_ok_bind]
  have e := busWrite_ordinary
    ({ c with bus := { c.bus with mem := c.bus.mem.write (Mem.byteAddr a1 / 2) (pcWords c.regs).1 }
              log := ⟨Mem.byteAddr a1, true, (pcWords c.regs).1⟩ :: c.log } : Core)
    (c.regs.sp - 2) (pcWords c.regs).2 a2 (h2.after_write _)
  rw [e]
  rfl
end Teakra
