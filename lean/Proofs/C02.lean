import TeakraModel.Decode
/-!
# C02 — every opcode decodes one way; the second word is taken exactly when the form says so;
unused bits are irrelevant

All theorems are about `Teakra.Decode.table`, the table that `tools/translate_decode.py` regenerates
from `/repo/src/decoder.h` + `operand.h` on every check run, so they are re-proved whenever the
encoding changes.  The kernel cannot enumerate 65536 words × 443 patterns; uniqueness is therefore
proved from a *certificate*: an executable pair check `pairDisjoint`, proved sound once and for all,
evaluated by the kernel on all pairs of the table.  The tie between the table and the C++ is the
exhaustive `dec` correspondence run (`checks/c02.py`).
-/
namespace Teakra.Decode

/-! ## The pair certificate -/

/-- The fixed bits of the two patterns contradict each other. -/
def clash (p q : Pat) : Bool := (p.expected ^^^ q.expected) &&& p.mask &&& q.mask != 0

/-- Some rejector looks only at bits fixed by the cube `(m, v)` (all `n` with `n &&& m = v`) and
rejects their value: every word of the cube is rejected. -/
def rejHit (rs : List (Nat × Nat)) (m v : Nat) : Bool :=
  rs.any (fun r => (r.1 &&& m == r.1) && (v &&& r.1 == r.2))

/-- Every word of the cube `(m, v)` is rejected by one of `rs`; decided by splitting the cube on the
listed bits (any list is sound; the list only determines how far the search goes). -/
def cubeEmpty (rs : List (Nat × Nat)) : List Nat → Nat → Nat → Bool
  | [], m, v => rejHit rs m v
  | b :: bs, m, v =>
    rejHit rs m v || (cubeEmpty rs bs (m ||| 2 ^ b) v && cubeEmpty rs bs (m ||| 2 ^ b) (v ||| 2 ^ b))

/-- OR of the rejector masks. -/
def rejUnion (rs : List (Nat × Nat)) : Nat := rs.foldr (fun r acc => r.1 ||| acc) 0

/-- Bits some rejector of `p` or `q` looks at that neither pattern fixes. -/
def freeBits (p q : Pat) : List Nat :=
  (List.range 16).filter fun i =>
    (rejUnion (p.rejectors ++ q.rejectors)).testBit i && !(p.mask ||| q.mask).testBit i

/-- No word is matched by both `p` and `q`: either their fixed bits clash or, on the overlap cube,
every assignment of the free rejector bits is rejected by one side. -/
def pairDisjoint (p q : Pat) : Bool :=
  clash p q ||
    cubeEmpty (p.rejectors ++ q.rejectors) (freeBits p q) (p.mask ||| q.mask) (p.expected ||| q.expected)

/-- All pairs of different table positions are disjoint. -/
def allPairs : List Pat → Bool
  | [] => true
  | p :: ps => ps.all (pairDisjoint p) && allPairs ps

/-! ### Soundness of the certificate (no table enumeration) -/

private theorem clash_sound {n pm pe qm qe : Nat} (hp : n &&& pm = pe) (hq : n &&& qm = qe) :
    (pe ^^^ qe) &&& pm &&& qm = 0 := by
  subst hp; subst hq
  apply Nat.eq_of_testBit_eq; intro i
  simp only [Nat.testBit_and, Nat.testBit_xor, Nat.zero_testBit]
  cases n.testBit i <;> cases pm.testBit i <;> cases qm.testBit i <;> rfl

private theorem cube_union {n pm pe qm qe : Nat} (hp : n &&& pm = pe) (hq : n &&& qm = qe) :
    n &&& (pm ||| qm) = pe ||| qe := by
  subst hp; subst hq; exact Nat.and_or_distrib_left ..

private theorem rej_entailed {n m v rm ru : Nat} (hn : n &&& m = v) (h1 : rm &&& m = rm)
    (h2 : v &&& rm = ru) : n &&& rm = ru := by
  subst hn; subst h2
  apply Nat.eq_of_testBit_eq; intro i
  have := congrArg (·.testBit i) h1
  simp only [Nat.testBit_and] at this ⊢
  revert this
  cases n.testBit i <;> cases m.testBit i <;> cases rm.testBit i <;> simp

private theorem cube_split {n m v : Nat} (b : Nat) (hn : n &&& m = v) :
    n &&& (m ||| 2 ^ b) = v ∨ n &&& (m ||| 2 ^ b) = v ||| 2 ^ b := by
  subst hn
  cases h : n.testBit b
  · left; apply Nat.eq_of_testBit_eq; intro i
    simp only [Nat.testBit_and, Nat.testBit_or, Nat.testBit_two_pow]
    by_cases hb : b = i
    · subst hb; simp [h]
    · simp [hb]
  · right; apply Nat.eq_of_testBit_eq; intro i
    simp only [Nat.testBit_and, Nat.testBit_or, Nat.testBit_two_pow]
    by_cases hb : b = i
    · subst hb; simp [h]
    · simp [hb]

private theorem rejHit_sound {rs : List (Nat × Nat)} {m v n : Nat} (h : rejHit rs m v = true)
    (hn : n &&& m = v) : rs.any (rejects · n) = true := by
  simp only [rejHit, List.any_eq_true, Bool.and_eq_true, beq_iff_eq] at h ⊢
  obtain ⟨r, hr, h1, h2⟩ := h
  exact ⟨r, hr, by simpa [rejects] using rej_entailed hn h1 h2⟩

/-- A cube the checker declares empty contains no word that escapes all the rejectors. -/
theorem cubeEmpty_sound {rs : List (Nat × Nat)} {bits : List Nat} {m v n : Nat}
    (h : cubeEmpty rs bits m v = true) (hn : n &&& m = v) : rs.any (rejects · n) = true := by
  induction bits generalizing m v with
  | nil => exact rejHit_sound h hn
  | cons b bs ih =>
    simp only [cubeEmpty, Bool.or_eq_true, Bool.and_eq_true] at h
    rcases h with h | ⟨h0, h1⟩
    · exact rejHit_sound h hn
    · rcases cube_split b hn with hs | hs
      · exact ih h0 hs
      · exact ih h1 hs

private theorem matchesN_parts {p : Pat} {n : Nat} (h : p.matchesN n = true) :
    n &&& p.mask = p.expected ∧ p.rejectors.any (rejects · n) = false := by
  simp only [Pat.matchesN, Bool.and_eq_true, beq_iff_eq] at h
  refine ⟨h.1, ?_⟩
  have h2 := h.2
  rw [Bool.eq_false_iff]; intro hc
  simp only [List.any_eq_true] at hc
  simp only [List.all_eq_true] at h2
  obtain ⟨r, hr, hrej⟩ := hc
  have := h2 r hr
  simp [hrej] at this

theorem pairDisjointN_sound {p q : Pat} (h : pairDisjoint p q = true) (n : Nat) :
    ¬(p.matchesN n = true ∧ q.matchesN n = true) := by
  rintro ⟨hp, hq⟩
  obtain ⟨hp1, hp2⟩ := matchesN_parts hp
  obtain ⟨hq1, hq2⟩ := matchesN_parts hq
  simp only [pairDisjoint, Bool.or_eq_true] at h
  rcases h with h | h
  · simp only [clash, bne_iff_ne, ne_eq] at h
    exact h (clash_sound hp1 hq1)
  · have := cubeEmpty_sound h (cube_union hp1 hq1)
    simp [List.any_append, hp2, hq2] at this

/-- **Soundness of the pair check**: if `pairDisjoint p q` evaluates to `true`, no 16-bit word is
matched by both patterns. -/
theorem pairDisjoint_sound {p q : Pat} (h : pairDisjoint p q = true) :
    ∀ w : BitVec 16, ¬(p.matches w ∧ q.matches w) :=
  fun w => pairDisjointN_sound h w.toNat

private theorem allPairs_pairwise {t : List Pat} (h : allPairs t = true) :
    t.Pairwise (fun p q => ∀ w : BitVec 16, ¬(p.matches w ∧ q.matches w)) := by
  induction t with
  | nil => exact List.Pairwise.nil
  | cons p ps ih =>
    simp only [allPairs, Bool.and_eq_true, List.all_eq_true] at h
    exact List.Pairwise.cons (fun q hq => pairDisjoint_sound (h.1 q hq)) (ih h.2)

private theorem filter_le_one {t : List Pat} {w : BitVec 16}
    (h : t.Pairwise (fun p q => ∀ w : BitVec 16, ¬(p.matches w ∧ q.matches w))) :
    (t.filter (·.matches w)).length ≤ 1 := by
  induction t with
  | nil => simp
  | cons p ps ih =>
    rw [List.pairwise_cons] at h
    by_cases hp : p.matches w = true
    · have : ps.filter (·.matches w) = [] := by
        rw [List.filter_eq_nil_iff]; intro q hq hqm
        exact h.1 q hq w ⟨hp, hqm⟩
      simp [hp, this]
    · simp only [List.filter_cons, hp]
      exact ih h.2

private theorem mem_eq_of_both_match {t : List Pat} {w : BitVec 16} {p q : Pat}
    (h : t.Pairwise (fun p q => ∀ w : BitVec 16, ¬(p.matches w ∧ q.matches w)))
    (hp : p ∈ t) (hq : q ∈ t) (hpm : p.matches w = true) (hqm : q.matches w = true) : p = q := by
  induction t with
  | nil => cases hp
  | cons a as ih =>
    rw [List.pairwise_cons] at h
    rcases List.mem_cons.1 hp with rfl | hp'
    · rcases List.mem_cons.1 hq with rfl | hq'
      · rfl
      · exact absurd ⟨hpm, hqm⟩ (h.1 q hq' w)
    · rcases List.mem_cons.1 hq with rfl | hq'
      · exact absurd ⟨hqm, hpm⟩ (h.1 p hp' w)
      · exact ih h.2 hp' hq'

/-! ## The table certificates (re-evaluated by the kernel whenever the table is regenerated) -/

/-- Kernel-checked certificate: all 97 903 pairs of the generated table are disjoint. -/
theorem table_allPairs : allPairs table = true := by decide +kernel

/-- **Each 16-bit word selects at most one instruction form**: at most one entry of the decode table
matches it (so the `ASSERT(other == table.end())` in `Decode<V>` never fires, and the interpreter,
disassembler, assembler and generator, which all call `Decode<V>` on the same table, cannot see
different forms for a word). -/
theorem decode_unique (w : BitVec 16) : (table.filter (·.matches w)).length ≤ 1 :=
  filter_le_one (allPairs_pairwise table_allPairs)

/-- Whatever order a consumer scans the table in, a matching entry is *the* decoded form. -/
theorem decode_eq_of_matches {p : Pat} {w : BitVec 16} (hp : p ∈ table) (hm : p.matches w = true) :
    decode w = some p := by
  unfold decode decodeIn
  cases h : table.find? (·.matches w) with
  | none =>
    rw [List.find?_eq_none] at h
    exact absurd hm (h p hp)
  | some q =>
    have hq := List.mem_of_find?_eq_some h
    have hqm : q.matches w = true := by simpa using List.find?_some h
    rw [mem_eq_of_both_match (allPairs_pairwise table_allPairs) hq hp hqm hm]

/-- `decode` returns an entry of the table that matches. -/
theorem decode_some {p : Pat} {w : BitVec 16} (h : decode w = some p) : p ∈ table ∧ p.matches w = true := by
  unfold decode decodeIn at h
  exact ⟨List.mem_of_find?_eq_some h, by simpa using List.find?_some h⟩

/-! ## Operand layout: the `NoOverlap` static_assert, the mask, the expansion flag -/

/-- The fixed pattern followed by every operand mask (`Unused` included). -/
def Pat.fields (p : Pat) : List Nat := p.expected :: p.operands.map Operand.mask

def disjointList : List Nat → Bool
  | [] => true
  | a :: as => as.all (fun b => a &&& b == 0) && disjointList as

private theorem disjointList_sound {l : List Nat} (h : disjointList l = true) :
    l.Pairwise (fun a b => a &&& b = 0) := by
  induction l with
  | nil => exact List.Pairwise.nil
  | cons a as ih =>
    simp only [disjointList, Bool.and_eq_true, List.all_eq_true, beq_iff_eq] at h
    exact List.Pairwise.cons h.1 (ih h.2)

private theorem table_disjoint : table.all (fun p => disjointList p.fields) = true := by decide +kernel

/-- **Re-proof of `static_assert(NoOverlap<u16, expected, OperandAtT::Mask...>)`**: in every entry the
expected bits and the masks of all operands, unused bits included, are pairwise disjoint. -/
theorem operands_disjoint : ∀ p ∈ table, p.fields.Pairwise (fun a b => a &&& b = 0) := by
  intro p hp
  exact disjointList_sound (by simpa using (List.all_eq_true.1 table_disjoint) p hp)

/-- The same fact in the form the C++ states it: the sum of the masks equals their OR. -/
theorem noOverlap_static_assert :
    ∀ p ∈ table, p.fields.foldr (· + ·) 0 = p.fields.foldr (· ||| ·) 0 := by decide +kernel

/-- **The emitted mask is the complement of the union of the operand masks** (16 bits), as
`MatcherCreator::Create` computes it; hence operand bits are exactly the bits not compared. -/
theorem mask_covers : ∀ p ∈ table, p.mask = 0xFFFF ^^^ p.operandUnion ∧ p.operandUnion ≤ 0xFFFF := by
  decide +kernel

/-- The fixed pattern lies within the compared bits and fits 16 bits (else nothing would match). -/
theorem expected_within_mask : ∀ p ∈ table, p.expected &&& p.mask = p.expected ∧ p.expected < 65536 := by
  decide +kernel

/-- **An entry is marked as needing the expansion word exactly when one of its operands is taken
from the expansion word** (`pos = 16`). -/
theorem expanded_iff : ∀ p ∈ table, (p.expanded = true ↔ ∃ o ∈ p.operands, o.pos = 16) := by
  decide +kernel

/-- The decoder's two-word answer in terms of the decoded form's operands. -/
theorem needExpansion_iff (w : BitVec 16) :
    needExpansion w = true ↔ ∃ p, decode w = some p ∧ ∃ o ∈ p.operands, o.pos = 16 := by
  unfold needExpansion
  cases h : decode w with
  | none => simp
  | some p =>
    have := expanded_iff p (decode_some h).1
    simp [this]

/-! ## Unused bits -/

/-- Bit `u` is outside the compared bits, outside every rejector and outside every passed operand. -/
def unusedOkAt (p : Pat) (u : Nat) : Bool :=
  decide (u < 16) && !p.mask.testBit u && p.rejectors.all (fun r => !r.1.testBit u) &&
    p.operands.all (fun o => o.isUnused || !o.mask.testBit u)

def unusedOk (p : Pat) : Bool := p.unusedBits.all (unusedOkAt p)

private theorem table_unusedOk : table.all unusedOk = true := by decide +kernel

private theorem flip_and {n m u : Nat} (h : m.testBit u = false) : (n ^^^ 2 ^ u) &&& m = n &&& m := by
  apply Nat.eq_of_testBit_eq; intro i
  simp only [Nat.testBit_and, Nat.testBit_xor, Nat.testBit_two_pow]
  by_cases hb : u = i
  · subst hb; simp [h]
  · simp [hb]

private theorem toNat_flip {w : BitVec 16} {u : Nat} (hu : u < 16) :
    (w ^^^ bit u).toNat = w.toNat ^^^ 2 ^ u := by
  have : 2 ^ u < 2 ^ 16 := Nat.pow_lt_pow_right (by decide) hu
  simp [bit, BitVec.toNat_xor, BitVec.toNat_twoPow, Nat.mod_eq_of_lt this]

private theorem extract_flip {o : Operand} {n e u : Nat} (h : o.isUnused = true ∨ o.mask.testBit u = false) :
    o.extract (n ^^^ 2 ^ u) e = o.extract n e := by
  unfold Operand.extract
  rcases h with h | h
  · simp [h]
  · rw [flip_and h]

private theorem filterMap_congr' {α β : Type} {f g : α → Option β} {l : List α}
    (h : ∀ a ∈ l, f a = g a) : l.filterMap f = l.filterMap g := by
  induction l with
  | nil => rfl
  | cons a as ih =>
    simp only [List.filterMap_cons, h a (List.mem_cons_self ..)]
    rw [ih (fun b hb => h b (List.mem_cons_of_mem _ hb))]

private theorem unusedOkAt_sound {p : Pat} {u : Nat} (h : unusedOkAt p u = true) (w e : BitVec 16)
    (hm : p.matches w = true) :
    p.matches (w ^^^ bit u) = true ∧ p.extract (w ^^^ bit u) e = p.extract w e := by
  simp only [unusedOkAt, Bool.and_eq_true, decide_eq_true_eq, Bool.not_eq_true', List.all_eq_true,
    Bool.or_eq_true] at h
  obtain ⟨⟨⟨hu, hmask⟩, hrej⟩, hops⟩ := h
  constructor
  · simp only [Pat.matches, Pat.matchesN, toNat_flip hu, flip_and hmask, Bool.and_eq_true, beq_iff_eq,
      List.all_eq_true] at hm ⊢
    refine ⟨hm.1, fun r hr => ?_⟩
    have := hm.2 r hr
    simpa [rejects, flip_and (hrej r hr)] using this
  · simp only [Pat.extract, Pat.extractN, toNat_flip hu]
    exact filterMap_congr' (fun o ho => extract_flip (hops o ho))

/-- **Bits the encoding marks as unused never change what is decoded**: flipping a bit declared
`Unused<u>` in a matching word keeps the same entry matching and hands the visitor exactly the same
operand values.  The interpreter's effect and the disassembler's text are functions of
(entry, operand values), so neither can depend on the bit.  (The kernel-checked side condition is that
the bit is outside the compared bits, outside every `.EXCEPT` mask and outside every passed operand.) -/
theorem unused_irrelevant {p : Pat} {u : Nat} (hp : p ∈ table) (hu : u ∈ p.unusedBits)
    (w e : BitVec 16) (hm : p.matches w = true) :
    p.matches (w ^^^ bit u) = true ∧ p.extract (w ^^^ bit u) e = p.extract w e := by
  have h1 := (List.all_eq_true.1 table_unusedOk) p hp
  have h2 := (List.all_eq_true.1 (show p.unusedBits.all (unusedOkAt p) = true from h1)) u hu
  exact unusedOkAt_sound h2 w e hm

/-- Consequently the decoded form is the same for both words. -/
theorem unused_same_decode {p : Pat} {u : Nat} (hu : u ∈ p.unusedBits) (w : BitVec 16)
    (h : decode w = some p) : decode (w ^^^ bit u) = some p :=
  decode_eq_of_matches (decode_some h).1 (unused_irrelevant (decode_some h).1 hu w 0 (decode_some h).2).1

/-! ## Non-vacuity -/

/-- Every entry is matched by some word (its own fixed pattern): no hypothesis `p.matches w` above is
vacuous, and no entry is dead. -/
theorem expected_matches : ∀ p ∈ table, p.matches (BitVec.ofNat 16 p.expected) = true := by
  decide +kernel

/-- `0x80C0` (`alu Imm16`) decodes to a two-word form whose second operand is the expansion word. -/
example : (decode 0x80C0#16).map (fun p => (p.name, p.expanded, p.extract 0x80C0#16 0x1234#16))
    = some ("alu", true, [0, 0x1234, 0]) := by decide +kernel

/-- The same entry has rejectors: with the `Alu` field = 4 (`0x88C0`) the fixed bits still agree but the
entry does not match, and the word is undefined. -/
example : ((decode 0x80C0#16).map (·.rejectors) = some [(0x0E00, 0x0800), (0x0E00, 0x0A00)]) ∧
    ((decode 0x80C0#16).map (fun p => 0x88C0 &&& p.mask == p.expected) = some true) ∧
    ((decode 0x80C0#16).map (·.matches 0x88C0#16) = some false) ∧
    (decode 0x88C0#16 = none) := by decide +kernel

/-- A pair that is separated only by a rejector (fixed bits compatible): `mov Register,Register`
against `mma_mov`-style overrides is decided by the cube search, not by `clash`. -/
example : ∃ p ∈ table, ∃ q ∈ table, clash p q = false ∧ pairDisjoint p q = true := by decide +kernel

/-- `0x5F48`/`0x5F49` differ in an unused bit of `bkreprst_memsp`: same form. -/
example : (decode 0x5F48#16).map (·.name) = some "bkreprst_memsp" ∧
    (decode 0x5F48#16).map (·.unusedBits) = some [0, 1] ∧
    (decode (0x5F48#16 ^^^ bit 0)).map (·.name) = some "bkreprst_memsp" := by decide +kernel

/-- Some word is undefined (matched by no entry). -/
example : ∃ w : BitVec 16, decode w = none := ⟨0x0021#16, by decide +kernel⟩

end Teakra.Decode
