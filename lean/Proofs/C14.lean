import TeakraModel.Apbp
/-!
# C14 — mailbox data channels and semaphores of the APBP block

Property theorems about `Teakra.Apbp` (model of `src/apbp.cpp`) and about the MMIO wiring of the
two instances (`statusD6`, `statusD8` of `src/mmio.cpp`, host API of `src/teakra.cpp`); the tie
to the C++ is the `apbp` / `apbpsys` correspondence slices.  Helper lemmas are `private`.

`fixed = false` is the pinned upstream `Apbp::MaskSemaphore` (stores the mask only); `fixed =
true` the repaired one (recomputes `semaphore_master_signal`, calls the handler on a rise).
The clause "the signal flag always equals ((semaphore AND NOT mask) is non-zero)" is **false**
for the upstream code (`signal_eq_upstream_counterexample`) and proved for the repaired code
(`signal_eq`); `signal_eq_partial` is what survives for the upstream code.
-/
namespace Teakra.Apbp

/-! ## abstract specification: three mailboxes and one semaphore word -/

/-- A mailbox: the last written value and the data-ready flag. -/
@[ext] structure Mailbox where
  value : U16
  ready : Bool

/-- The semaphore register pair; the signal is *derived*, not stored. -/
@[ext] structure Sem where
  bits : U16
  mask : U16

/-- `(bits AND NOT mask) ≠ 0` -/
def Sem.signal (s : Sem) : Bool := s.bits &&& ~~~s.mask != 0

@[ext] structure Spec where
  box        : Fin 3 → Mailbox
  /-- interrupt-disable word per channel (the interrupt is disabled iff it is non-zero) -/
  irqDisable : Fin 3 → U16
  sem        : Sem

/-- Pointwise update of a per-channel table. -/
def upd {α : Type} (f : Fin 3 → α) (i : Fin 3) (x : α) : Fin 3 → α := fun j => if j = i then x else f j

/-- Abstraction map: forget `semaphore_master_signal` (the specification derives it). -/
def abs (a : Apbp) : Spec where
  box i := ⟨a.dataChannels[i].data, a.dataChannels[i].ready⟩
  irqDisable i := a.dataChannels[i].disableInterrupt
  sem := ⟨a.semaphore, a.semaphoreMask⟩

/-- The stored flag agrees with the derived signal. -/
def SignalOk (a : Apbp) : Prop := a.semaphoreMasterSignal = signalOf a.semaphore a.semaphoreMask
instance : DecidablePred SignalOk := fun _ => inferInstanceAs (Decidable (_ = _))

/-- Every public operation of the block, from either side. -/
inductive Op where
  | reset
  | send (ch : Fin 3) (v : U16) | recv (ch : Fin 3) | peek (ch : Fin 3) | isReady (ch : Fin 3)
  | setDisable (ch : Fin 3) (v : U16) | getDisable (ch : Fin 3)
  | semSet (bits : U16) | semClear (bits : U16) | semMask (bits : U16)
  | semGet | maskGet | signaled
  deriving DecidableEq, Repr

/-- Observable result of one operation: returned word (0 for `void`, 0/1 for `bool`) and the
handler calls it made. -/
abbrev Out := U16 × List ApbpEvent

def ofBool (b : Bool) : U16 := if b then 1 else 0

/-- One operation on the model of the C++ object. -/
def step (fixed : Bool) (a : Apbp) : Op → Apbp × Out
  | .reset => (a.reset, 0, [])
  | .send ch v => ((a.sendData ch v).1, 0, (a.sendData ch v).2)
  | .recv ch => ((a.recvData ch).1, (a.recvData ch).2, [])
  | .peek ch => (a, a.peekData ch, [])
  | .isReady ch => (a, ofBool (a.isDataReady ch), [])
  | .setDisable ch v => (a.setDisableInterrupt ch v, 0, [])
  | .getDisable ch => (a, a.getDisableInterrupt ch, [])
  | .semSet b => ((a.setSemaphore b).1, 0, (a.setSemaphore b).2)
  | .semClear b => (a.clearSemaphore b, 0, [])
  | .semMask m => ((a.maskSemaphoreGen fixed m).1, 0, (a.maskSemaphoreGen fixed m).2)
  | .semGet => (a, a.getSemaphore, [])
  | .maskGet => (a, a.getSemaphoreMask, [])
  | .signaled => (a, ofBool a.isSemaphoreSignaled, [])

/-- A history: final state and the outputs in order. -/
def run (fixed : Bool) : List Op → Apbp → Apbp × List Out
  | [], a => (a, [])
  | op :: ops, a => ((run fixed ops (step fixed a op).1).1, (step fixed a op).2 :: (run fixed ops (step fixed a op).1).2)

/-- The same operation on the specification.  The peer is interrupted by `send` unless the
channel's interrupt is disabled, by `semSet` when the resulting signal is 1, by `semMask` when
the signal rises, never by `semClear`. -/
def Spec.step (s : Spec) : Op → Spec × Out
  | .reset => ({ s with box := fun _ => ⟨0, false⟩, irqDisable := fun _ => 0, sem := ⟨0, 0⟩ }, 0, [])
  | .send ch v => ({ s with box := upd s.box ch ⟨v, true⟩ }, 0,
      if s.irqDisable ch = 0 then [.data ch] else [])
  | .recv ch => ({ s with box := upd s.box ch ⟨(s.box ch).value, false⟩ }, (s.box ch).value, [])
  | .peek ch => (s, (s.box ch).value, [])
  | .isReady ch => (s, ofBool (s.box ch).ready, [])
  | .setDisable ch v => ({ s with irqDisable := upd s.irqDisable ch v }, 0, [])
  | .getDisable ch => (s, s.irqDisable ch, [])
  | .semSet b => ({ s with sem := ⟨s.sem.bits ||| b, s.sem.mask⟩ }, 0,
      if (Sem.mk (s.sem.bits ||| b) s.sem.mask).signal then [.semaphore] else [])
  | .semClear b => ({ s with sem := ⟨s.sem.bits &&& ~~~b, s.sem.mask⟩ }, 0, [])
  | .semMask m => ({ s with sem := ⟨s.sem.bits, m⟩ }, 0,
      if (Sem.mk s.sem.bits m).signal && !s.sem.signal then [.semaphore] else [])
  | .semGet => (s, s.sem.bits, [])
  | .maskGet => (s, s.sem.mask, [])
  | .signaled => (s, ofBool s.sem.signal, [])

def Spec.run : List Op → Spec → Spec × List Out
  | [], s => (s, [])
  | op :: ops, s => ((Spec.run ops (s.step op).1).1, (s.step op).2 :: (Spec.run ops (s.step op).1).2)

/-! ## helper lemmas -/

private theorem abs_setChannel (a : Apbp) (ch : Fin 3) (c : DataChannel) :
    abs { a with dataChannels := a.dataChannels.set ch c } =
      { abs a with box := upd (abs a).box ch ⟨c.data, c.ready⟩,
                   irqDisable := upd (abs a).irqDisable ch c.disableInterrupt } := by
  apply Spec.ext
  · funext j
    by_cases h : j = ch
    · subst h; simp [abs, upd]
    · have : (ch : Nat) ≠ j := fun h' => h (Fin.ext h'.symm)
      simp [abs, upd, h, Vector.getElem_set_ne, this]
  · funext j
    by_cases h : j = ch
    · subst h; simp [abs, upd]
    · have : (ch : Nat) ≠ j := fun h' => h (Fin.ext h'.symm)
      simp [abs, upd, h, Vector.getElem_set_ne, this]
  · rfl

private theorem upd_self {α : Type} (f : Fin 3 → α) (i : Fin 3) : upd f i (f i) = f := by
  funext j; unfold upd; split
  · rename_i h; rw [h]
  · rfl

/-- `x & n = x & ((x | b) & n)` -/
private theorem and_or_absorb (s b n : U16) : s &&& n = s &&& ((s ||| b) &&& n) := by
  ext i hi; simp; cases s[i] <;> simp

/-- `(x & ~b) & n = (x & ~b) & (x & n)` -/
private theorem andnot_absorb (s b n : U16) : (s &&& ~~~b) &&& n = (s &&& ~~~b) &&& (s &&& n) := by
  ext i hi; simp; cases s[i] <;> simp

/-- Setting bits cannot turn a non-zero signal into zero. -/
private theorem signalOf_or (s b m : U16) (h : signalOf s m = true) : signalOf (s ||| b) m = true := by
  unfold signalOf at *
  simp only [bne_iff_ne, ne_eq] at *
  intro h'; apply h
  rw [and_or_absorb s b, h']; simp

/-- Clearing bits cannot turn a zero signal into non-zero. -/
private theorem signalOf_andnot (s b m : U16) (h : signalOf s m = false) :
    signalOf (s &&& ~~~b) m = false := by
  unfold signalOf at *
  simp only [bne_eq_false_iff_eq] at *
  rw [andnot_absorb, h]; simp

/-! ## refinement -/

/-- **Every operation of the repaired code refines the specification.**  From a state whose
stored flag agrees with the derived signal, the operation returns exactly the specification's
output (returned word and handler calls), commutes with the abstraction map, and re-establishes
the agreement. -/
theorem step_refines (a : Apbp) (h : SignalOk a) (op : Op) :
    (abs a).step op = (abs (step true a op).1, (step true a op).2) ∧ SignalOk (step true a op).1 := by
  unfold SignalOk at h
  cases op with
  | reset =>
    refine ⟨?_, by simp [SignalOk, step, reset, signalOf]⟩
    simp only [Spec.step, step, reset, Prod.mk.injEq, and_true]
    apply Spec.ext
    · funext j; simp [abs, DataChannel.reset]
    · funext j; simp [abs, DataChannel.reset]
    · rfl
  | send ch v =>
    refine ⟨?_, h⟩
    simp only [Spec.step, step, sendData, DataChannel.send, abs_setChannel]
    simp [abs, upd_self]
    split <;> simp_all
  | recv ch =>
    refine ⟨?_, h⟩
    simp only [Spec.step, step, recvData, DataChannel.recv, abs_setChannel]
    simp [abs, upd_self]
  | peek ch => exact ⟨rfl, h⟩
  | isReady ch => exact ⟨rfl, h⟩
  | setDisable ch v =>
    refine ⟨?_, h⟩
    simp only [Spec.step, step, setDisableInterrupt, DataChannel.setDisableInterrupt, abs_setChannel]
    simp [abs, upd_self]
  | getDisable ch => exact ⟨rfl, h⟩
  | semSet b =>
    constructor
    · rfl
    · show (a.semaphoreMasterSignal || signalOf (a.semaphore ||| b) a.semaphoreMask)
        = signalOf (a.semaphore ||| b) a.semaphoreMask
      rw [h]
      cases hs : signalOf a.semaphore a.semaphoreMask
      · simp
      · simp [signalOf_or _ b _ hs]
  | semClear b => exact ⟨rfl, rfl⟩
  | semMask m =>
    constructor
    · simp only [Spec.step, step, maskSemaphoreGen, if_true, Prod.mk.injEq, true_and]
      refine ⟨rfl, ?_⟩
      rw [h]; rfl
    · rfl
  | semGet => exact ⟨rfl, h⟩
  | maskGet => exact ⟨rfl, h⟩
  | signaled =>
    refine ⟨?_, h⟩
    simp only [Spec.step, step, isSemaphoreSignaled, h]; rfl

/-- **History-level refinement.**  Over every sequence of send / receive / peek / ready-query /
interrupt-disable / set / acknowledge / mask / reset operations, the repaired code produces
exactly the specification's sequence of outputs and ends in a state that abstracts to the
specification's final state, with the stored flag equal to the derived signal. -/
theorem run_refines (ops : List Op) : ∀ (a : Apbp), SignalOk a →
    (abs a).run ops = (abs (run true ops a).1, (run true ops a).2) ∧ SignalOk (run true ops a).1 := by
  induction ops with
  | nil => intro a h; exact ⟨rfl, h⟩
  | cons op ops ih =>
    intro a h
    have hs := step_refines a h op
    have hr := ih _ hs.2
    refine ⟨?_, hr.2⟩
    simp only [Spec.run, run, hs.1, hr.1]

/-! ## data channels -/

/-- Writing a data channel sets its data-ready flag (and stores the value; nothing else moves:
the other channels, the interrupt-disable words and the semaphore are untouched). -/
theorem send_sets_ready (a : Apbp) (ch : Fin 3) (v : U16) :
    (a.sendData ch v).1.isDataReady ch = true ∧ (a.sendData ch v).1.peekData ch = v ∧
    abs (a.sendData ch v).1 = { abs a with box := upd (abs a).box ch ⟨v, true⟩ } ∧
    (a.sendData ch v).1.semaphoreMasterSignal = a.semaphoreMasterSignal := by
  refine ⟨?_, ?_, ?_, rfl⟩
  · simp [sendData, DataChannel.send, isDataReady, DataChannel.isReady]
  · simp [sendData, DataChannel.send, peekData, DataChannel.peek]
  · simp only [sendData, DataChannel.send, abs_setChannel]; simp [abs, upd_self]

/-- … and raises the peer's interrupt unless that channel's interrupt is disabled: the handler
calls made by a write are exactly `[data ch]` if the disable word is zero and none otherwise
(in particular never the semaphore handler or another channel's). -/
theorem send_irq_iff_enabled (a : Apbp) (ch : Fin 3) (v : U16) :
    (a.sendData ch v).2 = (if a.getDisableInterrupt ch = 0 then [ApbpEvent.data ch] else []) ∧
    (ApbpEvent.data ch ∈ (a.sendData ch v).2 ↔ a.getDisableInterrupt ch = 0) := by
  have h1 : (a.sendData ch v).2 = (if a.getDisableInterrupt ch = 0 then [ApbpEvent.data ch] else []) := by
    simp [sendData, DataChannel.send, getDisableInterrupt, DataChannel.getDisableInterrupt]
    split <;> simp_all
  refine ⟨h1, ?_⟩
  rw [h1]; split <;> simp_all

/-- Operations that overwrite the value stored in channel `ch`. -/
def Op.writes (ch : Fin 3) : Op → Prop
  | .send c _ => c = ch
  | .reset => True
  | _ => False

private theorem step_data (fixed : Bool) (a : Apbp) (ch : Fin 3) (op : Op) (h : ¬ op.writes ch) :
    (step fixed a op).1.dataChannels[ch].data = a.dataChannels[ch].data := by
  cases op with
  | reset => exact absurd trivial h
  | send c v =>
    have hc : c ≠ ch := h
    have : (c : Nat) ≠ ch := fun h' => hc (Fin.ext h')
    simp [step, sendData, Vector.getElem_set_ne, this]
  | recv c =>
    by_cases hc : c = ch
    · subst hc; simp [step, recvData, DataChannel.recv]
    · have : (c : Nat) ≠ ch := fun h' => hc (Fin.ext h')
      simp [step, recvData, Vector.getElem_set_ne, this]
  | setDisable c v =>
    by_cases hc : c = ch
    · subst hc; simp [step, setDisableInterrupt, DataChannel.setDisableInterrupt]
    · have : (c : Nat) ≠ ch := fun h' => hc (Fin.ext h')
      simp [step, setDisableInterrupt, Vector.getElem_set_ne, this]
  | semMask m => cases fixed <;> rfl
  | _ => rfl

private theorem run_data (fixed : Bool) (ch : Fin 3) (ops : List Op) : ∀ (a : Apbp),
    (∀ op ∈ ops, ¬ op.writes ch) →
    (run fixed ops a).1.dataChannels[ch].data = a.dataChannels[ch].data := by
  induction ops with
  | nil => intro a _; rfl
  | cons op ops ih =>
    intro a h
    simp only [run]
    rw [ih _ (fun o ho => h o (List.mem_cons_of_mem _ ho)), step_data fixed a ch op (h op List.mem_cons_self)]

/-- Reading a channel returns the most recently written value: after a write of `v` and *any*
history that contains no further write to (or reset of) that channel — reads and peeks of it
included — a read (and a peek) returns `v`.  Holds for the upstream and the repaired code alike. -/
theorem recv_returns_last (fixed : Bool) (a : Apbp) (ch : Fin 3) (v : U16) (ops : List Op)
    (h : ∀ op ∈ ops, ¬ op.writes ch) :
    ((run fixed ops (a.sendData ch v).1).1.recvData ch).2 = v ∧
    (run fixed ops (a.sendData ch v).1).1.peekData ch = v := by
  have h0 : (a.sendData ch v).1.dataChannels[ch].data = v := by simp [sendData, DataChannel.send]
  simp only [recvData, DataChannel.recv, peekData, DataChannel.peek]
  rw [run_data fixed ch ops _ h, h0]
  exact ⟨rfl, rfl⟩

/-- … and clears the flag (the stored value, the other channels, the interrupt-disable words and
the semaphore are untouched; no handler runs). -/
theorem recv_clears (a : Apbp) (ch : Fin 3) :
    (a.recvData ch).1.isDataReady ch = false ∧
    abs (a.recvData ch).1 = { abs a with box := upd (abs a).box ch ⟨a.peekData ch, false⟩ } ∧
    (a.recvData ch).1.semaphoreMasterSignal = a.semaphoreMasterSignal := by
  refine ⟨?_, ?_, rfl⟩
  · simp [recvData, DataChannel.recv, isDataReady, DataChannel.isReady]
  · simp only [recvData, DataChannel.recv, abs_setChannel]
    simp [abs, upd_self, peekData, DataChannel.peek]

/-- Peeking does neither: it returns what a read would return, leaves the whole state (the flag
included) as it is and calls no handler. -/
theorem peek_pure (fixed : Bool) (a : Apbp) (ch : Fin 3) :
    a.peekData ch = (a.recvData ch).2 ∧ step fixed a (.peek ch) = (a, a.peekData ch, []) :=
  ⟨rfl, rfl⟩

/-! ## semaphores -/

/-- Semaphore bits accumulate on set (the mask is untouched). -/
theorem sem_accumulates (a : Apbp) (b : U16) :
    (a.setSemaphore b).1.getSemaphore = a.getSemaphore ||| b ∧
    (a.setSemaphore b).1.getSemaphoreMask = a.getSemaphoreMask ∧
    (a.setSemaphore b).1.dataChannels = a.dataChannels := ⟨rfl, rfl, rfl⟩

/-- … and clear on acknowledge (exactly the acknowledged bits; the mask is untouched; no
handler runs — `clearSemaphore` has no event component). -/
theorem clear_clears (a : Apbp) (b : U16) :
    (a.clearSemaphore b).getSemaphore = a.getSemaphore &&& ~~~b ∧
    (a.clearSemaphore b).getSemaphoreMask = a.getSemaphoreMask ∧
    (a.clearSemaphore b).dataChannels = a.dataChannels := ⟨rfl, rfl, rfl⟩

/-- The property clause "the signal flag always equals ((semaphore AND NOT mask) is non-zero)":
from every state in which it holds (in particular a fresh or reset object) it holds after every
history. -/
def SignalEq (fixed : Bool) : Prop :=
  ∀ (a : Apbp), SignalOk a → ∀ (ops : List Op), SignalOk (run fixed ops a).1

/-- **The clause holds for the repaired `MaskSemaphore`.** -/
theorem signal_eq : SignalEq true := fun a h ops => (run_refines ops a h).2

/-- **The clause is false for the upstream code**: on a fresh object `SetSemaphore(1);
MaskSemaphore(1)` leaves the flag at 1 although `semaphore & ~mask = 0`. -/
theorem signal_eq_upstream_counterexample :
    SignalOk {} ∧ ¬ SignalOk (run false [.semSet 1, .semMask 1] {}).1 ∧
    (run false [.semSet 1, .semMask 1] {}).1.isSemaphoreSignaled = true ∧
    signalOf (run false [.semSet 1, .semMask 1] {}).1.getSemaphore
             (run false [.semSet 1, .semMask 1] {}).1.getSemaphoreMask = false := by decide

theorem signal_eq_upstream_false : ¬ SignalEq false :=
  fun h => signal_eq_upstream_counterexample.2.1 (h {} signal_eq_upstream_counterexample.1 _)

/-- The opposite direction fails too: `MaskSemaphore(2); SetSemaphore(2); MaskSemaphore(0)` leaves
the flag at 0 with an unmasked pending bit, and no handler call was made by any of the three —
the peer is never told about the semaphore it just unmasked. -/
theorem upstream_unmask_counterexample :
    (run false [.semMask 2, .semSet 2, .semMask 0] {}).1.isSemaphoreSignaled = false ∧
    signalOf (run false [.semMask 2, .semSet 2, .semMask 0] {}).1.getSemaphore
             (run false [.semMask 2, .semSet 2, .semMask 0] {}).1.getSemaphoreMask = true ∧
    (run false [.semMask 2, .semSet 2, .semMask 0] {}).2 = [(0, []), (0, []), (0, [])] := by decide

def Op.isMask : Op → Bool
  | .semMask _ => true
  | _ => false

/-- The two versions differ in `MaskSemaphore` only. -/
theorem step_fixed_irrelevant (fixed : Bool) (a : Apbp) (op : Op) (hm : op.isMask = false) :
    step fixed a op = step true a op := by
  cases op <;> first | rfl | cases hm

private theorem step_signalOk_partial (a : Apbp) (h : SignalOk a) (op : Op) (hm : op.isMask = false) :
    SignalOk (step false a op).1 := by
  rw [step_fixed_irrelevant false a op hm]; exact (step_refines a h op).2

/-- What survives for the upstream code: the flag equals the derived signal over every history
without a mask write; moreover an acknowledge re-establishes the equality from *any* state. -/
theorem signal_eq_partial :
    (∀ (a : Apbp), SignalOk a → ∀ (ops : List Op), (∀ op ∈ ops, op.isMask = false) →
      SignalOk (run false ops a).1) ∧
    (∀ (fixed : Bool) (a : Apbp) (b : U16), SignalOk (step fixed a (.semClear b)).1) := by
  constructor
  · intro a h ops
    induction ops generalizing a with
    | nil => intro _; exact h
    | cons op ops ih =>
      intro hm
      exact ih _ (step_signalOk_partial a h op (hm op List.mem_cons_self))
        (fun o ho => hm o (List.mem_cons_of_mem _ ho))
  · intro fixed a b; rfl

/-- The peer is interrupted whenever the flag rises: if an operation takes the flag from 0 to 1
(from a state where flag and signal agree), it called the semaphore handler.  (For the upstream
code this is only as good as its hypothesis: `MaskSemaphore` does not keep flag and signal in
agreement, see `irq_on_rise_upstream_counterexample`.) -/
theorem irq_on_rise (fixed : Bool) (a : Apbp) (h : SignalOk a) (op : Op)
    (h0 : a.isSemaphoreSignaled = false) (h1 : (step fixed a op).1.isSemaphoreSignaled = true) :
    ApbpEvent.semaphore ∈ (step fixed a op).2.2 := by
  unfold SignalOk at h
  unfold isSemaphoreSignaled at h0 h1
  cases op with
  | semSet b =>
    simp only [step, setSemaphore, h0, Bool.false_or] at h1 ⊢
    simp [h1]
  | semClear b =>
    simp only [step, clearSemaphore] at h1
    rw [h0] at h
    rw [signalOf_andnot _ b _ h.symm] at h1; cases h1
  | semMask m =>
    cases fixed
    · simp [step, maskSemaphoreGen, h0] at h1
    · simp only [step, maskSemaphoreGen, if_true] at h1 ⊢
      simp [h1, h0]
  | reset => simp [step, reset] at h1
  | send ch v => simp [step, sendData, h0] at h1
  | recv ch => simp [step, recvData, h0] at h1
  | setDisable ch v => simp [step, setDisableInterrupt, h0] at h1
  | _ => simp [step, h0] at h1

/-- … and never while it stays zero: an operation that starts and ends with the flag at 0 did not
call the semaphore handler.  Holds for the upstream and the repaired code, from any state. -/
theorem no_irq_while_zero (fixed : Bool) (a : Apbp) (op : Op)
    (h0 : a.isSemaphoreSignaled = false) (h1 : (step fixed a op).1.isSemaphoreSignaled = false) :
    ApbpEvent.semaphore ∉ (step fixed a op).2.2 := by
  unfold isSemaphoreSignaled at h0 h1
  cases op with
  | semSet b =>
    simp only [step, setSemaphore, h0, Bool.false_or] at h1 ⊢
    simp [h1]
  | semMask m =>
    cases fixed
    · simp [step, maskSemaphoreGen]
    · simp only [step, maskSemaphoreGen, if_true] at h1 ⊢
      simp [h1]
  | send ch v =>
    simp only [step, sendData]
    split <;> simp
  | _ => simp [step]

/-- The upstream code can raise the flag without interrupting the peer: after
`MaskSemaphore(2); SetSemaphore(2); MaskSemaphore(0)` (flag 0, pending unmasked bit) a
`ClearSemaphore(0)` takes the flag from 0 to 1 and calls no handler. -/
theorem irq_on_rise_upstream_counterexample :
    (run false [.semMask 2, .semSet 2, .semMask 0] {}).1.isSemaphoreSignaled = false ∧
    (step false (run false [.semMask 2, .semSet 2, .semMask 0] {}).1 (.semClear 0)).1.isSemaphoreSignaled = true ∧
    (step false (run false [.semMask 2, .semSet 2, .semMask 0] {}).1 (.semClear 0)).2.2 = [] := by decide

/-- **History-level statement of the semaphore clauses** (repaired code).  At every point of every
history that starts from a fresh / reset / any flag-consistent object: the flag equals
`(semaphore & ~mask) ≠ 0`, and the next operation calls the semaphore handler if it raises the
flag and does not call it if the flag stays zero. -/
theorem history_semaphore (a : Apbp) (h : SignalOk a) (pre : List Op) (op : Op) :
    let s := (run true pre a).1
    let s' := (step true s op).1
    s.isSemaphoreSignaled = signalOf s.getSemaphore s.getSemaphoreMask ∧
    s'.isSemaphoreSignaled = signalOf s'.getSemaphore s'.getSemaphoreMask ∧
    (s.isSemaphoreSignaled = false → s'.isSemaphoreSignaled = true →
      ApbpEvent.semaphore ∈ (step true s op).2.2) ∧
    (s.isSemaphoreSignaled = false → s'.isSemaphoreSignaled = false →
      ApbpEvent.semaphore ∉ (step true s op).2.2) := by
  have hs := signal_eq a h pre
  exact ⟨hs, (step_refines _ hs op).2, irq_on_rise true _ hs op, no_irq_while_zero true _ op⟩

/-! ## both instances and the status registers -/

/-- A history over the pair `(apbp_from_cpu, apbp_from_dsp)`: each operation addresses one of the
two objects (`true` = `apbp_from_cpu`).  Host and DSP each act on both: the host writes channels
and sets semaphore bits of `apbp_from_cpu` and reads / acknowledges / masks `apbp_from_dsp`, the
DSP does the converse. -/
def runPair (fixed : Bool) : List (Bool × Op) → Apbp × Apbp → (Apbp × Apbp) × List Out
  | [], p => (p, [])
  | (true, op) :: ops, p =>
      ((runPair fixed ops ((step fixed p.1 op).1, p.2)).1,
       (step fixed p.1 op).2 :: (runPair fixed ops ((step fixed p.1 op).1, p.2)).2)
  | (false, op) :: ops, p =>
      ((runPair fixed ops (p.1, (step fixed p.2 op).1)).1,
       (step fixed p.2 op).2 :: (runPair fixed ops (p.1, (step fixed p.2 op).1)).2)

/-- The two instances are independent: a history over the pair is, on each object, the history of
the operations addressed to it — so `run_refines` and `history_semaphore` apply to each side —
and both objects stay flag-consistent. -/
theorem runPair_proj (fixed : Bool) (ops : List (Bool × Op)) : ∀ (p : Apbp × Apbp),
    (runPair fixed ops p).1.1 = (run fixed ((ops.filter (·.1)).map (·.2)) p.1).1 ∧
    (runPair fixed ops p).1.2 = (run fixed ((ops.filter (!·.1)).map (·.2)) p.2).1 := by
  induction ops with
  | nil => intro p; exact ⟨rfl, rfl⟩
  | cons o ops ih =>
    intro p
    obtain ⟨side, op⟩ := o
    cases side
    · have := ih (p.1, (step fixed p.2 op).1)
      simp only [runPair, List.filter, List.map, run, Bool.not_false]
      exact this
    · have := ih ((step fixed p.1 op).1, p.2)
      simp only [runPair, List.filter, List.map, run, Bool.not_true]
      exact this

theorem runPair_signalOk (ops : List (Bool × Op)) (p : Apbp × Apbp) (h1 : SignalOk p.1)
    (h2 : SignalOk p.2) :
    SignalOk (runPair true ops p).1.1 ∧ SignalOk (runPair true ops p).1.2 := by
  rw [(runPair_proj true ops p).1, (runPair_proj true ops p).2]
  exact ⟨signal_eq _ h1 _, signal_eq _ h2 _⟩

private theorem bitSlot_getLsbD (v : U16) (pos : Nat) (b : Bool) (j : Nat) (hp : pos < 16) :
    (bitSlot v pos b).getLsbD j = if j = pos then b else v.getLsbD j := by
  unfold bitSlot
  by_cases hj : j = pos
  · subst hj
    cases b <;> simp [hp]
  · simp only [hj, if_false]
    by_cases hv : v.getLsbD j = true
    · have := BitVec.lt_of_getLsbD hv
      cases b <;> simp [BitVec.getLsbD_one, hv] <;> omega
    · cases b <;> simp [BitVec.getLsbD_one, hv] <;> omega

private theorem bitSlot_getElem (v : U16) (pos : Nat) (b : Bool) (j : Nat) (hp : pos < 16) (hj : j < 16) :
    (bitSlot v pos b)[j] = if j = pos then b else v[j] := by
  rw [← BitVec.getLsbD_eq_getElem, bitSlot_getLsbD v pos b j hp, ← BitVec.getLsbD_eq_getElem]

/-- Bit of `0x0D6` that reports "command register `i` (host → DSP) is full". -/
def d6CmdBit (i : Fin 3) : Nat := #v[8, 12, 13][i]

/-- **The DSP-side status registers and the host API report the same data-ready flags.**
For every state of the two objects and every content of the cells' own storage words:
* reply registers (`apbp_from_dsp`): bit `5+i` of `0x0D6` and bit `10+i` of `0x0D8` equal
  `Teakra::RecvDataIsReady(i)`;
* command registers (`apbp_from_cpu`): bits 8 / 12 / 13 of `0x0D6` and bit `13+i` of `0x0D8`
  equal `!Teakra::SendDataIsEmpty(i)`;
* bit 9 of both is `apbp_from_cpu`'s semaphore signal flag;
* every other bit reads back the cell's storage word. -/
theorem status_bits_agree (st6 st8 : U16) (fromCpu fromDsp : Apbp) (i : Fin 3) :
    (statusD6 st6 fromCpu fromDsp).getLsbD (5 + i) = hostRecvDataIsReady fromDsp i ∧
    (statusD8 st8 fromCpu fromDsp).getLsbD (10 + i) = hostRecvDataIsReady fromDsp i ∧
    (statusD6 st6 fromCpu fromDsp).getLsbD (d6CmdBit i) = !hostSendDataIsEmpty fromCpu i ∧
    (statusD8 st8 fromCpu fromDsp).getLsbD (13 + i) = !hostSendDataIsEmpty fromCpu i ∧
    (statusD6 st6 fromCpu fromDsp).getLsbD 9 = fromCpu.isSemaphoreSignaled ∧
    (statusD8 st8 fromCpu fromDsp).getLsbD 9 = fromCpu.isSemaphoreSignaled ∧
    (∀ j, j ∉ [5, 6, 7, 8, 9, 12, 13] →
      (statusD6 st6 fromCpu fromDsp).getLsbD j = st6.getLsbD j) ∧
    (∀ j, j ∉ [9, 10, 11, 12, 13, 14, 15] →
      (statusD8 st8 fromCpu fromDsp).getLsbD j = st8.getLsbD j) := by
  have hi : i = 0 ∨ i = 1 ∨ i = 2 := by omega
  refine ⟨?_, ?_, ?_, ?_, ?_, ?_, ?_, ?_⟩
  · rcases hi with rfl | rfl | rfl <;>
      simp [statusD6, bitSlot_getElem, hostRecvDataIsReady]
  · rcases hi with rfl | rfl | rfl <;>
      simp [statusD8, bitSlot_getElem, hostRecvDataIsReady]
  · rcases hi with rfl | rfl | rfl <;>
      simp [statusD6, bitSlot_getElem, hostSendDataIsEmpty, d6CmdBit]
  · rcases hi with rfl | rfl | rfl <;>
      simp [statusD8, bitSlot_getElem, hostSendDataIsEmpty]
  · simp [statusD6, bitSlot_getElem]
  · simp [statusD8, bitSlot_getElem]
  · intro j hj
    simp only [List.mem_cons, List.not_mem_nil, or_false, not_or] at hj
    simp [statusD6, bitSlot_getLsbD, hj]
  · intro j hj
    simp only [List.mem_cons, List.not_mem_nil, or_false, not_or] at hj
    simp [statusD8, bitSlot_getLsbD, hj]

/-! ## non-vacuity: concrete states and histories meeting the hypotheses -/

example : SignalOk {} ∧ SignalOk { semaphore := 5, semaphoreMask := 4, semaphoreMasterSignal := true } := by
  decide
/-- A history with a rise on `semMask` in the repaired code: the handler is called. -/
example : (run true [.semMask 2, .semSet 2, .semMask 0] {}).2 = [(0, []), (0, []), (0, [.semaphore])] ∧
    (run true [.semMask 2, .semSet 2, .semMask 0] {}).1.isSemaphoreSignaled = true := by decide
/-- A write with the interrupt disabled sets the flag silently; read returns it and clears. -/
example : (run true [.setDisable 1 1, .send 1 0x1234, .isReady 1, .peek 1, .recv 1, .isReady 1] {}).2 =
    [(0, []), (0, []), (1, []), (0x1234, []), (0x1234, []), (0, [])] := by decide
example : (run true [.send 2 7] {}).2 = [(0, [.data 2])] := by decide
example : ¬ Op.writes 1 (.recv 1) ∧ ¬ Op.writes 1 (.send 0 3) ∧ Op.isMask (.semSet 1) = false := by
  exact ⟨id, (by decide : ¬ ((0 : Fin 3) = 1)), rfl⟩
example : statusD6 0 (step true {} (.send 1 9)).1 (step true {} (.send 0 9)).1 = 0x1020 := by decide

end Teakra.Apbp
