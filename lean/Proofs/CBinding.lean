import TeakraModel.Generated.Facade
import TeakraModel.Generated.CBinding
/-!
# The C binding `src/teakra_c.cpp` forwards faithfully (translated on every run)

Every function of the binding that is a plain forwarder `Teakra_X(ctx, p…) { [return] ctx->teakra.M(a…); }` is translated
into a row (`tools/translate_facade.py`), and the kernel re-checks over the regenerated rows:

* `cbinding_same_method` – `Teakra_X` calls the method named `X`;
* `cbinding_args_in_order` – it passes exactly its own parameters, in order (no argument dropped, swapped or defaulted);
* `cbinding_types_agree` – the parameter types of the C function are those of the C++ method it calls (no narrowing of an
  address or value on the way through the binding), the C++ side taken from the facade table translated from
  `src/teakra.cpp`.

The correspondence harness routes the host calls of the `bus` unit through this binding at random (`bus new capi`); these
theorems say the binding adds nothing of its own for every forwarded function, including the ones no script calls.
-/
namespace Teakra

open Generated in
theorem cbinding_same_method : (cForwarders.all fun f => f.cname = f.method) = true := by decide +kernel

open Generated in
theorem cbinding_args_in_order : (cForwarders.all fun f => f.args = f.pnames) = true := by decide +kernel

open Generated in
theorem cbinding_types_agree :
    (cForwarders.all fun f => methodSigs.contains (f.method, f.ptypes)) = true := by decide +kernel

/-- In the words of the property: a forwarded call reaches the C++ method of the same name with the same arguments. -/
theorem cbinding_forwards {f : CFwd} (h : f ∈ Generated.cForwarders) :
    f.cname = f.method ∧ f.args = f.pnames ∧ (f.method, f.ptypes) ∈ Generated.methodSigs := by
  have h1 := cbinding_same_method
  have h2 := cbinding_args_in_order
  have h3 := cbinding_types_agree
  rw [List.all_eq_true] at h1 h2 h3
  refine ⟨by simpa using h1 f h, by simpa using h2 f h, ?_⟩
  have := h3 f h
  simpa [List.contains_iff_mem] using this

example : Generated.cForwarders.length = 29 := by decide +kernel

end Teakra
