import TeakraModel.Bus
import TeakraModel.MmioKinds
/-!
# C12 — MMIO registers hold what was written and do not alias one another

Theorems about `Teakra.Bus.mmioRead` / `mmioWrite` (model of `MMIORegion::Read/Write`,
src/mmio.cpp), the two access paths `hostMmioRead/Write` (`MemoryInterface::MMIORead/MMIOWrite`)
and `dataRead/dataWrite` (`MemoryInterface::DataRead/DataWrite` inside the MMIO window).

The classification of the cells (`Cell.kind`, `Cell.coupledTo`, `Cell.emits`) is data in
`TeakraModel/MmioKinds.lean`; `rwRegisters`, `coupledList`, `triggerCells` below are the same
tables written out by offset, and `kind_table` / `coupled_table` / `emits_table` prove that they
are what the classification says.
-/
namespace Teakra
open Bus

/-! ## the tables by offset -/

/-- Every read/write register that is not a plain storage cell, with the mask on which it reads
back what was written.  (All 0x800 − 111 offsets that the constructor of `MMIORegion` does not
assign are plain storage cells: read/write with mask 0xFFFF.) -/
def rwRegisters : List (Nat × U16) := [
  (0x20, 0xfbff), (0x24, 0xffff), (0x26, 0xffff), (0x28, 0xffff), (0x2a, 0xffff), (0x30, 0xfbff),
  (0x34, 0xffff), (0x36, 0xffff), (0x38, 0xffff), (0x3a, 0xffff), (0xc0, 0xffff), (0xc4, 0xffff),
  (0xc8, 0xffff), (0xce, 0xffff), (0xd4, 0xffff), (0xd6, 0xcc1f), (0xd8, 0x1ff), (0xe2, 0xffff),
  (0xe4, 0xffff), (0xe6, 0xffff), (0xe8, 0xffff), (0xea, 0xffff), (0xec, 0xffff), (0xee, 0xffff),
  (0xf0, 0xffff), (0xf2, 0xffff), (0x10e, 0xffff), (0x110, 0xffff), (0x112, 0xffff), (0x114, 0xffff),
  (0x116, 0xffff), (0x11a, 0xffff), (0x11e, 0xffff), (0x184, 0xffff), (0x1be, 0x7), (0x1c0, 0xffff),
  (0x1c2, 0xffff), (0x1c4, 0xffff), (0x1c6, 0xffff), (0x1c8, 0xffff), (0x1ca, 0xffff), (0x1cc, 0xffff),
  (0x1ce, 0xffff), (0x1d0, 0xffff), (0x1d2, 0xffff), (0x1d4, 0xffff), (0x1d6, 0xffff), (0x1d8, 0xffff),
  (0x1da, 0xffff), (0x1dc, 0xffff), (0x1de, 0xffff), (0x206, 0xffff), (0x208, 0xffff), (0x20a, 0xffff),
  (0x20c, 0xffff), (0x212, 0xffff), (0x214, 0xffff), (0x216, 0xffff), (0x218, 0xffff), (0x21a, 0xffff),
  (0x21c, 0xffff), (0x21e, 0xffff), (0x220, 0xffff), (0x222, 0xffff), (0x224, 0xffff), (0x226, 0xffff),
  (0x228, 0xffff), (0x22a, 0xffff), (0x22c, 0xffff), (0x22e, 0xffff), (0x230, 0xffff), (0x232, 0xffff),
  (0x234, 0xffff), (0x236, 0xffff), (0x238, 0xffff), (0x23a, 0xffff), (0x23c, 0xffff), (0x23e, 0xffff),
  (0x240, 0xffff), (0x242, 0xffff), (0x244, 0xffff), (0x246, 0xffff), (0x248, 0xffff), (0x24a, 0xffff),
  (0x24c, 0xffff), (0x24e, 0xffff), (0x250, 0xffff), (0x2a2, 0xffff), (0x2be, 0xffff), (0x2c2, 0xffe7),
  (0x322, 0xffff), (0x33e, 0xffff), (0x342, 0xffe7)]

/-- The documented couplings `(o, o')`: a write to `o` may change the read-back of `o'`.
Timer restart / event and the counter mirror; mailbox and semaphore flags in the status words;
interrupt trigger / acknowledge and the ICU request word; the DMA channel-window select and the
DMA start; the audio FIFO and its status word. -/
def coupledList : List (Nat × Nat) := [
  (0x20, 0x28), (0x20, 0x2a), (0x22, 0x28), (0x22, 0x2a), (0x22, 0x200), (0x30, 0x38), (0x30, 0x3a),
  (0x32, 0x38), (0x32, 0x3a), (0x32, 0x200), (0xc0, 0xd6), (0xc0, 0xd8), (0xc4, 0xd6), (0xc4, 0xd8),
  (0xc8, 0xd6), (0xc8, 0xd8), (0xce, 0xd6), (0xce, 0xd8), (0xce, 0x200), (0xd0, 0xd2), (0xd0, 0xd6),
  (0xd0, 0xd8), (0x1be, 0x1c0), (0x1be, 0x1c2), (0x1be, 0x1c4), (0x1be, 0x1c6), (0x1be, 0x1c8),
  (0x1be, 0x1ca), (0x1be, 0x1cc), (0x1be, 0x1ce), (0x1be, 0x1d0), (0x1be, 0x1d2), (0x1be, 0x1d4),
  (0x1be, 0x1d6), (0x1be, 0x1d8), (0x1be, 0x1dc), (0x1be, 0x1da), (0x1be, 0x1de), (0x1de, 0x200),
  (0x202, 0x200), (0x204, 0x200), (0x2c6, 0x2c2), (0x2ca, 0x2c2), (0x346, 0x342), (0x34a, 0x342)]

/-- The cells whose write can call a handler. -/
def triggerCells : List Nat := [0x22, 0x32, 0xc0, 0xc4, 0xc8, 0xcc, 0xce, 0x1de, 0x204]


/-! ## helper lemmas -/

/-- The configuration registers of an AHBM channel (everything but the burst queue). -/
private def AhbmChannel.cfg (c : AhbmChannel) : U16 × U16 × U16 × U16 := (c.unitSize, c.burstSize, c.direction, c.dmaChannel)
/-- Everything of the AHBM that MMIO can read. -/
private def Ahbm.cfg (a : Ahbm) : U16 × (U16 × U16 × U16 × U16) × (U16 × U16 × U16 × U16) × (U16 × U16 × U16 × U16) :=
  (a.busyFlag, a.ch0.cfg, a.ch1.cfg, a.ch2.cfg)

private theorem Ahbm.cfg_setCh (a : Ahbm) (k : Nat) (c : AhbmChannel) (h : c.cfg = (a.getCh k).cfg) :
    (a.setCh k c).cfg = a.cfg := by
  unfold Ahbm.setCh Ahbm.getCh at *
  split <;> simp_all [Ahbm.cfg]

private theorem AhbmChannel.cfg_read32 (rd : ExtRead) (c : AhbmChannel) (a : U32) : (c.read32 rd a).1.cfg = c.cfg := by
  unfold AhbmChannel.read32
  split <;> (split <;> rfl)

private theorem AhbmChannel.cfg_read16 (rd : ExtRead) (c : AhbmChannel) (a : U32) : (c.read16 rd a).1.cfg = c.cfg := by
  unfold AhbmChannel.read16
  exact AhbmChannel.cfg_read32 rd c a

private theorem AhbmChannel.cfg_writeInternal (c : AhbmChannel) (a v : U32) : (c.writeInternal a v).1.cfg = c.cfg := by
  unfold AhbmChannel.writeInternal
  dsimp only
  split <;> (split <;> rfl)

private theorem Ahbm.cfg_read32 (rd : ExtRead) (a a' : Ahbm) (ch : U16) (addr : U32) (v : U32) (ev : List ExtEvent)
    (h : a.read32 rd ch addr = .ok (a', v, ev)) : a'.cfg = a.cfg := by
  unfold Ahbm.read32 Ahbm.withCh at h
  split at h
  · simp at h
    rw [← h.1]
    exact Ahbm.cfg_setCh _ _ _ (AhbmChannel.cfg_read32 rd _ addr)
  · simp at h

private theorem Ahbm.cfg_read16 (rd : ExtRead) (a a' : Ahbm) (ch : U16) (addr : U32) (v : U16) (ev : List ExtEvent)
    (h : a.read16 rd ch addr = .ok (a', v, ev)) : a'.cfg = a.cfg := by
  unfold Ahbm.read16 Ahbm.withCh at h
  split at h
  · simp at h
    rw [← h.1]
    exact Ahbm.cfg_setCh _ _ _ (AhbmChannel.cfg_read16 rd _ addr)
  · simp at h

private theorem Ahbm.cfg_write16 (a a' : Ahbm) (ch : U16) (addr : U32) (v : U16) (ev : List ExtEvent)
    (h : a.write16 ch addr v = .ok (a', ev)) : a'.cfg = a.cfg := by
  unfold Ahbm.write16 Ahbm.withCh at h
  split at h
  · simp at h
    rw [← h.1]
    exact Ahbm.cfg_setCh _ _ _ (AhbmChannel.cfg_writeInternal _ addr _)
  · simp at h

private theorem Ahbm.cfg_write32 (a a' : Ahbm) (ch : U16) (addr : U32) (v : U32) (ev : List ExtEvent)
    (h : a.write32 ch addr v = .ok (a', ev)) : a'.cfg = a.cfg := by
  unfold Ahbm.write32 Ahbm.withCh at h
  split at h
  · simp at h
    rw [← h.1]
    exact Ahbm.cfg_setCh _ _ _ (AhbmChannel.cfg_writeInternal _ addr _)
  · simp at h

section
variable {M E : Type} [DspMem M] [ExtMem E]

omit [ExtMem E] in
private theorem dspWrite_ahbm (w w' : World M E) (a : U32) (v : U16) (h : dspWrite w a v = .ok w') : w'.ahbm = w.ahbm := by
  unfold dspWrite at h
  split at h
  · simp at h; rw [← h]
  · simp at h

private theorem R.bind_ok {α β : Type} {x : R α} {f : α → R β} {b : β} (h : (x >>= f) = .ok b) :
    ∃ a, x = .ok a ∧ f a = .ok b := by
  cases x with
  | error e => cases h
  | ok a => exact ⟨a, rfl, h⟩

private theorem src32_ahbm (c : DmaChannel) (w w1 : World M E) (v : U32)
    (h : (if c.srcSpace = 0 then do
            let l := c.currentSrc &&& 0xFFFFFFFE
            let h := c.currentSrc ||| 1
            let lo ← dspRead w l
            let hi ← dspRead w h
            pure ((hi ++ lo : U32), w)
          else if c.srcSpace = 7 then do
            let (a, v, ev) ← w.ahbm.read32 (ExtMem.reader w.ext) c.ahbmChannel c.currentSrc
            pure (v, w.commit a ev)
          else pure (0, w) : R (U32 × World M E)) = .ok (v, w1)) : w1.ahbm.cfg = w.ahbm.cfg := by
  split at h
  · obtain ⟨lo, _, h⟩ := R.bind_ok h
    obtain ⟨hi, _, h⟩ := R.bind_ok h
    cases h; rfl
  · split at h
    · obtain ⟨⟨a, v', ev⟩, h1, h⟩ := R.bind_ok h
      cases h
      exact Ahbm.cfg_read32 _ _ _ _ _ _ _ h1
    · cases h; rfl

private theorem src16_ahbm (c : DmaChannel) (w w1 : World M E) (v : U16)
    (h : (if c.srcSpace = 0 then do
            let v ← dspRead w c.currentSrc
            pure (v, w)
          else if c.srcSpace = 7 then do
            let (a, v, ev) ← w.ahbm.read16 (ExtMem.reader w.ext) c.ahbmChannel c.currentSrc
            pure (v, w.commit a ev)
          else pure (0, w) : R (U16 × World M E)) = .ok (v, w1)) : w1.ahbm.cfg = w.ahbm.cfg := by
  split at h
  · obtain ⟨lo, _, h⟩ := R.bind_ok h
    cases h; rfl
  · split at h
    · obtain ⟨⟨a, v', ev⟩, h1, h⟩ := R.bind_ok h
      cases h
      exact Ahbm.cfg_read16 _ _ _ _ _ _ _ h1
    · cases h; rfl

private theorem DmaChannel.xfer_ahbm (c : DmaChannel) (w w' : World M E) (h : c.xfer w = .ok w') : w'.ahbm.cfg = w.ahbm.cfg := by
  unfold DmaChannel.xfer at h
  split at h
  · obtain ⟨⟨value, w1⟩, h1, h⟩ := R.bind_ok h
    have e1 := src32_ahbm c w w1 value h1
    rw [← e1]
    dsimp only at h
    split at h
    · obtain ⟨w2, h2, h⟩ := R.bind_ok h
      rw [dspWrite_ahbm _ _ _ _ h, dspWrite_ahbm _ _ _ _ h2]
    · split at h
      · obtain ⟨⟨a, ev⟩, h2, h⟩ := R.bind_ok h
        cases h
        exact Ahbm.cfg_write32 _ _ _ _ _ _ h2
      · cases h; rfl
  · obtain ⟨⟨value, w1⟩, h1, h⟩ := R.bind_ok h
    have e1 := src16_ahbm c w w1 value h1
    rw [← e1]
    dsimp only at h
    split at h
    · rw [dspWrite_ahbm _ _ _ _ h]
    · split at h
      · obtain ⟨⟨a, ev⟩, h2, h⟩ := R.bind_ok h
        cases h
        exact Ahbm.cfg_write16 _ _ _ _ _ _ h2
      · cases h; rfl

private theorem DmaChannel.run_ahbm : ∀ (fuel : Nat) (c c' : DmaChannel) (w w' : World M E),
    c.run fuel w = .ok (c', w') → w'.ahbm.cfg = w.ahbm.cfg := by
  intro fuel
  induction fuel with
  | zero =>
    intro c c' w w' h
    unfold DmaChannel.run at h
    split at h
    · cases h; rfl
    · cases h
  | succ n ih =>
    intro c c' w w' h
    unfold DmaChannel.run at h
    split at h
    · cases h; rfl
    · unfold DmaChannel.tick at h
      cases hx : c.xfer w with
      | error e => simp [hx] at h
      | ok w1 =>
        simp [hx] at h
        rw [ih _ _ _ _ h, DmaChannel.xfer_ahbm c w w1 hx]
end

/-- The registers of a DMA channel that MMIO can read (everything but cursors, counters and the
running flag). -/
private def DmaChannel.regs (c : DmaChannel) : List U16 :=
  [c.addrSrcLow, c.addrSrcHigh, c.addrDstLow, c.addrDstHigh, c.size0, c.size1, c.size2, c.srcStep0, c.dstStep0,
   c.srcStep1, c.dstStep1, c.srcStep2, c.dstStep2, c.srcSpace, c.dstSpace, c.dwordMode, c.y, c.z]

private theorem DmaChannel.regs_start (c : DmaChannel) : c.start.regs = c.regs := rfl

private theorem DmaChannel.regs_advance (c : DmaChannel) : c.advance.regs = c.regs := by
  unfold DmaChannel.advance
  dsimp only
  repeat' split
  all_goals rfl

section
variable {M E : Type} [DspMem M] [ExtMem E]

private theorem DmaChannel.run_regs : ∀ (fuel : Nat) (c c' : DmaChannel) (w w' : World M E),
    c.run fuel w = .ok (c', w') → c'.regs = c.regs := by
  intro fuel
  induction fuel with
  | zero =>
    intro c c' w w' h
    unfold DmaChannel.run at h
    split at h
    · cases h; rfl
    · cases h
  | succ n ih =>
    intro c c' w w' h
    unfold DmaChannel.run at h
    split at h
    · cases h; rfl
    · unfold DmaChannel.tick at h
      cases hx : c.xfer w with
      | error e => simp [hx] at h
      | ok w1 =>
        simp [hx] at h
        rw [ih _ _ _ _ h, DmaChannel.regs_advance]

/-- What `Dma::DoDma` leaves alone: the enable and select registers, all other channels, and the
registers of the started channel. -/
private theorem Dma.doDma_regs (d d' : Dma) (w w' : World M E) (ch : U16) (n : Nat) (h : d.doDma w ch = .ok (d', w', n)) :
    d'.enableChannel = d.enableChannel ∧ d'.activeChannel = d.activeChannel ∧
    (∀ j : Fin 8, d'.channels[j].regs = d.channels[j].regs) ∧
    (∀ j : Fin 8, j.val ≠ ch.toNat → d'.channels[j] = d.channels[j]) := by
  unfold Dma.doDma at h
  split at h
  · rename_i hch
    unfold Dma.doDmaFuel at h
    simp only [hch, dite_true] at h
    split at h
    · rename_i c' w1 hr
      simp at h
      obtain ⟨rfl, rfl, rfl⟩ := h
      have hregs := DmaChannel.run_regs _ _ _ _ _ hr
      refine ⟨rfl, rfl, ?_, ?_⟩
      · intro j
        by_cases hj : ch.toNat = j.val
        · have hj' : j = ⟨ch.toNat, hch⟩ := Fin.ext hj.symm
          subst hj'
          simp only [Fin.getElem_fin, Vector.getElem_set_self]
          rw [hregs]; rfl
        · simp only [Fin.getElem_fin]
          rw [Vector.getElem_set_ne _ _ hj]
      · intro j hj
        simp only [Fin.getElem_fin]
        rw [Vector.getElem_set_ne _ _ (Ne.symm hj)]
    · cases h
  · cases h
end


private def Icu.CfgEq (a b : Icu) : Prop :=
  a.enabled = b.enabled ∧ a.vectoredEnabled = b.vectoredEnabled ∧ a.vectorLow = b.vectorLow ∧
  a.vectorHigh = b.vectorHigh ∧ a.vectorContextSwitch = b.vectorContextSwitch

private theorem Icu.CfgEq.rfl' (a : Icu) : Icu.CfgEq a a := ⟨rfl, rfl, rfl, rfl, rfl⟩
private theorem Icu.CfgEq.trans {a b c : Icu} (h1 : Icu.CfgEq a b) (h2 : Icu.CfgEq b c) : Icu.CfgEq a c :=
  ⟨h1.1.trans h2.1, h1.2.1.trans h2.2.1, h1.2.2.1.trans h2.2.2.1, h1.2.2.2.1.trans h2.2.2.2.1, h1.2.2.2.2.trans h2.2.2.2.2⟩

/-- `p` and `q` differ at most in the ICU, and there at most in the request word. -/
private structure Periph.SameBut (p q : Periph) : Prop where
  timer : p.timer = q.timer
  btdmp : p.btdmp = q.btdmp
  cpu : p.apbpFromCpu = q.apbpFromCpu
  dsp : p.apbpFromDsp = q.apbpFromDsp
  dma : p.dma = q.dma
  ahbm : p.ahbm = q.ahbm
  store : p.store = q.store
  icu : Icu.CfgEq p.icu q.icu

private theorem Periph.raise_same (p : Periph) (irq : Nat) : Periph.SameBut (p.raise irq).1 p :=
  ⟨rfl, rfl, rfl, rfl, rfl, rfl, rfl, ⟨rfl, rfl, rfl, rfl, rfl⟩⟩

private theorem Periph.raiseN_same (irq : Nat) : ∀ (n : Nat) (p : Periph), Periph.SameBut (p.raiseN irq n).1 p := by
  intro n
  induction n with
  | zero => intro p; exact ⟨rfl, rfl, rfl, rfl, rfl, rfl, rfl, Icu.CfgEq.rfl' _⟩
  | succ n ih =>
    intro p
    have h := ih (p.raise irq).1
    simp only [Periph.raiseN]
    exact ⟨h.timer, h.btdmp, h.cpu, h.dsp, h.dma, h.ahbm, h.store, h.icu.trans (Periph.raise_same p irq).icu⟩

private theorem Periph.raiseN_zero (p : Periph) (irq : Nat) : p.raiseN irq 0 = (p, []) := rfl

private theorem Periph.raiseIf_same (p : Periph) (f : Bool) (irq : Nat) : Periph.SameBut (p.raiseIf f irq).1 p := by
  unfold Periph.raiseIf
  split
  · exact Periph.raise_same p irq
  · exact ⟨rfl, rfl, rfl, rfl, rfl, rfl, rfl, Icu.CfgEq.rfl' _⟩

private theorem Timer.cellWrite_fired (t t' : Timer) (st st' : U16) (c : TimerCell) (v : U16) (f : Bool)
    (h : t.cellWrite st c v = .ok (t', st', f)) (hc : c ≠ .ew) : f = false := by
  cases c <;> simp [Timer.cellWrite] at h hc
  · split at h
    · simp at h; exact h.2.2
    · split at h <;> simp at h
      exact h.2.2
  all_goals exact h.2.2

/-- Cells whose write goes through `icu.TriggerSingle`. -/
private def Cell.raises : Cell → Bool
  | .timer _ .ew => true
  | .apbp .semMask => true
  | .dma .z => true
  | _ => false

/-- What a write to cell `c` at offset `off` leaves alone. -/
private structure Footprint (c : Cell) (off : Fin mmioSize) (b b' : Bus) : Prop where
  store : ∀ off' : Fin mmioSize, off' ≠ off → b'.per.store[off'] = b.per.store[off']
  timer : ∀ i : Fin 2, (∀ tc, c ≠ .timer i tc) → b'.per.timer[i] = b.per.timer[i]
  btdmp : ∀ i : Fin 2, (∀ bc, c ≠ .btdmp i bc) → b'.per.btdmp[i] = b.per.btdmp[i]
  apbp : (∀ ac, c ≠ .apbp ac) → b'.per.apbpFromCpu = b.per.apbpFromCpu ∧ b'.per.apbpFromDsp = b.per.apbpFromDsp
  ahbm : (∀ ac, c ≠ .ahbm ac) → b'.per.ahbm.cfg = b.per.ahbm.cfg
  miu : (∀ mc, c ≠ .miu mc) → b'.miu = b.miu
  dma : (∀ dc, c ≠ .dma dc) → b'.per.dma = b.per.dma
  icuCfg : (∀ ic, c ≠ .icu ic) → Icu.CfgEq b'.per.icu b.per.icu
  icuReq : (∀ ic, c ≠ .icu ic) → c.raises = false → b'.per.icu.request = b.per.icu.request

private theorem vset_ne {α : Type} {n : Nat} (s : Vector α n) (i j : Fin n) (x : α) (h : j ≠ i) :
    (s.set i.val x i.isLt)[j.val]'j.isLt = s[j.val]'j.isLt :=
  Vector.getElem_set_ne _ _ (fun e => h (Fin.ext e.symm))

private theorem vset_self {α : Type} {n : Nat} (s : Vector α n) (i : Fin n) (x : α) :
    (s.set i.val x i.isLt)[i.val]'i.isLt = x := Vector.getElem_set_self _

private theorem vset_ne' {α : Type} {n : Nat} (s : Vector α n) (i j : Fin n) (x : α) (h : i ≠ j) :
    (s.set i.val x i.isLt)[j.val]'j.isLt = s[j.val]'j.isLt :=
  Vector.getElem_set_ne _ _ (fun e => h (Fin.ext e))

local macro "fp_close" : tactic =>
  `(tactic| (refine ⟨?_, ?_, ?_, ?_, ?_, ?_, ?_, ?_, ?_⟩ <;> intros <;> simp_all [Icu.CfgEq.rfl', vset_ne, vset_ne']))

private theorem fp_of_per (c : Cell) (off : Fin mmioSize) (b : Bus) (miu : Miu) (mem : Mem) (ext : ExtSt) (p p' : Periph)
    (hs : Periph.SameBut p' p) (hreq : c.raises = false → p'.icu.request = p.icu.request)
    (h0 : Footprint c off b ⟨miu, mem, p, ext⟩) : Footprint c off b ⟨miu, mem, p', ext⟩ := by
  refine ⟨?_, ?_, ?_, ?_, ?_, ?_, ?_, ?_, ?_⟩
  · intro o ho; have := h0.store o ho; simp only [hs.store] at *; exact this
  · intro i hi; have := h0.timer i hi; simp only [hs.timer] at *; exact this
  · intro i hi; have := h0.btdmp i hi; simp only [hs.btdmp] at *; exact this
  · intro hi; have := h0.apbp hi; simp only [hs.cpu, hs.dsp] at *; exact this
  · intro hi; have := h0.ahbm hi; simp only [hs.ahbm] at *; exact this
  · intro hi; exact h0.miu hi
  · intro hi; have := h0.dma hi; simp only [hs.dma] at *; exact this
  · intro hi; exact hs.icu.trans (h0.icuCfg hi)
  · intro hi hr; have := h0.icuReq hi hr; simp only [hreq hr] at *; exact this

private theorem apbp_cpuEv (cpu dsp : Apbp) (st : U16) (c : ApbpCell) (v : U16) (hc : c ≠ .semMask) :
    (apbpCellWrite cpu dsp st c v).cpuEv = [] := by
  cases c <;> simp_all [apbpCellWrite]

private theorem icu_ack_cfg (s : Icu) (v : U16) : Icu.CfgEq (s.acknowledge v) s := ⟨rfl, rfl, rfl, rfl, rfl⟩
private theorem icu_trigger_cfg (s : Icu) (v : U16) : Icu.CfgEq (s.trigger v).1 s := ⟨rfl, rfl, rfl, rfl, rfl⟩

private theorem doDma_ahbm (d d' : Dma) (w w' : World Mem ExtSt) (ch : U16) (n : Nat)
    (h : d.doDma w ch = .ok (d', w', n)) : w'.ahbm.cfg = w.ahbm.cfg := by
  unfold Dma.doDma at h
  split at h
  · rename_i hch
    unfold Dma.doDmaFuel at h
    simp only [hch, dite_true] at h
    split at h
    · rename_i c' w1 hr
      simp at h
      obtain ⟨_, rfl, _⟩ := h
      exact DmaChannel.run_ahbm _ _ _ _ _ hr
    · cases h
  · cases h

private theorem setZ_ahbm (d d' : Dma) (w w' : World Mem ExtSt) (v : U16) (n : Nat)
    (h : d.setZ w v = .ok (d', w', n)) : w'.ahbm.cfg = w.ahbm.cfg := by
  unfold Dma.setZ at h
  split at h
  · split at h
    · exact doDma_ahbm _ _ _ _ _ _ h
    · simp at h; rw [h.2.1]
  · cases h

private theorem cellWrite_footprint (b b' : Bus) (off : Fin mmioSize) (v : U16) (c : Cell) (ev : List PEvent)
    (h : b.cellWrite off v c = .ok (b', ev)) : Footprint c off b b' := by
  cases c with
  | store =>
    simp [Bus.cellWrite] at h
    obtain ⟨rfl, _⟩ := h
    fp_close
  | const k =>
    simp [Bus.cellWrite] at h
    obtain ⟨rfl, _⟩ := h
    fp_close
  | timer i tc =>
    simp only [Bus.cellWrite] at h
    split at h
    · cases h
    · rename_i t st fired hw
      simp at h
      obtain ⟨rfl, _⟩ := h
      apply fp_of_per _ _ _ _ _ _ _ _ (Periph.raiseIf_same _ _ _)
      · intro hr
        have : fired = false := by
          apply Timer.cellWrite_fired _ _ _ _ _ _ _ hw
          intro he; subst he; simp [Cell.raises] at hr
        subst this
        rfl
      · fp_close
  | apbp ac =>
    simp only [Bus.cellWrite] at h
    simp at h
    obtain ⟨rfl, _⟩ := h
    apply fp_of_per _ _ _ _ _ _ _ _ (Periph.raiseN_same _ _ _)
    · intro hr
      have : ac ≠ .semMask := by intro he; subst he; simp [Cell.raises] at hr
      rw [apbp_cpuEv _ _ _ _ _ this]
      rfl
    · fp_close
  | ahbm ac =>
    simp [Bus.cellWrite] at h
    obtain ⟨rfl, _⟩ := h
    fp_close
  | miu mc =>
    simp [Bus.cellWrite] at h
    obtain ⟨rfl, _⟩ := h
    fp_close
  | icu ic =>
    simp [Bus.cellWrite] at h
    obtain ⟨rfl, _⟩ := h
    fp_close
  | btdmp i bc =>
    simp [Bus.cellWrite] at h
    obtain ⟨rfl, _⟩ := h
    fp_close
  | dma dc =>
    by_cases hz : dc = .z
    · subst hz
      simp only [Bus.cellWrite] at h
      split at h
      · cases h
      · rename_i d w' n hs
        simp at h
        obtain ⟨rfl, _⟩ := h
        have hah : w'.ahbm.cfg = b.per.ahbm.cfg := setZ_ahbm _ _ _ _ _ _ hs
        apply fp_of_per _ _ _ _ _ _ _ _ (Periph.raiseN_same _ _ _)
        · intro hr; simp [Cell.raises] at hr
        · fp_close
    · have h' : (match dmaCellWrite b.per.dma b.per.store[off] dc v with
          | .error e => .error e
          | .ok (d, st) => .ok ({ b with per := { b.per with dma := d, store := b.per.store.set off st } }, [])) = Except.ok (b', ev) := by
        cases dc <;> first | exact absurd rfl hz | exact h
      split at h'
      · cases h'
      · simp at h'
        obtain ⟨rfl, _⟩ := h'
        fp_close


/-- The fields `UpdateMMIO` / `TickEvent` / `Restart` never write. -/
private def Timer.ctl (t : Timer) : List U16 := [t.updateMmio, t.pause, t.countMode, t.scale, t.startHigh, t.startLow]

private theorem Timer.updateMMIO_ctl (t : Timer) : t.updateMMIO.ctl = t.ctl := by
  unfold Timer.updateMMIO; split <;> rfl

private theorem Timer.tickEvent_ctl (t : Timer) : t.tickEvent.1.ctl = t.ctl := by
  unfold Timer.tickEvent
  repeat' split
  all_goals first | rfl | (simp only []; rw [Timer.updateMMIO_ctl]; rfl)

private theorem Timer.restart_ctl (t t2 : Timer) (h : t.restart = .ok t2) : t2.ctl = t.ctl := by
  unfold Timer.restart at h
  split at h
  · simp at h; subst h
    unfold Timer.restartCore
    split
    · rw [Timer.updateMMIO_ctl]; rfl
    · rfl
  · cases h

private theorem timer_frame (t t' : Timer) (st st' : U16) (tc tc' : TimerCell) (v : U16) (f : Bool) (i : Fin 2)
    (h : t.cellWrite st tc v = .ok (t', st', f)) (hne : tc ≠ tc')
    (hnc : Cell.timer i tc' ∉ (Cell.timer i tc).coupledTo) (s : U16) :
    t'.cellRead s tc' = t.cellRead s tc' := by
  have hctl : tc ≠ .cfg → tc ≠ .startLow → tc ≠ .startHigh → t'.ctl = t.ctl := by
    intro h1 h2 h3
    cases tc <;> simp_all [Timer.cellWrite]
    · split at h <;> simp at h <;> obtain ⟨rfl, -, -⟩ := h
      · rfl
      · exact Timer.tickEvent_ctl t
    all_goals (obtain ⟨rfl, -, -⟩ := h; rfl)
  cases tc
  case cfg =>
    have hs : t'.startHigh = t.startHigh ∧ t'.startLow = t.startLow := by
      simp only [Timer.cellWrite] at h
      split at h
      · split at h
        · rename_i t2 hr
          simp at h
          obtain ⟨rfl, -, -⟩ := h
          have := Timer.restart_ctl _ _ hr
          simp [Timer.ctl] at this
          exact ⟨this.2.2.2.2.1, this.2.2.2.2.2⟩
        · cases h
      · simp at h
        obtain ⟨rfl, -, -⟩ := h
        exact ⟨rfl, rfl⟩
    cases tc' <;> simp_all [Cell.coupledTo, Timer.cellRead]
  case ew =>
    have := hctl (by simp) (by simp) (by simp)
    simp [Timer.ctl] at this
    cases tc' <;> simp_all [Cell.coupledTo, Timer.cellRead]
  all_goals (simp [Timer.cellWrite] at h; obtain ⟨rfl, -, -⟩ := h; cases tc' <;> simp_all [Timer.cellRead])

private theorem apbp_frame (cpu dsp : Apbp) (st : U16) (c c' : ApbpCell) (v : U16) (hne : c ≠ c')
    (hnc : Cell.apbp c' ∉ (Cell.apbp c).coupledTo) (s : U16) :
    (apbpCellRead (apbpCellWrite cpu dsp st c v).cpu (apbpCellWrite cpu dsp st c v).dsp s c').2 =
      (apbpCellRead cpu dsp s c').2 := by
  cases c <;> cases c' <;>
    simp_all [Cell.coupledTo, apbpCellWrite, apbpCellRead, Apbp.sendData, Apbp.recvData, Apbp.peekData,
      DataChannel.send, DataChannel.recv, DataChannel.peek, Apbp.setSemaphore, Apbp.maskSemaphoreGen,
      busApbpMaskFixed, Apbp.clearSemaphore, writeD4, Apbp.setDisableInterrupt, DataChannel.setDisableInterrupt,
      configD4, statusD6, statusD8, Apbp.isDataReady, DataChannel.isReady, Apbp.getSemaphore,
      Apbp.getSemaphoreMask, Apbp.getDisableInterrupt, DataChannel.getDisableInterrupt,
      Apbp.isSemaphoreSignaled, Vector.getElem_set]
  · rename_i ch1 ch2
    have : ¬ (ch1.val = ch2.val) := fun e => hne (Fin.ext e)
    simp [this]
  · rename_i ch
    have h3 : ch.val = 0 ∨ ch.val = 1 ∨ ch.val = 2 := by omega
    rcases h3 with h | h | h <;> simp [h]

private theorem Ahbm.getCh_setCh (a : Ahbm) (i j : Fin 3) (c : AhbmChannel) :
    (a.setCh i.val c).getCh j.val = if i = j then c else a.getCh j.val := by
  have hi : i.val = 0 ∨ i.val = 1 ∨ i.val = 2 := by omega
  have hj : j.val = 0 ∨ j.val = 1 ∨ j.val = 2 := by omega
  by_cases hij : i = j
  · subst hij
    rcases hi with h | h | h <;> simp [Ahbm.getCh, Ahbm.setCh, h]
  · have : i.val ≠ j.val := fun e => hij (Fin.ext e)
    rcases hi with h | h | h <;> rcases hj with h' | h' | h' <;> simp_all [Ahbm.getCh, Ahbm.setCh]

@[simp] private theorem Ahbm.busyFlag_setCh (a : Ahbm) (k : Nat) (c : AhbmChannel) : (a.setCh k c).busyFlag = a.busyFlag := by
  unfold Ahbm.setCh; split <;> rfl

private theorem ahbm_frame (a : Ahbm) (st : U16) (c c' : AhbmCell) (v : U16) (hne : c ≠ c') (s : U16) :
    ahbmCellRead (ahbmCellWrite a st c v).1 s c' = ahbmCellRead a s c' := by
  cases c <;> cases c' <;> simp_all [ahbmCellWrite, ahbmCellRead, Ahbm.getCh_setCh, Ahbm.getBusyFlag]
  all_goals (split <;> simp_all)

private theorem miu_frame (m : Miu) (st : U16) (c c' : MiuCell) (v : U16) (hne : c ≠ c') (s : U16) :
    miuCellRead (miuCellWrite m st c v).1 s c' = miuCellRead m s c' := by
  cases c <;> cases c' <;> simp_all [miuCellWrite, miuCellRead]
  rename_i k1 k2
  have h1 := vset_ne' m.xSize k1 k2 (bfField v 0 6) hne
  have h2 := vset_ne' m.ySize k1 k2 (bfField v 8 6) hne
  rw [h1, h2]

private theorem icu_frame (x : Icu) (st : U16) (c c' : IcuCell) (v : U16) (hne : c ≠ c')
    (hnc : Cell.icu c' ∉ (Cell.icu c).coupledTo) (s : U16) :
    icuCellRead (icuCellWrite x st c v).1 s c' = icuCellRead x s c' := by
  cases c <;> cases c' <;> simp_all [Cell.coupledTo, icuCellWrite, icuCellRead, Icu.getRequest, Icu.acknowledge,
    Icu.getAcknowledge, Icu.getTrigger, Icu.trigger, Icu.setEnable, Icu.getEnable, Icu.setEnableVectored,
    Icu.getEnableVectored]
  · rename_i k1 k2
    exact vset_ne' x.enabled k1 k2 v hne
  · rename_i k1 k2
    have h1 := vset_ne' x.vectorHigh k1 k2 (bfField v 0 2) hne
    have h2 := vset_ne' x.vectorContextSwitch k1 k2 (bfField v 15 1) hne
    rw [h1, h2]
  · rename_i k1 k2
    exact vset_ne' x.vectorLow k1 k2 v hne

private theorem bt_frame (x : Btdmp) (st : U16) (c c' : BtCell) (v : U16) (hne : c ≠ c') (i : Fin 2)
    (hnc : Cell.btdmp i c' ∉ (Cell.btdmp i c).coupledTo) (s : U16) :
    btCellRead (btCellWrite x st c v).1 s c' = btCellRead x s c' := by
  cases c <;> cases c' <;> simp_all [Cell.coupledTo, btCellWrite, btCellRead, Btdmp.setTransmitClockConfig,
    Btdmp.getTransmitClockConfig, Btdmp.setTransmitEnable, Btdmp.getTransmitEnable, Btdmp.getTransmitFlush,
    Btdmp.setTransmitFlush, Btdmp.getTransmitFull, Btdmp.getTransmitEmpty]
  all_goals first | rfl | (unfold Btdmp.send; split <;> rfl)

private theorem DmaField.get_set_ne (f f' : DmaField) (c : DmaChannel) (v : U16) (h : f ≠ f') : f'.get (f.set c v) = f'.get c := by
  cases f <;> cases f' <;> first | rfl | exact absurd rfl h

private theorem DmaField.get_set (f : DmaField) (c : DmaChannel) (v : U16) : f.get (f.set c v) = v := by
  cases f <;> rfl

private theorem DmaField.set_other (f : DmaField) (c : DmaChannel) (v : U16) :
    (f.set c v).srcSpace = c.srcSpace ∧ (f.set c v).dstSpace = c.dstSpace ∧ (f.set c v).dwordMode = c.dwordMode ∧
    (f.set c v).z = c.z := by
  cases f <;> exact ⟨rfl, rfl, rfl, rfl⟩

/-- `setActive` spelled out. -/
private theorem Dma.setActive_ok (d d' : Dma) (g : DmaChannel → DmaChannel) (h : d.setActive g = .ok d') :
    ∃ ha : d.activeChannel.toNat < 8,
      d' = { d with channels := d.channels.set d.activeChannel.toNat (g d.channels[d.activeChannel.toNat]) } := by
  unfold Dma.setActive at h
  split at h
  · rename_i ha; simp at h; exact ⟨ha, h.symm⟩
  · cases h

private theorem Dma.getActive_eq (d : Dma) {α : Type} (g : DmaChannel → α) (ha : d.activeChannel.toNat < 8) :
    d.getActive g = .ok (g d.channels[d.activeChannel.toNat]) := by
  unfold Dma.getActive; simp [ha]

private theorem Dma.getActive_err (d : Dma) {α : Type} (g : DmaChannel → α) (ha : ¬ d.activeChannel.toNat < 8) :
    d.getActive g = .error .oob := by
  unfold Dma.getActive; simp [ha]

private theorem dma_frame (d d' : Dma) (st st' : U16) (c c' : DmaCell) (v : U16)
    (h : dmaCellWrite d st c v = .ok (d', st')) (hz : c ≠ .z) (hne : c ≠ c')
    (hnc : Cell.dma c' ∉ (Cell.dma c).coupledTo) (s : U16) : dmaCellRead d' s c' = dmaCellRead d s c' := by
  cases c
  case z => exact absurd rfl hz
  case enable =>
    simp [dmaCellWrite] at h; obtain ⟨rfl, -⟩ := h
    cases c' <;> first | rfl | exact absurd rfl hne
  case seox =>
    simp [dmaCellWrite] at h; obtain ⟨rfl, -⟩ := h; rfl
  case active =>
    simp [dmaCellWrite] at h; obtain ⟨rfl, -⟩ := h
    cases c' <;> first | rfl | exact absurd rfl hne | (exfalso; apply hnc; simp [Cell.coupledTo, dmaWindowCells])
    rename_i f
    exfalso; apply hnc
    cases f <;> simp [Cell.coupledTo, dmaWindowCells]
  case field f =>
    simp only [dmaCellWrite] at h
    split at h
    · rename_i d1 hs
      simp at h; obtain ⟨rfl, -⟩ := h
      obtain ⟨ha, rfl⟩ := Dma.setActive_ok _ _ _ hs
      cases c' <;> simp_all [dmaCellRead, Dma.getChannelEnabled, Dma.getActiveChannel, Dma.getActive, Dma.getSrcSpace,
        Dma.getDstSpace, Dma.getDwordMode, Dma.getZ, DmaField.set_other]
      rename_i f'
      exact DmaField.get_set_ne f f' _ v (fun e => hne (by rw [e]))
    · cases h
  case cfg =>
    simp only [dmaCellWrite, Dma.setSrcSpace, Dma.setDstSpace, Dma.setDwordMode] at h
    split at h
    · cases h
    · rename_i d1 h1
      split at h
      · cases h
      · rename_i d2 h2
        split at h
        · cases h
        · rename_i d3 h3
          simp at h; obtain ⟨rfl, -⟩ := h
          obtain ⟨ha1, rfl⟩ := Dma.setActive_ok _ _ _ h1
          obtain ⟨ha2, rfl⟩ := Dma.setActive_ok _ _ _ h2
          obtain ⟨ha3, rfl⟩ := Dma.setActive_ok _ _ _ h3
          cases c' <;> simp_all [dmaCellRead, Dma.getChannelEnabled, Dma.getActiveChannel, Dma.getActive, Dma.getZ]
          rename_i f'
          cases f' <;> rfl

private theorem DmaChannel.regs_fields (c c' : DmaChannel) (h : c.regs.dropLast = c'.regs.dropLast) (f : DmaField) :
    f.get c = f.get c' ∧ c.srcSpace = c'.srcSpace ∧ c.dstSpace = c'.dstSpace ∧ c.dwordMode = c'.dwordMode := by
  simp [DmaChannel.regs] at h
  cases f <;> simp_all [DmaField.get]

/-- `Dma::SetZ` (with or without a transfer) leaves every register but `z` of every channel, the
enable word and the select word alone. -/
private theorem Dma.setZ_regs (d d' : Dma) (w w' : World Mem ExtSt) (v : U16) (n : Nat) (h : d.setZ w v = .ok (d', w', n)) :
    d'.enableChannel = d.enableChannel ∧ d'.activeChannel = d.activeChannel ∧
    (∀ j : Fin 8, d'.channels[j].regs.dropLast = d.channels[j].regs.dropLast) ∧
    (∀ j : Fin 8, j.val ≠ d.activeChannel.toNat → d'.channels[j] = d.channels[j]) ∧
    d'.getZ = .ok v := by
  unfold Dma.setZ at h
  split at h
  · rename_i d1 hs
    obtain ⟨ha, hd1⟩ := Dma.setActive_ok _ _ _ hs
    have a1 : d1.enableChannel = d.enableChannel := by rw [hd1]
    have a2 : d1.activeChannel = d.activeChannel := by rw [hd1]
    have h1 : ∀ j : Fin 8, d1.channels[j].regs.dropLast = d.channels[j].regs.dropLast := by
      intro j
      rw [hd1]
      by_cases hj : d.activeChannel.toNat = j.val
      · have : j = ⟨d.activeChannel.toNat, ha⟩ := Fin.ext hj.symm
        subst this
        simp only [Fin.getElem_fin, Vector.getElem_set_self]
        rfl
      · simp only [Fin.getElem_fin]
        rw [Vector.getElem_set_ne _ _ hj]
    have h2 : ∀ j : Fin 8, j.val ≠ d.activeChannel.toNat → d1.channels[j] = d.channels[j] := by
      intro j hj
      rw [hd1]
      simp only [Fin.getElem_fin]
      rw [Vector.getElem_set_ne _ _ (Ne.symm hj)]
    have h3 : d1.channels[d.activeChannel.toNat].z = v := by
      rw [hd1]
      simp only [Vector.getElem_set_self]
    split at h
    · obtain ⟨e1, e2, e3, e4⟩ := Dma.doDma_regs _ _ _ _ _ _ h
      refine ⟨e1.trans a1, e2.trans a2, ?_, ?_, ?_⟩
      · intro j; rw [← h1 j, e3 j]
      · intro j hj
        rw [e4 j (by rw [a2]; exact hj)]
        exact h2 j hj
      · have ha' : d'.activeChannel.toNat < 8 := by rw [e2, a2]; exact ha
        unfold Dma.getZ
        rw [Dma.getActive_eq _ _ ha']
        have := e3 ⟨d.activeChannel.toNat, ha⟩
        simp [DmaChannel.regs] at this
        have hz := this.2.2.2.2.2.2.2.2.2.2.2.2.2.2.2.2.2
        have e : d'.activeChannel.toNat = d.activeChannel.toNat := by rw [e2, a2]
        simp only [e, hz, h3]
    · simp at h
      obtain ⟨rfl, -, -⟩ := h
      refine ⟨a1, a2, h1, h2, ?_⟩
      unfold Dma.getZ
      have ha' : d1.activeChannel.toNat < 8 := by rw [a2]; exact ha
      rw [Dma.getActive_eq _ _ ha']
      simp only [a2, h3]
  · cases h

private theorem dmaz_frame (d d' : Dma) (w w' : World Mem ExtSt) (v : U16) (n : Nat) (h : d.setZ w v = .ok (d', w', n))
    (c' : DmaCell) (hne : c' ≠ .z) (s : U16) : dmaCellRead d' s c' = dmaCellRead d s c' := by
  obtain ⟨e1, e2, e3, -, -⟩ := Dma.setZ_regs _ _ _ _ _ _ h
  by_cases ha : d.activeChannel.toNat < 8
  · have ha' : d'.activeChannel.toNat < 8 := by rw [e2]; exact ha
    have key := fun f => DmaChannel.regs_fields _ _ (e3 ⟨d.activeChannel.toNat, ha⟩) f
    cases c' <;> simp_all [dmaCellRead, Dma.getChannelEnabled, Dma.getActiveChannel, Dma.getActive, Dma.getSrcSpace,
      Dma.getDstSpace, Dma.getDwordMode]
    have k := key .y
    rw [k.2.1, k.2.2.1, k.2.2.2]
  · have ha' : ¬ d'.activeChannel.toNat < 8 := by rw [e2]; exact ha
    cases c' <;> simp_all [dmaCellRead, Dma.getChannelEnabled, Dma.getActiveChannel, Dma.getActive, Dma.getSrcSpace,
      Dma.getDstSpace, Dma.getDwordMode]
    all_goals simp [Nat.not_lt.mpr ha]


private theorem coupledTo_no_store (c : Cell) : Cell.store ∉ c.coupledTo := by
  unfold Cell.coupledTo
  split <;> simp [dmaWindowCells]

private theorem ahbmCellRead_cfg (a a' : Ahbm) (s : U16) (c : AhbmCell) (h : a'.cfg = a.cfg) :
    ahbmCellRead a' s c = ahbmCellRead a s c := by
  simp [Ahbm.cfg, AhbmChannel.cfg] at h
  obtain ⟨h0, ⟨a1, a2, a3, a4⟩, ⟨b1, b2, b3, b4⟩, ⟨c1, c2, c3, c4⟩⟩ := h
  cases c
  case busy => simp [ahbmCellRead, Ahbm.getBusyFlag, h0]
  all_goals
    rename_i i
    have hi : i.val = 0 ∨ i.val = 1 ∨ i.val = 2 := by omega
    rcases hi with hi | hi | hi <;> simp [ahbmCellRead, Ahbm.getCh, *]

private theorem icuCellRead_cfg (x x' : Icu) (s : U16) (c : IcuCell) (h : Icu.CfgEq x' x) (hc : c ≠ .request) :
    icuCellRead x' s c = icuCellRead x s c := by
  obtain ⟨h1, h2, h3, h4, h5⟩ := h
  cases c <;> simp_all [icuCellRead, Icu.getAcknowledge, Icu.getTrigger, Icu.getEnable, Icu.getEnableVectored]

private theorem raises_coupled (c : Cell) (h : Cell.icu .request ∉ c.coupledTo) : c.raises = false := by
  unfold Cell.raises
  split <;> simp_all [Cell.coupledTo]

/-- The frame property at the level of cells. -/
theorem cell_frame (b b' : Bus) (off off' : Fin mmioSize) (v : U16) (c c' : Cell) (ev : List PEvent)
    (h : b.cellWrite off v c = .ok (b', ev)) (hoff : off' ≠ off) (hne : c ≠ c')
    (hnc : c' ∉ c.coupledTo) : b'.cellReadVal off' c' = b.cellReadVal off' c' := by
  have fp := cellWrite_footprint _ _ _ _ _ _ h
  have hst := fp.store off' hoff
  cases c' with
  | store => simp only [cellReadVal, hst]
  | const k => rfl
  | timer j tc' =>
    simp only [cellReadVal, hst]
    by_cases hc : ∃ tc, c = .timer j tc
    · obtain ⟨tc, rfl⟩ := hc
      simp only [Bus.cellWrite] at h
      split at h
      · cases h
      · rename_i t st fired hw
        simp at h
        obtain ⟨rfl, -⟩ := h
        have := timer_frame _ _ _ _ tc tc' v fired j hw (fun e => hne (by rw [e])) hnc b.per.store[off']
        simp only [(Periph.raiseIf_same _ _ _).timer]
        simp only [Fin.getElem_fin] at this ⊢
        rw [Vector.getElem_set_self, this]
    · rw [fp.timer j (fun tc e => hc ⟨tc, e⟩)]
  | apbp ac' =>
    simp only [cellReadVal, hst]
    by_cases hc : ∃ ac, c = .apbp ac
    · obtain ⟨ac, rfl⟩ := hc
      simp only [Bus.cellWrite] at h
      simp at h
      obtain ⟨rfl, -⟩ := h
      have := apbp_frame b.per.apbpFromCpu b.per.apbpFromDsp b.per.store[off] ac ac' v (fun e => hne (by rw [e])) hnc
        b.per.store[off']
      simp only [(Periph.raiseN_same _ _ _).cpu, (Periph.raiseN_same _ _ _).dsp]
      simp only [Fin.getElem_fin] at this ⊢
      rw [this]
    · have := fp.apbp (fun ac e => hc ⟨ac, e⟩)
      rw [this.1, this.2]
  | ahbm ac' =>
    simp only [cellReadVal, hst]
    by_cases hc : ∃ ac, c = .ahbm ac
    · obtain ⟨ac, rfl⟩ := hc
      simp [Bus.cellWrite] at h
      obtain ⟨rfl, -⟩ := h
      have := ahbm_frame b.per.ahbm b.per.store[off] ac ac' v (fun e => hne (by rw [e])) b.per.store[off']
      simp only [Fin.getElem_fin] at this ⊢
      simp only [this]
    · have := fp.ahbm (fun ac e => hc ⟨ac, e⟩)
      rw [ahbmCellRead_cfg _ _ _ _ this]
  | miu mc' =>
    simp only [cellReadVal, hst]
    by_cases hc : ∃ mc, c = .miu mc
    · obtain ⟨mc, rfl⟩ := hc
      simp [Bus.cellWrite] at h
      obtain ⟨rfl, -⟩ := h
      have := miu_frame b.miu b.per.store[off] mc mc' v (fun e => hne (by rw [e])) b.per.store[off']
      simp only [Fin.getElem_fin] at this ⊢
      simp only [this]
    · rw [fp.miu (fun mc e => hc ⟨mc, e⟩)]
  | btdmp j bc' =>
    simp only [cellReadVal, hst]
    by_cases hc : ∃ bc, c = .btdmp j bc
    · obtain ⟨bc, rfl⟩ := hc
      simp [Bus.cellWrite] at h
      obtain ⟨rfl, -⟩ := h
      have := bt_frame b.per.btdmp[j] b.per.store[off] bc bc' v (fun e => hne (by rw [e])) j hnc b.per.store[off']
      simp only [Fin.getElem_fin] at this ⊢
      rw [Vector.getElem_set_self, this]
    · rw [fp.btdmp j (fun bc e => hc ⟨bc, e⟩)]
  | icu ic' =>
    simp only [cellReadVal, hst]
    by_cases hc : ∃ ic, c = .icu ic
    · obtain ⟨ic, rfl⟩ := hc
      simp [Bus.cellWrite] at h
      obtain ⟨rfl, -⟩ := h
      have := icu_frame b.per.icu b.per.store[off] ic ic' v (fun e => hne (by rw [e])) hnc b.per.store[off']
      simp only [Fin.getElem_fin] at this ⊢
      simp only [this]
    · have hcfg := fp.icuCfg (fun ic e => hc ⟨ic, e⟩)
      by_cases hr : ic' = .request
      · subst hr
        have hreq := fp.icuReq (fun ic e => hc ⟨ic, e⟩) (raises_coupled c hnc)
        simp only [icuCellRead, Icu.getRequest, hreq]
      · rw [icuCellRead_cfg _ _ _ _ hcfg hr]
  | dma dc' =>
    simp only [cellReadVal, hst]
    by_cases hc : ∃ dc, c = .dma dc
    · obtain ⟨dc, rfl⟩ := hc
      by_cases hz : dc = .z
      · subst hz
        simp only [Bus.cellWrite] at h
        split at h
        · cases h
        · rename_i d w' n hs
          simp at h
          obtain ⟨rfl, -⟩ := h
          simp only [(Periph.raiseN_same _ _ _).dma]
          exact dmaz_frame _ _ _ _ _ _ hs dc' (fun e => hne (by rw [e])) _
      · have h' : (match dmaCellWrite b.per.dma b.per.store[off] dc v with
            | .error e => .error e
            | .ok (d, st) => .ok ({ b with per := { b.per with dma := d, store := b.per.store.set off st } }, [])) =
              Except.ok (b', ev) := by
          cases dc <;> first | exact absurd rfl hz | exact h
        split at h'
        · cases h'
        · rename_i d st hw
          simp at h'
          obtain ⟨rfl, -⟩ := h'
          exact dma_frame _ _ _ _ dc dc' v hw hz (fun e => hne (by rw [e])) hnc _
    · rw [fp.dma (fun dc e => hc ⟨dc, e⟩)]
private theorem bfGet_self (v : U16) (pos len : Nat) : bfGet v pos len (bfField v pos len) = v := by
  unfold bfGet bfField
  generalize ((1 : U16) <<< len) - 1 = m
  ext i hi
  simp only [BitVec.getElem_or, BitVec.getElem_and, BitVec.getElem_not, BitVec.getElem_shiftLeft,
    BitVec.getElem_ushiftRight]
  by_cases h : i < pos
  · simp [h]
  · have : pos + (i - pos) = i := by omega
    simp only [h, this, BitVec.getLsbD_eq_getElem hi]
    cases v[i] <;> cases m[i - pos] <;> simp

/-- Two overlays of disjoint fields commute with reading back the second one. -/
private theorem bfGet_bfGet_self (s v : U16) (p1 l1 p2 l2 : Nat) (g : U16) (h : bfGet s p1 l1 g = v) :
    bfGet (bfGet s p1 l1 g) p2 l2 (bfField v p2 l2) = v := by
  rw [h]; exact bfGet_self v p2 l2


private theorem bitSlot_getElem (value : U16) (pos : Nat) (b : Bool) (j : Nat) (hj : j < 16) :
    (bitSlot value pos b)[j] = if j = pos then b else value[j] := by
  unfold bitSlot
  simp only [BitVec.getElem_or, BitVec.getElem_and, BitVec.getElem_not, BitVec.getElem_shiftLeft]
  by_cases h : j = pos
  · subst h; cases b <;> simp
  · by_cases h2 : j < pos
    · simp [h, h2]
    · have : j - pos ≠ 0 := by omega
      have h3 : (1#16)[j - pos]'(by omega) = false := by
        have : (1#16).getLsbD (j - pos) = false := by
          rw [BitVec.getLsbD_one]; simp [this]
        rw [← BitVec.getLsbD_eq_getElem]; exact this
      cases b <;> simp [h, h2, h3]

local macro "bits16" : tactic => `(tactic| (
  ext i hi
  have hcases : i = 0 ∨ i = 1 ∨ i = 2 ∨ i = 3 ∨ i = 4 ∨ i = 5 ∨ i = 6 ∨ i = 7 ∨ i = 8 ∨ i = 9 ∨ i = 10 ∨
      i = 11 ∨ i = 12 ∨ i = 13 ∨ i = 14 ∨ i = 15 := by omega
  rcases hcases with h|h|h|h|h|h|h|h|h|h|h|h|h|h|h|h <;> subst h <;> simp [bitSlot_getElem]))

private theorem statusD6_mask (v : U16) (cpu dsp : Apbp) : statusD6 v cpu dsp &&& 0xCC1F = v &&& 0xCC1F := by
  unfold statusD6
  bits16

private theorem statusD8_mask (v : U16) (cpu dsp : Apbp) : statusD8 v cpu dsp &&& 0x01FF = v &&& 0x01FF := by
  unfold statusD8
  bits16

private theorem bfGet_one_bool (s : U16) (pos : Nat) (b : Bool) : bfGet s pos 1 (if b then 1 else 0) = bitSlot s pos b := by
  simp [bfGet, bitSlot]

private theorem btStatus_mask (v : U16) (x : Btdmp) : btCellRead x v .status &&& 0xFFE7 = v &&& 0xFFE7 := by
  simp only [btCellRead, Btdmp.getTransmitFull, Btdmp.getTransmitEmpty, bfGet_one_bool]
  bits16

private theorem bfGet_zero_mask (v : U16) : bfGet v 10 1 0 &&& 0xFBFF = v &&& 0xFBFF := by
  have : bfGet v 10 1 0 = bitSlot v 10 false := by simp [bfGet, bitSlot]
  rw [this]
  bits16

private theorem configD4_writeD4 (v : U16) (cpu : Apbp) : configD4 v (writeD4 cpu v) = v := by
  have e : ∀ (value g : U16) (pos : Nat), ((value &&& ~~~((1 : U16) <<< pos)) ||| (g <<< pos)) = bfGet value pos 1 g := by
    intro value g pos; simp [bfGet]
  have f : ∀ pos, (v >>> pos) &&& 1 = bfField v pos 1 := by intro pos; simp [bfField]
  simp only [configD4, writeD4, Apbp.getDisableInterrupt, Apbp.setDisableInterrupt, DataChannel.getDisableInterrupt,
    DataChannel.setDisableInterrupt, e, f]
  simp [bfGet_self]


/-- Read-back at the level of cells: after a successful write of `v`, the cell reads `v` on the
bits of its mask. -/
theorem cell_readback (b b' : Bus) (off : Fin mmioSize) (v m : U16) (c : Cell) (ev : List PEvent)
    (h : b.cellWrite off v c = .ok (b', ev)) (hm : c.kind.rwMask = some m) :
    ∃ r, b'.cellReadVal off c = .ok r ∧ r &&& m = v &&& m := by
  cases c with
  | store =>
    simp [Bus.cellWrite] at h
    obtain ⟨rfl, -⟩ := h
    exact ⟨v, by simp [cellReadVal], rfl⟩
  | const k => simp [Cell.kind, CellKind.rwMask] at hm
  | timer i tc =>
    simp only [Bus.cellWrite] at h
    split at h
    · cases h
    · rename_i t st fired hw
      simp at h
      obtain ⟨rfl, -⟩ := h
      simp only [cellReadVal, (Periph.raiseIf_same _ _ _).timer, (Periph.raiseIf_same _ _ _).store]
      simp only [Fin.getElem_fin, Vector.getElem_set_self]
      refine ⟨_, rfl, ?_⟩
      cases tc <;> simp [Cell.kind, CellKind.rwMask] at hm <;> subst hm <;> simp [Timer.cellWrite] at hw
      · have key : t.updateMmio = bfField v 9 1 ∧ t.pause = bfField v 8 1 ∧ t.countMode = bfField v 2 3 ∧
            t.scale = bfField v 0 2 ∧ st = v := by
          split at hw
          · simp at hw; obtain ⟨rfl, rfl, -⟩ := hw; exact ⟨rfl, rfl, rfl, rfl, rfl⟩
          · split at hw
            · rename_i t2 hr
              simp at hw; obtain ⟨rfl, rfl, -⟩ := hw
              have := Timer.restart_ctl _ _ hr
              simp [Timer.ctl] at this
              exact ⟨this.1, this.2.1, this.2.2.1, this.2.2.2.1, rfl⟩
            · cases hw
        obtain ⟨k1, k2, k3, k4, rfl⟩ := key
        simp only [Timer.cellRead, k1, k2, k3, k4, bfGet_self]
        exact bfGet_zero_mask st
      all_goals (obtain ⟨rfl, -, -⟩ := hw; simp [Timer.cellRead])
  | apbp ac =>
    simp only [Bus.cellWrite] at h
    simp at h
    obtain ⟨rfl, -⟩ := h
    simp only [cellReadVal, (Periph.raiseN_same _ _ _).cpu, (Periph.raiseN_same _ _ _).dsp, (Periph.raiseN_same _ _ _).store]
    simp only [Fin.getElem_fin, Vector.getElem_set_self]
    refine ⟨_, rfl, ?_⟩
    cases ac <;> simp [Cell.kind, CellKind.rwMask] at hm <;> subst hm <;>
      simp [apbpCellWrite, apbpCellRead, Apbp.sendData, Apbp.peekData, DataChannel.send, DataChannel.peek,
        Apbp.maskSemaphoreGen, busApbpMaskFixed, Apbp.getSemaphoreMask, configD4_writeD4]
    · exact statusD6_mask _ _ _
    · exact statusD8_mask _ _ _
  | ahbm ac =>
    simp [Bus.cellWrite] at h
    obtain ⟨rfl, -⟩ := h
    simp only [cellReadVal, Fin.getElem_fin, Vector.getElem_set_self]
    refine ⟨_, rfl, ?_⟩
    cases ac <;> simp [Cell.kind, CellKind.rwMask] at hm <;> subst hm <;>
      simp [ahbmCellWrite, ahbmCellRead, Ahbm.getCh_setCh, bfGet_self]
  | miu mc =>
    simp [Bus.cellWrite] at h
    obtain ⟨rfl, -⟩ := h
    simp only [cellReadVal, Fin.getElem_fin, Vector.getElem_set_self]
    refine ⟨_, rfl, ?_⟩
    cases mc <;> simp [Cell.kind, CellKind.rwMask] at hm <;> subst hm <;>
      simp [miuCellWrite, miuCellRead, bfGet_self]
  | icu ic =>
    simp [Bus.cellWrite] at h
    obtain ⟨rfl, -⟩ := h
    simp only [cellReadVal, Fin.getElem_fin, Vector.getElem_set_self]
    refine ⟨_, rfl, ?_⟩
    cases ic <;> simp [Cell.kind, CellKind.rwMask] at hm <;> subst hm <;>
      simp [icuCellWrite, icuCellRead, Icu.setEnable, Icu.getEnable, Icu.setEnableVectored, Icu.getEnableVectored, bfGet_self]
  | btdmp i bc =>
    simp [Bus.cellWrite] at h
    obtain ⟨rfl, -⟩ := h
    simp only [cellReadVal, Fin.getElem_fin, Vector.getElem_set_self]
    refine ⟨_, rfl, ?_⟩
    cases bc <;> simp [Cell.kind, CellKind.rwMask] at hm <;> subst hm
    · simp [btCellWrite, btCellRead, Btdmp.setTransmitClockConfig, Btdmp.getTransmitClockConfig]
    · simp [btCellWrite, btCellRead, Btdmp.setTransmitEnable, Btdmp.getTransmitEnable]
    · simp only [btCellWrite]; exact btStatus_mask v _
  | dma dc =>
    by_cases hz : dc = .z
    · subst hz
      simp only [Bus.cellWrite] at h
      split at h
      · cases h
      · rename_i d w' n hs
        simp at h
        obtain ⟨rfl, -⟩ := h
        simp [Cell.kind, CellKind.rwMask] at hm
        subst hm
        simp only [cellReadVal, (Periph.raiseN_same _ _ _).dma, dmaCellRead]
        exact ⟨v, (Dma.setZ_regs _ _ _ _ _ _ hs).2.2.2.2, rfl⟩
    · have h' : (match dmaCellWrite b.per.dma b.per.store[off] dc v with
          | .error e => .error e
          | .ok (d, st) => .ok ({ b with per := { b.per with dma := d, store := b.per.store.set off st } }, [])) =
            Except.ok (b', ev) := by
        cases dc <;> first | exact absurd rfl hz | exact h
      split at h'
      · cases h'
      · rename_i d st hw
        simp at h'
        obtain ⟨rfl, -⟩ := h'
        simp only [cellReadVal, Fin.getElem_fin, Vector.getElem_set_self]
        cases dc <;> simp [Cell.kind, CellKind.rwMask] at hm <;> subst hm
        · simp [dmaCellWrite] at hw; obtain ⟨rfl, rfl⟩ := hw
          exact ⟨v, rfl, rfl⟩
        · simp [dmaCellWrite] at hw; obtain ⟨rfl, rfl⟩ := hw
          refine ⟨v &&& 7, rfl, ?_⟩
          rw [BitVec.and_assoc]; rfl
        · rename_i f
          simp only [dmaCellWrite] at hw
          split at hw
          · rename_i d1 hs
            simp at hw; obtain ⟨rfl, rfl⟩ := hw
            obtain ⟨ha, rfl⟩ := Dma.setActive_ok _ _ _ hs
            refine ⟨v, ?_, rfl⟩
            simp only [dmaCellRead]
            rw [Dma.getActive_eq _ _ (by exact ha)]
            simp [DmaField.get_set]
          · cases hw
        · simp only [dmaCellWrite, Dma.setSrcSpace, Dma.setDstSpace, Dma.setDwordMode] at hw
          split at hw
          · cases hw
          · rename_i d1 h1
            split at hw
            · cases hw
            · rename_i d2 h2
              split at hw
              · cases hw
              · rename_i d3 h3
                simp at hw; obtain ⟨rfl, rfl⟩ := hw
                obtain ⟨ha1, rfl⟩ := Dma.setActive_ok _ _ _ h1
                obtain ⟨ha2, rfl⟩ := Dma.setActive_ok _ _ _ h2
                obtain ⟨ha3, rfl⟩ := Dma.setActive_ok _ _ _ h3
                refine ⟨v, ?_, rfl⟩
                simp [dmaCellRead, Dma.getSrcSpace, Dma.getDstSpace, Dma.getDwordMode, Dma.getActive, ha1, bfGet_self]
        · exact absurd rfl hz


private theorem apbp_dspEv (cpu dsp : Apbp) (st : U16) (c : ApbpCell) (v : U16)
    (hc : (Cell.apbp c).emits = false) : (apbpCellWrite cpu dsp st c v).dspEv = [] ∧ (apbpCellWrite cpu dsp st c v).cpuEv = [] := by
  cases c <;> simp_all [apbpCellWrite, Cell.emits]

/-- Only trigger cells call handlers. -/
theorem cell_events (b b' : Bus) (off : Fin mmioSize) (v : U16) (c : Cell) (ev : List PEvent)
    (h : b.cellWrite off v c = .ok (b', ev)) (he : c.emits = false) : ev = [] := by
  cases c with
  | store => simp [Bus.cellWrite] at h; exact h.2
  | const k => simp [Bus.cellWrite] at h; exact h.2
  | timer i tc =>
    simp only [Bus.cellWrite] at h
    split at h
    · cases h
    · rename_i t st fired hw
      simp at h
      obtain ⟨-, rfl⟩ := h
      have : fired = false := by
        apply Timer.cellWrite_fired _ _ _ _ _ _ _ hw
        intro e; subst e; simp [Cell.emits] at he
      subst this
      rfl
  | apbp ac =>
    simp only [Bus.cellWrite] at h
    simp at h
    obtain ⟨-, rfl⟩ := h
    obtain ⟨h1, h2⟩ := apbp_dspEv b.per.apbpFromCpu b.per.apbpFromDsp b.per.store[off] ac v he
    simp only [Fin.getElem_fin] at h1 h2
    simp [h1, h2, Periph.raiseN]
  | ahbm ac => simp [Bus.cellWrite] at h; exact h.2
  | miu mc => simp [Bus.cellWrite] at h; exact h.2
  | btdmp i bc => simp [Bus.cellWrite] at h; exact h.2
  | icu ic =>
    simp [Bus.cellWrite] at h
    obtain ⟨-, rfl⟩ := h
    cases ic <;> simp_all [icuCellWrite, Cell.emits]
  | dma dc =>
    have hz : dc ≠ .z := by intro e; subst e; simp [Cell.emits] at he
    have h' : (match dmaCellWrite b.per.dma b.per.store[off] dc v with
        | .error e => .error e
        | .ok (d, st) => .ok ({ b with per := { b.per with dma := d, store := b.per.store.set off st } }, [])) =
          Except.ok (b', ev) := by
      cases dc <;> first | exact absurd rfl hz | exact h
    split at h'
    · cases h'
    · simp at h'; exact h'.2

namespace Bus

/-- `cellTable` (the unrolled constructor) agrees with the loop arithmetic `Cell.off`. -/
theorem cellTable_off : ∀ e ∈ cellTable, e.2.off = some e.1 := by decide +kernel

private theorem lookup_mem {α β : Type} [BEq α] [LawfulBEq α] (a : α) (b : β) :
    ∀ (l : List (α × β)), l.lookup a = some b → (a, b) ∈ l := by
  intro l
  induction l with
  | nil => simp [List.lookup]
  | cons x xs ih =>
    obtain ⟨k, w⟩ := x
    simp only [List.lookup]
    by_cases h : a == k
    · simp [h]; intro hw; left; simp at h; simp [h, hw]
    · simp [h]; intro hw; right; exact ih hw

/-- Either the offset is not assigned by the constructor (a plain storage cell) or it is a table
entry. -/
private theorem cellAt_cases (o : Nat) : cellAt o = .store ∨ (o, cellAt o) ∈ cellTable := by
  unfold cellAt
  cases hl : cellTable.lookup o with
  | none => left; rfl
  | some c => right; simpa using lookup_mem o c _ hl

/-- A cell that the constructor assigns sits at the offset its loop arithmetic says. -/
theorem cellAt_off (o : Nat) (h : cellAt o ≠ .store) : (cellAt o).off = some o := by
  rcases cellAt_cases o with hs | hm
  · exact absurd hs h
  · exact cellTable_off _ hm

/-- No two offsets share a peripheral register: assigned cells at different offsets are
different cells. -/
theorem cellAt_inj (o o' : Nat) (h : cellAt o ≠ .store) (he : cellAt o = cellAt o') : o = o' := by
  have h1 := cellAt_off o h
  have h2 := cellAt_off o' (he ▸ h)
  rw [he] at h1
  exact Option.some.inj (h1.symm.trans h2)

/-- `rwRegisters` is exactly the set of assigned cells classified read/write, with their masks;
every unassigned offset is a plain storage cell (mask 0xFFFF). -/
theorem kind_table (o : Nat) :
    (kindAt o).rwMask = if cellAt o = .store then some 0xFFFF else rwRegisters.lookup o := by
  have key : ∀ e ∈ cellTable, e.2 ≠ .store ∧ e.2.kind.rwMask = rwRegisters.lookup e.1 := by decide +kernel
  rcases cellAt_cases o with hs | hm
  · simp [kindAt, hs, Cell.kind, CellKind.rwMask]
  · have := key _ hm
    simp [kindAt, this.1, this.2]

/-- `coupledList` is exactly `Coupled`. -/
theorem coupled_table (o o' : Nat) : Coupled o o' ↔ (o, o') ∈ coupledList := by
  have key : ∀ e ∈ cellTable, e.2.coupledTo.filterMap Cell.off = (coupledList.filter (·.1 == e.1)).map (·.2) := by
    decide +kernel
  have none : ∀ p ∈ coupledList, (cellTable.lookup p.1).isSome := by decide +kernel
  unfold Coupled coupledOffs
  rcases cellAt_cases o with hs | hm
  · rw [hs]
    simp only [Cell.coupledTo, List.filterMap_nil, List.not_mem_nil, false_iff]
    intro hmem
    have := none _ hmem
    simp only [cellAt] at hs
    cases hl : cellTable.lookup o with
    | none => simp [hl] at this
    | some c =>
      have hc : (o, c) ∈ cellTable := lookup_mem o c _ hl
      have : c ≠ .store := by
        have k2 : ∀ e ∈ cellTable, e.2 ≠ .store := by decide +kernel
        exact k2 _ hc
      simp [hl] at hs
      exact this hs
  · rw [key _ hm]
    simp

/-- `triggerCells` is exactly `emitsAt`. -/
theorem emits_table (o : Nat) : emitsAt o = true ↔ o ∈ triggerCells := by
  have key : ∀ e ∈ cellTable, (e.2.emits = true ↔ e.1 ∈ triggerCells) := by decide +kernel
  have none : ∀ p ∈ triggerCells, (cellTable.lookup p).isSome := by decide +kernel
  unfold emitsAt
  rcases cellAt_cases o with hs | hm
  · rw [hs]
    simp only [Cell.emits, Bool.false_eq_true, false_iff]
    intro hmem
    have := none _ hmem
    simp only [cellAt] at hs
    cases hl : cellTable.lookup o with
    | none => simp [hl] at this
    | some c =>
      have hc : (o, c) ∈ cellTable := lookup_mem o c _ hl
      have k2 : ∀ e ∈ cellTable, e.2 ≠ .store := by decide +kernel
      simp [hl] at hs
      exact k2 _ hc hs
  · exact key _ hm


/-- Unfolding of `mmioWrite` for an offset inside the region. -/
theorem mmioWrite_eq (b : Bus) (o v : U16) (h : o.toNat < mmioSize) :
    b.mmioWrite o v = b.cellWrite ⟨o.toNat, h⟩ v (cellAt o.toNat) := by
  unfold mmioWrite; simp [h]

theorem mmioRead_eq (b : Bus) (o : U16) (h : o.toNat < mmioSize) :
    b.mmioRead o = match b.cellReadVal ⟨o.toNat, h⟩ (cellAt o.toNat) with
      | .ok v => .ok (v, b.cellReadState ⟨o.toNat, h⟩ (cellAt o.toNat), [])
      | .error e => .error e := by
  unfold mmioRead; rw [dif_pos h]
  generalize b.cellReadVal ⟨o.toNat, h⟩ (cellAt o.toNat) = x
  cases x <;> rfl

theorem mmioWrite_lt (b b' : Bus) (o v : U16) (ev : List PEvent) (h : b.mmioWrite o v = .ok (b', ev)) :
    o.toNat < mmioSize := by
  unfold mmioWrite at h
  split at h
  · assumption
  · cases h

/-- The value an MMIO read returns. -/
def readVal (b : Bus) (o : U16) : R U16 := (b.mmioRead o).map (·.1)

theorem readVal_eq (b : Bus) (o : U16) (h : o.toNat < mmioSize) :
    b.readVal o = b.cellReadVal ⟨o.toNat, h⟩ (cellAt o.toNat) := by
  unfold readVal
  rw [mmioRead_eq b o h]
  cases b.cellReadVal ⟨o.toNat, h⟩ (cellAt o.toNat) <;> rfl

/-- **Read-back.**  A successful write of `v` to a read/write register (`rwRegisters`, or any
plain storage cell) is followed by a read of that register that returns `v` on the bits of the
register's mask — through `MMIORegion::Read/Write`, hence through both access paths (`mirror_host`,
`mirror_dsp`). -/
theorem rw_readback (b b' : Bus) (o v m : U16) (ev : List PEvent)
    (hk : (kindAt o.toNat).rwMask = some m) (hw : b.mmioWrite o v = .ok (b', ev)) :
    ∃ r, b'.readVal o = .ok r ∧ r &&& m = v &&& m := by
  have ho := mmioWrite_lt _ _ _ _ _ hw
  rw [mmioWrite_eq _ _ _ ho] at hw
  rw [readVal_eq _ _ ho]
  exact cell_readback _ _ _ _ _ _ _ hw hk

/-- Read-back for the plain storage cells (every offset the constructor does not assign): the
whole word. -/
theorem rw_readback_store (b b' : Bus) (o v : U16) (ev : List PEvent)
    (hs : cellAt o.toNat = .store) (hw : b.mmioWrite o v = .ok (b', ev)) : b'.readVal o = .ok v := by
  have hk : (kindAt o.toNat).rwMask = some 0xFFFF := by simp [kindAt, hs, Cell.kind, CellKind.rwMask]
  obtain ⟨r, h1, h2⟩ := rw_readback _ _ _ _ _ _ hk hw
  rw [h1]
  congr 1
  have e : ∀ x : U16, x &&& 0xFFFF = x := by
    intro x
    have : (0xFFFF : U16) = BitVec.allOnes 16 := by decide
    rw [this, BitVec.and_allOnes]
  rw [e, e] at h2
  exact h2

/-- **Frame.**  A write to offset `o` does not change what a read of any other offset `o'`
returns, unless `(o, o')` is one of the documented couplings (`coupledList`). -/
theorem frame (b b' : Bus) (o o' v : U16) (ev : List PEvent) (hne : o ≠ o')
    (hnc : ¬ Coupled o.toNat o'.toNat) (hw : b.mmioWrite o v = .ok (b', ev)) :
    b'.readVal o' = b.readVal o' := by
  have ho := mmioWrite_lt _ _ _ _ _ hw
  rw [mmioWrite_eq _ _ _ ho] at hw
  by_cases ho' : o'.toNat < mmioSize
  · rw [readVal_eq _ _ ho', readVal_eq _ _ ho']
    have hoff : (⟨o'.toNat, ho'⟩ : Fin mmioSize) ≠ ⟨o.toNat, ho⟩ := by
      intro e
      apply hne
      have := congrArg Fin.val e
      simp only at this
      exact (BitVec.eq_of_toNat_eq this).symm
    by_cases hs : cellAt o'.toNat = .store
    · rw [hs]
      have fp := cellWrite_footprint _ _ _ _ _ _ hw
      simp only [cellReadVal, fp.store _ hoff]
    · apply cell_frame _ _ _ _ _ _ _ _ hw hoff
      · intro e
        apply hne
        have := cellAt_inj o'.toNat o.toNat hs e.symm
        exact (BitVec.eq_of_toNat_eq this).symm
      · intro hmem
        apply hnc
        unfold Coupled coupledOffs
        rw [List.mem_filterMap]
        exact ⟨_, hmem, cellAt_off _ hs⟩
  · unfold readVal mmioRead
    simp [ho']

/-- Frame for the plain storage cells: nothing but a write to the same offset changes them. -/
theorem frame_store (b b' : Bus) (o o' v : U16) (ev : List PEvent) (hne : o ≠ o')
    (hs : cellAt o'.toNat = .store) (hw : b.mmioWrite o v = .ok (b', ev)) :
    b'.readVal o' = b.readVal o' := by
  apply frame _ _ _ _ _ _ hne _ hw
  intro hc
  have key : ∀ p ∈ coupledList, cellAt p.2 ≠ .store := by decide +kernel
  exact key _ ((coupled_table _ _).mp hc) hs

/-- **Only trigger cells call handlers.**  A write that makes any callback (interrupt signal to
the core, host handler, external-memory access) is a write to one of `triggerCells`. -/
theorem write_no_event_unless_trigger (b b' : Bus) (o v : U16) (ev : List PEvent)
    (hw : b.mmioWrite o v = .ok (b', ev)) (hev : ev ≠ []) : o.toNat ∈ triggerCells := by
  have ho := mmioWrite_lt _ _ _ _ _ hw
  rw [mmioWrite_eq _ _ _ ho] at hw
  rw [← emits_table]
  cases he : emitsAt o.toNat with
  | true => rfl
  | false => exact absurd (cell_events _ _ _ _ _ _ hw he) hev

/-- MMIO reads never call a handler. -/
theorem read_no_event (b b' : Bus) (o r : U16) (ev : List PEvent) (h : b.mmioRead o = .ok (r, b', ev)) : ev = [] := by
  unfold mmioRead at h
  split at h
  · split at h
    · simp at h; exact h.2.2
    · cases h
  · cases h



/-! ### the DMA channel window -/

theorem cellAt_dmaField (f : DmaField) : cellAt f.off = .dma (.field f) := by
  cases f <;> decide +kernel

theorem dmaField_off_lt (f : DmaField) : f.off < mmioSize := by cases f <;> decide

/-- The MMIO offset of a window register as a `U16`. -/
def fieldOff (f : DmaField) : U16 := BitVec.ofNat 16 f.off

theorem fieldOff_toNat (f : DmaField) : (fieldOff f).toNat = f.off := by cases f <;> rfl

/-- **Channel-window select**: a write of `k` to `0x1BE` stores `k` as the selected channel and
changes nothing else of the DMA engine. -/
theorem dma_window_select (b b' : Bus) (k : U16) (ev : List PEvent) (hw : b.mmioWrite 0x1BE k = .ok (b', ev)) :
    b'.per.dma = b.per.dma.activateChannel k := by
  have e : cellAt (0x1BE : U16).toNat = .dma .active := by decide +kernel
  rw [mmioWrite_eq _ _ _ (by decide), e] at hw
  simp [Bus.cellWrite, dmaCellWrite] at hw
  rw [← hw.1]

/-- **Reads see the selected channel's copy.** -/
theorem dma_window_read (b : Bus) (f : DmaField) (hk : b.per.dma.activeChannel.toNat < 8) :
    b.readVal (fieldOff f) = .ok (f.get b.per.dma.channels[b.per.dma.activeChannel.toNat]) := by
  have hlt : (fieldOff f).toNat < mmioSize := by rw [fieldOff_toNat]; exact dmaField_off_lt f
  have hcell : cellAt (fieldOff f).toNat = .dma (.field f) := by rw [fieldOff_toNat]; exact cellAt_dmaField f
  rw [readVal_eq _ _ hlt, hcell]
  simp only [cellReadVal, dmaCellRead]
  exact Dma.getActive_eq _ _ hk

/-- **Writes change only the selected channel's copy**: a successful write of `v` to the window
register `f` replaces that register of channel `active_channel` and nothing else of the DMA
engine (no other channel, no other register of the same channel). -/
theorem dma_window_write (b b' : Bus) (f : DmaField) (v : U16) (ev : List PEvent)
    (hw : b.mmioWrite (fieldOff f) v = .ok (b', ev)) :
    ∃ hk : b.per.dma.activeChannel.toNat < 8,
      b'.per.dma = { b.per.dma with
        channels := b.per.dma.channels.set b.per.dma.activeChannel.toNat (f.set b.per.dma.channels[b.per.dma.activeChannel.toNat] v) } := by
  have hlt : (fieldOff f).toNat < mmioSize := by rw [fieldOff_toNat]; exact dmaField_off_lt f
  have hcell : cellAt (fieldOff f).toNat = .dma (.field f) := by rw [fieldOff_toNat]; exact cellAt_dmaField f
  rw [mmioWrite_eq _ _ _ hlt, hcell] at hw
  have h' : (match dmaCellWrite b.per.dma b.per.store[(⟨(fieldOff f).toNat, hlt⟩ : Fin mmioSize)] (.field f) v with
      | .error e => .error e
      | .ok (d, st) => .ok ({ b with per := { b.per with dma := d, store := b.per.store.set (⟨(fieldOff f).toNat, hlt⟩ : Fin mmioSize) st } }, [])) =
        Except.ok (b', ev) := hw
  split at h'
  · cases h'
  · rename_i d st hd
    simp at h'
    obtain ⟨rfl, -⟩ := h'
    simp only [dmaCellWrite] at hd
    split at hd
    · rename_i d1 hs
      simp at hd
      obtain ⟨rfl, -⟩ := hd
      exact Dma.setActive_ok _ _ _ hs
    · cases hd

/-- **Independence of the eight copies** for any write into the window (whole-word registers,
the bit-field word `0x1DA`, and `0x1DE` — even when it starts a transfer): the registers of every
channel other than the selected one, the enable word and the select word are unchanged. -/
theorem dma_window_independent (b b' : Bus) (o v : U16) (dc : DmaCell) (ev : List PEvent)
    (hc : cellAt o.toNat = .dma dc) (hwin : dc ≠ .enable ∧ dc ≠ .active)
    (hw : b.mmioWrite o v = .ok (b', ev)) :
    b'.per.dma.enableChannel = b.per.dma.enableChannel ∧ b'.per.dma.activeChannel = b.per.dma.activeChannel ∧
    ∀ j : Fin 8, j.val ≠ b.per.dma.activeChannel.toNat → b'.per.dma.channels[j] = b.per.dma.channels[j] := by
  have ho := mmioWrite_lt _ _ _ _ _ hw
  rw [mmioWrite_eq _ _ _ ho, hc] at hw
  by_cases hz : dc = .z
  · subst hz
    simp only [Bus.cellWrite] at hw
    split at hw
    · cases hw
    · rename_i d w' n hs
      simp at hw
      obtain ⟨rfl, -⟩ := hw
      simp only [(Periph.raiseN_same _ _ _).dma]
      obtain ⟨e1, e2, -, e4, -⟩ := Dma.setZ_regs _ _ _ _ _ _ hs
      exact ⟨e1, e2, e4⟩
  · have h' : (match dmaCellWrite b.per.dma b.per.store[(⟨o.toNat, ho⟩ : Fin mmioSize)] dc v with
        | .error e => .error e
        | .ok (d, st) => .ok ({ b with per := { b.per with dma := d, store := b.per.store.set (⟨o.toNat, ho⟩ : Fin mmioSize) st } }, [])) =
          Except.ok (b', ev) := by
      cases dc <;> first | exact absurd rfl hz | exact hw
    split at h'
    · cases h'
    · rename_i d st hd
      simp at h'
      obtain ⟨rfl, -⟩ := h'
      cases dc
      case enable => exact absurd rfl hwin.1
      case active => exact absurd rfl hwin.2
      case z => exact absurd rfl hz
      case seox => simp [dmaCellWrite] at hd; obtain ⟨rfl, -⟩ := hd; exact ⟨rfl, rfl, fun _ _ => rfl⟩
      case field f =>
        simp only [dmaCellWrite] at hd
        split at hd
        · rename_i d1 hs
          simp at hd
          obtain ⟨rfl, -⟩ := hd
          obtain ⟨ha, rfl⟩ := Dma.setActive_ok _ _ _ hs
          refine ⟨rfl, rfl, ?_⟩
          intro j hj
          simp only [Fin.getElem_fin]
          rw [Vector.getElem_set_ne _ _ (Ne.symm hj)]
        · cases hd
      case cfg =>
        simp only [dmaCellWrite, Dma.setSrcSpace, Dma.setDstSpace, Dma.setDwordMode] at hd
        split at hd
        · cases hd
        · rename_i d1 h1
          split at hd
          · cases hd
          · rename_i d2 h2
            split at hd
            · cases hd
            · rename_i d3 h3
              simp at hd; obtain ⟨rfl, -⟩ := hd
              obtain ⟨ha1, rfl⟩ := Dma.setActive_ok _ _ _ h1
              obtain ⟨ha2, rfl⟩ := Dma.setActive_ok _ _ _ h2
              obtain ⟨ha3, rfl⟩ := Dma.setActive_ok _ _ _ h3
              refine ⟨rfl, rfl, ?_⟩
              intro j hj
              simp only [Fin.getElem_fin]
              rw [Vector.getElem_set_ne _ _ (Ne.symm hj), Vector.getElem_set_ne _ _ (Ne.symm hj),
                Vector.getElem_set_ne _ _ (Ne.symm hj)]

/-- **Eight independent copies.**  Select channel `k`, write `v` to window register `f`, select
another channel `k'`, write `v'` to the same window register, select `k` again: the register
reads `v`. -/
theorem dma_window_eight_copies (b0 b1 b2 b3 b4 b5 : Bus) (f : DmaField) (k k' v v' : U16)
    (e1 e2 e3 e4 e5 : List PEvent) (hk : k.toNat < 8) (hk' : k'.toNat < 8) (hne : k ≠ k')
    (h1 : b0.mmioWrite 0x1BE k = .ok (b1, e1)) (h2 : b1.mmioWrite (fieldOff f) v = .ok (b2, e2))
    (h3 : b2.mmioWrite 0x1BE k' = .ok (b3, e3)) (h4 : b3.mmioWrite (fieldOff f) v' = .ok (b4, e4))
    (h5 : b4.mmioWrite 0x1BE k = .ok (b5, e5)) : b5.readVal (fieldOff f) = .ok v := by
  have d1 := dma_window_select _ _ _ _ h1
  obtain ⟨a2, d2⟩ := dma_window_write _ _ _ _ _ h2
  have d3 := dma_window_select _ _ _ _ h3
  obtain ⟨a4, d4⟩ := dma_window_write _ _ _ _ _ h4
  have d5 := dma_window_select _ _ _ _ h5
  have m7 : ∀ x : U16, x.toNat < 8 → x &&& 7 = x := by
    intro x hx
    apply BitVec.eq_of_toNat_eq
    rw [BitVec.toNat_and]
    show x.toNat &&& 7 = x.toNat
    have : x.toNat &&& 7 = x.toNat % 8 := Nat.and_two_pow_sub_one_eq_mod x.toNat 3
    omega
  have hk5 : b5.per.dma.activeChannel.toNat < 8 := by
    rw [d5]; simp only [Dma.activateChannel]; rw [m7 k hk]; exact hk
  rw [dma_window_read _ _ hk5]
  congr 1
  have hkk : k.toNat ≠ k'.toNat := fun e => hne (BitVec.eq_of_toNat_eq e)
  simp only [d5, d4, d3, d2, d1, Dma.activateChannel, m7 k hk, m7 k' hk']
  rw [Vector.getElem_set_ne _ _ (Ne.symm hkk)]
  simp only [Vector.getElem_set_self, DmaField.get_set]


/-! ### the two access paths -/

private theorem and7ff (x : U16) : (x &&& 0x7FF).toNat = x.toNat % 0x800 := by
  rw [BitVec.toNat_and]
  exact Nat.and_two_pow_sub_one_eq_mod x.toNat 11

private theorem mirror_addr (o j : U16) (h : o.toNat < mmioSize) : (o + 0x800 * j) &&& 0x7FF = o := by
  apply BitVec.eq_of_toNat_eq
  rw [and7ff, BitVec.toNat_add, BitVec.toNat_mul]
  have : (0x800 : U16).toNat = 0x800 := rfl
  rw [this]
  simp only [mmioSize] at h
  omega

/-- **Host mirrors (reads).**  `MemoryInterface::MMIORead` masks the address with `0x7FF`: every
`0x800`-aligned copy of an offset is the same register. -/
theorem mirror_host (b : Bus) (o j : U16) (h : o.toNat < mmioSize) :
    b.hostMmioRead (o + 0x800 * j) = b.mmioRead o := by
  unfold hostMmioRead; rw [mirror_addr o j h]

/-- **Host mirrors (writes).** -/
theorem mirror_host_write (b : Bus) (o j v : U16) (h : o.toNat < mmioSize) :
    b.hostMmioWrite (o + 0x800 * j) v = b.mmioWrite o v := by
  unfold hostMmioWrite; rw [mirror_addr o j h]

private theorem window_addr (u : Miu) (o : U16) (h : o.toNat < mmioSize) (hr : u.mmioBase.toNat + o.toNat ≤ 0xFFFF)
    (hz : u.zPage = 0) : u.inMmioWindow (u.mmioBase + o) = true ∧ u.toMmio (u.mmioBase + o) = .ok o := by
  have e : (u.mmioBase + o).toNat = u.mmioBase.toNat + o.toNat := by
    rw [BitVec.toNat_add]; omega
  constructor
  · unfold Miu.inMmioWindow
    rw [e]
    simp only [mmioSize] at h ⊢
    simp; omega
  · unfold Miu.toMmio
    rw [if_pos hz]
    congr 1
    apply BitVec.eq_of_toNat_eq
    rw [and7ff]
    have : (u.mmioBase + o - u.mmioBase).toNat = o.toNat := by
      have : u.mmioBase + o - u.mmioBase = o := by bv_omega
      rw [this]
    rw [this]
    simp only [mmioSize] at h
    omega

/-- **DSP view (reads).**  With `z_page = 0`, a data read at `mmio_base + o` (inside the 16-bit
address space, no bypass) is `MMIORegion::Read(o)` and touches no memory. -/
theorem mirror_dsp (b : Bus) (o : U16) (h : o.toNat < mmioSize) (hr : b.miu.mmioBase.toNat + o.toNat ≤ 0xFFFF)
    (hz : b.miu.zPage = 0) :
    b.dataRead (b.miu.mmioBase + o) false =
      match b.mmioRead o with
      | .ok (v, b', ev) => .ok (v, b', ev, [])
      | .error e => .error e := by
  obtain ⟨h1, h2⟩ := window_addr b.miu o h hr hz
  unfold dataRead
  simp only [h1, h2, Bool.not_false, Bool.and_true, if_true]
  cases b.mmioRead o <;> rfl

/-- **DSP view (writes).** -/
theorem mirror_dsp_write (b : Bus) (o v : U16) (h : o.toNat < mmioSize) (hr : b.miu.mmioBase.toNat + o.toNat ≤ 0xFFFF)
    (hz : b.miu.zPage = 0) :
    b.dataWrite (b.miu.mmioBase + o) v false =
      match b.mmioWrite o v with
      | .ok (b', ev) => .ok (b', ev, [])
      | .error e => .error e := by
  obtain ⟨h1, h2⟩ := window_addr b.miu o h hr hz
  unfold dataWrite
  simp only [h1, h2, Bool.not_false, Bool.and_true, if_true]
  cases b.mmioWrite o v <;> rfl

/-! ### the other cell kinds -/

/-- Only the `RecvData` cells (`0xC2`, `0xC6`, `0xCA`) change state when read. -/
theorem read_pure_unless_fifo (b b' : Bus) (o r : U16) (ev : List PEvent) (h : b.mmioRead o = .ok (r, b', ev))
    (hk : kindAt o.toNat ≠ .fifo) : b' = b := by
  unfold mmioRead at h
  split at h
  · split at h
    · simp at h
      obtain ⟨-, rfl, -⟩ := h
      unfold kindAt at hk
      cases hc : cellAt o.toNat with
      | apbp ac =>
        rw [hc] at hk
        cases ac <;> first | rfl | (exfalso; exact hk rfl)
      | _ => rfl
    · cases h
  · cases h

/-- Constant cells (`0x01A` chip detect, `0x18C`) read their constant in every state. -/
theorem const_reads (b : Bus) (o c : U16) (h : o.toNat < mmioSize) (hk : kindAt o.toNat = .const c) :
    b.readVal o = .ok c := by
  rw [readVal_eq _ _ h]
  unfold kindAt at hk
  cases hc : cellAt o.toNat <;> rw [hc] at hk
  case const k => simp [Cell.kind] at hk; subst hk; rfl
  case dma dc => cases dc <;> simp [Cell.kind] at hk; subst hk; rfl
  case store => simp [Cell.kind] at hk
  case timer i tc => cases tc <;> simp [Cell.kind] at hk
  case apbp ac => cases ac <;> simp [Cell.kind] at hk
  case ahbm ac => cases ac <;> simp [Cell.kind] at hk
  case miu mc => cases mc <;> simp [Cell.kind] at hk
  case icu ic => cases ic <;> simp [Cell.kind] at hk
  case btdmp i bc => cases bc <;> simp [Cell.kind] at hk

/-- The semaphore word `0x0CC` accumulates: after a write of `v` it reads the old value OR `v`. -/
theorem accum_reads_or (b b' : Bus) (v : U16) (ev : List PEvent) (hw : b.mmioWrite 0xCC v = .ok (b', ev)) :
    b'.readVal 0xCC = (b.readVal 0xCC).map (· ||| v) := by
  have e : cellAt (0xCC : U16).toNat = .apbp .semSet := by decide +kernel
  have hlt : (0xCC : U16).toNat < mmioSize := by decide
  rw [mmioWrite_eq _ _ _ hlt, e] at hw
  rw [readVal_eq _ _ hlt, readVal_eq _ _ hlt, e]
  simp only [Bus.cellWrite] at hw
  simp at hw
  obtain ⟨rfl, -⟩ := hw
  simp only [cellReadVal, (Periph.raiseN_same _ _ _).cpu, (Periph.raiseN_same _ _ _).dsp]
  simp [apbpCellWrite, apbpCellRead, Apbp.setSemaphore, Apbp.getSemaphore, Except.map]

/-- A write to a write-only cell does not change what the cell itself reads (0 for the trigger
cells, the never-written storage word for the audio FIFO cell). -/
theorem wo_read_unchanged (b b' : Bus) (o v : U16) (ev : List PEvent) (hk : kindAt o.toNat = .wo)
    (hw : b.mmioWrite o v = .ok (b', ev)) : b'.readVal o = b.readVal o := by
  have ho := mmioWrite_lt _ _ _ _ _ hw
  rw [mmioWrite_eq _ _ _ ho] at hw
  rw [readVal_eq _ _ ho, readVal_eq _ _ ho]
  unfold kindAt at hk
  cases hc : cellAt o.toNat <;> (try rw [hc] at hk) <;> (try rw [hc] at hw) <;> (try rw [hc])
  case store => simp [Cell.kind] at hk
  case const k => simp [Cell.kind] at hk
  case timer i tc => cases tc <;> simp [Cell.kind] at hk; rfl
  case apbp ac => cases ac <;> simp [Cell.kind] at hk; rfl
  case ahbm ac => cases ac <;> simp [Cell.kind] at hk
  case miu mc => cases mc <;> simp [Cell.kind] at hk
  case dma dc => cases dc <;> simp [Cell.kind] at hk
  case icu ic => cases ic <;> simp [Cell.kind] at hk <;> rfl
  case btdmp i bc =>
    simp [Bus.cellWrite] at hw
    obtain ⟨rfl, -⟩ := hw
    cases bc <;> simp [Cell.kind] at hk
    · simp [cellReadVal, btCellWrite, btCellRead]
    · rfl

/-- `Teakra::Impl::Reset` clears the interrupt controller, every MMIO storage word and the
interrupt-disable flags of the mailbox channels; only the host's external memory survives. -/
theorem reset_clears_icu_and_store (b : Bus) :
    b.reset.per.icu = {} ∧ b.reset.per.store = Vector.replicate mmioSize 0 ∧
    (∀ ch, b.reset.per.apbpFromCpu.getDisableInterrupt ch = 0) ∧
    b.reset.ext = b.ext := by
  refine ⟨rfl, rfl, ?_, rfl⟩
  intro ch
  simp [reset, Apbp.reset, Apbp.getDisableInterrupt, DataChannel.reset, DataChannel.getDisableInterrupt]

/-- The pinned upstream `Reset` left all three as they were (repaired in /repo; C17 owns the consequences). -/
theorem resetUpstream_keeps_icu_and_store (b : Bus) :
    b.resetUpstream.per.icu = b.per.icu ∧ b.resetUpstream.per.store = b.per.store ∧
    (∀ ch, b.resetUpstream.per.apbpFromCpu.getDisableInterrupt ch = b.per.apbpFromCpu.getDisableInterrupt ch) := by
  refine ⟨rfl, rfl, ?_⟩
  intro ch
  simp [resetUpstream, Apbp.getDisableInterrupt, DataChannel.getDisableInterrupt]


/-! ### non-vacuity -/

/-- On the reset state a write of 0x1234 to TIMER0_SCL (0x24) succeeds (so the hypotheses of
`rw_readback` / `frame` are satisfiable), reads back, and leaves TIMER0_SCH (0x26) alone. -/
example : (match ({} : Bus).mmioWrite 0x24 0x1234 with
    | .ok (b', ev) => b'.readVal 0x24 = .ok 0x1234 ∧ b'.readVal 0x26 = .ok 0 ∧ ev = []
    | .error _ => False) := by
  have e : cellAt (0x24 : U16).toNat = .timer 0 .startLow := by decide +kernel
  have e' : cellAt (0x26 : U16).toNat = .timer 0 .startHigh := by decide +kernel
  have hlt : (0x24 : U16).toNat < mmioSize := by decide
  have hlt' : (0x26 : U16).toNat < mmioSize := by decide
  rw [mmioWrite_eq _ _ _ hlt, e]
  simp only [Bus.cellWrite, Timer.cellWrite, Periph.raiseIf]
  refine ⟨?_, ?_, rfl⟩
  · rw [readVal_eq _ _ hlt, e]; simp [cellReadVal, Timer.cellRead]
  · rw [readVal_eq _ _ hlt', e']; simp [cellReadVal, Timer.cellRead]

/-- The coupling list is not vacuous: a write to the interrupt trigger word changes the request
word (0x204 → 0x200). -/
example : (match ({} : Bus).mmioWrite 0x204 0x4000 with
    | .ok (b', _) => b'.readVal 0x200 = .ok 0x4000 ∧ ({} : Bus).readVal 0x200 = .ok 0
    | .error _ => False) := by
  have e : cellAt (0x204 : U16).toNat = .icu .trigger := by decide +kernel
  have e' : cellAt (0x200 : U16).toNat = .icu .request := by decide +kernel
  have hlt : (0x204 : U16).toNat < mmioSize := by decide
  have hlt' : (0x200 : U16).toNat < mmioSize := by decide
  rw [mmioWrite_eq _ _ _ hlt, e]
  simp only [Bus.cellWrite, icuCellWrite]
  constructor
  · rw [readVal_eq _ _ hlt', e']; simp [cellReadVal, icuCellRead, Icu.getRequest, Icu.trigger]
  · rw [readVal_eq _ _ hlt', e']; rfl

/-- A write that fails: TIMER0_CFG with count mode 7 and the restart bit (`ASSERT(count_mode < 4)`). -/
example : ({} : Bus).mmioWrite 0x20 0xFFFF = .error .assert := by
  have e : cellAt (0x20 : U16).toNat = .timer 0 .cfg := by decide +kernel
  have hlt : (0x20 : U16).toNat < mmioSize := by decide
  rw [mmioWrite_eq _ _ _ hlt, e]
  simp [Bus.cellWrite, Timer.cellWrite, Timer.restart, bfField]

end Bus
end Teakra
