import TeakraModel.MmioKinds
import TeakraModel.Generated.MmioBind
/-!
# C12 — the cell bindings of `src/mmio.cpp`, translated on every run

`TeakraModel/Generated/MmioBind.lean` is rewritten by `tools/translate_mmio.py` from the constructor of `MMIORegion` of the
tree under test (loops unrolled, offsets evaluated, accessor expressions identified by the hash of their canonical text).
The theorems below are re-checked by the kernel against that table on every run:

* `bind_wellformed` – every bound offset is an even number below `0x800`, no offset is assigned twice, and the slots of
  every bit-field cell lie inside the 16-bit word, in ascending order, without overlap (two fields of one register never
  share a bit);
* `bind_setters_distinct` – no two registers (or register fields) are bound to the same setter or backing variable:
  at the level of the bindings, a write to one register reaches no other register's storage;
* `bind_offsets_eq_model`, `bind_const_eq_model`, `bind_mask_eq_model` – the hand-written model of the register map
  (`cellTable`, `Cell.kind`, which the theorems of `Proofs/C12.lean` are about) has a cell exactly where the source binds
  one, the same constant cells, and for every bit-field register the read/write mask of the model is the complement of the
  bits whose slot has a getter but no setter (status bits), the timer control words apart (their restart bit has a getter
  that returns 0);
* `bind_eq_golden` (in `Proofs/C12BindGolden.lean`, built separately so that the theorems here are still re-checked when
  it fails) – the table equals the committed translation of the pinned tree (`Golden/MmioBind.lean`), against
  which the model's per-cell read/write functions were written: any change of an offset, slot position or width, slot
  order, accessor, object or channel index in `mmio.cpp` breaks this obligation before any input is run.
-/
namespace Teakra

def MSlot.mask (s : MSlot) : Nat := ((1 <<< s.len) - 1) <<< s.pos

/-- Slots inside the word, ascending and disjoint (`lo` = first free bit). -/
def slotsOk : Nat → List MSlot → Bool
  | _, [] => true
  | lo, s :: r => decide (lo ≤ s.pos) && decide (0 < s.len) && decide (s.pos + s.len ≤ 16) && slotsOk (s.pos + s.len) r

def MBind.ok : MBind → Bool
  | .bitfield slots => slotsOk 0 slots
  | .const c => decide (c < 0x10000)
  | _ => true

/-- Strictly ascending even offsets below `0x800`. -/
def offsetsOk : Nat → List (Nat × MBind) → Bool
  | _, [] => true
  | lo, p :: r => decide (lo ≤ p.1) && decide (p.1 % 2 = 0) && decide (p.1 < 0x800) && p.2.ok && offsetsOk (p.1 + 1) r

/-- Ids of everything a write can reach: setters and backing variables (`1` = empty lambda and `2` = `NoSet` excluded). -/
def MBind.setters : MBind → List Nat
  | .ref v => [v]
  | .halves s _ => if s = 0 ∨ s = 1 ∨ s = 2 then [] else [s]
  | .bitfield slots => (slots.map (·.set)).filter (fun s => !(s = 0 || s = 1 || s = 2))
  | _ => []

def allSetters (t : List (Nat × MBind)) : List Nat := t.flatMap (·.2.setters)

/-- Bits of a bit-field cell that have a getter and no setter: status bits, not storage. -/
def roBits (slots : List MSlot) : Nat :=
  slots.foldl (fun acc s => if s.get ≠ 0 ∧ s.set = 0 then acc ||| s.mask else acc) 0

def MBind.isFresh : MBind → Bool
  | .fresh => true
  | _ => false

def constOk (p : Nat × MBind) : Bool :=
  match p.2 with
  | .const c => decide (cellAt p.1 = Cell.const (BitVec.ofNat 16 c))
  | _ => true

def maskOk (p : Nat × MBind) : Bool :=
  match p.2 with
  | .bitfield slots =>
    match (kindAt p.1).rwMask with
    | some m => decide (m.toNat &&& roBits slots = 0) &&
                (decide (m.toNat ||| roBits slots = 0xFFFF) || decide (p.1 = 0x20) || decide (p.1 = 0x30))
    | none => false
  | _ => true

open Generated in
theorem bind_wellformed : offsetsOk 0 mmioBind = true ∧ mmioDups = [] := by decide +kernel

open Generated in
theorem bind_setters_distinct : (allSetters mmioBind).Nodup := by decide +kernel

open Generated in
theorem bind_offsets_eq_model :
    (mmioBind.filter (fun p => !p.2.isFresh)).map (·.1) = cellTable.map (·.1) := by decide +kernel

open Generated in
theorem bind_const_eq_model : mmioBind.all constOk = true := by decide +kernel

open Generated in
theorem bind_mask_eq_model : mmioBind.all maskOk = true := by decide +kernel

private theorem flatMap_nodup_disjoint {α β : Type} (f : α → List β) : ∀ (l : List α), (l.flatMap f).Nodup →
    ∀ a ∈ l, ∀ b ∈ l, a ≠ b → ∀ s, s ∈ f a → s ∈ f b → False
  | [], _, a, ha, _, _, _, _, _, _ => by cases ha
  | x :: r, h, a, ha, b, hb, hne, s, hsa, hsb => by
    rw [List.flatMap_cons, List.nodup_append] at h
    obtain ⟨_, hr, hdisj⟩ := h
    rcases List.mem_cons.mp ha with rfl | ha' <;> rcases List.mem_cons.mp hb with rfl | hb'
    · exact hne rfl
    · exact hdisj s hsa s (List.mem_flatMap.mpr ⟨b, hb', hsb⟩) rfl
    · exact hdisj s hsb s (List.mem_flatMap.mpr ⟨a, ha', hsa⟩) rfl
    · exact flatMap_nodup_disjoint f r hr a ha' b hb' hne s hsa hsb

/-- In the words of the property: two different bound cells never share a setter or a backing variable, so at the level
of the bindings a write to one register reaches no other register's storage. -/
theorem setters_disjoint_of_ne {p₁ p₂ : Nat × MBind}
    (h₁ : p₁ ∈ Generated.mmioBind) (h₂ : p₂ ∈ Generated.mmioBind) (hne : p₁ ≠ p₂)
    {s : Nat} (hs₁ : s ∈ p₁.2.setters) (hs₂ : s ∈ p₂.2.setters) : False :=
  flatMap_nodup_disjoint (fun p : Nat × MBind => p.2.setters) Generated.mmioBind bind_setters_distinct p₁ h₁ p₂ h₂ hne s hs₁ hs₂

/-- `slotsOk` is what it says: every slot starts at or after the first free bit and ends inside the word. -/
theorem slotsOk_bounds : ∀ (lo : Nat) (l : List MSlot), slotsOk lo l = true →
    ∀ s ∈ l, lo ≤ s.pos ∧ s.pos + s.len ≤ 16
  | _, [], _, s, hs => by cases hs
  | lo, a :: r, h, s, hs => by
    simp only [slotsOk, Bool.and_eq_true, decide_eq_true_eq] at h
    rcases List.mem_cons.mp hs with rfl | hr
    · exact ⟨h.1.1.1, h.1.2⟩
    · have := slotsOk_bounds _ r h.2 s hr
      omega

-- non-vacuity: the table is not empty, has bit-field cells with status bits, and the model knows them
example : Generated.mmioBind.length = 115 := by decide +kernel
example : kindAt 0x0D6 = .rw 0xCC1F ∧ (Generated.mmioBind.lookup 0x0D6).map (fun b => match b with
    | .bitfield sl => roBits sl | _ => 0) = some 0x33E0 := by decide +kernel

end Teakra
