import TeakraModel.Run
/-!
# Evaluation lemmas for the `Exec` monad (`StateT Core (Except Stop)`)

`@[simp]` rules that run a `do` block on a concrete state: `(p >>= f).run c`, `getRegs`,
`modifyRegs`, `pure`, `if`.
-/
namespace Teakra
open Exec

/-- Run an `Exec` program on a state. -/
abbrev Exec.exec {α : Type} (p : Exec α) (c : Core) : Except Stop (α × Core) := p.run c

namespace ExecLemmas

@[simp] theorem run_pure {α : Type} (a : α) (c : Core) : (pure a : Exec α).run c = .ok (a, c) := rfl

@[simp] theorem run_bind {α β : Type} (p : Exec α) (f : α → Exec β) (c : Core) :
    (p >>= f).run c = (p.run c) >>= fun r => (f r.1).run r.2 := by
  simp only [StateT.run_bind]

@[simp] theorem except_ok_bind {ε α β : Type} (a : α) (f : α → Except ε β) :
    ((Except.ok a : Except ε α) >>= f) = f a := rfl

@[simp] theorem except_error_bind {ε α β : Type} (e : ε) (f : α → Except ε β) :
    ((Except.error e : Except ε α) >>= f) = Except.error e := rfl

@[simp] theorem run_getRegs (c : Core) : getRegs.run c = .ok (c.regs, c) := rfl

@[simp] theorem run_get (c : Core) : (get : Exec Core).run c = .ok (c, c) := rfl

@[simp] theorem run_modifyRegs (f : Regs → Regs) (c : Core) :
    (modifyRegs f).run c = .ok ((), { c with regs := f c.regs }) := rfl

@[simp] theorem run_modify (f : Core → Core) (c : Core) :
    (modify f : Exec Unit).run c = .ok ((), f c) := rfl

@[simp] theorem run_setRegs (r : Regs) (c : Core) :
    (setRegs r).run c = .ok ((), { c with regs := r }) := rfl

@[simp] theorem run_ite {α : Type} (b : Prop) [Decidable b] (p q : Exec α) (c : Core) :
    (if b then p else q).run c = if b then p.run c else q.run c := by
  split <;> rfl

@[simp] theorem run_assert_true (c : Core) : (Exec.assert true).run c = .ok ((), c) := rfl
@[simp] theorem run_assert_false (c : Core) : (Exec.assert false).run c = .error (.abort .assert) := rfl
@[simp] theorem run_unimpl {α : Type} (c : Core) : (Exec.unimpl : Exec α).run c = .error (.abort .unimpl) := rfl
@[simp] theorem run_unreachable {α : Type} (c : Core) :
    (Exec.unreachable : Exec α).run c = .error (.abort .assert) := rfl

end ExecLemmas
end Teakra
