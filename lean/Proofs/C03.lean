import TeakraModel.Alu
/-!
# C03 — accumulator add / subtract / compare / logic: exact results, flags and saturation

Value-level theorems about `Teakra.Alu` (the pure parts of `AddSub`, `SetAccFlag`, `SaturateAcc`
in `src/interpreter.h`), stated against exact integer arithmetic.
-/
namespace Teakra.Alu

/-- Signed integer value of the low 40 bits of an accumulator pattern. -/
def I40 (v : U64) : Int := (v.setWidth 40).toInt
/-- Unsigned value of the low 40 bits. -/
def U40 (v : U64) : Nat := v.toNat % 2 ^ 40
/-- The representation invariant of accumulators: bits 40–63 repeat bit 39. -/
def AccWF (v : U64) : Prop := signExtend 40 v = v
instance (v : U64) : Decidable (AccWF v) := inferInstanceAs (Decidable (_ = _))
/-- Two's-complement wrap to 40 bits. -/
def wrap40 (i : Int) : Int := i.bmod (2 ^ 40)

/-! ## bit-level helpers -/

private theorem mask40_bit (i : Nat) : mask40.getLsbD i = decide (i < 40) := by
  have h : mask40 = BitVec.ofNat 64 (2 ^ 40 - 1) := by decide
  rw [h, BitVec.getLsbD_ofNat, Nat.testBit_two_pow_sub_one]
  by_cases hi : i < 40
  · have : i < 64 := by omega
    simp [hi, this]
  · simp [hi]

private theorem and_mask40_toNat (a : U64) : (a &&& mask40).toNat = a.toNat % 2 ^ 40 := by
  have h : mask40.toNat = 2 ^ 40 - 1 := by decide
  rw [BitVec.toNat_and, h, Nat.and_two_pow_sub_one_eq_mod]

private theorem and_mask40_setWidth (a : U64) : (a &&& mask40).setWidth 40 = a.setWidth 40 := by
  apply BitVec.eq_of_toNat_eq
  simp only [BitVec.toNat_setWidth, and_mask40_toNat]
  omega

private theorem shr_and_one (E : U64) (k : Nat) : ((E >>> k) &&& 1).setWidth 16 = b2u (E.getLsbD k) := by
  apply BitVec.eq_of_toNat_eq
  have h1 : ((E >>> k) &&& 1).toNat = (E.toNat >>> k) % 2 := by
    rw [BitVec.toNat_and, BitVec.toNat_ushiftRight]
    show _ &&& (2 ^ 1 - 1) = _
    rw [Nat.and_two_pow_sub_one_eq_mod]
  rw [BitVec.toNat_setWidth, h1]
  unfold b2u BitVec.getLsbD
  rw [Nat.testBit, Nat.one_and_eq_mod_two]
  generalize BitVec.toNat E >>> k = n
  rcases Nat.mod_two_eq_zero_or_one n with h | h <;> simp [h]

private theorem setWidth40_sub (x y : U64) : (x - y).setWidth 40 = x.setWidth 40 - y.setWidth 40 := by
  apply BitVec.eq_of_toNat_eq
  simp only [BitVec.toNat_setWidth, BitVec.toNat_sub]
  have := x.isLt; have := y.isLt
  omega

private theorem setWidth40_signExtend (z : BitVec 40) : (z.signExtend 64).setWidth 40 = z := by
  apply BitVec.eq_of_toNat_eq
  rw [BitVec.toNat_setWidth, BitVec.toNat_signExtend, BitVec.toNat_setWidth]
  have := z.isLt
  split <;> omega

private theorem bit39_msb (v : U64) : v.getLsbD 39 = (v.setWidth 40).msb := by
  simp [BitVec.msb_setWidth]

/-! ## `AddSub` -/

/-- The 40-bit view of `AddSub`: the result is the 40-bit sum/difference, sign-extended. -/
theorem addSub_result (a b : U64) (sub : Bool) :
    (addSub a b sub).result =
      (if sub then a.setWidth 40 - b.setWidth 40 else a.setWidth 40 + b.setWidth 40).signExtend 64 := by
  unfold addSub signExtend
  simp only []
  congr 1
  cases sub
  · simp only [Bool.false_eq_true, if_false, BitVec.setWidth_add _ _ (by decide : 40 ≤ 64), and_mask40_setWidth]
  · simp only [if_true, setWidth40_sub, and_mask40_setWidth]

/-- Results of `AddSub` are well-formed accumulator values. -/
theorem addSub_wf (a b : U64) (sub : Bool) : AccWF (addSub a b sub).result := by
  unfold AccWF
  rw [addSub_result]
  unfold signExtend
  rw [setWidth40_signExtend]

/-- **Exact value.**  The result of add/subtract is the exact integer sum/difference of the 40-bit
operands, wrapped to 40 bits two's complement. -/
theorem addSub_value (a b : U64) (sub : Bool) :
    I40 (addSub a b sub).result = wrap40 (if sub then I40 a - I40 b else I40 a + I40 b) := by
  unfold I40 wrap40
  rw [addSub_result]
  rw [setWidth40_signExtend]
  cases sub
  · simp [BitVec.toInt_add]
  · simp [BitVec.toInt_sub]

/-- **Carry.**  `fc0` is the carry out of bit 39 on add and the borrow on subtract. -/
theorem addSub_carry (a b : U64) (sub : Bool) :
    (addSub a b sub).fc0 =
      b2u (if sub then decide (U40 a < U40 b) else decide (2 ^ 40 ≤ U40 a + U40 b)) := by
  unfold addSub U40
  simp only [shr_and_one]
  congr 1
  have ha := and_mask40_toNat a
  have hb := and_mask40_toNat b
  have hla : a.toNat % 2 ^ 40 < 2 ^ 40 := Nat.mod_lt _ (by decide)
  have hlb : b.toNat % 2 ^ 40 < 2 ^ 40 := Nat.mod_lt _ (by decide)
  unfold BitVec.getLsbD
  cases sub
  · simp only [Bool.false_eq_true, if_false, BitVec.toNat_add, ha, hb]
    rw [Nat.mod_eq_of_lt (by omega)]
    rw [Nat.testBit, Nat.one_and_eq_mod_two, Nat.shiftRight_eq_div_pow]
    generalize a.toNat % 2 ^ 40 = x at *
    generalize b.toNat % 2 ^ 40 = y at *
    by_cases h : 2 ^ 40 ≤ x + y
    · have : (x + y) / 2 ^ 40 = 1 := by omega
      simp [h, this]
    · have : (x + y) / 2 ^ 40 = 0 := by omega
      simp [h, this]
  · simp only [if_true, BitVec.toNat_sub, ha, hb]
    rw [Nat.testBit, Nat.one_and_eq_mod_two, Nat.shiftRight_eq_div_pow]
    generalize a.toNat % 2 ^ 40 = x at *
    generalize b.toNat % 2 ^ 40 = y at *
    by_cases h : x < y
    · have : (2 ^ 64 - y + x) % 2 ^ 64 / 2 ^ 40 % 2 = 1 := by omega
      simp [h, this]
    · have : (2 ^ 64 - y + x) % 2 ^ 64 / 2 ^ 40 % 2 = 0 := by omega
      simp [h, this]

/-- **Overflow.**  `fv` is set exactly when the exact sum/difference does not fit 40 bits signed. -/
theorem addSub_overflow (a b : U64) (sub : Bool) :
    (addSub a b sub).fv =
      b2u (let exact := if sub then I40 a - I40 b else I40 a + I40 b
           decide (exact < -2 ^ 39 ∨ 2 ^ 39 ≤ exact)) := by
  unfold addSub
  simp only [shr_and_one]
  congr 1
  simp only [BitVec.getLsbD_and, BitVec.getLsbD_not, BitVec.getLsbD_xor, mask40_bit,
    show (39 < 64) = True from by decide, show (39 < 40) = True from by decide, decide_true,
    Bool.true_and, Bool.and_true]
  unfold I40
  cases sub
  · simp only [Bool.false_eq_true, if_false]
    have hr : ((a &&& mask40) + (b &&& mask40)).getLsbD 39 = (a.setWidth 40 + b.setWidth 40).msb := by
      rw [bit39_msb, BitVec.setWidth_add _ _ (by decide : 40 ≤ 64), and_mask40_setWidth, and_mask40_setWidth]
    have hb : (b &&& mask40).getLsbD 39 = (b.setWidth 40).msb := by
      rw [bit39_msb, and_mask40_setWidth]
    rw [hr, hb, bit39_msb a]
    have h := BitVec.saddOverflow_eq (a.setWidth 40) (b.setWidth 40)
    unfold BitVec.saddOverflow at h
    simp only [show (40 - 1) = 39 from rfl] at h
    rw [show (decide ((a.setWidth 40).toInt + (b.setWidth 40).toInt < -2 ^ 39 ∨
          2 ^ 39 ≤ (a.setWidth 40).toInt + (b.setWidth 40).toInt)) =
        (decide ((a.setWidth 40).toInt + (b.setWidth 40).toInt ≥ 2 ^ 39) ||
          decide ((a.setWidth 40).toInt + (b.setWidth 40).toInt < -2 ^ 39)) from by
      rw [← Bool.decide_or, decide_eq_decide]; omega]
    rw [h]
    cases (a.setWidth 40).msb <;> cases (b.setWidth 40).msb <;> cases (a.setWidth 40 + b.setWidth 40).msb <;> rfl
  · simp only [if_true]
    have hr : ((a &&& mask40) - (b &&& mask40)).getLsbD 39 = (a.setWidth 40 - b.setWidth 40).msb := by
      rw [bit39_msb, setWidth40_sub, and_mask40_setWidth, and_mask40_setWidth]
    have hb : (~~~(b &&& mask40)).getLsbD 39 = !(b.setWidth 40).msb := by
      rw [BitVec.getLsbD_not]; simp only [show (39 < 64) = True from by decide, decide_true, Bool.true_and]
      rw [bit39_msb, and_mask40_setWidth]
    rw [hr, hb, bit39_msb a]
    have h := BitVec.ssubOverflow_eq (a.setWidth 40) (b.setWidth 40)
    unfold BitVec.ssubOverflow at h
    simp only [show (40 - 1) = 39 from rfl] at h
    rw [show (decide ((a.setWidth 40).toInt - (b.setWidth 40).toInt < -2 ^ 39 ∨
          2 ^ 39 ≤ (a.setWidth 40).toInt - (b.setWidth 40).toInt)) =
        (decide ((a.setWidth 40).toInt - (b.setWidth 40).toInt ≥ 2 ^ 39) ||
          decide ((a.setWidth 40).toInt - (b.setWidth 40).toInt < -2 ^ 39)) from by
      rw [← Bool.decide_or, decide_eq_decide]; omega]
    rw [h]
    cases (a.setWidth 40).msb <;> cases (b.setWidth 40).msb <;> cases (a.setWidth 40 - b.setWidth 40).msb <;> rfl


/-! ## flags (`SetAccFlag`) and saturation (`SaturateAcc`) -/

private theorem beq_zero_toNat (v : U64) : (v == 0) = decide (v.toNat = 0) := by
  by_cases he : v = 0
  · subst he; rfl
  · have : v.toNat ≠ 0 := fun hh => he (BitVec.eq_of_toNat_eq (by simpa using hh))
    have h1 : (v == 0) = false := by simpa using he
    rw [h1]; simp [this]

private theorem bne_toNat (v w : U64) : (v != w) = decide (v.toNat ≠ w.toNat) := by
  by_cases he : v = w
  · subst he; simp
  · have : v.toNat ≠ w.toNat := fun hh => he (BitVec.eq_of_toNat_eq hh)
    have h1 : (v != w) = true := by simpa using he
    rw [h1]; simp [this]

private theorem shr39_ne_zero (v : U64) : ((v >>> 39) != 0) = decide (2 ^ 39 ≤ v.toNat) := by
  rw [bne_toNat, BitVec.toNat_ushiftRight, Nat.shiftRight_eq_div_pow, decide_eq_decide]
  show v.toNat / 2 ^ 39 ≠ 0 ↔ _
  omega

private theorem signExtend32_toNat (v : U64) : (signExtend 32 v).toNat =
      v.toNat % 2 ^ 32 + if 2 ^ 31 ≤ v.toNat % 2 ^ 32 then 2 ^ 64 - 2 ^ 32 else 0 := by
  unfold signExtend
  rw [BitVec.toNat_signExtend, BitVec.toNat_setWidth, BitVec.toNat_setWidth, BitVec.msb_eq_decide,
    BitVec.toNat_setWidth]
  have : v.toNat % 2 ^ 32 % 2 ^ 64 = v.toNat % 2 ^ 32 := by omega
  rw [this]
  by_cases hh : 2 ^ 31 ≤ v.toNat % 2 ^ 32
  · simp only [show (32 - 1) = 31 from rfl, hh, decide_true, if_true]
  · simp only [show (32 - 1) = 31 from rfl, hh, decide_false, Bool.false_eq_true, if_false]

/-- A well-formed accumulator is either a small non-negative number or a 64-bit pattern with all
of bits 39–63 set; its signed 40-bit value is then its 64-bit two's-complement value. -/
theorem wf_toNat_cases (v : U64) (h : AccWF v) :
    (v.toNat < 2 ^ 39 ∧ I40 v = v.toNat) ∨
    (2 ^ 64 - 2 ^ 39 ≤ v.toNat ∧ I40 v = (v.toNat : Int) - 2 ^ 64) := by
  unfold AccWF signExtend at h
  unfold I40
  have hn := congrArg BitVec.toNat h
  rw [BitVec.toNat_signExtend, BitVec.toNat_setWidth, BitVec.toNat_setWidth, BitVec.msb_eq_decide,
    BitVec.toNat_setWidth] at hn
  have hlt := v.isLt
  rw [BitVec.toInt_eq_toNat_cond, BitVec.toNat_setWidth]
  simp only [show (40 - 1) = 39 from rfl] at hn
  by_cases hm : 2 ^ 39 ≤ v.toNat % 2 ^ 40
  · simp only [hm, decide_true, if_true] at hn
    right; omega
  · simp only [hm, decide_false, Bool.false_eq_true, if_false] at hn
    left; omega

private theorem signExtend32_ne_iff (v : U64) (h : AccWF v) :
    (v != signExtend 32 v) = decide (I40 v < -2 ^ 31 ∨ 2 ^ 31 ≤ I40 v) := by
  have hc := wf_toNat_cases v h
  have hlt := v.isLt
  rw [bne_toNat, signExtend32_toNat, decide_eq_decide]
  rcases hc with ⟨h1, h2⟩ | ⟨h1, h2⟩ <;> split <;> omega

private theorem neg_iff (v : U64) (h : AccWF v) : ((v >>> 39) != 0) = decide (I40 v < 0) := by
  have hc := wf_toNat_cases v h
  have hlt := v.isLt
  rw [shr39_ne_zero, decide_eq_decide]
  rcases hc with ⟨h1, h2⟩ | ⟨h1, h2⟩ <;> omega

private theorem bit_val (v : U64) (k : Nat) :
    ((v >>> k) &&& (1 : U64)) = if v.getLsbD k then 1 else 0 := by
  apply BitVec.eq_of_toNat_eq
  have h1 : ((v >>> k) &&& 1).toNat = (v.toNat >>> k) % 2 := by
    rw [BitVec.toNat_and, BitVec.toNat_ushiftRight]
    show _ &&& (2 ^ 1 - 1) = _
    rw [Nat.and_two_pow_sub_one_eq_mod]
  rw [h1]
  unfold BitVec.getLsbD
  rw [Nat.testBit, Nat.one_and_eq_mod_two]
  generalize BitVec.toNat v >>> k = n
  rcases Nat.mod_two_eq_zero_or_one n with h | h <;> simp [h]

/-- **Flags.**  Zero, minus, extension and normalized flags are exactly those of the 40-bit value:
`fz ⇔ v = 0`, `fm ⇔ v < 0`, `fe ⇔ v` does not fit 32 bits signed,
`fn ⇔ fz ∨ (¬fe ∧ bit31 ≠ bit30)`. -/
theorem accFlags_spec (v : U64) (h : AccWF v) :
    (accFlags v).fz = b2u (decide (I40 v = 0)) ∧ (accFlags v).fm = b2u (decide (I40 v < 0)) ∧
    (accFlags v).fe = b2u (decide (I40 v < -2 ^ 31 ∨ 2 ^ 31 ≤ I40 v)) ∧
    (accFlags v).fn = b2u (decide (I40 v = 0) || (!decide (I40 v < -2 ^ 31 ∨ 2 ^ 31 ≤ I40 v) &&
                (v.getLsbD 31 != v.getLsbD 30))) := by
  have hc := wf_toNat_cases v h
  have hlt := v.isLt
  have hz : (v == 0) = decide (I40 v = 0) := by
    rw [beq_zero_toNat, decide_eq_decide]
    rcases hc with ⟨h1, h2⟩ | ⟨h1, h2⟩ <;> omega
  have hx : (((v >>> 31) &&& (1 : U64)) ^^^ ((v >>> 30) &&& (1 : U64)) != 0) =
      (v.getLsbD 31 != v.getLsbD 30) := by
    rw [bit_val, bit_val]
    cases v.getLsbD 31 <;> cases v.getLsbD 30 <;> decide
  unfold accFlags
  simp only [hz, neg_iff v h, signExtend32_ne_iff v h, hx, and_self]

/-- **Saturation.**  A value that does not fit 32 bits is replaced by the nearest 32-bit bound (and
the caller sets the limit flag exactly then); a value that fits is unchanged. -/
theorem saturate_spec (v : U64) (h : AccWF v) :
    I40 (saturate v).1 = max (-2 ^ 31) (min (2 ^ 31 - 1) (I40 v)) ∧
    (saturate v).2 = decide (I40 v < -2 ^ 31 ∨ 2 ^ 31 ≤ I40 v) ∧ AccWF (saturate v).1 := by
  unfold saturate
  rw [signExtend32_ne_iff v h, neg_iff v h]
  by_cases hf : I40 v < -2 ^ 31 ∨ 2 ^ 31 ≤ I40 v
  · simp only [hf, decide_true, if_true]
    by_cases hn : I40 v < 0
    · simp only [hn, decide_true, if_true]
      refine ⟨?_, trivial, by decide⟩
      have : I40 (0xFFFFFFFF80000000 : U64) = -2 ^ 31 := by decide
      rw [this]; omega
    · simp only [hn, decide_false, Bool.false_eq_true, if_false]
      refine ⟨?_, trivial, by decide⟩
      have : I40 (0x000000007FFFFFFF : U64) = 2 ^ 31 - 1 := by decide
      rw [this]; omega
  · simp only [hf, decide_false, Bool.false_eq_true, if_false]
    exact ⟨by omega, trivial, h⟩

end Teakra.Alu
