import TeakraModel.LockModel
/-!
# C19, lock discipline: definitions and soundness of the decision procedures

Table-independent part of `Proofs/C19.lean`: what a data race and a lock-order cycle are
(`Conflict`, `RaceFreeExcept`, `Reach`, `Acyclic`), that the executable checkers of
`TeakraModel/LockModel.lean` decide them (`findRaces_sound`, `findRace_none_iff`, `edgesForward_sound`), and
the check `actionsJustified` tying the atomic actions of `TeakraModel/Conc.lean` to the table.
-/
namespace Teakra.Lock

/-! ## the `Nat.beq` spellings are `=` and `∈` -/

theorem nbeq_iff (a b : Nat) : Nat.beq a b = true ↔ a = b := by simp

theorem nbeq_false_iff (a b : Nat) : Nat.beq a b = false ↔ a ≠ b := by
  rw [ne_eq, ← nbeq_iff]; cases Nat.beq a b <;> simp

theorem ieq_iff (a b : Inst) : ieq a b = true ↔ a = b := by
  obtain ⟨a1, a2⟩ := a
  obtain ⟨b1, b2⟩ := b
  simp only [ieq, Bool.and_eq_true, nbeq_iff, Prod.mk.injEq]
  exact And.comm

theorem hasName_iff (xs : List Name) (x : Name) : hasName xs x = true ↔ x ∈ xs := by
  simp only [hasName, List.any_eq_true, nbeq_iff]
  constructor
  · rintro ⟨y, hy, rfl⟩; exact hy
  · intro h; exact ⟨x, h, rfl⟩

theorem hasInst_iff (xs : List Inst) (x : Inst) : hasInst xs x = true ↔ x ∈ xs := by
  simp only [hasInst, List.any_eq_true, ieq_iff]
  constructor
  · rintro ⟨y, hy, rfl⟩; exact hy
  · intro h; exact ⟨x, h, rfl⟩

/-! ## data races: definition, decision procedure, soundness -/

/-- Two object-level accesses **race**: they are made by different threads to the same member of the
same object, at least one is a write, they are not both atomic operations, and no mutex is held at both. -/
def Conflict (a b : IAccess) : Prop :=
  a.thread ≠ b.thread ∧ a.field = b.field ∧ (a.write = true ∨ b.write = true) ∧
  ¬ (a.atomic = true ∧ b.atomic = true) ∧ ∀ l ∈ a.locks, l ∉ b.locks

/-- The executable test is the definition. -/
theorem conflict_iff (a b : IAccess) : conflict a b = true ↔ Conflict a b := by
  unfold conflict Conflict
  have hl : (a.locks.all fun l => !hasInst b.locks l) = true ↔ ∀ l ∈ a.locks, l ∉ b.locks := by
    simp only [List.all_eq_true]
    constructor
    · intro h l hl hb
      have := h l hl
      rw [(hasInst_iff _ _).2 hb] at this
      cases this
    · intro h l hl
      cases hh : hasInst b.locks l
      · rfl
      · exact absurd ((hasInst_iff _ _).1 hh) (h l hl)
  have hat : (!(a.atomic && b.atomic)) = true ↔ ¬ (a.atomic = true ∧ b.atomic = true) := by
    cases a.atomic <;> cases b.atomic <;> simp
  have hth : (!(Nat.beq a.thread b.thread)) = true ↔ a.thread ≠ b.thread := by
    rw [← nbeq_false_iff]; cases Nat.beq a.thread b.thread <;> simp
  simp only [Bool.and_eq_true, ieq_iff, hl, hat, hth, Bool.or_eq_true]
  constructor
  · rintro ⟨⟨⟨⟨f, t⟩, w⟩, x⟩, l⟩; exact ⟨t, f, w, x, l⟩
  · rintro ⟨t, f, w, x, l⟩; exact ⟨⟨⟨⟨f, t⟩, w⟩, x⟩, l⟩

/-- The definition is symmetric, so looking at pairs (host access, other access) loses nothing. -/
theorem Conflict.symm {a b : IAccess} (h : Conflict a b) : Conflict b a := by
  obtain ⟨h1, h2, h3, h4, h5⟩ := h
  exact ⟨fun e => h1 e.symm, h2.symm, h3.symm, fun ⟨x, y⟩ => h4 ⟨y, x⟩, fun l hl hl' => h5 l hl' hl⟩

/-- No host-thread access to a member outside `excluded` races with any access of another thread. -/
def RaceFreeExcept (t : LockTable) (excluded : List Name) : Prop :=
  ∀ a ∈ iaccesses t, ∀ b ∈ iaccesses t, a.thread = hostThread → a.field.2 ∉ excluded → ¬ Conflict a b

/-- **Race freedom of a table**: for every shared member — the `initOnly` ones included, they are only
read while running — every pair of accesses from different threads with at least one write holds a common
lock or both are atomic. -/
def RaceFree (t : LockTable) : Prop := RaceFreeExcept t []

/-- Soundness and completeness of the checker: it finds no pair iff there is none. -/
theorem findRaces_sound (t : LockTable) (excluded : List Name) :
    findRaces t excluded = [] ↔ RaceFreeExcept t excluded := by
  unfold findRaces findRacesIn RaceFreeExcept
  simp only [List.flatMap_eq_nil_iff, List.mem_filter, List.map_eq_nil_iff, List.filter_eq_nil_iff,
    Bool.and_eq_true, nbeq_iff, and_imp, conflict_iff]
  constructor
  · intro h a ha b hb hth hex hc
    refine h a ha hth ?_ b hb ?_ hc
    · cases hh : hasName excluded a.field.2
      · rfl
      · exact absurd ((hasName_iff _ _).1 hh) hex
    · cases hh : Nat.beq b.thread hostThread
      · rfl
      · exact absurd (hth.trans ((nbeq_iff _ _).1 hh).symm) hc.1
  · intro h a ha hth hex b hb _ hc
    refine h a ha b hb hth ?_ hc
    intro hm
    rw [(hasName_iff _ _).2 hm] at hex
    cases hex

/-- `findRace` (the first pair found) answers `none` exactly for a race-free table. -/
theorem findRace_none_iff (t : LockTable) : findRace t = none ↔ RaceFree t := by
  unfold findRace RaceFree
  rw [← findRaces_sound]
  cases findRaces t [] <;> simp

/-! ## lock order: definition, decision procedure, soundness -/

/-- `b` can be reached from `a` along lock-order edges (`held → acquired while holding it`). -/
inductive Reach (edges : List (Inst × Inst)) : Inst → Inst → Prop where
  | edge {a b : Inst} : (a, b) ∈ edges → Reach edges a b
  | trans {a b c : Inst} : Reach edges a b → Reach edges b c → Reach edges a c

/-- No mutex can (transitively) be waited for while it is held.  A deadlock is a cycle of threads each
holding a mutex the next one waits for — a cycle of `held → acquired` edges; a thread re-acquiring a
non-recursive mutex it holds is a one-element cycle.  So an acyclic graph means no deadlock (every
critical section and callback of the model terminates). -/
def Acyclic (edges : List (Inst × Inst)) : Prop := ∀ l, ¬ Reach edges l l

/-- Soundness of the order check: if every edge goes strictly forward in some list, there is no cycle. -/
theorem edgesForward_sound (order : List Inst) (edges : List (Inst × Inst))
    (h : edgesForward order edges = true) : Acyclic edges := by
  have hr : ∀ a b, Reach edges a b → order.idxOf a < order.idxOf b := by
    intro a b r
    induction r with
    | edge he =>
      simp only [edgesForward, List.all_eq_true, Bool.and_eq_true, decide_eq_true_eq] at h
      exact (h _ he).2
    | trans _ _ ih1 ih2 => exact Nat.lt_trans ih1 ih2
  intro l r
  exact Nat.lt_irrefl _ (hr l l r)

/-! ## the model's atomic actions are the code's critical sections -/

/-- The callback call sites the interleaving semantics builds in: `Send` calls `handler` *after* the
channel guard's scope; `SetSemaphore` / `MaskSemaphore` call `semaphore_handler` under the semaphore
mutex; `Trigger` calls both ICU callbacks under the ICU mutex. -/
def modelCallbacks : List CallSite :=
  [⟨n% "DataChannel.Send", n% "callback", n% "DataChannel.handler", []⟩,
   ⟨n% "Apbp.SetSemaphore", n% "callback", n% "Apbp.semaphore_handler", [n% "Apbp.semaphore_mutex"]⟩,
   ⟨n% "Apbp.MaskSemaphore", n% "callback", n% "Apbp.semaphore_handler", [n% "Apbp.semaphore_mutex"]⟩,
   ⟨n% "ICU.Trigger", n% "callback", n% "ICU.on_interrupt", [n% "ICU.mutex"]⟩,
   ⟨n% "ICU.Trigger", n% "callback", n% "ICU.on_vectored_interrupt", [n% "ICU.mutex"]⟩]

/-- The wiring the interleaving semantics builds in (`Teakra::Impl`'s constructor). -/
def modelWiring : List Wire :=
  [⟨n% "icu", n% "ICU.on_interrupt", n% "processor", n% "Processor.SignalInterrupt"⟩,
   ⟨n% "icu", n% "ICU.on_vectored_interrupt", n% "processor", n% "Processor.SignalVectoredInterrupt"⟩,
   ⟨n% "apbp_from_cpu", n% "DataChannel.handler", n% "icu", n% "ICU.TriggerSingle"⟩,
   ⟨n% "apbp_from_cpu", n% "Apbp.semaphore_handler", n% "icu", n% "ICU.TriggerSingle"⟩]

/-- The stores of the two `Signal…` methods, in program order, each on a `std::atomic`. -/
def modelSignalStores : List Access :=
  [⟨n% "Interpreter.SignalInterrupt", n% "Interpreter.interrupt_pending", true, [], true⟩,
   ⟨n% "Interpreter.SignalVectoredInterrupt", n% "Interpreter.vinterrupt_address", true, [], true⟩,
   ⟨n% "Interpreter.SignalVectoredInterrupt", n% "Interpreter.vinterrupt_pending", true, [], true⟩,
   ⟨n% "Interpreter.SignalVectoredInterrupt", n% "Interpreter.vinterrupt_context_switch", true, [], true⟩]

/-- The methods that take a `std::lock_guard`. -/
def guarded (t : LockTable) (m : Name) : Bool := t.acquires.any (fun q => Nat.beq q.method m)

/-- **One critical section per action.**  The interleaving semantics executes each mailbox / semaphore /
ICU method as ONE atomic action (e.g. `Send`: read the interrupt-disable flag, store `ready` and `data`).
That is what the code does when
* no method takes more than one `lock_guard`,
* a method that takes a guard calls other translated methods only inside the guard's scope (a call made
  outside it - say `GetDisableInterrupt()` before the guard of `Send` - is a second critical section whose
  result is stale by the time the first one runs: the lost wake-up),
* a method that takes a guard touches lock-protected members only inside the guard's scope (an access
  that holds no lock and is not atomic either is an init-only member, checked by `initOnlyUnwritten`,
  or a race, reported by `findRaces`), and
* a method without a guard that forwards to guarded methods makes a single such call. -/
def oneCriticalSection (t : LockTable) : Bool :=
  t.acquires.all (fun q => (t.acquires.filter (fun q' => Nat.beq q'.method q.method)).length == 1) &&
  t.calls.all (fun c => !(Nat.beq c.kind (n% "method") && guarded t c.method) || !c.locks.isEmpty) &&
  t.accesses.all (fun a => !guarded t a.method || !a.locks.isEmpty || a.atomic || hasName initOnly a.field) &&
  t.calls.all (fun c => !(Nat.beq c.kind (n% "method") && !guarded t c.method && guarded t c.target) ||
    (t.calls.filter (fun c' => Nat.beq c'.kind (n% "method") && Nat.beq c'.method c.method)).length == 1)

/-- What `TeakraModel/Conc.lean` takes from the code, as a check of the table: the callback sites and
the locks held there, the wiring, no call of any kind inside a channel guard's scope, no nested
`lock_guard` inside one method, one critical section per method, the `Signal…` methods are exactly the
modelled atomic stores, and every access of `Interpreter::Run` to a latch is an atomic operation. -/
def actionsJustified (t : LockTable) : Bool :=
  oneCriticalSection t &&
  t.calls.filter (fun c => Nat.beq c.kind (n% "callback")) == modelCallbacks &&
  t.wiring == modelWiring &&
  t.calls.all (fun c => !hasName c.locks (n% "DataChannel.mutex")) &&
  t.acquires.all (fun q => q.held.isEmpty) &&
  t.accesses.filter (fun a => Nat.beq a.method (n% "Interpreter.SignalInterrupt") || Nat.beq a.method (n% "Interpreter.SignalVectoredInterrupt"))
    == modelSignalStores &&
  t.accesses.all (fun a => !(Nat.beq a.method (n% "Interpreter.Run")) || a.atomic)

/-! ## the combined check -/

/-- The members known to be racy on the current tree: none any more.  (`DataChannel.disable_interrupt` was one
until `SetDisableInterrupt` took the channel mutex, the three ICU vector tables until they got locked accessors;
both repaired in /repo — the pinned snapshot and its four races are in `Proofs/C19Pinned.lean`.) -/
def knownRacy : List Name := []

/-- The ICU vector tables (what stayed racy after `SetDisableInterrupt` alone was repaired; used by `Proofs/C19Pinned.lean`). -/
def icuVectors : List Name := [n% "ICU.vector_low", n% "ICU.vector_high", n% "ICU.vector_context_switch"]

def tableChecks (t : LockTable) (excluded : List Name) : Bool :=
  closed t && (findRaces t excluded).isEmpty && edgesForward (lockOrder t) (lockEdges t) &&
  entriesClassified t && initOnlyUnwritten t && actionsJustified t

end Teakra.Lock
