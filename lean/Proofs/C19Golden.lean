import TeakraModel.Generated.LockTable
import TeakraModel.Golden.LockTable
/-!
# C19 — the regenerated lock table equals the committed snapshot of the pinned tree

Kept apart from `Proofs/C19.lean`: when `apbp.cpp`, `icu.h`, `interpreter.h`, `processor.cpp`, `teakra.cpp`
or `mmio.cpp` change in a way that affects locking, *this* module stops building (and `checks/c19.py`
reports the differing rows), while the theorems of `Proofs.C19` are re-proved over the new table.
-/
namespace Teakra.Lock

theorem table_eq_golden : table = Golden.table := by decide +kernel

end Teakra.Lock
