import Proofs.C07.Reti
import Proofs.C11
/-!
# C08 (stack part 1) — one word on the stack

`mem.DataWrite(--sp, v)` followed by `mem.DataRead(sp++)` on a stack slot that is ordinary data
memory (`OrdinaryAt`, `Proofs/C07/Push.lean`): the read returns `v`, `sp` is back, no register
changes, the only memory word that may differ is the stack slot, the two accesses are logged and
no callback runs.  The read-after-write fact is the one of C11 (`Bus.dataRead_cell`,
`Bus.dataWrite_cell`, `Bus.Mem.read_write`).
-/
namespace Teakra
open Teakra Exec ExecLemmas Interp Sys

/-! ## the memory word behind an ordinary data address -/

/-- The index of the memory word a converted address selects. -/
def stackCell (conv : U32) : Nat := Mem.byteAddr conv / 2

/-- An ordinary address is a memory cell in the sense of C11. -/
theorem OrdinaryAt.cell {b : Bus} {a : U16} {conv : U32} (h : OrdinaryAt b a conv) :
    Bus.Port.cell b (.data a false) = some (stackCell conv) := by
  simp only [Bus.Port.cell, h.notMmio, h.convert, Bus.wordCell, h.inRange, Bool.false_and,
    Bool.false_eq_true, if_false, if_true, stackCell]

/-- The converted address is `0x20000 + 0x10000 * page + a` for a page `< 2`. -/
theorem OrdinaryAt.cell_eq {b : Bus} {a : U16} {conv : U32} (h : OrdinaryAt b a conv) :
    ∃ page : Nat, page < 2 ∧ stackCell conv = 0x20000 + 0x10000 * page + a.toNat := by
  have hc := Bus.convert_asserts b.miu a
  rw [h.convert] at hc
  generalize (if b.miu.pageMode = 0 then b.miu.zPage
      else if a.toNat ≤ b.miu.xSize[0].toNat * 0x400 then b.miu.xPage else b.miu.yPage) = page at hc
  simp only [] at hc
  by_cases hp : page < 2
  · rw [if_pos hp] at hc
    injection hc with hc
    have hp' : page.toNat < 2 := hp
    refine ⟨_, hp', ?_⟩
    have ha := a.isLt
    unfold stackCell Mem.byteAddr
    rw [hc, BitVec.toNat_mul]
    simp
    omega
  · rw [if_neg hp] at hc
    cases hc

/-- Different ordinary data addresses are different memory words (whatever the page registers). -/
theorem OrdinaryAt.cell_ne {b : Bus} {a a' : U16} {conv conv' : U32} (h : OrdinaryAt b a conv)
    (h' : OrdinaryAt b a' conv') (hne : a ≠ a') : stackCell conv ≠ stackCell conv' := by
  obtain ⟨p, hp, e⟩ := h.cell_eq
  obtain ⟨p', hp', e'⟩ := h'.cell_eq
  have : a.toNat ≠ a'.toNat := fun e => hne (BitVec.eq_of_toNat_eq e)
  have := a.isLt
  have := a'.isLt
  omega

/-! ## `mem.DataRead` of ordinary memory -/

/-- A read of ordinary memory: the word of the shared memory, one access logged, no callback,
nothing else changes. -/
theorem busRead_ordinary (c : Core) (a : U16) (conv : U32) (h : OrdinaryAt c.bus a conv) :
    c.busRead a =
      .ok (c.bus.mem.read (stackCell conv), { c with log := ⟨Mem.byteAddr conv, false, 0⟩ :: c.log }) := by
  obtain ⟨conv', hc, hr⟩ := Bus.dataRead_cell c.bus a false _ h.cell
  rw [h.convert] at hc
  injection hc with hc
  subst hc
  unfold Core.busRead
  rw [hr]
  rfl

/-- `busWrite_ordinary` with the cell named. -/
theorem busWrite_ordinary' (c : Core) (a v : U16) (conv : U32) (h : OrdinaryAt c.bus a conv) :
    c.busWrite a v =
      .ok { c with bus := { c.bus with mem := c.bus.mem.write (stackCell conv) v }
                   log := ⟨Mem.byteAddr conv, true, v⟩ :: c.log } :=
  busWrite_ordinary c a v conv h

/-- **Read after write on an ordinary address** (from C11's `views_agree` chain): after
`mem.DataWrite(a, v)`, `mem.DataRead(a)` returns `v`. -/
theorem busRead_busWrite_ordinary (c : Core) (a v : U16) (conv : U32) (h : OrdinaryAt c.bus a conv) :
    (c.busWrite a v >>= fun c' => c'.busRead a) =
      .ok (v, { c with bus := { c.bus with mem := c.bus.mem.write (stackCell conv) v }
                       log := ⟨Mem.byteAddr conv, false, 0⟩ :: ⟨Mem.byteAddr conv, true, v⟩ :: c.log }) := by
  rw [busWrite_ordinary' c a v conv h]
  refine (busRead_ordinary
    ({ c with bus := { c.bus with mem := c.bus.mem.write (stackCell conv) v }
              log := ⟨Mem.byteAddr conv, true, v⟩ :: c.log } : Core) a conv (h.after_write _)).trans ?_
  simp only [Bus.Mem.read_write, if_true]

/-- The same through the generic statement of C11: the value read through the data port after a
write through the data port to the same cell. -/
theorem busRead_busWrite_views (b b' : Bus) (a v : U16) (conv : U32) (h : OrdinaryAt b a conv)
    (hw : Bus.Port.write b v (.data a false) = .ok b') : Bus.Port.read b' (.data a false) = .ok v :=
  Bus.views_agree b b' (.data a false) (.data a false) v _ h.cell hw h.cell

/-! ## `pushWord` / `popWord` on an ordinary stack -/

/-- `mem.DataWrite(--sp, v)` with the slot `sp - 1` in ordinary memory. -/
theorem pushWord_ordinary (c : Core) (v : U16) (conv : U32) (h : OrdinaryAt c.bus (c.regs.sp - 1) conv) :
    (pushWord v).run c = .ok ((),
      { c with regs := { c.regs with sp := c.regs.sp - 1 }
               bus := { c.bus with mem := c.bus.mem.write (stackCell conv) v }
               log := ⟨Mem.byteAddr conv, true, v⟩ :: c.log }) := by
  have e := pushWord_on c c.regs v
  rw [show ({ c with regs := c.regs } : Core) = c from rfl] at e
  rw [e, busWrite_ordinary' c _ v conv h]
  rfl

/-- `mem.DataRead(sp++)` with the slot `sp` in ordinary memory. -/
theorem popWord_ordinary (c : Core) (conv : U32) (h : OrdinaryAt c.bus c.regs.sp conv) :
    popWord.run c = .ok (c.bus.mem.read (stackCell conv),
      { c with regs := { c.regs with sp := c.regs.sp + 1 }
               log := ⟨Mem.byteAddr conv, false, 0⟩ :: c.log }) := by
  have e := popWord_on c c.regs
  rw [show ({ c with regs := c.regs } : Core) = c from rfl] at e
  rw [e, busRead_ordinary c _ conv h]
  rfl

theorem sub_one_add_one (x : U16) : x - 1 + 1 = x := by bv_omega
theorem sub_two_add_one (x : U16) : x - 2 + 1 = x - 1 := by bv_omega
theorem sub_two_add_two (x : U16) : x - 2 + 2 = x := by bv_omega
theorem sub_two_ne_sub_one (x : U16) : x - 2 ≠ x - 1 := by bv_omega
theorem sub_one_ne_sub_two (x : U16) : x - 1 ≠ x - 2 := by bv_omega

/-- The machine after a push/pop pair of `v` through the slot `conv`: everything as before except
the stack slot (now holding `v`) and the two logged accesses. -/
def afterPushPop (c : Core) (conv : U32) (v : U16) : Core :=
  { c with bus := { c.bus with mem := c.bus.mem.write (stackCell conv) v }
           log := ⟨Mem.byteAddr conv, false, 0⟩ :: ⟨Mem.byteAddr conv, true, v⟩ :: c.log }

/-- **Word level round trip.**  With the stack slot `sp - 1` in ordinary memory, `pushWord v`
followed by `popWord` succeeds, returns `v`, and leaves the machine as `afterPushPop`: the whole
register file (so `sp` too), the peripherals, the latches, the event log and `idle` unchanged; the
memory differs at most in the word of the slot; the access log has grown by the write and the
read. -/
theorem push_pop_word (c : Core) (v : U16) (conv : U32) (h : OrdinaryAt c.bus (c.regs.sp - 1) conv) :
    (do pushWord v; popWord : Exec U16).run c = .ok (v, afterPushPop c conv v) := by
  rw [run_bind, pushWord_ordinary c v conv h]
  simp only [except_ok_bind]
  have h' : OrdinaryAt
      ({ c with regs := { c.regs with sp := c.regs.sp - 1 }
                bus := { c.bus with mem := c.bus.mem.write (stackCell conv) v }
                log := ⟨Mem.byteAddr conv, true, v⟩ :: c.log } : Core).bus
      ({ c with regs := { c.regs with sp := c.regs.sp - 1 }
                bus := { c.bus with mem := c.bus.mem.write (stackCell conv) v }
                log := ⟨Mem.byteAddr conv, true, v⟩ :: c.log } : Core).regs.sp conv := h.after_write _
  rw [popWord_ordinary _ conv h']
  simp only [Bus.Mem.read_write, if_true, afterPushPop]
  congr 3
  show ({ c.regs with sp := c.regs.sp - 1 + 1 } : Regs) = c.regs
  rw [sub_one_add_one]

/-- What `push_pop_word` leaves unchanged, field by field. -/
theorem push_pop_word_frame (c : Core) (v : U16) (conv : U32) :
    (afterPushPop c conv v).regs = c.regs ∧ (afterPushPop c conv v).events = c.events ∧
    (afterPushPop c conv v).ipend = c.ipend ∧ (afterPushPop c conv v).vpend = c.vpend ∧
    (afterPushPop c conv v).vctx = c.vctx ∧ (afterPushPop c conv v).vaddr = c.vaddr ∧
    (afterPushPop c conv v).idle = c.idle ∧
    (afterPushPop c conv v).bus.miu = c.bus.miu ∧ (afterPushPop c conv v).bus.per = c.bus.per ∧
    (afterPushPop c conv v).bus.ext = c.bus.ext ∧
    (∀ w, w ≠ stackCell conv → (afterPushPop c conv v).bus.mem.read w = c.bus.mem.read w) ∧
    (afterPushPop c conv v).bus.mem.read (stackCell conv) = v := by
  refine ⟨rfl, rfl, rfl, rfl, rfl, rfl, rfl, rfl, rfl, rfl, fun w hw => ?_, ?_⟩
  · simp [afterPushPop, Bus.Mem.read_write, hw]
  · simp [afterPushPop, Bus.Mem.read_write]

end Teakra
