import Proofs.C08Stack.CallRet
/-!
# C08 (stack part 4) — interrupt entry followed by return from interrupt

`enterLine i` / `enterVectored` (`Proofs/C07/Entry.lean`: the body of the interrupt block of
`Interpreter::Run`) push the `pc` of the next unexecuted instruction; `reti` / `retic` pop it and
set `ie := 1`.  With a context switch configured (`ic[i] ≠ 0`, resp. the latched
`vinterrupt_context_switch`) the entry also runs `ContextStore`, which `retic` undoes
(`cntx_r_cntx_s`, `Proofs/C08.lean`).
-/
namespace Teakra
open Teakra Exec ExecLemmas Interp Sys

/-! ## context store / restore commute with the registers the interrupt block writes -/

/-- Overwrite the registers of `IntPart`. -/
def setInt (r : Regs) (n : IntPart) : Regs :=
  { r with ie := n.ie, ip := n.ip, ipv := n.ipv, ic := n.ic, sp := n.sp, pc := n.pc, rep := n.rep, cpc := n.cpc }

theorem setInt_intPart (r : Regs) : setInt r (intPart r) = r := rfl
theorem intPart_setInt (r : Regs) (n : IntPart) : intPart (setInt r n) = n := rfl

private theorem setCtx_setInt (r : Regs) (n : IntPart) (m : CtxPart) :
    setCtx (setInt r n) m = setInt (setCtx r m) n := rfl
private theorem getCtx_setInt (r : Regs) (n : IntPart) : getCtx (setInt r n) = getCtx r := rfl
private theorem swapAr_setInt (r : Regs) (n : IntPart) (i : Fin 2) :
    swapArPure (setInt r n) i = setInt (swapArPure r i) n := rfl
private theorem swapArp_setInt (r : Regs) (n : IntPart) (i : Fin 4) :
    swapArpPure (setInt r n) i = setInt (swapArpPure r i) n := rfl
private theorem ssr_setInt (r : Regs) (n : IntPart) :
    shadowSwapRegistersPure (setInt r n) = setInt (shadowSwapRegistersPure r) n := rfl

private theorem shadowSwap_setInt (r : Regs) (n : IntPart) :
    shadowSwapPure (setInt r n) = setInt (shadowSwapPure r) n := by
  unfold shadowSwapPure swapAllArArpPure
  simp only [ssr_setInt, swapAr_setInt, swapArp_setInt]

private theorem ctxApply_setInt (g : CtxPart → CtxPart) (r : Regs) (n : IntPart) :
    ctxApply g (setInt r n) = setInt (ctxApply g r) n := by
  unfold ctxApply; rw [getCtx_setInt, setCtx_setInt]

/-- `ContextStore` neither reads nor writes `ie`, `ip`, `ipv`, `ic`, `sp`, `pc`, `rep`, `cpc`. -/
theorem contextStore_setInt (r : Regs) (n : IntPart) :
    contextStorePure (setInt r n) = setInt (contextStorePure r) n := by
  unfold contextStorePure
  rw [ctxApply_setInt, shadowSwap_setInt, ctxApply_setInt]

theorem contextRestore_setInt (r : Regs) (n : IntPart) :
    contextRestorePure (setInt r n) = setInt (contextRestorePure r) n := by
  unfold contextRestorePure
  rw [ctxApply_setInt, shadowSwap_setInt, ctxApply_setInt]

/-! ## the state after an entry -/

/-- The machine after entering line `i` on an ordinary stack. -/
def enteredLine (i : Fin 3) (c : Core) (a1 a2 : U32) : Core :=
  { pushedPC c a1 a2 with regs := entryRegs i c.regs, idle := false }

theorem enterLine_ordinary (i : Fin 3) (c : Core) (a1 a2 : U32)
    (h1 : OrdinaryAt c.bus (c.regs.sp - 1) a1) (h2 : OrdinaryAt c.bus (c.regs.sp - 2) a2) :
    (enterLine i).run c = .ok ((), enteredLine i c a1 a2) :=
  entry_pushes_next_pc_ordinary i c a1 a2 h1 h2

/-- The machine after entering the vectored handler on an ordinary stack. -/
def enteredVectored (c : Core) (a1 a2 : U32) : Core :=
  { pushedPC c a1 a2 with regs := vecEntryRegs c.vaddr c.vctx c.regs, idle := false }

theorem enterVectored_ordinary (c : Core) (a1 a2 : U32)
    (h1 : OrdinaryAt c.bus (c.regs.sp - 1) a1) (h2 : OrdinaryAt c.bus (c.regs.sp - 2) a2) :
    enterVectored.run c = .ok ((), enteredVectored c a1 a2) :=
  vectored_entry_pushes_next_pc_ordinary c a1 a2 h1 h2

/-- **After an entry** the top of the stack is the frame of the interrupted `pc`, pushed from the
interrupted `sp`. -/
theorem enteredLine_frame (i : Fin 3) (c : Core) (a1 a2 : U32)
    (h1 : OrdinaryAt c.bus (c.regs.sp - 1) a1) (h2 : OrdinaryAt c.bus (c.regs.sp - 2) a2) :
    ReturnFrame (enteredLine i c a1 a2) c.regs.sp c.regs.pc a1 a2 :=
  (pushPC_frame c a1 a2 h1 h2).of_eq
    (congrArg IntPart.sp (intPart_entryRegs i c.regs)) (congrArg IntPart.cpc (intPart_entryRegs i c.regs))
    rfl rfl rfl

theorem enteredVectored_frame (c : Core) (a1 a2 : U32)
    (h1 : OrdinaryAt c.bus (c.regs.sp - 1) a1) (h2 : OrdinaryAt c.bus (c.regs.sp - 2) a2) :
    ReturnFrame (enteredVectored c a1 a2) c.regs.sp c.regs.pc a1 a2 :=
  (pushPC_frame c a1 a2 h1 h2).of_eq
    (congrArg IntPart.sp (intPart_vecEntryRegs c.vaddr c.vctx c.regs))
    (congrArg IntPart.cpc (intPart_vecEntryRegs c.vaddr c.vctx c.regs))
    rfl rfl rfl

/-! ## entry ; handler ; return -/

/-- **Entry, any handler, `reti`.**  If the handler body (any program), started in the state after
the entry, ends in a state whose `sp`, `cpc`, MIU registers and the two stack words are those it
started with, and the condition of `reti` holds there, then `reti` resumes at the interrupted `pc`
with the interrupted `sp` and `ie = 1`; every other register is as the handler left it. -/
theorem entry_body_reti (i : Fin 3) (body : Exec Unit) (rcond : Nat) (c c2 : Core) (a1 a2 : U32)
    (h1 : OrdinaryAt c.bus (c.regs.sp - 1) a1) (h2 : OrdinaryAt c.bus (c.regs.sp - 2) a2)
    (hpc : c.regs.pc.toNat < 0x40000)
    (hbody : body.run (enteredLine i c a1 a2) = .ok ((), c2))
    (hsp : c2.regs.sp = c.regs.sp - 2) (hcpc : c2.regs.cpc = c.regs.cpc)
    (hmiu : c2.bus.miu = c.bus.miu)
    (hw1 : c2.bus.mem.read (stackCell a1) = (pcWords c.regs).1)
    (hw2 : c2.bus.mem.read (stackCell a2) = (pcWords c.regs).2)
    (hr : condVal (Cond.name rcond) c2.regs = true) :
    (do enterLine i; body; Exec.reti_Cond rcond : Exec Unit).run c =
      .ok ((), { poppedPC c2 c.regs.sp c.regs.pc a1 a2 with
                 regs := { c2.regs with sp := c.regs.sp, pc := c.regs.pc, ie := 1 } }) := by
  rw [run_bind, enterLine_ordinary i c a1 a2 h1 h2]
  simp only [except_ok_bind]
  rw [run_bind, hbody]
  simp only [except_ok_bind]
  have fr := enteredLine_frame i c a1 a2 h1 h2
  have fr2 : ReturnFrame c2 c.regs.sp c.regs.pc a1 a2 := by
    refine ⟨hsp, ⟨by rw [hmiu]; exact h1.notMmio, by rw [hmiu]; exact h1.convert, h1.inRange⟩,
      ⟨by rw [hmiu]; exact h2.notMmio, by rw [hmiu]; exact h2.convert, h2.inRange⟩, ?_, ?_⟩
    · rw [hw1, hcpc]; rfl
    · rw [hw2, hcpc]; rfl
  exact reti_frame rcond c2 _ _ _ _ fr2 hpc hr

/-- The registers after `enterLine i ; reti` without context switch: the interrupted registers with
the request bit consumed and `ie = 1`. -/
def resumedRegs (i : Fin 3) (r : Regs) : Regs := { r with ip := vset r.ip i 0, ie := 1 }

/-- **Entry followed directly by `reti`, no context switch** (`ic[i] = 0`): execution resumes at
the interrupted `pc` with the interrupted `sp`, `ie = 1`, the request bit `ip[i]` consumed, and
*no other register changed*.  Memory differs only in the two stack slots. -/
theorem entry_reti_roundtrip (i : Fin 3) (rcond : Nat) (c : Core) (a1 a2 : U32)
    (h1 : OrdinaryAt c.bus (c.regs.sp - 1) a1) (h2 : OrdinaryAt c.bus (c.regs.sp - 2) a2)
    (hpc : c.regs.pc.toNat < 0x40000)
    (hic : c.regs.ic.toArray.getD i 0 = 0)
    (hr : condVal (Cond.name rcond) c.regs = true) :
    (do enterLine i; Exec.reti_Cond rcond : Exec Unit).run c =
      .ok ((), { afterPushPopPC c a1 a2 with regs := resumedRegs i c.regs, idle := false }) := by
  have he : entryRegs i c.regs =
      { c.regs with ip := vset c.regs.ip i 0, ie := 0, sp := c.regs.sp - 2, pc := lineVector i } := by
    unfold entryRegs
    simp only [hic, bne_self_eq_false, Bool.false_eq_true, if_false]
  rw [run_bind, enterLine_ordinary i c a1 a2 h1 h2]
  simp only [except_ok_bind]
  have hc : condVal (Cond.name rcond) (enteredLine i c a1 a2).regs = true := by
    show condVal _ (entryRegs i c.regs) = true
    rw [he, ← hr]
    cases Cond.name rcond <;> rfl
  rw [reti_frame rcond _ _ _ _ _ (enteredLine_frame i c a1 a2 h1 h2) hpc hc]
  show Except.ok ((), ({ poppedPC (enteredLine i c a1 a2) c.regs.sp c.regs.pc a1 a2 with
      regs := { entryRegs i c.regs with sp := c.regs.sp, pc := c.regs.pc, ie := 1 } } : Core)) = _
  rw [he]
  rfl

/-- If interrupts were enabled as the hardware has it (`ie = 1`; an entry needs `ie ≠ 0`) the only
register that differs after `entry ; reti` is the consumed request bit. -/
theorem resumedRegs_of_ie (i : Fin 3) (r : Regs) (hie : r.ie = 1) :
    resumedRegs i r = { r with ip := vset r.ip i 0 } := by
  unfold resumedRegs; rw [← hie]

/-- **Entry with context switch followed by `retic`** (`ic[i] ≠ 0`): execution resumes at the
interrupted `pc` with the interrupted `sp`, `ie = 1`, the request bit consumed, and every
program-visible register and every two-way bank as it was; only the hidden one-way save slots
(`sh_*`, `repcs`, `a1s`, `b1s`: `savedSlots`) have taken the saved values. -/
theorem entry_retic_roundtrip (i : Fin 3) (rcond : Nat) (c : Core) (a1 a2 : U32)
    (h1 : OrdinaryAt c.bus (c.regs.sp - 1) a1) (h2 : OrdinaryAt c.bus (c.regs.sp - 2) a2)
    (hpc : c.regs.pc.toNat < 0x40000)
    (hic : c.regs.ic.toArray.getD i 0 ≠ 0)
    (hr : condVal (Cond.name rcond) (entryRegs i c.regs) = true) :
    (do enterLine i; Exec.retic_Cond rcond : Exec Unit).run c =
      .ok ((), { afterPushPopPC c a1 a2 with
                 regs := ctxApply savedSlots (resumedRegs i c.regs), idle := false }) := by
  let n0 : IntPart := { intPart c.regs with ip := vset c.regs.ip i 0, ie := 0, sp := c.regs.sp - 2, pc := lineVector i }
  let n1 : IntPart := { intPart c.regs with ip := vset c.regs.ip i 0, ie := 1 }
  have he : entryRegs i c.regs = contextStorePure (setInt c.regs n0) := by
    unfold entryRegs
    simp only [bne_iff_ne.mpr hic, if_true]
    exact congrArg contextStorePure rfl
  rw [run_bind, enterLine_ordinary i c a1 a2 h1 h2]
  simp only [except_ok_bind]
  rw [retic_frame rcond _ _ _ _ _ (enteredLine_frame i c a1 a2 h1 h2) hpc hr]
  show Except.ok ((), ({ poppedPC (enteredLine i c a1 a2) c.regs.sp c.regs.pc a1 a2 with
      regs := contextRestorePure { entryRegs i c.regs with sp := c.regs.sp, pc := c.regs.pc, ie := 1 } } : Core)) = _
  have hregs : contextRestorePure { entryRegs i c.regs with sp := c.regs.sp, pc := c.regs.pc, ie := 1 } =
      ctxApply savedSlots (resumedRegs i c.regs) := by
    rw [he, contextStore_setInt]
    have e1 : ∀ s : Regs, ({ setInt s n0 with sp := c.regs.sp, pc := c.regs.pc, ie := 1 } : Regs) =
        setInt s n1 := fun _ => rfl
    rw [e1, ← contextStore_setInt, cntx_r_cntx_s]
    exact congrArg (ctxApply savedSlots) rfl
  rw [hregs]
  rfl

/-- The same two statements for the vectored interrupt (context switch = the latched
`vinterrupt_context_switch`). -/
theorem vectored_entry_reti_roundtrip (rcond : Nat) (c : Core) (a1 a2 : U32)
    (h1 : OrdinaryAt c.bus (c.regs.sp - 1) a1) (h2 : OrdinaryAt c.bus (c.regs.sp - 2) a2)
    (hpc : c.regs.pc.toNat < 0x40000) (hctx : c.vctx = false)
    (hr : condVal (Cond.name rcond) c.regs = true) :
    (do enterVectored; Exec.reti_Cond rcond : Exec Unit).run c =
      .ok ((), { afterPushPopPC c a1 a2 with regs := { c.regs with ipv := 0, ie := 1 }, idle := false }) := by
  have he : vecEntryRegs c.vaddr c.vctx c.regs =
      { c.regs with ipv := 0, ie := 0, sp := c.regs.sp - 2, pc := c.vaddr } := by
    unfold vecEntryRegs
    simp only [hctx, Bool.false_eq_true, if_false]
  rw [run_bind, enterVectored_ordinary c a1 a2 h1 h2]
  simp only [except_ok_bind]
  have hc : condVal (Cond.name rcond) (enteredVectored c a1 a2).regs = true := by
    show condVal _ (vecEntryRegs c.vaddr c.vctx c.regs) = true
    rw [he, ← hr]
    cases Cond.name rcond <;> rfl
  rw [reti_frame rcond _ _ _ _ _ (enteredVectored_frame c a1 a2 h1 h2) hpc hc]
  show Except.ok ((), ({ poppedPC (enteredVectored c a1 a2) c.regs.sp c.regs.pc a1 a2 with
      regs := { vecEntryRegs c.vaddr c.vctx c.regs with sp := c.regs.sp, pc := c.regs.pc, ie := 1 } } : Core)) = _
  rw [he]
  rfl

theorem vectored_entry_retic_roundtrip (rcond : Nat) (c : Core) (a1 a2 : U32)
    (h1 : OrdinaryAt c.bus (c.regs.sp - 1) a1) (h2 : OrdinaryAt c.bus (c.regs.sp - 2) a2)
    (hpc : c.regs.pc.toNat < 0x40000) (hctx : c.vctx = true)
    (hr : condVal (Cond.name rcond) (vecEntryRegs c.vaddr c.vctx c.regs) = true) :
    (do enterVectored; Exec.retic_Cond rcond : Exec Unit).run c =
      .ok ((), { afterPushPopPC c a1 a2 with
                 regs := ctxApply savedSlots { c.regs with ipv := 0, ie := 1 }, idle := false }) := by
  let n0 : IntPart := { intPart c.regs with ipv := 0, ie := 0, sp := c.regs.sp - 2, pc := c.vaddr }
  let n1 : IntPart := { intPart c.regs with ipv := 0, ie := 1 }
  have he : vecEntryRegs c.vaddr c.vctx c.regs = contextStorePure (setInt c.regs n0) := by
    unfold vecEntryRegs
    simp only [hctx, if_true]
    exact congrArg contextStorePure rfl
  rw [run_bind, enterVectored_ordinary c a1 a2 h1 h2]
  simp only [except_ok_bind]
  rw [retic_frame rcond _ _ _ _ _ (enteredVectored_frame c a1 a2 h1 h2) hpc hr]
  show Except.ok ((), ({ poppedPC (enteredVectored c a1 a2) c.regs.sp c.regs.pc a1 a2 with
      regs := contextRestorePure { vecEntryRegs c.vaddr c.vctx c.regs with sp := c.regs.sp, pc := c.regs.pc, ie := 1 } } : Core)) = _
  have hregs : contextRestorePure { vecEntryRegs c.vaddr c.vctx c.regs with sp := c.regs.sp, pc := c.regs.pc, ie := 1 } =
      ctxApply savedSlots { c.regs with ipv := 0, ie := 1 } := by
    rw [he, contextStore_setInt]
    have e1 : ∀ s : Regs, ({ setInt s n0 with sp := c.regs.sp, pc := c.regs.pc, ie := 1 } : Regs) =
        setInt s n1 := fun _ => rfl
    rw [e1, ← contextStore_setInt, cntx_r_cntx_s]
    exact congrArg (ctxApply savedSlots) rfl
  rw [hregs]
  rfl

/-- What `ctxApply savedSlots` leaves alone: every register that is not a one-way save slot. -/
theorem savedSlots_visible (r : Regs) :
    let r' := ctxApply savedSlots r
    r'.pc = r.pc ∧ r'.sp = r.sp ∧ r'.ie = r.ie ∧ r'.a = r.a ∧ r'.b = r.b ∧ r'.repc = r.repc ∧
    r'.flm = r.flm ∧ r'.fvl = r.fvl ∧ r'.fe = r.fe ∧ r'.fc0 = r.fc0 ∧ r'.fc1 = r.fc1 ∧ r'.fv = r.fv ∧
    r'.fn = r.fn ∧ r'.fm = r.fm ∧ r'.fz = r.fz ∧ r'.fr = r.fr ∧
    r'.r = r.r ∧ r'.x = r.x ∧ r'.y = r.y ∧ r'.p = r.p ∧ r'.sv = r.sv ∧
    { r' with sh_flm := r.sh_flm, sh_fvl := r.sh_fvl, sh_fe := r.sh_fe, sh_fc0 := r.sh_fc0,
              sh_fc1 := r.sh_fc1, sh_fv := r.sh_fv, sh_fn := r.sh_fn, sh_fm := r.sh_fm, sh_fz := r.sh_fz,
              sh_fr := r.sh_fr, repcs := r.repcs, a1s := r.a1s, b1s := r.b1s } = r := by
  refine ⟨rfl, rfl, rfl, rfl, rfl, rfl, rfl, rfl, rfl, rfl, rfl, rfl, rfl, rfl, rfl, rfl, rfl, rfl, rfl, rfl, rfl, ?_⟩
  cases r; rfl

end Teakra
