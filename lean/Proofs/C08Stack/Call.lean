import Proofs.C08Stack.Word
/-!
# C08 (stack part 2) — `PushPC` / `PopPC`, calls and returns

* `pushPC_ordinary`, `popPC_frame`: closed forms on a stack in ordinary memory.
* `ReturnFrame c sp pc a1 a2`: the two words on top of the stack of `c` are the return address `pc`
  pushed from stack pointer `sp` in the word order selected by `cpc`.  `pushPC` establishes it
  (`pushPC_frame`), every return form consumes it (`popPC_frame`, `ret_frame`, `rets_frame`,
  `reti_frame`, `retic_frame`).
* `pushPC_popPC`, `call_ret_roundtrip` and its variants for the other call / return forms.
-/
namespace Teakra
open Teakra Exec ExecLemmas Interp Sys

/-! ## the two words of a return address -/

/-- `pcWords` as a function of `cpc` and `pc`. -/
def pcWordsOf (cpc : U16) (pc : U32) : U16 × U16 :=
  if cpc == 1 then ((pc >>> 16).setWidth 16, (pc &&& 0xFFFF).setWidth 16)
  else ((pc &&& 0xFFFF).setWidth 16, (pc >>> 16).setWidth 16)

theorem pcWords_eq (r : Regs) : pcWords r = pcWordsOf r.cpc r.pc := rfl

/-- **Both word orders.**  What `PopPC` assembles from the words `PushPC` pushed (second pushed =
first popped) is the `pc` that was pushed, for `cpc = 1` and for `cpc ≠ 1`. -/
theorem popPcValue_pcWordsOf (cpc : U16) (pc : U32) :
    popPcValue cpc (pcWordsOf cpc pc).2 (pcWordsOf cpc pc).1 = pc := by
  unfold popPcValue pcWordsOf
  by_cases h : (cpc == 1) = true
  · simp only [h, if_true]; exact pc_of_halves pc
  · simp only [h]; exact pc_of_halves pc

/-! ## `PushPC` on an ordinary stack -/

/-- The machine after `PushPC` with both slots in ordinary memory. -/
def pushedPC (c : Core) (a1 a2 : U32) : Core :=
  { c with
    regs := { c.regs with sp := c.regs.sp - 2 }
    bus := { c.bus with mem := (c.bus.mem.write (stackCell a1) (pcWords c.regs).1).write
                                  (stackCell a2) (pcWords c.regs).2 }
    log := ⟨Mem.byteAddr a2, true, (pcWords c.regs).2⟩ ::
           ⟨Mem.byteAddr a1, true, (pcWords c.regs).1⟩ :: c.log }

theorem pushPC_ordinary (c : Core) (a1 a2 : U32)
    (h1 : OrdinaryAt c.bus (c.regs.sp - 1) a1) (h2 : OrdinaryAt c.bus (c.regs.sp - 2) a2) :
    pushPC.run c = .ok ((), pushedPC c a1 a2) := by
  rw [pushPC_run, busWrite_ordinary' c _ _ a1 h1]
  simp only [except_ok_bind]
  have e := busWrite_ordinary'
    ({ c with bus := { c.bus with mem := c.bus.mem.write (stackCell a1) (pcWords c.regs).1 }
              log := ⟨Mem.byteAddr a1, true, (pcWords c.regs).1⟩ :: c.log } : Core)
    (c.regs.sp - 2) (pcWords c.regs).2 a2 (h2.after_write _)
  rw [e]
  rfl

/-! ## return frames -/

/-- The top of the stack of `c` holds the return address `pc`, pushed from stack pointer `sp`:
`c.sp = sp - 2`, both slots are ordinary memory, slot `sp - 1` holds the first pushed word and slot
`sp - 2` the second, in the order of the *current* `cpc`. -/
structure ReturnFrame (c : Core) (sp : U16) (pc : U32) (a1 a2 : U32) : Prop where
  sp_eq : c.regs.sp = sp - 2
  ord1 : OrdinaryAt c.bus (sp - 1) a1
  ord2 : OrdinaryAt c.bus (sp - 2) a2
  word1 : c.bus.mem.read (stackCell a1) = (pcWordsOf c.regs.cpc pc).1
  word2 : c.bus.mem.read (stackCell a2) = (pcWordsOf c.regs.cpc pc).2

/-- `PushPC` builds the frame of the `pc` it was called with. -/
theorem pushPC_frame (c : Core) (a1 a2 : U32)
    (h1 : OrdinaryAt c.bus (c.regs.sp - 1) a1) (h2 : OrdinaryAt c.bus (c.regs.sp - 2) a2) :
    ReturnFrame (pushedPC c a1 a2) c.regs.sp c.regs.pc a1 a2 := by
  have hne : stackCell a1 ≠ stackCell a2 := h1.cell_ne h2 (sub_one_ne_sub_two _)
  refine ⟨rfl, h1.after_write _, h2.after_write _, ?_, ?_⟩
  · show ((c.bus.mem.write (stackCell a1) (pcWords c.regs).1).write (stackCell a2) (pcWords c.regs).2).read
      (stackCell a1) = _
    rw [Bus.Mem.read_write, if_neg hne, Bus.Mem.read_write, if_pos rfl]; rfl
  · show ((c.bus.mem.write (stackCell a1) (pcWords c.regs).1).write (stackCell a2) (pcWords c.regs).2).read
      (stackCell a2) = _
    rw [Bus.Mem.read_write, if_pos rfl]; rfl

/-- A frame only depends on `sp`, `cpc`, the MIU registers and the two memory words. -/
theorem ReturnFrame.of_eq {c c' : Core} {sp : U16} {pc a1 a2 : U32} (h : ReturnFrame c sp pc a1 a2)
    (hsp : c'.regs.sp = c.regs.sp) (hcpc : c'.regs.cpc = c.regs.cpc) (hmiu : c'.bus.miu = c.bus.miu)
    (hw1 : c'.bus.mem.read (stackCell a1) = c.bus.mem.read (stackCell a1))
    (hw2 : c'.bus.mem.read (stackCell a2) = c.bus.mem.read (stackCell a2)) :
    ReturnFrame c' sp pc a1 a2 :=
  ⟨hsp.trans h.sp_eq,
   ⟨by rw [hmiu]; exact h.ord1.notMmio, by rw [hmiu]; exact h.ord1.convert, h.ord1.inRange⟩,
   ⟨by rw [hmiu]; exact h.ord2.notMmio, by rw [hmiu]; exact h.ord2.convert, h.ord2.inRange⟩,
   by rw [hw1, hcpc]; exact h.word1, by rw [hw2, hcpc]; exact h.word2⟩

/-- Changing registers other than `sp` and `cpc` keeps the frame. -/
theorem ReturnFrame.setRegs {c : Core} {sp : U16} {pc a1 a2 : U32} (h : ReturnFrame c sp pc a1 a2)
    (r : Regs) (hsp : r.sp = c.regs.sp) (hcpc : r.cpc = c.regs.cpc) :
    ReturnFrame { c with regs := r } sp pc a1 a2 :=
  h.of_eq hsp hcpc rfl rfl rfl

/-- The machine after `PopPC` on a frame. -/
def poppedPC (c : Core) (sp : U16) (pc : U32) (a1 a2 : U32) : Core :=
  { c with regs := { c.regs with sp := sp, pc := pc }
           log := ⟨Mem.byteAddr a1, false, 0⟩ :: ⟨Mem.byteAddr a2, false, 0⟩ :: c.log }

/-- **`PopPC` on a frame**: `pc` is the address that was pushed and `sp` the stack pointer it was
pushed from; two reads are logged; nothing else changes.  (`SetPC` `ASSERT`s `pc < 0x40000`.) -/
theorem popPC_frame (c : Core) (sp : U16) (pc a1 a2 : U32) (h : ReturnFrame c sp pc a1 a2)
    (hpc : pc.toNat < 0x40000) :
    popPC.run c = .ok ((), poppedPC c sp pc a1 a2) := by
  have o2 : OrdinaryAt c.bus c.regs.sp a2 := by rw [h.sp_eq]; exact h.ord2
  have o1 : OrdinaryAt c.bus (c.regs.sp + 1) a1 := by rw [h.sp_eq, sub_two_add_one]; exact h.ord1
  rw [popPC_run, busRead_ordinary c _ a2 o2]
  simp only [except_ok_bind]
  have e := busRead_ordinary ({ c with log := ⟨Mem.byteAddr a2, false, 0⟩ :: c.log } : Core)
    (c.regs.sp + 1) a1 o1
  rw [e]
  simp only [except_ok_bind]
  have hv : popPcValue c.regs.cpc (c.bus.mem.read (stackCell a2)) (c.bus.mem.read (stackCell a1)) = pc := by
    rw [h.word1, h.word2]; exact popPcValue_pcWordsOf _ _
  show (if (popPcValue c.regs.cpc (c.bus.mem.read (stackCell a2)) (c.bus.mem.read (stackCell a1))).toNat < 0x40000
    then _ else _) = _
  rw [hv, if_pos hpc, h.sp_eq, sub_two_add_two]
  rfl

/-- With a return address outside the 18-bit program space `PopPC` stops at the `ASSERT` of
`SetPC` (the C++ `ASSERT(new_pc < 0x40000)`). -/
theorem popPC_frame_assert (c : Core) (sp : U16) (pc a1 a2 : U32) (h : ReturnFrame c sp pc a1 a2)
    (hpc : ¬ pc.toNat < 0x40000) :
    popPC.run c = .error (.abort .assert) := by
  have o2 : OrdinaryAt c.bus c.regs.sp a2 := by rw [h.sp_eq]; exact h.ord2
  have o1 : OrdinaryAt c.bus (c.regs.sp + 1) a1 := by rw [h.sp_eq, sub_two_add_one]; exact h.ord1
  rw [popPC_run, busRead_ordinary c _ a2 o2]
  simp only [except_ok_bind]
  have e := busRead_ordinary ({ c with log := ⟨Mem.byteAddr a2, false, 0⟩ :: c.log } : Core)
    (c.regs.sp + 1) a1 o1
  rw [e]
  simp only [except_ok_bind]
  have hv : popPcValue c.regs.cpc (c.bus.mem.read (stackCell a2)) (c.bus.mem.read (stackCell a1)) = pc := by
    rw [h.word1, h.word2]; exact popPcValue_pcWordsOf _ _
  show (if (popPcValue c.regs.cpc (c.bus.mem.read (stackCell a2)) (c.bus.mem.read (stackCell a1))).toNat < 0x40000
    then _ else _) = _
  rw [hv, if_neg hpc]

/-! ## `PushPC ; PopPC` -/

/-- The machine after a `PushPC` / `PopPC` pair: registers as before; the two stack slots hold the
halves of `pc`; four accesses logged. -/
def afterPushPopPC (c : Core) (a1 a2 : U32) : Core :=
  { c with
    bus := { c.bus with mem := (c.bus.mem.write (stackCell a1) (pcWords c.regs).1).write
                                  (stackCell a2) (pcWords c.regs).2 }
    log := ⟨Mem.byteAddr a1, false, 0⟩ :: ⟨Mem.byteAddr a2, false, 0⟩ ::
           ⟨Mem.byteAddr a2, true, (pcWords c.regs).2⟩ ::
           ⟨Mem.byteAddr a1, true, (pcWords c.regs).1⟩ :: c.log }

theorem regs_eta_sp_pc (r : Regs) : ({ r with sp := r.sp, pc := r.pc } : Regs) = r := rfl

/-- **`PushPC` then `PopPC`** restores `pc` and `sp` — the whole register file — for both values
of `cpc` (no case distinction is needed in the statement: `pcWords`/`popPcValue` follow `cpc`).
`SetPC` does not mask: it `ASSERT`s `pc < 0x40000`, hence the hypothesis on `pc`
(`pushPC_popPC_assert` is the other case). -/
theorem pushPC_popPC (c : Core) (a1 a2 : U32)
    (h1 : OrdinaryAt c.bus (c.regs.sp - 1) a1) (h2 : OrdinaryAt c.bus (c.regs.sp - 2) a2)
    (hpc : c.regs.pc.toNat < 0x40000) :
    (do pushPC; popPC : Exec Unit).run c = .ok ((), afterPushPopPC c a1 a2) := by
  rw [run_bind, pushPC_ordinary c a1 a2 h1 h2]
  simp only [except_ok_bind]
  rw [popPC_frame _ _ _ _ _ (pushPC_frame c a1 a2 h1 h2) hpc]
  rfl

theorem pushPC_popPC_assert (c : Core) (a1 a2 : U32)
    (h1 : OrdinaryAt c.bus (c.regs.sp - 1) a1) (h2 : OrdinaryAt c.bus (c.regs.sp - 2) a2)
    (hpc : ¬ c.regs.pc.toNat < 0x40000) :
    (do pushPC; popPC : Exec Unit).run c = .error (.abort .assert) := by
  rw [run_bind, pushPC_ordinary c a1 a2 h1 h2]
  simp only [except_ok_bind]
  exact popPC_frame_assert _ _ _ _ _ (pushPC_frame c a1 a2 h1 h2) hpc

/-- The two instances the property names. -/
theorem pushPC_popPC_both_orders (c : Core) (a1 a2 : U32)
    (h1 : OrdinaryAt c.bus (c.regs.sp - 1) a1) (h2 : OrdinaryAt c.bus (c.regs.sp - 2) a2)
    (hpc : c.regs.pc.toNat < 0x40000) :
    (c.regs.cpc = 1 →
      (do pushPC; popPC : Exec Unit).run c = .ok ((), afterPushPopPC c a1 a2) ∧
      (afterPushPopPC c a1 a2).bus.mem.read (stackCell a2) = (c.regs.pc &&& 0xFFFF).setWidth 16 ∧
      (afterPushPopPC c a1 a2).bus.mem.read (stackCell a1) = (c.regs.pc >>> 16).setWidth 16) ∧
    (c.regs.cpc ≠ 1 →
      (do pushPC; popPC : Exec Unit).run c = .ok ((), afterPushPopPC c a1 a2) ∧
      (afterPushPopPC c a1 a2).bus.mem.read (stackCell a2) = (c.regs.pc >>> 16).setWidth 16 ∧
      (afterPushPopPC c a1 a2).bus.mem.read (stackCell a1) = (c.regs.pc &&& 0xFFFF).setWidth 16) := by
  have hne : stackCell a1 ≠ stackCell a2 := h1.cell_ne h2 (sub_one_ne_sub_two _)
  have r2 : (afterPushPopPC c a1 a2).bus.mem.read (stackCell a2) = (pcWords c.regs).2 := by
    show ((c.bus.mem.write _ _).write _ _).read _ = _
    rw [Bus.Mem.read_write, if_pos rfl]
  have r1 : (afterPushPopPC c a1 a2).bus.mem.read (stackCell a1) = (pcWords c.regs).1 := by
    show ((c.bus.mem.write _ _).write _ _).read _ = _
    rw [Bus.Mem.read_write, if_neg hne, Bus.Mem.read_write, if_pos rfl]
  constructor
  · intro h
    rw [r1, r2, (pcWords_cpc c.regs).1 h]
    exact ⟨pushPC_popPC c a1 a2 h1 h2 hpc, rfl, rfl⟩
  · intro h
    rw [r1, r2, (pcWords_cpc c.regs).2 h]
    exact ⟨pushPC_popPC c a1 a2 h1 h2 hpc, rfl, rfl⟩

end Teakra
