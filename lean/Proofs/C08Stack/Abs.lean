import Proofs.C08Stack.Acc
import Proofs.C20Golden
/-!
# C08 (stack part 10) — the pseudo-register words of the interpreter model, through C20

`Interp.wordGet` / `Interp.wordSet` (`TeakraModel/Interp.lean`) are `PseudoRegister::Get/Set` on
the interpreter's `Regs`; `Regs.getWord` / `Regs.setWord` (`TeakraModel/RegFile.lean`) are the same
on the generic cell file the layout theorems of `Proofs/C20.lean` are about.  `absFile` maps the
first to the second, so that `getWordR_field` (C20: on a state whose members fit their slots, the
bits of a slot are the member) transfers to the interpreter model.
-/
namespace Teakra
open Teakra Exec ExecLemmas Interp Sys RegName
open Teakra.Regs (RegFile RSlot Slot ProxyKind resolve proxyGet getWordR getWord fieldVal cellOf
  cellKeys nCells layouts Fits wordOk slotOk)

/-- The cell file seen by the pseudo-registers of the interpreter's register state. -/
def absFile (r : Regs) : RegFile :=
  ⟨(cellKeys.map (fun p => r.getF p.1 p.2)).toArray, r.a[0], r.a[1]⟩

theorem absFile_getC (r : Regs) (name : String) (idx : Nat) (h : cellOf name idx < nCells) :
    (absFile r).getC (cellOf name idx) = r.getF name idx := by
  unfold absFile RegFile.getC cellOf at *
  unfold nCells at h
  have h' : List.idxOf (name, idx) cellKeys < (cellKeys.map (fun p => r.getF p.1 p.2)).length := by
    rw [List.length_map]; exact h
  rw [Array.getD_eq_getD_getElem?]
  simp only [List.getElem?_toArray, List.getElem?_map, List.getElem?_eq_getElem h, Option.map_some,
    Option.getD_some, List.getElem_idxOf h]

/-- Every slot kind reads the same through both models (for slots whose members exist). -/
theorem slotGet_abs (r : Regs) (s : Slot) (hok : slotOk (resolve s) = true) :
    slotGet r s = proxyGet (resolve s) (absFile r) := by
  unfold slotGet proxyGet
  simp only [slotOk, Bool.and_eq_true, decide_eq_true_eq] at hok
  obtain ⟨_, hok⟩ := hok
  rw [Regs.resolve_kind] at hok ⊢
  cases hk : s.kind <;> simp only [hk, decide_eq_true_eq] at hok ⊢
  · have e : (resolve s).c1 = cellOf s.field s.index := by simp [resolve, hk]
    rw [e] at hok ⊢
    rw [absFile_getC r _ _ hok.1]
  · have e : (resolve s).c1 = cellOf s.field s.index := by simp [resolve, hk]
    rw [e] at hok ⊢
    rw [absFile_getC r _ _ hok.1]
  · have e1 : (resolve s).c1 = cellOf s.field 0 := by simp [resolve, hk]
    have e2 : (resolve s).c2 = cellOf s.field2 0 := by simp [resolve, hk]
    rw [e1, e2] at hok ⊢
    rw [absFile_getC r _ _ hok.1, absFile_getC r _ _ hok.2.1]
  · have e1 : (resolve s).c1 = s.index := by simp [resolve, hk]
    rw [e1] at hok ⊢
    have hi : s.index = 0 ∨ s.index = 1 := by omega
    have g0 : r.a.toArray.getD 0 0 = r.a[0] := by simp [Array.getD]
    have g1 : r.a.toArray.getD 1 0 = r.a[1] := by simp [Array.getD]
    rcases hi with h0 | h1
    · rw [h0, g0]; rfl
    · rw [h1, g1]; rfl
  · have e1 : (resolve s).c1 = cellOf "lp" 0 := by simp [resolve, hk]
    rw [e1] at hok ⊢
    rw [absFile_getC r _ _ hok.1]
    rfl

private theorem foldl_congr_mem {α β : Type} (l : List α) (f g : β → α → β) (b : β)
    (h : ∀ a ∈ l, ∀ b, f b a = g b a) : l.foldl f b = l.foldl g b := by
  induction l generalizing b with
  | nil => rfl
  | cons a l ih =>
    simp only [List.foldl_cons]
    rw [h a List.mem_cons_self, ih _ (fun a' ha' => h a' (List.mem_cons_of_mem _ ha'))]

/-- `RegisterState::Get<word>()` is the same in both models. -/
theorem wordGet_abs (r : Regs) (slots : List Slot) (hok : wordOk (slots.map resolve) = true) :
    wordGet slots r = getWord slots (absFile r) := by
  unfold wordGet getWord getWordR
  rw [List.foldl_map]
  congr 1
  apply foldl_congr_mem
  intro s hs acc
  rw [slotGet_abs r s (Regs.wordOk_slot hok (Regs.mem_resolve hs)), Regs.resolve_pos]

/-- The mask of `PseudoRegister::Set` in both models. -/
theorem ofNat_lowMask : ∀ len, len ≤ 16 → BitVec.ofNat 16 (2 ^ len - 1) = Regs.lowMask len := by decide

/-- The members of the status words fit their slots: the hardware-width invariant, restricted to
what the slot list `slots` shows. -/
def WordFits (r : Regs) (slots : List Slot) : Prop := ∀ s ∈ slots, (slotGet r s).toNat < 2 ^ s.len

instance (r : Regs) (slots : List Slot) : Decidable (WordFits r slots) :=
  inferInstanceAs (Decidable (∀ s ∈ slots, _))

/-- **Field view on the interpreter model** (C20 `getWordR_field` transported): on a state whose
members fit their slots, the bits of each slot of a word of the layout table are the value the
slot's proxy reads. -/
theorem wordGet_field (r : Regs) (w : String × List Slot) (hw : w ∈ Regs.Golden.layouts)
    (hf : WordFits r w.2) (s : Slot) (hs : s ∈ w.2) :
    (wordGet w.2 r >>> s.pos) &&& BitVec.ofNat 16 (2 ^ s.len - 1) = slotGet r s := by
  have hw' : w ∈ layouts := by rw [Regs.layouts_eq_golden]; exact hw
  have hok := Regs.layouts_ok hw'
  have hsl := Regs.wordOk_slot hok (Regs.mem_resolve hs)
  have hlen := Regs.slotOk_len hsl
  rw [Regs.resolve_len, Regs.resolve_pos] at hlen
  have hfits : Fits (w.2.map resolve) (absFile r) := by
    intro r' hr'
    obtain ⟨s', hs', rfl⟩ := List.mem_map.mp hr'
    rw [← slotGet_abs r s' (Regs.wordOk_slot hok hr'), Regs.resolve_len]
    exact hf s' hs'
  have := Regs.getWordR_field hok hfits (Regs.mem_resolve hs)
  rw [Regs.resolve_pos, Regs.resolve_len, ← slotGet_abs r s hsl] at this
  rw [ofNat_lowMask _ (by omega), wordGet_abs r w.2 hok]
  exact this

/-- **Set after get.**  If every slot's proxy is idempotent on `r` (`slotSet r s (slotGet r s) = r`),
writing a word back with the value just read leaves the register file unchanged. -/
theorem wordSet_wordGet (r : Regs) (w : String × List Slot) (hw : w ∈ Regs.Golden.layouts)
    (hf : WordFits r w.2) (hid : ∀ s ∈ w.2, slotSet r s (slotGet r s) = r) :
    wordSet w.2 r (wordGet w.2 r) = r := by
  unfold wordSet
  suffices h : ∀ l : List Slot, (∀ s ∈ l, s ∈ w.2) →
      l.foldl (fun r' s => slotSet r' s ((wordGet w.2 r >>> s.pos) &&& BitVec.ofNat 16 (2 ^ s.len - 1))) r = r from
    h w.2 (fun _ h => h)
  intro l
  induction l with
  | nil => intro _; rfl
  | cons s l ih =>
    intro hl
    rw [List.foldl_cons, wordGet_field r w hw hf s (hl s List.mem_cons_self), hid s (hl s List.mem_cons_self)]
    exact ih (fun s' hs' => hl s' (List.mem_cons_of_mem _ hs'))

end Teakra
